(* Properties/C20.v — C20: random generation stays in range, is unbiased by construction, fills every bit.
   Every theorem is about coq/Model/Random.v (tied to /repo/src/random.rs by the correspondence check)
   and holds for ALL digit widths w > 0 (w = 8k where bytes are decoded), ALL digit counts n >= 1 and
   ALL RNG streams: the stream `s` is a universally quantified argument (the RNG is an oracle).
   Facts about widening_mul / wrapping add, sub / rem / shl / leading_zeros (other properties' models)
   appear as explicit premises `.._spec ->` (Proofs/RandomDeps.v); nothing is assumed globally.
   `tval sg` reads a bit pattern as the type does: uval for BUint (sg = false), sval for BInt (sg = true). *)
From Bnum Require Import Base Prim.
From Bnum.Model Require Import Digit Core Shift AddSub Mul Div Bits Random.
From Bnum.Proofs Require Import RandomZ RandomDeps Random.
From Bnum.Proofs Require Import DischargeRandom.

(* ---------- accept_bij (DESIGN A.5): pure arithmetic, every BITS ---------- *)

Theorem C20_accept_bij : forall M range zone q,
  0 < range -> range < M -> zone + 1 = range * q -> 0 <= zone < M ->
  forall h, 0 <= h < range ->
    let v0 := v0_of M range h in
    (0 <= v0 /\ v0 + q <= M) /\
    forall v, 0 <= v ->
      ((lo_of M range v <= zone /\ hi_of M range v = h) <-> (v0 <= v < v0 + q)).
Proof. exact accept_bij. Qed.
Print Assumptions C20_accept_bij.

(* counting form: among ALL words 0 .. M-1 exactly q are accepted with offset h, for every h < range *)
Theorem C20_accept_count : forall M range zone q,
  0 < range -> range < M -> zone + 1 = range * q -> 0 <= zone < M ->
  forall h, 0 <= h < range -> count_words (accepts M range zone h) (Z.to_nat M) 0 = q.
Proof. exact accept_count. Qed.
Print Assumptions C20_accept_count.

(* the same on the model's digit arrays: one loop iteration accepts word v with offset h iff
   v0(h) <= uval v < v0(h) + q *)
Theorem C20_model_accept_bij : forall w n range zone q,
  0 < w -> wf w n range -> wf w n zone -> 0 < uval w range ->
  uval w zone + 1 = uval w range * q ->
  forall h, 0 <= h < uval w range ->
    let M := Mod w n in
    let v0 := v0_of M (uval w range) h in
    (0 <= v0 /\ v0 + q <= M) /\
    forall v, wf w n v ->
      ((cmp_le (ucmp (fst (U_widening_mul w v range)) zone) = true /\
        uval w (snd (U_widening_mul w v range)) = h) <-> v0 <= uval w v < v0 + q).
Proof. exact (model_accept_bij widening_mul_spec_holds). Qed.
Print Assumptions C20_model_accept_bij.

(* unbiased by construction: for EVERY value t of [low, high] (signed ranges spanning zero included)
   the words on which one iteration of the loop returns t are v0(t-low) .. v0(t-low)+q-1 — q of them *)
Theorem C20_one_draw_preimages : forall sg w n low high zone q,
  0 < w -> (0 < n)%nat -> wf w n low -> wf w n high -> wf w n zone ->
  tval sg w low <= tval sg w high ->
  let range := range_of sg w low high in
  uval w range <> 0 ->
  uval w zone + 1 = uval w range * q ->
  forall t, tval sg w low <= t <= tval sg w high ->
    let v0 := v0_of (Mod w n) (uval w range) (t - tval sg w low) in
    (0 <= v0 /\ v0 + q <= Mod w n) /\
    forall v, wf w n v ->
      ((exists r, one_draw sg w low range zone v = Some r /\ tval sg w r = t) <-> v0 <= uval w v < v0 + q).
Proof. exact (one_draw_preimages widening_mul_spec_holds wrapping_add_spec_holds wrapping_sub_spec_holds). Qed.
Print Assumptions C20_one_draw_preimages.

(* one_draw is what the loop does with the word it reads *)
Theorem C20_loop_is_one_draw : forall f sg w low range zone s v rest,
  U_standard w (length low) s = RVal v rest ->
  sample_loop (S f) sg w low range zone s =
    match one_draw sg w low range zone v with
    | Some r => RVal r rest
    | None => sample_loop f sg w low range zone rest
    end.
Proof. exact sample_loop_one_draw. Qed.
Print Assumptions C20_loop_is_one_draw.

(* ... and with the zone the code itself computes (sample_single_inclusive: either formula;
   Uniform::sample: MAX - z): every value of a non-full range has the same number q > 0 of preimages *)
Theorem C20_sample_single_inclusive_unbiased :
  forall sg dbg w n low high zone,
  0 < w -> (0 < n)%nat -> wf w n low -> wf w n high ->
  tval sg w low <= tval sg w high ->
  uval w (range_of sg w low high) <> 0 ->
  single_zone dbg w (range_of sg w low high) = Ret zone ->
  equal_preimages sg w n low high zone.
Proof. exact (sample_single_inclusive_unbiased widening_mul_spec_holds wrapping_add_spec_holds wrapping_sub_spec_holds rem_spec_holds shl_spec_holds leading_zeros_spec_holds). Qed.
Print Assumptions C20_sample_single_inclusive_unbiased.

Theorem C20_uniform_sample_unbiased :
  forall sg dbg w n low high u zone,
  0 < w -> (0 < n)%nat -> wf w n low -> wf w n high ->
  tval sg w low <= tval sg w high ->
  uval w (range_of sg w low high) <> 0 ->
  uniform_new_inclusive sg dbg w low high = Ret u ->
  U_sub dbg w (UMAX w (length (u_range u))) (u_z u) = Ret zone ->
  equal_preimages sg w n low high zone.
Proof. exact (uniform_sample_unbiased widening_mul_spec_holds wrapping_add_spec_holds wrapping_sub_spec_holds rem_spec_holds). Qed.
Print Assumptions C20_uniform_sample_unbiased.

(* ---------- zone_ok ---------- *)

Theorem C20_zone_ok_rem : forall M range, 0 < range -> range < M ->
  let zone := (M - 1) - ((M - 1 - range + 1) mod range) in
  zone + 1 = range * (M / range) /\ 0 <= zone < M /\ (zone + 1) mod range = 0.
Proof. exact zone_ok_rem. Qed.
Print Assumptions C20_zone_ok_rem.

Theorem C20_zone_ok_shift : forall BITS range, 0 < range -> range < 2 ^ BITS -> 0 <= BITS ->
  let M := 2 ^ BITS in
  let lz := BITS - (Z.log2 range + 1) in
  let zone := (((range * 2 ^ lz) mod M) - 1) mod M in
  0 <= lz /\ zone + 1 = range * 2 ^ lz /\ 0 <= zone < M /\ (zone + 1) mod range = 0.
Proof. exact zone_ok_shift. Qed.
Print Assumptions C20_zone_ok_shift.

(* the zone computed by sample_single_inclusive (either formula), whenever it is computed *)
Theorem C20_single_zone_ok : forall dbg w n range zone,
  0 < w -> (0 < n)%nat -> wf w n range -> 0 < uval w range ->
  single_zone dbg w range = Ret zone ->
  wf w n zone /\ 0 <= uval w zone < Mod w n /\
  exists q, uval w zone + 1 = uval w range * q /\
            (q = Mod w n / uval w range \/ q = 2 ^ (bits w n - bitlen (uval w range))).
Proof. exact (single_zone_ok wrapping_sub_spec_holds rem_spec_holds shl_spec_holds leading_zeros_spec_holds). Qed.
Print Assumptions C20_single_zone_ok.

(* the zone used by Uniform::sample: MAX - z with z as stored by new_inclusive *)
Theorem C20_uniform_zone_ok : forall sg dbg w n low high u zone,
  0 < w -> (0 < n)%nat -> wf w n low -> wf w n (range_of sg w low high) -> 0 < uval w (range_of sg w low high) ->
  uniform_new_inclusive sg dbg w low high = Ret u ->
  U_sub dbg w (UMAX w (length (u_range u))) (u_z u) = Ret zone ->
  wf w n zone /\ 0 <= uval w zone < Mod w n /\
  uval w zone + 1 = uval w (u_range u) * (Mod w n / uval w (u_range u)).
Proof. exact (uniform_zone_ok wrapping_sub_spec_holds rem_spec_holds). Qed.
Print Assumptions C20_uniform_zone_ok.

(* ---------- standard: little-endian decoding, all 2^BITS values reachable ---------- *)

Theorem C20_standard_decode : forall k n s, 0 < k -> bytes_ok s -> (BYTES (8 * k) n <= length s)%nat ->
  exists v, U_standard (8 * k) n s = RVal v (skipn (BYTES (8 * k) n) s) /\
            wf (8 * k) n v /\ uval (8 * k) v = uval 8 (firstn (BYTES (8 * k) n) s).
Proof. exact standard_decode. Qed.
Print Assumptions C20_standard_decode.

Theorem C20_standard_short : forall w n s, (length s < BYTES w n)%nat -> U_standard w n s = ROutOfStream.
Proof. exact U_standard_short. Qed.
Print Assumptions C20_standard_short.

Theorem C20_standard_signed : forall w n s, I_standard w n s = U_standard w n s.
Proof. exact I_standard_is_U. Qed.
Print Assumptions C20_standard_signed.

Theorem C20_decode_le_injective : forall m a b, wf 8 m a -> wf 8 m b -> uval 8 a = uval 8 b -> a = b.
Proof. exact decode_le_injective. Qed.
Print Assumptions C20_decode_le_injective.

Theorem C20_decode_le_range : forall k n bs, 0 < k -> wf 8 (BYTES (8 * k) n) bs -> 0 <= uval 8 bs < Mod (8 * k) n.
Proof. exact decode_le_range. Qed.
Print Assumptions C20_decode_le_range.

Theorem C20_decode_le_surjective : forall k n x, 0 < k -> 0 <= x < Mod (8 * k) n ->
  let bs := digits_of 8 (BYTES (8 * k) n) x in wf 8 (BYTES (8 * k) n) bs /\ uval 8 bs = x.
Proof. exact decode_le_surjective. Qed.
Print Assumptions C20_decode_le_surjective.

Theorem C20_standard_reachable : forall k n x rest, 0 < k -> 0 <= x < Mod (8 * k) n ->
  exists bs v, wf 8 (BYTES (8 * k) n) bs /\ U_standard (8 * k) n (bs ++ rest) = RVal v rest /\
               wf (8 * k) n v /\ uval (8 * k) v = x.
Proof. exact standard_reachable. Qed.
Print Assumptions C20_standard_reachable.

(* ---------- fill_slice ---------- *)

Theorem C20_fill_slice_each : forall w n len s, try_fill_slice w n len s = standard_each w n len s.
Proof. exact fill_slice_each. Qed.
Print Assumptions C20_fill_slice_each.

Theorem C20_fill_slice_element : forall w n len s vs rest i,
  try_fill_slice w n len s = RVal vs rest -> (i < len)%nat ->
  nth_error vs i = Some (digits_of_bytes w n (firstn (BYTES w n) (skipn (i * BYTES w n) s))) /\
  rest = skipn (len * BYTES w n) s /\ length vs = len.
Proof. exact fill_slice_element. Qed.
Print Assumptions C20_fill_slice_element.

(* ---------- in_range ---------- *)

Theorem C20_sample_single_inclusive_in_range : forall fuel sg dbg w n low high s r rest,
  0 < w -> (0 < n)%nat -> wf w n low -> wf w n high -> bytes_ok s ->
  tval sg w low <= tval sg w high ->
  sample_single_inclusive fuel sg dbg w low high s = RVal r rest ->
  wf w n r /\ tval sg w low <= tval sg w r <= tval sg w high.
Proof. exact (sample_single_inclusive_in_range widening_mul_spec_holds wrapping_add_spec_holds wrapping_sub_spec_holds). Qed.
Print Assumptions C20_sample_single_inclusive_in_range.

Theorem C20_uniform_new_inclusive_sample_in_range : forall fuel sg dbg w n low high s r rest,
  0 < w -> (0 < n)%nat -> wf w n low -> wf w n high -> bytes_ok s ->
  tval sg w low <= tval sg w high ->
  uniform_new_inclusive_sample fuel sg dbg w low high s = RVal r rest ->
  wf w n r /\ tval sg w low <= tval sg w r <= tval sg w high.
Proof. exact (uniform_new_inclusive_sample_in_range widening_mul_spec_holds wrapping_add_spec_holds wrapping_sub_spec_holds). Qed.
Print Assumptions C20_uniform_new_inclusive_sample_in_range.

Theorem C20_sample_single_in_range :
  forall fuel sg dbg w n low high s r rest,
  0 < w -> (0 < n)%nat -> wf w n low -> wf w n high -> bytes_ok s ->
  tval sg w low < tval sg w high ->
  sample_single fuel sg dbg w low high s = RVal r rest ->
  wf w n r /\ tval sg w low <= tval sg w r < tval sg w high.
Proof. exact (sample_single_in_range widening_mul_spec_holds wrapping_add_spec_holds wrapping_sub_spec_holds I_overflowing_sub_spec_holds). Qed.
Print Assumptions C20_sample_single_in_range.

Theorem C20_uniform_new_sample_in_range :
  forall fuel sg dbg w n low high s r rest,
  0 < w -> (0 < n)%nat -> wf w n low -> wf w n high -> bytes_ok s ->
  tval sg w low < tval sg w high ->
  uniform_new_sample fuel sg dbg w low high s = RVal r rest ->
  wf w n r /\ tval sg w low <= tval sg w r < tval sg w high.
Proof. exact (uniform_new_sample_in_range widening_mul_spec_holds wrapping_add_spec_holds wrapping_sub_spec_holds I_overflowing_sub_spec_holds). Qed.
Print Assumptions C20_uniform_new_sample_in_range.

(* Rng::gen_range, spelled out for the two readings *)
Theorem C20_gen_range_inclusive_unsigned :
  forall fuel dbg w n low high s r rest,
    0 < w -> (0 < n)%nat -> wf w n low -> wf w n high -> bytes_ok s ->
    uval w low <= uval w high ->
    gen_range_inclusive fuel false dbg w low high s = RVal r rest ->
    wf w n r /\ uval w low <= uval w r <= uval w high.
Proof. exact (U_gen_range_inclusive_in_range range_premises_holds). Qed.
Print Assumptions C20_gen_range_inclusive_unsigned.

Theorem C20_gen_range_inclusive_signed :
  forall fuel dbg w n low high s r rest,
    0 < w -> (0 < n)%nat -> wf w n low -> wf w n high -> bytes_ok s ->
    sval w low <= sval w high ->
    gen_range_inclusive fuel true dbg w low high s = RVal r rest ->
    wf w n r /\ sval w low <= sval w r <= sval w high.
Proof. exact (I_gen_range_inclusive_in_range range_premises_holds). Qed.
Print Assumptions C20_gen_range_inclusive_signed.

Theorem C20_gen_range_unsigned :
  forall fuel dbg w n low high s r rest,
    0 < w -> (0 < n)%nat -> wf w n low -> wf w n high -> bytes_ok s ->
    uval w low < uval w high ->
    gen_range fuel false dbg w low high s = RVal r rest ->
    wf w n r /\ uval w low <= uval w r < uval w high.
Proof. exact (U_gen_range_in_range range_premises_holds I_overflowing_sub_spec_holds). Qed.
Print Assumptions C20_gen_range_unsigned.

Theorem C20_gen_range_signed :
  forall fuel dbg w n low high s r rest,
    0 < w -> (0 < n)%nat -> wf w n low -> wf w n high -> bytes_ok s ->
    sval w low < sval w high ->
    gen_range fuel true dbg w low high s = RVal r rest ->
    wf w n r /\ sval w low <= sval w r < sval w high.
Proof. exact (I_gen_range_in_range range_premises_holds I_overflowing_sub_spec_holds). Qed.
Print Assumptions C20_gen_range_signed.

(* ---------- in_range, total form ----------
   With the fuel the run table passes, on ANY stream, each entry point returns a value inside the range or
   reports that the script ran dry: never a panic (debug or release), never the out-of-fuel marker.
   (BYTES > 0 is w >= 8; the exclusive forms need w > 1: at one bit `ONE` is -1 in the signed reading.) *)

Theorem C20_sample_single_inclusive_total :
  forall sg dbg w n low high s,
  0 < w -> (0 < n)%nat -> (0 < BYTES w n)%nat -> wf w n low -> wf w n high -> bytes_ok s ->
  tval sg w low <= tval sg w high ->
  sample_single_inclusive (fuel_for s) sg dbg w low high s = ROutOfStream \/
  exists r rest, sample_single_inclusive (fuel_for s) sg dbg w low high s = RVal r rest /\
                 wf w n r /\ tval sg w low <= tval sg w r <= tval sg w high.
Proof. exact (sample_single_inclusive_total widening_mul_spec_holds wrapping_add_spec_holds wrapping_sub_spec_holds rem_spec_holds leading_zeros_spec_holds U_overflowing_sub_flag_spec_holds icmp_spec_holds). Qed.
Print Assumptions C20_sample_single_inclusive_total.

Theorem C20_uniform_new_inclusive_sample_total :
  forall sg dbg w n low high s,
  0 < w -> (0 < n)%nat -> (0 < BYTES w n)%nat -> wf w n low -> wf w n high -> bytes_ok s ->
  tval sg w low <= tval sg w high ->
  uniform_new_inclusive_sample (fuel_for s) sg dbg w low high s = ROutOfStream \/
  exists r rest, uniform_new_inclusive_sample (fuel_for s) sg dbg w low high s = RVal r rest /\
                 (wf w n r /\ tval sg w low <= tval sg w r <= tval sg w high).
Proof. exact (uniform_new_inclusive_sample_total widening_mul_spec_holds wrapping_add_spec_holds wrapping_sub_spec_holds rem_spec_holds U_overflowing_sub_flag_spec_holds icmp_spec_holds). Qed.
Print Assumptions C20_uniform_new_inclusive_sample_total.

Theorem C20_sample_single_total :
  forall sg dbg w n low high s,
  1 < w -> (0 < n)%nat -> (0 < BYTES w n)%nat -> wf w n low -> wf w n high -> bytes_ok s ->
  tval sg w low < tval sg w high ->
  sample_single (fuel_for s) sg dbg w low high s = ROutOfStream \/
  exists r rest, sample_single (fuel_for s) sg dbg w low high s = RVal r rest /\
                 (wf w n r /\ tval sg w low <= tval sg w r < tval sg w high).
Proof. exact (sample_single_total widening_mul_spec_holds wrapping_add_spec_holds wrapping_sub_spec_holds I_overflowing_sub_spec_holds rem_spec_holds leading_zeros_spec_holds U_overflowing_sub_flag_spec_holds I_overflowing_sub_flag_spec_holds icmp_spec_holds). Qed.
Print Assumptions C20_sample_single_total.

Theorem C20_uniform_new_sample_total :
  forall sg dbg w n low high s,
  1 < w -> (0 < n)%nat -> (0 < BYTES w n)%nat -> wf w n low -> wf w n high -> bytes_ok s ->
  tval sg w low < tval sg w high ->
  uniform_new_sample (fuel_for s) sg dbg w low high s = ROutOfStream \/
  exists r rest, uniform_new_sample (fuel_for s) sg dbg w low high s = RVal r rest /\
                 (wf w n r /\ tval sg w low <= tval sg w r < tval sg w high).
Proof. exact (uniform_new_sample_total widening_mul_spec_holds wrapping_add_spec_holds wrapping_sub_spec_holds I_overflowing_sub_spec_holds rem_spec_holds U_overflowing_sub_flag_spec_holds I_overflowing_sub_flag_spec_holds icmp_spec_holds). Qed.
Print Assumptions C20_uniform_new_sample_total.

Theorem C20_gen_range_total :
  forall sg dbg w n low high s,
  1 < w -> (0 < n)%nat -> (0 < BYTES w n)%nat -> wf w n low -> wf w n high -> bytes_ok s ->
  tval sg w low < tval sg w high ->
  gen_range (fuel_for s) sg dbg w low high s = ROutOfStream \/
  exists r rest, gen_range (fuel_for s) sg dbg w low high s = RVal r rest /\
                 (wf w n r /\ tval sg w low <= tval sg w r < tval sg w high).
Proof. exact (gen_range_total widening_mul_spec_holds wrapping_add_spec_holds wrapping_sub_spec_holds I_overflowing_sub_spec_holds rem_spec_holds leading_zeros_spec_holds U_overflowing_sub_flag_spec_holds I_overflowing_sub_flag_spec_holds icmp_spec_holds). Qed.
Print Assumptions C20_gen_range_total.

Theorem C20_gen_range_inclusive_total :
  forall sg dbg w n low high s,
  0 < w -> (0 < n)%nat -> (0 < BYTES w n)%nat -> wf w n low -> wf w n high -> bytes_ok s ->
  tval sg w low <= tval sg w high ->
  gen_range_inclusive (fuel_for s) sg dbg w low high s = ROutOfStream \/
  exists r rest, gen_range_inclusive (fuel_for s) sg dbg w low high s = RVal r rest /\
                 wf w n r /\ tval sg w low <= tval sg w r <= tval sg w high.
Proof. exact (gen_range_inclusive_total widening_mul_spec_holds wrapping_add_spec_holds wrapping_sub_spec_holds rem_spec_holds leading_zeros_spec_holds U_overflowing_sub_flag_spec_holds icmp_spec_holds). Qed.
Print Assumptions C20_gen_range_inclusive_total.

(* ---------- the model's own helpers ---------- *)

(* the out-of-fuel marker is never produced with the fuel the run table passes *)
Theorem C20_fuel_suffices : forall sg w low range zone s, (0 < BYTES w (length low))%nat ->
  sample_loop (fuel_for s) sg w low range zone s <> ROutOfFuel.
Proof. exact fuel_suffices. Qed.
Print Assumptions C20_fuel_suffices.

(* impl Add<Digit> for BUint (the `+ 1` of MAX - range + 1) *)
Theorem C20_add_digit : forall w n a d, 0 < w -> (0 < n)%nat -> wf w n a -> digit_ok w d ->
  exists r, U_add_digit w a d = Ret r /\ wf w n r /\ uval w r = (uval w a + d) mod Mod w n.
Proof. exact U_add_digit_spec. Qed.
Print Assumptions C20_add_digit.

(* ---------- the hypotheses are satisfiable ---------- *)

(* accept_bij at 8 bits, range 3: zone = 254 = 3*85 - 1 *)
Example C20_ex_accept_hyps : 0 < 3 /\ 3 < 256 /\ 254 + 1 = 3 * 85 /\ 0 <= 254 < 256.
Proof. lia. Qed.
Example C20_ex_zone_rem : (256 - 1) - ((256 - 1 - 3 + 1) mod 3) = 254.
Proof. reflexivity. Qed.
(* a 24-bit draw from [-2, 4] (signed, spans zero): first word rejected, second accepted *)
Example C20_ex_draw :
  sample_single_inclusive 10 true true 8 [254; 255; 255] [4; 0; 0] [255; 255; 255; 0; 0; 128; 9]
  = RVal [1; 0; 0] [9].
Proof. vm_compute. reflexivity. Qed.
Example C20_ex_draw_hyps :
  wf 8 3 [254; 255; 255] /\ wf 8 3 [4; 0; 0] /\ bytes_ok [255; 255; 255; 0; 0; 128; 9] /\
  tval true 8 [254; 255; 255] <= tval true 8 [4; 0; 0].
Proof.
  repeat split; try reflexivity; try (repeat constructor; unfold digit_ok, B; cbn; lia).
  vm_compute. discriminate.
Qed.
(* Standard on a 16-bit-digit type: bytes 1,2,3,4 -> digits 0x0201, 0x0403 *)
Example C20_ex_standard : U_standard 16 2 [1; 2; 3; 4; 5] = RVal [513; 1027] [5].
Proof. vm_compute. reflexivity. Qed.

(* ---- tie to the source: /repo/src/random.rs (cargo feature `rand`) is REGENERATED on every run (Generated/RandGen.v, tools/rs2v_rand.py):
   the two `Distribution<..> for Standard` impls, the Fill impls and BOTH expansions of `uniform_int_impl!` - ($BUint<N>, $BUint<N>) -> U_ functions,
   ($BInt<N>, $BUint<N>, to_bits, from_bits) -> I_ functions: `new`, `new_inclusive`, `sample`, `sample_single`, `sample_single_inclusive`
   with the rejection `loop`.  The generated code threads the model's own RNG representation (the byte stream `s`; vocabulary
   Model/ImpRand.v) and computes exactly the model's functions, for every digit width, digit count n, operands of n digits, stream,
   both build modes and EVERY budget: the generated loop and `sample_loop` spend one unit of fuel per draw, so `NoFuel` on the left
   is `ROutOfFuel` on the right.  `of_rres` reads the model's result type constructor by constructor (next theorem). ---- *)
From Bnum.Model Require Import Imp ImpRand.
From Bnum.Generated Require Import RandGen.
From Bnum.Proofs Require Import RandGenTie.
Theorem C20_rand_result_reading : forall (A : Type) (a : A) (rest : stream),
  of_rres (RVal a rest) = Done (Some (a, rest)) /\ of_rres (@RPanic A) = Panicked /\
  of_rres (@ROutOfStream A) = Done None /\ of_rres (@ROutOfFuel A) = NoFuel.
Proof. exact (fun A a rest => conj eq_refl (conj eq_refl (conj eq_refl eq_refl))). Qed.
Print Assumptions C20_rand_result_reading.
(* $BUint::widening_mul (src/buint/bigint_helpers.rs: two nested `while` loops over `low` / `high`), the `v.widening_mul(range)` of the
   rejection loop, REGENERATED on every run (RandGen.widening_mul): equal to the model's Mul.U_widening_mul (one 2N-digit accumulator) for
   every digit width, digit count, well-formed operands and fuel > N - in particular no index out of bounds, no `usize` underflow. *)
From Bnum.Proofs Require Import RandGenTieMul.
Theorem C20_rand_widening_mul_rs_matches_model : forall (w : Z) (n : nat) (a b : list Z), 0 < w -> wf w n a -> wf w n b ->
  forall fuel : nat, (S n <= fuel)%nat ->
  RandGen.widening_mul w (Z.of_nat n) fuel a b = Done (U_widening_mul w a b).
Proof. exact rand_widening_mul. Qed.
Print Assumptions C20_rand_widening_mul_rs_matches_model.
(* `impl Fill for Slice<$BUint<N>>` / `Slice<$BInt<N>>` (both expansions of fill_impl!) and `try_fill_slice`, REGENERATED on every run: equal to
   the model's try_fill_slice for every digit width, digit count, slice (any length, 0 included) and stream; the result carries the updated
   slice (`Ok(())`), `Done None` is the `Err` of a generator that ran dry (`?`).  The unsafe raw byte view of the slice is the modelled primitive
   ImpRand.rng_fill_raw; the tie shows that the byte count the code passes is the size of the whole slice. *)
From Bnum.Proofs Require Import RandGenTieFill.
Theorem C20_rand_fill_rs_matches_model : forall (w : Z) (n fuel : nat) (slice : list (list Z)) (s : stream),
  let N := Z.of_nat n in
  RandGen.U_try_fill w N fuel slice s = of_rres (U_try_fill_slice w n (length slice) s) /\
  RandGen.I_try_fill w N fuel slice s = of_rres (I_try_fill_slice w n (length slice) s) /\
  RandGen.U_try_fill_slice w N fuel slice s = of_rres (U_try_fill_slice w n (length slice) s) /\
  RandGen.I_try_fill_slice w N fuel slice s = of_rres (I_try_fill_slice w n (length slice) s).
Proof. exact rand_C20_fill_match_model. Qed.
Print Assumptions C20_rand_fill_rs_matches_model.
Theorem C20_rand_rs_matches_model : forall (dbg : bool) (w : Z) (n fuel : nat) (low high : list Z) (u : uniform) (s : stream),
  length low = n -> length high = n -> length (u_low u) = n -> length (u_range u) = n ->
  let N := Z.of_nat n in
  RandGen.U_standard w N fuel s = of_rres (U_standard w n s) /\
  RandGen.I_standard w N fuel s = of_rres (I_standard w n s) /\
  RandGen.U_uniform_new_inclusive dbg w N fuel low high = of_outcome (U_uniform_new_inclusive dbg w low high) /\
  RandGen.I_uniform_new_inclusive dbg w N fuel low high = of_outcome (I_uniform_new_inclusive dbg w low high) /\
  RandGen.U_uniform_new dbg w N fuel low high = of_outcome (U_uniform_new dbg w low high) /\
  RandGen.I_uniform_new dbg w N fuel low high = of_outcome (I_uniform_new dbg w low high) /\
  RandGen.U_uniform_sample dbg w N fuel u s = of_rres (uniform_sample fuel false dbg w u s) /\
  RandGen.I_uniform_sample dbg w N fuel u s = of_rres (uniform_sample fuel true dbg w u s) /\
  RandGen.U_sample_single_inclusive dbg w N fuel low high s = of_rres (U_sample_single_inclusive fuel dbg w low high s) /\
  RandGen.I_sample_single_inclusive dbg w N fuel low high s = of_rres (I_sample_single_inclusive fuel dbg w low high s) /\
  RandGen.U_sample_single dbg w N fuel low high s = of_rres (U_sample_single fuel dbg w low high s) /\
  RandGen.I_sample_single dbg w N fuel low high s = of_rres (I_sample_single fuel dbg w low high s).
Proof. exact rand_C20_match_model. Qed.
Print Assumptions C20_rand_rs_matches_model.

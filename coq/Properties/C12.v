(* Properties/C12.v — placeholder while the correspondence is being established *)
From Bnum Require Import Base.
Theorem C12_placeholder : 0 < 1.
Proof. exact Z.lt_0_1. Qed.
Print Assumptions C12_placeholder.

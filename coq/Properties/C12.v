(* Properties/C12.v — the formatting traits print what Rust prints for a primitive of the same value.
   Model: Model/Fmt.v (src/buint/fmt.rs, src/bint/fmt.rs).  Every impl ends in std's
   `Formatter::pad_integral(is_nonnegative, prefix, body)`; the theorems say, for ALL digit widths w (side
   conditions below), ALL digit counts n >= 1, ALL values, which triple is handed over — the format flags
   (width, fill, alignment, '+', '#', '0') only enter through pad_integral, so these statements hold for every
   flag combination.  The triple is stated against the canonical-numeral specification of Proofs/RadixSpec.v
   (digits below the radix, positional value, "0" for zero, no leading zero; unique), not against the
   algorithm.  std's pad_integral and the primitive `{:x}` / `{:b}` / `{}` are modelled and trusted
   (Model/Fmt.v header); they are validated against the real formatter by ./check C12.
   Side conditions: hex needs w a positive multiple of 4 (HEX_PADDING = w / 4; Rust has 8/16/32/64),
   binary any w > 0, the forms through to_str_radix (Display, Debug, Octal, LowerExp, UpperExp) w >= 8
   (C11).  No premises: the facts about div_rem_digit / is_negative / unsigned_abs are the proved ones. *)
From Bnum Require Import Base Prim.
From Bnum.Model Require Import Digit Core Shift AddSub Mul Div Bits RadixOut Fmt.
From Bnum.Proofs Require Import RadixSpec RadixOut Fmt.

(* ---------- the specification determines the text ---------- *)

Theorem C12_canonical_unique : forall r x a b,
  2 <= r -> canonical_le r x a -> canonical_le r x b -> a = b.
Proof. exact canonical_unique. Qed.
Print Assumptions C12_canonical_unique.

Theorem C12_canonical_exists : forall r x, 2 <= r -> 0 <= x -> exists ds, canonical_le r x ds.
Proof. exact canonical_exists. Qed.
Print Assumptions C12_canonical_exists.

(* digit characters: '0'..'9' then 'a'.. (lower) / 'A'.. (upper) *)
Theorem C12_ascii_lower : forall d, 0 <= d < 36 ->
  (d < 10 /\ ascii_lower d = 48 + d) \/ (10 <= d /\ ascii_lower d = 97 + (d - 10)).
Proof. exact ascii_lower_spec. Qed.
Print Assumptions C12_ascii_lower.
Theorem C12_ascii_upper : forall d, 0 <= d < 36 ->
  (d < 10 /\ ascii_upper d = 48 + d) \/ (10 <= d /\ ascii_upper d = 65 + (d - 10)).
Proof. exact ascii_upper_spec. Qed.
Print Assumptions C12_ascii_upper.

(* ---------- hex_concat: the digit-by-digit assembly of fmt_method! ---------- *)

(* for every radix r and padding p with r^p = 2^w: the numeral of the top non-zero digit followed by the
   numerals of all lower digits zero-padded to p characters is the canonical radix-r numeral of the whole
   value ("0" when every digit is zero; an interior all-zero digit contributes exactly p zeros) *)
Theorem C12_hex_concat : forall r upper p prefix w n a,
  2 <= r -> 1 <= p -> r ^ p = B w -> wf w n a ->
  exists ds, canonical_le r (uval w a) ds /\
             fmt_method r upper p prefix a = (true, prefix, map (digit_char upper) (rev ds)).
Proof. exact fmt_method_ok. Qed.
Print Assumptions C12_hex_concat.

(* ---------- unsigned ---------- *)

Theorem C12_U_LowerHex : forall w n a, 0 < w -> w mod 4 = 0 -> wf w n a ->
  forall ds, canonical_le 16 (uval w a) ds ->
  U_fmt_LowerHex w a = Some (Ret (true, str_0x, map ascii_lower (rev ds))).
Proof. exact U_fmt_LowerHex_ok. Qed.
Print Assumptions C12_U_LowerHex.

Theorem C12_U_UpperHex : forall w n a, 0 < w -> w mod 4 = 0 -> wf w n a ->
  forall ds, canonical_le 16 (uval w a) ds ->
  U_fmt_UpperHex w a = Some (Ret (true, str_0x, map ascii_upper (rev ds))).
Proof. exact U_fmt_UpperHex_ok. Qed.
Print Assumptions C12_U_UpperHex.

Theorem C12_U_Binary : forall w n a, 0 < w -> wf w n a ->
  forall ds, canonical_le 2 (uval w a) ds ->
  U_fmt_Binary w a = Some (Ret (true, str_0b, map ascii_lower (rev ds))).
Proof. exact U_fmt_Binary_ok. Qed.
Print Assumptions C12_U_Binary.

Theorem C12_U_Octal : forall w n a, 8 <= w -> wf w n a ->
  forall ds, canonical_le 8 (uval w a) ds ->
  U_fmt_Octal w a = Some (Ret (true, str_0o, map ascii_lower (rev ds))).
Proof. exact U_fmt_Octal_ok. Qed.
Print Assumptions C12_U_Octal.

Theorem C12_U_Display : forall w n a, 8 <= w -> wf w n a ->
  forall ds, canonical_le 10 (uval w a) ds ->
  U_fmt_Display w a = Some (Ret (true, [], map ascii_lower (rev ds))).
Proof. exact U_fmt_Display_ok. Qed.
Print Assumptions C12_U_Display.

Theorem C12_U_Debug : forall w n a, 8 <= w -> wf w n a ->
  forall ds, canonical_le 10 (uval w a) ds ->
  U_fmt_Debug w a = Some (Ret (true, [], map ascii_lower (rev ds))).
Proof. exact U_fmt_Display_ok. Qed.
Print Assumptions C12_U_Debug.

(* exponent forms: body = d [. rest] e k, where the decimal numeral of the value is d :: rest0, rest is
   rest0 without its trailing '0's (trimmed_of) and k = length rest0 printed in decimal; zero gives "0e0" *)
Theorem C12_U_LowerExp : forall w n a, 8 <= w -> wf w n a ->
  exists body, U_fmt_LowerExp w a = Some (Ret (true, [], body)) /\ exp_body_spec 101 (uval w a) body.
Proof. exact (exp_fmt_ok 101). Qed.
Print Assumptions C12_U_LowerExp.

Theorem C12_U_UpperExp : forall w n a, 8 <= w -> wf w n a ->
  exists body, U_fmt_UpperExp w a = Some (Ret (true, [], body)) /\ exp_body_spec 69 (uval w a) body.
Proof. exact (exp_fmt_ok 69). Qed.
Print Assumptions C12_U_UpperExp.

(* the exponent-form specification is functional: it names exactly one body *)
Theorem C12_exp_body_unique : forall e x b1 b2, exp_body_spec e x b1 -> exp_body_spec e x b2 -> b1 = b2.
Proof. exact exp_body_spec_unique. Qed.
Print Assumptions C12_exp_body_unique.
Theorem C12_trimmed_unique : forall c full t1 t2, trimmed_of c full t1 -> trimmed_of c full t2 -> t1 = t2.
Proof. exact trimmed_of_unique. Qed.
Print Assumptions C12_trimmed_unique.

(* ---------- signed: the two's complement bit pattern for the radix forms ---------- *)

Theorem C12_I_LowerHex : forall w n a, 0 < w -> w mod 4 = 0 -> wf w n a ->
  forall ds, canonical_le 16 (sval w a mod Mod w n) ds ->
  I_fmt_LowerHex w a = Some (Ret (true, str_0x, map ascii_lower (rev ds))).
Proof. exact I_fmt_LowerHex_ok. Qed.
Print Assumptions C12_I_LowerHex.

Theorem C12_I_UpperHex : forall w n a, 0 < w -> w mod 4 = 0 -> wf w n a ->
  forall ds, canonical_le 16 (sval w a mod Mod w n) ds ->
  I_fmt_UpperHex w a = Some (Ret (true, str_0x, map ascii_upper (rev ds))).
Proof. exact I_fmt_UpperHex_ok. Qed.
Print Assumptions C12_I_UpperHex.

Theorem C12_I_Binary : forall w n a, 0 < w -> wf w n a ->
  forall ds, canonical_le 2 (sval w a mod Mod w n) ds ->
  I_fmt_Binary w a = Some (Ret (true, str_0b, map ascii_lower (rev ds))).
Proof. exact I_fmt_Binary_ok. Qed.
Print Assumptions C12_I_Binary.

Theorem C12_I_Octal : forall w n a, 8 <= w -> wf w n a ->
  forall ds, canonical_le 8 (sval w a mod Mod w n) ds ->
  I_fmt_Octal w a = Some (Ret (true, str_0o, map ascii_lower (rev ds))).
Proof. exact I_fmt_Octal_ok. Qed.
Print Assumptions C12_I_Octal.

(* ---------- signed: sign flag and magnitude for Display / Debug / exponent forms ---------- *)
(* bnum formats the magnitude with a fresh flagless formatter (`format!("{}", self.unsigned_abs())`): these
   hold for every `pad` that writes a non-negative number as is when no flag is set (pad_noflags_id), which
   the transcription pad_integral_ref does *)

Theorem C12_pad_integral_ref_noflags : pad_noflags_id pad_integral_ref.
Proof. exact pad_integral_ref_noflags. Qed.
Print Assumptions C12_pad_integral_ref_noflags.

Theorem C12_I_Display : forall pad w n a, pad_noflags_id pad -> 8 <= w -> (0 < n)%nat -> wf w n a ->
  forall ds, canonical_le 10 (Z.abs (sval w a)) ds ->
  I_fmt_Display pad w a = Some (Ret (0 <=? sval w a, [], map ascii_lower (rev ds))).
Proof. exact I_fmt_Display_ok. Qed.
Print Assumptions C12_I_Display.

Theorem C12_I_Debug : forall pad w n a, pad_noflags_id pad -> 8 <= w -> (0 < n)%nat -> wf w n a ->
  forall ds, canonical_le 10 (Z.abs (sval w a)) ds ->
  I_fmt_Debug pad w a = Some (Ret (0 <=? sval w a, [], map ascii_lower (rev ds))).
Proof. exact I_fmt_Display_ok. Qed.
Print Assumptions C12_I_Debug.

Theorem C12_I_LowerExp : forall pad w n a, pad_noflags_id pad -> 8 <= w -> (0 < n)%nat -> wf w n a ->
  exists body, I_fmt_LowerExp pad w a = Some (Ret (0 <=? sval w a, [], body)) /\
               exp_body_spec 101 (Z.abs (sval w a)) body.
Proof. exact (fun pad => I_exp_fmt_ok pad 101). Qed.
Print Assumptions C12_I_LowerExp.

Theorem C12_I_UpperExp : forall pad w n a, pad_noflags_id pad -> 8 <= w -> (0 < n)%nat -> wf w n a ->
  exists body, I_fmt_UpperExp pad w a = Some (Ret (0 <=? sval w a, [], body)) /\
               exp_body_spec 69 (Z.abs (sval w a)) body.
Proof. exact (fun pad => I_exp_fmt_ok pad 69). Qed.
Print Assumptions C12_I_UpperExp.

(* ---------- whole output strings: the flags only enter through pad_integral ---------- *)

Theorem C12_U_format : forall pad fl tr w a t,
  U_fmt tr w a = Some (Ret t) -> U_format pad fl tr w a = Some (Ret (render pad fl t)).
Proof. exact U_format_ok. Qed.
Print Assumptions C12_U_format.
Theorem C12_I_format : forall pad fl tr w a t,
  I_fmt pad tr w a = Some (Ret t) -> I_format pad fl tr w a = Some (Ret (render pad fl t)).
Proof. exact I_format_ok. Qed.
Print Assumptions C12_I_format.

Theorem C12_U_format_LowerHex : forall pad fl w n a, 0 < w -> w mod 4 = 0 -> wf w n a ->
  forall ds, canonical_le 16 (uval w a) ds ->
  U_format pad fl 4 w a = Some (Ret (pad fl true str_0x (map ascii_lower (rev ds)))).
Proof. exact U_format_LowerHex_ok. Qed.
Print Assumptions C12_U_format_LowerHex.
Theorem C12_I_format_Display : forall pad fl w n a, pad_noflags_id pad -> 8 <= w -> (0 < n)%nat -> wf w n a ->
  forall ds, canonical_le 10 (Z.abs (sval w a)) ds ->
  I_format pad fl 0 w a = Some (Ret (pad fl (0 <=? sval w a) [] (map ascii_lower (rev ds)))).
Proof. exact I_format_Display_ok. Qed.
Print Assumptions C12_I_format_Display.

(* ---------- the transcription of std's pad_integral (trusted; these are consistency facts) ---------- *)

Theorem C12_pad_ref_unpadded : forall fl nonneg prefix body,
  (ff_width fl = None \/ exists m, ff_width fl = Some m /\ m <= natural_len fl nonneg prefix body) ->
  pad_integral_ref fl nonneg prefix body = sign_of fl nonneg ++ prefix_of fl prefix ++ body.
Proof. exact pad_integral_ref_unpadded. Qed.
Print Assumptions C12_pad_ref_unpadded.
Theorem C12_pad_ref_length : forall fl nonneg prefix body m, ff_width fl = Some m ->
  len (pad_integral_ref fl nonneg prefix body) = Z.max m (natural_len fl nonneg prefix body).
Proof. exact pad_integral_ref_length. Qed.
Print Assumptions C12_pad_ref_length.
(* the interior-digit format `{:01$x}` is pad_integral with the '0' flag and width $1 *)
Theorem C12_fmt_prim_pad_is_pad_integral : forall r upper pad d,
  fmt_prim_pad r upper pad d =
  pad_integral_ref (mk_flags 32 0 false false true (Some pad)) true str_0x (fmt_prim r upper d).
Proof. exact fmt_prim_pad_is_pad_integral. Qed.
Print Assumptions C12_fmt_prim_pad_is_pad_integral.

(* ---------- the hypotheses are satisfiable / the statements are not vacuous ---------- *)

Example C12_ex_wf : wf 8 3 [5; 0; 1].
Proof. apply wfb_wf. vm_compute. reflexivity. Qed.
Example C12_ex_hyps : 0 < 8 /\ 8 mod 4 = 0 /\ 8 <= 8 /\ (0 < 3)%nat /\
                      canonical_le 16 (uval 8 [5; 0; 1]) [5; 0; 0; 0; 1].
Proof.
  split; [lia|]. split; [reflexivity|]. split; [lia|]. split; [lia|].
  apply canonical_exists_pos; [vm_compute; reflexivity | | vm_compute; reflexivity | cbn; lia].
  repeat (constructor; [lia|]). constructor.
Qed.
(* 0x010005: the interior zero digit contributes "00", the low digit "05" *)
Example C12_ex_hex : U_fmt_LowerHex 8 [5; 0; 1] = Some (Ret (true, [48; 120], [49; 48; 48; 48; 53])).
Proof. vm_compute. reflexivity. Qed.
(* format!("{:*^+#12X}", BUint::<3>(0x01000a)) = "**+0x1000A**" *)
Example C12_ex_format :
  U_format pad_integral_ref (mk_flags 42 2 true true false (Some 12)) 5 8 [10; 0; 1] =
  Some (Ret [42; 42; 43; 48; 120; 49; 48; 48; 48; 65; 42; 42]).
Proof. vm_compute. reflexivity. Qed.
(* format!("{:e}", 1200300u24) = "1.2003e6";  format!("{:08}", -5i16-like) = "-0000005";  zero -> "0E0" *)
Example C12_ex_exp : U_fmt_LowerExp 8 [172; 80; 18] =
  Some (Ret (true, [], [49; 46; 50; 48; 48; 51; 101; 54])).
Proof. vm_compute. reflexivity. Qed.
Example C12_ex_signed :
  I_format pad_integral_ref (mk_flags 32 0 false false true (Some 8)) 0 8 [251; 255] =
  Some (Ret [45; 48; 48; 48; 48; 48; 48; 53]).
Proof. vm_compute. reflexivity. Qed.
Example C12_ex_zero_exp : U_fmt_UpperExp 8 [0; 0] = Some (Ret (true, [], [48; 69; 48])).
Proof. vm_compute. reflexivity. Qed.
Example C12_ex_exp_spec : exp_body_spec 101 1200300 [49; 46; 50; 48; 48; 51; 101; 54].
Proof.
  exists [0; 0; 3; 0; 0; 2; 1], 49, [50; 48; 48; 51; 48; 48], [50; 48; 48; 51], [6].
  split.
  { apply canonical_exists_pos; [lia | | vm_compute; reflexivity | cbn; lia].
    repeat (constructor; [lia|]). constructor. }
  split; [reflexivity|]. split; [split; [exists 2%nat; reflexivity | cbn; lia]|].
  split; [|reflexivity].
  apply canonical_exists_pos; [vm_compute; reflexivity | | vm_compute; reflexivity | cbn; lia].
  repeat (constructor; [lia|]). constructor.
Qed.

(* ---------- the model is the code: the fmt impls regenerated from /repo's source on every run ---------- *)

(* Generated/FmtGen.v is produced by tools/rs2v_fmt.py from the CURRENT src/buint/fmt.rs and src/bint/fmt.rs on every
   ./check C12 (the file-local macros fmt_method! / exp_fmt! / fmt_trait! expanded at their invocations); each generated
   function returns the triple (is_nonnegative, prefix, body) that the impl hands to std's Formatter::pad_integral, written
   over Model/Imp.v + Model/ImpPrint.v + Model/ImpFmt.v (tools/FMT_TRANSLATOR.md).  For ALL digit widths, digit counts,
   operands and budgets - and, for the signed Display / Debug / LowerExp / UpperExp (which format the magnitude through a
   flagless Formatter: `format!("{}", self.unsigned_abs())`), every std padder `pad` - it is the hand-written model the
   theorems above are about:  Some (Ret t) <-> Done t,  Some Panic <-> Panicked,  None (the budget of the model's
   to_str_radix, excluded by C11 for well-formed operands) <-> NoFuel.  An edit of the formatting code that changes which
   triple is handed over breaks this theorem; it no longer has to be hit by a sampled value. *)
From Bnum.Model Require Imp ImpFmt.
From Bnum.Generated Require FmtGen.
From Bnum.Proofs Require FmtGenTie.

Theorem C12_fmt_rs_matches_model : forall (w N : Z) (fuel : nat) (pad : padder) (a : list Z),
  FmtGen.FmtGen.U_fmt_Binary w N fuel a = ImpFmt.of_oo (U_fmt_Binary w a) /\
  FmtGen.FmtGen.U_fmt_LowerHex w N fuel a = ImpFmt.of_oo (U_fmt_LowerHex w a) /\
  FmtGen.FmtGen.U_fmt_UpperHex w N fuel a = ImpFmt.of_oo (U_fmt_UpperHex w a) /\
  FmtGen.FmtGen.U_fmt_Octal w N fuel a = ImpFmt.of_oo (U_fmt_Octal w a) /\
  FmtGen.FmtGen.U_fmt_Display w N fuel a = ImpFmt.of_oo (U_fmt_Display w a) /\
  FmtGen.FmtGen.U_fmt_Debug w N fuel a = ImpFmt.of_oo (U_fmt_Debug w a) /\
  FmtGen.FmtGen.U_fmt_LowerExp w N fuel a = ImpFmt.of_oo (U_fmt_LowerExp w a) /\
  FmtGen.FmtGen.U_fmt_UpperExp w N fuel a = ImpFmt.of_oo (U_fmt_UpperExp w a) /\
  FmtGen.FmtGen.I_fmt_Binary w N fuel a = ImpFmt.of_oo (I_fmt_Binary w a) /\
  FmtGen.FmtGen.I_fmt_LowerHex w N fuel a = ImpFmt.of_oo (I_fmt_LowerHex w a) /\
  FmtGen.FmtGen.I_fmt_UpperHex w N fuel a = ImpFmt.of_oo (I_fmt_UpperHex w a) /\
  FmtGen.FmtGen.I_fmt_Octal w N fuel a = ImpFmt.of_oo (I_fmt_Octal w a) /\
  FmtGen.FmtGen.I_fmt_Display w N fuel pad a = ImpFmt.of_oo (I_fmt_Display pad w a) /\
  FmtGen.FmtGen.I_fmt_Debug w N fuel pad a = ImpFmt.of_oo (I_fmt_Debug pad w a) /\
  FmtGen.FmtGen.I_fmt_LowerExp w N fuel pad a = ImpFmt.of_oo (I_fmt_LowerExp pad w a) /\
  FmtGen.FmtGen.I_fmt_UpperExp w N fuel pad a = ImpFmt.of_oo (I_fmt_UpperExp pad w a).
Proof. exact FmtGenTie.fmt_C12_match_model. Qed.
Print Assumptions C12_fmt_rs_matches_model.

(* ... and therefore the code itself (as regenerated from the source) meets the specification: composing the tie with the
   theorems above, every generated impl returns `Done` of the canonical numeral of the value (unsigned), of the two's complement
   pattern (signed radix forms), of the sign and the canonical numeral of the magnitude (signed decimal forms; `pad` any std padder
   that is the identity without flags, C12_pad_integral_ref_noflags), for every well-formed operand and every budget. *)
From Bnum.Proofs Require FmtGenTieSpec.

Theorem C12_fmt_rs_meets_spec : forall (w : Z) (n : nat) (N : Z) (fuel : nat) (a : list Z), wf w n a ->
  (0 < w -> forall ds, canonical_le 2 (uval w a) ds ->
     FmtGen.FmtGen.U_fmt_Binary w N fuel a = Imp.Done (true, str_0b, map ascii_lower (rev ds))) /\
  (0 < w -> w mod 4 = 0 -> forall ds, canonical_le 16 (uval w a) ds ->
     FmtGen.FmtGen.U_fmt_LowerHex w N fuel a = Imp.Done (true, str_0x, map ascii_lower (rev ds)) /\
     FmtGen.FmtGen.U_fmt_UpperHex w N fuel a = Imp.Done (true, str_0x, map ascii_upper (rev ds))) /\
  (8 <= w -> forall ds, canonical_le 8 (uval w a) ds ->
     FmtGen.FmtGen.U_fmt_Octal w N fuel a = Imp.Done (true, str_0o, map ascii_lower (rev ds))) /\
  (8 <= w -> forall ds, canonical_le 10 (uval w a) ds ->
     FmtGen.FmtGen.U_fmt_Display w N fuel a = Imp.Done (true, [], map ascii_lower (rev ds)) /\
     FmtGen.FmtGen.U_fmt_Debug w N fuel a = Imp.Done (true, [], map ascii_lower (rev ds))) /\
  (8 <= w ->
     (exists body, FmtGen.FmtGen.U_fmt_LowerExp w N fuel a = Imp.Done (true, [], body) /\ exp_body_spec 101 (uval w a) body) /\
     (exists body, FmtGen.FmtGen.U_fmt_UpperExp w N fuel a = Imp.Done (true, [], body) /\ exp_body_spec 69 (uval w a) body)) /\
  (0 < w -> forall ds, canonical_le 2 (sval w a mod Mod w n) ds ->
     FmtGen.FmtGen.I_fmt_Binary w N fuel a = Imp.Done (true, str_0b, map ascii_lower (rev ds))) /\
  (0 < w -> w mod 4 = 0 -> forall ds, canonical_le 16 (sval w a mod Mod w n) ds ->
     FmtGen.FmtGen.I_fmt_LowerHex w N fuel a = Imp.Done (true, str_0x, map ascii_lower (rev ds)) /\
     FmtGen.FmtGen.I_fmt_UpperHex w N fuel a = Imp.Done (true, str_0x, map ascii_upper (rev ds))) /\
  (8 <= w -> forall ds, canonical_le 8 (sval w a mod Mod w n) ds ->
     FmtGen.FmtGen.I_fmt_Octal w N fuel a = Imp.Done (true, str_0o, map ascii_lower (rev ds))) /\
  (forall pad, pad_noflags_id pad -> 8 <= w -> (0 < n)%nat ->
     (forall ds, canonical_le 10 (Z.abs (sval w a)) ds ->
        FmtGen.FmtGen.I_fmt_Display w N fuel pad a = Imp.Done (0 <=? sval w a, [], map ascii_lower (rev ds)) /\
        FmtGen.FmtGen.I_fmt_Debug w N fuel pad a = Imp.Done (0 <=? sval w a, [], map ascii_lower (rev ds))) /\
     (exists body, FmtGen.FmtGen.I_fmt_LowerExp w N fuel pad a = Imp.Done (0 <=? sval w a, [], body) /\
                   exp_body_spec 101 (Z.abs (sval w a)) body) /\
     (exists body, FmtGen.FmtGen.I_fmt_UpperExp w N fuel pad a = Imp.Done (0 <=? sval w a, [], body) /\
                   exp_body_spec 69 (Z.abs (sval w a)) body)).
Proof. exact FmtGenTieSpec.fmt_C12_generated_meets_spec. Qed.
Print Assumptions C12_fmt_rs_meets_spec.

(* Properties/C05.v — "Shifts move bits by exactly s places; rotations permute
   the BITS-bit pattern."  Statements about Model/Shift.v; proofs in
   Proofs/Shift.v (on top of Proofs/BitAddr.v).
   Notation in comments: X = uval w x, SX = sval w x, M = Mod w n = 2^BITS,
   BITS = bits w n = w * n.  All theorems hold for every digit width w > 0
   and every digit count n >= 1 (BITS need not be a power of two unless said). *)
From Bnum Require Import Base Prim.
From Bnum.Model Require Import Core Shift.
From Bnum.Proofs Require Import BitAddr Shift.

(* ---------- 0. the addressing lemma the bit-level reading rests on ---------- *)

Theorem C05_bit_addressing : forall w n ds i, 0 < w -> wf w n ds -> 0 <= i ->
  Z.testbit (uval w ds) i = Z.testbit (nth (Z.to_nat (i / w)) ds 0) (i mod w).
Proof. exact testbit_uval_wf. Qed.
Print Assumptions C05_bit_addressing.

(* ---------- 1. shl: bits move up by exactly s, the top s fall off ---------- *)

Theorem C05_shl_internal : forall w n x s, 0 < w -> wf w n x -> 0 <= s < bits w n ->
  wf w n (shl_internal w x s) /\
  uval w (shl_internal w x s) = (uval w x * 2 ^ s) mod Mod w n.
Proof. exact shl_internal_ok. Qed.
Print Assumptions C05_shl_internal.

(* ---------- 2. shr: logical (zero fill) and arithmetic (sign fill) ---------- *)

Theorem C05_shr_internal : forall w n x s, 0 < w -> wf w n x -> 0 <= s < bits w n ->
  wf w n (shr_pad_internal w false x s) /\
  uval w (shr_pad_internal w false x s) = uval w x / 2 ^ s.
Proof. exact shr_internal_ok. Qed.
Print Assumptions C05_shr_internal.

(* both paddings as unsigned values: ones-padding adds the s top bits *)
Theorem C05_shr_pad_value : forall w n x s neg, 0 < w -> wf w n x -> 0 <= s < bits w n ->
  wf w n (shr_pad_internal w neg x s) /\
  uval w (shr_pad_internal w neg x s)
    = uval w x / 2 ^ s + (if neg then Mod w n - 2 ^ (bits w n - s) else 0).
Proof. exact shr_pad_internal_val. Qed.
Print Assumptions C05_shr_pad_value.

Theorem C05_shr_pad_negative : forall w n x s, 0 < w -> wf w n x -> 0 <= s < bits w n ->
  is_negative w x = true ->
  wf w n (shr_pad_internal w true x s) /\
  sval w (shr_pad_internal w true x s) = sval w x / 2 ^ s.
Proof. exact shr_pad_true_negative. Qed.
Print Assumptions C05_shr_pad_negative.

(* as BInt calls it: floor division by 2^s for both signs *)
Theorem C05_sar_internal : forall w n x s, 0 < w -> wf w n x -> 0 <= s < bits w n ->
  wf w n (shr_pad_internal w (is_negative w x) x s) /\
  sval w (shr_pad_internal w (is_negative w x) x s) = sval w x / 2 ^ s.
Proof. exact sar_internal_ok. Qed.
Print Assumptions C05_sar_internal.

Theorem C05_is_negative : forall w n x, 0 < w -> (0 < n)%nat -> wf w n x ->
  is_negative w x = (sval w x <? 0).
Proof. exact is_negative_sval. Qed.
Print Assumptions C05_is_negative.

(* a left shift read as signed wraps in two's complement *)
Theorem C05_shl_signed : forall w n x s r, 0 < w -> (0 < n)%nat -> wf w n x -> 0 <= s ->
  (wf w n r /\ uval w r = (uval w x * 2 ^ s) mod Mod w n) ->
  sval w r = wrapS (Mod w n) (sval w x * 2 ^ s).
Proof. exact shl_post_signed. Qed.
Print Assumptions C05_shl_signed.

(* ---------- 3. checked ---------- *)

Theorem C05_U_checked_shl : forall w n x s, 0 < w -> wf w n x -> 0 <= s ->
  (U_checked_shl w x s = None <-> bits w n <= s) /\
  (s < bits w n -> exists r, U_checked_shl w x s = Some r /\
     wf w n r /\ uval w r = (uval w x * 2 ^ s) mod Mod w n).
Proof. exact U_checked_shl_ok. Qed.
Print Assumptions C05_U_checked_shl.

Theorem C05_U_checked_shr : forall w n x s, 0 < w -> wf w n x -> 0 <= s ->
  (U_checked_shr w x s = None <-> bits w n <= s) /\
  (s < bits w n -> exists r, U_checked_shr w x s = Some r /\
     wf w n r /\ uval w r = uval w x / 2 ^ s).
Proof. exact U_checked_shr_ok. Qed.
Print Assumptions C05_U_checked_shr.

Theorem C05_I_checked_shl : forall w n x s, 0 < w -> wf w n x -> 0 <= s ->
  (I_checked_shl w x s = None <-> bits w n <= s) /\
  (s < bits w n -> exists r, I_checked_shl w x s = Some r /\
     wf w n r /\ uval w r = (uval w x * 2 ^ s) mod Mod w n).
Proof. exact I_checked_shl_ok. Qed.
Print Assumptions C05_I_checked_shl.

Theorem C05_I_checked_shr : forall w n x s, 0 < w -> wf w n x -> 0 <= s ->
  (I_checked_shr w x s = None <-> bits w n <= s) /\
  (s < bits w n -> exists r, I_checked_shr w x s = Some r /\
     wf w n r /\ sval w r = sval w x / 2 ^ s).
Proof. exact I_checked_shr_ok. Qed.
Print Assumptions C05_I_checked_shr.

(* ---------- 3. overflowing: flag; value in range; value when BITS = 2^k ---------- *)

Theorem C05_U_overflowing_shl : forall w n x s, 0 < w -> (0 < n)%nat -> wf w n x -> 0 <= s ->
  snd (U_overflowing_shl w x s) = (bits w n <=? s) /\
  (s < bits w n ->
     wf w n (fst (U_overflowing_shl w x s)) /\
     uval w (fst (U_overflowing_shl w x s)) = (uval w x * 2 ^ s) mod Mod w n) /\
  ((exists k, 0 <= k /\ bits w n = 2 ^ k) ->
     fst (U_overflowing_shl w x s) = shl_internal w x (s mod bits w n) /\
     wf w n (fst (U_overflowing_shl w x s)) /\
     uval w (fst (U_overflowing_shl w x s)) = (uval w x * 2 ^ (s mod bits w n)) mod Mod w n).
Proof. exact U_overflowing_shl_ok. Qed.
Print Assumptions C05_U_overflowing_shl.

Theorem C05_U_overflowing_shr : forall w n x s, 0 < w -> (0 < n)%nat -> wf w n x -> 0 <= s ->
  snd (U_overflowing_shr w x s) = (bits w n <=? s) /\
  (s < bits w n ->
     wf w n (fst (U_overflowing_shr w x s)) /\
     uval w (fst (U_overflowing_shr w x s)) = uval w x / 2 ^ s) /\
  ((exists k, 0 <= k /\ bits w n = 2 ^ k) ->
     fst (U_overflowing_shr w x s) = shr_pad_internal w false x (s mod bits w n) /\
     wf w n (fst (U_overflowing_shr w x s)) /\
     uval w (fst (U_overflowing_shr w x s)) = uval w x / 2 ^ (s mod bits w n)).
Proof. exact U_overflowing_shr_ok. Qed.
Print Assumptions C05_U_overflowing_shr.

Theorem C05_I_overflowing_shl : forall w n x s, 0 < w -> (0 < n)%nat -> wf w n x -> 0 <= s ->
  snd (I_overflowing_shl w x s) = (bits w n <=? s) /\
  (s < bits w n ->
     wf w n (fst (I_overflowing_shl w x s)) /\
     uval w (fst (I_overflowing_shl w x s)) = (uval w x * 2 ^ s) mod Mod w n) /\
  ((exists k, 0 <= k /\ bits w n = 2 ^ k) ->
     fst (I_overflowing_shl w x s) = shl_internal w x (s mod bits w n) /\
     wf w n (fst (I_overflowing_shl w x s)) /\
     uval w (fst (I_overflowing_shl w x s)) = (uval w x * 2 ^ (s mod bits w n)) mod Mod w n).
Proof. exact U_overflowing_shl_ok. Qed.
Print Assumptions C05_I_overflowing_shl.

Theorem C05_I_overflowing_shr : forall w n x s, 0 < w -> (0 < n)%nat -> wf w n x -> 0 <= s ->
  snd (I_overflowing_shr w x s) = (bits w n <=? s) /\
  (s < bits w n ->
     wf w n (fst (I_overflowing_shr w x s)) /\
     sval w (fst (I_overflowing_shr w x s)) = sval w x / 2 ^ s) /\
  ((exists k, 0 <= k /\ bits w n = 2 ^ k) ->
     fst (I_overflowing_shr w x s) = shr_pad_internal w (is_negative w x) x (s mod bits w n) /\
     wf w n (fst (I_overflowing_shr w x s)) /\
     sval w (fst (I_overflowing_shr w x s)) = sval w x / 2 ^ (s mod bits w n)).
Proof. exact I_overflowing_shr_ok. Qed.
Print Assumptions C05_I_overflowing_shr.

(* ---------- 3. unbounded: defined for every amount ---------- *)

Theorem C05_U_unbounded_shl : forall w n x s, 0 < w -> wf w n x -> 0 <= s ->
  (bits w n <= s -> U_unbounded_shl w x s = ZERO n) /\
  wf w n (U_unbounded_shl w x s) /\
  uval w (U_unbounded_shl w x s) = (uval w x * 2 ^ s) mod Mod w n.
Proof. exact U_unbounded_shl_ok. Qed.
Print Assumptions C05_U_unbounded_shl.

Theorem C05_U_unbounded_shr : forall w n x s, 0 < w -> wf w n x -> 0 <= s ->
  (bits w n <= s -> U_unbounded_shr w x s = ZERO n) /\
  wf w n (U_unbounded_shr w x s) /\
  uval w (U_unbounded_shr w x s) = uval w x / 2 ^ s.
Proof. exact U_unbounded_shr_ok. Qed.
Print Assumptions C05_U_unbounded_shr.

Theorem C05_I_unbounded_shl : forall w n x s, 0 < w -> wf w n x -> 0 <= s ->
  (bits w n <= s -> I_unbounded_shl w x s = ZERO n) /\
  wf w n (I_unbounded_shl w x s) /\
  uval w (I_unbounded_shl w x s) = (uval w x * 2 ^ s) mod Mod w n.
Proof. exact U_unbounded_shl_ok. Qed.
Print Assumptions C05_I_unbounded_shl.

Theorem C05_I_unbounded_shr : forall w n x s, 0 < w -> (0 < n)%nat -> wf w n x -> 0 <= s ->
  (wf w n (I_unbounded_shr w x s) /\ sval w (I_unbounded_shr w x s) = sval w x / 2 ^ s) /\
  (bits w n <= s ->
     I_unbounded_shr w x s = (if sval w x <? 0 then NEG_ONE w n else ZERO n) /\
     sval w (I_unbounded_shr w x s) = if sval w x <? 0 then -1 else 0).
Proof. exact I_unbounded_shr_ok. Qed.
Print Assumptions C05_I_unbounded_shr.

(* ---------- 3. inherent shl/shr (debug-checked) and strict ---------- *)

Theorem C05_U_shl : forall dbg w n x s, 0 < w -> wf w n x -> 0 <= s ->
  (U_shl dbg w x s = Panic <-> dbg = true /\ bits w n <= s) /\
  (s < bits w n -> exists r, U_shl dbg w x s = Ret r /\
     wf w n r /\ uval w r = (uval w x * 2 ^ s) mod Mod w n) /\
  (dbg = false -> U_shl dbg w x s = Ret (U_wrapping_shl w x s)).
Proof. exact U_shl_ok. Qed.
Print Assumptions C05_U_shl.

Theorem C05_U_shr : forall dbg w n x s, 0 < w -> wf w n x -> 0 <= s ->
  (U_shr dbg w x s = Panic <-> dbg = true /\ bits w n <= s) /\
  (s < bits w n -> exists r, U_shr dbg w x s = Ret r /\
     wf w n r /\ uval w r = uval w x / 2 ^ s) /\
  (dbg = false -> U_shr dbg w x s = Ret (U_wrapping_shr w x s)).
Proof. exact U_shr_ok. Qed.
Print Assumptions C05_U_shr.

Theorem C05_I_shl : forall dbg w n x s, 0 < w -> wf w n x -> 0 <= s ->
  (I_shl dbg w x s = Panic <-> dbg = true /\ bits w n <= s) /\
  (s < bits w n -> exists r, I_shl dbg w x s = Ret r /\
     wf w n r /\ uval w r = (uval w x * 2 ^ s) mod Mod w n) /\
  (dbg = false -> I_shl dbg w x s = Ret (I_wrapping_shl w x s)).
Proof. exact I_shl_ok. Qed.
Print Assumptions C05_I_shl.

Theorem C05_I_shr : forall dbg w n x s, 0 < w -> wf w n x -> 0 <= s ->
  (I_shr dbg w x s = Panic <-> dbg = true /\ bits w n <= s) /\
  (s < bits w n -> exists r, I_shr dbg w x s = Ret r /\
     wf w n r /\ sval w r = sval w x / 2 ^ s) /\
  (dbg = false -> I_shr dbg w x s = Ret (I_wrapping_shr w x s)).
Proof. exact I_shr_ok. Qed.
Print Assumptions C05_I_shr.

Theorem C05_strict : forall w x s,
  U_strict_shl w x s = U_shl true w x s /\ U_strict_shr w x s = U_shr true w x s /\
  I_strict_shl w x s = I_shl true w x s /\ I_strict_shr w x s = I_shr true w x s.
Proof. exact strict_is_dbg. Qed.
Print Assumptions C05_strict.

(* ---------- 4. wrapping: the coded `rhs & (BITS-1)` is `rhs mod BITS` iff-side: BITS = 2^k ---------- *)

Theorem C05_mask_amount : forall w n s, 0 < w -> (0 < n)%nat -> (exists k, bits w n = 2 ^ k) ->
  0 <= s < 2 ^ 32 -> mask_amount w n s = s mod bits w n.
Proof. exact mask_amount_ok. Qed.
Print Assumptions C05_mask_amount.

Theorem C05_U_wrapping_shl : forall w n x s, 0 < w -> (0 < n)%nat -> wf w n x -> 0 <= s ->
  (s < bits w n ->
     wf w n (U_wrapping_shl w x s) /\
     uval w (U_wrapping_shl w x s) = (uval w x * 2 ^ s) mod Mod w n) /\
  ((exists k, bits w n = 2 ^ k) ->
     U_wrapping_shl w x s = shl_internal w x (s mod bits w n) /\
     wf w n (U_wrapping_shl w x s) /\
     uval w (U_wrapping_shl w x s) = (uval w x * 2 ^ (s mod bits w n)) mod Mod w n).
Proof. exact U_wrapping_shl_ok. Qed.
Print Assumptions C05_U_wrapping_shl.

Theorem C05_U_wrapping_shr : forall w n x s, 0 < w -> (0 < n)%nat -> wf w n x -> 0 <= s ->
  (s < bits w n ->
     wf w n (U_wrapping_shr w x s) /\ uval w (U_wrapping_shr w x s) = uval w x / 2 ^ s) /\
  ((exists k, bits w n = 2 ^ k) ->
     U_wrapping_shr w x s = shr_pad_internal w false x (s mod bits w n) /\
     wf w n (U_wrapping_shr w x s) /\
     uval w (U_wrapping_shr w x s) = uval w x / 2 ^ (s mod bits w n)).
Proof. exact U_wrapping_shr_ok. Qed.
Print Assumptions C05_U_wrapping_shr.

Theorem C05_I_wrapping_shl : forall w n x s, 0 < w -> (0 < n)%nat -> wf w n x -> 0 <= s ->
  (s < bits w n ->
     wf w n (I_wrapping_shl w x s) /\
     uval w (I_wrapping_shl w x s) = (uval w x * 2 ^ s) mod Mod w n) /\
  ((exists k, bits w n = 2 ^ k) ->
     I_wrapping_shl w x s = shl_internal w x (s mod bits w n) /\
     wf w n (I_wrapping_shl w x s) /\
     uval w (I_wrapping_shl w x s) = (uval w x * 2 ^ (s mod bits w n)) mod Mod w n).
Proof. exact I_wrapping_shl_ok. Qed.
Print Assumptions C05_I_wrapping_shl.

Theorem C05_I_wrapping_shr : forall w n x s, 0 < w -> (0 < n)%nat -> wf w n x -> 0 <= s ->
  (s < bits w n ->
     wf w n (I_wrapping_shr w x s) /\ sval w (I_wrapping_shr w x s) = sval w x / 2 ^ s) /\
  ((exists k, bits w n = 2 ^ k) ->
     I_wrapping_shr w x s = shr_pad_internal w (is_negative w x) x (s mod bits w n) /\
     wf w n (I_wrapping_shr w x s) /\
     sval w (I_wrapping_shr w x s) = sval w x / 2 ^ (s mod bits w n)).
Proof. exact I_wrapping_shr_ok. Qed.
Print Assumptions C05_I_wrapping_shr.

Theorem C05_overflowing_pow2 : forall w n x s, 0 < w -> (0 < n)%nat -> wf w n x -> 0 <= s ->
  (exists k, bits w n = 2 ^ k) ->
  U_overflowing_shl w x s = (shl_internal w x (s mod bits w n), bits w n <=? s) /\
  U_overflowing_shr w x s = (shr_pad_internal w false x (s mod bits w n), bits w n <=? s) /\
  I_overflowing_shl w x s = (shl_internal w x (s mod bits w n), bits w n <=? s) /\
  I_overflowing_shr w x s = (shr_pad_internal w (is_negative w x) x (s mod bits w n), bits w n <=? s).
Proof. exact overflowing_pow2. Qed.
Print Assumptions C05_overflowing_pow2.

(* ---------- 5. rotations: every n (BITS need not be a power of two) ---------- *)

Theorem C05_unchecked_rotate_left : forall w n x r, 0 < w -> (0 < n)%nat -> wf w n x ->
  0 <= r <= bits w n ->
  wf w n (unchecked_rotate_left w x r) /\
  uval w (unchecked_rotate_left w x r)
    = (uval w x * 2 ^ r) mod 2 ^ bits w n + uval w x / 2 ^ (bits w n - r).
Proof. exact unchecked_rotate_left_ok. Qed.
Print Assumptions C05_unchecked_rotate_left.

Theorem C05_rotate_left : forall w n x k, 0 < w -> (0 < n)%nat -> wf w n x -> 0 <= k ->
  wf w n (rotate_left w x k) /\
  uval w (rotate_left w x k)
    = (uval w x * 2 ^ (k mod bits w n)) mod Mod w n
      + uval w x / 2 ^ (bits w n - k mod bits w n).
Proof. exact rotate_left_ok. Qed.
Print Assumptions C05_rotate_left.

Theorem C05_rotate_right : forall w n x k, 0 < w -> (0 < n)%nat -> wf w n x -> 0 <= k ->
  wf w n (rotate_right w x k) /\
  uval w (rotate_right w x k)
    = (uval w x * 2 ^ ((bits w n - k mod bits w n) mod bits w n)) mod Mod w n
      + uval w x / 2 ^ (bits w n - (bits w n - k mod bits w n) mod bits w n) /\
  uval w (rotate_right w x k)
    = (uval w x * 2 ^ (bits w n - k mod bits w n)) mod Mod w n
      + uval w x / 2 ^ (bits w n - (bits w n - k mod bits w n)).
Proof. exact rotate_right_ok. Qed.
Print Assumptions C05_rotate_right.

Theorem C05_rotr_rotl : forall w n x k, 0 < w -> (0 < n)%nat -> wf w n x -> 0 <= k ->
  rotate_right w (rotate_left w x k) k = x.
Proof. exact rotate_right_left. Qed.
Print Assumptions C05_rotr_rotl.

Theorem C05_rotl_rotr : forall w n x k, 0 < w -> (0 < n)%nat -> wf w n x -> 0 <= k ->
  rotate_left w (rotate_right w x k) k = x.
Proof. exact rotate_left_right. Qed.
Print Assumptions C05_rotl_rotr.

(* rotations compose additively: they form a cyclic group action on BITS-bit patterns *)
Theorem C05_rot_compose : forall N X a b, 0 <= a -> 0 <= b -> a + b <= N -> 0 <= X < 2 ^ N ->
  rotv N (rotv N X a) b = rotv N X (a + b).
Proof. exact rotv_compose. Qed.
Print Assumptions C05_rot_compose.

(* ---------- 6. the pinned (pre-fix) rotate_left is refuted ---------- *)

Theorem C05_rotl_refuted :
  exists w n x k, wf w n x /\
    uval w (rotate_left_prefix w x k)
      <> (uval w x * 2 ^ (k mod bits w n)) mod Mod w n + uval w x / 2 ^ (bits w n - k mod bits w n).
Proof. exact rotl_prefix_refuted. Qed.
Print Assumptions C05_rotl_refuted.

(* ---------- examples: w = 8, n = 3 (BITS = 24, not a power of two) ---------- *)

Example ex_wf : wf 8 3 [1; 2; 131].
Proof. apply wfb_wf. vm_compute. reflexivity. Qed.

(* 0x830201 << 12 = 0x201000 mod 2^24 *)
Example ex_shl : shl_internal 8 [1; 2; 131] 12 = [0; 16; 32]
  /\ uval 8 [0; 16; 32] = (uval 8 [1; 2; 131] * 2 ^ 12) mod Mod 8 3.
Proof. vm_compute. split; reflexivity. Qed.

(* 0x830201 >> 12 = 0x830 *)
Example ex_shr : shr_pad_internal 8 false [1; 2; 131] 12 = [48; 8; 0]
  /\ uval 8 [48; 8; 0] = uval 8 [1; 2; 131] / 2 ^ 12.
Proof. vm_compute. split; reflexivity. Qed.

(* the same pattern as a negative i24: arithmetic shift propagates the sign *)
Example ex_sar : is_negative 8 [1; 2; 131] = true
  /\ shr_pad_internal 8 true [1; 2; 131] 12 = [48; 248; 255]
  /\ sval 8 [1; 2; 131] = -8191487
  /\ sval 8 [48; 248; 255] = -8191487 / 2 ^ 12
  /\ sval 8 [48; 248; 255] = -2000.
Proof. vm_compute. repeat split; reflexivity. Qed.

Example ex_checked :
  U_checked_shl 8 [1; 2; 131] 23 = Some [0; 0; 128] /\
  U_checked_shl 8 [1; 2; 131] 24 = None /\
  I_checked_shr 8 [1; 2; 131] 24 = None /\
  U_overflowing_shr 8 [1; 2; 131] 23 = ([1; 0; 0], false) /\
  snd (U_overflowing_shl 8 [1; 2; 131] 24) = true.
Proof. vm_compute. repeat split; reflexivity. Qed.

Example ex_unbounded :
  U_unbounded_shl 8 [1; 2; 131] 24 = [0; 0; 0] /\
  U_unbounded_shr 8 [1; 2; 131] 4294967295 = [0; 0; 0] /\
  I_unbounded_shr 8 [1; 2; 131] 24 = [255; 255; 255] /\
  I_unbounded_shr 8 [1; 2; 3] 24 = [0; 0; 0].
Proof. vm_compute. repeat split; reflexivity. Qed.

Example ex_inherent :
  U_shl true 8 [1; 2; 131] 24 = Panic /\
  U_shl true 8 [1; 2; 131] 23 = Ret [0; 0; 128] /\
  I_shr true 8 [1; 2; 131] 24 = Panic /\
  I_shr false 8 [1; 2; 131] 12 = Ret [48; 248; 255].
Proof. vm_compute. repeat split; reflexivity. Qed.

(* power-of-two width (w = 8, n = 4, BITS = 32 = 2^5): the mask is the remainder *)
Example ex_pow2 : (exists k, bits 8 4 = 2 ^ k) /\ mask_amount 8 4 37 = 37 mod 32
  /\ U_wrapping_shl 8 [1; 2; 3; 4] 37 = shl_internal 8 [1; 2; 3; 4] 5.
Proof. split; [exists 5; reflexivity|]. vm_compute. split; reflexivity. Qed.

(* BITS = 24: the mask is NOT the remainder (why item 4 needs the hypothesis) *)
Example ex_not_pow2 : mask_amount 8 3 24 = 16 /\ 24 mod bits 8 3 = 0.
Proof. vm_compute. split; reflexivity. Qed.

(* rotl(0x030201, 12) = 0x201030 ; rotr undoes it ; amounts are taken mod 24 *)
Example ex_rot :
  rotate_left 8 [1; 2; 3] 12 = [48; 16; 32] /\
  rotate_right 8 [48; 16; 32] 12 = [1; 2; 3] /\
  rotate_left 8 [1; 2; 3] 24 = [1; 2; 3] /\
  rotate_left 8 [1; 2; 3] 36 = [48; 16; 32] /\
  rotate_right 8 [1; 2; 3] 0 = [1; 2; 3] /\
  rotate_right 8 [1; 2; 3] 8 = [2; 3; 1] /\
  rotate_left 8 [1; 2; 3] 8 = [3; 1; 2].
Proof. vm_compute. repeat split; reflexivity. Qed.

(* the refutation witness: pre-fix rotate_left by 8 of 0x030201 returns the input *)
Example ex_rot_prefix : rotate_left_prefix 8 [1; 2; 3] 8 = [1; 2; 3]
  /\ rotate_left 8 [1; 2; 3] 8 = [3; 1; 2].
Proof. vm_compute. split; reflexivity. Qed.

(* ---- tie to the source: the glue layer (shifts (and wrapping_next_power_of_two)) REGENERATED from /repo/src on every run
   (Generated/Glue.v, tools/rs2v_glue.py) is the model's, function by function, for every digit width, digit count,
   build mode and operand (no well-formedness hypothesis): an edit of the source that changes what one of these
   one-line functions delegates to breaks this theorem ---- *)
From Bnum.Model Require Import Digit Core Shift AddSub Mul Div Bits Pow.
From Bnum.Generated Require Import Glue.
From Bnum.Proofs Require Import GlueTieCommon GlueTieC05.
Theorem C05_glue_rs_matches_model :
  (forall w a r, Glue.U_checked_shl w a r = U_checked_shl w a r) /\
  (forall w a r, Glue.U_checked_shr w a r = U_checked_shr w a r) /\
  (forall w a r, Glue.U_wrapping_shl w a r = U_wrapping_shl w a r) /\
  (forall w a r, Glue.U_wrapping_shr w a r = U_wrapping_shr w a r) /\
  (forall w a, Glue.U_wrapping_next_power_of_two w a = U_wrapping_next_power_of_two w a) /\
  (forall w a r, Glue.U_strict_shl w a r = U_strict_shl w a r) /\
  (forall w a r, Glue.U_strict_shr w a r = U_strict_shr w a r) /\
  (forall w a r, Glue.I_strict_shl w a r = I_strict_shl w a r) /\
  (forall w a r, Glue.I_strict_shr w a r = I_strict_shr w a r) /\
  (forall dbg w a r, Glue.U_shl dbg w a r = U_shl dbg w a r) /\
  (forall dbg w a r, Glue.U_shr dbg w a r = U_shr dbg w a r) /\
  (forall dbg w a r, Glue.I_shl dbg w a r = I_shl dbg w a r) /\
  (forall dbg w a r, Glue.I_shr dbg w a r = I_shr dbg w a r) /\
  (forall w a r, Glue.I_checked_shl w a r = I_checked_shl w a r) /\
  (forall w a r, Glue.I_checked_shr w a r = I_checked_shr w a r) /\
  (forall w a r, Glue.I_wrapping_shl w a r = I_wrapping_shl w a r) /\
  (forall w a r, Glue.I_wrapping_shr w a r = I_wrapping_shr w a r) /\
  (forall w a r, Glue.U_overflowing_shl w a r = U_overflowing_shl w a r) /\
  (forall w a r, Glue.U_overflowing_shr w a r = U_overflowing_shr w a r) /\
  (forall w a r, Glue.I_overflowing_shl w a r = I_overflowing_shl w a r) /\
  (forall w a r, Glue.I_overflowing_shr w a r = I_overflowing_shr w a r) /\
  (forall w a r, Glue.U_unchecked_shr_internal w a r = shr_pad_internal w false a r).
Proof. exact glue_shift_matches_model. Qed.
Print Assumptions C05_glue_rs_matches_model.
(* ---- tie to the source: the shift / rotation / reversal loops REGENERATED from /repo/src/buint/mod.rs on
   every run (Generated/Loops.v, tools/rs2v_loops.py; control-flow vocabulary Model/Imp.v) compute exactly the
   model's functions under the preconditions of their call sites (shift amount below BITS; rotation amount at
   most BITS; digit rotation at most N), for every power-of-two digit width: with an iteration budget of at
   least N they neither panic nor run out of budget. ---- *)
From Bnum.Model Require Import Imp Bits.
From Bnum.Generated Require Import Loops.
From Bnum.Proofs Require Import LoopsTieC05.
Theorem C05_loops_rs_match_model w lg : 0 <= lg -> w = 2 ^ lg ->
  (forall n a rhs fuel, wf w n a -> 0 <= rhs < bits w n -> (n <= fuel)%nat ->
     Loops.unchecked_shl_internal w (Z.of_nat n) fuel a rhs = Done (shl_internal w a rhs)) /\
  (forall n neg a rhs fuel, wf w n a -> 0 <= rhs < bits w n -> (n <= fuel)%nat ->
     Loops.unchecked_shr_pad_internal w (Z.of_nat n) fuel neg a rhs = Done (shr_pad_internal w neg a rhs)) /\
  (forall n a k fuel, wf w n a -> (k <= n)%nat -> (n <= fuel)%nat ->
     Loops.rotate_digits_left w (Z.of_nat n) fuel a (Z.of_nat k) = Done (rotate_digits_left a k)) /\
  (forall n a rhs fuel, wf w n a -> 0 <= rhs <= bits w n -> (n <= fuel)%nat ->
     Loops.unchecked_rotate_left w (Z.of_nat n) fuel a rhs = Done (unchecked_rotate_left w a rhs)) /\
  (forall n a fuel, wf w n a -> (n <= fuel)%nat ->
     Loops.swap_bytes w (Z.of_nat n) fuel a = Done (swap_bytes w a)) /\
  (forall n a fuel, wf w n a -> (n <= fuel)%nat ->
     Loops.reverse_bits w (Z.of_nat n) fuel a = Done (reverse_bits w a)).
Proof. exact (loops_C05_match_model w lg). Qed.
Print Assumptions C05_loops_rs_match_model.
(* ==== glue tie, round 2 (text written by tools/mk_gluetie.py; keep at the END of the file) ==== *)
(* ---- tie to the source, second round: the non-loop functions (rotate_left/right, unbounded_shl/shr of buint/mod.rs and bint/mod.rs; unchecked_shl / unchecked_shr) REGENERATED from /repo/src on every run
   (Generated/Glue.v, tools/rs2v_glue.py) are the model's, function by function, for every digit width, digit count,
   build mode and operand (no well-formedness hypothesis): an edit of the source that changes what one of these
   functions computes or delegates to breaks this theorem ---- *)
From Bnum.Model Require Import Digit Core Shift AddSub Mul Div Bits Pow.
From Bnum.Model Require Ops NumTraits.
From Bnum.Generated Require Import Glue.
From Bnum.Proofs Require Import GlueTieCommon GlueTieC05.
Theorem C05_glue2_rs_matches_model :
  (forall w a k, Glue.U_rotate_left w a k = rotate_left w a k) /\
  (forall w a k, Glue.U_rotate_right w a k = rotate_right w a k) /\
  (forall w a k, Glue.U_unbounded_shl w a k = U_unbounded_shl w a k) /\
  (forall w a k, Glue.U_unbounded_shr w a k = U_unbounded_shr w a k) /\
  (forall w a k, Glue.I_rotate_left w a k = rotate_left w a k) /\
  (forall w a k, Glue.I_rotate_right w a k = rotate_right w a k) /\
  (forall w a k, Glue.I_unbounded_shl w a k = I_unbounded_shl w a k) /\
  (forall w a k, Glue.I_unbounded_shr w a k = I_unbounded_shr w a k) /\
  (forall w a k, Glue.U_unchecked_shl w a k = U_checked_shl w a k) /\
  (forall w a k, Glue.U_unchecked_shr w a k = U_checked_shr w a k) /\
  (forall w a k, Glue.I_unchecked_shl w a k = I_checked_shl w a k) /\
  (forall w a k, Glue.I_unchecked_shr w a k = I_checked_shr w a k).
Proof. exact glue_rotate_matches_model. Qed.
Print Assumptions C05_glue2_rs_matches_model.

(* Properties/C17.v — C17: "Operator traits, assign forms, reference forms and iterator folds agree".
   In the model (Model/Ops.v) the by-reference forms dereference and call the by-value impl and `a op= b`
   stores `a op b` — exactly what the macros of src/int/ops.rs expand to — so they are the SAME function as
   the by-value operator, which in turn is the inherent const method; the correspondence check calls every
   one of the ~500 generated impls separately against that one function.  What has content in the model, and
   is proved here for every digit width / count / operand, is: the amount conversion of the twelve primitive
   shift-amount types and of bnum-typed amounts, the digit-operand forms, and the iterator folds. *)
From Bnum Require Import Base Prim.
From Bnum.Model Require Import Digit Core Shift AddSub Mul Div Bits Pow Ops.
From Bnum.Proofs Require Import AddSubLemmas PowDeps Panics OpsProofs.
From Bnum.Proofs Require Import Discharge.

(* Shl / Shr with any of the twelve primitive amount types and an amount the type and u32 can hold:
   the same outcome as the inherent shl / shr on the same operands, in both build modes *)
Theorem C17_shift_prim_amounts : forall dbg w ty a v, amt_range ty v -> 0 <= v < 2 ^ 32 ->
  U_Shl_prim dbg w ty a v = U_shl dbg w a v /\ U_Shr_prim dbg w ty a v = U_shr dbg w a v /\
  I_Shl_prim dbg w ty a v = I_shl dbg w a v /\ I_Shr_prim dbg w ty a v = I_shr dbg w a v.
Proof. exact Shl_prim_eq_inherent. Qed.
Print Assumptions C17_shift_prim_amounts.

(* bnum-typed amounts (unsigned or signed, any digit count) whose value fits u32 — in particular every
   amount below BITS: the same outcome as the inherent method with that value *)
Theorem C17_shift_bnum_amounts : forall dbg w (self_signed amt_signed : bool) a amt,
  let v := if amt_signed then sval w amt else uval w amt in
  0 <= v <= u32_max ->
  Shl_bnum dbg w self_signed amt_signed a amt = (if self_signed then I_shl dbg w a v else U_shl dbg w a v) /\
  Shr_bnum dbg w self_signed amt_signed a amt = (if self_signed then I_shr dbg w a v else U_shr dbg w a v).
Proof. exact Shl_bnum_eq_inherent. Qed.
Print Assumptions C17_shift_bnum_amounts.

Theorem C17_shift_bnum_amounts_unrepresentable : forall dbg w (self_signed amt_signed : bool) a amt,
  let v := if amt_signed then sval w amt else uval w amt in
  (v < 0 \/ u32_max < v) ->
  Shl_bnum dbg w self_signed amt_signed a amt = Panic /\ Shr_bnum dbg w self_signed amt_signed a amt = Panic.
Proof. exact Shl_bnum_panics_out_of_u32. Qed.
Print Assumptions C17_shift_bnum_amounts_unrepresentable.

(* Add<digit>: the sum reduced mod 2^BITS; exact when representable *)
Theorem C17_add_digit : forall w n a d, 0 < w -> (0 < n)%nat -> wf w n a -> 0 <= d < B w ->
  wf w n (U_Add_digit w a d) /\ uval w (U_Add_digit w a d) = (uval w a + d) mod Mod w n.
Proof. exact U_Add_digit_ok. Qed.
Print Assumptions C17_add_digit.

Theorem C17_add_digit_exact : forall w n a d, 0 < w -> (0 < n)%nat -> wf w n a -> 0 <= d < B w ->
  uval w a + d < Mod w n -> uval w (U_Add_digit w a d) = uval w a + d.
Proof. exact U_Add_digit_exact. Qed.
Print Assumptions C17_add_digit_exact.

(* Div<digit> / Rem<digit>: quotient and remainder by the digit (under C03's div_rem_digit theorem);
   a zero digit panics in both build modes *)
Theorem C17_div_rem_digit : forall w n a d, 0 < w -> wf w n a -> 0 < d < B w ->
  exists q r, U_Div_digit w a d = Ret q /\ U_Rem_digit w a d = Ret r /\
              wf w n q /\ uval w q = uval w a / d /\ r = uval w a mod d.
Proof. exact (Div_Rem_digit_ok div_digit_spec_holds). Qed.
Print Assumptions C17_div_rem_digit.

Theorem C17_div_rem_digit_zero : forall w a, U_Div_digit w a 0 = Panic /\ U_Rem_digit w a 0 = Panic.
Proof. exact Div_Rem_digit_zero. Qed.
Print Assumptions C17_div_rem_digit_zero.

(* Sum / Product are the left folds with + / * from ZERO / ONE (as outcomes: the first overflowing
   prefix panics in debug builds) *)
Theorem C17_sum_product_folds : forall dbg w n xs,
  U_Sum dbg w n xs = fold_out (U_add dbg w) xs (ZERO n) /\
  U_Product dbg w n xs = fold_out (U_mul dbg w) xs (ONE n) /\
  I_Sum dbg w n xs = fold_out (I_add dbg w) xs (ZERO n) /\
  I_Product dbg w n xs = fold_out (I_mul dbg w) xs (ONE n).
Proof. exact Sum_Product_are_folds. Qed.
Print Assumptions C17_sum_product_folds.

Theorem C17_sum_exact : forall dbg w n xs, 0 < w -> Forall (wf w n) xs ->
  forall acc, wf w n acc -> uval w acc + fold_right (fun x s => uval w x + s) 0 xs < Mod w n ->
  exists r, fold_out (U_add dbg w) xs acc = Ret r /\ wf w n r /\
            uval w r = uval w acc + fold_right (fun x s => uval w x + s) 0 xs.
Proof. exact U_Sum_exact. Qed.
Print Assumptions C17_sum_exact.

Theorem C17_default : forall w n, uval w (Default n) = 0.
Proof. intros. exact (ZERO_uval w n). Qed.
Print Assumptions C17_default.

Example C17_ex : U_Shl_prim true 8 AU64 [1; 0; 0] 9 = Ret [0; 2; 0] /\ U_Add_digit 8 [255; 255; 0] 1 = [0; 0; 1] /\
  U_Sum true 8 2 [[1; 0]; [2; 0]; [255; 0]] = Ret [2; 1] /\ U_Sum true 8 1 [[200]; [100]] = Panic /\
  U_Sum false 8 1 [[200]; [100]] = Ret [44].
Proof. vm_compute. repeat split. Qed.

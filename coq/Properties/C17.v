(* Properties/C17.v — C17: "Operator traits, assign forms, reference forms and iterator folds agree".
   In the model (Model/Ops.v) the by-reference forms dereference and call the by-value impl and `a op= b`
   stores `a op b` — exactly what the macros of src/int/ops.rs expand to — so they are the SAME function as
   the by-value operator, which in turn is the inherent const method; the correspondence check calls every
   one of the ~500 generated impls separately against that one function.  What has content in the model, and
   is proved here for every digit width / count / operand, is: the amount conversion of the twelve primitive
   shift-amount types and of bnum-typed amounts, the digit-operand forms, and the iterator folds. *)
From Bnum Require Import Base Prim.
From Bnum.Model Require Import Digit Core Shift AddSub Mul Div Bits Pow Ops.
From Bnum.Proofs Require Import AddSubLemmas PowDeps Panics OpsProofs.
From Bnum.Proofs Require Import Discharge.

(* Shl / Shr with any of the twelve primitive amount types and an amount the type and u32 can hold:
   the same outcome as the inherent shl / shr on the same operands, in both build modes *)
Theorem C17_shift_prim_amounts : forall dbg w ty a v, amt_range ty v -> 0 <= v < 2 ^ 32 ->
  U_Shl_prim dbg w ty a v = U_shl dbg w a v /\ U_Shr_prim dbg w ty a v = U_shr dbg w a v /\
  I_Shl_prim dbg w ty a v = I_shl dbg w a v /\ I_Shr_prim dbg w ty a v = I_shr dbg w a v.
Proof. exact Shl_prim_eq_inherent. Qed.
Print Assumptions C17_shift_prim_amounts.

(* bnum-typed amounts (unsigned or signed, any digit count) whose value fits u32 — in particular every
   amount below BITS: the same outcome as the inherent method with that value *)
Theorem C17_shift_bnum_amounts : forall dbg w (self_signed amt_signed : bool) a amt,
  let v := if amt_signed then sval w amt else uval w amt in
  0 <= v <= u32_max ->
  Shl_bnum dbg w self_signed amt_signed a amt = (if self_signed then I_shl dbg w a v else U_shl dbg w a v) /\
  Shr_bnum dbg w self_signed amt_signed a amt = (if self_signed then I_shr dbg w a v else U_shr dbg w a v).
Proof. exact Shl_bnum_eq_inherent. Qed.
Print Assumptions C17_shift_bnum_amounts.

Theorem C17_shift_bnum_amounts_unrepresentable : forall dbg w (self_signed amt_signed : bool) a amt,
  let v := if amt_signed then sval w amt else uval w amt in
  (v < 0 \/ u32_max < v) ->
  Shl_bnum dbg w self_signed amt_signed a amt = Panic /\ Shr_bnum dbg w self_signed amt_signed a amt = Panic.
Proof. exact Shl_bnum_panics_out_of_u32. Qed.
Print Assumptions C17_shift_bnum_amounts_unrepresentable.

(* Add<digit>: the sum reduced mod 2^BITS; exact when representable *)
Theorem C17_add_digit : forall w n a d, 0 < w -> (0 < n)%nat -> wf w n a -> 0 <= d < B w ->
  wf w n (U_Add_digit w a d) /\ uval w (U_Add_digit w a d) = (uval w a + d) mod Mod w n.
Proof. exact U_Add_digit_ok. Qed.
Print Assumptions C17_add_digit.

Theorem C17_add_digit_exact : forall w n a d, 0 < w -> (0 < n)%nat -> wf w n a -> 0 <= d < B w ->
  uval w a + d < Mod w n -> uval w (U_Add_digit w a d) = uval w a + d.
Proof. exact U_Add_digit_exact. Qed.
Print Assumptions C17_add_digit_exact.

(* Div<digit> / Rem<digit>: quotient and remainder by the digit (under C03's div_rem_digit theorem);
   a zero digit panics in both build modes *)
Theorem C17_div_rem_digit : forall w n a d, 0 < w -> wf w n a -> 0 < d < B w ->
  exists q r, U_Div_digit w a d = Ret q /\ U_Rem_digit w a d = Ret r /\
              wf w n q /\ uval w q = uval w a / d /\ r = uval w a mod d.
Proof. exact (Div_Rem_digit_ok div_digit_spec_holds). Qed.
Print Assumptions C17_div_rem_digit.

Theorem C17_div_rem_digit_zero : forall w a, U_Div_digit w a 0 = Panic /\ U_Rem_digit w a 0 = Panic.
Proof. exact Div_Rem_digit_zero. Qed.
Print Assumptions C17_div_rem_digit_zero.

(* Sum / Product are the left folds with + / * from ZERO / ONE (as outcomes: the first overflowing
   prefix panics in debug builds) *)
Theorem C17_sum_product_folds : forall dbg w n xs,
  U_Sum dbg w n xs = fold_out (U_add dbg w) xs (ZERO n) /\
  U_Product dbg w n xs = fold_out (U_mul dbg w) xs (ONE n) /\
  I_Sum dbg w n xs = fold_out (I_add dbg w) xs (ZERO n) /\
  I_Product dbg w n xs = fold_out (I_mul dbg w) xs (ONE n).
Proof. exact Sum_Product_are_folds. Qed.
Print Assumptions C17_sum_product_folds.

Theorem C17_sum_exact : forall dbg w n xs, 0 < w -> Forall (wf w n) xs ->
  forall acc, wf w n acc -> uval w acc + fold_right (fun x s => uval w x + s) 0 xs < Mod w n ->
  exists r, fold_out (U_add dbg w) xs acc = Ret r /\ wf w n r /\
            uval w r = uval w acc + fold_right (fun x s => uval w x + s) 0 xs.
Proof. exact U_Sum_exact. Qed.
Print Assumptions C17_sum_exact.

Theorem C17_default : forall w n, uval w (Default n) = 0.
Proof. intros. exact (ZERO_uval w n). Qed.
Print Assumptions C17_default.

Example C17_ex : U_Shl_prim true 8 AU64 [1; 0; 0] 9 = Ret [0; 2; 0] /\ U_Add_digit 8 [255; 255; 0] 1 = [0; 0; 1] /\
  U_Sum true 8 2 [[1; 0]; [2; 0]; [255; 0]] = Ret [2; 1] /\ U_Sum true 8 1 [[200]; [100]] = Panic /\
  U_Sum false 8 1 [[200]; [100]] = Ret [44].
Proof. vm_compute. repeat split. Qed.

(* ==== glue tie of the trait layer (text written by tools/mk_gluetie_c17.py; keep at the END of the file) ==== *)
(* ---- tie to the source: every reference / assign operator form (op_ref_impl!, assign_op_impl!, shift_assign_ops!), the
   six impls of each shift_self_impl! invocation and Sum / Product / Default, REGENERATED from /repo/src on every run
   (Generated/Glue.v, tools/rs2v_glue.py), equal the by-value model function on the dereferenced operands - the expression
   Run/RunC17.v runs for that operation - for every digit width, digit count, build mode and operand; the forms whose
   amount is a bnum under the hypotheses of the C13 theorem about u32::try_from (well-formed amount, N >= 1, Rust's digit
   widths).  The by-value impls they call are tied in GlueTieC04.v (C04_glue_rs_matches_model) ---- *)
From Bnum.Model Require Import Digit Core Shift AddSub Mul Div Bits Pow.
From Bnum.Model Require Ops.
From Bnum.Generated Require Import Glue.
From Bnum.Proofs Require Import GlueTieCommon GlueTieC17.
Theorem C17_glue_rs_matches_model :
  (forall dbg w a b, Glue.U_Add_vr_add dbg w a b = U_add dbg w a b) /\
  (forall dbg w a b, Glue.U_Add_rr_add dbg w a b = U_add dbg w a b) /\
  (forall dbg w a b, Glue.U_Add_rv_add dbg w a b = U_add dbg w a b) /\
  (forall dbg w a b, Glue.U_AddAssign_add_assign dbg w a b = U_add dbg w a b) /\
  (forall dbg w a b, Glue.U_AddAssign_ref_add_assign dbg w a b = U_add dbg w a b) /\
  (forall dbg w a b, Glue.U_Sub_vr_sub dbg w a b = U_sub dbg w a b) /\
  (forall dbg w a b, Glue.U_Sub_rr_sub dbg w a b = U_sub dbg w a b) /\
  (forall dbg w a b, Glue.U_Sub_rv_sub dbg w a b = U_sub dbg w a b) /\
  (forall dbg w a b, Glue.U_SubAssign_sub_assign dbg w a b = U_sub dbg w a b) /\
  (forall dbg w a b, Glue.U_SubAssign_ref_sub_assign dbg w a b = U_sub dbg w a b) /\
  (forall dbg w a b, Glue.U_Mul_vr_mul dbg w a b = U_mul dbg w a b) /\
  (forall dbg w a b, Glue.U_Mul_rr_mul dbg w a b = U_mul dbg w a b) /\
  (forall dbg w a b, Glue.U_Mul_rv_mul dbg w a b = U_mul dbg w a b) /\
  (forall dbg w a b, Glue.U_MulAssign_mul_assign dbg w a b = U_mul dbg w a b) /\
  (forall dbg w a b, Glue.U_MulAssign_ref_mul_assign dbg w a b = U_mul dbg w a b) /\
  (forall w a b, Glue.U_Div_vr_div w a b = U_div w a b) /\
  (forall w a b, Glue.U_Div_rr_div w a b = U_div w a b) /\
  (forall w a b, Glue.U_Div_rv_div w a b = U_div w a b) /\
  (forall w a b, Glue.U_DivAssign_div_assign w a b = U_div w a b) /\
  (forall w a b, Glue.U_DivAssign_ref_div_assign w a b = U_div w a b) /\
  (forall w a b, Glue.U_Rem_vr_rem w a b = U_rem w a b) /\
  (forall w a b, Glue.U_Rem_rr_rem w a b = U_rem w a b) /\
  (forall w a b, Glue.U_Rem_rv_rem w a b = U_rem w a b) /\
  (forall w a b, Glue.U_RemAssign_rem_assign w a b = U_rem w a b) /\
  (forall w a b, Glue.U_RemAssign_ref_rem_assign w a b = U_rem w a b) /\
  (forall w a b, Glue.U_BitAnd_vr_bitand w a b = bitand a b) /\
  (forall w a b, Glue.U_BitAnd_rr_bitand w a b = bitand a b) /\
  (forall w a b, Glue.U_BitAnd_rv_bitand w a b = bitand a b) /\
  (forall w a b, Glue.U_BitAndAssign_bitand_assign w a b = bitand a b) /\
  (forall w a b, Glue.U_BitAndAssign_ref_bitand_assign w a b = bitand a b) /\
  (forall w a b, Glue.U_BitOr_vr_bitor w a b = bitor a b) /\
  (forall w a b, Glue.U_BitOr_rr_bitor w a b = bitor a b) /\
  (forall w a b, Glue.U_BitOr_rv_bitor w a b = bitor a b) /\
  (forall w a b, Glue.U_BitOrAssign_bitor_assign w a b = bitor a b) /\
  (forall w a b, Glue.U_BitOrAssign_ref_bitor_assign w a b = bitor a b) /\
  (forall w a b, Glue.U_BitXor_vr_bitxor w a b = bitxor a b) /\
  (forall w a b, Glue.U_BitXor_rr_bitxor w a b = bitxor a b) /\
  (forall w a b, Glue.U_BitXor_rv_bitxor w a b = bitxor a b) /\
  (forall w a b, Glue.U_BitXorAssign_bitxor_assign w a b = bitxor a b) /\
  (forall w a b, Glue.U_BitXorAssign_ref_bitxor_assign w a b = bitxor a b) /\
  (forall dbg w a k, Glue.U_Shl_u8_vr_shl dbg w a k = Ops.U_Shl_prim dbg w Ops.AU8 a k) /\
  (forall dbg w a k, Glue.U_Shl_u8_rr_shl dbg w a k = Ops.U_Shl_prim dbg w Ops.AU8 a k) /\
  (forall dbg w a k, Glue.U_Shl_u8_rv_shl dbg w a k = Ops.U_Shl_prim dbg w Ops.AU8 a k) /\
  (forall dbg w a k, Glue.U_ShlAssign_u8_shl_assign dbg w a k = Ops.U_Shl_prim dbg w Ops.AU8 a k) /\
  (forall dbg w a k, Glue.U_ShlAssign_u8_ref_shl_assign dbg w a k = Ops.U_Shl_prim dbg w Ops.AU8 a k) /\
  (forall dbg w a k, Glue.U_Shl_u16_vr_shl dbg w a k = Ops.U_Shl_prim dbg w Ops.AU16 a k) /\
  (forall dbg w a k, Glue.U_Shl_u16_rr_shl dbg w a k = Ops.U_Shl_prim dbg w Ops.AU16 a k) /\
  (forall dbg w a k, Glue.U_Shl_u16_rv_shl dbg w a k = Ops.U_Shl_prim dbg w Ops.AU16 a k) /\
  (forall dbg w a k, Glue.U_ShlAssign_u16_shl_assign dbg w a k = Ops.U_Shl_prim dbg w Ops.AU16 a k) /\
  (forall dbg w a k, Glue.U_ShlAssign_u16_ref_shl_assign dbg w a k = Ops.U_Shl_prim dbg w Ops.AU16 a k) /\
  (forall dbg w a k, Glue.U_Shl_u32_vr_shl dbg w a k = Ops.U_Shl_prim dbg w Ops.AU32 a k) /\
  (forall dbg w a k, Glue.U_Shl_u32_rr_shl dbg w a k = Ops.U_Shl_prim dbg w Ops.AU32 a k) /\
  (forall dbg w a k, Glue.U_Shl_u32_rv_shl dbg w a k = Ops.U_Shl_prim dbg w Ops.AU32 a k) /\
  (forall dbg w a k, Glue.U_ShlAssign_u32_shl_assign dbg w a k = Ops.U_Shl_prim dbg w Ops.AU32 a k) /\
  (forall dbg w a k, Glue.U_ShlAssign_u32_ref_shl_assign dbg w a k = Ops.U_Shl_prim dbg w Ops.AU32 a k) /\
  (forall dbg w a k, Glue.U_Shl_u64_vr_shl dbg w a k = Ops.U_Shl_prim dbg w Ops.AU64 a k) /\
  (forall dbg w a k, Glue.U_Shl_u64_rr_shl dbg w a k = Ops.U_Shl_prim dbg w Ops.AU64 a k) /\
  (forall dbg w a k, Glue.U_Shl_u64_rv_shl dbg w a k = Ops.U_Shl_prim dbg w Ops.AU64 a k) /\
  (forall dbg w a k, Glue.U_ShlAssign_u64_shl_assign dbg w a k = Ops.U_Shl_prim dbg w Ops.AU64 a k) /\
  (forall dbg w a k, Glue.U_ShlAssign_u64_ref_shl_assign dbg w a k = Ops.U_Shl_prim dbg w Ops.AU64 a k) /\
  (forall dbg w a k, Glue.U_Shl_u128_vr_shl dbg w a k = Ops.U_Shl_prim dbg w Ops.AU128 a k) /\
  (forall dbg w a k, Glue.U_Shl_u128_rr_shl dbg w a k = Ops.U_Shl_prim dbg w Ops.AU128 a k) /\
  (forall dbg w a k, Glue.U_Shl_u128_rv_shl dbg w a k = Ops.U_Shl_prim dbg w Ops.AU128 a k) /\
  (forall dbg w a k, Glue.U_ShlAssign_u128_shl_assign dbg w a k = Ops.U_Shl_prim dbg w Ops.AU128 a k) /\
  (forall dbg w a k, Glue.U_ShlAssign_u128_ref_shl_assign dbg w a k = Ops.U_Shl_prim dbg w Ops.AU128 a k) /\
  (forall dbg w a k, Glue.U_Shl_usize_vr_shl dbg w a k = Ops.U_Shl_prim dbg w Ops.AUsize a k) /\
  (forall dbg w a k, Glue.U_Shl_usize_rr_shl dbg w a k = Ops.U_Shl_prim dbg w Ops.AUsize a k) /\
  (forall dbg w a k, Glue.U_Shl_usize_rv_shl dbg w a k = Ops.U_Shl_prim dbg w Ops.AUsize a k) /\
  (forall dbg w a k, Glue.U_ShlAssign_usize_shl_assign dbg w a k = Ops.U_Shl_prim dbg w Ops.AUsize a k) /\
  (forall dbg w a k, Glue.U_ShlAssign_usize_ref_shl_assign dbg w a k = Ops.U_Shl_prim dbg w Ops.AUsize a k) /\
  (forall dbg w a k, Glue.U_Shl_i8_vr_shl dbg w a k = Ops.U_Shl_prim dbg w Ops.AI8 a k) /\
  (forall dbg w a k, Glue.U_Shl_i8_rr_shl dbg w a k = Ops.U_Shl_prim dbg w Ops.AI8 a k) /\
  (forall dbg w a k, Glue.U_Shl_i8_rv_shl dbg w a k = Ops.U_Shl_prim dbg w Ops.AI8 a k) /\
  (forall dbg w a k, Glue.U_ShlAssign_i8_shl_assign dbg w a k = Ops.U_Shl_prim dbg w Ops.AI8 a k) /\
  (forall dbg w a k, Glue.U_ShlAssign_i8_ref_shl_assign dbg w a k = Ops.U_Shl_prim dbg w Ops.AI8 a k) /\
  (forall dbg w a k, Glue.U_Shl_i16_vr_shl dbg w a k = Ops.U_Shl_prim dbg w Ops.AI16 a k) /\
  (forall dbg w a k, Glue.U_Shl_i16_rr_shl dbg w a k = Ops.U_Shl_prim dbg w Ops.AI16 a k) /\
  (forall dbg w a k, Glue.U_Shl_i16_rv_shl dbg w a k = Ops.U_Shl_prim dbg w Ops.AI16 a k) /\
  (forall dbg w a k, Glue.U_ShlAssign_i16_shl_assign dbg w a k = Ops.U_Shl_prim dbg w Ops.AI16 a k) /\
  (forall dbg w a k, Glue.U_ShlAssign_i16_ref_shl_assign dbg w a k = Ops.U_Shl_prim dbg w Ops.AI16 a k) /\
  (forall dbg w a k, Glue.U_Shl_i32_vr_shl dbg w a k = Ops.U_Shl_prim dbg w Ops.AI32 a k) /\
  (forall dbg w a k, Glue.U_Shl_i32_rr_shl dbg w a k = Ops.U_Shl_prim dbg w Ops.AI32 a k) /\
  (forall dbg w a k, Glue.U_Shl_i32_rv_shl dbg w a k = Ops.U_Shl_prim dbg w Ops.AI32 a k) /\
  (forall dbg w a k, Glue.U_ShlAssign_i32_shl_assign dbg w a k = Ops.U_Shl_prim dbg w Ops.AI32 a k) /\
  (forall dbg w a k, Glue.U_ShlAssign_i32_ref_shl_assign dbg w a k = Ops.U_Shl_prim dbg w Ops.AI32 a k) /\
  (forall dbg w a k, Glue.U_Shl_i64_vr_shl dbg w a k = Ops.U_Shl_prim dbg w Ops.AI64 a k) /\
  (forall dbg w a k, Glue.U_Shl_i64_rr_shl dbg w a k = Ops.U_Shl_prim dbg w Ops.AI64 a k) /\
  (forall dbg w a k, Glue.U_Shl_i64_rv_shl dbg w a k = Ops.U_Shl_prim dbg w Ops.AI64 a k) /\
  (forall dbg w a k, Glue.U_ShlAssign_i64_shl_assign dbg w a k = Ops.U_Shl_prim dbg w Ops.AI64 a k) /\
  (forall dbg w a k, Glue.U_ShlAssign_i64_ref_shl_assign dbg w a k = Ops.U_Shl_prim dbg w Ops.AI64 a k) /\
  (forall dbg w a k, Glue.U_Shl_i128_vr_shl dbg w a k = Ops.U_Shl_prim dbg w Ops.AI128 a k) /\
  (forall dbg w a k, Glue.U_Shl_i128_rr_shl dbg w a k = Ops.U_Shl_prim dbg w Ops.AI128 a k) /\
  (forall dbg w a k, Glue.U_Shl_i128_rv_shl dbg w a k = Ops.U_Shl_prim dbg w Ops.AI128 a k) /\
  (forall dbg w a k, Glue.U_ShlAssign_i128_shl_assign dbg w a k = Ops.U_Shl_prim dbg w Ops.AI128 a k) /\
  (forall dbg w a k, Glue.U_ShlAssign_i128_ref_shl_assign dbg w a k = Ops.U_Shl_prim dbg w Ops.AI128 a k) /\
  (forall dbg w a k, Glue.U_Shl_isize_vr_shl dbg w a k = Ops.U_Shl_prim dbg w Ops.AIsize a k) /\
  (forall dbg w a k, Glue.U_Shl_isize_rr_shl dbg w a k = Ops.U_Shl_prim dbg w Ops.AIsize a k) /\
  (forall dbg w a k, Glue.U_Shl_isize_rv_shl dbg w a k = Ops.U_Shl_prim dbg w Ops.AIsize a k) /\
  (forall dbg w a k, Glue.U_ShlAssign_isize_shl_assign dbg w a k = Ops.U_Shl_prim dbg w Ops.AIsize a k) /\
  (forall dbg w a k, Glue.U_ShlAssign_isize_ref_shl_assign dbg w a k = Ops.U_Shl_prim dbg w Ops.AIsize a k) /\
  (forall dbg w a b n, 0 < w -> 32 < w \/ (w | 32) -> (0 < n)%nat -> wf w n b ->
  Glue.U_Shl_BUint_shl dbg w a b = Ops.Shl_bnum dbg w false false a b) /\
  (forall dbg w a b n, 0 < w -> 32 < w \/ (w | 32) -> (0 < n)%nat -> wf w n b ->
  Glue.U_Shl_BUint_vr_shl dbg w a b = Ops.Shl_bnum dbg w false false a b) /\
  (forall dbg w a b n, 0 < w -> 32 < w \/ (w | 32) -> (0 < n)%nat -> wf w n b ->
  Glue.U_Shl_BUint_rr_shl dbg w a b = Ops.Shl_bnum dbg w false false a b) /\
  (forall dbg w a b n, 0 < w -> 32 < w \/ (w | 32) -> (0 < n)%nat -> wf w n b ->
  Glue.U_Shl_BUint_rv_shl dbg w a b = Ops.Shl_bnum dbg w false false a b) /\
  (forall dbg w a b n, 0 < w -> 32 < w \/ (w | 32) -> (0 < n)%nat -> wf w n b ->
  Glue.U_ShlAssign_BUint_shl_assign dbg w a b = Ops.Shl_bnum dbg w false false a b) /\
  (forall dbg w a b n, 0 < w -> 32 < w \/ (w | 32) -> (0 < n)%nat -> wf w n b ->
  Glue.U_ShlAssign_BUint_ref_shl_assign dbg w a b = Ops.Shl_bnum dbg w false false a b) /\
  (forall dbg w a b n, 0 < w -> 32 < w \/ (w | 32) -> (0 < n)%nat -> wf w n b ->
  Glue.U_Shl_BInt_shl dbg w a b = Ops.Shl_bnum dbg w false true a b) /\
  (forall dbg w a b n, 0 < w -> 32 < w \/ (w | 32) -> (0 < n)%nat -> wf w n b ->
  Glue.U_Shl_BInt_vr_shl dbg w a b = Ops.Shl_bnum dbg w false true a b) /\
  (forall dbg w a b n, 0 < w -> 32 < w \/ (w | 32) -> (0 < n)%nat -> wf w n b ->
  Glue.U_Shl_BInt_rr_shl dbg w a b = Ops.Shl_bnum dbg w false true a b) /\
  (forall dbg w a b n, 0 < w -> 32 < w \/ (w | 32) -> (0 < n)%nat -> wf w n b ->
  Glue.U_Shl_BInt_rv_shl dbg w a b = Ops.Shl_bnum dbg w false true a b) /\
  (forall dbg w a b n, 0 < w -> 32 < w \/ (w | 32) -> (0 < n)%nat -> wf w n b ->
  Glue.U_ShlAssign_BInt_shl_assign dbg w a b = Ops.Shl_bnum dbg w false true a b) /\
  (forall dbg w a b n, 0 < w -> 32 < w \/ (w | 32) -> (0 < n)%nat -> wf w n b ->
  Glue.U_ShlAssign_BInt_ref_shl_assign dbg w a b = Ops.Shl_bnum dbg w false true a b) /\
  (forall dbg w a k, Glue.U_Shr_u8_vr_shr dbg w a k = Ops.U_Shr_prim dbg w Ops.AU8 a k) /\
  (forall dbg w a k, Glue.U_Shr_u8_rr_shr dbg w a k = Ops.U_Shr_prim dbg w Ops.AU8 a k) /\
  (forall dbg w a k, Glue.U_Shr_u8_rv_shr dbg w a k = Ops.U_Shr_prim dbg w Ops.AU8 a k) /\
  (forall dbg w a k, Glue.U_ShrAssign_u8_shr_assign dbg w a k = Ops.U_Shr_prim dbg w Ops.AU8 a k) /\
  (forall dbg w a k, Glue.U_ShrAssign_u8_ref_shr_assign dbg w a k = Ops.U_Shr_prim dbg w Ops.AU8 a k) /\
  (forall dbg w a k, Glue.U_Shr_u16_vr_shr dbg w a k = Ops.U_Shr_prim dbg w Ops.AU16 a k) /\
  (forall dbg w a k, Glue.U_Shr_u16_rr_shr dbg w a k = Ops.U_Shr_prim dbg w Ops.AU16 a k) /\
  (forall dbg w a k, Glue.U_Shr_u16_rv_shr dbg w a k = Ops.U_Shr_prim dbg w Ops.AU16 a k) /\
  (forall dbg w a k, Glue.U_ShrAssign_u16_shr_assign dbg w a k = Ops.U_Shr_prim dbg w Ops.AU16 a k) /\
  (forall dbg w a k, Glue.U_ShrAssign_u16_ref_shr_assign dbg w a k = Ops.U_Shr_prim dbg w Ops.AU16 a k) /\
  (forall dbg w a k, Glue.U_Shr_u32_vr_shr dbg w a k = Ops.U_Shr_prim dbg w Ops.AU32 a k) /\
  (forall dbg w a k, Glue.U_Shr_u32_rr_shr dbg w a k = Ops.U_Shr_prim dbg w Ops.AU32 a k) /\
  (forall dbg w a k, Glue.U_Shr_u32_rv_shr dbg w a k = Ops.U_Shr_prim dbg w Ops.AU32 a k) /\
  (forall dbg w a k, Glue.U_ShrAssign_u32_shr_assign dbg w a k = Ops.U_Shr_prim dbg w Ops.AU32 a k) /\
  (forall dbg w a k, Glue.U_ShrAssign_u32_ref_shr_assign dbg w a k = Ops.U_Shr_prim dbg w Ops.AU32 a k) /\
  (forall dbg w a k, Glue.U_Shr_u64_vr_shr dbg w a k = Ops.U_Shr_prim dbg w Ops.AU64 a k) /\
  (forall dbg w a k, Glue.U_Shr_u64_rr_shr dbg w a k = Ops.U_Shr_prim dbg w Ops.AU64 a k) /\
  (forall dbg w a k, Glue.U_Shr_u64_rv_shr dbg w a k = Ops.U_Shr_prim dbg w Ops.AU64 a k) /\
  (forall dbg w a k, Glue.U_ShrAssign_u64_shr_assign dbg w a k = Ops.U_Shr_prim dbg w Ops.AU64 a k) /\
  (forall dbg w a k, Glue.U_ShrAssign_u64_ref_shr_assign dbg w a k = Ops.U_Shr_prim dbg w Ops.AU64 a k) /\
  (forall dbg w a k, Glue.U_Shr_u128_vr_shr dbg w a k = Ops.U_Shr_prim dbg w Ops.AU128 a k) /\
  (forall dbg w a k, Glue.U_Shr_u128_rr_shr dbg w a k = Ops.U_Shr_prim dbg w Ops.AU128 a k) /\
  (forall dbg w a k, Glue.U_Shr_u128_rv_shr dbg w a k = Ops.U_Shr_prim dbg w Ops.AU128 a k) /\
  (forall dbg w a k, Glue.U_ShrAssign_u128_shr_assign dbg w a k = Ops.U_Shr_prim dbg w Ops.AU128 a k) /\
  (forall dbg w a k, Glue.U_ShrAssign_u128_ref_shr_assign dbg w a k = Ops.U_Shr_prim dbg w Ops.AU128 a k) /\
  (forall dbg w a k, Glue.U_Shr_usize_vr_shr dbg w a k = Ops.U_Shr_prim dbg w Ops.AUsize a k) /\
  (forall dbg w a k, Glue.U_Shr_usize_rr_shr dbg w a k = Ops.U_Shr_prim dbg w Ops.AUsize a k) /\
  (forall dbg w a k, Glue.U_Shr_usize_rv_shr dbg w a k = Ops.U_Shr_prim dbg w Ops.AUsize a k) /\
  (forall dbg w a k, Glue.U_ShrAssign_usize_shr_assign dbg w a k = Ops.U_Shr_prim dbg w Ops.AUsize a k) /\
  (forall dbg w a k, Glue.U_ShrAssign_usize_ref_shr_assign dbg w a k = Ops.U_Shr_prim dbg w Ops.AUsize a k) /\
  (forall dbg w a k, Glue.U_Shr_i8_vr_shr dbg w a k = Ops.U_Shr_prim dbg w Ops.AI8 a k) /\
  (forall dbg w a k, Glue.U_Shr_i8_rr_shr dbg w a k = Ops.U_Shr_prim dbg w Ops.AI8 a k) /\
  (forall dbg w a k, Glue.U_Shr_i8_rv_shr dbg w a k = Ops.U_Shr_prim dbg w Ops.AI8 a k) /\
  (forall dbg w a k, Glue.U_ShrAssign_i8_shr_assign dbg w a k = Ops.U_Shr_prim dbg w Ops.AI8 a k) /\
  (forall dbg w a k, Glue.U_ShrAssign_i8_ref_shr_assign dbg w a k = Ops.U_Shr_prim dbg w Ops.AI8 a k) /\
  (forall dbg w a k, Glue.U_Shr_i16_vr_shr dbg w a k = Ops.U_Shr_prim dbg w Ops.AI16 a k) /\
  (forall dbg w a k, Glue.U_Shr_i16_rr_shr dbg w a k = Ops.U_Shr_prim dbg w Ops.AI16 a k) /\
  (forall dbg w a k, Glue.U_Shr_i16_rv_shr dbg w a k = Ops.U_Shr_prim dbg w Ops.AI16 a k) /\
  (forall dbg w a k, Glue.U_ShrAssign_i16_shr_assign dbg w a k = Ops.U_Shr_prim dbg w Ops.AI16 a k) /\
  (forall dbg w a k, Glue.U_ShrAssign_i16_ref_shr_assign dbg w a k = Ops.U_Shr_prim dbg w Ops.AI16 a k) /\
  (forall dbg w a k, Glue.U_Shr_i32_vr_shr dbg w a k = Ops.U_Shr_prim dbg w Ops.AI32 a k) /\
  (forall dbg w a k, Glue.U_Shr_i32_rr_shr dbg w a k = Ops.U_Shr_prim dbg w Ops.AI32 a k) /\
  (forall dbg w a k, Glue.U_Shr_i32_rv_shr dbg w a k = Ops.U_Shr_prim dbg w Ops.AI32 a k) /\
  (forall dbg w a k, Glue.U_ShrAssign_i32_shr_assign dbg w a k = Ops.U_Shr_prim dbg w Ops.AI32 a k) /\
  (forall dbg w a k, Glue.U_ShrAssign_i32_ref_shr_assign dbg w a k = Ops.U_Shr_prim dbg w Ops.AI32 a k) /\
  (forall dbg w a k, Glue.U_Shr_i64_vr_shr dbg w a k = Ops.U_Shr_prim dbg w Ops.AI64 a k) /\
  (forall dbg w a k, Glue.U_Shr_i64_rr_shr dbg w a k = Ops.U_Shr_prim dbg w Ops.AI64 a k) /\
  (forall dbg w a k, Glue.U_Shr_i64_rv_shr dbg w a k = Ops.U_Shr_prim dbg w Ops.AI64 a k) /\
  (forall dbg w a k, Glue.U_ShrAssign_i64_shr_assign dbg w a k = Ops.U_Shr_prim dbg w Ops.AI64 a k) /\
  (forall dbg w a k, Glue.U_ShrAssign_i64_ref_shr_assign dbg w a k = Ops.U_Shr_prim dbg w Ops.AI64 a k) /\
  (forall dbg w a k, Glue.U_Shr_i128_vr_shr dbg w a k = Ops.U_Shr_prim dbg w Ops.AI128 a k) /\
  (forall dbg w a k, Glue.U_Shr_i128_rr_shr dbg w a k = Ops.U_Shr_prim dbg w Ops.AI128 a k) /\
  (forall dbg w a k, Glue.U_Shr_i128_rv_shr dbg w a k = Ops.U_Shr_prim dbg w Ops.AI128 a k) /\
  (forall dbg w a k, Glue.U_ShrAssign_i128_shr_assign dbg w a k = Ops.U_Shr_prim dbg w Ops.AI128 a k) /\
  (forall dbg w a k, Glue.U_ShrAssign_i128_ref_shr_assign dbg w a k = Ops.U_Shr_prim dbg w Ops.AI128 a k) /\
  (forall dbg w a k, Glue.U_Shr_isize_vr_shr dbg w a k = Ops.U_Shr_prim dbg w Ops.AIsize a k) /\
  (forall dbg w a k, Glue.U_Shr_isize_rr_shr dbg w a k = Ops.U_Shr_prim dbg w Ops.AIsize a k) /\
  (forall dbg w a k, Glue.U_Shr_isize_rv_shr dbg w a k = Ops.U_Shr_prim dbg w Ops.AIsize a k) /\
  (forall dbg w a k, Glue.U_ShrAssign_isize_shr_assign dbg w a k = Ops.U_Shr_prim dbg w Ops.AIsize a k) /\
  (forall dbg w a k, Glue.U_ShrAssign_isize_ref_shr_assign dbg w a k = Ops.U_Shr_prim dbg w Ops.AIsize a k) /\
  (forall dbg w a b n, 0 < w -> 32 < w \/ (w | 32) -> (0 < n)%nat -> wf w n b ->
  Glue.U_Shr_BUint_shr dbg w a b = Ops.Shr_bnum dbg w false false a b) /\
  (forall dbg w a b n, 0 < w -> 32 < w \/ (w | 32) -> (0 < n)%nat -> wf w n b ->
  Glue.U_Shr_BUint_vr_shr dbg w a b = Ops.Shr_bnum dbg w false false a b) /\
  (forall dbg w a b n, 0 < w -> 32 < w \/ (w | 32) -> (0 < n)%nat -> wf w n b ->
  Glue.U_Shr_BUint_rr_shr dbg w a b = Ops.Shr_bnum dbg w false false a b) /\
  (forall dbg w a b n, 0 < w -> 32 < w \/ (w | 32) -> (0 < n)%nat -> wf w n b ->
  Glue.U_Shr_BUint_rv_shr dbg w a b = Ops.Shr_bnum dbg w false false a b) /\
  (forall dbg w a b n, 0 < w -> 32 < w \/ (w | 32) -> (0 < n)%nat -> wf w n b ->
  Glue.U_ShrAssign_BUint_shr_assign dbg w a b = Ops.Shr_bnum dbg w false false a b) /\
  (forall dbg w a b n, 0 < w -> 32 < w \/ (w | 32) -> (0 < n)%nat -> wf w n b ->
  Glue.U_ShrAssign_BUint_ref_shr_assign dbg w a b = Ops.Shr_bnum dbg w false false a b) /\
  (forall dbg w a b n, 0 < w -> 32 < w \/ (w | 32) -> (0 < n)%nat -> wf w n b ->
  Glue.U_Shr_BInt_shr dbg w a b = Ops.Shr_bnum dbg w false true a b) /\
  (forall dbg w a b n, 0 < w -> 32 < w \/ (w | 32) -> (0 < n)%nat -> wf w n b ->
  Glue.U_Shr_BInt_vr_shr dbg w a b = Ops.Shr_bnum dbg w false true a b) /\
  (forall dbg w a b n, 0 < w -> 32 < w \/ (w | 32) -> (0 < n)%nat -> wf w n b ->
  Glue.U_Shr_BInt_rr_shr dbg w a b = Ops.Shr_bnum dbg w false true a b) /\
  (forall dbg w a b n, 0 < w -> 32 < w \/ (w | 32) -> (0 < n)%nat -> wf w n b ->
  Glue.U_Shr_BInt_rv_shr dbg w a b = Ops.Shr_bnum dbg w false true a b) /\
  (forall dbg w a b n, 0 < w -> 32 < w \/ (w | 32) -> (0 < n)%nat -> wf w n b ->
  Glue.U_ShrAssign_BInt_shr_assign dbg w a b = Ops.Shr_bnum dbg w false true a b) /\
  (forall dbg w a b n, 0 < w -> 32 < w \/ (w | 32) -> (0 < n)%nat -> wf w n b ->
  Glue.U_ShrAssign_BInt_ref_shr_assign dbg w a b = Ops.Shr_bnum dbg w false true a b) /\
  (forall w n, Glue.U_Default_default w n = Ops.Default n) /\
  (forall dbg w n xs, Glue.U_Sum_sum dbg w n xs = Ops.U_Sum dbg w n xs) /\
  (forall dbg w n xs, Glue.U_Sum_ref_sum dbg w n xs = Ops.U_Sum dbg w n xs) /\
  (forall dbg w n xs, Glue.U_Product_product dbg w n xs = Ops.U_Product dbg w n xs) /\
  (forall dbg w n xs, Glue.U_Product_ref_product dbg w n xs = Ops.U_Product dbg w n xs) /\
  (forall dbg w a b, Glue.I_Add_vr_add dbg w a b = I_add dbg w a b) /\
  (forall dbg w a b, Glue.I_Add_rr_add dbg w a b = I_add dbg w a b) /\
  (forall dbg w a b, Glue.I_Add_rv_add dbg w a b = I_add dbg w a b) /\
  (forall dbg w a b, Glue.I_AddAssign_add_assign dbg w a b = I_add dbg w a b) /\
  (forall dbg w a b, Glue.I_AddAssign_ref_add_assign dbg w a b = I_add dbg w a b) /\
  (forall dbg w a b, Glue.I_Sub_vr_sub dbg w a b = I_sub dbg w a b) /\
  (forall dbg w a b, Glue.I_Sub_rr_sub dbg w a b = I_sub dbg w a b) /\
  (forall dbg w a b, Glue.I_Sub_rv_sub dbg w a b = I_sub dbg w a b) /\
  (forall dbg w a b, Glue.I_SubAssign_sub_assign dbg w a b = I_sub dbg w a b) /\
  (forall dbg w a b, Glue.I_SubAssign_ref_sub_assign dbg w a b = I_sub dbg w a b) /\
  (forall dbg w a b, Glue.I_Mul_vr_mul dbg w a b = I_mul dbg w a b) /\
  (forall dbg w a b, Glue.I_Mul_rr_mul dbg w a b = I_mul dbg w a b) /\
  (forall dbg w a b, Glue.I_Mul_rv_mul dbg w a b = I_mul dbg w a b) /\
  (forall dbg w a b, Glue.I_MulAssign_mul_assign dbg w a b = I_mul dbg w a b) /\
  (forall dbg w a b, Glue.I_MulAssign_ref_mul_assign dbg w a b = I_mul dbg w a b) /\
  (forall dbg w a b, Glue.I_Div_vr_div dbg w a b = I_div dbg w a b) /\
  (forall dbg w a b, Glue.I_Div_rr_div dbg w a b = I_div dbg w a b) /\
  (forall dbg w a b, Glue.I_Div_rv_div dbg w a b = I_div dbg w a b) /\
  (forall dbg w a b, Glue.I_DivAssign_div_assign dbg w a b = I_div dbg w a b) /\
  (forall dbg w a b, Glue.I_DivAssign_ref_div_assign dbg w a b = I_div dbg w a b) /\
  (forall dbg w a b, Glue.I_Rem_vr_rem dbg w a b = I_rem dbg w a b) /\
  (forall dbg w a b, Glue.I_Rem_rr_rem dbg w a b = I_rem dbg w a b) /\
  (forall dbg w a b, Glue.I_Rem_rv_rem dbg w a b = I_rem dbg w a b) /\
  (forall dbg w a b, Glue.I_RemAssign_rem_assign dbg w a b = I_rem dbg w a b) /\
  (forall dbg w a b, Glue.I_RemAssign_ref_rem_assign dbg w a b = I_rem dbg w a b) /\
  (forall w a b, Glue.I_BitAnd_vr_bitand w a b = bitand a b) /\
  (forall w a b, Glue.I_BitAnd_rr_bitand w a b = bitand a b) /\
  (forall w a b, Glue.I_BitAnd_rv_bitand w a b = bitand a b) /\
  (forall w a b, Glue.I_BitAndAssign_bitand_assign w a b = bitand a b) /\
  (forall w a b, Glue.I_BitAndAssign_ref_bitand_assign w a b = bitand a b) /\
  (forall w a b, Glue.I_BitOr_vr_bitor w a b = bitor a b) /\
  (forall w a b, Glue.I_BitOr_rr_bitor w a b = bitor a b) /\
  (forall w a b, Glue.I_BitOr_rv_bitor w a b = bitor a b) /\
  (forall w a b, Glue.I_BitOrAssign_bitor_assign w a b = bitor a b) /\
  (forall w a b, Glue.I_BitOrAssign_ref_bitor_assign w a b = bitor a b) /\
  (forall w a b, Glue.I_BitXor_vr_bitxor w a b = bitxor a b) /\
  (forall w a b, Glue.I_BitXor_rr_bitxor w a b = bitxor a b) /\
  (forall w a b, Glue.I_BitXor_rv_bitxor w a b = bitxor a b) /\
  (forall w a b, Glue.I_BitXorAssign_bitxor_assign w a b = bitxor a b) /\
  (forall w a b, Glue.I_BitXorAssign_ref_bitxor_assign w a b = bitxor a b) /\
  (forall dbg w a k, Glue.I_Shl_u8_vr_shl dbg w a k = Ops.I_Shl_prim dbg w Ops.AU8 a k) /\
  (forall dbg w a k, Glue.I_Shl_u8_rr_shl dbg w a k = Ops.I_Shl_prim dbg w Ops.AU8 a k) /\
  (forall dbg w a k, Glue.I_Shl_u8_rv_shl dbg w a k = Ops.I_Shl_prim dbg w Ops.AU8 a k) /\
  (forall dbg w a k, Glue.I_ShlAssign_u8_shl_assign dbg w a k = Ops.I_Shl_prim dbg w Ops.AU8 a k) /\
  (forall dbg w a k, Glue.I_ShlAssign_u8_ref_shl_assign dbg w a k = Ops.I_Shl_prim dbg w Ops.AU8 a k) /\
  (forall dbg w a k, Glue.I_Shl_u16_vr_shl dbg w a k = Ops.I_Shl_prim dbg w Ops.AU16 a k) /\
  (forall dbg w a k, Glue.I_Shl_u16_rr_shl dbg w a k = Ops.I_Shl_prim dbg w Ops.AU16 a k) /\
  (forall dbg w a k, Glue.I_Shl_u16_rv_shl dbg w a k = Ops.I_Shl_prim dbg w Ops.AU16 a k) /\
  (forall dbg w a k, Glue.I_ShlAssign_u16_shl_assign dbg w a k = Ops.I_Shl_prim dbg w Ops.AU16 a k) /\
  (forall dbg w a k, Glue.I_ShlAssign_u16_ref_shl_assign dbg w a k = Ops.I_Shl_prim dbg w Ops.AU16 a k) /\
  (forall dbg w a k, Glue.I_Shl_u32_vr_shl dbg w a k = Ops.I_Shl_prim dbg w Ops.AU32 a k) /\
  (forall dbg w a k, Glue.I_Shl_u32_rr_shl dbg w a k = Ops.I_Shl_prim dbg w Ops.AU32 a k) /\
  (forall dbg w a k, Glue.I_Shl_u32_rv_shl dbg w a k = Ops.I_Shl_prim dbg w Ops.AU32 a k) /\
  (forall dbg w a k, Glue.I_ShlAssign_u32_shl_assign dbg w a k = Ops.I_Shl_prim dbg w Ops.AU32 a k) /\
  (forall dbg w a k, Glue.I_ShlAssign_u32_ref_shl_assign dbg w a k = Ops.I_Shl_prim dbg w Ops.AU32 a k) /\
  (forall dbg w a k, Glue.I_Shl_u64_vr_shl dbg w a k = Ops.I_Shl_prim dbg w Ops.AU64 a k) /\
  (forall dbg w a k, Glue.I_Shl_u64_rr_shl dbg w a k = Ops.I_Shl_prim dbg w Ops.AU64 a k) /\
  (forall dbg w a k, Glue.I_Shl_u64_rv_shl dbg w a k = Ops.I_Shl_prim dbg w Ops.AU64 a k) /\
  (forall dbg w a k, Glue.I_ShlAssign_u64_shl_assign dbg w a k = Ops.I_Shl_prim dbg w Ops.AU64 a k) /\
  (forall dbg w a k, Glue.I_ShlAssign_u64_ref_shl_assign dbg w a k = Ops.I_Shl_prim dbg w Ops.AU64 a k) /\
  (forall dbg w a k, Glue.I_Shl_u128_vr_shl dbg w a k = Ops.I_Shl_prim dbg w Ops.AU128 a k) /\
  (forall dbg w a k, Glue.I_Shl_u128_rr_shl dbg w a k = Ops.I_Shl_prim dbg w Ops.AU128 a k) /\
  (forall dbg w a k, Glue.I_Shl_u128_rv_shl dbg w a k = Ops.I_Shl_prim dbg w Ops.AU128 a k) /\
  (forall dbg w a k, Glue.I_ShlAssign_u128_shl_assign dbg w a k = Ops.I_Shl_prim dbg w Ops.AU128 a k) /\
  (forall dbg w a k, Glue.I_ShlAssign_u128_ref_shl_assign dbg w a k = Ops.I_Shl_prim dbg w Ops.AU128 a k) /\
  (forall dbg w a k, Glue.I_Shl_usize_vr_shl dbg w a k = Ops.I_Shl_prim dbg w Ops.AUsize a k) /\
  (forall dbg w a k, Glue.I_Shl_usize_rr_shl dbg w a k = Ops.I_Shl_prim dbg w Ops.AUsize a k) /\
  (forall dbg w a k, Glue.I_Shl_usize_rv_shl dbg w a k = Ops.I_Shl_prim dbg w Ops.AUsize a k) /\
  (forall dbg w a k, Glue.I_ShlAssign_usize_shl_assign dbg w a k = Ops.I_Shl_prim dbg w Ops.AUsize a k) /\
  (forall dbg w a k, Glue.I_ShlAssign_usize_ref_shl_assign dbg w a k = Ops.I_Shl_prim dbg w Ops.AUsize a k) /\
  (forall dbg w a k, Glue.I_Shl_i8_vr_shl dbg w a k = Ops.I_Shl_prim dbg w Ops.AI8 a k) /\
  (forall dbg w a k, Glue.I_Shl_i8_rr_shl dbg w a k = Ops.I_Shl_prim dbg w Ops.AI8 a k) /\
  (forall dbg w a k, Glue.I_Shl_i8_rv_shl dbg w a k = Ops.I_Shl_prim dbg w Ops.AI8 a k) /\
  (forall dbg w a k, Glue.I_ShlAssign_i8_shl_assign dbg w a k = Ops.I_Shl_prim dbg w Ops.AI8 a k) /\
  (forall dbg w a k, Glue.I_ShlAssign_i8_ref_shl_assign dbg w a k = Ops.I_Shl_prim dbg w Ops.AI8 a k) /\
  (forall dbg w a k, Glue.I_Shl_i16_vr_shl dbg w a k = Ops.I_Shl_prim dbg w Ops.AI16 a k) /\
  (forall dbg w a k, Glue.I_Shl_i16_rr_shl dbg w a k = Ops.I_Shl_prim dbg w Ops.AI16 a k) /\
  (forall dbg w a k, Glue.I_Shl_i16_rv_shl dbg w a k = Ops.I_Shl_prim dbg w Ops.AI16 a k) /\
  (forall dbg w a k, Glue.I_ShlAssign_i16_shl_assign dbg w a k = Ops.I_Shl_prim dbg w Ops.AI16 a k) /\
  (forall dbg w a k, Glue.I_ShlAssign_i16_ref_shl_assign dbg w a k = Ops.I_Shl_prim dbg w Ops.AI16 a k) /\
  (forall dbg w a k, Glue.I_Shl_i32_vr_shl dbg w a k = Ops.I_Shl_prim dbg w Ops.AI32 a k) /\
  (forall dbg w a k, Glue.I_Shl_i32_rr_shl dbg w a k = Ops.I_Shl_prim dbg w Ops.AI32 a k) /\
  (forall dbg w a k, Glue.I_Shl_i32_rv_shl dbg w a k = Ops.I_Shl_prim dbg w Ops.AI32 a k) /\
  (forall dbg w a k, Glue.I_ShlAssign_i32_shl_assign dbg w a k = Ops.I_Shl_prim dbg w Ops.AI32 a k) /\
  (forall dbg w a k, Glue.I_ShlAssign_i32_ref_shl_assign dbg w a k = Ops.I_Shl_prim dbg w Ops.AI32 a k) /\
  (forall dbg w a k, Glue.I_Shl_i64_vr_shl dbg w a k = Ops.I_Shl_prim dbg w Ops.AI64 a k) /\
  (forall dbg w a k, Glue.I_Shl_i64_rr_shl dbg w a k = Ops.I_Shl_prim dbg w Ops.AI64 a k) /\
  (forall dbg w a k, Glue.I_Shl_i64_rv_shl dbg w a k = Ops.I_Shl_prim dbg w Ops.AI64 a k) /\
  (forall dbg w a k, Glue.I_ShlAssign_i64_shl_assign dbg w a k = Ops.I_Shl_prim dbg w Ops.AI64 a k) /\
  (forall dbg w a k, Glue.I_ShlAssign_i64_ref_shl_assign dbg w a k = Ops.I_Shl_prim dbg w Ops.AI64 a k) /\
  (forall dbg w a k, Glue.I_Shl_i128_vr_shl dbg w a k = Ops.I_Shl_prim dbg w Ops.AI128 a k) /\
  (forall dbg w a k, Glue.I_Shl_i128_rr_shl dbg w a k = Ops.I_Shl_prim dbg w Ops.AI128 a k) /\
  (forall dbg w a k, Glue.I_Shl_i128_rv_shl dbg w a k = Ops.I_Shl_prim dbg w Ops.AI128 a k) /\
  (forall dbg w a k, Glue.I_ShlAssign_i128_shl_assign dbg w a k = Ops.I_Shl_prim dbg w Ops.AI128 a k) /\
  (forall dbg w a k, Glue.I_ShlAssign_i128_ref_shl_assign dbg w a k = Ops.I_Shl_prim dbg w Ops.AI128 a k) /\
  (forall dbg w a k, Glue.I_Shl_isize_vr_shl dbg w a k = Ops.I_Shl_prim dbg w Ops.AIsize a k) /\
  (forall dbg w a k, Glue.I_Shl_isize_rr_shl dbg w a k = Ops.I_Shl_prim dbg w Ops.AIsize a k) /\
  (forall dbg w a k, Glue.I_Shl_isize_rv_shl dbg w a k = Ops.I_Shl_prim dbg w Ops.AIsize a k) /\
  (forall dbg w a k, Glue.I_ShlAssign_isize_shl_assign dbg w a k = Ops.I_Shl_prim dbg w Ops.AIsize a k) /\
  (forall dbg w a k, Glue.I_ShlAssign_isize_ref_shl_assign dbg w a k = Ops.I_Shl_prim dbg w Ops.AIsize a k) /\
  (forall dbg w a b n, 0 < w -> 32 < w \/ (w | 32) -> (0 < n)%nat -> wf w n b ->
  Glue.I_Shl_BUint_shl dbg w a b = Ops.Shl_bnum dbg w true false a b) /\
  (forall dbg w a b n, 0 < w -> 32 < w \/ (w | 32) -> (0 < n)%nat -> wf w n b ->
  Glue.I_Shl_BUint_vr_shl dbg w a b = Ops.Shl_bnum dbg w true false a b) /\
  (forall dbg w a b n, 0 < w -> 32 < w \/ (w | 32) -> (0 < n)%nat -> wf w n b ->
  Glue.I_Shl_BUint_rr_shl dbg w a b = Ops.Shl_bnum dbg w true false a b) /\
  (forall dbg w a b n, 0 < w -> 32 < w \/ (w | 32) -> (0 < n)%nat -> wf w n b ->
  Glue.I_Shl_BUint_rv_shl dbg w a b = Ops.Shl_bnum dbg w true false a b) /\
  (forall dbg w a b n, 0 < w -> 32 < w \/ (w | 32) -> (0 < n)%nat -> wf w n b ->
  Glue.I_ShlAssign_BUint_shl_assign dbg w a b = Ops.Shl_bnum dbg w true false a b) /\
  (forall dbg w a b n, 0 < w -> 32 < w \/ (w | 32) -> (0 < n)%nat -> wf w n b ->
  Glue.I_ShlAssign_BUint_ref_shl_assign dbg w a b = Ops.Shl_bnum dbg w true false a b) /\
  (forall dbg w a b n, 0 < w -> 32 < w \/ (w | 32) -> (0 < n)%nat -> wf w n b ->
  Glue.I_Shl_BInt_shl dbg w a b = Ops.Shl_bnum dbg w true true a b) /\
  (forall dbg w a b n, 0 < w -> 32 < w \/ (w | 32) -> (0 < n)%nat -> wf w n b ->
  Glue.I_Shl_BInt_vr_shl dbg w a b = Ops.Shl_bnum dbg w true true a b) /\
  (forall dbg w a b n, 0 < w -> 32 < w \/ (w | 32) -> (0 < n)%nat -> wf w n b ->
  Glue.I_Shl_BInt_rr_shl dbg w a b = Ops.Shl_bnum dbg w true true a b) /\
  (forall dbg w a b n, 0 < w -> 32 < w \/ (w | 32) -> (0 < n)%nat -> wf w n b ->
  Glue.I_Shl_BInt_rv_shl dbg w a b = Ops.Shl_bnum dbg w true true a b) /\
  (forall dbg w a b n, 0 < w -> 32 < w \/ (w | 32) -> (0 < n)%nat -> wf w n b ->
  Glue.I_ShlAssign_BInt_shl_assign dbg w a b = Ops.Shl_bnum dbg w true true a b) /\
  (forall dbg w a b n, 0 < w -> 32 < w \/ (w | 32) -> (0 < n)%nat -> wf w n b ->
  Glue.I_ShlAssign_BInt_ref_shl_assign dbg w a b = Ops.Shl_bnum dbg w true true a b) /\
  (forall dbg w a k, Glue.I_Shr_u8_vr_shr dbg w a k = Ops.I_Shr_prim dbg w Ops.AU8 a k) /\
  (forall dbg w a k, Glue.I_Shr_u8_rr_shr dbg w a k = Ops.I_Shr_prim dbg w Ops.AU8 a k) /\
  (forall dbg w a k, Glue.I_Shr_u8_rv_shr dbg w a k = Ops.I_Shr_prim dbg w Ops.AU8 a k) /\
  (forall dbg w a k, Glue.I_ShrAssign_u8_shr_assign dbg w a k = Ops.I_Shr_prim dbg w Ops.AU8 a k) /\
  (forall dbg w a k, Glue.I_ShrAssign_u8_ref_shr_assign dbg w a k = Ops.I_Shr_prim dbg w Ops.AU8 a k) /\
  (forall dbg w a k, Glue.I_Shr_u16_vr_shr dbg w a k = Ops.I_Shr_prim dbg w Ops.AU16 a k) /\
  (forall dbg w a k, Glue.I_Shr_u16_rr_shr dbg w a k = Ops.I_Shr_prim dbg w Ops.AU16 a k) /\
  (forall dbg w a k, Glue.I_Shr_u16_rv_shr dbg w a k = Ops.I_Shr_prim dbg w Ops.AU16 a k) /\
  (forall dbg w a k, Glue.I_ShrAssign_u16_shr_assign dbg w a k = Ops.I_Shr_prim dbg w Ops.AU16 a k) /\
  (forall dbg w a k, Glue.I_ShrAssign_u16_ref_shr_assign dbg w a k = Ops.I_Shr_prim dbg w Ops.AU16 a k) /\
  (forall dbg w a k, Glue.I_Shr_u32_vr_shr dbg w a k = Ops.I_Shr_prim dbg w Ops.AU32 a k) /\
  (forall dbg w a k, Glue.I_Shr_u32_rr_shr dbg w a k = Ops.I_Shr_prim dbg w Ops.AU32 a k) /\
  (forall dbg w a k, Glue.I_Shr_u32_rv_shr dbg w a k = Ops.I_Shr_prim dbg w Ops.AU32 a k) /\
  (forall dbg w a k, Glue.I_ShrAssign_u32_shr_assign dbg w a k = Ops.I_Shr_prim dbg w Ops.AU32 a k) /\
  (forall dbg w a k, Glue.I_ShrAssign_u32_ref_shr_assign dbg w a k = Ops.I_Shr_prim dbg w Ops.AU32 a k) /\
  (forall dbg w a k, Glue.I_Shr_u64_vr_shr dbg w a k = Ops.I_Shr_prim dbg w Ops.AU64 a k) /\
  (forall dbg w a k, Glue.I_Shr_u64_rr_shr dbg w a k = Ops.I_Shr_prim dbg w Ops.AU64 a k) /\
  (forall dbg w a k, Glue.I_Shr_u64_rv_shr dbg w a k = Ops.I_Shr_prim dbg w Ops.AU64 a k) /\
  (forall dbg w a k, Glue.I_ShrAssign_u64_shr_assign dbg w a k = Ops.I_Shr_prim dbg w Ops.AU64 a k) /\
  (forall dbg w a k, Glue.I_ShrAssign_u64_ref_shr_assign dbg w a k = Ops.I_Shr_prim dbg w Ops.AU64 a k) /\
  (forall dbg w a k, Glue.I_Shr_u128_vr_shr dbg w a k = Ops.I_Shr_prim dbg w Ops.AU128 a k) /\
  (forall dbg w a k, Glue.I_Shr_u128_rr_shr dbg w a k = Ops.I_Shr_prim dbg w Ops.AU128 a k) /\
  (forall dbg w a k, Glue.I_Shr_u128_rv_shr dbg w a k = Ops.I_Shr_prim dbg w Ops.AU128 a k) /\
  (forall dbg w a k, Glue.I_ShrAssign_u128_shr_assign dbg w a k = Ops.I_Shr_prim dbg w Ops.AU128 a k) /\
  (forall dbg w a k, Glue.I_ShrAssign_u128_ref_shr_assign dbg w a k = Ops.I_Shr_prim dbg w Ops.AU128 a k) /\
  (forall dbg w a k, Glue.I_Shr_usize_vr_shr dbg w a k = Ops.I_Shr_prim dbg w Ops.AUsize a k) /\
  (forall dbg w a k, Glue.I_Shr_usize_rr_shr dbg w a k = Ops.I_Shr_prim dbg w Ops.AUsize a k) /\
  (forall dbg w a k, Glue.I_Shr_usize_rv_shr dbg w a k = Ops.I_Shr_prim dbg w Ops.AUsize a k) /\
  (forall dbg w a k, Glue.I_ShrAssign_usize_shr_assign dbg w a k = Ops.I_Shr_prim dbg w Ops.AUsize a k) /\
  (forall dbg w a k, Glue.I_ShrAssign_usize_ref_shr_assign dbg w a k = Ops.I_Shr_prim dbg w Ops.AUsize a k) /\
  (forall dbg w a k, Glue.I_Shr_i8_vr_shr dbg w a k = Ops.I_Shr_prim dbg w Ops.AI8 a k) /\
  (forall dbg w a k, Glue.I_Shr_i8_rr_shr dbg w a k = Ops.I_Shr_prim dbg w Ops.AI8 a k) /\
  (forall dbg w a k, Glue.I_Shr_i8_rv_shr dbg w a k = Ops.I_Shr_prim dbg w Ops.AI8 a k) /\
  (forall dbg w a k, Glue.I_ShrAssign_i8_shr_assign dbg w a k = Ops.I_Shr_prim dbg w Ops.AI8 a k) /\
  (forall dbg w a k, Glue.I_ShrAssign_i8_ref_shr_assign dbg w a k = Ops.I_Shr_prim dbg w Ops.AI8 a k) /\
  (forall dbg w a k, Glue.I_Shr_i16_vr_shr dbg w a k = Ops.I_Shr_prim dbg w Ops.AI16 a k) /\
  (forall dbg w a k, Glue.I_Shr_i16_rr_shr dbg w a k = Ops.I_Shr_prim dbg w Ops.AI16 a k) /\
  (forall dbg w a k, Glue.I_Shr_i16_rv_shr dbg w a k = Ops.I_Shr_prim dbg w Ops.AI16 a k) /\
  (forall dbg w a k, Glue.I_ShrAssign_i16_shr_assign dbg w a k = Ops.I_Shr_prim dbg w Ops.AI16 a k) /\
  (forall dbg w a k, Glue.I_ShrAssign_i16_ref_shr_assign dbg w a k = Ops.I_Shr_prim dbg w Ops.AI16 a k) /\
  (forall dbg w a k, Glue.I_Shr_i32_vr_shr dbg w a k = Ops.I_Shr_prim dbg w Ops.AI32 a k) /\
  (forall dbg w a k, Glue.I_Shr_i32_rr_shr dbg w a k = Ops.I_Shr_prim dbg w Ops.AI32 a k) /\
  (forall dbg w a k, Glue.I_Shr_i32_rv_shr dbg w a k = Ops.I_Shr_prim dbg w Ops.AI32 a k) /\
  (forall dbg w a k, Glue.I_ShrAssign_i32_shr_assign dbg w a k = Ops.I_Shr_prim dbg w Ops.AI32 a k) /\
  (forall dbg w a k, Glue.I_ShrAssign_i32_ref_shr_assign dbg w a k = Ops.I_Shr_prim dbg w Ops.AI32 a k) /\
  (forall dbg w a k, Glue.I_Shr_i64_vr_shr dbg w a k = Ops.I_Shr_prim dbg w Ops.AI64 a k) /\
  (forall dbg w a k, Glue.I_Shr_i64_rr_shr dbg w a k = Ops.I_Shr_prim dbg w Ops.AI64 a k) /\
  (forall dbg w a k, Glue.I_Shr_i64_rv_shr dbg w a k = Ops.I_Shr_prim dbg w Ops.AI64 a k) /\
  (forall dbg w a k, Glue.I_ShrAssign_i64_shr_assign dbg w a k = Ops.I_Shr_prim dbg w Ops.AI64 a k) /\
  (forall dbg w a k, Glue.I_ShrAssign_i64_ref_shr_assign dbg w a k = Ops.I_Shr_prim dbg w Ops.AI64 a k) /\
  (forall dbg w a k, Glue.I_Shr_i128_vr_shr dbg w a k = Ops.I_Shr_prim dbg w Ops.AI128 a k) /\
  (forall dbg w a k, Glue.I_Shr_i128_rr_shr dbg w a k = Ops.I_Shr_prim dbg w Ops.AI128 a k) /\
  (forall dbg w a k, Glue.I_Shr_i128_rv_shr dbg w a k = Ops.I_Shr_prim dbg w Ops.AI128 a k) /\
  (forall dbg w a k, Glue.I_ShrAssign_i128_shr_assign dbg w a k = Ops.I_Shr_prim dbg w Ops.AI128 a k) /\
  (forall dbg w a k, Glue.I_ShrAssign_i128_ref_shr_assign dbg w a k = Ops.I_Shr_prim dbg w Ops.AI128 a k) /\
  (forall dbg w a k, Glue.I_Shr_isize_vr_shr dbg w a k = Ops.I_Shr_prim dbg w Ops.AIsize a k) /\
  (forall dbg w a k, Glue.I_Shr_isize_rr_shr dbg w a k = Ops.I_Shr_prim dbg w Ops.AIsize a k) /\
  (forall dbg w a k, Glue.I_Shr_isize_rv_shr dbg w a k = Ops.I_Shr_prim dbg w Ops.AIsize a k) /\
  (forall dbg w a k, Glue.I_ShrAssign_isize_shr_assign dbg w a k = Ops.I_Shr_prim dbg w Ops.AIsize a k) /\
  (forall dbg w a k, Glue.I_ShrAssign_isize_ref_shr_assign dbg w a k = Ops.I_Shr_prim dbg w Ops.AIsize a k) /\
  (forall dbg w a b n, 0 < w -> 32 < w \/ (w | 32) -> (0 < n)%nat -> wf w n b ->
  Glue.I_Shr_BUint_shr dbg w a b = Ops.Shr_bnum dbg w true false a b) /\
  (forall dbg w a b n, 0 < w -> 32 < w \/ (w | 32) -> (0 < n)%nat -> wf w n b ->
  Glue.I_Shr_BUint_vr_shr dbg w a b = Ops.Shr_bnum dbg w true false a b) /\
  (forall dbg w a b n, 0 < w -> 32 < w \/ (w | 32) -> (0 < n)%nat -> wf w n b ->
  Glue.I_Shr_BUint_rr_shr dbg w a b = Ops.Shr_bnum dbg w true false a b) /\
  (forall dbg w a b n, 0 < w -> 32 < w \/ (w | 32) -> (0 < n)%nat -> wf w n b ->
  Glue.I_Shr_BUint_rv_shr dbg w a b = Ops.Shr_bnum dbg w true false a b) /\
  (forall dbg w a b n, 0 < w -> 32 < w \/ (w | 32) -> (0 < n)%nat -> wf w n b ->
  Glue.I_ShrAssign_BUint_shr_assign dbg w a b = Ops.Shr_bnum dbg w true false a b) /\
  (forall dbg w a b n, 0 < w -> 32 < w \/ (w | 32) -> (0 < n)%nat -> wf w n b ->
  Glue.I_ShrAssign_BUint_ref_shr_assign dbg w a b = Ops.Shr_bnum dbg w true false a b) /\
  (forall dbg w a b n, 0 < w -> 32 < w \/ (w | 32) -> (0 < n)%nat -> wf w n b ->
  Glue.I_Shr_BInt_shr dbg w a b = Ops.Shr_bnum dbg w true true a b) /\
  (forall dbg w a b n, 0 < w -> 32 < w \/ (w | 32) -> (0 < n)%nat -> wf w n b ->
  Glue.I_Shr_BInt_vr_shr dbg w a b = Ops.Shr_bnum dbg w true true a b) /\
  (forall dbg w a b n, 0 < w -> 32 < w \/ (w | 32) -> (0 < n)%nat -> wf w n b ->
  Glue.I_Shr_BInt_rr_shr dbg w a b = Ops.Shr_bnum dbg w true true a b) /\
  (forall dbg w a b n, 0 < w -> 32 < w \/ (w | 32) -> (0 < n)%nat -> wf w n b ->
  Glue.I_Shr_BInt_rv_shr dbg w a b = Ops.Shr_bnum dbg w true true a b) /\
  (forall dbg w a b n, 0 < w -> 32 < w \/ (w | 32) -> (0 < n)%nat -> wf w n b ->
  Glue.I_ShrAssign_BInt_shr_assign dbg w a b = Ops.Shr_bnum dbg w true true a b) /\
  (forall dbg w a b n, 0 < w -> 32 < w \/ (w | 32) -> (0 < n)%nat -> wf w n b ->
  Glue.I_ShrAssign_BInt_ref_shr_assign dbg w a b = Ops.Shr_bnum dbg w true true a b) /\
  (forall w n, Glue.I_Default_default w n = Ops.Default n) /\
  (forall dbg w n xs, Glue.I_Sum_sum dbg w n xs = Ops.I_Sum dbg w n xs) /\
  (forall dbg w n xs, Glue.I_Sum_ref_sum dbg w n xs = Ops.I_Sum dbg w n xs) /\
  (forall dbg w n xs, Glue.I_Product_product dbg w n xs = Ops.I_Product dbg w n xs) /\
  (forall dbg w n xs, Glue.I_Product_ref_product dbg w n xs = Ops.I_Product dbg w n xs).
Proof. exact glue_opref_matches_model. Qed.
Print Assumptions C17_glue_rs_matches_model.

(* Properties/C14.v — float/integer casts round and saturate exactly like Rust's `as`.
   Floats are bit patterns; the specification (Proofs/FloatCast.v) is integer-only.
   The facts about Shift / Bits / AddSub / Core the proofs use (Proofs/FloatCastDeps.v) are theorems of
   Proofs/Shift.v, Bits.v, AddSub.v, Cmp.v: discharged in Proofs/DischargeFloat.v, no premise is left. *)
From Bnum Require Import Base Prim.
From Bnum.Model Require Import Digit Core Shift AddSub Bits FloatCast.
From Bnum.Proofs Require Import FloatCastDeps FloatCast FloatCastTo DischargeFloat.

(* f32/f64 -> BUint: NaN -> 0, negative -> 0, +inf -> MAX, else truncate toward zero and saturate *)
Theorem C14_float_to_uint_ok : forall dbg F w n x,
  fmt_ok F -> 0 < w -> 0 <= x < 2 ^ fbits F ->
  exists r, U_from_float dbg F w n x = Ret r /\ wf w n r /\
            uval w r = float_to_U_spec F (Mod w n) x.
Proof. exact cast_uint_from_float_ok_closed. Qed.
Print Assumptions C14_float_to_uint_ok.

(* f32/f64 -> BInt: NaN -> 0, -inf -> MIN, +inf -> MAX, else truncate toward zero and saturate at MIN/MAX *)
Theorem C14_float_to_sint_ok : forall dbg F w n x,
  fmt_ok F -> 0 < w -> (0 < n)%nat -> 0 <= x < 2 ^ fbits F ->
  exists r, I_from_float dbg F w n x = Ret r /\ wf w n r /\
            sval w r = float_to_S_spec F (Mod w n) x.
Proof. exact I_from_float_ok_closed. Qed.
Print Assumptions C14_float_to_sint_ok.

(* BUint -> f32/f64.  With X the value and r the returned bit pattern (int_to_float_spec):
   X = 0 -> +0;  0 < X < 2^emax - 2^(emax-p-1) -> r is THE finite float nearest to X, ties to the even
   mantissa (rne_nearest, unique by C14_rne_nearest_unique);  X >= that threshold -> +infinity;
   bitlen X <= p -> r is finite and denotes X exactly. *)
Theorem C14_uint_to_float_ok : forall dbg F w n a,
  fmt_ok F -> 0 < w -> wf w n a ->
  exists r, U_to_float dbg F w a = Ret r /\ int_to_float_spec F (uval w a) r.
Proof. exact cast_float_from_uint_ok_closed. Qed.
Print Assumptions C14_uint_to_float_ok.

(* BInt -> f32/f64: the magnitude |sval| is converted as above, the sign bit is set iff sval < 0 *)
Theorem C14_sint_to_float_ok : forall dbg F w n a,
  fmt_ok F -> 0 < w -> (0 < n)%nat -> wf w n a ->
  exists f, I_to_float dbg F w a = Ret (if sval w a <? 0 then f + 2 ^ (fbits F - 1) else f) /\
            int_to_float_spec F (Z.abs (sval w a)) f.
Proof. exact I_to_float_ok_closed. Qed.
Print Assumptions C14_sint_to_float_ok.

(* "nearest, ties to even" determines the float: the specification is a characterisation *)
Theorem C14_rne_nearest_unique : forall F X y1 y2, fmt_ok F ->
  rne_nearest F X y1 -> rne_nearest F X y2 -> y1 = y2.
Proof. exact rne_nearest_unique. Qed.
Print Assumptions C14_rne_nearest_unique.

(* the cast as it was on the pinned tree (before the repair ed48fe2) does NOT meet the specification: 0.75 -> 1 *)
Theorem C14_float_to_int_refuted_prefix :
  exists x r, 0 <= x < 2 ^ fbits F64 /\ cast_uint_from_float_prefix true F64 64 2 x = Ret r /\
              uval 64 r <> float_to_U_spec F64 (Mod 64 2) x.
Proof. exact float_to_int_refuted. Qed.
Print Assumptions C14_float_to_int_refuted_prefix.

(* the format side conditions hold for f32 and f64 *)
Theorem C14_fmt_ok_f32 : fmt_ok F32.
Proof. exact fmt_ok_F32. Qed.
Print Assumptions C14_fmt_ok_f32.
Theorem C14_fmt_ok_f64 : fmt_ok F64.
Proof. exact fmt_ok_F64. Qed.
Print Assumptions C14_fmt_ok_f64.

(* the specification on concrete inputs: 0.75f32 -> 0, -1.5 -> -1 (signed) / 0 (unsigned), 300.7 -> 255 at 8 bits,
   NaN -> 0, -inf -> MIN *)
Example C14_spec_075 : float_to_U_spec F32 (2 ^ 8) 0x3f400000 = 0.
Proof. vm_compute. reflexivity. Qed.
Example C14_spec_neg15 : float_to_S_spec F32 (2 ^ 8) 0xbfc00000 = -1 /\ float_to_U_spec F32 (2 ^ 8) 0xbfc00000 = 0.
Proof. vm_compute. split; reflexivity. Qed.
Example C14_spec_sat : float_to_U_spec F32 (2 ^ 8) 0x43965999 = 255 /\ float_to_S_spec F32 (2 ^ 8) 0x43965999 = 127.
Proof. vm_compute. split; reflexivity. Qed.
Example C14_spec_nan_inf : float_to_S_spec F64 (2 ^ 16) 0x7ff8000000000001 = 0 /\
                           float_to_S_spec F64 (2 ^ 16) 0xfff0000000000000 = - 2 ^ 15.
Proof. vm_compute. split; reflexivity. Qed.

(* int -> float on concrete inputs, through the model: 2^24+1 is a tie -> even (2^24); 2^24+3 is a tie -> 2^24+4;
   u128::MAX -> +inf (f32); the threshold itself rounds to +inf, one below it to f32::MAX *)
Example C14_model_ties :
  U_to_float true F32 8 [0x01; 0x00; 0x00; 0x01] = Ret 0x4b800000 /\
  U_to_float true F32 8 [0x03; 0x00; 0x00; 0x01] = Ret 0x4b800002 /\
  U_to_float false F32 64 [0xffffffffffffffff; 0xffffffffffffffff] = Ret 0x7f800000 /\
  U_to_float false F32 64 [0; 0xffffff8000000000] = Ret 0x7f800000 /\
  U_to_float false F32 64 [0xffffffffffffffff; 0xffffff7fffffffff] = Ret 0x7f7fffff.
Proof. vm_compute. repeat split. Qed.
Example C14_threshold_f32 : inf_threshold F32 = 2 ^ 128 - 2 ^ 103.
Proof. vm_compute. reflexivity. Qed.
Example C14_f_num_one : f_num F32 0x3f800000 = 2 ^ fmin F32 /\ fmin F32 = 149.
Proof. vm_compute. split; reflexivity. Qed.

(* the hypotheses of the theorems are satisfiable *)
Example C14_hyps_sat : fmt_ok F32 /\ fmt_ok F64 /\ 0 < 8 /\ (0 < 4)%nat /\ wf 8 4 [1; 0; 0; 1] /\
                       0 <= 0x3f400000 < 2 ^ fbits F32.
Proof.
  split; [exact fmt_ok_F32|]. split; [exact fmt_ok_F64|]. split; [lia|]. split; [lia|].
  split; [apply wfb_wf; vm_compute; reflexivity | vm_compute; split; [discriminate | reflexivity]].
Qed.

(* ---- the float casts REGENERATED from /repo/src on every run (Generated/FloatGen.v, tools/rs2v_float.py) equal the model ----
   The eight `CastFrom` impls between $BUint<N> / $BInt<N> and f32 / f64 of src/buint/cast.rs and src/bint/cast.rs, translated
   together with everything they call in src/cast/float/*.rs, return exactly what the four model functions the theorems above are
   about return (`Panic` of the model = `Panicked` of the generated code), for every digit width, digit count, well-formed
   operand / bit pattern and both build modes. *)
From Bnum.Model Require Import Imp.
From Bnum.Generated Require Import FloatGen.
From Bnum.Proofs Require Import FloatGenTie.

Theorem C14_float_rs_matches_model : forall dbg w n, 0 < w ->
  (forall a, wf w n a ->
     FloatGen.U_to_f32 dbg w (Z.of_nat n) a = of_outcome (U_to_float dbg F32 w a) /\
     FloatGen.U_to_f64 dbg w (Z.of_nat n) a = of_outcome (U_to_float dbg F64 w a)) /\
  (forall a, (0 < n)%nat -> wf w n a ->
     FloatGen.I_to_f32 dbg w (Z.of_nat n) a = of_outcome (I_to_float dbg F32 w a) /\
     FloatGen.I_to_f64 dbg w (Z.of_nat n) a = of_outcome (I_to_float dbg F64 w a)) /\
  (forall x, 0 <= x < 2 ^ 32 ->
     FloatGen.U_from_f32 dbg w (Z.of_nat n) x = of_outcome (U_from_float dbg F32 w n x) /\
     FloatGen.I_from_f32 dbg w (Z.of_nat n) x = of_outcome (I_from_float dbg F32 w n x)) /\
  (forall x, 0 <= x < 2 ^ 64 ->
     FloatGen.U_from_f64 dbg w (Z.of_nat n) x = of_outcome (U_from_float dbg F64 w n x) /\
     FloatGen.I_from_f64 dbg w (Z.of_nat n) x = of_outcome (I_from_float dbg F64 w n x)).
Proof. exact floatgen_C14_match_model. Qed.
Print Assumptions C14_float_rs_matches_model.

(* the generic functions behind them (translated once, with the float format F as a parameter), for every format with
   fmt_ok F and a mantissa word of at least 32 bits: the `ConvertFloatParts` decode / encode helpers, the two casts,
   `Bits for u32 / u64` *)
Theorem C14_float_generic_rs_matches_model : forall F, fmt_ok F -> 32 <= fbits F ->
  (forall x, 0 <= x < 2 ^ fbits F ->
     FloatGen.into_raw_parts F x = Done (into_raw_parts F x) /\
     FloatGen.into_biased_parts F x = Done (into_biased_parts F x) /\
     FloatGen.into_signed_biased_parts F x = Done (into_signed_biased_parts F x) /\
     FloatGen.into_signed_parts F x = Done (into_signed_parts F x) /\
     FloatGen.into_normalised_signed_parts F x = Done (into_normalised_signed_parts F x) /\
     FloatGen.mant_bits F x = Done (bitlen x) /\
     (forall i, 0 <= i < fbits F -> FloatGen.mant_bit F x i = Done (m_bit (fbits F) x i)) /\
     (forall dbg w n, 0 < w ->
        FloatGen.cast_uint_from_float dbg F w (Z.of_nat n) x = of_outcome (cast_uint_from_float dbg F w n x))) /\
  (forall dbg sign e m,
     (0 <= e < 2 ^ 32 -> FloatGen.from_raw_parts dbg F sign e m = of_outcome (from_raw_parts dbg F sign e m)) /\
     (0 <= e < 2 ^ 32 -> FloatGen.from_biased_parts dbg F sign e m = of_outcome (from_biased_parts dbg F sign e m)) /\
     FloatGen.from_signed_biased_parts dbg F sign e m = of_outcome (from_signed_biased_parts dbg F sign e m) /\
     FloatGen.from_signed_parts dbg F sign e m = of_outcome (from_signed_parts dbg F sign e m)) /\
  (forall dbg w n a, 0 < w -> wf w n a ->
     FloatGen.cast_float_from_uint dbg F w (Z.of_nat n) a = of_outcome (cast_float_from_uint dbg F w a)).
Proof. exact floatgen_C14_generic_match_model. Qed.
Print Assumptions C14_float_generic_rs_matches_model.

From Bnum Require Import Base Prim.
Theorem C14_placeholder : forall w n ds, 0 <= w -> wf w n ds -> 0 <= uval w ds < Mod w n.
Proof. exact uval_bounds. Qed.
Print Assumptions C14_placeholder.

(* Properties/C14.v — float/integer casts round and saturate exactly like Rust's `as`.
   Floats are bit patterns; the specification (Proofs/FloatCast.v) is integer-only. *)
From Bnum Require Import Base Prim.
From Bnum.Model Require Import Digit Core Shift AddSub Bits FloatCast.
From Bnum.Proofs Require Import FloatCastDeps FloatCast.

(* f32/f64 -> BUint: NaN -> 0, negative -> 0, +inf -> MAX, else truncate toward zero and saturate *)
Theorem C14_float_to_uint_ok : forall dbg F w n x,
  shl_internal_spec -> fmt_ok F -> 0 < w -> 0 <= x < 2 ^ fbits F ->
  exists r, U_from_float dbg F w n x = Ret r /\ wf w n r /\
            uval w r = float_to_U_spec F (Mod w n) x.
Proof. exact cast_uint_from_float_ok. Qed.
Print Assumptions C14_float_to_uint_ok.

(* f32/f64 -> BInt: NaN -> 0, -inf -> MIN, +inf -> MAX, else truncate toward zero and saturate at MIN/MAX *)
Theorem C14_float_to_sint_ok : forall dbg F w n x,
  shl_internal_spec -> I_overflowing_neg_spec -> is_negative_spec -> ucmp_spec ->
  fmt_ok F -> 0 < w -> (0 < n)%nat -> 0 <= x < 2 ^ fbits F ->
  exists r, I_from_float dbg F w n x = Ret r /\ wf w n r /\
            sval w r = float_to_S_spec F (Mod w n) x.
Proof. exact I_from_float_ok. Qed.
Print Assumptions C14_float_to_sint_ok.

(* the format side conditions hold for f32 and f64 *)
Theorem C14_fmt_ok_f32 : fmt_ok F32.
Proof. exact fmt_ok_F32. Qed.
Print Assumptions C14_fmt_ok_f32.
Theorem C14_fmt_ok_f64 : fmt_ok F64.
Proof. exact fmt_ok_F64. Qed.
Print Assumptions C14_fmt_ok_f64.

(* the specification on concrete inputs: 0.75f32 -> 0, -1.5 -> -1 (signed) / 0 (unsigned), 300.7 -> 255 at 8 bits,
   NaN -> 0, -inf -> MIN *)
Example C14_spec_075 : float_to_U_spec F32 (2 ^ 8) 0x3f400000 = 0.
Proof. vm_compute. reflexivity. Qed.
Example C14_spec_neg15 : float_to_S_spec F32 (2 ^ 8) 0xbfc00000 = -1 /\ float_to_U_spec F32 (2 ^ 8) 0xbfc00000 = 0.
Proof. vm_compute. split; reflexivity. Qed.
Example C14_spec_sat : float_to_U_spec F32 (2 ^ 8) 0x43965999 = 255 /\ float_to_S_spec F32 (2 ^ 8) 0x43965999 = 127.
Proof. vm_compute. split; reflexivity. Qed.
Example C14_spec_nan_inf : float_to_S_spec F64 (2 ^ 16) 0x7ff8000000000001 = 0 /\
                           float_to_S_spec F64 (2 ^ 16) 0xfff0000000000000 = - 2 ^ 15.
Proof. vm_compute. split; reflexivity. Qed.

(* Properties/C08.v — "Powers and integer logarithms are exact."
   Every theorem is stated for ALL digit widths w > 0 (ilog10: 10 < 2^w so that the constant 10
   is a digit), ALL digit counts n >= 1, ALL well-formed operands and ALL exponents 0 <= e.
   A = uval, SA = sval, M = Mod w n = 2^BITS.

   The correctness of multiplication / division is proved by the C02 / C03 branches; here it
   enters as the explicit premises mul_spec / div_spec / div_digit_spec (plain Definitions of
   Prop in Proofs/PowDeps.v, no axioms), to be discharged when the branches are merged.
   The logarithm theorems assume BITS < 2^31 (the Rust `ExpType` is u32 and BITS fits it), which
   is what keeps the `m * 2` of iilog from wrapping. *)
From Bnum Require Import Base Prim.
From Bnum.Model Require Import Digit Core Shift AddSub Mul Div Bits Pow.
From Bnum.Proofs Require Import PowDeps Pow Ilog.
From Bnum.Proofs Require Import Discharge.

(* ================= powers, unsigned ================= *)

Theorem C08_U_overflowing_pow : forall w n a e,
  0 < w -> (0 < n)%nat -> wf w n a -> 0 <= e ->
  let '(r, f) := U_overflowing_pow w a e in
  wf w n r /\ uval w r = (uval w a ^ e) mod Mod w n /\ f = (Mod w n <=? uval w a ^ e).
Proof. exact (U_overflowing_pow_ok mul_spec_holds). Qed.
Print Assumptions C08_U_overflowing_pow.

Theorem C08_U_checked_pow : forall w n a e,
  0 < w -> (0 < n)%nat -> wf w n a -> 0 <= e ->
  if Mod w n <=? uval w a ^ e then U_checked_pow w a e = None
  else exists r, U_checked_pow w a e = Some r /\ wf w n r /\ uval w r = uval w a ^ e.
Proof. exact (U_checked_pow_ok mul_spec_holds). Qed.
Print Assumptions C08_U_checked_pow.

Theorem C08_U_wrapping_pow : forall w n a e,
  0 < w -> (0 < n)%nat -> wf w n a -> 0 <= e ->
  wf w n (U_wrapping_pow w a e) /\ uval w (U_wrapping_pow w a e) = (uval w a ^ e) mod Mod w n.
Proof. exact (U_wrapping_pow_ok mul_spec_holds). Qed.
Print Assumptions C08_U_wrapping_pow.

Theorem C08_U_saturating_pow : forall w n a e,
  0 < w -> (0 < n)%nat -> wf w n a -> 0 <= e ->
  wf w n (U_saturating_pow w a e) /\
  uval w (U_saturating_pow w a e) = Z.min (Mod w n - 1) (uval w a ^ e).
Proof. exact (U_saturating_pow_ok mul_spec_holds). Qed.
Print Assumptions C08_U_saturating_pow.

Theorem C08_U_strict_pow : forall w n a e,
  0 < w -> (0 < n)%nat -> wf w n a -> 0 <= e ->
  if Mod w n <=? uval w a ^ e then U_strict_pow w a e = Panic
  else exists r, U_strict_pow w a e = Ret r /\ wf w n r /\ uval w r = uval w a ^ e.
Proof. exact (U_strict_pow_ok mul_spec_holds). Qed.
Print Assumptions C08_U_strict_pow.

(* inherent pow: panics exactly on overflow in debug builds, wraps in release builds *)
Theorem C08_U_pow : forall dbg w n a e,
  0 < w -> (0 < n)%nat -> wf w n a -> 0 <= e ->
  if dbg && (Mod w n <=? uval w a ^ e) then U_pow dbg w a e = Panic
  else exists r, U_pow dbg w a e = Ret r /\ wf w n r /\ uval w r = (uval w a ^ e) mod Mod w n.
Proof. exact (U_pow_ok mul_spec_holds). Qed.
Print Assumptions C08_U_pow.

(* ================= powers, signed ================= *)

Theorem C08_I_overflowing_pow : forall w n a e,
  0 < w -> (0 < n)%nat -> wf w n a -> 0 <= e ->
  let '(r, f) := I_overflowing_pow w a e in
  wf w n r /\ sval w r = wrapS (Mod w n) (sval w a ^ e) /\ f = negb (inS (Mod w n) (sval w a ^ e)).
Proof. exact (I_overflowing_pow_ok mul_spec_holds). Qed.
Print Assumptions C08_I_overflowing_pow.

Theorem C08_I_checked_pow : forall w n a e,
  0 < w -> (0 < n)%nat -> wf w n a -> 0 <= e ->
  if inS (Mod w n) (sval w a ^ e)
  then exists r, I_checked_pow w a e = Some r /\ wf w n r /\ sval w r = sval w a ^ e
  else I_checked_pow w a e = None.
Proof. exact (I_checked_pow_ok mul_spec_holds). Qed.
Print Assumptions C08_I_checked_pow.

Theorem C08_I_wrapping_pow : forall w n a e,
  0 < w -> (0 < n)%nat -> wf w n a -> 0 <= e ->
  wf w n (I_wrapping_pow w a e) /\ sval w (I_wrapping_pow w a e) = wrapS (Mod w n) (sval w a ^ e).
Proof. exact (I_wrapping_pow_ok mul_spec_holds). Qed.
Print Assumptions C08_I_wrapping_pow.

(* clamp to [MIN, MAX] *)
Theorem C08_I_saturating_pow : forall w n a e,
  0 < w -> (0 < n)%nat -> wf w n a -> 0 <= e ->
  wf w n (I_saturating_pow w a e) /\
  sval w (I_saturating_pow w a e) = Z.max (- (Mod w n / 2)) (Z.min (Mod w n / 2 - 1) (sval w a ^ e)).
Proof. exact (I_saturating_pow_ok mul_spec_holds). Qed.
Print Assumptions C08_I_saturating_pow.

(* on overflow: MIN exactly for a negative base with an odd exponent, MAX otherwise *)
Theorem C08_I_saturating_pow_min : forall w n a e,
  0 < w -> (0 < n)%nat -> wf w n a -> 0 <= e -> inS (Mod w n) (sval w a ^ e) = false ->
  I_saturating_pow w a e = if (sval w a <? 0) && Z.odd e then IMIN w n else IMAX w n.
Proof. exact (I_saturating_pow_min mul_spec_holds). Qed.
Print Assumptions C08_I_saturating_pow_min.

Theorem C08_I_strict_pow : forall w n a e,
  0 < w -> (0 < n)%nat -> wf w n a -> 0 <= e ->
  if inS (Mod w n) (sval w a ^ e)
  then exists r, I_strict_pow w a e = Ret r /\ wf w n r /\ sval w r = sval w a ^ e
  else I_strict_pow w a e = Panic.
Proof. exact (I_strict_pow_ok mul_spec_holds). Qed.
Print Assumptions C08_I_strict_pow.

Theorem C08_I_pow : forall dbg w n a e,
  0 < w -> (0 < n)%nat -> wf w n a -> 0 <= e ->
  if dbg && negb (inS (Mod w n) (sval w a ^ e)) then I_pow dbg w a e = Panic
  else exists r, I_pow dbg w a e = Ret r /\ wf w n r /\ sval w r = wrapS (Mod w n) (sval w a ^ e).
Proof. exact (I_pow_ok mul_spec_holds). Qed.
Print Assumptions C08_I_pow.

(* ================= logarithms, unsigned ================= *)

Theorem C08_U_checked_ilog2 : forall w n a, 0 < w -> wf w n a ->
  U_checked_ilog2 w a = if uval w a =? 0 then None else Some (Z.log2 (uval w a)).
Proof. exact U_checked_ilog2_ok. Qed.
Print Assumptions C08_U_checked_ilog2.

Theorem C08_U_ilog2 : forall w n a, 0 < w -> wf w n a ->
  U_ilog2 w a = if uval w a =? 0 then Panic else Ret (Z.log2 (uval w a)).
Proof. exact U_ilog2_ok. Qed.
Print Assumptions C08_U_ilog2.

(* DESIGN Appendix A.4: iilog(m, b, k) with b >= 2^m (b = beta^m), k >= 1, b*k inside the type and
   fuel for the remaining doublings of m returns (m*(1+t), k / b^t) where t = floor(log_b k);
   it neither runs out of fuel nor panics in either build mode (the b*b it computes never
   overflows). *)
Theorem C08_iilog : forall dbg w n,
  0 < w -> (0 < n)%nat -> bits w n < 2 ^ 31 ->
  forall f m b k, wf w n b -> wf w n k ->
  1 <= m -> 2 ^ m <= uval w b -> 1 <= uval w k -> uval w b * uval w k < Mod w n ->
  bits w n <= m * 2 ^ Z.of_nat f ->
  exists t q, iilog (S f) dbg w m b k = Some (Ret (m * (1 + t), q)) /\ wf w n q /\ 0 <= t /\
              uval w q = uval w k / uval w b ^ t /\ 1 <= uval w q < uval w b.
Proof. exact (iilog_ok mul_spec_holds div_spec_holds). Qed.
Print Assumptions C08_iilog.

(* total (fuel suffices: never None), panic-free in debug and release builds, and exact *)
Theorem C08_U_checked_ilog : forall dbg w n a base,
  0 < w -> (0 < n)%nat -> bits w n < 2 ^ 31 -> wf w n a -> wf w n base ->
  0 < uval w a -> 2 <= uval w base ->
  exists k, U_checked_ilog dbg w a base = Some (Ret (Some k)) /\ 0 <= k /\
            uval w base ^ k <= uval w a < uval w base ^ (k + 1).
Proof. exact (U_checked_ilog_ok mul_spec_holds div_spec_holds). Qed.
Print Assumptions C08_U_checked_ilog.

Theorem C08_U_checked_ilog_none : forall dbg w n a base,
  0 < w -> (0 < n)%nat -> bits w n < 2 ^ 31 -> wf w n a -> wf w n base ->
  (U_checked_ilog dbg w a base = Some (Ret None) <-> uval w a = 0 \/ uval w base < 2).
Proof. exact (U_checked_ilog_none mul_spec_holds div_spec_holds). Qed.
Print Assumptions C08_U_checked_ilog_none.

Theorem C08_U_checked_ilog10 : forall dbg w n a,
  0 < w -> 10 < B w -> (0 < n)%nat -> bits w n < 2 ^ 31 -> wf w n a -> 0 < uval w a ->
  exists k, U_checked_ilog10 dbg w a = Some (Ret (Some k)) /\ 0 <= k /\
            10 ^ k <= uval w a < 10 ^ (k + 1).
Proof. exact (U_checked_ilog10_ok mul_spec_holds div_spec_holds div_digit_spec_holds). Qed.
Print Assumptions C08_U_checked_ilog10.

Theorem C08_U_checked_ilog10_none : forall dbg w n a, 0 < w -> wf w n a ->
  uval w a = 0 -> U_checked_ilog10 dbg w a = Some (Ret None).
Proof. exact U_checked_ilog10_none. Qed.
Print Assumptions C08_U_checked_ilog10_none.

(* ilog / ilog10 panic exactly in the None cases *)
Theorem C08_U_ilog : forall dbg w n a base,
  0 < w -> (0 < n)%nat -> bits w n < 2 ^ 31 -> wf w n a -> wf w n base ->
  if (uval w a =? 0) || (uval w base <? 2) then U_ilog dbg w a base = Some Panic
  else exists k, U_ilog dbg w a base = Some (Ret k) /\ 0 <= k /\
                 uval w base ^ k <= uval w a < uval w base ^ (k + 1).
Proof. exact (U_ilog_ok mul_spec_holds div_spec_holds). Qed.
Print Assumptions C08_U_ilog.

Theorem C08_U_ilog10 : forall dbg w n a,
  0 < w -> 10 < B w -> (0 < n)%nat -> bits w n < 2 ^ 31 -> wf w n a ->
  if uval w a =? 0 then U_ilog10 dbg w a = Some Panic
  else exists k, U_ilog10 dbg w a = Some (Ret k) /\ 0 <= k /\ 10 ^ k <= uval w a < 10 ^ (k + 1).
Proof. exact (U_ilog10_ok mul_spec_holds div_spec_holds div_digit_spec_holds). Qed.
Print Assumptions C08_U_ilog10.

(* ================= logarithms, signed ================= *)

Theorem C08_I_checked_ilog2 : forall w n a, 0 < w -> (0 < n)%nat -> wf w n a ->
  I_checked_ilog2 w a = if sval w a <=? 0 then None else Some (Z.log2 (sval w a)).
Proof. exact I_checked_ilog2_ok. Qed.
Print Assumptions C08_I_checked_ilog2.

Theorem C08_I_ilog2 : forall w n a, 0 < w -> (0 < n)%nat -> wf w n a ->
  I_ilog2 w a = if sval w a <=? 0 then Panic else Ret (Z.log2 (sval w a)).
Proof. exact I_ilog2_ok. Qed.
Print Assumptions C08_I_ilog2.

Theorem C08_I_checked_ilog : forall dbg w n a base,
  0 < w -> (0 < n)%nat -> bits w n < 2 ^ 31 -> wf w n a -> wf w n base ->
  0 < sval w a -> 2 <= sval w base ->
  exists k, I_checked_ilog dbg w a base = Some (Ret (Some k)) /\ 0 <= k /\
            sval w base ^ k <= sval w a < sval w base ^ (k + 1).
Proof. exact (I_checked_ilog_ok mul_spec_holds div_spec_holds). Qed.
Print Assumptions C08_I_checked_ilog.

Theorem C08_I_checked_ilog_none : forall dbg w n a base,
  0 < w -> (0 < n)%nat -> bits w n < 2 ^ 31 -> wf w n a -> wf w n base ->
  (I_checked_ilog dbg w a base = Some (Ret None) <-> sval w a <= 0 \/ sval w base < 2).
Proof. exact (I_checked_ilog_none mul_spec_holds div_spec_holds). Qed.
Print Assumptions C08_I_checked_ilog_none.

Theorem C08_I_checked_ilog10 : forall dbg w n a,
  0 < w -> 10 < B w -> (0 < n)%nat -> bits w n < 2 ^ 31 -> wf w n a ->
  if sval w a <=? 0 then I_checked_ilog10 dbg w a = Some (Ret None)
  else exists k, I_checked_ilog10 dbg w a = Some (Ret (Some k)) /\ 0 <= k /\
                 10 ^ k <= sval w a < 10 ^ (k + 1).
Proof. exact (I_checked_ilog10_ok mul_spec_holds div_spec_holds div_digit_spec_holds). Qed.
Print Assumptions C08_I_checked_ilog10.

Theorem C08_I_ilog : forall dbg w n a base,
  0 < w -> (0 < n)%nat -> bits w n < 2 ^ 31 -> wf w n a -> wf w n base ->
  if (sval w a <=? 0) || (sval w base <? 2) then I_ilog dbg w a base = Some Panic
  else exists k, I_ilog dbg w a base = Some (Ret k) /\ 0 <= k /\
                 sval w base ^ k <= sval w a < sval w base ^ (k + 1).
Proof. exact (I_ilog_ok mul_spec_holds div_spec_holds). Qed.
Print Assumptions C08_I_ilog.

Theorem C08_I_ilog10 : forall dbg w n a,
  0 < w -> 10 < B w -> (0 < n)%nat -> bits w n < 2 ^ 31 -> wf w n a ->
  if sval w a <=? 0 then I_ilog10 dbg w a = Some Panic
  else exists k, I_ilog10 dbg w a = Some (Ret k) /\ 0 <= k /\ 10 ^ k <= sval w a < 10 ^ (k + 1).
Proof. exact (I_ilog10_ok mul_spec_holds div_spec_holds div_digit_spec_holds). Qed.
Print Assumptions C08_I_ilog10.

(* ================= the hypotheses are satisfiable; the model computes ================= *)
(* w = 8, n = 2: u16 / i16 as two bytes, little endian *)

Example ex_wf : wf 8 2 [3; 0] /\ wf 8 2 [254; 255] /\ (0 < 2)%nat /\ 0 < 8 /\ 10 < B 8 /\ bits 8 2 < 2 ^ 31.
Proof. repeat split; try (vm_compute; reflexivity); try lia; repeat constructor; unfold digit_ok; vm_compute; intuition discriminate. Qed.

(* 3^5 = 243 *)
Example ex_pow_exact : U_overflowing_pow 8 [3; 0] 5 = ([243; 0], false).
Proof. vm_compute. reflexivity. Qed.
(* 3^11 = 177147 = 2*65536 + 46075 = 2*65536 + 0xB3FB *)
Example ex_pow_wrap : U_overflowing_pow 8 [3; 0] 11 = ([251; 179], true).
Proof. vm_compute. reflexivity. Qed.
Example ex_pow_zero_zero : U_overflowing_pow 8 [0; 0] 0 = ([1; 0], false).
Proof. vm_compute. reflexivity. Qed.
(* 2^16 wraps to 0 with the flag; the early exit of checked_pow agrees *)
Example ex_pow_two_16 : U_overflowing_pow 8 [2; 0] 16 = ([0; 0], true) /\ U_checked_pow 8 [2; 0] 16 = None
                        /\ U_saturating_pow 8 [2; 0] 16 = [255; 255] /\ U_pow true 8 [2; 0] 16 = Panic
                        /\ U_pow false 8 [2; 0] 16 = Ret [0; 0].
Proof. vm_compute. repeat split; reflexivity. Qed.
(* (-2)^15 = -32768 = i16::MIN exactly: representable, no overflow *)
Example ex_ipow_min : I_overflowing_pow 8 [254; 255] 15 = ([0; 128], false) /\ I_checked_pow 8 [254; 255] 15 = Some [0; 128].
Proof. vm_compute. split; reflexivity. Qed.
(* (-2)^17 overflows: saturates to MIN; (-2)^16 = 65536 overflows: saturates to MAX *)
Example ex_ipow_sat : I_saturating_pow 8 [254; 255] 17 = [0; 128] /\ I_saturating_pow 8 [254; 255] 16 = [255; 127]
                      /\ I_checked_pow 8 [254; 255] 16 = None /\ I_pow true 8 [254; 255] 16 = Panic.
Proof. vm_compute. repeat split; reflexivity. Qed.
(* logs: 1000 = [232; 3] *)
Example ex_ilog10 : U_checked_ilog10 true 8 [232; 3] = Some (Ret (Some 3)) /\ U_checked_ilog10 false 8 [231; 3] = Some (Ret (Some 2)).
Proof. vm_compute. split; reflexivity. Qed.
Example ex_ilog : U_checked_ilog true 8 [255; 255] [3; 0] = Some (Ret (Some 10))      (* 3^10 = 59049 <= 65535 < 3^11 *)
                  /\ U_checked_ilog true 8 [255; 255] [1; 0] = Some (Ret None)
                  /\ U_checked_ilog true 8 [0; 0] [3; 0] = Some (Ret None)
                  /\ U_ilog false 8 [0; 0] [3; 0] = Some Panic.
Proof. vm_compute. repeat split; reflexivity. Qed.
Example ex_ilog2 : U_checked_ilog2 8 [0; 128] = Some 15 /\ U_checked_ilog2 8 [0; 0] = None /\ I_checked_ilog2 8 [0; 128] = None.
Proof. vm_compute. repeat split; reflexivity. Qed.
(* ==== glue tie, round 2 (text written by tools/mk_gluetie.py; keep at the END of the file) ==== *)
(* ---- tie to the source, second round: the non-loop functions (pow, ilog2, checked_ilog2 (BInt: the ilog! / checked_ilog! expansions), bint checked_pow / overflowing_pow) REGENERATED from /repo/src on every run
   (Generated/Glue.v, tools/rs2v_glue.py) are the model's, function by function, for every digit width, digit count,
   build mode and operand (no well-formedness hypothesis): an edit of the source that changes what one of these
   functions computes or delegates to breaks this theorem ---- *)
From Bnum.Model Require Import Digit Core Shift AddSub Mul Div Bits Pow.
From Bnum.Model Require Ops NumTraits.
From Bnum.Generated Require Import Glue.
From Bnum.Proofs Require Import GlueTieCommon GlueTieC08.
Theorem C08_glue_rs_matches_model :
  (forall dbg w a k, Glue.U_pow dbg w a k = U_pow dbg w a k) /\
  (forall dbg w a k, Glue.I_pow dbg w a k = I_pow dbg w a k) /\
  (forall w a, Glue.U_ilog2 w a = U_ilog2 w a) /\
  (forall w a, Glue.U_checked_ilog2 w a = U_checked_ilog2 w a) /\
  (forall w a k, Glue.I_checked_pow w a k = I_checked_pow w a k) /\
  (forall w a, Glue.I_ilog2 w a = I_ilog2 w a) /\
  (forall w a, Glue.I_checked_ilog2 w a = I_checked_ilog2 w a) /\
  (forall w a k, Glue.I_overflowing_pow w a k = I_overflowing_pow w a k).
Proof. exact glue_pow_matches_model. Qed.
Print Assumptions C08_glue_rs_matches_model.
(* ---- tie to the source: the pow LOOPS REGENERATED from /repo/src/buint/{overflowing,checked,wrapping}.rs on every run
   (Generated/Loops.v, tools/rs2v_loops.py; control-flow vocabulary Model/Imp.v) compute exactly the model's functions
   (which recurse over the binary numeral of the exponent): for N > 0 (`Self::ONE = from_digit(1)` indexes digit 0), an
   exponent >= 0 (a u32) and an iteration budget of at least log2(exponent) they neither panic nor run out of budget.
   The multiplications in the loop are calls of the model's U_overflowing_mul / U_checked_mul / U_wrapping_mul. ---- *)
From Bnum.Model Require Import Imp.
From Bnum.Generated Require Import Loops.
From Bnum.Proofs Require Import LoopsTieC08.
Theorem C08_loops_rs_match_model w :
  (forall n a e fuel, (0 < n)%nat -> wf w n a -> 0 <= e -> (Z.to_nat (Z.log2 e) <= fuel)%nat ->
     Loops.overflowing_pow w (Z.of_nat n) fuel a e = Done (U_overflowing_pow w a e)) /\
  (forall n a e fuel, (0 < n)%nat -> wf w n a -> 0 <= e -> (Z.to_nat (Z.log2 e) <= fuel)%nat ->
     Loops.checked_pow w (Z.of_nat n) fuel a e = Done (U_checked_pow w a e)) /\
  (forall n a e fuel, (0 < n)%nat -> wf w n a -> 0 <= e -> (Z.to_nat (Z.log2 e) <= fuel)%nat ->
     Loops.wrapping_pow w (Z.of_nat n) fuel a e = Done (U_wrapping_pow w a e)).
Proof. exact (loops_C08_match_model w). Qed.
Print Assumptions C08_loops_rs_match_model.
(* ---- the integer logarithms of /repo/src/buint/checked.rs (checked_ilog2, the recursive iilog, checked_ilog10,
   checked_ilog), regenerated on every run: Loops.iilog and the model's iilog consume their budget in the same way (one
   unit per nested call) and agree for every budget; the callers agree with the model for every budget covering the
   loops (N) and the model's ilog_fuel: the model's `Some (Ret o)` is `Done o`, its `Some Panic` (strict `b.mul(b)` in a
   debug build) is `Panicked`; the model's `None` (own budget too small) is excluded by the theorems above.
   b.mul(b), q.div(b), k.div_rem_unchecked(b), gt are calls of the model's U_mul, U_div, U_div_rem_unchecked, ucmp. ---- *)
From Bnum.Proofs Require Import LoopsTieC08b.
Theorem C08_loops_ilog_rs_match_model dbg w : 1 < w ->
  (forall n a fuel, wf w n a -> (n <= fuel)%nat ->
     Loops.checked_ilog2 w (Z.of_nat n) fuel a = Done (U_checked_ilog2 w a)) /\
  (forall N fuel m b k,
     Loops.iilog dbg w N fuel m b k =
     match Pow.iilog fuel dbg w m b k with None => NoFuel | Some Panic => Panicked | Some (Ret r) => Done r end) /\
  (forall n a fuel, 10 < B w -> (0 < n)%nat -> wf w n a -> (n <= fuel)%nat -> (ilog_fuel w n <= fuel)%nat ->
     match U_checked_ilog10 dbg w a with
     | Some (Ret o) => Loops.checked_ilog10 dbg w (Z.of_nat n) fuel a = Done o
     | Some Panic => Loops.checked_ilog10 dbg w (Z.of_nat n) fuel a = Panicked
     | None => True
     end) /\
  (forall n a base fuel, (0 < n)%nat -> wf w n a -> wf w n base -> (n <= fuel)%nat -> (ilog_fuel w n <= fuel)%nat ->
     match U_checked_ilog dbg w a base with
     | Some (Ret o) => Loops.checked_ilog dbg w (Z.of_nat n) fuel a base = Done o
     | Some Panic => Loops.checked_ilog dbg w (Z.of_nat n) fuel a base = Panicked
     | None => True
     end).
Proof. exact (loops_C08b_match_model dbg w). Qed.
Print Assumptions C08_loops_ilog_rs_match_model.

(* C07 — Comparison, equality and hashing agree with the numeric value.
   A := uval w a (BUint reading), SA := sval w a (BInt reading: top digit signed). *)
From Bnum Require Import Base Prim.
From Bnum.Model Require Import Core Shift Bits.
From Bnum.Proofs Require Import Cmp.

(* ---- cmp ---- *)
Theorem C07_U_cmp : forall w n a b, 0 <= w -> wf w n a -> wf w n b ->
  ucmp a b = (uval w a ?= uval w b).
Proof. exact ucmp_ok. Qed.
Print Assumptions C07_U_cmp.

Theorem C07_I_cmp : forall w n a b, 0 < w -> (0 < n)%nat -> wf w n a -> wf w n b ->
  icmp w a b = (sval w a ?= sval w b).
Proof. exact icmp_ok. Qed.
Print Assumptions C07_I_cmp.

(* ---- lt / le / gt / ge ---- *)
Theorem C07_U_lt : forall w n, 0 < w -> (0 < n)%nat -> forall a b, wf w n a -> wf w n b ->
  cmp_lt (ucmp a b) = (uval w a <? uval w b).
Proof. exact U_lt_ok. Qed.
Print Assumptions C07_U_lt.
Theorem C07_U_le : forall w n, 0 < w -> (0 < n)%nat -> forall a b, wf w n a -> wf w n b ->
  cmp_le (ucmp a b) = (uval w a <=? uval w b).
Proof. exact U_le_ok. Qed.
Print Assumptions C07_U_le.
Theorem C07_U_gt : forall w n, 0 < w -> (0 < n)%nat -> forall a b, wf w n a -> wf w n b ->
  cmp_gt (ucmp a b) = (uval w b <? uval w a).
Proof. exact U_gt_ok. Qed.
Print Assumptions C07_U_gt.
Theorem C07_U_ge : forall w n, 0 < w -> (0 < n)%nat -> forall a b, wf w n a -> wf w n b ->
  cmp_ge (ucmp a b) = (uval w b <=? uval w a).
Proof. exact U_ge_ok. Qed.
Print Assumptions C07_U_ge.
Theorem C07_I_lt : forall w n, 0 < w -> (0 < n)%nat -> forall a b, wf w n a -> wf w n b ->
  cmp_lt (icmp w a b) = (sval w a <? sval w b).
Proof. exact I_lt_ok. Qed.
Print Assumptions C07_I_lt.
Theorem C07_I_le : forall w n, 0 < w -> (0 < n)%nat -> forall a b, wf w n a -> wf w n b ->
  cmp_le (icmp w a b) = (sval w a <=? sval w b).
Proof. exact I_le_ok. Qed.
Print Assumptions C07_I_le.
Theorem C07_I_gt : forall w n, 0 < w -> (0 < n)%nat -> forall a b, wf w n a -> wf w n b ->
  cmp_gt (icmp w a b) = (sval w b <? sval w a).
Proof. exact I_gt_ok. Qed.
Print Assumptions C07_I_gt.
Theorem C07_I_ge : forall w n, 0 < w -> (0 < n)%nat -> forall a b, wf w n a -> wf w n b ->
  cmp_ge (icmp w a b) = (sval w b <=? sval w a).
Proof. exact I_ge_ok. Qed.
Print Assumptions C07_I_ge.

(* ---- max / min: the value is Z.max / Z.min and the result is one of the operands ---- *)
Theorem C07_U_max : forall w n, 0 < w -> (0 < n)%nat -> forall a b, wf w n a -> wf w n b ->
  uval w (cmp_max (ucmp a b) a b) = Z.max (uval w a) (uval w b) /\
  (cmp_max (ucmp a b) a b = a \/ cmp_max (ucmp a b) a b = b).
Proof. exact U_max_ok. Qed.
Print Assumptions C07_U_max.
Theorem C07_U_min : forall w n, 0 < w -> (0 < n)%nat -> forall a b, wf w n a -> wf w n b ->
  uval w (cmp_min (ucmp a b) a b) = Z.min (uval w a) (uval w b) /\
  (cmp_min (ucmp a b) a b = a \/ cmp_min (ucmp a b) a b = b).
Proof. exact U_min_ok. Qed.
Print Assumptions C07_U_min.
Theorem C07_I_max : forall w n, 0 < w -> (0 < n)%nat -> forall a b, wf w n a -> wf w n b ->
  sval w (cmp_max (icmp w a b) a b) = Z.max (sval w a) (sval w b) /\
  (cmp_max (icmp w a b) a b = a \/ cmp_max (icmp w a b) a b = b).
Proof. exact I_max_ok. Qed.
Print Assumptions C07_I_max.
Theorem C07_I_min : forall w n, 0 < w -> (0 < n)%nat -> forall a b, wf w n a -> wf w n b ->
  sval w (cmp_min (icmp w a b) a b) = Z.min (sval w a) (sval w b) /\
  (cmp_min (icmp w a b) a b = a \/ cmp_min (icmp w a b) a b = b).
Proof. exact I_min_ok. Qed.
Print Assumptions C07_I_min.

(* ---- clamp: panics exactly when max < min; otherwise the clamped value, one of the operands ---- *)
Theorem C07_U_clamp : forall w n, 0 < w -> (0 < n)%nat -> forall a lo hi,
  wf w n a -> wf w n lo -> wf w n hi ->
  (clamp ucmp a lo hi = Panic <-> uval w hi < uval w lo) /\
  (uval w lo <= uval w hi -> exists r, clamp ucmp a lo hi = Ret r /\
     uval w r = Z.max (uval w lo) (Z.min (uval w a) (uval w hi)) /\ (r = a \/ r = lo \/ r = hi)).
Proof. exact U_clamp_ok. Qed.
Print Assumptions C07_U_clamp.
Theorem C07_I_clamp : forall w n, 0 < w -> (0 < n)%nat -> forall a lo hi,
  wf w n a -> wf w n lo -> wf w n hi ->
  (clamp (icmp w) a lo hi = Panic <-> sval w hi < sval w lo) /\
  (sval w lo <= sval w hi -> exists r, clamp (icmp w) a lo hi = Ret r /\
     sval w r = Z.max (sval w lo) (Z.min (sval w a) (sval w hi)) /\ (r = a \/ r = lo \/ r = hi)).
Proof. exact I_clamp_ok. Qed.
Print Assumptions C07_I_clamp.

(* ---- equality: eq <-> identical digit arrays <-> equal values (canonical representation) ---- *)
Theorem C07_eq_arrays : forall w n a b, wf w n a -> wf w n b -> (eq_digits a b = true <-> a = b).
Proof. exact eq_digits_ok. Qed.
Print Assumptions C07_eq_arrays.
Theorem C07_val_inj : forall w n a b, 0 <= w -> wf w n a -> wf w n b -> (a = b <-> uval w a = uval w b).
Proof. exact eq_uval. Qed.
Print Assumptions C07_val_inj.
Theorem C07_U_eq : forall w n a b, 0 <= w -> wf w n a -> wf w n b ->
  (eq_digits a b = true <-> uval w a = uval w b).
Proof. exact eq_digits_uval. Qed.
Print Assumptions C07_U_eq.
Theorem C07_I_eq : forall w n a b, 0 < w -> wf w n a -> wf w n b ->
  (eq_digits a b = true <-> sval w a = sval w b).
Proof. exact eq_digits_sval. Qed.
Print Assumptions C07_I_eq.
Theorem C07_uval_sval_eq : forall w n a b, 0 < w -> wf w n a -> wf w n b ->
  (uval w a = uval w b <-> sval w a = sval w b).
Proof. exact uval_sval_eq. Qed.
Print Assumptions C07_uval_sval_eq.

(* ---- the order is total and consistent with arithmetic: cmp is reflexive, antisymmetric, transitive, total,
   Eq exactly on identical digit arrays, Lt exactly when the values differ by a positive amount ---- *)
From Bnum.Proofs Require Import CmpOrder.
Theorem C07_U_cmp_refl : forall w n a, 0 <= w -> wf w n a -> ucmp a a = Eq.
Proof. intros w n a Hw; exact (ucmp_refl w n Hw a). Qed.
Print Assumptions C07_U_cmp_refl.
Theorem C07_U_cmp_antisym : forall w n a b, 0 <= w -> wf w n a -> wf w n b -> ucmp b a = CompOpp (ucmp a b).
Proof. intros w n a b Hw; exact (ucmp_antisym w n Hw a b). Qed.
Print Assumptions C07_U_cmp_antisym.
Theorem C07_U_cmp_eq_iff : forall w n a b, 0 <= w -> wf w n a -> wf w n b -> (ucmp a b = Eq <-> a = b).
Proof. intros w n a b Hw; exact (ucmp_eq_iff w n Hw a b). Qed.
Print Assumptions C07_U_cmp_eq_iff.
Theorem C07_U_cmp_trans : forall w n a b c o, 0 <= w -> wf w n a -> wf w n b -> wf w n c ->
  ucmp a b = o -> ucmp b c = o -> ucmp a c = o.
Proof. intros w n a b c o Hw; exact (ucmp_trans w n Hw a b c o). Qed.
Print Assumptions C07_U_cmp_trans.
Theorem C07_U_cmp_total : forall w n a b, 0 <= w -> wf w n a -> wf w n b ->
  (ucmp a b = Lt /\ ucmp b a = Gt) \/ (a = b /\ ucmp a b = Eq) \/ (ucmp a b = Gt /\ ucmp b a = Lt).
Proof. intros w n a b Hw; exact (ucmp_total w n Hw a b). Qed.
Print Assumptions C07_U_cmp_total.
Theorem C07_U_cmp_lt_arith : forall w n a b, 0 <= w -> wf w n a -> wf w n b ->
  (ucmp a b = Lt <-> exists d, 0 < d /\ uval w b = uval w a + d).
Proof. intros w n a b Hw; exact (ucmp_lt_arith w n Hw a b). Qed.
Print Assumptions C07_U_cmp_lt_arith.
Theorem C07_I_cmp_refl : forall w n a, 0 < w -> (0 < n)%nat -> wf w n a -> icmp w a a = Eq.
Proof. intros w n a Hw Hn; exact (icmp_refl w n Hw Hn a). Qed.
Print Assumptions C07_I_cmp_refl.
Theorem C07_I_cmp_antisym : forall w n a b, 0 < w -> (0 < n)%nat -> wf w n a -> wf w n b -> icmp w b a = CompOpp (icmp w a b).
Proof. intros w n a b Hw Hn; exact (icmp_antisym w n Hw Hn a b). Qed.
Print Assumptions C07_I_cmp_antisym.
Theorem C07_I_cmp_eq_iff : forall w n a b, 0 < w -> (0 < n)%nat -> wf w n a -> wf w n b -> (icmp w a b = Eq <-> a = b).
Proof. intros w n a b Hw Hn; exact (icmp_eq_iff w n Hw Hn a b). Qed.
Print Assumptions C07_I_cmp_eq_iff.
Theorem C07_I_cmp_trans : forall w n a b c o, 0 < w -> (0 < n)%nat -> wf w n a -> wf w n b -> wf w n c ->
  icmp w a b = o -> icmp w b c = o -> icmp w a c = o.
Proof. intros w n a b c o Hw Hn; exact (icmp_trans w n Hw Hn a b c o). Qed.
Print Assumptions C07_I_cmp_trans.
Theorem C07_I_cmp_total : forall w n a b, 0 < w -> (0 < n)%nat -> wf w n a -> wf w n b ->
  (icmp w a b = Lt /\ icmp w b a = Gt) \/ (a = b /\ icmp w a b = Eq) \/ (icmp w a b = Gt /\ icmp w b a = Lt).
Proof. intros w n a b Hw Hn; exact (icmp_total w n Hw Hn a b). Qed.
Print Assumptions C07_I_cmp_total.
Theorem C07_I_cmp_lt_arith : forall w n a b, 0 < w -> (0 < n)%nat -> wf w n a -> wf w n b ->
  (icmp w a b = Lt <-> exists d, 0 < d /\ sval w b = sval w a + d).
Proof. intros w n a b Hw Hn; exact (icmp_lt_arith w n Hw Hn a b). Qed.
Print Assumptions C07_I_cmp_lt_arith.
Example C07_order_nonvacuous : wf 8 2 [255; 0] /\ wf 8 2 [0; 1] /\ ucmp [255; 0] [0; 1] = Lt /\ icmp 8 [0; 128] [255; 127] = Lt.
Proof. split; [apply wfb_wf; reflexivity|]. split; [apply wfb_wf; reflexivity|]. split; reflexivity. Qed.

(* ---- hashing: the derived Hash feeds `hash_stream` (the digit array in order) to the Hasher ---- *)
Theorem C07_hash_stream : forall a b : list Z, a = b -> hash_stream a = hash_stream b.
Proof. exact hash_eq_stream. Qed.
Print Assumptions C07_hash_stream.
Theorem C07_U_hash : forall w n a b, 0 <= w -> wf w n a -> wf w n b ->
  uval w a = uval w b -> hash_stream a = hash_stream b.
Proof. exact hash_equal_values. Qed.
Print Assumptions C07_U_hash.
Theorem C07_I_hash : forall w n a b, 0 < w -> wf w n a -> wf w n b ->
  sval w a = sval w b -> hash_stream a = hash_stream b.
Proof. exact hash_equal_svalues. Qed.
Print Assumptions C07_I_hash.

(* ---- sign predicates ---- *)
Theorem C07_is_negative : forall w n a, 0 < w -> (0 < n)%nat -> wf w n a ->
  is_negative w a = (sval w a <? 0).
Proof. exact is_negative_ok. Qed.
Print Assumptions C07_is_negative.
Theorem C07_is_positive : forall w n a, 0 < w -> (0 < n)%nat -> wf w n a ->
  is_positive w a = (0 <? sval w a).
Proof. exact is_positive_ok. Qed.
Print Assumptions C07_is_positive.
Theorem C07_zero_neither : forall w n a, 0 < w -> (0 < n)%nat -> wf w n a -> sval w a = 0 ->
  is_positive w a = false /\ is_negative w a = false.
Proof. exact zero_neither. Qed.
Print Assumptions C07_zero_neither.
Theorem C07_signum : forall w n a, 0 < w -> (0 < n)%nat -> wf w n a ->
  wf w n (signum w a) /\ sval w (signum w a) = Z.sgn (sval w a).
Proof. exact signum_ok. Qed.
Print Assumptions C07_signum.

(* ---- the hypotheses are satisfiable; concrete instances (w = 8, n = 3) ---- *)
Example C07_ex_wf : wf 8 3 [0x34; 0x12; 0x80].
Proof. apply wfb_wf. vm_compute. reflexivity. Qed.
Example C07_ex_vals : uval 8 [0x34; 0x12; 0x80] = 0x801234 /\ sval 8 [0x34; 0x12; 0x80] = 0x801234 - 0x1000000.
Proof. vm_compute. split; reflexivity. Qed.
Example C07_ex_ucmp : ucmp [0x34; 0x12; 0x80] [0xff; 0xff; 0x7f] = Gt.
Proof. vm_compute. reflexivity. Qed.
Example C07_ex_icmp : icmp 8 [0x34; 0x12; 0x80] [0xff; 0xff; 0x7f] = Lt.
Proof. vm_compute. reflexivity. Qed.
Example C07_ex_clamp_panic : clamp (icmp 8) [1; 0; 0] [0; 0; 0] [0xff; 0xff; 0xff] = Panic.
Proof. vm_compute. reflexivity. Qed.
Example C07_ex_clamp : clamp ucmp [1; 0; 9] [0; 0; 0] [0xff; 0xff; 0x03] = Ret [0xff; 0xff; 0x03].
Proof. vm_compute. reflexivity. Qed.
Example C07_ex_signum : signum 8 [0x34; 0x12; 0x80] = [0xff; 0xff; 0xff] /\ signum 8 [0; 0; 0] = [0; 0; 0]
                        /\ signum 8 [0; 1; 0] = [1; 0; 0].
Proof. vm_compute. repeat split; reflexivity. Qed.
Example C07_ex_is_positive_zero_top : is_positive 8 [0; 1; 0] = true /\ is_positive 8 [0; 0; 0] = false.
Proof. vm_compute. split; reflexivity. Qed.
(* ==== glue tie, round 2 (text written by tools/mk_gluetie.py; keep at the END of the file) ==== *)
(* ---- tie to the source, second round: the non-loop functions (signum, is_positive, is_negative; BInt eq / ne / cmp, BUint ne) REGENERATED from /repo/src on every run
   (Generated/Glue.v, tools/rs2v_glue.py) are the model's, function by function, for every digit width, digit count,
   build mode and operand (no well-formedness hypothesis): an edit of the source that changes what one of these
   functions computes or delegates to breaks this theorem ---- *)
From Bnum.Model Require Import Digit Core Shift AddSub Mul Div Bits Pow.
From Bnum.Model Require Ops NumTraits.
From Bnum.Generated Require Import Glue.
From Bnum.Proofs Require Import GlueTieCommon GlueTieC07.
Theorem C07_glue_rs_matches_model :
  (forall w a, Glue.I_signum w a = signum w a) /\
  (forall w a, Glue.I_is_positive w a = is_positive w a) /\
  (forall w a, Glue.I_is_negative w a = is_negative w a) /\
  (forall w a b, Glue.U_ne w a b = negb (eq_digits a b)) /\
  (forall w a b, Glue.I_eq w a b = eq_digits a b) /\
  (forall w a b, Glue.I_ne w a b = negb (eq_digits a b)) /\
  (forall w a b, Glue.I_cmp w a b = icmp w a b).
Proof. exact glue_sign_matches_model. Qed.
Print Assumptions C07_glue_rs_matches_model.

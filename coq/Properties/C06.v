(* C06 — Bitwise logic, bit counts and bit manipulation act on the exact bit pattern.
   A := uval w a, M := Mod w n = 2^BITS, BITS := bits w n = w * n.
   Spec functions (defined in Proofs/BitsLemmas.v, Proofs/Bits.v, Prim.v):
     popcount k x  = number of i in [0,k) with Z.testbit x i      (Fixpoint over k)
     bitlen x      = 0 if x = 0, else Z.log2 x + 1                (characterised by C06_bitlen_spec)
     next_pow2 x   = 2 ^ Z.log2_up x                              (characterised by C06_next_pow2_spec)
     byte_of x i   = (x / 256^i) mod 256
   BInt forwards every one of these operations to the same digit array, so the
   statements cover both signednesses (I_is_power_of_two is the only signed variant). *)
From Bnum Require Import Base Prim.
From Bnum.Model Require Import Core Shift Bits.
From Bnum.Proofs Require Import BitAddrC06 BitsLemmas Cmp Bits.

(* ---- the addressing lemma: bit i of the value is bit (i mod w) of digit (i / w) ---- *)
Theorem C06_bit_addressing : forall w n ds i, 0 < w -> wf w n ds -> 0 <= i ->
  Z.testbit (uval w ds) i = Z.testbit (nth (Z.to_nat (i / w)) ds 0) (i mod w).
Proof. exact testbit_uval. Qed.
Print Assumptions C06_bit_addressing.

(* ---- logic ---- *)
Theorem C06_and : forall w n a b, 0 < w -> wf w n a -> wf w n b ->
  wf w n (bitand a b) /\ uval w (bitand a b) = Z.land (uval w a) (uval w b) /\
  forall i, 0 <= i -> Z.testbit (uval w (bitand a b)) i = Z.testbit (uval w a) i && Z.testbit (uval w b) i.
Proof. exact bitand_ok. Qed.
Print Assumptions C06_and.

Theorem C06_or : forall w n a b, 0 < w -> wf w n a -> wf w n b ->
  wf w n (bitor a b) /\ uval w (bitor a b) = Z.lor (uval w a) (uval w b) /\
  forall i, 0 <= i -> Z.testbit (uval w (bitor a b)) i = Z.testbit (uval w a) i || Z.testbit (uval w b) i.
Proof. exact bitor_ok. Qed.
Print Assumptions C06_or.

Theorem C06_xor : forall w n a b, 0 < w -> wf w n a -> wf w n b ->
  wf w n (bitxor a b) /\ uval w (bitxor a b) = Z.lxor (uval w a) (uval w b) /\
  forall i, 0 <= i -> Z.testbit (uval w (bitxor a b)) i = xorb (Z.testbit (uval w a) i) (Z.testbit (uval w b) i).
Proof. exact bitxor_ok. Qed.
Print Assumptions C06_xor.

Theorem C06_not : forall w n a, 0 < w -> wf w n a ->
  wf w n (bitnot w a) /\ uval w (bitnot w a) = Mod w n - 1 - uval w a /\
  forall i, 0 <= i < w * Z.of_nat n -> Z.testbit (uval w (bitnot w a)) i = negb (Z.testbit (uval w a) i).
Proof. exact bitnot_ok. Qed.
Print Assumptions C06_not.

(* ---- is_zero / is_one ---- *)
Theorem C06_is_zero : forall w n a, 0 <= w -> wf w n a -> is_zero a = (uval w a =? 0).
Proof. exact is_zero_ok. Qed.
Print Assumptions C06_is_zero.

Theorem C06_is_one : forall w n a, 0 < w -> wf w n a -> is_one a = (uval w a =? 1).
Proof. exact is_one_ok. Qed.
Print Assumptions C06_is_one.

(* ---- counts ---- *)
Theorem C06_count_ones : forall w n a, 0 < w -> wf w n a ->
  count_ones a = popcount (Z.to_nat (bits w n)) (uval w a).
Proof. exact count_ones_ok. Qed.
Print Assumptions C06_count_ones.

(* the same count is the primitive popcount applied to the whole value *)
Theorem C06_count_ones_whole : forall w n a, 0 < w -> wf w n a ->
  count_ones a = u_count_ones (uval w a).
Proof. exact count_ones_whole. Qed.
Print Assumptions C06_count_ones_whole.

Theorem C06_count_zeros : forall w n a, 0 < w -> wf w n a ->
  count_zeros w a = bits w n - popcount (Z.to_nat (bits w n)) (uval w a).
Proof. exact count_zeros_ok. Qed.
Print Assumptions C06_count_zeros.

Theorem C06_popcount_range : forall k x, 0 <= popcount k x <= Z.of_nat k.
Proof. exact popcount_range. Qed.
Print Assumptions C06_popcount_range.

Theorem C06_leading_zeros : forall w n a, 0 < w -> wf w n a ->
  leading_zeros w a = bits w n - bitlen (uval w a).
Proof. exact leading_zeros_ok. Qed.
Print Assumptions C06_leading_zeros.

Theorem C06_bitlen_spec : forall x, 0 <= x ->
  0 <= bitlen x /\ x < 2 ^ bitlen x /\ (0 < x -> 2 ^ (bitlen x - 1) <= x).
Proof. exact bitlen_spec. Qed.
Print Assumptions C06_bitlen_spec.

Theorem C06_trailing_zeros : forall w n a, 0 < w -> wf w n a ->
  (uval w a = 0 -> trailing_zeros w a = bits w n) /\
  (uval w a <> 0 -> 0 <= trailing_zeros w a < bits w n /\
     uval w a mod 2 ^ trailing_zeros w a = 0 /\ Z.testbit (uval w a) (trailing_zeros w a) = true).
Proof. exact trailing_zeros_ok. Qed.
Print Assumptions C06_trailing_zeros.

(* trailing_zeros is the greatest k with 2^k | A *)
Theorem C06_trailing_zeros_greatest : forall w n a j, 0 < w -> wf w n a -> uval w a <> 0 ->
  0 <= j -> (uval w a mod 2 ^ j = 0 <-> j <= trailing_zeros w a).
Proof. exact trailing_zeros_greatest. Qed.
Print Assumptions C06_trailing_zeros_greatest.

Theorem C06_leading_ones : forall w n a, 0 < w -> wf w n a ->
  leading_ones w a = bits w n - bitlen (Mod w n - 1 - uval w a).
Proof. exact leading_ones_ok. Qed.
Print Assumptions C06_leading_ones.

Theorem C06_trailing_ones : forall w n a, 0 < w -> wf w n a ->
  let c := Mod w n - 1 - uval w a in
  (c = 0 -> trailing_ones w a = bits w n) /\
  (c <> 0 -> 0 <= trailing_ones w a < bits w n /\
     c mod 2 ^ trailing_ones w a = 0 /\ Z.testbit c (trailing_ones w a) = true).
Proof. exact trailing_ones_ok. Qed.
Print Assumptions C06_trailing_ones.

(* leading_ones / trailing_ones are literally the zero counts of the complement *)
Theorem C06_leading_ones_not : forall w a, leading_ones w a = leading_zeros w (bitnot w a).
Proof. exact leading_ones_not. Qed.
Print Assumptions C06_leading_ones_not.
Theorem C06_trailing_ones_not : forall w a, trailing_ones w a = trailing_zeros w (bitnot w a).
Proof. exact trailing_ones_not. Qed.
Print Assumptions C06_trailing_ones_not.

Theorem C06_bits : forall w n a, 0 < w -> wf w n a -> bits_of w a = bitlen (uval w a).
Proof. exact bits_of_ok. Qed.
Print Assumptions C06_bits.

(* ---- bit / set_bit / power_of_two ---- *)
Theorem C06_bit : forall w n a i, 0 < w -> wf w n a -> 0 <= i ->
  bit w a i = if i <? bits w n then Ret (Z.testbit (uval w a) i) else Panic.
Proof. exact bit_ok. Qed.
Print Assumptions C06_bit.

Theorem C06_bit_panic : forall w n a i, 0 < w -> wf w n a -> 0 <= i ->
  (bit w a i = Panic <-> Z.of_nat n <= i / w).
Proof. exact bit_panic_iff. Qed.
Print Assumptions C06_bit_panic.

Theorem C06_set_bit : forall w n a i v, 0 < w -> wf w n a -> 0 <= i ->
  (i < bits w n -> exists r, set_bit w a i v = Ret r /\ wf w n r /\
     forall j, 0 <= j -> Z.testbit (uval w r) j = if j =? i then v else Z.testbit (uval w a) j) /\
  (bits w n <= i -> set_bit w a i v = Panic).
Proof. exact set_bit_ok. Qed.
Print Assumptions C06_set_bit.

Theorem C06_set_bit_panic : forall w n a i v, 0 < w -> wf w n a -> 0 <= i ->
  (set_bit w a i v = Panic <-> Z.of_nat n <= i / w).
Proof. exact set_bit_panic_iff. Qed.
Print Assumptions C06_set_bit_panic.

Theorem C06_power_of_two : forall w n k, 0 < w -> 0 <= k ->
  (k < bits w n -> exists r, power_of_two w n k = Ret r /\ wf w n r /\ uval w r = 2 ^ k) /\
  (bits w n <= k -> power_of_two w n k = Panic).
Proof. exact power_of_two_ok. Qed.
Print Assumptions C06_power_of_two.

Theorem C06_power_of_two_panic : forall w n k, 0 < w -> 0 <= k ->
  (power_of_two w n k = Panic <-> Z.of_nat n <= k / w).
Proof. exact power_of_two_panic_iff. Qed.
Print Assumptions C06_power_of_two_panic.

(* ---- is_power_of_two ---- *)
Theorem C06_U_is_power_of_two : forall w n a, 0 < w -> wf w n a ->
  (U_is_power_of_two a = true <-> exists k, 0 <= k /\ uval w a = 2 ^ k).
Proof. exact U_is_power_of_two_ok. Qed.
Print Assumptions C06_U_is_power_of_two.

Theorem C06_I_is_power_of_two : forall w n a, 0 < w -> (0 < n)%nat -> wf w n a ->
  (I_is_power_of_two w a = true <-> 0 < sval w a /\ exists k, 0 <= k /\ sval w a = 2 ^ k).
Proof. exact I_is_power_of_two_ok. Qed.
Print Assumptions C06_I_is_power_of_two.

(* ---- next_power_of_two ---- *)
Theorem C06_next_pow2_spec : forall x, 0 <= x ->
  x <= next_pow2 x /\ (exists k, 0 <= k /\ next_pow2 x = 2 ^ k) /\
  (forall j, 0 <= j -> x <= 2 ^ j -> next_pow2 x <= 2 ^ j).
Proof. exact next_pow2_spec. Qed.
Print Assumptions C06_next_pow2_spec.

Theorem C06_checked_next_power_of_two : forall w n a, 0 < w -> wf w n a ->
  (next_pow2 (uval w a) < Mod w n ->
     exists r, U_checked_next_power_of_two w a = Ret (Some r) /\ wf w n r /\ uval w r = next_pow2 (uval w a)) /\
  (Mod w n <= next_pow2 (uval w a) -> U_checked_next_power_of_two w a = Ret None).
Proof. exact U_checked_next_power_of_two_ok. Qed.
Print Assumptions C06_checked_next_power_of_two.

Theorem C06_wrapping_next_power_of_two : forall w n a, 0 < w -> wf w n a ->
  (next_pow2 (uval w a) < Mod w n ->
     exists r, U_wrapping_next_power_of_two w a = Ret r /\ wf w n r /\ uval w r = next_pow2 (uval w a)) /\
  (Mod w n <= next_pow2 (uval w a) -> U_wrapping_next_power_of_two w a = Ret (ZERO n)).
Proof. exact U_wrapping_next_power_of_two_ok. Qed.
Print Assumptions C06_wrapping_next_power_of_two.

Theorem C06_next_power_of_two : forall dbg w n a, 0 < w -> wf w n a ->
  (next_pow2 (uval w a) < Mod w n ->
     exists r, U_next_power_of_two dbg w a = Ret r /\ wf w n r /\ uval w r = next_pow2 (uval w a)) /\
  (Mod w n <= next_pow2 (uval w a) ->
     U_next_power_of_two dbg w a = if dbg then Panic else Ret (ZERO n)).
Proof. exact U_next_power_of_two_ok. Qed.
Print Assumptions C06_next_power_of_two.

(* ---- reverse_bits / swap_bytes ---- *)
Theorem C06_reverse_bits : forall w n a, 0 < w -> wf w n a ->
  wf w n (reverse_bits w a) /\
  (forall i, 0 <= i < bits w n ->
     Z.testbit (uval w (reverse_bits w a)) i = Z.testbit (uval w a) (bits w n - 1 - i)) /\
  reverse_bits w (reverse_bits w a) = a.
Proof. exact reverse_bits_ok. Qed.
Print Assumptions C06_reverse_bits.

Theorem C06_swap_bytes : forall w n a, 0 < w -> w mod 8 = 0 -> wf w n a ->
  let nbytes := w / 8 * Z.of_nat n in
  wf w n (swap_bytes w a) /\
  (forall i j, 0 <= i < nbytes -> 0 <= j < 8 ->
     Z.testbit (uval w (swap_bytes w a)) (8 * i + j) = Z.testbit (uval w a) (8 * (nbytes - 1 - i) + j)) /\
  swap_bytes w (swap_bytes w a) = a.
Proof. exact swap_bytes_ok. Qed.
Print Assumptions C06_swap_bytes.

Theorem C06_swap_bytes_byte : forall w n a i, 0 < w -> w mod 8 = 0 -> wf w n a ->
  0 <= i < w / 8 * Z.of_nat n ->
  byte_of (uval w (swap_bytes w a)) i = byte_of (uval w a) (w / 8 * Z.of_nat n - 1 - i).
Proof. exact swap_bytes_byte. Qed.
Print Assumptions C06_swap_bytes_byte.

(* ---- concrete instances (w = 8, n = 3): hypotheses satisfiable, values as expected ---- *)
Example C06_ex_wf : wf 8 3 [0xf0; 0x0f; 0x01].
Proof. apply wfb_wf. vm_compute. reflexivity. Qed.
Example C06_ex_logic :
  bitand [0xf0; 0x0f; 0x01] [0x3c; 0x3c; 0xff] = [0x30; 0x0c; 0x01] /\
  bitxor [0xf0; 0x0f; 0x01] [0x3c; 0x3c; 0xff] = [0xcc; 0x33; 0xfe] /\
  bitnot 8 [0xf0; 0x0f; 0x01] = [0x0f; 0xf0; 0xfe].
Proof. vm_compute. repeat split; reflexivity. Qed.
Example C06_ex_counts :
  count_ones [0xf0; 0x0f; 0x01] = 9 /\ count_zeros 8 [0xf0; 0x0f; 0x01] = 15 /\
  leading_zeros 8 [0xf0; 0x0f; 0x01] = 7 /\ trailing_zeros 8 [0xf0; 0x0f; 0x01] = 4 /\
  leading_ones 8 [0xf0; 0xff; 0xff] = 20 /\ trailing_ones 8 [0xff; 0x07; 0x00] = 11 /\
  bits_of 8 [0xf0; 0x0f; 0x01] = 17 /\ popcount 24 0x010ff0 = 9 /\ bitlen 0x010ff0 = 17.
Proof. vm_compute. repeat split; reflexivity. Qed.
Example C06_ex_zero_counts :
  leading_zeros 8 [0; 0; 0] = 24 /\ trailing_zeros 8 [0; 0; 0] = 24 /\ bits_of 8 [0; 0; 0] = 0.
Proof. vm_compute. repeat split; reflexivity. Qed.
Example C06_ex_bit :
  bit 8 [0xf0; 0x0f; 0x01] 16 = Ret true /\ bit 8 [0xf0; 0x0f; 0x01] 17 = Ret false /\
  bit 8 [0xf0; 0x0f; 0x01] 24 = Panic /\
  set_bit 8 [0xf0; 0x0f; 0x01] 3 true = Ret [0xf8; 0x0f; 0x01] /\
  set_bit 8 [0xf0; 0x0f; 0x01] 16 false = Ret [0xf0; 0x0f; 0x00] /\
  set_bit 8 [0xf0; 0x0f; 0x01] 24 true = Panic /\
  power_of_two 8 3 23 = Ret [0; 0; 0x80] /\ power_of_two 8 3 24 = Panic.
Proof. vm_compute. repeat split; reflexivity. Qed.
Example C06_ex_pow2 :
  U_is_power_of_two [0; 0x10; 0] = true /\ U_is_power_of_two [0xf0; 0x0f; 0x01] = false /\
  I_is_power_of_two 8 [0; 0; 0x80] = false /\ U_is_power_of_two [0; 0; 0x80] = true /\
  U_checked_next_power_of_two 8 [0xf0; 0x0f; 0x01] = Ret (Some [0; 0; 0x02]) /\
  U_checked_next_power_of_two 8 [0; 0; 0] = Ret (Some [1; 0; 0]) /\
  U_checked_next_power_of_two 8 [1; 0; 0x80] = Ret None /\
  U_wrapping_next_power_of_two 8 [1; 0; 0x80] = Ret [0; 0; 0] /\
  U_next_power_of_two true 8 [1; 0; 0x80] = Panic /\
  next_pow2 0x010ff0 = 0x020000 /\ next_pow2 0 = 1 /\ next_pow2 0x800001 = 0x1000000.
Proof. vm_compute. repeat split; reflexivity. Qed.
Example C06_ex_rev :
  swap_bytes 8 [0xf0; 0x0f; 0x01] = [0x01; 0x0f; 0xf0] /\
  reverse_bits 8 [0xf0; 0x0f; 0x01] = [0x80; 0xf0; 0x0f] /\
  swap_bytes 16 [0x1234; 0xabcd] = [0xcdab; 0x3412].
Proof. vm_compute. repeat split; reflexivity. Qed.
Example C06_ex_is_zero_one : is_zero [0; 0; 0] = true /\ is_one [1; 0; 0] = true /\ is_one [1; 0; 1] = false.
Proof. vm_compute. repeat split; reflexivity. Qed.

(* ---- tie to the source: the digit-wise logic, comparison and bit-counting loops REGENERATED from
   /repo/src/buint/const_trait_fillers.rs and /repo/src/buint/mod.rs on every run (Generated/Loops.v,
   tools/rs2v_loops.py; control-flow vocabulary Model/Imp.v) compute exactly the model's functions: with an
   iteration budget of at least N they neither panic nor run out of budget. ---- *)
From Bnum.Model Require Import Imp.
From Bnum.Generated Require Import Loops.
From Bnum.Proofs Require Import LoopsTieC06.
Theorem C06_loops_rs_match_model w : 0 < w ->
  (forall n a b fuel, wf w n a -> wf w n b -> (n <= fuel)%nat ->
     Loops.bitand w (Z.of_nat n) fuel a b = Done (bitand a b)) /\
  (forall n a b fuel, wf w n a -> wf w n b -> (n <= fuel)%nat ->
     Loops.bitor w (Z.of_nat n) fuel a b = Done (bitor a b)) /\
  (forall n a b fuel, wf w n a -> wf w n b -> (n <= fuel)%nat ->
     Loops.bitxor w (Z.of_nat n) fuel a b = Done (bitxor a b)) /\
  (forall n a fuel, wf w n a -> (n <= fuel)%nat ->
     Loops.not_ w (Z.of_nat n) fuel a = Done (bitnot w a)) /\
  (forall n a b fuel, wf w n a -> wf w n b -> (n <= fuel)%nat ->
     Loops.eq_ w (Z.of_nat n) fuel a b = Done (eq_digits a b)) /\
  (forall n a b fuel, wf w n a -> wf w n b -> (n <= fuel)%nat ->
     Loops.cmp w (Z.of_nat n) fuel a b = Done (ucmp a b)) /\
  (forall n a fuel, wf w n a -> (n <= fuel)%nat ->
     Loops.count_ones w (Z.of_nat n) fuel a = Done (count_ones a)) /\
  (forall n a fuel, wf w n a -> (n <= fuel)%nat ->
     Loops.count_zeros w (Z.of_nat n) fuel a = Done (count_zeros w a)) /\
  (forall n a fuel, wf w n a -> (n <= fuel)%nat ->
     Loops.leading_zeros w (Z.of_nat n) fuel a = Done (leading_zeros w a)) /\
  (forall n a fuel, wf w n a -> (n <= fuel)%nat ->
     Loops.trailing_zeros w (Z.of_nat n) fuel a = Done (trailing_zeros w a)) /\
  (forall n a fuel, wf w n a -> (n <= fuel)%nat ->
     Loops.leading_ones w (Z.of_nat n) fuel a = Done (leading_ones w a)) /\
  (forall n a fuel, wf w n a -> (n <= fuel)%nat ->
     Loops.trailing_ones w (Z.of_nat n) fuel a = Done (trailing_ones w a)) /\
  (forall n a fuel, wf w n a -> (n <= fuel)%nat ->
     Loops.is_power_of_two w (Z.of_nat n) fuel a = Done (U_is_power_of_two a)) /\
  (forall n a fuel, wf w n a -> (n <= fuel)%nat ->
     Loops.is_zero w (Z.of_nat n) fuel a = Done (is_zero a)) /\
  (forall n a fuel, wf w n a -> (n <= fuel)%nat ->
     Loops.is_one w (Z.of_nat n) fuel a = Done (is_one a)).
Proof. exact (loops_C06_match_model w). Qed.
Print Assumptions C06_loops_rs_match_model.
(* ==== glue tie, round 2 (text written by tools/mk_gluetie.py; keep at the END of the file) ==== *)
(* ---- tie to the source, second round: the non-loop functions (bits, bit, the bit counts of BInt, swap_bytes / reverse_bits of BInt, is_power_of_two, (checked_)next_power_of_two, is_zero / is_one, cast_signed / cast_unsigned, BInt bitand / bitor / bitxor / not) REGENERATED from /repo/src on every run
   (Generated/Glue.v, tools/rs2v_glue.py) are the model's, function by function, for every digit width, digit count,
   build mode and operand (no well-formedness hypothesis): an edit of the source that changes what one of these
   functions computes or delegates to breaks this theorem ---- *)
From Bnum.Model Require Import Digit Core Shift AddSub Mul Div Bits Pow.
From Bnum.Model Require Ops NumTraits.
From Bnum.Generated Require Import Glue.
From Bnum.Proofs Require Import GlueTieCommon GlueTieC06.
Theorem C06_glue_rs_matches_model :
  (forall w a, Glue.U_bits w a = bits_of w a) /\
  (forall dbg w a, Glue.U_next_power_of_two dbg w a = U_next_power_of_two dbg w a) /\
  (forall w a, Glue.U_cast_signed w a = a) /\
  (forall w a, Glue.I_count_ones w a = count_ones a) /\
  (forall w a, Glue.I_count_zeros w a = count_zeros w a) /\
  (forall w a, Glue.I_leading_zeros w a = leading_zeros w a) /\
  (forall w a, Glue.I_trailing_zeros w a = trailing_zeros w a) /\
  (forall w a, Glue.I_leading_ones w a = leading_ones w a) /\
  (forall w a, Glue.I_trailing_ones w a = trailing_ones w a) /\
  (forall w a, Glue.I_cast_unsigned w a = a) /\
  (forall w a, Glue.I_swap_bytes w a = swap_bytes w a) /\
  (forall w a, Glue.I_reverse_bits w a = reverse_bits w a) /\
  (forall w a, Glue.I_is_power_of_two w a = I_is_power_of_two w a) /\
  (forall w a, Glue.I_bits w a = bits_of w a) /\
  (forall w a k, Glue.I_bit w a k = bit w a k) /\
  (forall w a, Glue.I_is_zero w a = is_zero a) /\
  (forall w a, Glue.I_is_one w a = is_one a) /\
  (forall w a, Glue.U_checked_next_power_of_two w a = U_checked_next_power_of_two w a) /\
  (forall w a b, Glue.I_bitand w a b = bitand a b) /\
  (forall w a b, Glue.I_bitor w a b = bitor a b) /\
  (forall w a b, Glue.I_bitxor w a b = bitxor a b) /\
  (forall w a, Glue.I_not w a = bitnot w a).
Proof. exact glue_bits_matches_model. Qed.
Print Assumptions C06_glue_rs_matches_model.
(* ---- second batch: the array read / write functions of /repo/src/buint/mod.rs without loops (from_digit, digits,
   from_digits, bit, set_bit, power_of_two), bits() and src/buint/checked.rs checked_next_power_of_two, regenerated on every run like the loop functions, compute exactly the model's
   functions; where the model returns `outcome` (the Rust index panic), Panicked corresponds to Panic.  The digit width is
   a power of two (`index >> BIT_SHIFT`, `index & BITS_MINUS_1`); from_digit indexes digit 0: N > 0.
   (`set_bit(&mut self, ..)`: the generated function returns the updated *self.) ---- *)
From Bnum.Model Require Convert.
From Bnum.Proofs Require Import LoopsTieC06b.
Theorem C06_loops2_rs_match_model w lg : 0 <= lg -> w = 2 ^ lg ->
  (forall n d fuel, (0 < n)%nat -> Loops.from_digit w (Z.of_nat n) fuel d = Done (from_digit n d)) /\
  (forall n a fuel, Loops.digits w n fuel a = Done (Convert.digits a)) /\
  (forall n a fuel, Loops.from_digits w n fuel a = Done (Convert.from_digits a)) /\
  (forall n a index fuel, wf w n a -> 0 <= index ->
     Loops.bit w (Z.of_nat n) fuel a index = match Bits.bit w a index with Ret b => Done b | Panic => Panicked end) /\
  (forall n a index value fuel, wf w n a -> 0 <= index ->
     Loops.set_bit w (Z.of_nat n) fuel a index value =
     match Bits.set_bit w a index value with Ret r => Done r | Panic => Panicked end) /\
  (forall n power fuel, 0 <= power ->
     Loops.power_of_two w (Z.of_nat n) fuel power =
     match Bits.power_of_two w n power with Ret r => Done r | Panic => Panicked end) /\
  (forall n a fuel, wf w n a -> (n <= fuel)%nat -> Loops.bits w (Z.of_nat n) fuel a = Done (Bits.bits_of w a)) /\
  (forall n a fuel, wf w n a -> (n <= fuel)%nat ->
     Loops.checked_next_power_of_two w (Z.of_nat n) fuel a =
     match Bits.U_checked_next_power_of_two w a with Ret o => Done o | Panic => Panicked end).
Proof. exact (loops_C06b_match_model w lg). Qed.
Print Assumptions C06_loops2_rs_match_model.

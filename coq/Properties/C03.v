(* Properties/C03.v — "Division and remainder satisfy n = q*d + r with the documented rounding".
   Every theorem is closed by `exact <lemma>`; the lemmas live in Proofs/Div*.v, Proofs/SignedAux.v.
   All statements hold for EVERY digit width w > 0 and every digit count n (signed forms: n >= 1);
   no power-of-two or w >= 2 side condition was needed.

   Vocabulary (transparent definitions from the Proofs files):
     URet w n o v   := exists r, o = Ret r /\ wf w n r /\ uval w r = v      (SignedAux)
     SRet w n o v   := exists r, o = Ret r /\ wf w n r /\ sval w r = v      (SignedAux)
     min_neg_one w n a b := sval w a = -(Mod w n / 2) /\ sval w b = -1       (DivSigned)   "MIN / -1"
     erem SA SB := SA mod Z.abs SB ;  ediv SA SB := (SA - erem SA SB) / SB    (DivSigned)   Euclidean pair
     next_mult A Bv := ((A + Bv - 1) / Bv) * Bv                               (DivUnsignedWrap)
     snext SA SB    := SA if SB | SA, else SA + (SB - erem) for SB > 0, SA - erem for SB < 0 (DivSigned)
     U_div_rem_spec w := the full functional specification of U_div_rem_unchecked (DivSpec)
   Z.quot / Z.rem are truncated division, `/` and `mod` are Coq's floor division. *)
From Bnum Require Import Base Prim.
From Bnum.Model Require Import Digit Core Shift AddSub Mul Div.
From Bnum.Proofs Require Import DivAux DivValue DivSpec DivDigit DivKnuth Div SignedAux DivUnsignedWrap DivSigned DivFinal.

(* ================= 1. division by one digit ================= *)

Theorem C03_div_rem_wide : forall w low high rhs q r,
  0 <= w -> 0 <= low < B w -> 0 <= high < rhs -> rhs <= B w ->
  div_rem_wide w low high rhs = (q, r) ->
  low + B w * high = q * rhs + r /\ 0 <= r < rhs /\ 0 <= q < B w.
Proof. exact div_rem_wide_ok. Qed.
Print Assumptions C03_div_rem_wide.

Theorem C03_div_rem_digit : forall w n a d, 0 < w -> wf w n a -> 0 < d < B w ->
  wf w n (fst (div_rem_digit w a d)) /\
  uval w a = uval w (fst (div_rem_digit w a d)) * d + snd (div_rem_digit w a d) /\
  0 <= snd (div_rem_digit w a d) < d.
Proof. exact div_rem_digit_ok. Qed.
Print Assumptions C03_div_rem_digit.

(* ================= 2. unsigned div_rem_unchecked (all dispatch paths incl. Knuth D) ================= *)

(* the quotient-digit estimate of Knuth D, on values (Proofs/DivValue.v) *)
Theorem C03_knuth_qhat_estimate : forall Bw S wl vl u0 u1 u2 v1 v2 q,
  0 < Bw -> 1 <= S -> 0 <= wl < S -> 0 <= vl < S ->
  0 <= u0 < v1 -> 0 <= u1 < Bw -> 0 <= u2 < Bw -> 0 <= v2 < Bw -> v1 < Bw -> Bw <= 2 * v1 ->
  let t := u0 * Bw + u1 in
  let W := wl + S * (u2 + Bw * t) in
  let V := vl + S * (v2 + Bw * v1) in
  0 <= q -> q * V <= W -> W < (q + 1) * V ->
  q <= qhat_calc Bw t u2 v1 v2 <= q + 1.
Proof. exact qhat_calc_ok. Qed.
Print Assumptions C03_knuth_qhat_estimate.

Theorem C03_knuth_qhat_max : forall Bw S wl vl u0 u1 u2 v1 v2 q,
  2 <= Bw -> 1 <= S -> 0 <= wl < S -> 0 <= vl < S ->
  v1 <= u0 -> 0 <= u1 < Bw -> 0 <= u2 < Bw -> 0 <= v2 < Bw -> 0 < v1 < Bw -> Bw <= 2 * v1 ->
  let t := u0 * Bw + u1 in
  let W := wl + S * (u2 + Bw * t) in
  let V := vl + S * (v2 + Bw * v1) in
  W < V * Bw ->
  0 <= q -> q * V <= W -> W < (q + 1) * V ->
  q <= Bw - 1 <= q + 1.
Proof. exact qhat_max_ok. Qed.
Print Assumptions C03_knuth_qhat_max.

Theorem C03_U_div_rem_unchecked : forall w n a b, 0 < w -> wf w n a -> wf w n b -> uval w b <> 0 ->
  wf w n (fst (U_div_rem_unchecked w a b)) /\
  wf w n (snd (U_div_rem_unchecked w a b)) /\
  uval w a = uval w (fst (U_div_rem_unchecked w a b)) * uval w b + uval w (snd (U_div_rem_unchecked w a b)) /\
  0 <= uval w (snd (U_div_rem_unchecked w a b)) < uval w b.
Proof. exact U_div_rem_unchecked_ok'. Qed.
Print Assumptions C03_U_div_rem_unchecked.

Theorem C03_U_div_rem_spec : forall w, 0 < w -> U_div_rem_spec w.
Proof. exact U_div_rem_unchecked_ok. Qed.
Print Assumptions C03_U_div_rem_spec.

Theorem C03_U_div_rem_unchecked_values : forall w, 0 <= w -> U_div_rem_spec w ->
  forall n a b, wf w n a -> wf w n b -> uval w b <> 0 ->
    uval w (fst (U_div_rem_unchecked w a b)) = uval w a / uval w b /\
    uval w (snd (U_div_rem_unchecked w a b)) = uval w a mod uval w b.
Proof. exact U_div_rem_spec_div. Qed.
Print Assumptions C03_U_div_rem_unchecked_values.

(* ================= 3. the API forms (unsigned, then signed) ================= *)

Theorem C03_U_div_rem_ok : forall w n a b,
  0 < w -> wf w n a -> wf w n b ->
  (uval w b = 0 -> U_div_rem w a b = Panic) /\
  (uval w b <> 0 -> exists q r, U_div_rem w a b = Ret (q, r) /\ wf w n q /\ wf w n r /\
     uval w q = uval w a / uval w b /\ uval w r = uval w a mod uval w b /\
     uval w a = uval w q * uval w b + uval w r /\ 0 <= uval w r < uval w b).
Proof. exact U_div_rem_ok_closed. Qed.
Print Assumptions C03_U_div_rem_ok.

Theorem C03_U_checked_div_ok : forall w n a b,
  0 < w -> wf w n a -> wf w n b ->
  (uval w b = 0 -> U_checked_div w a b = None) /\
  (uval w b <> 0 -> exists q, U_checked_div w a b = Some q /\ wf w n q /\
     uval w q = uval w a / uval w b).
Proof. exact U_checked_div_ok_closed. Qed.
Print Assumptions C03_U_checked_div_ok.

Theorem C03_U_checked_rem_ok : forall w n a b,
  0 < w -> wf w n a -> wf w n b ->
  (uval w b = 0 -> U_checked_rem w a b = None) /\
  (uval w b <> 0 -> exists r, U_checked_rem w a b = Some r /\ wf w n r /\
     uval w r = uval w a mod uval w b).
Proof. exact U_checked_rem_ok_closed. Qed.
Print Assumptions C03_U_checked_rem_ok.

Theorem C03_U_checked_div_euclid_ok : forall w n a b,
  0 < w -> wf w n a -> wf w n b ->
  (uval w b = 0 -> U_checked_div_euclid w a b = None) /\
  (uval w b <> 0 -> exists q, U_checked_div_euclid w a b = Some q /\ wf w n q /\
     uval w q = uval w a / uval w b).
Proof. exact U_checked_div_euclid_ok_closed. Qed.
Print Assumptions C03_U_checked_div_euclid_ok.

Theorem C03_U_checked_rem_euclid_ok : forall w n a b,
  0 < w -> wf w n a -> wf w n b ->
  (uval w b = 0 -> U_checked_rem_euclid w a b = None) /\
  (uval w b <> 0 -> exists r, U_checked_rem_euclid w a b = Some r /\ wf w n r /\
     uval w r = uval w a mod uval w b).
Proof. exact U_checked_rem_euclid_ok_closed. Qed.
Print Assumptions C03_U_checked_rem_euclid_ok.

Theorem C03_U_wrapping_div_ok : forall w n a b,
  0 < w -> wf w n a -> wf w n b ->
  (uval w b = 0 -> U_wrapping_div w a b = Panic) /\
  (uval w b <> 0 -> URet w n (U_wrapping_div w a b) (uval w a / uval w b)).
Proof. exact U_wrapping_div_ok_closed. Qed.
Print Assumptions C03_U_wrapping_div_ok.

Theorem C03_U_wrapping_rem_ok : forall w n a b,
  0 < w -> wf w n a -> wf w n b ->
  (uval w b = 0 -> U_wrapping_rem w a b = Panic) /\
  (uval w b <> 0 -> URet w n (U_wrapping_rem w a b) (uval w a mod uval w b)).
Proof. exact U_wrapping_rem_ok_closed. Qed.
Print Assumptions C03_U_wrapping_rem_ok.

Theorem C03_U_wrapping_div_euclid_ok : forall w n a b,
  0 < w -> wf w n a -> wf w n b ->
  (uval w b = 0 -> U_wrapping_div_euclid w a b = Panic) /\
  (uval w b <> 0 -> URet w n (U_wrapping_div_euclid w a b) (uval w a / uval w b)).
Proof. exact U_wrapping_div_euclid_ok_closed. Qed.
Print Assumptions C03_U_wrapping_div_euclid_ok.

Theorem C03_U_wrapping_rem_euclid_ok : forall w n a b,
  0 < w -> wf w n a -> wf w n b ->
  (uval w b = 0 -> U_wrapping_rem_euclid w a b = Panic) /\
  (uval w b <> 0 -> URet w n (U_wrapping_rem_euclid w a b) (uval w a mod uval w b)).
Proof. exact U_wrapping_rem_euclid_ok_closed. Qed.
Print Assumptions C03_U_wrapping_rem_euclid_ok.

Theorem C03_U_div_ok : forall w n a b,
  0 < w -> wf w n a -> wf w n b ->
  (uval w b = 0 -> U_div w a b = Panic) /\
  (uval w b <> 0 -> URet w n (U_div w a b) (uval w a / uval w b)).
Proof. exact U_div_ok_closed. Qed.
Print Assumptions C03_U_div_ok.

Theorem C03_U_rem_ok : forall w n a b,
  0 < w -> wf w n a -> wf w n b ->
  (uval w b = 0 -> U_rem w a b = Panic) /\
  (uval w b <> 0 -> URet w n (U_rem w a b) (uval w a mod uval w b)).
Proof. exact U_rem_ok_closed. Qed.
Print Assumptions C03_U_rem_ok.

Theorem C03_U_div_euclid_ok : forall w n a b,
  0 < w -> wf w n a -> wf w n b ->
  (uval w b = 0 -> U_div_euclid w a b = Panic) /\
  (uval w b <> 0 -> URet w n (U_div_euclid w a b) (uval w a / uval w b)).
Proof. exact U_div_euclid_ok_closed. Qed.
Print Assumptions C03_U_div_euclid_ok.

Theorem C03_U_rem_euclid_ok : forall w n a b,
  0 < w -> wf w n a -> wf w n b ->
  (uval w b = 0 -> U_rem_euclid w a b = Panic) /\
  (uval w b <> 0 -> URet w n (U_rem_euclid w a b) (uval w a mod uval w b)).
Proof. exact U_rem_euclid_ok_closed. Qed.
Print Assumptions C03_U_rem_euclid_ok.

Theorem C03_U_saturating_div_ok : forall w n a b,
  0 < w -> wf w n a -> wf w n b ->
  (uval w b = 0 -> U_saturating_div w a b = Panic) /\
  (uval w b <> 0 -> URet w n (U_saturating_div w a b) (uval w a / uval w b)).
Proof. exact U_saturating_div_ok_closed. Qed.
Print Assumptions C03_U_saturating_div_ok.

Theorem C03_U_strict_div_ok : forall w n a b,
  0 < w -> wf w n a -> wf w n b ->
  (uval w b = 0 -> U_strict_div w a b = Panic) /\
  (uval w b <> 0 -> URet w n (U_strict_div w a b) (uval w a / uval w b)).
Proof. exact U_strict_div_ok_closed. Qed.
Print Assumptions C03_U_strict_div_ok.

Theorem C03_U_strict_rem_ok : forall w n a b,
  0 < w -> wf w n a -> wf w n b ->
  (uval w b = 0 -> U_strict_rem w a b = Panic) /\
  (uval w b <> 0 -> URet w n (U_strict_rem w a b) (uval w a mod uval w b)).
Proof. exact U_strict_rem_ok_closed. Qed.
Print Assumptions C03_U_strict_rem_ok.

Theorem C03_U_div_floor_ok : forall w n a b,
  0 < w -> wf w n a -> wf w n b ->
  (uval w b = 0 -> U_div_floor w a b = Panic) /\
  (uval w b <> 0 -> URet w n (U_div_floor w a b) (uval w a / uval w b)).
Proof. exact U_div_floor_ok_closed. Qed.
Print Assumptions C03_U_div_floor_ok.

Theorem C03_U_overflowing_div_ok : forall w n a b,
  0 < w -> wf w n a -> wf w n b ->
  (uval w b = 0 -> U_overflowing_div w a b = Panic) /\
  (uval w b <> 0 -> exists q, U_overflowing_div w a b = Ret (q, false) /\ wf w n q /\
     uval w q = uval w a / uval w b).
Proof. exact U_overflowing_div_ok_closed. Qed.
Print Assumptions C03_U_overflowing_div_ok.

Theorem C03_U_overflowing_rem_ok : forall w n a b,
  0 < w -> wf w n a -> wf w n b ->
  (uval w b = 0 -> U_overflowing_rem w a b = Panic) /\
  (uval w b <> 0 -> exists r, U_overflowing_rem w a b = Ret (r, false) /\ wf w n r /\
     uval w r = uval w a mod uval w b).
Proof. exact U_overflowing_rem_ok_closed. Qed.
Print Assumptions C03_U_overflowing_rem_ok.

Theorem C03_U_overflowing_div_euclid_ok : forall w n a b,
  0 < w -> wf w n a -> wf w n b ->
  (uval w b = 0 -> U_overflowing_div_euclid w a b = Panic) /\
  (uval w b <> 0 -> exists q, U_overflowing_div_euclid w a b = Ret (q, false) /\ wf w n q /\
     uval w q = uval w a / uval w b).
Proof. exact U_overflowing_div_euclid_ok_closed. Qed.
Print Assumptions C03_U_overflowing_div_euclid_ok.

Theorem C03_U_overflowing_rem_euclid_ok : forall w n a b,
  0 < w -> wf w n a -> wf w n b ->
  (uval w b = 0 -> U_overflowing_rem_euclid w a b = Panic) /\
  (uval w b <> 0 -> exists r, U_overflowing_rem_euclid w a b = Ret (r, false) /\ wf w n r /\
     uval w r = uval w a mod uval w b).
Proof. exact U_overflowing_rem_euclid_ok_closed. Qed.
Print Assumptions C03_U_overflowing_rem_euclid_ok.

Theorem C03_U_div_ceil_ok : forall dbg w n a b,
  0 < w -> wf w n a -> wf w n b ->
  (uval w b = 0 -> U_div_ceil dbg w a b = Panic) /\
  (uval w b <> 0 -> URet w n (U_div_ceil dbg w a b) ((uval w a + uval w b - 1) / uval w b)).
Proof. exact U_div_ceil_ok_closed. Qed.
Print Assumptions C03_U_div_ceil_ok.

Theorem C03_U_next_multiple_of_ok : forall dbg w n a b,
  0 < w -> wf w n a -> wf w n b ->
  (uval w b = 0 -> U_next_multiple_of dbg w a b = Panic) /\
  (uval w b <> 0 -> next_mult (uval w a) (uval w b) < Mod w n ->
     URet w n (U_next_multiple_of dbg w a b) (next_mult (uval w a) (uval w b))) /\
  (uval w b <> 0 -> Mod w n <= next_mult (uval w a) (uval w b) ->
     if dbg then U_next_multiple_of dbg w a b = Panic
     else URet w n (U_next_multiple_of dbg w a b) (next_mult (uval w a) (uval w b) mod Mod w n)).
Proof. exact U_next_multiple_of_ok_closed. Qed.
Print Assumptions C03_U_next_multiple_of_ok.

Theorem C03_U_checked_next_multiple_of_ok : forall dbg w n a b,
  0 < w -> wf w n a -> wf w n b ->
  (uval w b = 0 -> U_checked_next_multiple_of dbg w a b = Ret None) /\
  (uval w b <> 0 -> next_mult (uval w a) (uval w b) < Mod w n ->
     exists r, U_checked_next_multiple_of dbg w a b = Ret (Some r) /\ wf w n r /\
       uval w r = next_mult (uval w a) (uval w b)) /\
  (uval w b <> 0 -> Mod w n <= next_mult (uval w a) (uval w b) ->
     U_checked_next_multiple_of dbg w a b = Ret None).
Proof. exact U_checked_next_multiple_of_ok_closed. Qed.
Print Assumptions C03_U_checked_next_multiple_of_ok.

Theorem C03_I_div_rem_unchecked_ok : forall dbg w n a b,
  0 < w -> (0 < n)%nat -> wf w n a -> wf w n b ->
  sval w b <> 0 -> ~ min_neg_one w n a b ->
  exists q r, I_div_rem_unchecked dbg w a b = Ret (q, r) /\ wf w n q /\ wf w n r /\
    sval w q = Z.quot (sval w a) (sval w b) /\ sval w r = Z.rem (sval w a) (sval w b).
Proof. exact I_div_rem_unchecked_ok_closed. Qed.
Print Assumptions C03_I_div_rem_unchecked_ok.

Theorem C03_I_div_rem_unchecked_min_neg_one : forall dbg w n a b,
  0 < w -> (0 < n)%nat -> wf w n a -> wf w n b -> min_neg_one w n a b ->
  exists q r, I_div_rem_unchecked dbg w a b = Ret (q, r) /\ wf w n q /\ wf w n r /\
    sval w q = - (Mod w n / 2) /\ sval w r = 0.
Proof. exact I_div_rem_unchecked_min_neg_one_closed. Qed.
Print Assumptions C03_I_div_rem_unchecked_min_neg_one.

Theorem C03_I_overflowing_div_ok : forall dbg w n a b,
  0 < w -> (0 < n)%nat -> wf w n a -> wf w n b ->
  (sval w b = 0 -> I_overflowing_div dbg w a b = Panic) /\
  (min_neg_one w n a b -> I_overflowing_div dbg w a b = Ret (a, true)) /\
  (sval w b <> 0 -> ~ min_neg_one w n a b ->
     exists q, I_overflowing_div dbg w a b = Ret (q, false) /\ wf w n q /\
       sval w q = Z.quot (sval w a) (sval w b)).
Proof. exact I_overflowing_div_ok_closed. Qed.
Print Assumptions C03_I_overflowing_div_ok.

Theorem C03_I_overflowing_rem_ok : forall dbg w n a b,
  0 < w -> (0 < n)%nat -> wf w n a -> wf w n b ->
  (sval w b = 0 -> I_overflowing_rem dbg w a b = Panic) /\
  (min_neg_one w n a b -> I_overflowing_rem dbg w a b = Ret (ZERO n, true)) /\
  (sval w b <> 0 -> ~ min_neg_one w n a b ->
     exists r, I_overflowing_rem dbg w a b = Ret (r, false) /\ wf w n r /\
       sval w r = Z.rem (sval w a) (sval w b)).
Proof. exact I_overflowing_rem_ok_closed. Qed.
Print Assumptions C03_I_overflowing_rem_ok.

Theorem C03_I_div_ok : forall dbg w n a b,
  0 < w -> (0 < n)%nat -> wf w n a -> wf w n b ->
  (sval w b = 0 \/ min_neg_one w n a b -> I_div dbg w a b = Panic) /\
  (sval w b <> 0 -> ~ min_neg_one w n a b ->
     SRet w n (I_div dbg w a b) (Z.quot (sval w a) (sval w b))).
Proof. exact I_div_ok_closed. Qed.
Print Assumptions C03_I_div_ok.

Theorem C03_I_rem_ok : forall dbg w n a b,
  0 < w -> (0 < n)%nat -> wf w n a -> wf w n b ->
  (sval w b = 0 \/ min_neg_one w n a b -> I_rem dbg w a b = Panic) /\
  (sval w b <> 0 -> ~ min_neg_one w n a b ->
     SRet w n (I_rem dbg w a b) (Z.rem (sval w a) (sval w b))).
Proof. exact I_rem_ok_closed. Qed.
Print Assumptions C03_I_rem_ok.

Theorem C03_I_strict_div_ok : forall dbg w n a b,
  0 < w -> (0 < n)%nat -> wf w n a -> wf w n b ->
  (sval w b = 0 \/ min_neg_one w n a b -> I_strict_div dbg w a b = Panic) /\
  (sval w b <> 0 -> ~ min_neg_one w n a b ->
     SRet w n (I_strict_div dbg w a b) (Z.quot (sval w a) (sval w b))).
Proof. exact I_strict_div_ok_closed. Qed.
Print Assumptions C03_I_strict_div_ok.

Theorem C03_I_strict_rem_ok : forall dbg w n a b,
  0 < w -> (0 < n)%nat -> wf w n a -> wf w n b ->
  (sval w b = 0 \/ min_neg_one w n a b -> I_strict_rem dbg w a b = Panic) /\
  (sval w b <> 0 -> ~ min_neg_one w n a b ->
     SRet w n (I_strict_rem dbg w a b) (Z.rem (sval w a) (sval w b))).
Proof. exact I_strict_rem_ok_closed. Qed.
Print Assumptions C03_I_strict_rem_ok.

Theorem C03_I_overflowing_div_euclid_ok : forall dbg w n a b,
  0 < w -> (0 < n)%nat -> wf w n a -> wf w n b ->
  (sval w b = 0 -> I_overflowing_div_euclid dbg w a b = Panic) /\
  (min_neg_one w n a b -> I_overflowing_div_euclid dbg w a b = Ret (a, true)) /\
  (sval w b <> 0 -> ~ min_neg_one w n a b ->
     exists q, I_overflowing_div_euclid dbg w a b = Ret (q, false) /\ wf w n q /\
       sval w q = ediv (sval w a) (sval w b)).
Proof. exact I_overflowing_div_euclid_ok_closed. Qed.
Print Assumptions C03_I_overflowing_div_euclid_ok.

Theorem C03_I_overflowing_rem_euclid_ok : forall dbg w n a b,
  0 < w -> (0 < n)%nat -> wf w n a -> wf w n b ->
  (sval w b = 0 -> I_overflowing_rem_euclid dbg w a b = Panic) /\
  (min_neg_one w n a b -> I_overflowing_rem_euclid dbg w a b = Ret (ZERO n, true)) /\
  (sval w b <> 0 -> ~ min_neg_one w n a b ->
     exists r, I_overflowing_rem_euclid dbg w a b = Ret (r, false) /\ wf w n r /\
       sval w r = erem (sval w a) (sval w b)).
Proof. exact I_overflowing_rem_euclid_ok_closed. Qed.
Print Assumptions C03_I_overflowing_rem_euclid_ok.

Theorem C03_I_checked_div_ok : forall dbg w n a b,
  0 < w -> (0 < n)%nat -> wf w n a -> wf w n b ->
  (sval w b = 0 \/ min_neg_one w n a b -> I_checked_div dbg w a b = Ret None) /\
  (sval w b <> 0 -> ~ min_neg_one w n a b ->
     exists x, I_checked_div dbg w a b = Ret (Some x) /\ wf w n x /\
       sval w x = Z.quot (sval w a) (sval w b)).
Proof. exact I_checked_div_ok_closed. Qed.
Print Assumptions C03_I_checked_div_ok.

Theorem C03_I_checked_rem_ok : forall dbg w n a b,
  0 < w -> (0 < n)%nat -> wf w n a -> wf w n b ->
  (sval w b = 0 \/ min_neg_one w n a b -> I_checked_rem dbg w a b = Ret None) /\
  (sval w b <> 0 -> ~ min_neg_one w n a b ->
     exists x, I_checked_rem dbg w a b = Ret (Some x) /\ wf w n x /\
       sval w x = Z.rem (sval w a) (sval w b)).
Proof. exact I_checked_rem_ok_closed. Qed.
Print Assumptions C03_I_checked_rem_ok.

Theorem C03_I_checked_div_euclid_ok : forall dbg w n a b,
  0 < w -> (0 < n)%nat -> wf w n a -> wf w n b ->
  (sval w b = 0 \/ min_neg_one w n a b -> I_checked_div_euclid dbg w a b = Ret None) /\
  (sval w b <> 0 -> ~ min_neg_one w n a b ->
     exists x, I_checked_div_euclid dbg w a b = Ret (Some x) /\ wf w n x /\
       sval w x = ediv (sval w a) (sval w b)).
Proof. exact I_checked_div_euclid_ok_closed. Qed.
Print Assumptions C03_I_checked_div_euclid_ok.

Theorem C03_I_checked_rem_euclid_ok : forall dbg w n a b,
  0 < w -> (0 < n)%nat -> wf w n a -> wf w n b ->
  (sval w b = 0 \/ min_neg_one w n a b -> I_checked_rem_euclid dbg w a b = Ret None) /\
  (sval w b <> 0 -> ~ min_neg_one w n a b ->
     exists x, I_checked_rem_euclid dbg w a b = Ret (Some x) /\ wf w n x /\
       sval w x = erem (sval w a) (sval w b)).
Proof. exact I_checked_rem_euclid_ok_closed. Qed.
Print Assumptions C03_I_checked_rem_euclid_ok.

Theorem C03_I_wrapping_div_ok : forall dbg w n a b,
  0 < w -> (0 < n)%nat -> wf w n a -> wf w n b ->
  (sval w b = 0 -> I_wrapping_div dbg w a b = Panic) /\
  (min_neg_one w n a b -> SRet w n (I_wrapping_div dbg w a b) (- (Mod w n / 2))) /\
  (sval w b <> 0 -> ~ min_neg_one w n a b ->
     SRet w n (I_wrapping_div dbg w a b) (Z.quot (sval w a) (sval w b))).
Proof. exact I_wrapping_div_ok_closed. Qed.
Print Assumptions C03_I_wrapping_div_ok.

Theorem C03_I_wrapping_rem_ok : forall dbg w n a b,
  0 < w -> (0 < n)%nat -> wf w n a -> wf w n b ->
  (sval w b = 0 -> I_wrapping_rem dbg w a b = Panic) /\
  (min_neg_one w n a b -> SRet w n (I_wrapping_rem dbg w a b) 0) /\
  (sval w b <> 0 -> ~ min_neg_one w n a b ->
     SRet w n (I_wrapping_rem dbg w a b) (Z.rem (sval w a) (sval w b))).
Proof. exact I_wrapping_rem_ok_closed. Qed.
Print Assumptions C03_I_wrapping_rem_ok.

Theorem C03_I_wrapping_div_euclid_ok : forall dbg w n a b,
  0 < w -> (0 < n)%nat -> wf w n a -> wf w n b ->
  (sval w b = 0 -> I_wrapping_div_euclid dbg w a b = Panic) /\
  (min_neg_one w n a b -> SRet w n (I_wrapping_div_euclid dbg w a b) (- (Mod w n / 2))) /\
  (sval w b <> 0 -> ~ min_neg_one w n a b ->
     SRet w n (I_wrapping_div_euclid dbg w a b) (ediv (sval w a) (sval w b))).
Proof. exact I_wrapping_div_euclid_ok_closed. Qed.
Print Assumptions C03_I_wrapping_div_euclid_ok.

Theorem C03_I_wrapping_rem_euclid_ok : forall dbg w n a b,
  0 < w -> (0 < n)%nat -> wf w n a -> wf w n b ->
  (sval w b = 0 -> I_wrapping_rem_euclid dbg w a b = Panic) /\
  (min_neg_one w n a b -> SRet w n (I_wrapping_rem_euclid dbg w a b) 0) /\
  (sval w b <> 0 -> ~ min_neg_one w n a b ->
     SRet w n (I_wrapping_rem_euclid dbg w a b) (erem (sval w a) (sval w b))).
Proof. exact I_wrapping_rem_euclid_ok_closed. Qed.
Print Assumptions C03_I_wrapping_rem_euclid_ok.

Theorem C03_I_wrapping_rem_euclid_total : forall dbg w n a b,
  0 < w -> (0 < n)%nat -> wf w n a -> wf w n b -> sval w b <> 0 ->
  SRet w n (I_wrapping_rem_euclid dbg w a b) (erem (sval w a) (sval w b)).
Proof. exact I_wrapping_rem_euclid_total_closed. Qed.
Print Assumptions C03_I_wrapping_rem_euclid_total.

Theorem C03_I_saturating_div_ok : forall dbg w n a b,
  0 < w -> (0 < n)%nat -> wf w n a -> wf w n b ->
  (sval w b = 0 -> I_saturating_div dbg w a b = Panic) /\
  (min_neg_one w n a b -> I_saturating_div dbg w a b = Ret (IMAX w n)) /\
  (sval w b <> 0 -> ~ min_neg_one w n a b ->
     SRet w n (I_saturating_div dbg w a b) (Z.quot (sval w a) (sval w b))).
Proof. exact I_saturating_div_ok_closed. Qed.
Print Assumptions C03_I_saturating_div_ok.

Theorem C03_I_div_euclid_ok : forall dbg w n a b,
  0 < w -> (0 < n)%nat -> wf w n a -> wf w n b ->
  (sval w b = 0 \/ min_neg_one w n a b -> I_div_euclid dbg w a b = Panic) /\
  (sval w b <> 0 -> ~ min_neg_one w n a b ->
     SRet w n (I_div_euclid dbg w a b) (ediv (sval w a) (sval w b))).
Proof. exact I_div_euclid_ok_closed. Qed.
Print Assumptions C03_I_div_euclid_ok.

Theorem C03_I_rem_euclid_ok : forall dbg w n a b,
  0 < w -> (0 < n)%nat -> wf w n a -> wf w n b ->
  (sval w b = 0 \/ min_neg_one w n a b -> I_rem_euclid dbg w a b = Panic) /\
  (sval w b <> 0 -> ~ min_neg_one w n a b ->
     SRet w n (I_rem_euclid dbg w a b) (erem (sval w a) (sval w b))).
Proof. exact I_rem_euclid_ok_closed. Qed.
Print Assumptions C03_I_rem_euclid_ok.

Theorem C03_I_euclid_pair : forall dbg w n a b,
  0 < w -> (0 < n)%nat -> wf w n a -> wf w n b ->
  sval w b <> 0 -> ~ min_neg_one w n a b ->
  exists q r, I_div_euclid dbg w a b = Ret q /\ I_rem_euclid dbg w a b = Ret r /\
    wf w n q /\ wf w n r /\
    sval w q * sval w b + sval w r = sval w a /\ 0 <= sval w r < Z.abs (sval w b).
Proof. exact I_euclid_pair_closed. Qed.
Print Assumptions C03_I_euclid_pair.

Theorem C03_I_div_floor_ok : forall dbg w n a b,
  0 < w -> (0 < n)%nat -> wf w n a -> wf w n b ->
  (sval w b = 0 -> I_div_floor dbg w a b = Panic) /\
  (min_neg_one w n a b -> SRet w n (I_div_floor dbg w a b) (- (Mod w n / 2))) /\
  (sval w b <> 0 -> ~ min_neg_one w n a b ->
     SRet w n (I_div_floor dbg w a b) (sval w a / sval w b)).
Proof. exact I_div_floor_ok_closed. Qed.
Print Assumptions C03_I_div_floor_ok.

Theorem C03_I_div_ceil_ok : forall dbg w n a b,
  0 < w -> (0 < n)%nat -> wf w n a -> wf w n b ->
  (sval w b = 0 -> I_div_ceil dbg w a b = Panic) /\
  (min_neg_one w n a b -> SRet w n (I_div_ceil dbg w a b) (- (Mod w n / 2))) /\
  (sval w b <> 0 -> ~ min_neg_one w n a b ->
     SRet w n (I_div_ceil dbg w a b) (- ((- sval w a) / sval w b))).
Proof. exact I_div_ceil_ok_closed. Qed.
Print Assumptions C03_I_div_ceil_ok.

Theorem C03_I_next_multiple_of_ok : forall dbg w n a b,
  0 < w -> (0 < n)%nat -> wf w n a -> wf w n b ->
  (sval w b = 0 -> I_next_multiple_of dbg w a b = Panic) /\
  (sval w b <> 0 -> inS (Mod w n) (snext (sval w a) (sval w b)) = true ->
     SRet w n (I_next_multiple_of dbg w a b) (snext (sval w a) (sval w b))) /\
  (sval w b <> 0 -> inS (Mod w n) (snext (sval w a) (sval w b)) = false ->
     if dbg then I_next_multiple_of dbg w a b = Panic
     else SRet w n (I_next_multiple_of dbg w a b)
            (wrapS (Mod w n) (snext (sval w a) (sval w b)))).
Proof. exact I_next_multiple_of_ok_closed. Qed.
Print Assumptions C03_I_next_multiple_of_ok.

Theorem C03_I_checked_next_multiple_of_ok : forall dbg w n a b,
  0 < w -> (0 < n)%nat -> wf w n a -> wf w n b ->
  (sval w b = 0 -> I_checked_next_multiple_of dbg w a b = Ret None) /\
  (sval w b <> 0 -> inS (Mod w n) (snext (sval w a) (sval w b)) = true ->
     exists r, I_checked_next_multiple_of dbg w a b = Ret (Some r) /\ wf w n r /\
       sval w r = snext (sval w a) (sval w b)) /\
  (sval w b <> 0 -> inS (Mod w n) (snext (sval w a) (sval w b)) = false ->
     I_checked_next_multiple_of dbg w a b = Ret None).
Proof. exact I_checked_next_multiple_of_ok_closed. Qed.
Print Assumptions C03_I_checked_next_multiple_of_ok.

Theorem C03_I_checked_zero_divisor : forall dbg w n a b,
  0 < w -> (0 < n)%nat -> wf w n a -> wf w n b -> sval w b = 0 ->
  I_checked_div dbg w a b = Ret None /\
  I_checked_rem dbg w a b = Ret None /\
  I_checked_div_euclid dbg w a b = Ret None /\
  I_checked_rem_euclid dbg w a b = Ret None /\
  I_checked_next_multiple_of dbg w a b = Ret None.
Proof. exact I_checked_zero_divisor_closed. Qed.
Print Assumptions C03_I_checked_zero_divisor.

Theorem C03_I_zero_divisor_panics : forall dbg w n a b,
  0 < w -> (0 < n)%nat -> wf w n a -> wf w n b -> sval w b = 0 ->
  I_div dbg w a b = Panic /\ I_rem dbg w a b = Panic /\
  I_div_euclid dbg w a b = Panic /\ I_rem_euclid dbg w a b = Panic /\
  I_overflowing_div dbg w a b = Panic /\ I_overflowing_rem dbg w a b = Panic /\
  I_overflowing_div_euclid dbg w a b = Panic /\ I_overflowing_rem_euclid dbg w a b = Panic /\
  I_wrapping_div dbg w a b = Panic /\ I_wrapping_rem dbg w a b = Panic /\
  I_wrapping_div_euclid dbg w a b = Panic /\ I_wrapping_rem_euclid dbg w a b = Panic /\
  I_saturating_div dbg w a b = Panic /\
  I_div_floor dbg w a b = Panic /\ I_div_ceil dbg w a b = Panic /\
  I_next_multiple_of dbg w a b = Panic.
Proof. exact I_zero_divisor_panics_closed. Qed.
Print Assumptions C03_I_zero_divisor_panics.

Theorem C03_I_min_neg_one : forall dbg w n a b,
  0 < w -> (0 < n)%nat -> wf w n a -> wf w n b -> min_neg_one w n a b ->
  I_checked_div dbg w a b = Ret None /\
  I_checked_rem dbg w a b = Ret None /\
  I_checked_div_euclid dbg w a b = Ret None /\
  I_checked_rem_euclid dbg w a b = Ret None /\
  I_overflowing_div dbg w a b = Ret (a, true) /\
  I_overflowing_div_euclid dbg w a b = Ret (a, true) /\
  I_overflowing_rem dbg w a b = Ret (ZERO n, true) /\
  I_overflowing_rem_euclid dbg w a b = Ret (ZERO n, true) /\
  sval w a = - (Mod w n / 2) /\ sval w (ZERO n) = 0 /\
  I_wrapping_div dbg w a b = Ret a /\
  I_wrapping_div_euclid dbg w a b = Ret a /\
  I_wrapping_rem dbg w a b = Ret (ZERO n) /\
  I_wrapping_rem_euclid dbg w a b = Ret (ZERO n) /\
  I_saturating_div dbg w a b = Ret (IMAX w n) /\ sval w (IMAX w n) = Mod w n / 2 - 1 /\
  I_div dbg w a b = Panic /\ I_rem dbg w a b = Panic /\
  I_div_euclid dbg w a b = Panic /\ I_rem_euclid dbg w a b = Panic /\
  SRet w n (I_div_floor dbg w a b) (- (Mod w n / 2)) /\
  SRet w n (I_div_ceil dbg w a b) (- (Mod w n / 2)) /\
  I_next_multiple_of dbg w a b = Ret a /\
  I_checked_next_multiple_of dbg w a b = Ret (Some a).
Proof. exact I_min_neg_one_closed. Qed.
Print Assumptions C03_I_min_neg_one.

(* ================= characterisations of the targets used above ================= *)

Theorem C03_next_mult_least : forall A Bv, 0 <= A -> 0 < Bv ->
  (exists k, next_mult A Bv = k * Bv) /\ A <= next_mult A Bv /\
  (forall k, A <= k * Bv -> next_mult A Bv <= k * Bv).
Proof. exact next_mult_least. Qed.
Print Assumptions C03_next_mult_least.

Theorem C03_snext_pos : forall SA SB, 0 < SB ->
  (exists k, snext SA SB = k * SB) /\ SA <= snext SA SB /\
  (forall k, SA <= k * SB -> snext SA SB <= k * SB).
Proof. exact snext_char_pos. Qed.
Print Assumptions C03_snext_pos.

Theorem C03_snext_neg : forall SA SB, SB < 0 ->
  (exists k, snext SA SB = k * SB) /\ snext SA SB <= SA /\
  (forall k, k * SB <= SA -> k * SB <= snext SA SB).
Proof. exact snext_char_neg. Qed.
Print Assumptions C03_snext_neg.

Theorem C03_euclid_spec : forall SA SB, SB <> 0 ->
  ediv SA SB * SB + erem SA SB = SA /\ 0 <= erem SA SB < Z.abs SB.
Proof. exact euclid_spec. Qed.
Print Assumptions C03_euclid_spec.

Theorem C03_euclid_unique : forall SA SB q r, SB <> 0 -> SA = q * SB + r -> 0 <= r < Z.abs SB ->
  q = ediv SA SB /\ r = erem SA SB.
Proof. exact euclid_unique. Qed.
Print Assumptions C03_euclid_unique.

Theorem C03_ceil_char : forall SA SB, SB <> 0 ->
  let c := - ((- SA) / SB) in
  (0 < SB -> (c - 1) * SB < SA <= c * SB) /\ (SB < 0 -> c * SB <= SA < (c - 1) * SB).
Proof. exact ceil_char. Qed.
Print Assumptions C03_ceil_char.

(* ================= examples: the hypotheses are satisfiable, every Knuth D branch is exercised ================= *)

Example ex_div_rem_digit : div_rem_digit 8 [0x34; 0x12; 0xFF] 7 = ([80; 112; 36], 4) /\
  wfb 8 3 [0x34; 0x12; 0xFF] = true.
Proof. vm_compute. split; reflexivity. Qed.

(* dispatch: a < b, a = b, one-digit divisor *)
Example ex_dispatch :
  U_div_rem_unchecked 8 [1; 2; 0] [0; 0; 1] = ([0; 0; 0], [1; 2; 0]) /\
  U_div_rem_unchecked 8 [1; 2; 3] [1; 2; 3] = ([1; 0; 0], [0; 0; 0]) /\
  U_div_rem_unchecked 8 [1; 2; 3] [10; 0; 0] = ([0; 77; 0], [1; 0; 0]).
Proof. vm_compute. repeat split. Qed.

(* Knuth D, normalisation shift 5, two quotient digits *)
Example ex_knuth_shift :
  let a := [0xFF; 0xFF; 0xFF; 0xFF] in let b := [0x34; 0x12; 0x05; 0] in
  U_div_rem_unchecked 8 a b = ([123; 50; 0; 0], [3; 25; 2; 0]) /\
  uval 8 a = uval 8 [123; 50; 0; 0] * uval 8 b + uval 8 [3; 25; 2; 0] /\
  wfb 8 4 a = true /\ wfb 8 4 b = true /\ u_leading_zeros 8 0x05 = 5.
Proof. vm_compute. repeat split. Qed.

(* no correction, no add-back *)
Example ex_knuth_plain :
  let a := [197; 100; 194; 45] in let b := [68; 32; 193; 0] in
  fst (U_div_rem_unchecked 8 a b) = [60; 0; 0; 0] /\ uval 8 (snd (U_div_rem_unchecked 8 a b)) = 8312021 /\
  knuth_qhat 8 (Remainder_new 8 a 0) 0 3 193 32 = 60.
Proof. vm_compute. repeat split. Qed.

(* one and two corrections of the estimate *)
Example ex_knuth_corrections :
  fst (U_div_rem_unchecked 8 [17; 164; 121; 129] [224; 253; 187; 0]) = [176; 0; 0; 0] /\
  (121 + 129 * 256) / 187 = 177 /\
  fst (U_div_rem_unchecked 8 [61; 64; 163; 137] [105; 218; 142; 0]) = [246; 0; 0; 0] /\
  (163 + 137 * 256) / 142 = 248.
Proof. vm_compute. repeat split. Qed.

(* add-back: the corrected estimate 49 is still one too large, Remainder_sub borrows *)
Example ex_knuth_addback :
  let a := [31; 80; 202; 34] in let b := [241; 194; 181; 0] in
  let u := Remainder_new 8 a 0 in
  U_div_rem_unchecked 8 a b = ([48; 0; 0; 0], [239; 194; 181; 0]) /\
  knuth_qhat 8 u 0 3 181 194 = 49 /\
  snd (Remainder_sub 8 u (Mul_new 8 b 49) 0 3) = true /\
  uval 8 a = 48 * uval 8 b + uval 8 [239; 194; 181; 0].
Proof. vm_compute. repeat split. Qed.

(* the branch u_jn >= v_{n-1}: estimate B-1, exact in the first case, add-back in the second *)
Example ex_knuth_qhat_max :
  fst (U_div_rem_unchecked 8 [8; 173; 162; 182] [136; 251; 182; 0]) = [255; 0; 0; 0] /\
  knuth_qhat 8 [8; 173; 162; 182; 0] 0 3 182 251 = 255 /\
  fst (U_div_rem_unchecked 8 [61; 197; 57; 131] [187; 255; 131; 0]) = [254; 0; 0; 0] /\
  knuth_qhat 8 [61; 197; 57; 131; 0] 0 3 131 255 = 255.
Proof. vm_compute. repeat split. Qed.

(* signed: truncation, Euclid, floor, ceil on -7 / 2 and the MIN / -1 behaviour (w = 8, n = 1) *)
Example ex_signed :
  I_div true 8 [249] [2] = Ret [253] /\ I_rem true 8 [249] [2] = Ret [255] /\
  I_div_euclid true 8 [249] [2] = Ret [252] /\ I_rem_euclid true 8 [249] [2] = Ret [1] /\
  I_div_floor true 8 [249] [2] = Ret [252] /\ I_div_ceil true 8 [249] [2] = Ret [253] /\
  I_div true 8 [128] [255] = Panic /\ I_div false 8 [128] [255] = Panic /\
  I_checked_div true 8 [128] [255] = Ret None /\
  I_overflowing_div false 8 [128] [255] = Ret ([128], true) /\
  I_overflowing_rem false 8 [128] [255] = Ret ([0], true) /\
  I_saturating_div true 8 [128] [255] = Ret [127] /\
  I_checked_div true 8 [5] [0] = Ret None /\ I_div false 8 [5] [0] = Panic /\
  I_div_floor true 8 [128] [255] = Ret [128].
Proof. vm_compute. repeat split. Qed.

(* ---- tie to the source: the digit primitives REGENERATED from /repo/src/digit.rs on every run
   (Generated/DigitGen.v, tools/rs2v_digit.py) are the model's digit primitives, for every digit width ---- *)
From Bnum.Model Require Import DigitPrims Digit.
From Bnum.Generated Require Import DigitGen.
From Bnum.Proofs Require Import DigitTie.
Theorem C03_digit_rs_matches_model w : 0 < w ->
  (forall low high, digit_ok w low -> digit_ok w high -> DigitGen.to_double_digit w low high = to_double_digit w low high) /\
  (forall a b c, DigitGen.carrying_add w a b c = carrying_add w a b c) /\
  (forall a b c, DigitGen.borrowing_sub w a b c = borrowing_sub w a b c) /\
  (forall a b c, DigitGen.carrying_add_signed w a b c = carrying_add_signed w a b c) /\
  (forall a b c, DigitGen.borrowing_sub_signed w a b c = borrowing_sub_signed w a b c) /\
  (forall a b, digit_ok w a -> digit_ok w b -> DigitGen.widening_mul w a b = widening_mul w a b) /\
  (forall a b c d, digit_ok w a -> digit_ok w b -> digit_ok w c -> digit_ok w d ->
                   DigitGen.carrying_mul w a b c d = carrying_mul w a b c d) /\
  (forall low high rhs, digit_ok w low -> digit_ok w high -> DigitGen.div_rem_wide w low high rhs = div_rem_wide w low high rhs).
Proof. exact (digit_rs_matches_model w). Qed.
Print Assumptions C03_digit_rs_matches_model.

(* ---- tie to the source: the glue layer (div / rem families) REGENERATED from /repo/src on every run
   (Generated/Glue.v, tools/rs2v_glue.py) is the model's, function by function, for every digit width, digit count,
   build mode and operand (no well-formedness hypothesis): an edit of the source that changes what one of these
   one-line functions delegates to breaks this theorem ---- *)
From Bnum.Model Require Import Digit Core Shift AddSub Mul Div Bits Pow.
From Bnum.Generated Require Import Glue.
From Bnum.Proofs Require Import GlueTieCommon GlueTieC03.
Theorem C03_glue_rs_matches_model :
  (forall w a b, Glue.U_div_rem w a b = U_div_rem w a b) /\
  (forall w a b, Glue.U_checked_div w a b = U_checked_div w a b) /\
  (forall w a b, Glue.U_checked_div_euclid w a b = U_checked_div_euclid w a b) /\
  (forall w a b, Glue.U_checked_rem w a b = U_checked_rem w a b) /\
  (forall w a b, Glue.U_checked_rem_euclid w a b = U_checked_rem_euclid w a b) /\
  (forall w a b, Glue.U_wrapping_div w a b = U_wrapping_div w a b) /\
  (forall w a b, Glue.U_wrapping_div_euclid w a b = U_wrapping_div_euclid w a b) /\
  (forall w a b, Glue.U_wrapping_rem w a b = U_wrapping_rem w a b) /\
  (forall w a b, Glue.U_wrapping_rem_euclid w a b = U_wrapping_rem_euclid w a b) /\
  (forall w a b, Glue.U_saturating_div w a b = U_saturating_div w a b) /\
  (forall w a b, Glue.U_strict_div w a b = U_strict_div w a b) /\
  (forall w a b, Glue.U_strict_div_euclid w a b = U_div_euclid w a b) /\
  (forall w a b, Glue.U_strict_rem w a b = U_strict_rem w a b) /\
  (forall w a b, Glue.U_strict_rem_euclid w a b = U_rem_euclid w a b) /\
  (forall dbg w a b, Glue.I_strict_div dbg w a b = I_strict_div dbg w a b) /\
  (forall dbg w a b, Glue.I_strict_div_euclid dbg w a b = I_div_euclid dbg w a b) /\
  (forall dbg w a b, Glue.I_strict_rem dbg w a b = I_strict_rem dbg w a b) /\
  (forall dbg w a b, Glue.I_strict_rem_euclid dbg w a b = I_rem_euclid dbg w a b) /\
  (forall dbg w a b, Glue.I_checked_div dbg w a b = I_checked_div dbg w a b) /\
  (forall dbg w a b, Glue.I_checked_div_euclid dbg w a b = I_checked_div_euclid dbg w a b) /\
  (forall dbg w a b, Glue.I_checked_rem dbg w a b = I_checked_rem dbg w a b) /\
  (forall dbg w a b, Glue.I_checked_rem_euclid dbg w a b = I_checked_rem_euclid dbg w a b) /\
  (forall dbg w a b, Glue.I_wrapping_div dbg w a b = I_wrapping_div dbg w a b) /\
  (forall dbg w a b, Glue.I_wrapping_div_euclid dbg w a b = I_wrapping_div_euclid dbg w a b) /\
  (forall dbg w a b, Glue.I_wrapping_rem dbg w a b = I_wrapping_rem dbg w a b) /\
  (forall dbg w a b, Glue.I_wrapping_rem_euclid dbg w a b = I_wrapping_rem_euclid dbg w a b) /\
  (forall dbg w a b, Glue.I_saturating_div dbg w a b = I_saturating_div dbg w a b) /\
  (forall w a b, Glue.U_overflowing_div w a b = U_overflowing_div w a b) /\
  (forall w a b, Glue.U_overflowing_div_euclid w a b = U_overflowing_div_euclid w a b) /\
  (forall w a b, Glue.U_overflowing_rem w a b = U_overflowing_rem w a b) /\
  (forall w a b, Glue.U_overflowing_rem_euclid w a b = U_overflowing_rem_euclid w a b) /\
  (forall dbg w a b, Glue.I_overflowing_rem dbg w a b = I_overflowing_rem dbg w a b).
Proof. exact glue_div_matches_model. Qed.
Print Assumptions C03_glue_rs_matches_model.
(* ---- tie to the source: div_rem_digit and last_digit_index REGENERATED from /repo/src/buint/checked.rs and
   /repo/src/buint/mod.rs on every run (Generated/Loops.v, tools/rs2v_loops.py; control-flow vocabulary Model/Imp.v)
   compute exactly the model's functions: with an iteration budget of at least N they neither panic nor run out of
   budget. ---- *)
From Bnum.Model Require Import Imp.
From Bnum.Generated Require Import Loops.
From Bnum.Proofs Require Import LoopsTieDiv.
Theorem C03_loops_rs_match_model w : 0 < w ->
  (forall n a rhs fuel, wf w n a -> (n <= fuel)%nat ->
     Loops.div_rem_digit w (Z.of_nat n) fuel a rhs = Done (Div.div_rem_digit w a rhs)) /\
  (forall n a fuel, wf w n a -> (n <= fuel)%nat ->
     Loops.last_digit_index w (Z.of_nat n) fuel a = Done (Z.of_nat (Div.last_digit_index a))).
Proof. exact (loops_Div_match_model w). Qed.
Print Assumptions C03_loops_rs_match_model.

(* ---- tie to the source: Knuth's Algorithm D.  basecase_div_rem, with the structs Remainder / Mul, their methods and the
   fn tuple_gt nested in its body, REGENERATED from /repo/src/buint/div.rs on every run (Generated/DivGen.v,
   tools/rs2v_div.py; control-flow vocabulary Model/Imp.v + Model/ImpDiv.v) computes exactly the model's
   basecase_div_rem: with an iteration budget of at least N + 1 it neither panics (index out of bounds, usize / digit
   subtraction below zero, digit shift by >= the width) nor runs out of budget.  The hypotheses are structural only
   (digit n-1 of the divisor non-zero, 2 <= n, the dividend has at least n significant digits); the second statement
   instantiates them at the one call site, div_rem_unchecked's `Ordering::Greater` / `ldi != 0` branch. ---- *)
From Bnum.Generated Require Import DivGen.
From Bnum.Proofs Require Import DivGenTie.
Theorem C03_knuth_rs_matches_model : forall w N a v n,
  0 < w -> wf w N a -> wf w N v -> (2 <= n)%nat ->
  (n <= Div.last_digit_index a + 1)%nat -> Div.nth_d (n - 1) v <> 0 ->
  forall fuel, (S N <= fuel)%nat ->
  DivGen.basecase_div_rem w (Z.of_nat N) fuel a v (Z.of_nat n) = Done (Div.basecase_div_rem w a v n).
Proof. exact divgen_basecase. Qed.
Print Assumptions C03_knuth_rs_matches_model.

Theorem C03_knuth_rs_matches_model_at_call_site : forall w N a b,
  0 < w -> wf w N a -> wf w N b -> ucmp a b = Gt -> Div.last_digit_index b <> 0%nat ->
  forall fuel, (S N <= fuel)%nat ->
  DivGen.basecase_div_rem w (Z.of_nat N) fuel a b (Z.of_nat (Div.last_digit_index b + 1)) =
  Done (Div.basecase_div_rem w a b (Div.last_digit_index b + 1)).
Proof. exact divgen_basecase_callsite. Qed.
Print Assumptions C03_knuth_rs_matches_model_at_call_site.
(* ==== glue tie, round 2 (text written by tools/mk_gluetie.py; keep at the END of the file) ==== *)
(* ---- tie to the source, second round: the non-loop functions (div_euclid, rem_euclid, div_floor, div_ceil, next_multiple_of, checked_next_multiple_of; bint div_rem_unchecked, overflowing_div, overflowing_div_euclid, overflowing_rem_euclid; the inherent div / rem of const_trait_fillers.rs) REGENERATED from /repo/src on every run
   (Generated/Glue.v, tools/rs2v_glue.py) are the model's, function by function, for every digit width, digit count,
   build mode and operand (no well-formedness hypothesis): an edit of the source that changes what one of these
   functions computes or delegates to breaks this theorem ---- *)
From Bnum.Model Require Import Digit Core Shift AddSub Mul Div Bits Pow.
From Bnum.Model Require Ops NumTraits.
From Bnum.Generated Require Import Glue.
From Bnum.Proofs Require Import GlueTieCommon GlueTieC03.
Theorem C03_glue2_rs_matches_model :
  (forall w a b, Glue.U_div_euclid w a b = U_div_euclid w a b) /\
  (forall w a b, Glue.U_rem_euclid w a b = U_rem_euclid w a b) /\
  (forall dbg w a b, Glue.U_next_multiple_of dbg w a b = U_next_multiple_of dbg w a b) /\
  (forall w a b, Glue.U_div_floor w a b = U_div_floor w a b) /\
  (forall dbg w a b, Glue.U_div_ceil dbg w a b = U_div_ceil dbg w a b) /\
  (forall dbg w a b, Glue.I_div_euclid dbg w a b = I_div_euclid dbg w a b) /\
  (forall dbg w a b, Glue.I_rem_euclid dbg w a b = I_rem_euclid dbg w a b) /\
  (forall dbg w a b, Glue.I_next_multiple_of dbg w a b = I_next_multiple_of dbg w a b) /\
  (forall dbg w a b, Glue.I_div_floor dbg w a b = I_div_floor dbg w a b) /\
  (forall dbg w a b, Glue.I_div_ceil dbg w a b = I_div_ceil dbg w a b) /\
  (forall dbg w a b, Glue.U_checked_next_multiple_of dbg w a b = U_checked_next_multiple_of dbg w a b) /\
  (forall dbg w a b, Glue.I_checked_next_multiple_of dbg w a b = I_checked_next_multiple_of dbg w a b) /\
  (forall dbg w a b, Glue.I_div_rem_unchecked dbg w a b = I_div_rem_unchecked dbg w a b) /\
  (forall dbg w a b, Glue.I_overflowing_div dbg w a b = I_overflowing_div dbg w a b) /\
  (forall dbg w a b, Glue.I_overflowing_div_euclid dbg w a b = I_overflowing_div_euclid dbg w a b) /\
  (forall dbg w a b, Glue.I_overflowing_rem_euclid dbg w a b = I_overflowing_rem_euclid dbg w a b) /\
  (forall w a b, Glue.U_div w a b = U_div w a b) /\
  (forall w a b, Glue.U_rem w a b = U_rem w a b) /\
  (forall dbg w a b, Glue.I_div dbg w a b = I_div dbg w a b) /\
  (forall dbg w a b, Glue.I_rem dbg w a b = I_rem dbg w a b).
Proof. exact glue_div2_matches_model. Qed.
Print Assumptions C03_glue2_rs_matches_model.
(* ---- checked_next_multiple_of of /repo/src/buint/checked.rs, regenerated on every run, computes exactly the model's
   U_checked_next_multiple_of (`rem.is_zero()` is the translated loop; checked_rem, the inherent sub and checked_add are
   calls of the model's functions; a panic of `rhs.sub(rem)` - impossible, rem < rhs - would be Panicked). ---- *)
From Bnum.Proofs Require Import LoopsTieC03b.
Theorem C03_loops2_rs_match_model dbg w : 0 < w ->
  forall n a b fuel, wf w n a -> wf w n b -> (n <= fuel)%nat ->
  Loops.checked_next_multiple_of dbg w (Z.of_nat n) fuel a b =
  match U_checked_next_multiple_of dbg w a b with Ret o => Done o | Panic => Panicked end.
Proof. exact (loops_C03b_match_model dbg w). Qed.
Print Assumptions C03_loops2_rs_match_model.

From Bnum Require Import Base Prim.
From Bnum.Model Require Import Core Cast Convert.
From Bnum.Proofs Require Import Convert.
Theorem C13_from_digits_id : forall a, from_digits a = a.
Proof. exact from_digits_id. Qed.
Print Assumptions C13_from_digits_id.

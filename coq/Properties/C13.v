(* Properties/C13.v — C13: checked conversions succeed exactly when the value is representable.
   Model: Model/Convert.v (reusing Model/Cast.v for every `cast_from`; tied to /repo by ./check C13).
   Proofs: Proofs/Convert.v (uses C09 Proofs/Cast.v and C06 Proofs/Bits.v — no premises).
   Notation: (w, n) source digit width / count, (w', n') target; (pb, ps) a primitive's BITS / signedness;
   source_value signed w a = sval w a | uval w a;  prim_range pb ps v : v is a value of the primitive type;
   representable dst_signed w' n' v : v is a value of the (w', n') bnum type of that signedness.
   Results: Ret (Ok x) = Ok(x), Ret Err = Err(TryFromIntError), Panic = a Rust panic.
   Side condition `pb < w \/ (w | pb)` (digit wider than the primitive, or its width divides the primitive's) and
   `(w' | w) \/ (w | w')` hold for all of Rust's widths (powers of two): *_pow2_* corollaries. *)
From Bnum Require Import Base Prim.
From Bnum.Model Require Import Core Cast Convert.
From Bnum.Proofs Require Import CastLemmas Cast Convert.

(* --- tryfrom_prim: TryFrom<BUint|BInt> for every primitive integer (both code branches) --- *)

Theorem C13_try_to_prim_ok : forall dbg pb ps w n src_signed a,
  0 < w -> 0 < pb -> (0 < n)%nat -> pb < w \/ (w | pb) -> wf w n a ->
  try_to_prim dbg pb ps w src_signed a =
  Ret (if prim_inb pb ps (source_value src_signed w a) then Ok (source_value src_signed w a) else Err).
Proof. exact try_to_prim_ok. Qed.
Print Assumptions C13_try_to_prim_ok.

Theorem C13_prim_inb_spec : forall pb ps v, prim_inb pb ps v = true <-> prim_range pb ps v.
Proof. exact prim_inb_spec. Qed.
Print Assumptions C13_prim_inb_spec.

Theorem C13_try_to_prim_in_range : forall dbg pb ps w n src_signed a,
  0 < w -> 0 < pb -> (0 < n)%nat -> pb < w \/ (w | pb) -> wf w n a ->
  prim_range pb ps (source_value src_signed w a) ->
  try_to_prim dbg pb ps w src_signed a = Ret (Ok (source_value src_signed w a)).
Proof. exact try_to_prim_in_range. Qed.
Print Assumptions C13_try_to_prim_in_range.

Theorem C13_try_to_prim_out_of_range : forall dbg pb ps w n src_signed a,
  0 < w -> 0 < pb -> (0 < n)%nat -> pb < w \/ (w | pb) -> wf w n a ->
  ~ prim_range pb ps (source_value src_signed w a) ->
  try_to_prim dbg pb ps w src_signed a = Ret Err.
Proof. exact try_to_prim_out_of_range. Qed.
Print Assumptions C13_try_to_prim_out_of_range.

Theorem C13_try_to_prim_pow2_ok : forall dbg kp ps k n src_signed a,
  0 <= k -> 0 <= kp -> (0 < n)%nat -> wf (2 ^ k) n a ->
  try_to_prim dbg (2 ^ kp) ps (2 ^ k) src_signed a =
  Ret (if prim_inb (2 ^ kp) ps (source_value src_signed (2 ^ k) a)
       then Ok (source_value src_signed (2 ^ k) a) else Err).
Proof. exact try_to_prim_pow2_ok. Qed.
Print Assumptions C13_try_to_prim_pow2_ok.

Theorem C13_try_to_prim_total : forall dbg pb ps w n src_signed a,
  0 < w -> 0 < pb -> (0 < n)%nat -> pb < w \/ (w | pb) -> wf w n a ->
  try_to_prim dbg pb ps w src_signed a <> Panic.
Proof. exact try_to_prim_total. Qed.
Print Assumptions C13_try_to_prim_total.

(* --- btry_from: BTryFrom between any two configurations (w n s) -> (w' n' s') --- *)

Theorem C13_btry_from_ok : forall dbg w n w' n' src_signed dst_signed a,
  0 < w -> 0 < w' -> (0 < n)%nat -> (0 < n')%nat -> (w' | w) \/ (w | w') -> wf w n a ->
  (representable dst_signed w' n' (source_value src_signed w a) ->
     exists r, btry_from dbg w w' n' src_signed dst_signed a = Ret (Ok r) /\ wf w' n' r /\
               cast dbg w w' n' src_signed dst_signed a = Ret r /\
               source_value dst_signed w' r = source_value src_signed w a) /\
  (~ representable dst_signed w' n' (source_value src_signed w a) ->
     btry_from dbg w w' n' src_signed dst_signed a = Ret Err).
Proof. exact btry_from_ok. Qed.
Print Assumptions C13_btry_from_ok.

Theorem C13_btry_from_pow2_ok : forall dbg k n k' n' src_signed dst_signed a,
  0 <= k -> 0 <= k' -> (0 < n)%nat -> (0 < n')%nat -> wf (2 ^ k) n a ->
  (representable dst_signed (2 ^ k') n' (source_value src_signed (2 ^ k) a) ->
     exists r, btry_from dbg (2 ^ k) (2 ^ k') n' src_signed dst_signed a = Ret (Ok r) /\ wf (2 ^ k') n' r /\
               cast dbg (2 ^ k) (2 ^ k') n' src_signed dst_signed a = Ret r /\
               source_value dst_signed (2 ^ k') r = source_value src_signed (2 ^ k) a) /\
  (~ representable dst_signed (2 ^ k') n' (source_value src_signed (2 ^ k) a) ->
     btry_from dbg (2 ^ k) (2 ^ k') n' src_signed dst_signed a = Ret Err).
Proof. exact btry_from_pow2_ok. Qed.
Print Assumptions C13_btry_from_pow2_ok.

(* the decision, as a boolean test on the value *)
Theorem C13_btry_from_decide : forall dbg w n w' n' ss dsg a,
  0 < w -> 0 < w' -> (0 < n)%nat -> (0 < n')%nat -> wf w n a ->
  btry_from dbg w w' n' ss dsg a =
  if rep_inb dsg w' n' (source_value ss w a) then ok_cast dbg w w' n' ss dsg a else Ret Err.
Proof. exact btry_from_decide. Qed.
Print Assumptions C13_btry_from_decide.

Theorem C13_rep_inb_spec : forall dsg w' n' v, rep_inb dsg w' n' v = true <-> representable dsg w' n' v.
Proof. exact rep_inb_spec. Qed.
Print Assumptions C13_rep_inb_spec.

Theorem C13_btry_from_total : forall dbg w n w' n' src_signed dst_signed a,
  0 < w -> 0 < w' -> (0 < n)%nat -> (0 < n')%nat -> (w' | w) \/ (w | w') -> wf w n a ->
  btry_from dbg w w' n' src_signed dst_signed a <> Panic.
Proof. exact btry_from_total. Qed.
Print Assumptions C13_btry_from_total.

(* a target at least as wide (strictly wider from unsigned to signed): always Ok with the same value *)
Theorem C13_btry_from_widening : forall dbg w n w' n' (src_signed dst_signed : bool) a,
  0 < w -> 0 < w' -> (0 < n)%nat -> (0 < n')%nat -> (w' | w) \/ (w | w') -> wf w n a ->
  (if src_signed then (if dst_signed then bits w n <= bits w' n' else False)
   else (if dst_signed then bits w n < bits w' n' else bits w n <= bits w' n')) ->
  exists r, btry_from dbg w w' n' src_signed dst_signed a = Ret (Ok r) /\ wf w' n' r /\
            source_value dst_signed w' r = source_value src_signed w a.
Proof. exact btry_from_widening. Qed.
Print Assumptions C13_btry_from_widening.

(* --- from_prim: From<uN> for BUint / BInt, TryFrom<iN> for BUint, From<iN> for BInt --- *)

Theorem C13_conv_from_prim_ok : forall dbg pb ps w n (dst_signed : bool) v,
  0 < w -> 0 < pb -> (0 < n)%nat -> prim_range pb ps v -> representable dst_signed w n v ->
  (ps = true -> dst_signed = true -> pb <= bits w n) ->
  exists r, conv_from_prim dbg pb ps w n dst_signed v = Ret (Ok r) /\ wf w n r /\
            source_value dst_signed w r = v.
Proof. exact conv_from_prim_ok. Qed.
Print Assumptions C13_conv_from_prim_ok.

Theorem C13_try_from_iint_err_iff : forall dbg pb w n v,
  conv_from_prim dbg pb true w n false v = Ret Err <-> v < 0.
Proof. exact try_from_iint_err_iff. Qed.
Print Assumptions C13_try_from_iint_err_iff.

Theorem C13_conv_from_prim_total : forall dbg pb ps w n dst_signed v,
  0 < w -> 0 < pb -> prim_range pb ps v -> pb <= bits w n ->
  conv_from_prim dbg pb ps w n dst_signed v <> Panic.
Proof. exact conv_from_prim_total. Qed.
Print Assumptions C13_conv_from_prim_total.

(* --- bool, char --- *)

Theorem C13_conv_from_bool_ok : forall w n (dst_signed b : bool), 0 < w -> (0 < n)%nat ->
  representable dst_signed w n (if b then 1 else 0) ->
  let r := if dst_signed then I_conv_from_bool n b else U_conv_from_bool n b in
  wf w n r /\ source_value dst_signed w r = if b then 1 else 0.
Proof. exact conv_from_bool_ok. Qed.
Print Assumptions C13_conv_from_bool_ok.

Theorem C13_bool_representable : forall w n (dst_signed b : bool), 0 < w -> (0 < n)%nat ->
  (dst_signed = true -> 2 <= bits w n) -> representable dst_signed w n (if b then 1 else 0).
Proof. exact bool_representable. Qed.
Print Assumptions C13_bool_representable.

Theorem C13_conv_from_char_ok : forall w n c, 0 < w -> (0 < n)%nat -> 0 <= c < 1114112 -> c < Mod w n ->
  exists r, U_conv_from_char w n c = Ret r /\ wf w n r /\ uval w r = c.
Proof. exact conv_from_char_ok. Qed.
Print Assumptions C13_conv_from_char_ok.

Theorem C13_conv_from_char_total : forall w n c, 0 < w -> 0 <= c < 1114112 -> U_conv_from_char w n c <> Panic.
Proof. exact conv_from_char_total. Qed.
Print Assumptions C13_conv_from_char_total.

(* --- digits_id: from_digits / digits / From<[Digit; N]> / From<BUint> for [Digit; N]; from_digit --- *)

Theorem C13_digits_id : forall a,
  from_digits a = a /\ digits a = a /\ from_array a = a /\ into_array a = a /\
  digits (from_digits a) = a /\ digits (from_array a) = a /\ into_array (from_digits a) = a.
Proof. exact digits_id. Qed.
Print Assumptions C13_digits_id.

Theorem C13_from_digit_ok : forall w n d, 0 < w -> (0 < n)%nat -> digit_ok w d ->
  wf w n (from_digit n d) /\ uval w (from_digit n d) = d /\
  nth 0 (from_digit n d) 0 = d /\ (forall i, (0 < i)%nat -> nth i (from_digit n d) 0 = 0).
Proof. exact from_digit_ok. Qed.
Print Assumptions C13_from_digit_ok.

(* --- the hypotheses are satisfiable; the statements say what one expects on concrete inputs --- *)

Example C13_ex_wf : wf 16 3 [65408; 65535; 65535].
Proof. apply wfb_wf. reflexivity. Qed.

Example C13_ex_side_conditions : (8 < 16 \/ (16 | 8)) /\ (64 < 16 \/ (16 | 64)) /\ ((8 | 64) \/ (64 | 8)).
Proof. split; [left; lia | split; [right; exists 4; reflexivity | left; exists 8; reflexivity]]. Qed.

Example C13_ex_prim_range : prim_range 8 true (-128) /\ ~ prim_range 8 true (-129) /\ prim_range 64 false (2 ^ 64 - 1).
Proof. unfold prim_range. cbv. repeat split; try congruence. intros [H _]. apply H. reflexivity. Qed.

Example C13_ex_representable : representable true 8 2 (-32768) /\ ~ representable true 8 2 32768 /\ representable false 8 2 65535.
Proof. unfold representable. cbv. repeat split; try congruence. intros [_ H]. discriminate H. Qed.

(* BIntD16<3> -> i8, the `Digit::BITS > int::BITS` branch: i8::MIN fits, i8::MIN - 1 does not *)
Example C13_ex_to_i8_min : try_to_prim true 8 true 16 true [65408; 65535; 65535] = Ret (Ok (-128)).
Proof. vm_compute. reflexivity. Qed.
Example C13_ex_to_i8_min_minus_1 : try_to_prim true 8 true 16 true [65407; 65535; 65535] = Ret Err.
Proof. vm_compute. reflexivity. Qed.
(* the sign digit agrees but one padding digit does not *)
Example C13_ex_to_i8_bad_padding : try_to_prim true 8 true 16 true [65408; 65534; 65535] = Ret Err.
Proof. vm_compute. reflexivity. Qed.
(* BUintD8<3> -> u16 (loop branch): u16::MAX fits, u16::MAX + 1 does not *)
Example C13_ex_to_u16 : try_to_prim true 16 false 8 false [255; 255; 0] = Ret (Ok 65535) /\
                        try_to_prim true 16 false 8 false [0; 0; 1] = Ret Err.
Proof. split; vm_compute; reflexivity. Qed.
(* BIntD8<3> -> BIntD16<1>: MIN of the target fits (and is sign-packed), MIN - 1 does not *)
Example C13_ex_btry : btry_from true 8 16 1 true true [0; 128; 255] = Ret (Ok [32768]) /\
                      btry_from true 8 16 1 true true [255; 127; 255] = Ret Err.
Proof. split; vm_compute; reflexivity. Qed.
Example C13_ex_try_from_i8 : conv_from_prim true 8 true 64 1 false (-1) = Ret Err /\
                             conv_from_prim true 8 true 64 1 false 127 = Ret (Ok [127]).
Proof. split; vm_compute; reflexivity. Qed.
(* the README limitation (outside the property): From<u64> for a 64-bit BInt wraps, From<u16> for BUintD8<1> and
   From<i64> for a 16-bit BInt index past the array *)
Example C13_ex_limitation : conv_from_prim true 64 false 64 1 true (2 ^ 64 - 1) = Ret (Ok [2 ^ 64 - 1]) /\
                            conv_from_prim true 16 false 8 1 false 256 = Panic /\
                            conv_from_prim true 64 true 8 2 true 0 = Panic.
Proof. repeat split; vm_compute; reflexivity. Qed.
(* ---- tie to the source: the loop of from_uint! (`impl From<$uint> for $BUint<N>`, /repo/src/buint/convert.rs; $uint = u8 ..
   u128, usize: every instantiation is checked to be an unsigned primitive) REGENERATED on every run (Generated/Loops.v,
   tools/rs2v_loops.py; pb = $uint::BITS) computes exactly the model's U_from_uint, for both values of the model's debug flag
   and a budget of at least pb iterations: `int >> (i << BIT_SHIFT)` never shifts by pb or more; the one possible panic (a
   non-zero digit stored beyond index N - 1) is the model's Panic. ---- *)
From Bnum.Model Require Import Imp.
From Bnum.Generated Require Import Loops.
From Bnum.Proofs Require Import LoopsTieC13.
Theorem C13_loops_rs_match_model dbg w lg : 0 <= lg -> w = 2 ^ lg ->
  forall n pb int fuel, 0 < pb -> (Z.to_nat pb <= fuel)%nat ->
  Loops.from_uint w (Z.of_nat n) fuel pb int =
  match Convert.U_from_uint dbg pb w n int with Ret r => Done r | Panic => Panicked end.
Proof. exact (loops_C13_match_model dbg w lg). Qed.
Print Assumptions C13_loops_rs_match_model.
(* ---- tie to the source, bnum -> primitive (TryFrom): try_from_buint! of /repo/src/buint/convert.rs (`impl TryFrom<$BUint<N>> for
   $int`, $int = every primitive integer type), int_try_from_bint! (`impl TryFrom<$BInt<N>> for $int`, signed $int only: ps = true)
   and uint_try_from_bint! (`impl TryFrom<$BInt<N>> for $uint`, unsigned only: ps = false) of /repo/src/bint/convert.rs
   (pb = <$int>::BITS, ps = signedness, instantiation lists checked; the accumulator handled as its pb-bit pattern, vocabulary
   Model/ImpConv.v), REGENERATED on every run (Generated/ConvGen.v, tools/rs2v_conv.py), compute exactly the model's
   U_try_to_prim / I_try_to_iprim / I_try_to_uprim - both branches of `$Digit::BITS > <$int>::BITS`, the `loop { .. break }`s, the
   sign tests and the scan of the remaining digits - for both values of the model's overflow-check flag, every power-of-two
   digit width and a budget > N (one unit to reach the `break`). ---- *)
From Bnum.Generated Require Import ConvGen.
From Bnum.Proofs Require Import ConvGenTieC13.
Theorem C13_conv_rs_matches_model dbg w lg : 0 <= lg -> w = 2 ^ lg ->
  forall n pb ds fuel, 0 < pb -> length ds = n -> (S n <= fuel)%nat ->
  (forall ps, ConvGen.try_from_buint w (Z.of_nat n) fuel pb ps ds =
     match Convert.U_try_to_prim dbg pb ps w ds with Ret r => Done r | Panic => Panicked end) /\
  ConvGen.int_try_from_bint w (Z.of_nat n) fuel pb true ds =
    match Convert.I_try_to_iprim dbg pb w ds with Ret r => Done r | Panic => Panicked end /\
  ConvGen.uint_try_from_bint w (Z.of_nat n) fuel pb false ds =
    match Convert.I_try_to_uprim dbg pb w ds with Ret r => Done r | Panic => Panicked end.
Proof. exact (conv_C13_match_model dbg w lg). Qed.
Print Assumptions C13_conv_rs_matches_model.
(* ---- tie to the source, primitive -> bnum (From / TryFrom): from_int! (`impl From<$int> for $BInt<N>`, signed $int) and from_uint!
   (`impl From<$from> for $BInt<N>`, unsigned) of /repo/src/bint/convert.rs and try_from_iint! (`impl TryFrom<$int> for $BUint<N>`,
   pairs iN -> uN of the same width) of /repo/src/buint/convert.rs, REGENERATED on every run (Generated/ConvGen.v,
   tools/rs2v_conv.py; pb = <$int>::BITS, the parameter handled as its value), compute exactly the model's I_from_iint / I_from_uint
   / U_try_from_iint for both values of the debug flag; `$BUint::from(..)` inside the last two is the model's U_from_uint, whose
   own tie is C13_loops_rs_match_model above. ---- *)
Theorem C13_conv_from_rs_matches_model dbg w lg : 0 <= lg -> w = 2 ^ lg ->
  forall n pb int fuel, 0 < pb -> (Z.to_nat pb <= fuel)%nat ->
  ConvGen.bint_from_int w (Z.of_nat n) fuel pb int =
    match Convert.I_from_iint dbg pb w n int with Ret r => Done r | Panic => Panicked end /\
  ConvGen.bint_from_uint dbg w (Z.of_nat n) fuel pb int =
    match Convert.I_from_uint dbg pb w n int with Ret r => Done r | Panic => Panicked end /\
  ConvGen.try_from_iint dbg w (Z.of_nat n) fuel pb int =
    match Convert.U_try_from_iint dbg pb w n int with Ret r => Done r | Panic => Panicked end.
Proof. exact (conv_C13_from_match_model dbg w lg). Qed.
Print Assumptions C13_conv_from_rs_matches_model.
(* ---- tie to the source, bnum -> bnum: the four BTryFrom macros of /repo/src/buint/convert.rs (uint_try_from_uint!, uint_try_from_int!,
   int_try_from_uint!, int_try_from_int!; source $From<$N>: digit width ow, m digits; target Self: digit width w, n digits; the invocation
   lists of mixed_try_from! are checked) and From<bool> / From<char>, REGENERATED on every run (Generated/XcastGen.v, tools/rs2v_xcast.py),
   compute exactly the model's U_btry_from_U .. I_btry_from_I / U_conv_from_bool .., for both values of the debug flag: for a well-formed
   source no ExpType subtraction underflows (`Self::BITS - 1` needs a target with at least one digit).  `Self::cast_from(from)` inside
   them is the model's Cast.cast, whose own tie is C09_xcast_rs_matches_model.  The last conjunct is the model's dispatcher
   Convert.btry_from, which the `btry_from` operation of the C13 table runs. ---- *)
From Bnum.Generated Require Import XcastGen.
From Bnum.Proofs Require Import XcastGenTieC13.
Theorem C13_xcast_rs_matches_model w ow : 0 < w -> 0 < ow ->
  (forall dbg n m from fuel, wf ow m from ->
     XcastGen.U_btry_from_U dbg w (Z.of_nat n) fuel ow (Z.of_nat m) from =
     match Convert.U_btry_from_U dbg ow from w n with Ret r => Done r | Panic => Panicked end) /\
  (forall dbg n m from fuel, wf ow m from ->
     XcastGen.U_btry_from_I dbg w (Z.of_nat n) fuel ow (Z.of_nat m) from =
     match Convert.U_btry_from_I dbg ow from w n with Ret r => Done r | Panic => Panicked end) /\
  (forall dbg n m from fuel, wf ow m from -> (0 < n)%nat ->
     XcastGen.I_btry_from_U dbg w (Z.of_nat n) fuel ow (Z.of_nat m) from =
     match Convert.I_btry_from_U dbg ow from w n with Ret r => Done r | Panic => Panicked end) /\
  (forall dbg n m from fuel, wf ow m from -> (0 < n)%nat ->
     XcastGen.I_btry_from_I dbg w (Z.of_nat n) fuel ow (Z.of_nat m) from =
     match Convert.I_btry_from_I dbg ow from w n with Ret r => Done r | Panic => Panicked end) /\
  (forall n b fuel, XcastGen.U_conv_from_bool w (Z.of_nat n) fuel b = Done (Convert.U_conv_from_bool n b)) /\
  (forall n b fuel, XcastGen.I_conv_from_bool w (Z.of_nat n) fuel b = Done (Convert.I_conv_from_bool n b)) /\
  (forall n c fuel, XcastGen.U_conv_from_char w (Z.of_nat n) fuel c =
     match Convert.U_conv_from_char w n c with Ret r => Done r | Panic => Panicked end) /\
  (forall dbg (ss ds : bool) n m from fuel, wf ow m from -> (0 < n)%nat ->
     (match ss, ds with
      | false, false => XcastGen.U_btry_from_U
      | true, false => XcastGen.U_btry_from_I
      | false, true => XcastGen.I_btry_from_U
      | true, true => XcastGen.I_btry_from_I
      end) dbg w (Z.of_nat n) fuel ow (Z.of_nat m) from =
     match Convert.btry_from dbg ow w n ss ds from with Ret r => Done r | Panic => Panicked end).
Proof. exact (xcast_C13_match_model w ow). Qed.
Print Assumptions C13_xcast_rs_matches_model.

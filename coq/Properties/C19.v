(* Properties/C19.v — C19 (placeholder) *)
From Bnum Require Import Base Prim.
From Bnum.Model Require Import Core Cast Convert FloatCast NumConv.
From Bnum.Proofs Require Import NumConv.

Theorem C19_numcast_panics : forall z : Z, NumCast_from z = Panic.
Proof. exact NumCast_panics. Qed.
Print Assumptions C19_numcast_panics.

(* Properties/C19.v — C19: num_traits numeric conversions return Some exactly for representable values.
   Model: Model/NumConv.v (bnum's FromPrimitive / ToPrimitive / AsPrimitive / NumCast impls + the num-traits DEFAULT
   methods BUint does not override, modelled by their documented routing — trusted; every method is exercised
   through the trait by ./check C19).  It reuses Model/Cast.v (C09), Model/Convert.v (C13), Model/FloatCast.v (C14),
   Model/Shift.v, Model/AddSub.v, Model/Ops.v for every function the Rust code calls.
   Proofs: Proofs/NumConv.v, using the theorems of C01 (neg), C05 (shl), C07 (==), C09 (cast_from), C13 (the to_*
   macros are the text of the TryFrom macros) and the integer-only float specification of Proofs/FloatCast.v (C14).

   Notation: (w, n) digit width / digit count, n >= 1; t : pty one of the 12 primitive integer types, pty_bits /
   pty_signed its width / signedness (usize / isize: 64 bit); F = F32 | F64, floats are bit patterns x in [0, 2^fbits F)
   with fields f_sign / f_E / f_m, f_finite x = not NaN, not infinite; f_trunc_signed F x = the float truncated toward
   zero (an integer).  dsg / ss = the bnum type is BInt (true) or BUint (false).
   Results: Ret (Some r) = Some(r), Ret None = None, Panic = a Rust panic; dbg = cfg(debug_assertions).
   enc w n v = the n digits of v mod 2^BITS;  representable dsg w n v, prim_range pb ps v : v is a value of the type. *)
From Bnum Require Import Base Prim.
From Bnum.Model Require Import Core Cast Convert FloatCast NumConv.
From Bnum.Proofs Require Import FloatCastDeps FloatCast NumConvDeps CastLemmas Cast Convert NumConv.
From Bnum.Proofs Require Import DischargeNumConv.

(* --- from_prim_ok: FromPrimitive::from_{u8..u128, usize, i8..i128, isize}, every target width --- *)

Theorem C19_from_prim_ok : forall dbg w n (dsg : bool) t v,
  0 < w -> (0 < n)%nat -> prim_range (pty_bits t) (pty_signed t) v ->
  FromPrimitive_int dbg w n dsg t v = Ret (if rep_inb dsg w n v then Some (enc w n v) else None).
Proof. exact FromPrimitive_int_ok. Qed.
Print Assumptions C19_from_prim_ok.

Theorem C19_rep_inb_spec : forall dsg w n v, rep_inb dsg w n v = true <-> representable dsg w n v.
Proof. exact rep_inb_spec. Qed.
Print Assumptions C19_rep_inb_spec.

(* the encoding is well formed and denotes v *)
Theorem C19_enc_ok : forall w n (dsg : bool) v, 0 < w -> (0 < n)%nat -> representable dsg w n v ->
  wf w n (enc w n v) /\ source_value dsg w (enc w n v) = v.
Proof. exact enc_ok. Qed.
Print Assumptions C19_enc_ok.

Theorem C19_from_prim_representable : forall dbg w n (dsg : bool) t v,
  0 < w -> (0 < n)%nat -> prim_range (pty_bits t) (pty_signed t) v -> representable dsg w n v ->
  exists r, FromPrimitive_int dbg w n dsg t v = Ret (Some r) /\ wf w n r /\ source_value dsg w r = v.
Proof. exact FromPrimitive_int_representable. Qed.
Print Assumptions C19_from_prim_representable.

Theorem C19_from_prim_not_representable : forall dbg w n (dsg : bool) t v,
  0 < w -> (0 < n)%nat -> prim_range (pty_bits t) (pty_signed t) v -> ~ representable dsg w n v ->
  FromPrimitive_int dbg w n dsg t v = Ret None.
Proof. exact FromPrimitive_int_not_representable. Qed.
Print Assumptions C19_from_prim_not_representable.

(* --- from_float_ok: FromPrimitive::from_f32 / from_f64 --- *)

Theorem C19_from_float_ok : forall dbg F w n (dsg : bool) x,
  fmt_ok F -> 0 < w -> (0 < n)%nat -> 0 <= x < 2 ^ fbits F ->
  FromPrimitive_float dbg F w n dsg x = Ret (option_map (enc w n) (from_float_spec dsg F (Mod w n) x)).
Proof. exact FromPrimitive_float_ok. Qed.
Print Assumptions C19_from_float_ok.

(* the specification says: Some v only if finite, v = trunc f, v in range *)
Theorem C19_from_float_spec_some : forall (dsg : bool) F M x v, 0 < M ->
  fmt_ok F -> 0 <= x < 2 ^ fbits F ->
  from_float_spec dsg F M x = Some v ->
  f_finite F x = true /\ v = f_trunc_signed F x /\
  (if dsg then - (M / 2) <= v < M / 2 else 0 <= v < M).
Proof. exact from_float_spec_some. Qed.
Print Assumptions C19_from_float_spec_some.

(* Some (trunc f) whenever f is finite, trunc f is in range and (unsigned target) f is not negative; -0.0 is not negative *)
Theorem C19_from_float_spec_complete : forall (dsg : bool) F M x, 0 < M ->
  fmt_ok F -> 0 <= x < 2 ^ fbits F -> f_finite F x = true ->
  (if dsg then - (M / 2) <= f_trunc_signed F x < M / 2
   else 0 <= f_trunc_signed F x < M /\ (f_sign F x = false \/ (f_E F x = 0 /\ f_m F x = 0))) ->
  from_float_spec dsg F M x = Some (f_trunc_signed F x).
Proof. exact from_float_spec_complete. Qed.
Print Assumptions C19_from_float_spec_complete.

(* None for NaN and the infinities *)
Theorem C19_from_float_spec_not_finite : forall (dsg : bool) F M x,
  f_finite F x = false -> from_float_spec dsg F M x = None.
Proof. exact from_float_spec_not_finite. Qed.
Print Assumptions C19_from_float_spec_not_finite.

(* exactly what the code does for a negative float into an unsigned target: Some 0 for -0.0, None for every other one,
   -1 < f < 0 included (the property makes no claim for negative floats into unsigned targets) *)
Theorem C19_from_float_U_negative : forall F M x, f_finite F x = true -> f_sign F x = true ->
  from_float_spec false F M x = if (f_E F x =? 0) && (f_m F x =? 0) then Some 0 else None.
Proof. exact from_float_U_negative. Qed.
Print Assumptions C19_from_float_U_negative.

Theorem C19_fmt_ok_f32 : fmt_ok F32.
Proof. exact fmt_ok_F32. Qed.
Print Assumptions C19_fmt_ok_f32.
Theorem C19_fmt_ok_f64 : fmt_ok F64.
Proof. exact fmt_ok_F64. Qed.
Print Assumptions C19_fmt_ok_f64.

(* --- to_prim_ok: ToPrimitive::to_{u8..u128, usize, i8..i128, isize} --- *)

Theorem C19_to_prim_ok : forall dbg w n (ss : bool) t a,
  0 < w -> (0 < n)%nat -> pty_bits t < w \/ (w | pty_bits t) -> wf w n a ->
  ToPrimitive_int dbg w ss t a =
  Ret (if prim_inb (pty_bits t) (pty_signed t) (source_value ss w a) then Some (source_value ss w a) else None).
Proof. exact ToPrimitive_int_ok. Qed.
Print Assumptions C19_to_prim_ok.

Theorem C19_prim_inb_spec : forall pb ps v, prim_inb pb ps v = true <-> prim_range pb ps v.
Proof. exact prim_inb_spec. Qed.
Print Assumptions C19_prim_inb_spec.

(* the side condition holds for every power-of-two digit width (all of Rust's) *)
Theorem C19_to_prim_pow2_ok : forall dbg k n (ss : bool) t a,
  0 <= k -> (0 < n)%nat -> wf (2 ^ k) n a ->
  ToPrimitive_int dbg (2 ^ k) ss t a =
  Ret (if prim_inb (pty_bits t) (pty_signed t) (source_value ss (2 ^ k) a)
       then Some (source_value ss (2 ^ k) a) else None).
Proof. exact ToPrimitive_int_pow2_ok. Qed.
Print Assumptions C19_to_prim_pow2_ok.

Theorem C19_to_prim_in_range : forall dbg w n (ss : bool) t a,
  0 < w -> (0 < n)%nat -> pty_bits t < w \/ (w | pty_bits t) -> wf w n a ->
  prim_range (pty_bits t) (pty_signed t) (source_value ss w a) ->
  ToPrimitive_int dbg w ss t a = Ret (Some (source_value ss w a)).
Proof. exact ToPrimitive_int_in_range. Qed.
Print Assumptions C19_to_prim_in_range.

Theorem C19_to_prim_out_of_range : forall dbg w n (ss : bool) t a,
  0 < w -> (0 < n)%nat -> pty_bits t < w \/ (w | pty_bits t) -> wf w n a ->
  ~ prim_range (pty_bits t) (pty_signed t) (source_value ss w a) ->
  ToPrimitive_int dbg w ss t a = Ret None.
Proof. exact ToPrimitive_int_out_of_range. Qed.
Print Assumptions C19_to_prim_out_of_range.

(* the to_* methods run the same code as TryFrom<bnum> for the primitive (C13), with None for Err *)
Theorem C19_to_prim_is_try_from : forall dbg w (ss : bool) t ds,
  ToPrimitive_int dbg w ss t ds = omap res_opt (try_to_prim dbg (pty_bits t) (pty_signed t) w ss ds).
Proof. exact ToPrimitive_int_eq. Qed.
Print Assumptions C19_to_prim_is_try_from.

(* --- to_float: to_f32 / to_f64 = Some (the C14 cast), so C14's rounding theorem applies to the payload --- *)

Theorem C19_to_float_is_cast : forall dbg F w (ss : bool) a,
  ToPrimitive_float dbg F w ss a = omap Some (if ss then I_to_float dbg F w a else U_to_float dbg F w a) /\
  ToPrimitive_float dbg F w ss a = omap Some (AsPrimitive_to_float dbg F w ss a).
Proof. exact ToPrimitive_float_is_cast. Qed.
Print Assumptions C19_to_float_is_cast.

Theorem C19_to_float_never_none : forall dbg F w (ss : bool) a, ToPrimitive_float dbg F w ss a <> Ret None.
Proof. exact ToPrimitive_float_never_none. Qed.
Print Assumptions C19_to_float_never_none.

(* always Some and no panic (the C14 fact used — the integer -> float cast returns a float of the format — is
   Proofs/DischargeNumConv.v cast_float_from_uint_total_spec_holds, from C14's cast_float_from_uint_ok) *)
Theorem C19_to_float_total : forall dbg F w n (ss : bool) a,
  F = F32 \/ F = F64 -> 0 < w -> (0 < n)%nat -> wf w n a ->
  exists r, ToPrimitive_float dbg F w ss a = Ret (Some r) /\ AsPrimitive_to_float dbg F w ss a = Ret r /\
            0 <= r < 2 ^ fbits F.
Proof. exact (ToPrimitive_float_total_cond cast_float_from_uint_total_spec_holds). Qed.
Print Assumptions C19_to_float_total.

(* --- as_primitive: AsPrimitive::as_ is the As / CastFrom cast, in every direction --- *)

Theorem C19_as_primitive_is_cast :
  (forall dbg w ss t a, AsPrimitive_to_int dbg w ss t a = to_prim dbg (pty_bits t) (pty_signed t) w ss a) /\
  (forall dbg F w a, AsPrimitive_to_float dbg F w false a = U_to_float dbg F w a) /\
  (forall dbg F w a, AsPrimitive_to_float dbg F w true a = I_to_float dbg F w a) /\
  (forall w n dsg t v, AsPrimitive_from_int w n dsg t v = from_prim (pty_bits t) w n dsg v) /\
  (forall w n c, AsPrimitive_from_char w n false c = U_from_char w n c) /\
  (forall w n c, AsPrimitive_from_char w n true c = I_from_char w n c) /\
  (forall n b, AsPrimitive_from_bool n false b = U_from_bool n b) /\
  (forall n b, AsPrimitive_from_bool n true b = I_from_bool n b) /\
  (forall dbg F w n f, AsPrimitive_from_float dbg F w n false f = U_from_float dbg F w n f) /\
  (forall dbg F w n f, AsPrimitive_from_float dbg F w n true f = I_from_float dbg F w n f) /\
  (forall dbg w n' ss dsg a, AsPrimitive_bnum dbg w n' ss dsg a = cast dbg w w n' ss dsg a).
Proof. exact AsPrimitive_is_cast. Qed.
Print Assumptions C19_as_primitive_is_cast.

(* hence the cast theorems: wrapped value, never a panic *)
Theorem C19_as_to_int_ok : forall dbg w n (ss : bool) t a,
  0 < w -> (0 < n)%nat -> wf w n a ->
  exists r, AsPrimitive_to_int dbg w ss t a = Ret r /\
            r = prim_wrap (pty_bits t) (pty_signed t) (source_value ss w a) /\
            prim_range (pty_bits t) (pty_signed t) r.
Proof. exact AsPrimitive_to_int_ok. Qed.
Print Assumptions C19_as_to_int_ok.

Theorem C19_as_from_int_ok : forall w n (dsg : bool) t v,
  0 < w -> prim_range (pty_bits t) (pty_signed t) v ->
  exists r, AsPrimitive_from_int w n dsg t v = Ret r /\ wf w n r /\ uval w r = v mod Mod w n.
Proof. exact AsPrimitive_from_int_ok. Qed.
Print Assumptions C19_as_from_int_ok.

Theorem C19_as_bnum_ok : forall dbg w n n' (ss dsg : bool) a,
  0 < w -> (0 < n)%nat -> (0 < n')%nat -> wf w n a ->
  exists r, AsPrimitive_bnum dbg w n' ss dsg a = Ret r /\ wf w n' r /\
            uval w r = source_value ss w a mod Mod w n'.
Proof. exact AsPrimitive_bnum_ok. Qed.
Print Assumptions C19_as_bnum_ok.

Theorem C19_as_from_char_ok : forall w n (dsg : bool) c, 0 < w -> 0 <= c < 1114112 ->
  exists r, AsPrimitive_from_char w n dsg c = Ret r /\ wf w n r /\ uval w r = c mod Mod w n.
Proof. exact AsPrimitive_from_char_ok. Qed.
Print Assumptions C19_as_from_char_ok.

Theorem C19_as_from_bool_ok : forall w n (dsg b : bool), 0 < w ->
  wf w n (AsPrimitive_from_bool n dsg b) /\ uval w (AsPrimitive_from_bool n dsg b) = (if b then 1 else 0) mod Mod w n.
Proof. exact AsPrimitive_from_bool_ok. Qed.
Print Assumptions C19_as_from_bool_ok.

(* as_ from f32 / f64: the saturating truncation of C14 (its Shift / AddSub / Core premises discharged in NumConvDeps) *)
Theorem C19_as_from_float_ok : forall dbg F w n (dsg : bool) x,
  fmt_ok F -> 0 < w -> (0 < n)%nat -> 0 <= x < 2 ^ fbits F ->
  exists r, AsPrimitive_from_float dbg F w n dsg x = Ret r /\ wf w n r /\
            source_value dsg w r = if dsg then float_to_S_spec F (Mod w n) x else float_to_U_spec F (Mod w n) x.
Proof. exact AsPrimitive_from_float_ok. Qed.
Print Assumptions C19_as_from_float_ok.

Theorem C19_as_to_float_total : forall dbg F w n (ss : bool) a,
  F = F32 \/ F = F64 -> 0 < w -> (0 < n)%nat -> wf w n a ->
  exists r, AsPrimitive_to_float dbg F w ss a = Ret r /\ 0 <= r < 2 ^ fbits F.
Proof. exact (AsPrimitive_to_float_total_cond cast_float_from_uint_total_spec_holds). Qed.
Print Assumptions C19_as_to_float_total.

(* --- total: no FromPrimitive / ToPrimitive method panics, in either build mode
       (the as_ casts: the `exists r, .. = Ret r` statements above) --- *)

Theorem C19_from_prim_total : forall dbg w n (dsg : bool) t v,
  0 < w -> (0 < n)%nat -> prim_range (pty_bits t) (pty_signed t) v ->
  FromPrimitive_int dbg w n dsg t v <> Panic.
Proof. exact FromPrimitive_int_total. Qed.
Print Assumptions C19_from_prim_total.

Theorem C19_from_float_total : forall dbg F w n (dsg : bool) x,
  fmt_ok F -> 0 < w -> (0 < n)%nat -> 0 <= x < 2 ^ fbits F ->
  FromPrimitive_float dbg F w n dsg x <> Panic.
Proof. exact FromPrimitive_float_total. Qed.
Print Assumptions C19_from_float_total.

Theorem C19_to_prim_total : forall dbg w n (ss : bool) t a,
  0 < w -> (0 < n)%nat -> pty_bits t < w \/ (w | pty_bits t) -> wf w n a ->
  ToPrimitive_int dbg w ss t a <> Panic.
Proof. exact ToPrimitive_int_total. Qed.
Print Assumptions C19_to_prim_total.

(* NumCast::from is declared unsupported and panics unconditionally; the property makes no claim about it *)
Theorem C19_numcast_panics : forall z : Z, NumCast_from z = Panic.
Proof. exact NumCast_panics. Qed.
Print Assumptions C19_numcast_panics.

(* --- the hypotheses are satisfiable; the statements say what one expects on concrete inputs --- *)

Example C19_ex_prim_range : prim_range (pty_bits PI32) (pty_signed PI32) (-129) /\ prim_range (pty_bits PU64) (pty_signed PU64) (2 ^ 64 - 1).
Proof. unfold prim_range. cbv. repeat split; congruence. Qed.
Example C19_ex_representable : representable true 8 1 (-128) /\ ~ representable true 8 1 (-129) /\
                               representable false 8 3 (2 ^ 24 - 1) /\ ~ representable false 8 3 (2 ^ 24).
Proof. unfold representable. cbv. repeat split; try congruence; intros [H1 H2]; try (apply H1; reflexivity); discriminate H2. Qed.
Example C19_ex_side_condition : (8 < 64 \/ (64 | 8)) /\ (64 < 16 \/ (16 | 64)).
Proof. split; [left; lia | right; exists 4; reflexivity]. Qed.
Example C19_ex_wf : wf 16 3 [65408; 65535; 65535].
Proof. apply wfb_wf. reflexivity. Qed.
Example C19_ex_float_range : 0 <= 0x437f8000 < 2 ^ fbits F32 /\ f_finite F32 0x437f8000 = true.
Proof. cbv. repeat split; congruence. Qed.

(* narrow targets, the case the README recommends FromPrimitive for: i32 -> 8-bit BInt / BUint, u64 -> 24-bit BInt *)
Example C19_ex_from_i32_narrow :
  FromPrimitive_int true 8 1 true PI32 (-128) = Ret (Some [128]) /\
  FromPrimitive_int true 8 1 true PI32 (-129) = Ret None /\
  FromPrimitive_int true 8 1 false PI32 255 = Ret (Some [255]) /\
  FromPrimitive_int true 8 1 false PI32 256 = Ret None /\
  FromPrimitive_int true 8 1 false PI32 (-1) = Ret None /\
  FromPrimitive_int false 8 3 true PU64 (2 ^ 23 - 1) = Ret (Some [255; 255; 127]) /\
  FromPrimitive_int false 8 3 true PU64 (2 ^ 23) = Ret None.
Proof. vm_compute. repeat split. Qed.
(* the num-traits default route u8 -> from_u64 and the override i8 for BInt *)
Example C19_ex_from_defaults :
  FromPrimitive_int true 64 1 false PU8 200 = Ret (Some [200]) /\
  FromPrimitive_int true 64 2 true PI8 (-2) = Ret (Some [2 ^ 64 - 2; 2 ^ 64 - 1]).
Proof. vm_compute. repeat split. Qed.
(* floats into 8-bit targets: 255.5 -> 255, 256.0 -> None, -128.9 -> -128, -129.0 -> None, NaN / inf -> None,
   -0.0 -> 0, -0.5 -> None for BUint but Some 0 for BInt *)
Example C19_ex_from_f32 :
  FromPrimitive_float true F32 8 1 false 0x437f8000 = Ret (Some [255]) /\
  FromPrimitive_float true F32 8 1 false 0x43800000 = Ret None /\
  FromPrimitive_float true F32 8 1 true 0xc300e666 = Ret (Some [128]) /\
  FromPrimitive_float true F32 8 1 true 0xc3010000 = Ret None /\
  FromPrimitive_float true F32 8 1 false 0x7fc00000 = Ret None /\
  FromPrimitive_float true F32 8 1 true 0xff800000 = Ret None /\
  FromPrimitive_float true F32 8 1 false 0x80000000 = Ret (Some [0]) /\
  FromPrimitive_float true F32 8 1 false 0xbf000000 = Ret None /\
  FromPrimitive_float true F32 8 1 true 0xbf000000 = Ret (Some [0]).
Proof. vm_compute. repeat split. Qed.
Example C19_ex_from_float_spec :
  from_float_spec false F32 (2 ^ 8) 0x437f8000 = Some 255 /\ from_float_spec true F32 (2 ^ 8) 0xc300e666 = Some (-128) /\
  from_float_spec false F64 (2 ^ 16) 0x40effff000000000 = Some 65535 /\ from_float_spec false F64 (2 ^ 16) 0x40f0000000000000 = None.
Proof. vm_compute. repeat split. Qed.
(* BIntD16<3> -> i8: MIN fits, MIN - 1 does not; BUintD8<3> -> u16 *)
Example C19_ex_to :
  ToPrimitive_int true 16 true PI8 [65408; 65535; 65535] = Ret (Some (-128)) /\
  ToPrimitive_int true 16 true PI8 [65407; 65535; 65535] = Ret None /\
  ToPrimitive_int true 8 false PU16 [255; 255; 0] = Ret (Some 65535) /\
  ToPrimitive_int true 8 false PU16 [0; 0; 1] = Ret None /\
  ToPrimitive_int true 8 true PU16 [255; 255; 255] = Ret None.
Proof. vm_compute. repeat split. Qed.
Example C19_ex_to_f32 : ToPrimitive_float true F32 8 false [255; 255] = Ret (Some 0x477fff00) /\
                        ToPrimitive_float false F64 8 true [255; 255] = Ret (Some 0xbff0000000000000).
Proof. vm_compute. repeat split. Qed.
(* ---- tie to the source, ToPrimitive: to_int! of /repo/src/buint/numtraits.rs (to_u8 .. to_isize for $BUint<N>; $int = every
   primitive integer type), to_int! (to_i8 .. to_isize for $BInt<N>; signed only: ps = true) and to_uint! (to_u8 .. to_usize for
   $BInt<N>; unsigned only: ps = false) of /repo/src/bint/numtraits.rs (pb = <$int>::BITS, ps = signedness; instantiation lists
   `to_<t> -> <t>` and the enclosing `impl ToPrimitive for ..` checked; the accumulator handled as its pb-bit pattern, vocabulary
   Model/ImpConv.v), REGENERATED on every run (Generated/ConvGen.v, tools/rs2v_conv.py), compute exactly the model's U_to_int /
   I_to_int / I_to_uint, for both values of the model's overflow-check flag, every power-of-two digit width and a budget > N. ---- *)
From Bnum.Model Require Import Imp.
From Bnum.Generated Require Import ConvGen.
From Bnum.Proofs Require Import ConvGenTieC19.
Theorem C19_conv_rs_matches_model dbg w lg : 0 <= lg -> w = 2 ^ lg ->
  forall n pb ds fuel, 0 < pb -> length ds = n -> (S n <= fuel)%nat ->
  (forall ps, ConvGen.U_to_int w (Z.of_nat n) fuel pb ps ds =
     match NumConv.U_to_int dbg pb ps w ds with Ret r => Done r | Panic => Panicked end) /\
  ConvGen.I_to_int w (Z.of_nat n) fuel pb true ds =
    match NumConv.I_to_int dbg pb w ds with Ret r => Done r | Panic => Panicked end /\
  ConvGen.I_to_uint w (Z.of_nat n) fuel pb false ds =
    match NumConv.I_to_uint dbg pb w ds with Ret r => Done r | Panic => Panicked end.
Proof. exact (conv_C19_match_model dbg w lg). Qed.
Print Assumptions C19_conv_rs_matches_model.
(* ---- tie to the source, FromPrimitive: from_u64 / from_u128 / from_i64 / from_i128 of `impl FromPrimitive for $BUint<N>` (/repo/src/buint/numtraits.rs),
   from_uint! (from_u8 .. from_usize) and from_int! (from_i8 .. from_isize) of `impl FromPrimitive for $BInt<N>`
   (/repo/src/bint/numtraits.rs; one invocation `(<t>, from_<t>)` per type, checked), REGENERATED on every run, compute exactly the
   model's U_from_uN / U_from_iN (pb = 64 / 128) / I_from_uN / I_from_iN, for both values of the debug flag and a budget >= pb. ---- *)
Theorem C19_conv_from_rs_matches_model dbg w lg : 0 <= lg -> w = 2 ^ lg ->
  forall n int,
  (forall fuel, (64 <= fuel)%nat -> ConvGen.U_from_u64 w (Z.of_nat n) fuel int =
     match NumConv.U_from_uN dbg 64 w n int with Ret r => Done r | Panic => Panicked end) /\
  (forall fuel, (128 <= fuel)%nat -> ConvGen.U_from_u128 w (Z.of_nat n) fuel int =
     match NumConv.U_from_uN dbg 128 w n int with Ret r => Done r | Panic => Panicked end) /\
  (forall fuel, (64 <= fuel)%nat -> ConvGen.U_from_i64 w (Z.of_nat n) fuel int =
     match NumConv.U_from_iN dbg 64 w n int with Ret r => Done r | Panic => Panicked end) /\
  (forall fuel, (128 <= fuel)%nat -> ConvGen.U_from_i128 w (Z.of_nat n) fuel int =
     match NumConv.U_from_iN dbg 128 w n int with Ret r => Done r | Panic => Panicked end) /\
  (forall pb fuel, 0 < pb -> (Z.to_nat pb <= fuel)%nat -> ConvGen.I_from_uint w (Z.of_nat n) fuel pb int =
     match NumConv.I_from_uN dbg pb w n int with Ret r => Done r | Panic => Panicked end) /\
  (forall pb fuel, 0 < pb -> (Z.to_nat pb <= fuel)%nat -> ConvGen.I_from_int w (Z.of_nat n) fuel pb int =
     match NumConv.I_from_iN dbg pb w n int with Ret r => Done r | Panic => Panicked end).
Proof. exact (conv_C19_from_match_model dbg w lg). Qed.
Print Assumptions C19_conv_from_rs_matches_model.

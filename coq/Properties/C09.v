From Bnum Require Import Base Prim.
Theorem C09_placeholder : forall w n ds, 0 <= w -> wf w n ds -> 0 <= uval w ds < Mod w n.
Proof. exact uval_bounds. Qed.
Print Assumptions C09_placeholder.

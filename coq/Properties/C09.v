(* Properties/C09.v — C09: integer casts follow Rust's `as` semantics between all integer types.
   Model: Model/Cast.v (tied to /repo by ./check C09).  Proofs: Proofs/Cast.v, Proofs/CastLemmas.v.
   Notation: (w, n) source digit width / count, (w', n') target; (pb, ps) a primitive's BITS / signedness;
   source_value signed w a = sval w a (signed source) | uval w a (unsigned source). *)
From Bnum Require Import Base Prim.
From Bnum.Model Require Import Core Cast.
From Bnum.Proofs Require Import CastLemmas Cast.

(* --- bnum -> bnum: the target holds (source value) mod 2^(target BITS); never panics --- *)

Theorem C09_cast_ok : forall dbg w n w' n' src_signed dst_signed a,
  0 < w -> 0 < w' -> (0 < n)%nat -> (0 < n')%nat -> (w' | w) \/ (w | w') -> wf w n a ->
  exists r, cast dbg w w' n' src_signed dst_signed a = Ret r /\ wf w' n' r /\
            uval w' r = source_value src_signed w a mod Mod w' n'.
Proof. exact cast_ok. Qed.
Print Assumptions C09_cast_ok.

(* same digit type: any width *)
Theorem C09_cast_same_digit_ok : forall dbg w n n' src_signed dst_signed a,
  0 < w -> (0 < n)%nat -> (0 < n')%nat -> wf w n a ->
  exists r, cast dbg w w n' src_signed dst_signed a = Ret r /\ wf w n' r /\
            uval w r = source_value src_signed w a mod Mod w n'.
Proof. exact cast_same_digit_ok. Qed.
Print Assumptions C09_cast_same_digit_ok.

(* power-of-two digit widths (all of Rust's: 8 = 2^3 .. 64 = 2^6): the divisibility hypothesis holds *)
Theorem C09_cast_pow2_ok : forall dbg k n k' n' src_signed dst_signed a,
  0 <= k -> 0 <= k' -> (0 < n)%nat -> (0 < n')%nat -> wf (2 ^ k) n a ->
  exists r, cast dbg (2 ^ k) (2 ^ k') n' src_signed dst_signed a = Ret r /\ wf (2 ^ k') n' r /\
            uval (2 ^ k') r = source_value src_signed (2 ^ k) a mod Mod (2 ^ k') n'.
Proof. exact cast_pow2_ok. Qed.
Print Assumptions C09_cast_pow2_ok.

(* zero extension of unsigned sources, sign extension of signed sources: the value is kept whenever the
   target type can represent it *)
Theorem C09_cast_preserves_value : forall dbg w n w' n' src_signed (dst_signed : bool) a,
  0 < w -> 0 < w' -> (0 < n)%nat -> (0 < n')%nat -> (w' | w) \/ (w | w') -> wf w n a ->
  (if dst_signed then - (Mod w' n' / 2) <= source_value src_signed w a < Mod w' n' / 2
   else 0 <= source_value src_signed w a < Mod w' n') ->
  exists r, cast dbg w w' n' src_signed dst_signed a = Ret r /\ wf w' n' r /\
            source_value dst_signed w' r = source_value src_signed w a.
Proof. exact cast_preserves_value. Qed.
Print Assumptions C09_cast_preserves_value.

(* truncation to the low bits when the target is not wider *)
Theorem C09_cast_truncates : forall dbg w n w' n' src_signed dst_signed a,
  0 < w -> 0 < w' -> (0 < n)%nat -> (0 < n')%nat -> (w' | w) \/ (w | w') -> wf w n a ->
  bits w' n' <= bits w n ->
  exists r, cast dbg w w' n' src_signed dst_signed a = Ret r /\ wf w' n' r /\
            uval w' r = uval w a mod Mod w' n'.
Proof. exact cast_truncates. Qed.
Print Assumptions C09_cast_truncates.

Theorem C09_cast_total : forall dbg w n w' n' src_signed dst_signed a,
  0 < w -> 0 < w' -> (0 < n)%nat -> (0 < n')%nat -> (w' | w) \/ (w | w') -> wf w n a ->
  cast dbg w w' n' src_signed dst_signed a <> Panic.
Proof. exact cast_total. Qed.
Print Assumptions C09_cast_total.

(* --- primitive integer -> bnum --- *)

Theorem C09_from_prim_ok : forall pb ps w n dst_signed v,
  0 < w -> 0 < pb -> prim_range pb ps v ->
  exists r, from_prim pb w n dst_signed v = Ret r /\ wf w n r /\ uval w r = v mod Mod w n.
Proof. exact from_prim_ok. Qed.
Print Assumptions C09_from_prim_ok.

Theorem C09_from_prim_preserves_value : forall pb ps w n (dst_signed : bool) v,
  0 < w -> 0 < pb -> (0 < n)%nat -> prim_range pb ps v ->
  (if dst_signed then - (Mod w n / 2) <= v < Mod w n / 2 else 0 <= v < Mod w n) ->
  exists r, from_prim pb w n dst_signed v = Ret r /\ wf w n r /\ source_value dst_signed w r = v.
Proof. exact from_prim_preserves_value. Qed.
Print Assumptions C09_from_prim_preserves_value.

Theorem C09_from_prim_total : forall pb ps w n dst_signed v,
  0 < w -> 0 < pb -> prim_range pb ps v -> from_prim pb w n dst_signed v <> Panic.
Proof. exact from_prim_total. Qed.
Print Assumptions C09_from_prim_total.

(* --- bnum -> primitive integer: the result is the source value wrapped into the primitive type --- *)

Theorem C09_to_prim_ok : forall dbg pb ps w n src_signed a,
  0 < w -> 0 < pb -> (0 < n)%nat -> wf w n a ->
  exists r, to_prim dbg pb ps w src_signed a = Ret r /\
            r = prim_wrap pb ps (source_value src_signed w a) /\
            prim_range pb ps r /\ r mod 2 ^ pb = source_value src_signed w a mod 2 ^ pb.
Proof. exact to_prim_ok. Qed.
Print Assumptions C09_to_prim_ok.

Theorem C09_to_prim_preserves_value : forall dbg pb ps w n src_signed a,
  0 < w -> 0 < pb -> (0 < n)%nat -> wf w n a -> prim_range pb ps (source_value src_signed w a) ->
  to_prim dbg pb ps w src_signed a = Ret (source_value src_signed w a).
Proof. exact to_prim_preserves_value. Qed.
Print Assumptions C09_to_prim_preserves_value.

Theorem C09_to_prim_total : forall dbg pb ps w n src_signed a,
  0 < w -> 0 < pb -> (0 < n)%nat -> wf w n a -> to_prim dbg pb ps w src_signed a <> Panic.
Proof. exact to_prim_total. Qed.
Print Assumptions C09_to_prim_total.

(* --- bool, char --- *)

Theorem C09_from_bool_ok : forall w n (dst_signed b : bool), 0 < w ->
  let r := if dst_signed then I_from_bool n b else U_from_bool n b in
  wf w n r /\ uval w r = (if b then 1 else 0) mod Mod w n.
Proof. exact from_bool_ok. Qed.
Print Assumptions C09_from_bool_ok.

Theorem C09_from_char_ok : forall w n (dst_signed : bool) c, 0 < w -> 0 <= c < 1114112 ->
  exists r, (if dst_signed then I_from_char w n c else U_from_char w n c) = Ret r /\
            wf w n r /\ uval w r = c mod Mod w n.
Proof. exact from_char_ok. Qed.
Print Assumptions C09_from_char_ok.

(* --- reinterpretations: same bit pattern --- *)

Theorem C09_reinterpret_id : forall a,
  cast_signed a = a /\ cast_unsigned a = a /\ to_bits a = a /\ from_bits a = a.
Proof. exact reinterpret_id. Qed.
Print Assumptions C09_reinterpret_id.

Theorem C09_reinterpret_value : forall w n a, 0 < w -> wf w n a ->
  sval w (cast_signed a) mod Mod w n = uval w a mod Mod w n /\
  uval w (cast_unsigned a) mod Mod w n = sval w a mod Mod w n.
Proof. exact reinterpret_value. Qed.
Print Assumptions C09_reinterpret_value.

(* --- the hypotheses are satisfiable; the statements say what one expects on concrete inputs --- *)

Example C09_ex_wf : wf 8 3 [1; 2; 128].
Proof. apply wfb_wf. reflexivity. Qed.

Example C09_ex_divides : (8 | 64) \/ (64 | 8).
Proof. left. exists 8. reflexivity. Qed.

Example C09_ex_prim_range : prim_range 16 true (-2) /\ prim_range 128 false (2 ^ 127).
Proof. split; unfold prim_range; cbv; split; congruence. Qed.

(* I24 (three u8 digits) -0x7ffdff -> U64: sign extension across a partial 64-bit digit *)
Example C09_ex_sign_extend : cast true 8 64 1 true false [1; 2; 128] = Ret [18446744073701163521].
Proof. vm_compute. reflexivity. Qed.

(* U128 (two u64 digits) -> I40 (five u8 digits): truncation with a split *)
Example C09_ex_truncate : cast false 64 8 5 false true [1311768467463790320; 9223372036854775808]
                          = Ret [240; 222; 188; 154; 120].
Proof. vm_compute. reflexivity. Qed.

Example C09_ex_to_i16 : to_prim true 16 true 8 true [1; 2; 131] = Ret 513.
Proof. vm_compute. reflexivity. Qed.

Example C09_ex_from_i16 : from_prim 16 8 5 false (-2) = Ret [254; 255; 255; 255; 255].
Proof. vm_compute. reflexivity. Qed.
(* ---- tie to the source: the loops cast_up<M> / cast_down<M> of /repo/src/buint/cast.rs (behind `CastFrom<$BUint<M>> for
   $BUint<N>` and its signed variants) REGENERATED on every run (Generated/Loops.v, tools/rs2v_loops.py; control-flow
   vocabulary Model/Imp.v) compute exactly the model's functions under the call-site conditions (cast_up: target longer than
   the source; cast_down: not longer), with an iteration budget of at least the number of copied digits: they neither panic
   (no index out of bounds, `M - N` and `i - (M - N)` do not underflow) nor run out of budget.  as_buint! (`impl CastFrom<$ty> for $BUint<N>`, $ty = every primitive integer
   type, pb = <$ty>::BITS, the source handled as its value) computes exactly the model's U_from_int for a budget >= N. ---- *)
From Bnum.Model Require Import Imp.
From Bnum.Generated Require Import Loops.
From Bnum.Proofs Require Import LoopsTieC09.
Theorem C09_loops_rs_match_model w :
  (forall n m a d fuel, length a = n -> (n < m)%nat -> (n <= fuel)%nat ->
     Loops.cast_up w (Z.of_nat n) fuel (Z.of_nat m) a d =
     match Cast.cast_up a m d with Ret r => Done r | Panic => Panicked end) /\
  (forall n m a fuel, length a = n -> (m <= n)%nat -> (m <= fuel)%nat ->
     Loops.cast_down w (Z.of_nat n) fuel (Z.of_nat m) a =
     match Cast.cast_down a m with Ret r => Done r | Panic => Panicked end) /\
  (forall n pb from fuel, (n <= fuel)%nat ->
     Loops.as_buint w (Z.of_nat n) fuel pb from =
     match Cast.U_from_int pb w n from with Ret r => Done r | Panic => Panicked end).
Proof. exact (loops_C09_match_model w). Qed.
Print Assumptions C09_loops_rs_match_model.
(* ---- tie to the source, bnum -> primitive: buint_as_int! of /repo/src/buint/cast.rs (`impl CastFrom<$BUint<N>> for $int`) and bint_as!
   of /repo/src/bint/cast.rs (`impl CastFrom<$BInt<N>> for $int`), $int = every primitive integer type (pb = <$int>::BITS, ps = its
   signedness; the accumulator handled as its pb-bit pattern, vocabulary Model/ImpConv.v), REGENERATED on every run
   (Generated/ConvGen.v, tools/rs2v_conv.py) compute exactly the model's U_as_int / I_as_int, for both values of the model's
   overflow-check flag, for every power-of-two digit width and a budget >= N: they neither index out of bounds nor shift by
   >= pb nor run out of budget. ---- *)
From Bnum.Generated Require Import ConvGen.
From Bnum.Proofs Require Import ConvGenTieC09.
Theorem C09_conv_rs_matches_model dbg w lg : 0 <= lg -> w = 2 ^ lg ->
  forall n pb ps ds fuel, length ds = n -> (n <= fuel)%nat ->
  ConvGen.buint_as_int w (Z.of_nat n) fuel pb ps ds =
    match Cast.U_as_int dbg pb ps w ds with Ret r => Done r | Panic => Panicked end /\
  ConvGen.bint_as_int w (Z.of_nat n) fuel pb ps ds =
    match Cast.I_as_int dbg pb ps w ds with Ret r => Done r | Panic => Panicked end.
Proof. exact (conv_C09_match_model dbg w lg). Qed.
Print Assumptions C09_conv_rs_matches_model.
(* primitive -> BInt: as_bint! of /repo/src/bint/cast.rs (`impl CastFrom<$ty> for $BInt<N>`, $ty a primitive integer; the two further
   instantiations at bool / char are not covered) is Self::from_bits($BUint::cast_from(from)) = the model's I_from_int; `$BUint::cast_from`
   is the model's U_from_int, whose own tie is C09_loops_rs_match_model above (as_buint!). *)
Theorem C09_conv_from_rs_matches_model w n pb from fuel :
  ConvGen.bint_from_prim w (Z.of_nat n) fuel pb from =
  match Cast.I_from_int pb w n from with Ret r => Done r | Panic => Panicked end.
Proof. exact (conv_bint_from_prim w n pb from fuel). Qed.
Print Assumptions C09_conv_from_rs_matches_model.
(* ---- tie to the source, bnum -> bnum: the casts BETWEEN bnum integer types - buint_as_different_digit_bigint! (/repo/src/buint/cast.rs) and
   bint_as_different_digit_bigint! (/repo/src/bint/cast.rs), each macro body translated ONCE with both digit widths as parameters (w = the
   target's $Digit::BITS, ow = the source's $OtherDigit::BITS; the instantiation lists of src/lib.rs are checked), the same-digit impls
   `CastFrom<$BUint<M>|$BInt<M>> for $BUint<N>|$BInt<N>`, `CastFrom<bool|char>` and as_bint! at bool / char - REGENERATED on every run
   (Generated/XcastGen.v, tools/rs2v_xcast.py; vocabulary Model/Imp.v + Model/ImpXcast.v) compute exactly the model's functions, for both
   values of the model's overflow-check flag, all power-of-two digit widths, all sizes and a budget >= both sizes: they neither index
   out of bounds nor divide by zero nor shift by >= the digit width nor run out of budget.  The last conjunct is the trait resolution
   (same digit type / another one) against the model's dispatcher Cast.cast, which the `cast` operation of the C09 table runs. ---- *)
From Bnum.Generated Require Import XcastGen.
From Bnum.Proofs Require Import XcastGenTieC09.
Theorem C09_xcast_rs_matches_model w lg ow lg' : 0 <= lg -> w = 2 ^ lg -> 0 <= lg' -> ow = 2 ^ lg' ->
  (* different digit types (source: digit width ow, m digits; target: digit width w, n digits) *)
  (forall dbg n m from fuel, length from = m -> (n <= fuel)%nat -> (m <= fuel)%nat ->
     XcastGen.U_castd_U w (Z.of_nat n) fuel ow (Z.of_nat m) from =
     match Cast.U_castd_U dbg ow from w n with Ret r => Done r | Panic => Panicked end) /\
  (forall dbg n m from fuel, length from = m -> (n <= fuel)%nat -> (m <= fuel)%nat ->
     XcastGen.I_castd_U w (Z.of_nat n) fuel ow (Z.of_nat m) from =
     match Cast.I_castd_U dbg ow from w n with Ret r => Done r | Panic => Panicked end) /\
  (forall dbg n m from fuel, length from = m -> (n <= fuel)%nat -> (m <= fuel)%nat ->
     XcastGen.U_castd_I w (Z.of_nat n) fuel ow (Z.of_nat m) from =
     match Cast.U_castd_I dbg ow from w n with Ret r => Done r | Panic => Panicked end) /\
  (forall dbg n m from fuel, length from = m -> (n <= fuel)%nat -> (m <= fuel)%nat ->
     XcastGen.I_castd_I w (Z.of_nat n) fuel ow (Z.of_nat m) from =
     match Cast.I_castd_I dbg ow from w n with Ret r => Done r | Panic => Panicked end) /\
  (* same digit type *)
  (forall n m from fuel, length from = m ->
     XcastGen.U_cast_U w (Z.of_nat n) fuel (Z.of_nat m) from =
     match Cast.U_cast_U from n with Ret r => Done r | Panic => Panicked end) /\
  (forall n m from fuel, length from = m ->
     XcastGen.U_cast_I w (Z.of_nat n) fuel (Z.of_nat m) from =
     match Cast.U_cast_I w from n with Ret r => Done r | Panic => Panicked end) /\
  (forall n m from fuel, length from = m ->
     XcastGen.I_cast_U w (Z.of_nat n) fuel (Z.of_nat m) from =
     match Cast.I_cast_U from n with Ret r => Done r | Panic => Panicked end) /\
  (forall n m from fuel, length from = m ->
     XcastGen.I_cast_I w (Z.of_nat n) fuel (Z.of_nat m) from =
     match Cast.I_cast_I w from n with Ret r => Done r | Panic => Panicked end) /\
  (* bool, char *)
  (forall n b fuel, XcastGen.U_from_bool w (Z.of_nat n) fuel b = Done (Cast.U_from_bool n b)) /\
  (forall n b fuel, XcastGen.I_from_bool w (Z.of_nat n) fuel b = Done (Cast.I_from_bool n b)) /\
  (forall n c fuel, XcastGen.U_from_char w (Z.of_nat n) fuel c =
     match Cast.U_from_char w n c with Ret r => Done r | Panic => Panicked end) /\
  (forall n c fuel, XcastGen.I_from_char w (Z.of_nat n) fuel c =
     match Cast.I_from_char w n c with Ret r => Done r | Panic => Panicked end) /\
  (* trait resolution: the dispatcher of the hand model, Cast.cast (what the operation `cast` of the C09 table runs) *)
  (forall dbg (ss ds : bool) n m from fuel, length from = m -> (n <= fuel)%nat -> (m <= fuel)%nat ->
     (match ss, ds with
      | false, false => XcastGen.cast_UU
      | true, false => XcastGen.cast_UI
      | false, true => XcastGen.cast_IU
      | true, true => XcastGen.cast_II
      end) w (Z.of_nat n) fuel ow (Z.of_nat m) from =
     match Cast.cast dbg ow w n ss ds from with Ret r => Done r | Panic => Panicked end).
Proof. exact (xcast_C09_match_model w lg ow lg'). Qed.
Print Assumptions C09_xcast_rs_matches_model.

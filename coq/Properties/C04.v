(* Properties/C04.v — C04: "Panics occur exactly where the primitive integers panic, per build mode".
   `dbg` is cfg(debug_assertions).  Each statement says exactly when the model of the operator /
   method returns Panic, and what it returns otherwise.  Corollaries of the flag-exactness theorems
   of C01, C02, C05, C06, C08 and of the operator layer Model/Ops.v (amount conversion of the twelve
   primitive shift-amount types).  Division / remainder (zero divisor, MIN / -1) are stated in
   Properties/C03.v. *)
From Bnum Require Import Base Prim.
From Bnum.Model Require Import Digit Core Shift AddSub Mul Div Bits Pow Ops.
From Bnum.Proofs Require Import AddSub Mul Shift BitsLemmas Bits PowDeps Pow Ilog Discharge Panics.

(* + and - : panic in debug builds exactly when the exact result is unrepresentable; wrap otherwise *)
Theorem C04_U_add : forall dbg w n a b, 0 < w -> wf w n a -> wf w n b ->
  (U_add dbg w a b = Panic <-> dbg = true /\ Mod w n <= uval w a + uval w b) /\
  (dbg = false -> U_add dbg w a b = Ret (U_wrapping_add w a b)) /\
  (uval w a + uval w b < Mod w n -> exists r, U_add dbg w a b = Ret r /\ wf w n r /\ uval w r = uval w a + uval w b).
Proof. exact U_add_panics. Qed.
Print Assumptions C04_U_add.

Theorem C04_U_sub : forall dbg w n a b, 0 < w -> wf w n a -> wf w n b ->
  (U_sub dbg w a b = Panic <-> dbg = true /\ uval w a < uval w b) /\
  (dbg = false -> U_sub dbg w a b = Ret (U_wrapping_sub w a b)) /\
  (uval w b <= uval w a -> exists r, U_sub dbg w a b = Ret r /\ wf w n r /\ uval w r = uval w a - uval w b).
Proof. exact U_sub_panics. Qed.
Print Assumptions C04_U_sub.

Theorem C04_I_add : forall dbg w n a b, 0 < w -> (0 < n)%nat -> wf w n a -> wf w n b ->
  (I_add dbg w a b = Panic <-> dbg = true /\ inS (Mod w n) (sval w a + sval w b) = false) /\
  (dbg = false -> I_add dbg w a b = Ret (I_wrapping_add w a b)) /\
  (inS (Mod w n) (sval w a + sval w b) = true ->
   exists r, I_add dbg w a b = Ret r /\ wf w n r /\ sval w r = sval w a + sval w b).
Proof. exact I_add_panics. Qed.
Print Assumptions C04_I_add.

Theorem C04_I_sub : forall dbg w n a b, 0 < w -> (0 < n)%nat -> wf w n a -> wf w n b ->
  (I_sub dbg w a b = Panic <-> dbg = true /\ inS (Mod w n) (sval w a - sval w b) = false) /\
  (dbg = false -> I_sub dbg w a b = Ret (I_wrapping_sub w a b)) /\
  (inS (Mod w n) (sval w a - sval w b) = true ->
   exists r, I_sub dbg w a b = Ret r /\ wf w n r /\ sval w r = sval w a - sval w b).
Proof. exact I_sub_panics. Qed.
Print Assumptions C04_I_sub.

(* unary minus and abs: MIN is the only unrepresentable case *)
Theorem C04_I_neg : forall dbg w n a, 0 < w -> (0 < n)%nat -> wf w n a ->
  (I_neg dbg w a = Panic <-> dbg = true /\ sval w a = - (Mod w n / 2)) /\
  (dbg = false -> I_neg dbg w a = Ret (I_wrapping_neg w a)).
Proof. exact I_neg_panics. Qed.
Print Assumptions C04_I_neg.

Theorem C04_I_abs : forall dbg w n a, 0 < w -> (0 < n)%nat -> wf w n a ->
  (I_abs dbg w a = Panic <-> dbg = true /\ sval w a = - (Mod w n / 2)) /\
  (dbg = false -> I_abs dbg w a = Ret (I_wrapping_abs w a)).
Proof. exact I_abs_panics. Qed.
Print Assumptions C04_I_abs.

(* * : panics only in debug builds and only on overflow; otherwise the wrapped product *)
Theorem C04_U_mul : forall dbg w n a b, 0 < w -> wf w n a -> wf w n b ->
  match U_mul dbg w a b with
  | Panic => dbg = true /\ Mod w n <= uval w a * uval w b
  | Ret r => wf w n r /\ uval w r = (uval w a * uval w b) mod Mod w n /\
             (dbg = true -> uval w a * uval w b < Mod w n /\ uval w r = uval w a * uval w b)
  end.
Proof. exact U_mul_ok. Qed.
Print Assumptions C04_U_mul.

Theorem C04_I_mul : forall dbg w n a b, 0 < w -> (0 < n)%nat -> wf w n a -> wf w n b ->
  match I_mul dbg w a b with
  | Panic => dbg = true /\
             (sval w a * sval w b < - (Mod w n / 2) \/ Mod w n / 2 <= sval w a * sval w b)
  | Ret r => wf w n r /\ sval w r = wrapS (Mod w n) (sval w a * sval w b) /\
             (dbg = true -> - (Mod w n / 2) <= sval w a * sval w b < Mod w n / 2 /\
                            sval w r = sval w a * sval w b)
  end.
Proof. exact I_mul_ok. Qed.
Print Assumptions C04_I_mul.

(* << and >> with ANY of the twelve primitive integer types as the amount: debug builds panic exactly
   when the amount is negative or >= BITS (an amount above u32::MAX is >= BITS); release builds
   convert with `as u32` and wrap *)
Theorem C04_U_Shl_prim : forall dbg w n ty a v, 0 < w -> wf w n a -> bits w n < 2 ^ 32 -> amt_range ty v ->
  (U_Shl_prim dbg w ty a v = Panic <-> dbg = true /\ (v < 0 \/ bits w n <= v)) /\
  (dbg = false -> U_Shl_prim dbg w ty a v = Ret (U_wrapping_shl w a (v mod 2 ^ 32))) /\
  (0 <= v < bits w n -> exists r, U_Shl_prim dbg w ty a v = Ret r /\ wf w n r /\
                                  uval w r = (uval w a * 2 ^ v) mod Mod w n).
Proof. exact U_Shl_prim_panics. Qed.
Print Assumptions C04_U_Shl_prim.

Theorem C04_U_Shr_prim : forall dbg w n ty a v, 0 < w -> wf w n a -> bits w n < 2 ^ 32 -> amt_range ty v ->
  (U_Shr_prim dbg w ty a v = Panic <-> dbg = true /\ (v < 0 \/ bits w n <= v)) /\
  (dbg = false -> U_Shr_prim dbg w ty a v = Ret (U_wrapping_shr w a (v mod 2 ^ 32))) /\
  (0 <= v < bits w n -> exists r, U_Shr_prim dbg w ty a v = Ret r /\ wf w n r /\ uval w r = uval w a / 2 ^ v).
Proof. exact U_Shr_prim_panics. Qed.
Print Assumptions C04_U_Shr_prim.

Theorem C04_I_Shl_prim : forall dbg w n ty a v, 0 < w -> wf w n a -> bits w n < 2 ^ 32 -> amt_range ty v ->
  (I_Shl_prim dbg w ty a v = Panic <-> dbg = true /\ (v < 0 \/ bits w n <= v)) /\
  (dbg = false -> I_Shl_prim dbg w ty a v = Ret (I_wrapping_shl w a (v mod 2 ^ 32))).
Proof. exact I_Shl_prim_panics. Qed.
Print Assumptions C04_I_Shl_prim.

Theorem C04_I_Shr_prim : forall dbg w n ty a v, 0 < w -> wf w n a -> bits w n < 2 ^ 32 -> amt_range ty v ->
  (I_Shr_prim dbg w ty a v = Panic <-> dbg = true /\ (v < 0 \/ bits w n <= v)) /\
  (dbg = false -> I_Shr_prim dbg w ty a v = Ret (I_wrapping_shr w a (v mod 2 ^ 32))).
Proof. exact I_Shr_prim_panics. Qed.
Print Assumptions C04_I_Shr_prim.

(* pow: debug builds panic exactly on overflow *)
Theorem C04_U_pow : forall dbg w n a e, 0 < w -> (0 < n)%nat -> wf w n a -> 0 <= e ->
  if dbg && (Mod w n <=? uval w a ^ e) then U_pow dbg w a e = Panic
  else exists r, U_pow dbg w a e = Ret r /\ wf w n r /\ uval w r = (uval w a ^ e) mod Mod w n.
Proof. exact (U_pow_ok mul_spec_holds). Qed.
Print Assumptions C04_U_pow.

Theorem C04_I_pow : forall dbg w n a e, 0 < w -> (0 < n)%nat -> wf w n a -> 0 <= e ->
  if dbg && negb (inS (Mod w n) (sval w a ^ e)) then I_pow dbg w a e = Panic
  else exists r, I_pow dbg w a e = Ret r /\ wf w n r /\ sval w r = wrapS (Mod w n) (sval w a ^ e).
Proof. exact (I_pow_ok mul_spec_holds). Qed.
Print Assumptions C04_I_pow.

(* next_power_of_two: debug builds panic exactly when the next power does not fit; checked never panics *)
Theorem C04_next_power_of_two : forall dbg w n a, 0 < w -> wf w n a ->
  (next_pow2 (uval w a) < Mod w n ->
     exists r, U_next_power_of_two dbg w a = Ret r /\ wf w n r /\ uval w r = next_pow2 (uval w a)) /\
  (Mod w n <= next_pow2 (uval w a) ->
     U_next_power_of_two dbg w a = if dbg then Panic else Ret (ZERO n)).
Proof. exact U_next_power_of_two_ok. Qed.
Print Assumptions C04_next_power_of_two.

Theorem C04_checked_next_power_of_two_total : forall w n a, 0 < w -> wf w n a ->
  (next_pow2 (uval w a) < Mod w n ->
     exists r, U_checked_next_power_of_two w a = Ret (Some r) /\ wf w n r /\ uval w r = next_pow2 (uval w a)) /\
  (Mod w n <= next_pow2 (uval w a) -> U_checked_next_power_of_two w a = Ret None).
Proof. exact U_checked_next_power_of_two_ok. Qed.
Print Assumptions C04_checked_next_power_of_two_total.

(* strict_* panic in BOTH build modes exactly on overflow *)
Theorem C04_strict_add_sub : forall w n a b, 0 < w -> wf w n a -> wf w n b ->
  (U_strict_add w a b = Panic <-> Mod w n <= uval w a + uval w b) /\
  (U_strict_sub w a b = Panic <-> uval w a < uval w b).
Proof. exact strict_add_sub_panics. Qed.
Print Assumptions C04_strict_add_sub.

(* ilog2 panics exactly for a zero argument (both build modes); the general ilog / ilog10 statements are
   C08_U_ilog / C08_U_ilog10 *)
Theorem C04_ilog2 : forall w n a, 0 < w -> wf w n a ->
  U_ilog2 w a = (if uval w a =? 0 then Panic else Ret (Z.log2 (uval w a))).
Proof. exact U_ilog2_ok. Qed.
Print Assumptions C04_ilog2.

(* the checked_/wrapping_/overflowing_/saturating_ add, sub, mul, neg, abs, shl, shr, pow forms are
   functions into option / pairs / digit lists in the model — they have no Panic value at all, which is the
   model's rendering of "never panic"; that the Rust functions have the same outcomes (catch_unwind sees no
   panic) is what the correspondence check establishes in both build modes *)
Example C04_ex : U_add true 8 [255; 255; 255] [1; 0; 0] = Panic /\
  U_add false 8 [255; 255; 255] [1; 0; 0] = Ret [0; 0; 0] /\
  U_Shl_prim true 8 AI8 [1; 0; 0] (-1) = Panic /\ U_Shl_prim false 8 AI8 [1; 0; 0] (-1) = Ret [0; 0; 128].
Proof. vm_compute. repeat split. Qed.
(* ==== glue tie, round 2 (text written by tools/mk_gluetie.py; keep at the END of the file) ==== *)
(* ---- tie to the source, second round: the non-loop functions (the operator trait impls of src/int/ops.rs (impls!), src/buint/ops.rs, src/bint/ops.rs that forward to the inherent methods: Add Sub Mul Div Rem Neg Not BitAnd BitOr BitXor, Div / Rem by a digit, Shl / Shr for the twelve primitive amount types (shift_impl!, try_shift_impl! expansions: widening cast, or u32::try_from + expect in debug builds and `as u32` otherwise)) REGENERATED from /repo/src on every run
   (Generated/Glue.v, tools/rs2v_glue.py) are the model's, function by function, for every digit width, digit count,
   build mode and operand (no well-formedness hypothesis): an edit of the source that changes what one of these
   functions computes or delegates to breaks this theorem ---- *)
From Bnum.Model Require Import Digit Core Shift AddSub Mul Div Bits Pow.
From Bnum.Model Require Ops NumTraits.
From Bnum.Generated Require Import Glue.
From Bnum.Proofs Require Import GlueTieCommon GlueTieC04.
Theorem C04_glue_rs_matches_model :
  (forall dbg w a b, Glue.U_Add_add dbg w a b = U_add dbg w a b) /\
  (forall dbg w a b, Glue.U_Mul_mul dbg w a b = U_mul dbg w a b) /\
  (forall dbg w a b, Glue.U_Sub_sub dbg w a b = U_sub dbg w a b) /\
  (forall dbg w a b, Glue.I_Add_add dbg w a b = I_add dbg w a b) /\
  (forall dbg w a b, Glue.I_Mul_mul dbg w a b = I_mul dbg w a b) /\
  (forall dbg w a b, Glue.I_Sub_sub dbg w a b = I_sub dbg w a b) /\
  (forall w a, Glue.U_Not_ref_not w a = bitnot w a) /\
  (forall w a, Glue.I_Not_ref_not w a = bitnot w a) /\
  (forall dbg w a k, Glue.U_Shl_ExpType_shl dbg w a k = Ops.U_Shl_prim dbg w Ops.AU32 a k) /\
  (forall dbg w a k, Glue.U_Shr_ExpType_shr dbg w a k = Ops.U_Shr_prim dbg w Ops.AU32 a k) /\
  (forall dbg w a k, Glue.I_Shl_ExpType_shl dbg w a k = Ops.I_Shl_prim dbg w Ops.AU32 a k) /\
  (forall dbg w a k, Glue.I_Shr_ExpType_shr dbg w a k = Ops.I_Shr_prim dbg w Ops.AU32 a k) /\
  (forall w a b, Glue.U_BitAnd_bitand w a b = bitand a b) /\
  (forall w a b, Glue.U_BitOr_bitor w a b = bitor a b) /\
  (forall w a b, Glue.U_BitXor_bitxor w a b = bitxor a b) /\
  (forall w a b, Glue.U_Div_div w a b = U_div w a b) /\
  (forall w a b, Glue.U_Rem_rem w a b = U_rem w a b) /\
  (forall w a, Glue.U_Not_not w a = bitnot w a) /\
  (forall w a k, Glue.U_Div_digit_div w a k = Ops.U_Div_digit w a k) /\
  (forall w a k, Glue.U_Rem_digit_rem w a k = Ops.U_Rem_digit w a k) /\
  (forall dbg w a, Glue.I_Neg_neg dbg w a = I_neg dbg w a) /\
  (forall dbg w a, Glue.I_Neg_ref_neg dbg w a = I_neg dbg w a) /\
  (forall w a b, Glue.I_BitAnd_bitand w a b = bitand a b) /\
  (forall w a b, Glue.I_BitOr_bitor w a b = bitor a b) /\
  (forall w a b, Glue.I_BitXor_bitxor w a b = bitxor a b) /\
  (forall dbg w a b, Glue.I_Div_div dbg w a b = I_div dbg w a b) /\
  (forall dbg w a b, Glue.I_Rem_rem dbg w a b = I_rem dbg w a b) /\
  (forall w a, Glue.I_Not_not w a = bitnot w a) /\
  (forall dbg w a k, Glue.U_Shl_u8_shl dbg w a k = Ops.U_Shl_prim dbg w Ops.AU8 a k) /\
  (forall dbg w a k, Glue.I_Shl_u8_shl dbg w a k = Ops.I_Shl_prim dbg w Ops.AU8 a k) /\
  (forall dbg w a k, Glue.U_Shl_u16_shl dbg w a k = Ops.U_Shl_prim dbg w Ops.AU16 a k) /\
  (forall dbg w a k, Glue.I_Shl_u16_shl dbg w a k = Ops.I_Shl_prim dbg w Ops.AU16 a k) /\
  (forall dbg w a k, Glue.U_Shl_i8_shl dbg w a k = Ops.U_Shl_prim dbg w Ops.AI8 a k) /\
  (forall dbg w a k, Glue.I_Shl_i8_shl dbg w a k = Ops.I_Shl_prim dbg w Ops.AI8 a k) /\
  (forall dbg w a k, Glue.U_Shl_i16_shl dbg w a k = Ops.U_Shl_prim dbg w Ops.AI16 a k) /\
  (forall dbg w a k, Glue.I_Shl_i16_shl dbg w a k = Ops.I_Shl_prim dbg w Ops.AI16 a k) /\
  (forall dbg w a k, Glue.U_Shl_i32_shl dbg w a k = Ops.U_Shl_prim dbg w Ops.AI32 a k) /\
  (forall dbg w a k, Glue.I_Shl_i32_shl dbg w a k = Ops.I_Shl_prim dbg w Ops.AI32 a k) /\
  (forall dbg w a k, Glue.U_Shl_isize_shl dbg w a k = Ops.U_Shl_prim dbg w Ops.AIsize a k) /\
  (forall dbg w a k, Glue.I_Shl_isize_shl dbg w a k = Ops.I_Shl_prim dbg w Ops.AIsize a k) /\
  (forall dbg w a k, Glue.U_Shl_i64_shl dbg w a k = Ops.U_Shl_prim dbg w Ops.AI64 a k) /\
  (forall dbg w a k, Glue.I_Shl_i64_shl dbg w a k = Ops.I_Shl_prim dbg w Ops.AI64 a k) /\
  (forall dbg w a k, Glue.U_Shl_i128_shl dbg w a k = Ops.U_Shl_prim dbg w Ops.AI128 a k) /\
  (forall dbg w a k, Glue.I_Shl_i128_shl dbg w a k = Ops.I_Shl_prim dbg w Ops.AI128 a k) /\
  (forall dbg w a k, Glue.U_Shl_usize_shl dbg w a k = Ops.U_Shl_prim dbg w Ops.AUsize a k) /\
  (forall dbg w a k, Glue.I_Shl_usize_shl dbg w a k = Ops.I_Shl_prim dbg w Ops.AUsize a k) /\
  (forall dbg w a k, Glue.U_Shl_u64_shl dbg w a k = Ops.U_Shl_prim dbg w Ops.AU64 a k) /\
  (forall dbg w a k, Glue.I_Shl_u64_shl dbg w a k = Ops.I_Shl_prim dbg w Ops.AU64 a k) /\
  (forall dbg w a k, Glue.U_Shl_u128_shl dbg w a k = Ops.U_Shl_prim dbg w Ops.AU128 a k) /\
  (forall dbg w a k, Glue.I_Shl_u128_shl dbg w a k = Ops.I_Shl_prim dbg w Ops.AU128 a k) /\
  (forall dbg w a k, Glue.U_Shr_u8_shr dbg w a k = Ops.U_Shr_prim dbg w Ops.AU8 a k) /\
  (forall dbg w a k, Glue.I_Shr_u8_shr dbg w a k = Ops.I_Shr_prim dbg w Ops.AU8 a k) /\
  (forall dbg w a k, Glue.U_Shr_u16_shr dbg w a k = Ops.U_Shr_prim dbg w Ops.AU16 a k) /\
  (forall dbg w a k, Glue.I_Shr_u16_shr dbg w a k = Ops.I_Shr_prim dbg w Ops.AU16 a k) /\
  (forall dbg w a k, Glue.U_Shr_i8_shr dbg w a k = Ops.U_Shr_prim dbg w Ops.AI8 a k) /\
  (forall dbg w a k, Glue.I_Shr_i8_shr dbg w a k = Ops.I_Shr_prim dbg w Ops.AI8 a k) /\
  (forall dbg w a k, Glue.U_Shr_i16_shr dbg w a k = Ops.U_Shr_prim dbg w Ops.AI16 a k) /\
  (forall dbg w a k, Glue.I_Shr_i16_shr dbg w a k = Ops.I_Shr_prim dbg w Ops.AI16 a k) /\
  (forall dbg w a k, Glue.U_Shr_i32_shr dbg w a k = Ops.U_Shr_prim dbg w Ops.AI32 a k) /\
  (forall dbg w a k, Glue.I_Shr_i32_shr dbg w a k = Ops.I_Shr_prim dbg w Ops.AI32 a k) /\
  (forall dbg w a k, Glue.U_Shr_isize_shr dbg w a k = Ops.U_Shr_prim dbg w Ops.AIsize a k) /\
  (forall dbg w a k, Glue.I_Shr_isize_shr dbg w a k = Ops.I_Shr_prim dbg w Ops.AIsize a k) /\
  (forall dbg w a k, Glue.U_Shr_i64_shr dbg w a k = Ops.U_Shr_prim dbg w Ops.AI64 a k) /\
  (forall dbg w a k, Glue.I_Shr_i64_shr dbg w a k = Ops.I_Shr_prim dbg w Ops.AI64 a k) /\
  (forall dbg w a k, Glue.U_Shr_i128_shr dbg w a k = Ops.U_Shr_prim dbg w Ops.AI128 a k) /\
  (forall dbg w a k, Glue.I_Shr_i128_shr dbg w a k = Ops.I_Shr_prim dbg w Ops.AI128 a k) /\
  (forall dbg w a k, Glue.U_Shr_usize_shr dbg w a k = Ops.U_Shr_prim dbg w Ops.AUsize a k) /\
  (forall dbg w a k, Glue.I_Shr_usize_shr dbg w a k = Ops.I_Shr_prim dbg w Ops.AUsize a k) /\
  (forall dbg w a k, Glue.U_Shr_u64_shr dbg w a k = Ops.U_Shr_prim dbg w Ops.AU64 a k) /\
  (forall dbg w a k, Glue.I_Shr_u64_shr dbg w a k = Ops.I_Shr_prim dbg w Ops.AU64 a k) /\
  (forall dbg w a k, Glue.U_Shr_u128_shr dbg w a k = Ops.U_Shr_prim dbg w Ops.AU128 a k) /\
  (forall dbg w a k, Glue.I_Shr_u128_shr dbg w a k = Ops.I_Shr_prim dbg w Ops.AU128 a k).
Proof. exact glue_ops_matches_model. Qed.
Print Assumptions C04_glue_rs_matches_model.

(* Properties/C01.v — C01: "Add, subtract, negate, abs are exact mod 2^BITS in every
   overflow mode".  Statements only; proofs are in Proofs/AddSub.v (+ AddSubLemmas.v, Bitwise.v).
   Notation in comments: A = uval w a, SA = sval w a, M = Mod w n = 2^BITS.
   Side-condition sets: (H0) 0 < w, operands well-formed, any n;
                     (H1) H0 and 0 < n  (anything reading a sign bit, or adding the constant ONE);
                     (H2) H0 and 1 < bits w n  (signed carrying_add / borrowing_sub: +ONE must be +1);
                     (H3) 2 <= w and 0 < n  (midpoint: shift by one bit stays inside a digit). *)
From Bnum Require Import Base Prim.
From Bnum.Model Require Import Digit Core Shift AddSub.
From Bnum.Proofs Require Import AddSub.


(* ---- 1. unsigned overflowing add / sub ---- *)

Theorem C01_U_overflowing_add w n a b : 0 < w -> wf w n a -> wf w n b ->
  let '(r, f) := U_overflowing_add w a b in
  wf w n r /\ uval w r = (uval w a + uval w b) mod Mod w n /\
  f = (Mod w n <=? uval w a + uval w b).
Proof. exact (U_overflowing_add_ok w n a b). Qed.
Print Assumptions C01_U_overflowing_add.

Theorem C01_U_overflowing_sub w n a b : 0 < w -> wf w n a -> wf w n b ->
  let '(r, f) := U_overflowing_sub w a b in
  wf w n r /\ uval w r = (uval w a - uval w b) mod Mod w n /\
  f = (uval w a <? uval w b).
Proof. exact (U_overflowing_sub_ok w n a b). Qed.
Print Assumptions C01_U_overflowing_sub.

(* ---- 2. unsigned add_signed / neg ---- *)

Theorem C01_U_overflowing_add_signed w n a b : 0 < w -> (0 < n)%nat -> wf w n a -> wf w n b ->
  let '(r, f) := U_overflowing_add_signed w a b in
  wf w n r /\ uval w r = (uval w a + sval w b) mod Mod w n /\
  f = negb (inU (Mod w n) (uval w a + sval w b)).
Proof. exact (U_overflowing_add_signed_ok w n a b). Qed.
Print Assumptions C01_U_overflowing_add_signed.

Theorem C01_U_overflowing_neg w n a : 0 < w -> (0 < n)%nat -> wf w n a ->
  let '(r, f) := U_overflowing_neg w a in
  wf w n r /\ uval w r = (- uval w a) mod Mod w n /\
  f = negb (uval w a =? 0).
Proof. exact (U_overflowing_neg_ok w n a). Qed.
Print Assumptions C01_U_overflowing_neg.

(* ---- 3. unsigned carrying_add / borrowing_sub ---- *)

Theorem C01_U_carrying_add w n a b c : 0 < w -> (0 < n)%nat -> wf w n a -> wf w n b ->
  let '(r, f) := U_carrying_add w a b c in
  wf w n r /\ uval w r = (uval w a + uval w b + b2z c) mod Mod w n /\
  f = (Mod w n <=? uval w a + uval w b + b2z c).
Proof. exact (U_carrying_add_ok w n a b c). Qed.
Print Assumptions C01_U_carrying_add.

Theorem C01_U_borrowing_sub w n a b c : 0 < w -> (0 < n)%nat -> wf w n a -> wf w n b ->
  let '(r, f) := U_borrowing_sub w a b c in
  wf w n r /\ uval w r = (uval w a - uval w b - b2z c) mod Mod w n /\
  f = (uval w a <? uval w b + b2z c).
Proof. exact (U_borrowing_sub_ok w n a b c). Qed.
Print Assumptions C01_U_borrowing_sub.

(* ---- 4. signed overflowing family, carrying / borrowing ---- *)

Theorem C01_I_overflowing_add w n a b : 0 < w -> (0 < n)%nat -> wf w n a -> wf w n b ->
  let '(r, f) := I_overflowing_add w a b in
  wf w n r /\ sval w r = wrapS (Mod w n) (sval w a + sval w b) /\
  f = negb (inS (Mod w n) (sval w a + sval w b)).
Proof. exact (I_overflowing_add_ok w n a b). Qed.
Print Assumptions C01_I_overflowing_add.

Theorem C01_I_overflowing_sub w n a b : 0 < w -> (0 < n)%nat -> wf w n a -> wf w n b ->
  let '(r, f) := I_overflowing_sub w a b in
  wf w n r /\ sval w r = wrapS (Mod w n) (sval w a - sval w b) /\
  f = negb (inS (Mod w n) (sval w a - sval w b)).
Proof. exact (I_overflowing_sub_ok w n a b). Qed.
Print Assumptions C01_I_overflowing_sub.

Theorem C01_I_overflowing_neg w n a : 0 < w -> (0 < n)%nat -> wf w n a ->
  let '(r, f) := I_overflowing_neg w a in
  wf w n r /\ sval w r = wrapS (Mod w n) (- sval w a) /\
  f = negb (inS (Mod w n) (- sval w a)).
Proof. exact (I_overflowing_neg_ok w n a). Qed.
Print Assumptions C01_I_overflowing_neg.

Theorem C01_I_overflowing_abs w n a : 0 < w -> (0 < n)%nat -> wf w n a ->
  let '(r, f) := I_overflowing_abs w a in
  wf w n r /\ sval w r = wrapS (Mod w n) (Z.abs (sval w a)) /\
  f = negb (inS (Mod w n) (Z.abs (sval w a))).
Proof. exact (I_overflowing_abs_ok w n a). Qed.
Print Assumptions C01_I_overflowing_abs.

Theorem C01_I_overflowing_add_unsigned w n a b : 0 < w -> (0 < n)%nat -> wf w n a -> wf w n b ->
  let '(r, f) := I_overflowing_add_unsigned w a b in
  wf w n r /\ sval w r = wrapS (Mod w n) (sval w a + uval w b) /\
  f = negb (inS (Mod w n) (sval w a + uval w b)).
Proof. exact (I_overflowing_add_unsigned_ok w n a b). Qed.
Print Assumptions C01_I_overflowing_add_unsigned.

Theorem C01_I_overflowing_sub_unsigned w n a b : 0 < w -> (0 < n)%nat -> wf w n a -> wf w n b ->
  let '(r, f) := I_overflowing_sub_unsigned w a b in
  wf w n r /\ sval w r = wrapS (Mod w n) (sval w a - uval w b) /\
  f = negb (inS (Mod w n) (sval w a - uval w b)).
Proof. exact (I_overflowing_sub_unsigned_ok w n a b). Qed.
Print Assumptions C01_I_overflowing_sub_unsigned.

Theorem C01_I_carrying_add w n a b c : 0 < w -> 1 < bits w n -> wf w n a -> wf w n b ->
  let '(r, f) := I_carrying_add w a b c in
  wf w n r /\ sval w r = wrapS (Mod w n) (sval w a + sval w b + b2z c) /\
  f = negb (inS (Mod w n) (sval w a + sval w b + b2z c)).
Proof. exact (I_carrying_add_ok w n a b c). Qed.
Print Assumptions C01_I_carrying_add.

Theorem C01_I_borrowing_sub w n a b c : 0 < w -> 1 < bits w n -> wf w n a -> wf w n b ->
  let '(r, f) := I_borrowing_sub w a b c in
  wf w n r /\ sval w r = wrapS (Mod w n) (sval w a - sval w b - b2z c) /\
  f = negb (inS (Mod w n) (sval w a - sval w b - b2z c)).
Proof. exact (I_borrowing_sub_ok w n a b c). Qed.
Print Assumptions C01_I_borrowing_sub.

(* ---- 5. projections: checked = None iff flag; wrapping = value; strict = Panic iff flag;
   inherent op = strict when debug assertions are on, wrapping otherwise ---- *)

Theorem C01_I_wrapping_add_eq w n a b : 0 < w -> (0 < n)%nat -> wf w n a -> wf w n b ->
  I_wrapping_add w a b = fst (I_overflowing_add w a b).
Proof. exact (I_wrapping_add_eq w n a b). Qed.
Print Assumptions C01_I_wrapping_add_eq.

Theorem C01_I_wrapping_sub_eq w n a b : 0 < w -> (0 < n)%nat -> wf w n a -> wf w n b ->
  I_wrapping_sub w a b = fst (I_overflowing_sub w a b).
Proof. exact (I_wrapping_sub_eq w n a b). Qed.
Print Assumptions C01_I_wrapping_sub_eq.

Theorem C01_U_add_projections w a b dbg :
  let '(r, f) := U_overflowing_add w a b in
  U_checked_add w a b = (if f then None else Some r) /\
  U_wrapping_add w a b = r /\
  U_strict_add w a b = (if f then Panic else Ret r) /\
  U_add dbg w a b = (if f then (if dbg then Panic else Ret r) else Ret r).
Proof. exact (U_add_projections w a b dbg). Qed.
Print Assumptions C01_U_add_projections.

Theorem C01_U_sub_projections w a b dbg :
  let '(r, f) := U_overflowing_sub w a b in
  U_checked_sub w a b = (if f then None else Some r) /\
  U_wrapping_sub w a b = r /\
  U_strict_sub w a b = (if f then Panic else Ret r) /\
  U_sub dbg w a b = (if f then (if dbg then Panic else Ret r) else Ret r).
Proof. exact (U_sub_projections w a b dbg). Qed.
Print Assumptions C01_U_sub_projections.

Theorem C01_U_add_signed_projections w a b :
  let '(r, f) := U_overflowing_add_signed w a b in
  U_checked_add_signed w a b = (if f then None else Some r) /\
  U_wrapping_add_signed w a b = r.
Proof. exact (U_add_signed_projections w a b). Qed.
Print Assumptions C01_U_add_signed_projections.

Theorem C01_U_checked_neg_zero w n a : 0 < w -> wf w n a ->
  U_checked_neg a = (if uval w a =? 0 then Some a else None).
Proof. exact (U_checked_neg_zero w n a). Qed.
Print Assumptions C01_U_checked_neg_zero.

Theorem C01_U_neg_projections w n a : 0 < w -> (0 < n)%nat -> wf w n a ->
  let '(r, f) := U_overflowing_neg w a in
  U_checked_neg a = (if f then None else Some r) /\
  U_wrapping_neg w a = r /\
  U_strict_neg a = (if f then Panic else Ret r).
Proof. exact (U_neg_projections w n a). Qed.
Print Assumptions C01_U_neg_projections.

Theorem C01_I_add_projections w n a b dbg : 0 < w -> (0 < n)%nat -> wf w n a -> wf w n b ->
  let '(r, f) := I_overflowing_add w a b in
  I_checked_add w a b = (if f then None else Some r) /\
  I_wrapping_add w a b = r /\
  I_strict_add w a b = (if f then Panic else Ret r) /\
  I_add dbg w a b = (if f then (if dbg then Panic else Ret r) else Ret r).
Proof. exact (I_add_projections w n a b dbg). Qed.
Print Assumptions C01_I_add_projections.

Theorem C01_I_sub_projections w n a b dbg : 0 < w -> (0 < n)%nat -> wf w n a -> wf w n b ->
  let '(r, f) := I_overflowing_sub w a b in
  I_checked_sub w a b = (if f then None else Some r) /\
  I_wrapping_sub w a b = r /\
  I_strict_sub w a b = (if f then Panic else Ret r) /\
  I_sub dbg w a b = (if f then (if dbg then Panic else Ret r) else Ret r).
Proof. exact (I_sub_projections w n a b dbg). Qed.
Print Assumptions C01_I_sub_projections.

Theorem C01_I_neg_projections w a dbg :
  let '(r, f) := I_overflowing_neg w a in
  I_checked_neg w a = (if f then None else Some r) /\
  I_wrapping_neg w a = r /\
  I_strict_neg w a = (if f then Panic else Ret r) /\
  I_neg dbg w a = (if f then (if dbg then Panic else Ret r) else Ret r).
Proof. exact (I_neg_projections w a dbg). Qed.
Print Assumptions C01_I_neg_projections.

Theorem C01_I_abs_projections w n a dbg : 0 < w -> (0 < n)%nat -> wf w n a ->
  let '(r, f) := I_overflowing_abs w a in
  I_checked_abs w a = (if f then None else Some r) /\
  I_wrapping_abs w a = r /\
  I_strict_abs w a = (if f then Panic else Ret r) /\
  I_abs dbg w a = (if f then (if dbg then Panic else Ret r) else Ret r).
Proof. exact (I_abs_projections w n a dbg). Qed.
Print Assumptions C01_I_abs_projections.

Theorem C01_I_add_unsigned_projections w a b :
  let '(r, f) := I_overflowing_add_unsigned w a b in
  I_checked_add_unsigned w a b = (if f then None else Some r) /\
  I_wrapping_add_unsigned w a b = r.
Proof. exact (I_add_unsigned_projections w a b). Qed.
Print Assumptions C01_I_add_unsigned_projections.

Theorem C01_I_sub_unsigned_projections w a b :
  let '(r, f) := I_overflowing_sub_unsigned w a b in
  I_checked_sub_unsigned w a b = (if f then None else Some r) /\
  I_wrapping_sub_unsigned w a b = r.
Proof. exact (I_sub_unsigned_projections w a b). Qed.
Print Assumptions C01_I_sub_unsigned_projections.

(* ---- 6. saturating = clamp of the exact result ---- *)

Theorem C01_U_saturating_add w n a b : 0 < w -> wf w n a -> wf w n b ->
  wf w n (U_saturating_add w a b) /\
  uval w (U_saturating_add w a b) = Z.min (Mod w n - 1) (uval w a + uval w b).
Proof. exact (U_saturating_add_ok w n a b). Qed.
Print Assumptions C01_U_saturating_add.

Theorem C01_U_saturating_sub w n a b : 0 < w -> wf w n a -> wf w n b ->
  wf w n (U_saturating_sub w a b) /\
  uval w (U_saturating_sub w a b) = Z.max 0 (uval w a - uval w b).
Proof. exact (U_saturating_sub_ok w n a b). Qed.
Print Assumptions C01_U_saturating_sub.

Theorem C01_U_saturating_add_signed w n a b : 0 < w -> (0 < n)%nat -> wf w n a -> wf w n b ->
  wf w n (U_saturating_add_signed w a b) /\
  uval w (U_saturating_add_signed w a b) = Z.max 0 (Z.min (Mod w n - 1) (uval w a + sval w b)).
Proof. exact (U_saturating_add_signed_ok w n a b). Qed.
Print Assumptions C01_U_saturating_add_signed.

Theorem C01_I_saturating_add w n a b : 0 < w -> (0 < n)%nat -> wf w n a -> wf w n b ->
  wf w n (I_saturating_add w a b) /\
  sval w (I_saturating_add w a b) = Z.max (- (Mod w n / 2)) (Z.min (Mod w n / 2 - 1) (sval w a + sval w b)).
Proof. exact (I_saturating_add_ok w n a b). Qed.
Print Assumptions C01_I_saturating_add.

Theorem C01_I_saturating_sub w n a b : 0 < w -> (0 < n)%nat -> wf w n a -> wf w n b ->
  wf w n (I_saturating_sub w a b) /\
  sval w (I_saturating_sub w a b) = Z.max (- (Mod w n / 2)) (Z.min (Mod w n / 2 - 1) (sval w a - sval w b)).
Proof. exact (I_saturating_sub_ok w n a b). Qed.
Print Assumptions C01_I_saturating_sub.

Theorem C01_I_saturating_add_unsigned w n a b : 0 < w -> (0 < n)%nat -> wf w n a -> wf w n b ->
  wf w n (I_saturating_add_unsigned w a b) /\
  sval w (I_saturating_add_unsigned w a b) = Z.max (- (Mod w n / 2)) (Z.min (Mod w n / 2 - 1) (sval w a + uval w b)).
Proof. exact (I_saturating_add_unsigned_ok w n a b). Qed.
Print Assumptions C01_I_saturating_add_unsigned.

Theorem C01_I_saturating_sub_unsigned w n a b : 0 < w -> (0 < n)%nat -> wf w n a -> wf w n b ->
  wf w n (I_saturating_sub_unsigned w a b) /\
  sval w (I_saturating_sub_unsigned w a b) = Z.max (- (Mod w n / 2)) (Z.min (Mod w n / 2 - 1) (sval w a - uval w b)).
Proof. exact (I_saturating_sub_unsigned_ok w n a b). Qed.
Print Assumptions C01_I_saturating_sub_unsigned.

Theorem C01_I_saturating_neg w n a : 0 < w -> (0 < n)%nat -> wf w n a ->
  wf w n (I_saturating_neg w a) /\
  sval w (I_saturating_neg w a) = Z.max (- (Mod w n / 2)) (Z.min (Mod w n / 2 - 1) (- sval w a)).
Proof. exact (I_saturating_neg_ok w n a). Qed.
Print Assumptions C01_I_saturating_neg.

Theorem C01_I_saturating_abs w n a : 0 < w -> (0 < n)%nat -> wf w n a ->
  wf w n (I_saturating_abs w a) /\
  sval w (I_saturating_abs w a) = Z.max (- (Mod w n / 2)) (Z.min (Mod w n / 2 - 1) (Z.abs (sval w a))).
Proof. exact (I_saturating_abs_ok w n a). Qed.
Print Assumptions C01_I_saturating_abs.

(* ---- 7. abs_diff, unsigned_abs ---- *)

Theorem C01_U_abs_diff w n a b : 0 < w -> wf w n a -> wf w n b ->
  wf w n (U_abs_diff w a b) /\ uval w (U_abs_diff w a b) = Z.abs (uval w a - uval w b).
Proof. exact (U_abs_diff_ok w n a b). Qed.
Print Assumptions C01_U_abs_diff.

Theorem C01_I_abs_diff w n a b : 0 < w -> (0 < n)%nat -> wf w n a -> wf w n b ->
  wf w n (I_abs_diff w a b) /\ uval w (I_abs_diff w a b) = Z.abs (sval w a - sval w b).
Proof. exact (I_abs_diff_ok w n a b). Qed.
Print Assumptions C01_I_abs_diff.

Theorem C01_I_unsigned_abs w n a : 0 < w -> (0 < n)%nat -> wf w n a ->
  wf w n (I_unsigned_abs w a) /\ uval w (I_unsigned_abs w a) = Z.abs (sval w a).
Proof. exact (I_unsigned_abs_ok w n a). Qed.
Print Assumptions C01_I_unsigned_abs.

(* ---- 8. midpoint: never panics (in either build mode) and is exact ---- *)

Theorem C01_U_midpoint dbg w n a b : 2 <= w -> (0 < n)%nat -> wf w n a -> wf w n b ->
  exists r, U_midpoint dbg w a b = Ret r /\ wf w n r /\ uval w r = (uval w a + uval w b) / 2.
Proof. exact (U_midpoint_ok dbg w n a b). Qed.
Print Assumptions C01_U_midpoint.

Theorem C01_I_midpoint dbg w n a b : 2 <= w -> (0 < n)%nat -> wf w n a -> wf w n b ->
  exists r, I_midpoint dbg w a b = Ret r /\ wf w n r /\ sval w r = Z.quot (sval w a + sval w b) 2.
Proof. exact (I_midpoint_ok dbg w n a b). Qed.
Print Assumptions C01_I_midpoint.


(* ---- non-vacuity: concrete well-formed operands (w = 8, n = 3, i.e. 24-bit) and what the model returns ---- *)

Local Notation ok ds := (wfb 8 3 ds = true).

(* H0: 16777160 + 100 wraps to 44 with carry; 100 - 16777160 borrows *)
Example ex_U_overflowing_add_sub :
  ok [200;255;255] /\ ok [100;0;0] /\
  U_overflowing_add 8 [200;255;255] [100;0;0] = ([44;0;0], true) /\
  U_overflowing_sub 8 [100;0;0] [200;255;255] = ([156;0;0], true) /\
  U_saturating_add 8 [200;255;255] [100;0;0] = [255;255;255] /\
  U_abs_diff 8 [100;0;0] [200;255;255] = [100;255;255] /\
  U_add true 8 [200;255;255] [100;0;0] = Panic /\
  U_add false 8 [200;255;255] [100;0;0] = Ret [44;0;0].
Proof. vm_compute. repeat split; reflexivity. Qed.

(* H1: 100 + (-3) = 97 without overflow; -(100) overflows in the unsigned type; carry-in *)
Example ex_U_signed_neg_carry :
  ok [100;0;0] /\ ok [253;255;255] /\ sval 8 [253;255;255] = -3 /\
  U_overflowing_add_signed 8 [100;0;0] [253;255;255] = ([97;0;0], false) /\
  U_overflowing_neg 8 [100;0;0] = ([156;255;255], true) /\
  U_checked_neg [0;0;0] = Some [0;0;0] /\ U_checked_neg [100;0;0] = None /\
  U_carrying_add 8 [200;255;255] [100;0;0] true = ([45;0;0], true) /\
  U_borrowing_sub 8 [100;0;0] [100;0;0] true = ([255;255;255], true).
Proof. vm_compute. repeat split; reflexivity. Qed.

(* H1, signed: MAX + 1 wraps to MIN with overflow; -MIN = MIN with overflow; |-3| = 3 *)
Example ex_I_overflowing :
  ok [255;255;127] /\ ok [1;0;0] /\ ok [0;0;128] /\
  sval 8 [255;255;127] = 8388607 /\ sval 8 [0;0;128] = -8388608 /\
  I_overflowing_add 8 [255;255;127] [1;0;0] = ([0;0;128], true) /\
  I_overflowing_sub 8 [0;0;128] [1;0;0] = ([255;255;127], true) /\
  I_overflowing_neg 8 [0;0;128] = ([0;0;128], true) /\
  I_overflowing_abs 8 [253;255;255] = ([3;0;0], false) /\
  I_overflowing_add_unsigned 8 [253;255;255] [200;255;255] = ([197;255;255], true) /\
  I_overflowing_sub_unsigned 8 [1;0;0] [200;255;255] = ([57;0;0], true) /\
  I_saturating_add 8 [255;255;127] [1;0;0] = [255;255;127] /\
  I_saturating_neg 8 [0;0;128] = [255;255;127] /\
  I_abs true 8 [0;0;128] = Panic /\ I_abs false 8 [0;0;128] = Ret [0;0;128] /\
  I_wrapping_add 8 [255;255;127] [1;0;0] = [0;0;128] /\
  I_abs_diff 8 [253;255;255] [1;0;0] = [4;0;0] /\
  I_unsigned_abs 8 [253;255;255] = [3;0;0].
Proof. vm_compute. repeat split; reflexivity. Qed.

(* H2: 1 < bits 8 3; MAX + 0 + carry overflows, MIN - 0 - borrow overflows *)
Example ex_I_carrying :
  1 < bits 8 3 /\ ok [255;255;127] /\ ok [0;0;0] /\ ok [0;0;128] /\
  I_carrying_add 8 [255;255;127] [0;0;0] true = ([0;0;128], true) /\
  I_borrowing_sub 8 [0;0;128] [0;0;0] true = ([255;255;127], true).
Proof. vm_compute. repeat split; reflexivity. Qed.

(* H3: midpoints whose naive sum overflows; (-3 + 0) quot 2 = -1 (towards zero, not floor) *)
Example ex_midpoint :
  2 <= 8 /\ ok [200;255;255] /\ ok [253;255;255] /\ ok [0;0;128] /\ ok [255;255;127] /\
  U_midpoint true 8 [200;255;255] [200;255;255] = Ret [200;255;255] /\
  U_midpoint true 8 [200;255;255] [100;0;0] = Ret [22;0;128] /\
  I_midpoint true 8 [253;255;255] [0;0;0] = Ret [255;255;255] /\
  I_midpoint true 8 [0;0;128] [253;255;255] = Ret [255;255;191] /\
  I_midpoint true 8 [255;255;127] [255;255;127] = Ret [255;255;127].
Proof. vm_compute. repeat split; try reflexivity; discriminate. Qed.

(* ---- tie to the source: the digit primitives REGENERATED from /repo/src/digit.rs on every run
   (Generated/DigitGen.v, tools/rs2v_digit.py) are the model's digit primitives, for every digit width ---- *)
From Bnum.Model Require Import DigitPrims Digit.
From Bnum.Generated Require Import DigitGen.
From Bnum.Proofs Require Import DigitTie.
Theorem C01_digit_rs_matches_model w : 0 < w ->
  (forall low high, digit_ok w low -> digit_ok w high -> DigitGen.to_double_digit w low high = to_double_digit w low high) /\
  (forall a b c, DigitGen.carrying_add w a b c = carrying_add w a b c) /\
  (forall a b c, DigitGen.borrowing_sub w a b c = borrowing_sub w a b c) /\
  (forall a b c, DigitGen.carrying_add_signed w a b c = carrying_add_signed w a b c) /\
  (forall a b c, DigitGen.borrowing_sub_signed w a b c = borrowing_sub_signed w a b c) /\
  (forall a b, digit_ok w a -> digit_ok w b -> DigitGen.widening_mul w a b = widening_mul w a b) /\
  (forall a b c d, digit_ok w a -> digit_ok w b -> digit_ok w c -> digit_ok w d ->
                   DigitGen.carrying_mul w a b c d = carrying_mul w a b c d) /\
  (forall low high rhs, digit_ok w low -> digit_ok w high -> DigitGen.div_rem_wide w low high rhs = div_rem_wide w low high rhs).
Proof. exact (digit_rs_matches_model w). Qed.
Print Assumptions C01_digit_rs_matches_model.

(* ---- tie to the source: the glue layer (add / sub / neg / abs families, comparisons, carrying_add / borrowing_sub) REGENERATED from /repo/src on every run
   (Generated/Glue.v, tools/rs2v_glue.py) is the model's, function by function, for every digit width, digit count,
   build mode and operand (no well-formedness hypothesis): an edit of the source that changes what one of these
   one-line functions delegates to breaks this theorem ---- *)
From Bnum.Model Require Import Digit Core Shift AddSub Mul Div Bits Pow.
From Bnum.Generated Require Import Glue.
From Bnum.Proofs Require Import GlueTieCommon GlueTieC01.
Theorem C01_glue_rs_matches_model :
  (forall w a b, Glue.U_checked_add w a b = U_checked_add w a b) /\
  (forall w a b, Glue.U_checked_add_signed w a b = U_checked_add_signed w a b) /\
  (forall w a b, Glue.U_checked_sub w a b = U_checked_sub w a b) /\
  (forall w a, Glue.U_checked_neg w a = U_checked_neg a) /\
  (forall w a b, Glue.U_wrapping_add w a b = U_wrapping_add w a b) /\
  (forall w a b, Glue.U_wrapping_add_signed w a b = U_wrapping_add_signed w a b) /\
  (forall w a b, Glue.U_wrapping_sub w a b = U_wrapping_sub w a b) /\
  (forall w a, Glue.U_wrapping_neg w a = U_wrapping_neg w a) /\
  (forall w p, Glue.U_saturate_up w p = saturate_up w p) /\
  (forall w p, Glue.U_saturate_down w p = saturate_down p) /\
  (forall w a b, Glue.U_saturating_add w a b = U_saturating_add w a b) /\
  (forall w a b, Glue.U_saturating_add_signed w a b = U_saturating_add_signed w a b) /\
  (forall w a b, Glue.U_saturating_sub w a b = U_saturating_sub w a b) /\
  (forall w a b, Glue.U_strict_add w a b = U_strict_add w a b) /\
  (forall w a b, Glue.U_strict_sub w a b = U_strict_sub w a b) /\
  (forall w a, Glue.U_strict_neg w a = U_strict_neg a) /\
  (forall w a b, Glue.I_strict_add w a b = I_strict_add w a b) /\
  (forall w a b, Glue.I_strict_sub w a b = I_strict_sub w a b) /\
  (forall w a, Glue.I_strict_neg w a = I_strict_neg w a) /\
  (forall w a b, Glue.U_strict_add_signed w a b = option_expect (U_checked_add_signed w a b)) /\
  (forall w a, Glue.I_strict_abs w a = I_strict_abs w a) /\
  (forall w a b, Glue.I_strict_add_unsigned w a b = option_expect (I_checked_add_unsigned w a b)) /\
  (forall w a b, Glue.I_strict_sub_unsigned w a b = option_expect (I_checked_sub_unsigned w a b)) /\
  (forall dbg w a b, Glue.U_add dbg w a b = U_add dbg w a b) /\
  (forall dbg w a b, Glue.U_sub dbg w a b = U_sub dbg w a b) /\
  (forall dbg w a b, Glue.I_add dbg w a b = I_add dbg w a b) /\
  (forall dbg w a b, Glue.I_sub dbg w a b = I_sub dbg w a b) /\
  (forall w a b, Glue.U_max w a b = cmp_max (ucmp a b) a b) /\
  (forall w a b, Glue.U_min w a b = cmp_min (ucmp a b) a b) /\
  (forall w a lo hi, Glue.U_clamp w a lo hi = clamp ucmp a lo hi) /\
  (forall w a b, Glue.U_lt w a b = cmp_lt (ucmp a b)) /\
  (forall w a b, Glue.U_le w a b = cmp_le (ucmp a b)) /\
  (forall w a b, Glue.U_gt w a b = cmp_gt (ucmp a b)) /\
  (forall w a b, Glue.U_ge w a b = cmp_ge (ucmp a b)) /\
  (forall w a b, Glue.I_max w a b = cmp_max (icmp w a b) a b) /\
  (forall w a b, Glue.I_min w a b = cmp_min (icmp w a b) a b) /\
  (forall w a lo hi, Glue.I_clamp w a lo hi = clamp (icmp w) a lo hi) /\
  (forall w a b, Glue.I_lt w a b = cmp_lt (icmp w a b)) /\
  (forall w a b, Glue.I_le w a b = cmp_le (icmp w a b)) /\
  (forall w a b, Glue.I_gt w a b = cmp_gt (icmp w a b)) /\
  (forall w a b, Glue.I_ge w a b = cmp_ge (icmp w a b)) /\
  (forall w a b c, Glue.U_carrying_add w a b c = U_carrying_add w a b c) /\
  (forall w a b c, Glue.U_borrowing_sub w a b c = U_borrowing_sub w a b c) /\
  (forall w a b c, Glue.I_carrying_add w a b c = I_carrying_add w a b c) /\
  (forall w a b c, Glue.I_borrowing_sub w a b c = I_borrowing_sub w a b c) /\
  (forall w a b, Glue.I_checked_add w a b = I_checked_add w a b) /\
  (forall w a b, Glue.I_checked_add_unsigned w a b = I_checked_add_unsigned w a b) /\
  (forall w a b, Glue.I_checked_sub w a b = I_checked_sub w a b) /\
  (forall w a b, Glue.I_checked_sub_unsigned w a b = I_checked_sub_unsigned w a b) /\
  (forall w a, Glue.I_checked_neg w a = I_checked_neg w a) /\
  (forall w a, Glue.I_checked_abs w a = I_checked_abs w a) /\
  (forall w a b, Glue.I_wrapping_add w a b = I_wrapping_add w a b) /\
  (forall w a b, Glue.I_wrapping_add_unsigned w a b = I_wrapping_add_unsigned w a b) /\
  (forall w a b, Glue.I_wrapping_sub w a b = I_wrapping_sub w a b) /\
  (forall w a b, Glue.I_wrapping_sub_unsigned w a b = I_wrapping_sub_unsigned w a b) /\
  (forall w a, Glue.I_wrapping_neg w a = I_wrapping_neg w a) /\
  (forall w a, Glue.I_wrapping_abs w a = I_wrapping_abs w a) /\
  (forall w a b, Glue.I_saturating_add w a b = I_saturating_add w a b) /\
  (forall w a b, Glue.I_saturating_add_unsigned w a b = I_saturating_add_unsigned w a b) /\
  (forall w a b, Glue.I_saturating_sub w a b = I_saturating_sub w a b) /\
  (forall w a b, Glue.I_saturating_sub_unsigned w a b = I_saturating_sub_unsigned w a b) /\
  (forall w a, Glue.I_saturating_neg w a = I_saturating_neg w a) /\
  (forall w a, Glue.I_saturating_abs w a = I_saturating_abs w a) /\
  (forall w a b, Glue.U_overflowing_add_signed w a b = U_overflowing_add_signed w a b) /\
  (forall w a, Glue.U_overflowing_neg w a = U_overflowing_neg w a) /\
  (forall w a b, Glue.I_overflowing_add_unsigned w a b = I_overflowing_add_unsigned w a b) /\
  (forall w a b, Glue.I_overflowing_sub_unsigned w a b = I_overflowing_sub_unsigned w a b) /\
  (forall w a, Glue.I_overflowing_abs w a = I_overflowing_abs w a).
Proof. exact glue_addsub_matches_model. Qed.
Print Assumptions C01_glue_rs_matches_model.
(* ---- tie to the source: the LOOP functions REGENERATED from /repo/src/buint/overflowing.rs and
   /repo/src/buint/ops.rs on every run (Generated/Loops.v, tools/rs2v_loops.py; control-flow vocabulary
   Model/Imp.v) compute exactly the model's functions: with an iteration budget of at least N they neither
   panic nor run out of budget.  (Add<Digit> indexes digit 0: only for N > 0, like the Rust code.) ---- *)
From Bnum.Model Require Import Imp.
From Bnum.Model Require Ops.
From Bnum.Generated Require Import Loops.
From Bnum.Proofs Require Import LoopsTieC01.
Theorem C01_loops_rs_match_model w : 0 < w ->
  (forall n a b fuel, wf w n a -> wf w n b -> (n <= fuel)%nat ->
     Loops.overflowing_add w (Z.of_nat n) fuel a b = Done (U_overflowing_add w a b)) /\
  (forall n a b fuel, wf w n a -> wf w n b -> (n <= fuel)%nat ->
     Loops.overflowing_sub w (Z.of_nat n) fuel a b = Done (U_overflowing_sub w a b)) /\
  (forall n a d fuel, (0 < n)%nat -> wf w n a -> (n <= fuel)%nat ->
     Loops.add_digit w (Z.of_nat n) fuel a d = Done (Ops.U_Add_digit w a d)).
Proof. exact (loops_C01_match_model w). Qed.
Print Assumptions C01_loops_rs_match_model.
(* ==== glue tie, round 2 (text written by tools/mk_gluetie.py; keep at the END of the file) ==== *)
(* ---- tie to the source, second round: the non-loop functions (abs, unsigned_abs, abs_diff, midpoint of buint/mod.rs and bint/mod.rs; BInt::neg; unchecked_add / unchecked_sub) REGENERATED from /repo/src on every run
   (Generated/Glue.v, tools/rs2v_glue.py) are the model's, function by function, for every digit width, digit count,
   build mode and operand (no well-formedness hypothesis): an edit of the source that changes what one of these
   functions computes or delegates to breaks this theorem ---- *)
From Bnum.Model Require Import Digit Core Shift AddSub Mul Div Bits Pow.
From Bnum.Model Require Ops NumTraits.
From Bnum.Generated Require Import Glue.
From Bnum.Proofs Require Import GlueTieCommon GlueTieC01.
Theorem C01_glue2_rs_matches_model :
  (forall dbg w a b, Glue.U_midpoint dbg w a b = U_midpoint dbg w a b) /\
  (forall w a b, Glue.U_abs_diff w a b = U_abs_diff w a b) /\
  (forall w a, Glue.I_unsigned_abs w a = I_unsigned_abs w a) /\
  (forall dbg w a, Glue.I_abs dbg w a = I_abs dbg w a) /\
  (forall dbg w a b, Glue.I_midpoint dbg w a b = I_midpoint dbg w a b) /\
  (forall w a b, Glue.I_abs_diff w a b = I_abs_diff w a b) /\
  (forall dbg w a, Glue.I_neg dbg w a = I_neg dbg w a) /\
  (forall w a b, Glue.U_unchecked_add w a b = U_checked_add w a b) /\
  (forall w a b, Glue.U_unchecked_sub w a b = U_checked_sub w a b) /\
  (forall w a b, Glue.I_unchecked_add w a b = I_checked_add w a b) /\
  (forall w a b, Glue.I_unchecked_sub w a b = I_checked_sub w a b).
Proof. exact glue_addsub2_matches_model. Qed.
Print Assumptions C01_glue2_rs_matches_model.
(* ---- the SIGNED loop functions of /repo/src/bint/overflowing.rs (overflowing_add, overflowing_sub: N-1 unsigned digit
   steps, then `carrying_add_signed` / `borrowing_sub_signed` on the top digits; overflowing_neg: complement-and-increment
   with the early exit), regenerated on every run as Loops.I_*, compute exactly the model's I_* functions.
   N > 0: `Self::N_MINUS_1 = N - 1` (a BInt<0> does not compile). ---- *)
From Bnum.Proofs Require Import LoopsTieC01s.
Theorem C01_loops_signed_rs_match_model w : 0 < w ->
  (forall n a b fuel, (0 < n)%nat -> wf w n a -> wf w n b -> (n <= fuel)%nat ->
     Loops.I_overflowing_add w (Z.of_nat n) fuel a b = Done (I_overflowing_add w a b)) /\
  (forall n a b fuel, (0 < n)%nat -> wf w n a -> wf w n b -> (n <= fuel)%nat ->
     Loops.I_overflowing_sub w (Z.of_nat n) fuel a b = Done (I_overflowing_sub w a b)) /\
  (forall n a fuel, (0 < n)%nat -> wf w n a -> (n <= fuel)%nat ->
     Loops.I_overflowing_neg w (Z.of_nat n) fuel a = Done (I_overflowing_neg w a)).
Proof. exact (loops_C01s_match_model w). Qed.
Print Assumptions C01_loops_signed_rs_match_model.

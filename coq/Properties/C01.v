From Bnum Require Import Base Prim.
From Bnum.Model Require Import Digit Core Shift AddSub.

Theorem C01_placeholder : forall w n ds, 0 <= w -> wf w n ds -> 0 <= uval w ds < Mod w n.
Proof. exact uval_bounds. Qed.
Print Assumptions C01_placeholder.

(* Properties/C10.v — "Parsing accepts exactly the integer grammar and returns the denoted value".
   Model: Model/Parse.v (transcription of src/buint/radix.rs, src/bint/radix.rs, FromStr impls).
   Reference semantics: Proofs/ParseSpec.v (grammar `sign? digit+`, Horner value `denote`, `enc`).
   All theorems hold for every digit width w that is a positive multiple of 8 (the code computes
   BITS / log2(radix) digits per word and casts the radix to the digit type), every digit count
   n >= 1, both build modes (dbg), all byte strings.  The facts about functions modelled in other files
   (overflowing_add, bit, trailing_zeros, wrapping_neg, is_negative) that the development took as
   premises (Proofs/ParseDeps.v) are discharged by the owners' theorems (Proofs/DischargeParse.v):
   no theorem below has a premise of that kind.  Results: POk v / PErr kind / PPanic / PFuel (model out of fuel = the source
   loop would not terminate; excluded by the *_panic theorems).
   Error kinds: Empty = 0, InvalidDigit = 1, PosOverflow = 2, NegOverflow = 3. *)
From Bnum Require Import Base Prim.
From Bnum.Model Require Import Digit Core Shift AddSub Bits Parse.
From Bnum.Proofs Require Import ParseSpec ParseLoops ParseDeps Parse.
From Bnum.Proofs Require Import DischargeParse.

(* ---- well-formed strings: Ok(denoted value) iff representable, else Pos/NegOverflow by sign;
        any number of leading zeros (the grammar does not bound them) ---- *)
Theorem C10_U_from_str_radix_ok :
  forall dbg w n s r,
  0 < w -> w mod 8 = 0 -> (0 < n)%nat -> 2 <= r <= 36 -> grammarb false r s = true ->
  U_from_str_radix dbg w n s r =
    let v := denote false r s in
    if v <? Mod w n then POk (enc w n v) else PErr PosOverflow.
Proof. exact (U_from_str_radix_ok DischargeParse.U_overflowing_add_spec_holds). Qed.
Print Assumptions C10_U_from_str_radix_ok.

Theorem C10_I_from_str_radix_ok :
  forall dbg w n s r,
  0 < w -> w mod 8 = 0 -> (0 < n)%nat -> 2 <= r <= 36 -> grammarb true r s = true ->
  I_from_str_radix dbg w n s r =
    let v := denote true r s in
    if (- (Mod w n / 2) <=? v) && (v <? Mod w n / 2) then POk (enc w n v)
    else PErr (if is_neg true s then NegOverflow else PosOverflow).
Proof. exact (I_from_str_radix_ok DischargeParse.U_overflowing_add_spec_holds DischargeParse.bit_spec_holds DischargeParse.trailing_zeros_spec_holds DischargeParse.I_wrapping_neg_spec_holds DischargeParse.is_negative_spec_holds). Qed.
Print Assumptions C10_I_from_str_radix_ok.

(* ---- empty string, lone sign ---- *)
Theorem C10_U_empty : forall dbg w n r, 2 <= r <= 36 -> U_from_str_radix dbg w n [] r = PErr Empty.
Proof. exact U_from_str_radix_empty. Qed.
Print Assumptions C10_U_empty.
Theorem C10_I_empty : forall dbg w n r, 2 <= r <= 36 -> I_from_str_radix dbg w n [] r = PErr Empty.
Proof. exact I_from_str_radix_empty. Qed.
Print Assumptions C10_I_empty.
Theorem C10_U_lone_sign : forall dbg w n r, 2 <= r <= 36 -> U_from_str_radix dbg w n [43] r = PErr InvalidDigit.
Proof. exact U_from_str_radix_lone_sign. Qed.
Print Assumptions C10_U_lone_sign.
Theorem C10_I_lone_sign : forall dbg w n r b, 2 <= r <= 36 -> b = 43 \/ b = 45 ->
  I_from_str_radix dbg w n [b] r = PErr InvalidDigit.
Proof. exact I_from_str_radix_lone_sign. Qed.
Print Assumptions C10_I_lone_sign.

(* ---- any other string (a character that is not a digit of the radix anywhere: white space,
        non-ASCII, a second sign, '-' for unsigned) is never accepted, and is rejected with
        InvalidDigit whenever its digit positions cannot overflow the type ---- *)
Theorem C10_U_from_str_radix_reject :
  forall dbg w n s r,
  0 < w -> w mod 8 = 0 -> (0 < n)%nat -> 2 <= r <= 36 -> s <> [] -> grammarb false r s = false ->
  exists k, U_from_str_radix dbg w n s r = PErr k /\ (k = InvalidDigit \/ k = PosOverflow) /\
            (r ^ Z.of_nat (length (body false s)) <= Mod w n -> k = InvalidDigit).
Proof. exact (U_from_str_radix_reject DischargeParse.U_overflowing_add_spec_holds). Qed.
Print Assumptions C10_U_from_str_radix_reject.

Theorem C10_I_from_str_radix_reject :
  forall dbg w n s r,
  0 < w -> w mod 8 = 0 -> (0 < n)%nat -> 2 <= r <= 36 -> s <> [] -> grammarb true r s = false ->
  exists k, I_from_str_radix dbg w n s r = PErr k /\
            (k = InvalidDigit \/ k = PosOverflow \/ k = NegOverflow) /\
            (r ^ Z.of_nat (length (body true s)) <= Mod w n -> k = InvalidDigit).
Proof. exact (I_from_str_radix_reject DischargeParse.U_overflowing_add_spec_holds). Qed.
Print Assumptions C10_I_from_str_radix_reject.

(* ---- digit slices: Some(v) iff every digit is below the radix and the Horner value fits.
        Radix 256 goes through the local minimal model of from_be_slice / from_le_slice
        (Model/Parse.v; the faithful model of src/buint/endian.rs is property C15's). ---- *)
Theorem C10_from_radix_be :
  forall dbg w n ds r,
  0 < w -> w mod 8 = 0 -> (0 < n)%nat -> 2 <= r <= 256 -> bytes ds ->
  U_from_radix_be dbg w n ds r =
    POk (if digits_below r ds && (horner r ds <? Mod w n) then Some (digits_of w n (horner r ds)) else None).
Proof. exact (U_from_radix_be_full DischargeParse.U_overflowing_add_spec_holds). Qed.
Print Assumptions C10_from_radix_be.

Theorem C10_from_radix_le :
  forall dbg w n ds r,
  0 < w -> w mod 8 = 0 -> (0 < n)%nat -> 2 <= r <= 256 -> bytes ds ->
  U_from_radix_le dbg w n ds r =
    POk (if digits_below r (rev ds) && (horner r (rev ds) <? Mod w n)
         then Some (digits_of w n (horner r (rev ds))) else None).
Proof. exact (U_from_radix_le_full DischargeParse.U_overflowing_add_spec_holds). Qed.
Print Assumptions C10_from_radix_le.

(* BInt::from_radix_be/le are the unsigned functions followed by from_bits (identity on the digits) *)
Theorem C10_I_from_radix : I_from_radix_be = U_from_radix_be /\ I_from_radix_le = U_from_radix_le.
Proof. exact (conj eq_refl eq_refl). Qed.
Print Assumptions C10_I_from_radix.

(* ---- parse_bytes = from_utf8 then the ok-projection of from_str_radix ---- *)
Theorem C10_U_parse_bytes_projection : forall dbg w n buf r,
  U_parse_bytes dbg w n buf r = if utf8_valid buf then pok (U_from_str_radix dbg w n buf r) else POk None.
Proof. exact U_parse_bytes_projection. Qed.
Print Assumptions C10_U_parse_bytes_projection.
Theorem C10_I_parse_bytes_projection : forall dbg w n buf r,
  I_parse_bytes dbg w n buf r = if utf8_valid buf then pok (I_from_str_radix dbg w n buf r) else POk None.
Proof. exact I_parse_bytes_projection. Qed.
Print Assumptions C10_I_parse_bytes_projection.

Theorem C10_U_parse_bytes_ok :
  forall dbg w n s r,
  0 < w -> w mod 8 = 0 -> (0 < n)%nat -> 2 <= r <= 36 -> grammarb false r s = true ->
  U_parse_bytes dbg w n s r =
    let v := denote false r s in POk (if v <? Mod w n then Some (enc w n v) else None).
Proof. exact (U_parse_bytes_ok DischargeParse.U_overflowing_add_spec_holds). Qed.
Print Assumptions C10_U_parse_bytes_ok.

Theorem C10_U_parse_bytes_reject :
  forall dbg w n s r,
  0 < w -> w mod 8 = 0 -> (0 < n)%nat -> 2 <= r <= 36 -> grammarb false r s = false ->
  U_parse_bytes dbg w n s r = POk None.
Proof. exact (U_parse_bytes_reject DischargeParse.U_overflowing_add_spec_holds). Qed.
Print Assumptions C10_U_parse_bytes_reject.

Theorem C10_I_parse_bytes_ok :
  forall dbg w n s r,
  0 < w -> w mod 8 = 0 -> (0 < n)%nat -> 2 <= r <= 36 -> grammarb true r s = true ->
  I_parse_bytes dbg w n s r =
    pok (let v := denote true r s in
         if (- (Mod w n / 2) <=? v) && (v <? Mod w n / 2) then POk (enc w n v)
         else PErr (if is_neg true s then NegOverflow else PosOverflow)).
Proof. exact (I_parse_bytes_ok DischargeParse.U_overflowing_add_spec_holds DischargeParse.bit_spec_holds DischargeParse.trailing_zeros_spec_holds DischargeParse.I_wrapping_neg_spec_holds DischargeParse.is_negative_spec_holds). Qed.
Print Assumptions C10_I_parse_bytes_ok.

Theorem C10_I_parse_bytes_reject :
  forall dbg w n s r,
  0 < w -> w mod 8 = 0 -> (0 < n)%nat -> 2 <= r <= 36 -> grammarb true r s = false ->
  I_parse_bytes dbg w n s r = POk None.
Proof. exact (I_parse_bytes_reject DischargeParse.U_overflowing_add_spec_holds). Qed.
Print Assumptions C10_I_parse_bytes_reject.

(* ---- FromStr = radix 10 ---- *)
Theorem C10_U_from_str : forall dbg w n s, U_from_str dbg w n s = U_from_str_radix dbg w n s 10.
Proof. exact U_from_str_is_radix_10. Qed.
Print Assumptions C10_U_from_str.
Theorem C10_I_from_str : forall dbg w n s, I_from_str dbg w n s = I_from_str_radix dbg w n s 10.
Proof. exact I_from_str_is_radix_10. Qed.
Print Assumptions C10_I_from_str.

(* ---- panics exactly for an out-of-range radix (and the loops terminate) ---- *)
Theorem C10_U_from_str_radix_panic :
  forall dbg w n s r, 0 < w -> w mod 8 = 0 -> (0 < n)%nat ->
  (U_from_str_radix dbg w n s r = PPanic <-> ~ (2 <= r <= 36)) /\ U_from_str_radix dbg w n s r <> PFuel.
Proof. exact (U_from_str_radix_panic DischargeParse.U_overflowing_add_spec_holds). Qed.
Print Assumptions C10_U_from_str_radix_panic.

Theorem C10_I_from_str_radix_panic :
  forall dbg w n s r, 0 < w -> w mod 8 = 0 -> (0 < n)%nat ->
  (I_from_str_radix dbg w n s r = PPanic <-> ~ (2 <= r <= 36)) /\ I_from_str_radix dbg w n s r <> PFuel.
Proof. exact (I_from_str_radix_panic DischargeParse.U_overflowing_add_spec_holds DischargeParse.bit_spec_holds DischargeParse.trailing_zeros_spec_holds DischargeParse.I_wrapping_neg_spec_holds DischargeParse.is_negative_spec_holds). Qed.
Print Assumptions C10_I_from_str_radix_panic.

Theorem C10_U_parse_bytes_panic :
  forall dbg w n s r, 0 < w -> w mod 8 = 0 -> (0 < n)%nat ->
  U_parse_bytes dbg w n s r = PPanic -> ~ (2 <= r <= 36).
Proof. exact (U_parse_bytes_panic DischargeParse.U_overflowing_add_spec_holds). Qed.
Print Assumptions C10_U_parse_bytes_panic.

Theorem C10_I_parse_bytes_panic :
  forall dbg w n s r, 0 < w -> w mod 8 = 0 -> (0 < n)%nat ->
  I_parse_bytes dbg w n s r = PPanic -> ~ (2 <= r <= 36).
Proof. exact (I_parse_bytes_panic DischargeParse.U_overflowing_add_spec_holds DischargeParse.bit_spec_holds DischargeParse.trailing_zeros_spec_holds DischargeParse.I_wrapping_neg_spec_holds DischargeParse.is_negative_spec_holds). Qed.
Print Assumptions C10_I_parse_bytes_panic.

(* parse_str_radix = from_str_radix with Err turned into a panic *)
Theorem C10_U_parse_str_radix : forall dbg w n s r,
  U_parse_str_radix dbg w n s r = match U_from_str_radix dbg w n s r with PErr _ => PPanic | x => x end.
Proof. exact U_parse_str_radix_def. Qed.
Print Assumptions C10_U_parse_str_radix.
Theorem C10_I_parse_str_radix : forall dbg w n s r,
  I_parse_str_radix dbg w n s r = match I_from_str_radix dbg w n s r with PErr _ => PPanic | x => x end.
Proof. exact I_parse_str_radix_def. Qed.
Print Assumptions C10_I_parse_str_radix.

Theorem C10_from_radix_be_panic :
  forall dbg w n ds r, 0 < w -> w mod 8 = 0 -> (0 < n)%nat -> bytes ds ->
  (U_from_radix_be dbg w n ds r = PPanic <-> ~ (2 <= r <= 256)).
Proof. exact (U_from_radix_be_panic DischargeParse.U_overflowing_add_spec_holds). Qed.
Print Assumptions C10_from_radix_be_panic.

Theorem C10_from_radix_le_panic :
  forall dbg w n ds r, 0 < w -> w mod 8 = 0 -> (0 < n)%nat -> bytes ds ->
  (U_from_radix_le dbg w n ds r = PPanic <-> ~ (2 <= r <= 256)).
Proof. exact (U_from_radix_le_panic DischargeParse.U_overflowing_add_spec_holds). Qed.
Print Assumptions C10_from_radix_le_panic.

(* ---- the hypotheses are satisfiable; concrete instances ---- *)
(* "+00ff" and "-80" are grammar strings in radix 16; "+ 1", "1_0", "-1" (unsigned) are not *)
Example ex_grammar_1 : grammarb false 16 [43; 48; 48; 102; 70] = true /\ denote false 16 [43; 48; 48; 102; 70] = 255.
Proof. split; reflexivity. Qed.
Example ex_grammar_2 : grammarb true 16 [45; 56; 48] = true /\ denote true 16 [45; 56; 48] = -128 /\ is_neg true [45; 56; 48] = true.
Proof. repeat split; reflexivity. Qed.
Example ex_not_grammar : grammarb true 10 [43; 32; 49] = false /\ grammarb true 10 [49; 95; 48] = false /\
                         grammarb false 10 [45; 49] = false /\ grammarb true 10 [45] = false.
Proof. repeat split; reflexivity. Qed.
Example ex_config : 0 < 8 /\ 8 mod 8 = 0 /\ 0 < 64 /\ 64 mod 8 = 0 /\ bytes [0; 255; 7].
Proof. repeat split; try reflexivity; repeat constructor; lia. Qed.
(* the model on the probe of the property record: 17 hex digits with leading zeros on a 64-bit type *)
Example ex_leading_zeros :
  U_from_str_radix true 64 1 [48;48;48;48;48;48;48;48;48;48;48;48;48;48;48;48;49] 16 = POk [1].
Proof. vm_compute. reflexivity. Qed.
Example ex_min : I_from_str_radix false 8 1 [45; 49; 50; 56] 10 = POk [128] /\
                 I_from_str_radix false 8 1 [45; 49; 50; 57] 10 = PErr NegOverflow /\
                 I_from_str_radix false 8 1 [49; 50; 56] 10 = PErr PosOverflow.
Proof. repeat split; vm_compute; reflexivity. Qed.

(* ---- the parsing code GENERATED from /repo/src on every run (tools/rs2v_parse.py -> Generated/ParseGen.v) equals the
   hand-written model the theorems above are about (tools/PARSE_TRANSLATOR.md).  pout_of / pout_val (Proofs/ParseGenTieA.v)
   relate the generated result type to the model's: Done (ROk a) / Done (RErr k) / Panicked / NoFuel  <->
   POk a / PErr (code of k) / PPanic / PFuel.  Preconditions = what the call sites guarantee: a digit width >= 8,
   the radix range asserted by every public entry point, bytes in [0, 256), a leading sign only with a non-empty buffer,
   a digit count >= 1 for the signed wrappers; the budget bounds the iterations of every loop. ---- *)
From Bnum.Model Require Imp ImpParse.
From Bnum.Generated Require ParseGen.
From Bnum.Proofs Require ParseGenTie.
Theorem C10_parse_rs_matches_model (dbg : bool) w n : 8 <= w ->
  (forall N fuel fs b, Bnum.Generated.ParseGen.ParseGen.byte_to_digit w N fuel fs b = Imp.Done (Parse.byte_to_digit fs b)) /\
  (forall N fuel a, 0 < a < 2 ^ 32 -> Bnum.Generated.ParseGen.ParseGen.ilog2 w N fuel a = Imp.Done (Z.log2 a)) /\
  (forall N fuel radix x, (S (Z.to_nat w) <= fuel)%nat -> Parse.radix_base w radix = Some x ->
     Bnum.Generated.ParseGen.ParseGen.radix_base w N fuel radix = Imp.Done x) /\
  (forall fs be buf radix sign fuel,
     2 <= radix <= 256 -> bytes buf -> (sign = true -> (1 <= length buf)%nat) ->
     (length buf + n + Z.to_nat w + 2 <= fuel)%nat ->
     ParseGenTieA.pout_of (Bnum.Generated.ParseGen.ParseGen.from_buf_radix_internal dbg w (Z.of_nat n) fuel fs be buf radix sign)
     = Parse.from_buf_radix_internal fs be dbg w n buf radix sign) /\
  (forall s radix fuel, bytes s -> (length s + n + Z.to_nat w + 2 <= fuel)%nat ->
     ParseGenTieA.pout_of (Bnum.Generated.ParseGen.ParseGen.from_str_radix dbg w (Z.of_nat n) fuel s radix) = U_from_str_radix dbg w n s radix /\
     ParseGenTieA.pout_val (Bnum.Generated.ParseGen.ParseGen.parse_bytes dbg w (Z.of_nat n) fuel s radix) = U_parse_bytes dbg w n s radix /\
     ParseGenTieA.pout_val (Bnum.Generated.ParseGen.ParseGen.parse_str_radix dbg w (Z.of_nat n) fuel s radix) = U_parse_str_radix dbg w n s radix /\
     ParseGenTieA.pout_of (Bnum.Generated.ParseGen.ParseGen.from_str dbg w (Z.of_nat n) fuel s) = U_from_str dbg w n s /\
     ParseGenTieA.pout_val (Bnum.Generated.ParseGen.ParseGen.from_radix_be dbg w (Z.of_nat n) fuel s radix) = U_from_radix_be dbg w n s radix /\
     ParseGenTieA.pout_val (Bnum.Generated.ParseGen.ParseGen.from_radix_le dbg w (Z.of_nat n) fuel s radix) = U_from_radix_le dbg w n s radix /\
     ParseGenTieA.pout_val (Bnum.Generated.ParseGen.ParseGen.I_from_radix_be dbg w (Z.of_nat n) fuel s radix) = I_from_radix_be dbg w n s radix /\
     ParseGenTieA.pout_val (Bnum.Generated.ParseGen.ParseGen.I_from_radix_le dbg w (Z.of_nat n) fuel s radix) = I_from_radix_le dbg w n s radix) /\
  (forall s radix fuel, (0 < n)%nat -> bytes s -> (length s + n + Z.to_nat w + 2 <= fuel)%nat ->
     ParseGenTieA.pout_of (Bnum.Generated.ParseGen.ParseGen.I_from_str_radix dbg w (Z.of_nat n) fuel s radix) = I_from_str_radix dbg w n s radix /\
     ParseGenTieA.pout_val (Bnum.Generated.ParseGen.ParseGen.I_parse_bytes dbg w (Z.of_nat n) fuel s radix) = I_parse_bytes dbg w n s radix /\
     ParseGenTieA.pout_val (Bnum.Generated.ParseGen.ParseGen.I_parse_str_radix dbg w (Z.of_nat n) fuel s radix) = I_parse_str_radix dbg w n s radix /\
     ParseGenTieA.pout_of (Bnum.Generated.ParseGen.ParseGen.I_from_str dbg w (Z.of_nat n) fuel s) = I_from_str dbg w n s).
Proof. exact (ParseGenTie.parse_C10_match_model dbg w n). Qed.
Print Assumptions C10_parse_rs_matches_model.

From Coq Require Import Extraction ExtrOcamlBasic.
From Bnum.Run Require Import RunC01.
Extraction Language OCaml.
Set Extraction Output Directory ".".
Extraction "ex_C01.ml" run_C01.

Base.vo Base.glob Base.v.beautified Base.required_vo: Base.v 
Base.vio: Base.v 
Base.vos Base.vok Base.required_vos: Base.v 
Prim.vo Prim.glob Prim.v.beautified Prim.required_vo: Prim.v Base.vo
Prim.vio: Prim.v Base.vio
Prim.vos Prim.vok Prim.required_vos: Prim.v Base.vos
Model/Digit.vo Model/Digit.glob Model/Digit.v.beautified Model/Digit.required_vo: Model/Digit.v Base.vo Prim.vo
Model/Digit.vio: Model/Digit.v Base.vio Prim.vio
Model/Digit.vos Model/Digit.vok Model/Digit.required_vos: Model/Digit.v Base.vos Prim.vos
Model/Core.vo Model/Core.glob Model/Core.v.beautified Model/Core.required_vo: Model/Core.v Base.vo Prim.vo
Model/Core.vio: Model/Core.v Base.vio Prim.vio
Model/Core.vos Model/Core.vok Model/Core.required_vos: Model/Core.v Base.vos Prim.vos
Model/Shift.vo Model/Shift.glob Model/Shift.v.beautified Model/Shift.required_vo: Model/Shift.v Base.vo Prim.vo Model/Core.vo
Model/Shift.vio: Model/Shift.v Base.vio Prim.vio Model/Core.vio
Model/Shift.vos Model/Shift.vok Model/Shift.required_vos: Model/Shift.v Base.vos Prim.vos Model/Core.vos
Model/AddSub.vo Model/AddSub.glob Model/AddSub.v.beautified Model/AddSub.required_vo: Model/AddSub.v Base.vo Prim.vo Model/Digit.vo Model/Core.vo Model/Shift.vo
Model/AddSub.vio: Model/AddSub.v Base.vio Prim.vio Model/Digit.vio Model/Core.vio Model/Shift.vio
Model/AddSub.vos Model/AddSub.vok Model/AddSub.required_vos: Model/AddSub.v Base.vos Prim.vos Model/Digit.vos Model/Core.vos Model/Shift.vos
Run/RunBase.vo Run/RunBase.glob Run/RunBase.v.beautified Run/RunBase.required_vo: Run/RunBase.v Base.vo
Run/RunBase.vio: Run/RunBase.v Base.vio
Run/RunBase.vos Run/RunBase.vok Run/RunBase.required_vos: Run/RunBase.v Base.vos
Run/RunC01.vo Run/RunC01.glob Run/RunC01.v.beautified Run/RunC01.required_vo: Run/RunC01.v Base.vo Model/Core.vo Model/Shift.vo Model/AddSub.vo Run/RunBase.vo
Run/RunC01.vio: Run/RunC01.v Base.vio Model/Core.vio Model/Shift.vio Model/AddSub.vio Run/RunBase.vio
Run/RunC01.vos Run/RunC01.vok Run/RunC01.required_vos: Run/RunC01.v Base.vos Model/Core.vos Model/Shift.vos Model/AddSub.vos Run/RunBase.vos
Properties/C01.vo Properties/C01.glob Properties/C01.v.beautified Properties/C01.required_vo: Properties/C01.v Base.vo Prim.vo Model/Digit.vo Model/Core.vo Model/Shift.vo Model/AddSub.vo
Properties/C01.vio: Properties/C01.v Base.vio Prim.vio Model/Digit.vio Model/Core.vio Model/Shift.vio Model/AddSub.vio
Properties/C01.vos Properties/C01.vok Properties/C01.required_vos: Properties/C01.v Base.vos Prim.vos Model/Digit.vos Model/Core.vos Model/Shift.vos Model/AddSub.vos
Model/Mul.vo Model/Mul.glob Model/Mul.v.beautified Model/Mul.required_vo: Model/Mul.v Base.vo Prim.vo Model/Digit.vo Model/Core.vo Model/Shift.vo Model/AddSub.vo
Model/Mul.vio: Model/Mul.v Base.vio Prim.vio Model/Digit.vio Model/Core.vio Model/Shift.vio Model/AddSub.vio
Model/Mul.vos Model/Mul.vok Model/Mul.required_vos: Model/Mul.v Base.vos Prim.vos Model/Digit.vos Model/Core.vos Model/Shift.vos Model/AddSub.vos
Model/Div.vo Model/Div.glob Model/Div.v.beautified Model/Div.required_vo: Model/Div.v Base.vo Prim.vo Model/Digit.vo Model/Core.vo Model/Shift.vo Model/AddSub.vo Model/Mul.vo
Model/Div.vio: Model/Div.v Base.vio Prim.vio Model/Digit.vio Model/Core.vio Model/Shift.vio Model/AddSub.vio Model/Mul.vio
Model/Div.vos Model/Div.vok Model/Div.required_vos: Model/Div.v Base.vos Prim.vos Model/Digit.vos Model/Core.vos Model/Shift.vos Model/AddSub.vos Model/Mul.vos
Model/Bits.vo Model/Bits.glob Model/Bits.v.beautified Model/Bits.required_vo: Model/Bits.v Base.vo Prim.vo Model/Core.vo Model/Shift.vo
Model/Bits.vio: Model/Bits.v Base.vio Prim.vio Model/Core.vio Model/Shift.vio
Model/Bits.vos Model/Bits.vok Model/Bits.required_vos: Model/Bits.v Base.vos Prim.vos Model/Core.vos Model/Shift.vos
Model/Pow.vo Model/Pow.glob Model/Pow.v.beautified Model/Pow.required_vo: Model/Pow.v Base.vo Prim.vo Model/Digit.vo Model/Core.vo Model/Shift.vo Model/AddSub.vo Model/Mul.vo Model/Div.vo Model/Bits.vo
Model/Pow.vio: Model/Pow.v Base.vio Prim.vio Model/Digit.vio Model/Core.vio Model/Shift.vio Model/AddSub.vio Model/Mul.vio Model/Div.vio Model/Bits.vio
Model/Pow.vos Model/Pow.vok Model/Pow.required_vos: Model/Pow.v Base.vos Prim.vos Model/Digit.vos Model/Core.vos Model/Shift.vos Model/AddSub.vos Model/Mul.vos Model/Div.vos Model/Bits.vos
Run/RunC02.vo Run/RunC02.glob Run/RunC02.v.beautified Run/RunC02.required_vo: Run/RunC02.v Base.vo Prim.vo Model/Core.vo Model/Shift.vo Model/AddSub.vo Model/Mul.vo Run/RunBase.vo
Run/RunC02.vio: Run/RunC02.v Base.vio Prim.vio Model/Core.vio Model/Shift.vio Model/AddSub.vio Model/Mul.vio Run/RunBase.vio
Run/RunC02.vos Run/RunC02.vok Run/RunC02.required_vos: Run/RunC02.v Base.vos Prim.vos Model/Core.vos Model/Shift.vos Model/AddSub.vos Model/Mul.vos Run/RunBase.vos
Run/RunC03.vo Run/RunC03.glob Run/RunC03.v.beautified Run/RunC03.required_vo: Run/RunC03.v Base.vo Prim.vo Model/Core.vo Model/Shift.vo Model/AddSub.vo Model/Mul.vo Model/Div.vo Run/RunBase.vo
Run/RunC03.vio: Run/RunC03.v Base.vio Prim.vio Model/Core.vio Model/Shift.vio Model/AddSub.vio Model/Mul.vio Model/Div.vio Run/RunBase.vio
Run/RunC03.vos Run/RunC03.vok Run/RunC03.required_vos: Run/RunC03.v Base.vos Prim.vos Model/Core.vos Model/Shift.vos Model/AddSub.vos Model/Mul.vos Model/Div.vos Run/RunBase.vos
Run/RunC05.vo Run/RunC05.glob Run/RunC05.v.beautified Run/RunC05.required_vo: Run/RunC05.v Base.vo Prim.vo Model/Core.vo Model/Shift.vo Run/RunBase.vo
Run/RunC05.vio: Run/RunC05.v Base.vio Prim.vio Model/Core.vio Model/Shift.vio Run/RunBase.vio
Run/RunC05.vos Run/RunC05.vok Run/RunC05.required_vos: Run/RunC05.v Base.vos Prim.vos Model/Core.vos Model/Shift.vos Run/RunBase.vos
Run/RunC06.vo Run/RunC06.glob Run/RunC06.v.beautified Run/RunC06.required_vo: Run/RunC06.v Base.vo Prim.vo Model/Core.vo Model/Shift.vo Model/Bits.vo Run/RunBase.vo
Run/RunC06.vio: Run/RunC06.v Base.vio Prim.vio Model/Core.vio Model/Shift.vio Model/Bits.vio Run/RunBase.vio
Run/RunC06.vos Run/RunC06.vok Run/RunC06.required_vos: Run/RunC06.v Base.vos Prim.vos Model/Core.vos Model/Shift.vos Model/Bits.vos Run/RunBase.vos
Run/RunC07.vo Run/RunC07.glob Run/RunC07.v.beautified Run/RunC07.required_vo: Run/RunC07.v Base.vo Prim.vo Model/Core.vo Model/Shift.vo Model/Bits.vo Run/RunBase.vo
Run/RunC07.vio: Run/RunC07.v Base.vio Prim.vio Model/Core.vio Model/Shift.vio Model/Bits.vio Run/RunBase.vio
Run/RunC07.vos Run/RunC07.vok Run/RunC07.required_vos: Run/RunC07.v Base.vos Prim.vos Model/Core.vos Model/Shift.vos Model/Bits.vos Run/RunBase.vos
Run/RunC08.vo Run/RunC08.glob Run/RunC08.v.beautified Run/RunC08.required_vo: Run/RunC08.v Base.vo Prim.vo Model/Core.vo Model/Shift.vo Model/AddSub.vo Model/Mul.vo Model/Div.vo Model/Bits.vo Model/Pow.vo Run/RunBase.vo
Run/RunC08.vio: Run/RunC08.v Base.vio Prim.vio Model/Core.vio Model/Shift.vio Model/AddSub.vio Model/Mul.vio Model/Div.vio Model/Bits.vio Model/Pow.vio Run/RunBase.vio
Run/RunC08.vos Run/RunC08.vok Run/RunC08.required_vos: Run/RunC08.v Base.vos Prim.vos Model/Core.vos Model/Shift.vos Model/AddSub.vos Model/Mul.vos Model/Div.vos Model/Bits.vos Model/Pow.vos Run/RunBase.vos
Properties/C02.vo Properties/C02.glob Properties/C02.v.beautified Properties/C02.required_vo: Properties/C02.v Base.vo Prim.vo
Properties/C02.vio: Properties/C02.v Base.vio Prim.vio
Properties/C02.vos Properties/C02.vok Properties/C02.required_vos: Properties/C02.v Base.vos Prim.vos
Properties/C03.vo Properties/C03.glob Properties/C03.v.beautified Properties/C03.required_vo: Properties/C03.v Base.vo Prim.vo
Properties/C03.vio: Properties/C03.v Base.vio Prim.vio
Properties/C03.vos Properties/C03.vok Properties/C03.required_vos: Properties/C03.v Base.vos Prim.vos
Properties/C05.vo Properties/C05.glob Properties/C05.v.beautified Properties/C05.required_vo: Properties/C05.v Base.vo Prim.vo
Properties/C05.vio: Properties/C05.v Base.vio Prim.vio
Properties/C05.vos Properties/C05.vok Properties/C05.required_vos: Properties/C05.v Base.vos Prim.vos
Properties/C06.vo Properties/C06.glob Properties/C06.v.beautified Properties/C06.required_vo: Properties/C06.v Base.vo Prim.vo
Properties/C06.vio: Properties/C06.v Base.vio Prim.vio
Properties/C06.vos Properties/C06.vok Properties/C06.required_vos: Properties/C06.v Base.vos Prim.vos
Properties/C07.vo Properties/C07.glob Properties/C07.v.beautified Properties/C07.required_vo: Properties/C07.v Base.vo Prim.vo
Properties/C07.vio: Properties/C07.v Base.vio Prim.vio
Properties/C07.vos Properties/C07.vok Properties/C07.required_vos: Properties/C07.v Base.vos Prim.vos
Properties/C08.vo Properties/C08.glob Properties/C08.v.beautified Properties/C08.required_vo: Properties/C08.v Base.vo Prim.vo
Properties/C08.vio: Properties/C08.v Base.vio Prim.vio
Properties/C08.vos Properties/C08.vok Properties/C08.required_vos: Properties/C08.v Base.vos Prim.vos
Model/FloatCast.vo Model/FloatCast.glob Model/FloatCast.v.beautified Model/FloatCast.required_vo: Model/FloatCast.v Base.vo Prim.vo Model/Digit.vo Model/Core.vo Model/Shift.vo Model/AddSub.vo Model/Bits.vo
Model/FloatCast.vio: Model/FloatCast.v Base.vio Prim.vio Model/Digit.vio Model/Core.vio Model/Shift.vio Model/AddSub.vio Model/Bits.vio
Model/FloatCast.vos Model/FloatCast.vok Model/FloatCast.required_vos: Model/FloatCast.v Base.vos Prim.vos Model/Digit.vos Model/Core.vos Model/Shift.vos Model/AddSub.vos Model/Bits.vos
Run/RunC14.vo Run/RunC14.glob Run/RunC14.v.beautified Run/RunC14.required_vo: Run/RunC14.v Base.vo Prim.vo Model/Core.vo Model/Shift.vo Model/AddSub.vo Model/Bits.vo Model/FloatCast.vo Run/RunBase.vo
Run/RunC14.vio: Run/RunC14.v Base.vio Prim.vio Model/Core.vio Model/Shift.vio Model/AddSub.vio Model/Bits.vio Model/FloatCast.vio Run/RunBase.vio
Run/RunC14.vos Run/RunC14.vok Run/RunC14.required_vos: Run/RunC14.v Base.vos Prim.vos Model/Core.vos Model/Shift.vos Model/AddSub.vos Model/Bits.vos Model/FloatCast.vos Run/RunBase.vos
Properties/C14.vo Properties/C14.glob Properties/C14.v.beautified Properties/C14.required_vo: Properties/C14.v Base.vo Prim.vo Model/Digit.vo Model/Core.vo Model/Shift.vo Model/AddSub.vo Model/Bits.vo Model/FloatCast.vo Proofs/FloatCastDeps.vo Proofs/FloatCast.vo Proofs/FloatCastTo.vo
Properties/C14.vio: Properties/C14.v Base.vio Prim.vio Model/Digit.vio Model/Core.vio Model/Shift.vio Model/AddSub.vio Model/Bits.vio Model/FloatCast.vio Proofs/FloatCastDeps.vio Proofs/FloatCast.vio Proofs/FloatCastTo.vio
Properties/C14.vos Properties/C14.vok Properties/C14.required_vos: Properties/C14.v Base.vos Prim.vos Model/Digit.vos Model/Core.vos Model/Shift.vos Model/AddSub.vos Model/Bits.vos Model/FloatCast.vos Proofs/FloatCastDeps.vos Proofs/FloatCast.vos Proofs/FloatCastTo.vos
Proofs/FloatCastDeps.vo Proofs/FloatCastDeps.glob Proofs/FloatCastDeps.v.beautified Proofs/FloatCastDeps.required_vo: Proofs/FloatCastDeps.v Base.vo Prim.vo Model/Digit.vo Model/Core.vo Model/Shift.vo Model/AddSub.vo Model/Bits.vo
Proofs/FloatCastDeps.vio: Proofs/FloatCastDeps.v Base.vio Prim.vio Model/Digit.vio Model/Core.vio Model/Shift.vio Model/AddSub.vio Model/Bits.vio
Proofs/FloatCastDeps.vos Proofs/FloatCastDeps.vok Proofs/FloatCastDeps.required_vos: Proofs/FloatCastDeps.v Base.vos Prim.vos Model/Digit.vos Model/Core.vos Model/Shift.vos Model/AddSub.vos Model/Bits.vos
Proofs/FloatCast.vo Proofs/FloatCast.glob Proofs/FloatCast.v.beautified Proofs/FloatCast.required_vo: Proofs/FloatCast.v Base.vo Prim.vo Model/Digit.vo Model/Core.vo Model/Shift.vo Model/AddSub.vo Model/Bits.vo Model/FloatCast.vo Proofs/FloatCastDeps.vo
Proofs/FloatCast.vio: Proofs/FloatCast.v Base.vio Prim.vio Model/Digit.vio Model/Core.vio Model/Shift.vio Model/AddSub.vio Model/Bits.vio Model/FloatCast.vio Proofs/FloatCastDeps.vio
Proofs/FloatCast.vos Proofs/FloatCast.vok Proofs/FloatCast.required_vos: Proofs/FloatCast.v Base.vos Prim.vos Model/Digit.vos Model/Core.vos Model/Shift.vos Model/AddSub.vos Model/Bits.vos Model/FloatCast.vos Proofs/FloatCastDeps.vos
Proofs/FloatCastTo.vo Proofs/FloatCastTo.glob Proofs/FloatCastTo.v.beautified Proofs/FloatCastTo.required_vo: Proofs/FloatCastTo.v Base.vo Prim.vo Model/Digit.vo Model/Core.vo Model/Shift.vo Model/AddSub.vo Model/Bits.vo Model/FloatCast.vo Proofs/FloatCastDeps.vo Proofs/FloatCast.vo
Proofs/FloatCastTo.vio: Proofs/FloatCastTo.v Base.vio Prim.vio Model/Digit.vio Model/Core.vio Model/Shift.vio Model/AddSub.vio Model/Bits.vio Model/FloatCast.vio Proofs/FloatCastDeps.vio Proofs/FloatCast.vio
Proofs/FloatCastTo.vos Proofs/FloatCastTo.vok Proofs/FloatCastTo.required_vos: Proofs/FloatCastTo.v Base.vos Prim.vos Model/Digit.vos Model/Core.vos Model/Shift.vos Model/AddSub.vos Model/Bits.vos Model/FloatCast.vos Proofs/FloatCastDeps.vos Proofs/FloatCast.vos

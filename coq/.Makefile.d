Base.vo Base.glob Base.v.beautified Base.required_vo: Base.v 
Base.vio: Base.v 
Base.vos Base.vok Base.required_vos: Base.v 
Prim.vo Prim.glob Prim.v.beautified Prim.required_vo: Prim.v Base.vo
Prim.vio: Prim.v Base.vio
Prim.vos Prim.vok Prim.required_vos: Prim.v Base.vos
Model/Digit.vo Model/Digit.glob Model/Digit.v.beautified Model/Digit.required_vo: Model/Digit.v Base.vo Prim.vo
Model/Digit.vio: Model/Digit.v Base.vio Prim.vio
Model/Digit.vos Model/Digit.vok Model/Digit.required_vos: Model/Digit.v Base.vos Prim.vos
Model/Core.vo Model/Core.glob Model/Core.v.beautified Model/Core.required_vo: Model/Core.v Base.vo Prim.vo
Model/Core.vio: Model/Core.v Base.vio Prim.vio
Model/Core.vos Model/Core.vok Model/Core.required_vos: Model/Core.v Base.vos Prim.vos
Model/Shift.vo Model/Shift.glob Model/Shift.v.beautified Model/Shift.required_vo: Model/Shift.v Base.vo Prim.vo Model/Core.vo
Model/Shift.vio: Model/Shift.v Base.vio Prim.vio Model/Core.vio
Model/Shift.vos Model/Shift.vok Model/Shift.required_vos: Model/Shift.v Base.vos Prim.vos Model/Core.vos
Model/AddSub.vo Model/AddSub.glob Model/AddSub.v.beautified Model/AddSub.required_vo: Model/AddSub.v Base.vo Prim.vo Model/Digit.vo Model/Core.vo Model/Shift.vo
Model/AddSub.vio: Model/AddSub.v Base.vio Prim.vio Model/Digit.vio Model/Core.vio Model/Shift.vio
Model/AddSub.vos Model/AddSub.vok Model/AddSub.required_vos: Model/AddSub.v Base.vos Prim.vos Model/Digit.vos Model/Core.vos Model/Shift.vos
Run/RunBase.vo Run/RunBase.glob Run/RunBase.v.beautified Run/RunBase.required_vo: Run/RunBase.v Base.vo
Run/RunBase.vio: Run/RunBase.v Base.vio
Run/RunBase.vos Run/RunBase.vok Run/RunBase.required_vos: Run/RunBase.v Base.vos
Run/RunC01.vo Run/RunC01.glob Run/RunC01.v.beautified Run/RunC01.required_vo: Run/RunC01.v Base.vo Model/Core.vo Model/Shift.vo Model/AddSub.vo Run/RunBase.vo
Run/RunC01.vio: Run/RunC01.v Base.vio Model/Core.vio Model/Shift.vio Model/AddSub.vio Run/RunBase.vio
Run/RunC01.vos Run/RunC01.vok Run/RunC01.required_vos: Run/RunC01.v Base.vos Model/Core.vos Model/Shift.vos Model/AddSub.vos Run/RunBase.vos
Proofs/Bitwise.vo Proofs/Bitwise.glob Proofs/Bitwise.v.beautified Proofs/Bitwise.required_vo: Proofs/Bitwise.v Base.vo Prim.vo Model/Digit.vo Model/Core.vo Model/Shift.vo
Proofs/Bitwise.vio: Proofs/Bitwise.v Base.vio Prim.vio Model/Digit.vio Model/Core.vio Model/Shift.vio
Proofs/Bitwise.vos Proofs/Bitwise.vok Proofs/Bitwise.required_vos: Proofs/Bitwise.v Base.vos Prim.vos Model/Digit.vos Model/Core.vos Model/Shift.vos
Proofs/AddSubLemmas.vo Proofs/AddSubLemmas.glob Proofs/AddSubLemmas.v.beautified Proofs/AddSubLemmas.required_vo: Proofs/AddSubLemmas.v Base.vo Prim.vo Model/Digit.vo Model/Core.vo Model/Shift.vo Model/AddSub.vo
Proofs/AddSubLemmas.vio: Proofs/AddSubLemmas.v Base.vio Prim.vio Model/Digit.vio Model/Core.vio Model/Shift.vio Model/AddSub.vio
Proofs/AddSubLemmas.vos Proofs/AddSubLemmas.vok Proofs/AddSubLemmas.required_vos: Proofs/AddSubLemmas.v Base.vos Prim.vos Model/Digit.vos Model/Core.vos Model/Shift.vos Model/AddSub.vos
Proofs/AddSub.vo Proofs/AddSub.glob Proofs/AddSub.v.beautified Proofs/AddSub.required_vo: Proofs/AddSub.v Base.vo Prim.vo Model/Digit.vo Model/Core.vo Model/Shift.vo Model/AddSub.vo Proofs/AddSubLemmas.vo Proofs/Bitwise.vo
Proofs/AddSub.vio: Proofs/AddSub.v Base.vio Prim.vio Model/Digit.vio Model/Core.vio Model/Shift.vio Model/AddSub.vio Proofs/AddSubLemmas.vio Proofs/Bitwise.vio
Proofs/AddSub.vos Proofs/AddSub.vok Proofs/AddSub.required_vos: Proofs/AddSub.v Base.vos Prim.vos Model/Digit.vos Model/Core.vos Model/Shift.vos Model/AddSub.vos Proofs/AddSubLemmas.vos Proofs/Bitwise.vos
Properties/C01.vo Properties/C01.glob Properties/C01.v.beautified Properties/C01.required_vo: Properties/C01.v Base.vo Prim.vo Model/Digit.vo Model/Core.vo Model/Shift.vo Model/AddSub.vo Proofs/AddSub.vo
Properties/C01.vio: Properties/C01.v Base.vio Prim.vio Model/Digit.vio Model/Core.vio Model/Shift.vio Model/AddSub.vio Proofs/AddSub.vio
Properties/C01.vos Properties/C01.vok Properties/C01.required_vos: Properties/C01.v Base.vos Prim.vos Model/Digit.vos Model/Core.vos Model/Shift.vos Model/AddSub.vos Proofs/AddSub.vos

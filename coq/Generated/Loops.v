(* GENERATED on every run by tools/rs2v_loops.py from /repo/src/buint/{overflowing,const_trait_fillers,mul,mod,ops,checked,wrapping,cast,convert}.rs
   and /repo/src/bint/overflowing.rs.  Do not edit.  Proofs/LoopsTie*.v prove each function equal to the hand-written model.
   Vocabulary: Model/Imp.v (control flow), Prim.v, Model/DigitPrims.v, Model/LoopPrims.v, Generated/DigitGen.v;
   calls of $BUint methods that are not re-translated are calls of the hand-written model (qualified: Mul.U_overflowing_mul ..). *)
From Bnum Require Import Base Prim.
From Bnum.Model Require Import DigitPrims LoopPrims Core Imp.
From Bnum.Model Require Mul Div AddSub.
From Bnum.Generated Require Import DigitGen.

Module Loops.

(* src/buint/overflowing.rs: fn overflowing_add *)
Definition overflowing_add (w N : Z) (fuel : nat) (self : list Z) (rhs : list Z) : res (list Z * bool) :=
  let out := (ZERO (Z.to_nat N)) in
  let carry := false in
  let i := 0 in
  t3' <- while_loop (R := (list Z * bool)) fuel
    (fun '(out, carry, i) => (i <? N))
    (fun '(out, carry, i) =>
      t1' <- arr_get self i ;;
      t2' <- arr_get rhs i ;;
      let result := (DigitGen.carrying_add w t1' t2' carry) in
      out <- arr_set out i (fst result) ;;
      let carry := (snd result) in
      let i := (i + 1) in
      Done (Continue (out, carry, i)))
    (out, carry, i) ;;
  match t3' with
  | Exited (out, carry, i) =>
      Done (out, carry)
  | Returned t4' => Done t4'
  end.

(* src/buint/overflowing.rs: fn overflowing_sub *)
Definition overflowing_sub (w N : Z) (fuel : nat) (self : list Z) (rhs : list Z) : res (list Z * bool) :=
  let out := (ZERO (Z.to_nat N)) in
  let borrow := false in
  let i := 0 in
  t3' <- while_loop (R := (list Z * bool)) fuel
    (fun '(out, borrow, i) => (i <? N))
    (fun '(out, borrow, i) =>
      t1' <- arr_get self i ;;
      t2' <- arr_get rhs i ;;
      let result := (DigitGen.borrowing_sub w t1' t2' borrow) in
      out <- arr_set out i (fst result) ;;
      let borrow := (snd result) in
      let i := (i + 1) in
      Done (Continue (out, borrow, i)))
    (out, borrow, i) ;;
  match t3' with
  | Exited (out, borrow, i) =>
      Done (out, borrow)
  | Returned t4' => Done t4'
  end.

(* src/buint/const_trait_fillers.rs: fn bitand *)
Definition bitand (w N : Z) (fuel : nat) (self : list Z) (rhs : list Z) : res (list Z) :=
  let out := (ZERO (Z.to_nat N)) in
  let i := 0 in
  t3' <- while_loop (R := list Z) fuel
    (fun '(out, i) => (i <? N))
    (fun '(out, i) =>
      t1' <- arr_get self i ;;
      t2' <- arr_get rhs i ;;
      out <- arr_set out i (dg_and w t1' t2') ;;
      let i := (i + 1) in
      Done (Continue (out, i)))
    (out, i) ;;
  match t3' with
  | Exited (out, i) =>
      Done out
  | Returned t4' => Done t4'
  end.

(* src/buint/const_trait_fillers.rs: fn bitor *)
Definition bitor (w N : Z) (fuel : nat) (self : list Z) (rhs : list Z) : res (list Z) :=
  let out := (ZERO (Z.to_nat N)) in
  let i := 0 in
  t3' <- while_loop (R := list Z) fuel
    (fun '(out, i) => (i <? N))
    (fun '(out, i) =>
      t1' <- arr_get self i ;;
      t2' <- arr_get rhs i ;;
      out <- arr_set out i (dg_or w t1' t2') ;;
      let i := (i + 1) in
      Done (Continue (out, i)))
    (out, i) ;;
  match t3' with
  | Exited (out, i) =>
      Done out
  | Returned t4' => Done t4'
  end.

(* src/buint/const_trait_fillers.rs: fn bitxor *)
Definition bitxor (w N : Z) (fuel : nat) (self : list Z) (rhs : list Z) : res (list Z) :=
  let out := (ZERO (Z.to_nat N)) in
  let i := 0 in
  t3' <- while_loop (R := list Z) fuel
    (fun '(out, i) => (i <? N))
    (fun '(out, i) =>
      t1' <- arr_get self i ;;
      t2' <- arr_get rhs i ;;
      out <- arr_set out i (dg_xor w t1' t2') ;;
      let i := (i + 1) in
      Done (Continue (out, i)))
    (out, i) ;;
  match t3' with
  | Exited (out, i) =>
      Done out
  | Returned t4' => Done t4'
  end.

(* src/buint/const_trait_fillers.rs: fn not *)
Definition not_ (w N : Z) (fuel : nat) (self : list Z) : res (list Z) :=
  let out := (ZERO (Z.to_nat N)) in
  let i := 0 in
  t2' <- while_loop (R := list Z) fuel
    (fun '(out, i) => (i <? N))
    (fun '(out, i) =>
      t1' <- arr_get self i ;;
      out <- arr_set out i (u_not w t1') ;;
      let i := (i + 1) in
      Done (Continue (out, i)))
    (out, i) ;;
  match t2' with
  | Exited (out, i) =>
      Done out
  | Returned t3' => Done t3'
  end.

(* src/buint/const_trait_fillers.rs: fn eq *)
Definition eq_ (w N : Z) (fuel : nat) (self : list Z) (other : list Z) : res (bool) :=
  let i := 0 in
  t3' <- while_loop (R := bool) fuel
    (fun i => (i <? N))
    (fun i =>
      t1' <- arr_get self i ;;
      t2' <- arr_get other i ;;
      if (negb (t1' =? t2')) then (
        Done (Return false)
      ) else (
        let i := (i + 1) in
        Done (Continue i)
      ))
    i ;;
  match t3' with
  | Exited i =>
      Done true
  | Returned t4' => Done t4'
  end.

(* src/buint/const_trait_fillers.rs: fn cmp *)
Definition cmp (w N : Z) (fuel : nat) (self : list Z) (other : list Z) : res (comparison) :=
  let i := N in
  t4' <- while_loop (R := comparison) fuel
    (fun i => (0 <? i))
    (fun i =>
      i <- usub i 1 ;;
      t2' <- arr_get self i ;;
      let a := t2' in
      t3' <- arr_get other i ;;
      let b := t3' in
      if (b <? a) then (
        Done (Return Gt)
      ) else (
        if (a <? b) then (
          Done (Return Lt)
        ) else (
          Done (Continue i)
        )
      ))
    i ;;
  match t4' with
  | Exited i =>
      Done Eq
  | Returned t5' => Done t5'
  end.

(* src/buint/mul.rs: fn long_mul *)
Definition long_mul (w N : Z) (fuel : nat) (self : list Z) (rhs : list Z) : res (list Z * bool) :=
  let overflow := false in
  let out := (ZERO (Z.to_nat N)) in
  let carry := 0 in (* declared without initialiser *)
  let i := 0 in
  t9' <- while_loop (R := (list Z * bool)) fuel
    (fun '(out, overflow, carry, i) => (i <? N))
    (fun '(out, overflow, carry, i) =>
      let carry := 0 in
      let j := 0 in
      t7' <- while_loop (R := (list Z * bool)) fuel
        (fun '(out, overflow, carry, j) => (j <? N))
        (fun '(out, overflow, carry, j) =>
          let index := (i + j) in
          if (index <? N) then (
            t1' <- arr_get self i ;;
            t2' <- arr_get rhs j ;;
            t3' <- arr_get out index ;;
            let pr' := (DigitGen.carrying_mul w t1' t2' carry t3') in
            let prod := (fst pr') in
            let c := (snd pr') in
            out <- arr_set out index prod ;;
            let carry := c in
            let j := (j + 1) in
            Done (Continue (out, overflow, carry, j))
          ) else (
            t4' <- arr_get self i ;;
            t6' <- (if (negb (t4' =? 0)) then (t5' <- arr_get rhs j ;; Done (negb (t5' =? 0))) else Done false) ;;
            if t6' then (
              let overflow := true in
              Done (Break (out, overflow, carry, j))
            ) else (
              let j := (j + 1) in
              Done (Continue (out, overflow, carry, j))
            )
          ))
        (out, overflow, carry, j) ;;
      match t7' with
      | Exited (out, overflow, carry, j) =>
          if (negb (carry =? 0)) then (
            let overflow := true in
            let i := (i + 1) in
            Done (Continue (out, overflow, carry, i))
          ) else (
            let i := (i + 1) in
            Done (Continue (out, overflow, carry, i))
          )
      | Returned t8' => Done (Return t8')
      end)
    (out, overflow, carry, i) ;;
  match t9' with
  | Exited (out, overflow, carry, i) =>
      Done (out, overflow)
  | Returned t10' => Done t10'
  end.

(* src/buint/mod.rs: fn count_ones *)
Definition count_ones (w N : Z) (fuel : nat) (self : list Z) : res (Z) :=
  let ones := 0 in
  let i := 0 in
  t2' <- while_loop (R := Z) fuel
    (fun '(ones, i) => (i <? N))
    (fun '(ones, i) =>
      t1' <- arr_get self i ;;
      let ones := (ones + (u_count_ones t1')) in
      let i := (i + 1) in
      Done (Continue (ones, i)))
    (ones, i) ;;
  match t2' with
  | Exited (ones, i) =>
      Done ones
  | Returned t3' => Done t3'
  end.

(* src/buint/mod.rs: fn count_zeros *)
Definition count_zeros (w N : Z) (fuel : nat) (self : list Z) : res (Z) :=
  let zeros := 0 in
  let i := 0 in
  t2' <- while_loop (R := Z) fuel
    (fun '(zeros, i) => (i <? N))
    (fun '(zeros, i) =>
      t1' <- arr_get self i ;;
      let zeros := (zeros + (u_count_zeros w t1')) in
      let i := (i + 1) in
      Done (Continue (zeros, i)))
    (zeros, i) ;;
  match t2' with
  | Exited (zeros, i) =>
      Done zeros
  | Returned t3' => Done t3'
  end.

(* src/buint/mod.rs: fn leading_zeros *)
Definition leading_zeros (w N : Z) (fuel : nat) (self : list Z) : res (Z) :=
  let zeros := 0 in
  let i := N in
  t3' <- while_loop (R := Z) fuel
    (fun '(zeros, i) => (0 <? i))
    (fun '(zeros, i) =>
      i <- usub i 1 ;;
      t2' <- arr_get self i ;;
      let digit := t2' in
      let zeros := (zeros + (u_leading_zeros w digit)) in
      if (negb (digit =? 0)) then (
        Done (Break (zeros, i))
      ) else (
        Done (Continue (zeros, i))
      ))
    (zeros, i) ;;
  match t3' with
  | Exited (zeros, i) =>
      Done zeros
  | Returned t4' => Done t4'
  end.

(* src/buint/mod.rs: fn trailing_zeros *)
Definition trailing_zeros (w N : Z) (fuel : nat) (self : list Z) : res (Z) :=
  let zeros := 0 in
  let i := 0 in
  t2' <- while_loop (R := Z) fuel
    (fun '(zeros, i) => (i <? N))
    (fun '(zeros, i) =>
      t1' <- arr_get self i ;;
      let digit := t1' in
      let zeros := (zeros + (u_trailing_zeros w digit)) in
      if (negb (digit =? 0)) then (
        Done (Break (zeros, i))
      ) else (
        let i := (i + 1) in
        Done (Continue (zeros, i))
      ))
    (zeros, i) ;;
  match t2' with
  | Exited (zeros, i) =>
      Done zeros
  | Returned t3' => Done t3'
  end.

(* src/buint/mod.rs: fn leading_ones *)
Definition leading_ones (w N : Z) (fuel : nat) (self : list Z) : res (Z) :=
  let ones := 0 in
  let i := N in
  t3' <- while_loop (R := Z) fuel
    (fun '(ones, i) => (0 <? i))
    (fun '(ones, i) =>
      i <- usub i 1 ;;
      t2' <- arr_get self i ;;
      let digit := t2' in
      let ones := (ones + (u_leading_ones w digit)) in
      if (negb (digit =? (u_max w))) then (
        Done (Break (ones, i))
      ) else (
        Done (Continue (ones, i))
      ))
    (ones, i) ;;
  match t3' with
  | Exited (ones, i) =>
      Done ones
  | Returned t4' => Done t4'
  end.

(* src/buint/mod.rs: fn trailing_ones *)
Definition trailing_ones (w N : Z) (fuel : nat) (self : list Z) : res (Z) :=
  let ones := 0 in
  let i := 0 in
  t2' <- while_loop (R := Z) fuel
    (fun '(ones, i) => (i <? N))
    (fun '(ones, i) =>
      t1' <- arr_get self i ;;
      let digit := t1' in
      let ones := (ones + (u_trailing_ones w digit)) in
      if (negb (digit =? (u_max w))) then (
        Done (Break (ones, i))
      ) else (
        let i := (i + 1) in
        Done (Continue (ones, i))
      ))
    (ones, i) ;;
  match t2' with
  | Exited (ones, i) =>
      Done ones
  | Returned t3' => Done t3'
  end.

(* src/buint/mod.rs: fn is_power_of_two *)
Definition is_power_of_two (w N : Z) (fuel : nat) (self : list Z) : res (bool) :=
  let i := 0 in
  let ones := 0 in
  t2' <- while_loop (R := bool) fuel
    (fun '(ones, i) => (i <? N))
    (fun '(ones, i) =>
      t1' <- arr_get self i ;;
      let ones := (ones + (u_count_ones t1')) in
      if (1 <? ones) then (
        Done (Return false)
      ) else (
        let i := (i + 1) in
        Done (Continue (ones, i))
      ))
    (ones, i) ;;
  match t2' with
  | Exited (ones, i) =>
      Done (ones =? 1)
  | Returned t3' => Done t3'
  end.

(* src/buint/mod.rs: fn is_zero *)
Definition is_zero (w N : Z) (fuel : nat) (self : list Z) : res (bool) :=
  let i := 0 in
  t2' <- while_loop (R := bool) fuel
    (fun i => (i <? N))
    (fun i =>
      t1' <- arr_get self i ;;
      if (negb (t1' =? 0)) then (
        Done (Return false)
      ) else (
        let i := (i + 1) in
        Done (Continue i)
      ))
    i ;;
  match t2' with
  | Exited i =>
      Done true
  | Returned t3' => Done t3'
  end.

(* src/buint/mod.rs: fn is_one *)
Definition is_one (w N : Z) (fuel : nat) (self : list Z) : res (bool) :=
  t2' <- (if (N =? 0) then Done true else (t1' <- arr_get self 0 ;; Done (negb (t1' =? 1)))) ;;
  if t2' then (
    Done false
  ) else (
    let i := 1 in
    t4' <- while_loop (R := bool) fuel
      (fun i => (i <? N))
      (fun i =>
        t3' <- arr_get self i ;;
        if (negb (t3' =? 0)) then (
          Done (Return false)
        ) else (
          let i := (i + 1) in
          Done (Continue i)
        ))
      i ;;
    match t4' with
    | Exited i =>
        Done true
    | Returned t5' => Done t5'
    end
  ).

(* src/buint/mod.rs: fn last_digit_index *)
Definition last_digit_index (w N : Z) (fuel : nat) (self : list Z) : res (Z) :=
  let index := 0 in
  let i := 1 in
  t2' <- while_loop (R := Z) fuel
    (fun '(index, i) => (i <? N))
    (fun '(index, i) =>
      t1' <- arr_get self i ;;
      if (negb (t1' =? 0)) then (
        let index := i in
        let i := (i + 1) in
        Done (Continue (index, i))
      ) else (
        let i := (i + 1) in
        Done (Continue (index, i))
      ))
    (index, i) ;;
  match t2' with
  | Exited (index, i) =>
      Done index
  | Returned t3' => Done t3'
  end.

(* src/buint/mod.rs: fn unchecked_shl_internal *)
Definition unchecked_shl_internal (w N : Z) (fuel : nat) (self : list Z) (rhs : Z) : res (list Z) :=
  let out := (ZERO (Z.to_nat N)) in
  let digit_shift := (ix_shr rhs (digit_BIT_SHIFT w)) in
  let bit_shift := (ix_and rhs (digit_BITS_MINUS_1 w)) in
  if (negb (bit_shift =? 0)) then (
    t1' <- usub w bit_shift ;;
    let carry_shift := t1' in
    let carry := 0 in
    let i := digit_shift in
    t6' <- while_loop (R := list Z) fuel
      (fun '(out, carry, i) => (i <? N))
      (fun '(out, carry, i) =>
        t2' <- usub i digit_shift ;;
        t3' <- arr_get self t2' ;;
        let current_digit := t3' in
        t4' <- dshl w current_digit bit_shift ;;
        out <- arr_set out i (dg_or w t4' carry) ;;
        carry <- dshr w current_digit carry_shift ;;
        let i := (i + 1) in
        Done (Continue (out, carry, i)))
      (out, carry, i) ;;
    match t6' with
    | Exited (out, carry, i) =>
        Done out
    | Returned t7' => Done t7'
    end
  ) else (
    let i := digit_shift in
    t10' <- while_loop (R := list Z) fuel
      (fun '(out, i) => (i <? N))
      (fun '(out, i) =>
        t8' <- usub i digit_shift ;;
        t9' <- arr_get self t8' ;;
        out <- arr_set out i t9' ;;
        let i := (i + 1) in
        Done (Continue (out, i)))
      (out, i) ;;
    match t10' with
    | Exited (out, i) =>
        Done out
    | Returned t11' => Done t11'
    end
  ).

(* src/buint/mod.rs: fn unchecked_shr_pad_internal *)
Definition unchecked_shr_pad_internal (w N : Z) (fuel : nat) (NEG : bool) (self : list Z) (rhs : Z) : res (list Z) :=
  let out := (if NEG then (UMAX w (Z.to_nat N)) else (ZERO (Z.to_nat N))) in
  let digit_shift := (ix_shr rhs (digit_BIT_SHIFT w)) in
  let bit_shift := (ix_and rhs (digit_BITS_MINUS_1 w)) in
  let num_copies := (ix_saturating_sub N digit_shift) in
  if (negb (bit_shift =? 0)) then (
    t1' <- usub w bit_shift ;;
    let carry_shift := t1' in
    let carry := 0 in
    let i := digit_shift in
    t7' <- while_loop (R := list Z) fuel
      (fun '(out, carry, i) => (i <? N))
      (fun '(out, carry, i) =>
        t2' <- usub N 1 ;;
        t3' <- usub t2' i ;;
        let index := t3' in
        t4' <- arr_get self (index + digit_shift) ;;
        let current_digit := t4' in
        t5' <- dshr w current_digit bit_shift ;;
        out <- arr_set out index (dg_or w t5' carry) ;;
        carry <- dshl w current_digit carry_shift ;;
        let i := (i + 1) in
        Done (Continue (out, carry, i)))
      (out, carry, i) ;;
    match t7' with
    | Exited (out, carry, i) =>
        if NEG then (
          t9' <- dshl w (u_max w) carry_shift ;;
          t10' <- usub num_copies 1 ;;
          t11' <- arr_get out t10' ;;
          out <- arr_set out t10' (dg_or w t11' t9') ;;
          Done out
        ) else (
          Done out
        )
    | Returned t8' => Done t8'
    end
  ) else (
    let i := digit_shift in
    t14' <- while_loop (R := list Z) fuel
      (fun '(out, i) => (i <? N))
      (fun '(out, i) =>
        t12' <- arr_get self i ;;
        t13' <- usub i digit_shift ;;
        out <- arr_set out t13' t12' ;;
        let i := (i + 1) in
        Done (Continue (out, i)))
      (out, i) ;;
    match t14' with
    | Exited (out, i) =>
        Done out
    | Returned t15' => Done t15'
    end
  ).

(* src/buint/mod.rs: fn rotate_digits_left *)
Definition rotate_digits_left (w N : Z) (fuel : nat) (self : list Z) (n : Z) : res (list Z) :=
  let out := (ZERO (Z.to_nat N)) in
  let i := n in
  t3' <- while_loop (R := list Z) fuel
    (fun '(out, i) => (i <? N))
    (fun '(out, i) =>
      t1' <- usub i n ;;
      t2' <- arr_get self t1' ;;
      out <- arr_set out i t2' ;;
      let i := (i + 1) in
      Done (Continue (out, i)))
    (out, i) ;;
  match t3' with
  | Exited (out, i) =>
      t5' <- usub N n ;;
      let init_index := t5' in
      let i := init_index in
      t8' <- while_loop (R := list Z) fuel
        (fun '(out, i) => (i <? N))
        (fun '(out, i) =>
          t6' <- arr_get self i ;;
          t7' <- usub i init_index ;;
          out <- arr_set out t7' t6' ;;
          let i := (i + 1) in
          Done (Continue (out, i)))
        (out, i) ;;
      match t8' with
      | Exited (out, i) =>
          Done out
      | Returned t9' => Done t9'
      end
  | Returned t4' => Done t4'
  end.

(* src/buint/mod.rs: fn unchecked_rotate_left *)
Definition unchecked_rotate_left (w N : Z) (fuel : nat) (self : list Z) (rhs : Z) : res (list Z) :=
  let digit_shift := (ix_shr rhs (digit_BIT_SHIFT w)) in
  let bit_shift := (ix_and rhs (digit_BITS_MINUS_1 w)) in
  t1' <- rotate_digits_left w N fuel self digit_shift ;;
  let out := t1' in
  if (negb (bit_shift =? 0)) then (
    t2' <- usub w bit_shift ;;
    let carry_shift := t2' in
    let carry := 0 in
    let i := 0 in
    t6' <- while_loop (R := list Z) fuel
      (fun '(out, carry, i) => (i <? N))
      (fun '(out, carry, i) =>
        t3' <- arr_get out i ;;
        let current_digit := t3' in
        t4' <- dshl w current_digit bit_shift ;;
        out <- arr_set out i (dg_or w t4' carry) ;;
        carry <- dshr w current_digit carry_shift ;;
        let i := (i + 1) in
        Done (Continue (out, carry, i)))
      (out, carry, i) ;;
    match t6' with
    | Exited (out, carry, i) =>
        t8' <- arr_get out 0 ;;
        out <- arr_set out 0 (dg_or w t8' carry) ;;
        Done out
    | Returned t7' => Done t7'
    end
  ) else (
    Done out
  ).

(* src/buint/mod.rs: fn swap_bytes *)
Definition swap_bytes (w N : Z) (fuel : nat) (self : list Z) : res (list Z) :=
  let uint := (ZERO (Z.to_nat N)) in
  let i := 0 in
  t4' <- while_loop (R := list Z) fuel
    (fun '(uint, i) => (i <? N))
    (fun '(uint, i) =>
      t1' <- usub N 1 ;;
      t2' <- usub t1' i ;;
      t3' <- arr_get self t2' ;;
      uint <- arr_set uint i (u_swap_bytes w t3') ;;
      let i := (i + 1) in
      Done (Continue (uint, i)))
    (uint, i) ;;
  match t4' with
  | Exited (uint, i) =>
      Done uint
  | Returned t5' => Done t5'
  end.

(* src/buint/mod.rs: fn reverse_bits *)
Definition reverse_bits (w N : Z) (fuel : nat) (self : list Z) : res (list Z) :=
  let uint := (ZERO (Z.to_nat N)) in
  let i := 0 in
  t4' <- while_loop (R := list Z) fuel
    (fun '(uint, i) => (i <? N))
    (fun '(uint, i) =>
      t1' <- usub N 1 ;;
      t2' <- usub t1' i ;;
      t3' <- arr_get self t2' ;;
      uint <- arr_set uint i (u_reverse_bits w t3') ;;
      let i := (i + 1) in
      Done (Continue (uint, i)))
    (uint, i) ;;
  match t4' with
  | Exited (uint, i) =>
      Done uint
  | Returned t5' => Done t5'
  end.

(* src/buint/ops.rs: fn add *)
Definition add_digit (w N : Z) (fuel : nat) (self : list Z) (rhs : Z) : res (list Z) :=
  let out := self in
  t1' <- arr_get out 0 ;;
  let result := (DigitGen.carrying_add w t1' rhs false) in
  out <- arr_set out 0 (fst result) ;;
  let carry := (snd result) in
  let i := 1 in
  t3' <- while_loop (R := list Z) fuel
    (fun '(out, carry, i) => (andb (i <? N) carry))
    (fun '(out, carry, i) =>
      t2' <- arr_get out i ;;
      let result := (u_ovf_add w t2' 1) in
      out <- arr_set out i (fst result) ;;
      let carry := (snd result) in
      let i := (i + 1) in
      Done (Continue (out, carry, i)))
    (out, carry, i) ;;
  match t3' with
  | Exited (out, carry, i) =>
      Done out
  | Returned t4' => Done t4'
  end.

(* src/buint/checked.rs: fn div_rem_digit *)
Definition div_rem_digit (w N : Z) (fuel : nat) (self : list Z) (rhs : Z) : res (list Z * Z) :=
  let out := (ZERO (Z.to_nat N)) in
  let rem := 0 in
  let i := N in
  t3' <- while_loop (R := (list Z * Z)) fuel
    (fun '(out, rem, i) => (0 <? i))
    (fun '(out, rem, i) =>
      i <- usub i 1 ;;
      t2' <- arr_get self i ;;
      let pr' := (DigitGen.div_rem_wide w t2' rem rhs) in
      let q := (fst pr') in
      let r := (snd pr') in
      let rem := r in
      out <- arr_set out i q ;;
      Done (Continue (out, rem, i)))
    (out, rem, i) ;;
  match t3' with
  | Exited (out, rem, i) =>
      Done (out, rem)
  | Returned t4' => Done t4'
  end.

(* src/buint/mod.rs: fn from_digit *)
Definition from_digit (w N : Z) (fuel : nat) (digit : Z) : res (list Z) :=
  let out := (ZERO (Z.to_nat N)) in
  out <- arr_set out 0 digit ;;
  Done out.

(* src/buint/mod.rs: fn digits *)
Definition digits (w N : Z) (fuel : nat) (self : list Z) : res (list Z) :=
  Done self.

(* src/buint/mod.rs: fn from_digits *)
Definition from_digits (w N : Z) (fuel : nat) (digits : list Z) : res (list Z) :=
  Done digits.

(* src/buint/mod.rs: fn bit *)
Definition bit (w N : Z) (fuel : nat) (self : list Z) (index : Z) : res (bool) :=
  t1' <- arr_get self (ix_shr index (digit_BIT_SHIFT w)) ;;
  let digit := t1' in
  t2' <- dshl w 1 (ix_and index (digit_BITS_MINUS_1 w)) ;;
  Done (negb ((dg_and w digit t2') =? 0)).

(* src/buint/mod.rs: fn set_bit *)
Definition set_bit (w N : Z) (fuel : nat) (self : list Z) (index : Z) (value : bool) : res (list Z) :=
  let t1' := (ix_shr index (digit_BIT_SHIFT w)) in
  t2' <- arr_get self t1' ;;
  let shift := (ix_and index (digit_BITS_MINUS_1 w)) in
  t3' <- arr_get self t1' ;;
  t4' <- dshl w 1 shift ;;
  t5' <- dshl w (Z.b2z value) shift ;;
  self <- arr_set self t1' (dg_or w (dg_and w t3' (u_not w t4')) t5') ;;
  Done self.

(* src/buint/mod.rs: fn power_of_two *)
Definition power_of_two (w N : Z) (fuel : nat) (power : Z) : res (list Z) :=
  let out := (ZERO (Z.to_nat N)) in
  t1' <- usub w 1 ;;
  t2' <- dshl w 1 (ix_and power t1') ;;
  out <- arr_set out (ix_shr power (digit_BIT_SHIFT w)) t2' ;;
  Done out.

(* src/bint/overflowing.rs: fn overflowing_add *)
Definition I_overflowing_add (w N : Z) (fuel : nat) (self : list Z) (rhs : list Z) : res (list Z * bool) :=
  let out := (ZERO (Z.to_nat N)) in
  let carry := false in
  let self_digits := self in
  let rhs_digits := rhs in
  let i := 0 in
  t4' <- while_loop (R := (list Z * bool)) fuel
    (fun '(out, carry, i) => true)
    (fun '(out, carry, i) =>
      t1' <- usub N 1 ;;
      if (i <? t1') then (
        t2' <- arr_get self_digits i ;;
        t3' <- arr_get rhs_digits i ;;
        let pr' := (DigitGen.carrying_add w t2' t3' carry) in
        let sum := (fst pr') in
        let c := (snd pr') in
        out <- arr_set out i sum ;;
        let carry := c in
        let i := (i + 1) in
        Done (Continue (out, carry, i))
      ) else (
        Done (Break (out, carry, i))
      ))
    (out, carry, i) ;;
  match t4' with
  | Exited (out, carry, i) =>
      t6' <- usub N 1 ;;
      t7' <- arr_get self_digits t6' ;;
      t8' <- usub N 1 ;;
      t9' <- arr_get rhs_digits t8' ;;
      let pr' := (DigitGen.carrying_add_signed w (sd w t7') (sd w t9') carry) in
      let sum := (fst pr') in
      let carry := (snd pr') in
      t10' <- usub N 1 ;;
      out <- arr_set out t10' (ud w sum) ;;
      Done (out, carry)
  | Returned t5' => Done t5'
  end.

(* src/bint/overflowing.rs: fn overflowing_sub *)
Definition I_overflowing_sub (w N : Z) (fuel : nat) (self : list Z) (rhs : list Z) : res (list Z * bool) :=
  let out := (ZERO (Z.to_nat N)) in
  let borrow := false in
  let self_digits := self in
  let rhs_digits := rhs in
  let i := 0 in
  t4' <- while_loop (R := (list Z * bool)) fuel
    (fun '(out, borrow, i) => true)
    (fun '(out, borrow, i) =>
      t1' <- usub N 1 ;;
      if (i <? t1') then (
        t2' <- arr_get self_digits i ;;
        t3' <- arr_get rhs_digits i ;;
        let pr' := (DigitGen.borrowing_sub w t2' t3' borrow) in
        let sub := (fst pr') in
        let b := (snd pr') in
        out <- arr_set out i sub ;;
        let borrow := b in
        let i := (i + 1) in
        Done (Continue (out, borrow, i))
      ) else (
        Done (Break (out, borrow, i))
      ))
    (out, borrow, i) ;;
  match t4' with
  | Exited (out, borrow, i) =>
      t6' <- usub N 1 ;;
      t7' <- arr_get self_digits t6' ;;
      t8' <- usub N 1 ;;
      t9' <- arr_get rhs_digits t8' ;;
      let pr' := (DigitGen.borrowing_sub_signed w (sd w t7') (sd w t9') borrow) in
      let sub := (fst pr') in
      let borrow := (snd pr') in
      t10' <- usub N 1 ;;
      out <- arr_set out t10' (ud w sub) ;;
      Done (out, borrow)
  | Returned t5' => Done t5'
  end.

(* src/bint/overflowing.rs: fn overflowing_neg *)
Definition I_overflowing_neg (w N : Z) (fuel : nat) (self : list Z) : res (list Z * bool) :=
  let i := 0 in
  t6' <- while_loop (R := (list Z * bool)) fuel
    (fun '(self, i) => true)
    (fun '(self, i) =>
      t1' <- usub N 1 ;;
      if (i <? t1') then (
        t2' <- arr_get self i ;;
        let pr' := (u_ovf_add w (u_not w t2') 1) in
        let s := (fst pr') in
        let o := (snd pr') in
        self <- arr_set self i s ;;
        if (negb o) then (
          let i := (i + 1) in
          t4' <- while_loop (R := (list Z * bool)) fuel
            (fun '(self, i) => (i <? N))
            (fun '(self, i) =>
              t3' <- arr_get self i ;;
              self <- arr_set self i (u_not w t3') ;;
              let i := (i + 1) in
              Done (Continue (self, i)))
            (self, i) ;;
          match t4' with
          | Exited (self, i) =>
              Done (Return (self, false))
          | Returned t5' => Done (Return t5')
          end
        ) else (
          let i := (i + 1) in
          Done (Continue (self, i))
        )
      ) else (
        Done (Break (self, i))
      ))
    (self, i) ;;
  match t6' with
  | Exited (self, i) =>
      t8' <- arr_get self i ;;
      let pr' := (s_ovf_add w (sd w (u_not w t8')) 1) in
      let s := (fst pr') in
      let o := (snd pr') in
      self <- arr_set self i (ud w s) ;;
      Done (self, o)
  | Returned t7' => Done t7'
  end.

(* src/buint/overflowing.rs: fn overflowing_pow *)
Definition overflowing_pow (w N : Z) (fuel : nat) (self : list Z) (pow : Z) : res (list Z * bool) :=
  if (pow =? 0) then (
    t1' <- from_digit w N fuel 1 ;;
    Done (t1', false)
  ) else (
    let overflow := false in
    t2' <- from_digit w N fuel 1 ;;
    let y := t2' in
    t3' <- while_loop (R := (list Z * bool)) fuel
      (fun '(self, y, overflow, pow) => (1 <? pow))
      (fun '(self, y, overflow, pow) =>
        if ((ix_and pow 1) =? 1) then (
          let pr' := (Mul.U_overflowing_mul w y self) in
          let prod := (fst pr') in
          let o := (snd pr') in
          let overflow := (orb overflow o) in
          let y := prod in
          let pr' := (Mul.U_overflowing_mul w self self) in
          let prod := (fst pr') in
          let o := (snd pr') in
          let overflow := (orb overflow o) in
          let self := prod in
          let pow := (ix_shr pow 1) in
          Done (Continue (self, y, overflow, pow))
        ) else (
          let pr' := (Mul.U_overflowing_mul w self self) in
          let prod := (fst pr') in
          let o := (snd pr') in
          let overflow := (orb overflow o) in
          let self := prod in
          let pow := (ix_shr pow 1) in
          Done (Continue (self, y, overflow, pow))
        ))
      (self, y, overflow, pow) ;;
    match t3' with
    | Exited (self, y, overflow, pow) =>
        let pr' := (Mul.U_overflowing_mul w self y) in
        let prod := (fst pr') in
        let o := (snd pr') in
        Done (prod, (orb o overflow))
    | Returned t4' => Done t4'
    end
  ).

(* src/buint/checked.rs: fn checked_pow *)
Definition checked_pow (w N : Z) (fuel : nat) (self : list Z) (pow : Z) : res (option (list Z)) :=
  if (pow =? 0) then (
    t1' <- from_digit w N fuel 1 ;;
    Done (Some t1')
  ) else (
    t2' <- from_digit w N fuel 1 ;;
    let y := t2' in
    t3' <- while_loop (R := (option (list Z))) fuel
      (fun '(self, y, pow) => (1 <? pow))
      (fun '(self, y, pow) =>
        if ((ix_and pow 1) =? 1) then (
          match (Mul.U_checked_mul w self y) with
          | Some m => (
              let y := m in
              match (Mul.U_checked_mul w self self) with
              | Some m => (
                  let self := m in
                  let pow := (ix_shr pow 1) in
                  Done (Continue (self, y, pow))
                )
              | None => (
                  Done (Return None)
                )
              end
            )
          | None => (
              Done (Return None)
            )
          end
        ) else (
          match (Mul.U_checked_mul w self self) with
          | Some m => (
              let self := m in
              let pow := (ix_shr pow 1) in
              Done (Continue (self, y, pow))
            )
          | None => (
              Done (Return None)
            )
          end
        ))
      (self, y, pow) ;;
    match t3' with
    | Exited (self, y, pow) =>
        Done (Mul.U_checked_mul w self y)
    | Returned t4' => Done t4'
    end
  ).

(* src/buint/wrapping.rs: fn wrapping_pow *)
Definition wrapping_pow (w N : Z) (fuel : nat) (self : list Z) (pow : Z) : res (list Z) :=
  if (pow =? 0) then (
    t1' <- from_digit w N fuel 1 ;;
    Done t1'
  ) else (
    t2' <- from_digit w N fuel 1 ;;
    let y := t2' in
    t3' <- while_loop (R := list Z) fuel
      (fun '(self, y, pow) => (1 <? pow))
      (fun '(self, y, pow) =>
        if ((ix_and pow 1) =? 1) then (
          let y := (Mul.U_wrapping_mul w self y) in
          let self := (Mul.U_wrapping_mul w self self) in
          let pow := (ix_shr pow 1) in
          Done (Continue (self, y, pow))
        ) else (
          let self := (Mul.U_wrapping_mul w self self) in
          let pow := (ix_shr pow 1) in
          Done (Continue (self, y, pow))
        ))
      (self, y, pow) ;;
    match t3' with
    | Exited (self, y, pow) =>
        Done (Mul.U_wrapping_mul w self y)
    | Returned t4' => Done t4'
    end
  ).

(* src/buint/mod.rs: fn bits *)
Definition bits (w N : Z) (fuel : nat) (self : list Z) : res (Z) :=
  t1' <- leading_zeros w N fuel self ;;
  t2' <- usub (w * N) t1' ;;
  Done t2'.

(* src/buint/checked.rs: fn checked_ilog2 *)
Definition checked_ilog2 (w N : Z) (fuel : nat) (self : list Z) : res (option Z) :=
  t1' <- bits w N fuel self ;;
  Done (ix_checked_sub t1' 1).

(* src/buint/checked.rs: fn iilog *)
Fixpoint iilog (dbg : bool) (w N : Z) (fuel : nat) (m : Z) (b : list Z) (k : list Z) {struct fuel} : res (Z * list Z) :=
  match fuel with
  | O => NoFuel
  | S fuel' =>
  if (cmp_gt (ucmp b k)) then (
    Done (m, k)
  ) else (
    t1' <- eshl m 1 ;;
    t2' <- of_outcome (Mul.U_mul dbg w b b) ;;
    t3' <- iilog dbg w N fuel' t1' t2' (fst (Div.U_div_rem_unchecked w k b)) ;;
    let pr' := t3' in
    let new := (fst pr') in
    let q := (snd pr') in
    if (cmp_gt (ucmp b q)) then (
      Done (new, q)
    ) else (
      t4' <- of_outcome (Div.U_div w q b) ;;
      Done ((new + m), t4')
    )
  )
  end.

(* src/buint/checked.rs: fn checked_ilog10 *)
Definition checked_ilog10 (dbg : bool) (w N : Z) (fuel : nat) (self : list Z) : res (option Z) :=
  t1' <- is_zero w N fuel self ;;
  if t1' then (
    Done None
  ) else (
    t2' <- from_digit w N fuel 10 ;;
    if (cmp_gt (ucmp t2' self)) then (
      Done (Some 0)
    ) else (
      t3' <- from_digit w N fuel 10 ;;
      t4' <- div_rem_digit w N fuel self 10 ;;
      t5' <- iilog dbg w N fuel 1 t3' (fst t4') ;;
      Done (Some (fst t5'))
    )
  ).

(* src/buint/checked.rs: fn checked_ilog *)
Definition checked_ilog (dbg : bool) (w N : Z) (fuel : nat) (self : list Z) (base : list Z) : res (option Z) :=
  t1' <- from_digit w N fuel 2 ;;
  t2' <- cmp w N fuel base t1' ;;
  match t2' with
  | Lt => (
      Done None
    )
  | Eq => (
      t3' <- checked_ilog2 w N fuel self ;;
      Done t3'
    )
  | Gt => (
      t4' <- is_zero w N fuel self ;;
      if t4' then (
        Done None
      ) else (
        if (cmp_gt (ucmp base self)) then (
          Done (Some 0)
        ) else (
          t5' <- of_outcome (Div.U_div w self base) ;;
          t6' <- iilog dbg w N fuel 1 base t5' ;;
          Done (Some (fst t6'))
        )
      )
    )
  end.

(* src/buint/checked.rs: fn checked_next_power_of_two *)
Definition checked_next_power_of_two (w N : Z) (fuel : nat) (self : list Z) : res (option (list Z)) :=
  t1' <- is_power_of_two w N fuel self ;;
  if t1' then (
    Done (Some self)
  ) else (
    t2' <- bits w N fuel self ;;
    let bits := t2' in
    if (bits =? (w * N)) then (
      Done None
    ) else (
      t3' <- power_of_two w N fuel bits ;;
      Done (Some t3')
    )
  ).

(* src/buint/checked.rs: fn checked_next_multiple_of *)
Definition checked_next_multiple_of (dbg : bool) (w N : Z) (fuel : nat) (self : list Z) (rhs : list Z) : res (option (list Z)) :=
  match (Div.U_checked_rem w self rhs) with
  | Some rem => (
      t1' <- is_zero w N fuel rem ;;
      if t1' then (
        Done (Some self)
      ) else (
        t2' <- of_outcome (AddSub.U_sub dbg w rhs rem) ;;
        Done (AddSub.U_checked_add w self t2')
      )
    )
  | None => (
      Done None
    )
  end.

(* src/buint/cast.rs: fn cast_up *)
Definition cast_up (w N : Z) (fuel : nat) (M : Z) (self : list Z) (digit : Z) : res (list Z) :=
  let digits := (repeat digit (Z.to_nat M)) in
  t1' <- usub M N ;;
  let i := t1' in
  t5' <- while_loop (R := list Z) fuel
    (fun '(digits, i) => (i <? M))
    (fun '(digits, i) =>
      t2' <- usub M N ;;
      t3' <- usub i t2' ;;
      let index := t3' in
      t4' <- arr_get self index ;;
      digits <- arr_set digits index t4' ;;
      let i := (i + 1) in
      Done (Continue (digits, i)))
    (digits, i) ;;
  match t5' with
  | Exited (digits, i) =>
      t7' <- from_digits w M fuel digits ;;
      Done t7'
  | Returned t6' => Done t6'
  end.

(* src/buint/cast.rs: fn cast_down *)
Definition cast_down (w N : Z) (fuel : nat) (M : Z) (self : list Z) : res (list Z) :=
  let out := (ZERO (Z.to_nat M)) in
  let i := 0 in
  t2' <- while_loop (R := list Z) fuel
    (fun '(out, i) => (i <? M))
    (fun '(out, i) =>
      t1' <- arr_get self i ;;
      out <- arr_set out i t1' ;;
      let i := (i + 1) in
      Done (Continue (out, i)))
    (out, i) ;;
  match t2' with
  | Exited (out, i) =>
      Done out
  | Returned t3' => Done t3'
  end.

(* src/buint/cast.rs: fn cast_from *)
Definition as_buint (w N : Z) (fuel : nat) (pb : Z) (from : Z) : res (list Z) :=
  let out := (if (from <? 0) then (UMAX w (Z.to_nat N)) else (ZERO (Z.to_nat N))) in
  let i := 0 in
  t1' <- while_loop (R := list Z) fuel
    (fun '(out, from, i) => (andb (negb (from =? 0)) (i <? N)))
    (fun '(out, from, i) =>
      let masked := (dg_and w (ud w from) (u_max w)) in
      out <- arr_set out i masked ;;
      if (pb <=? w) then (
        let from := 0 in
        let i := (i + 1) in
        Done (Continue (out, from, i))
      ) else (
        let from := (p_wrapping_shr pb from w) in
        let i := (i + 1) in
        Done (Continue (out, from, i))
      ))
    (out, from, i) ;;
  match t1' with
  | Exited (out, from, i) =>
      Done out
  | Returned t2' => Done t2'
  end.

(* src/buint/convert.rs: fn from *)
Definition from_uint (w N : Z) (fuel : nat) (pb : Z) (int : Z) : res (list Z) :=
  let UINT_BITS := pb in
  let out := (ZERO (Z.to_nat N)) in
  let i := 0 in
  t2' <- while_loop (R := list Z) fuel
    (fun '(out, i) => ((ix_shl i (digit_BIT_SHIFT w)) <? UINT_BITS))
    (fun '(out, i) =>
      t1' <- pshr pb int (ix_shl i (digit_BIT_SHIFT w)) ;;
      let d := (ud w t1') in
      if (negb (d =? 0)) then (
        out <- arr_set out i d ;;
        let i := (i + 1) in
        Done (Continue (out, i))
      ) else (
        let i := (i + 1) in
        Done (Continue (out, i))
      ))
    (out, i) ;;
  match t2' with
  | Exited (out, i) =>
      Done out
  | Returned t3' => Done t3'
  end.

End Loops.

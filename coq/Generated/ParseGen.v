(* GENERATED on every run by tools/rs2v_parse.py from /repo/src/buint/radix.rs, /repo/src/bint/radix.rs, /repo/src/bint/convert.rs
   (the string / digit-slice parsing code).  Do not edit.  Proofs/ParseGenTie*.v prove the functions equal to the hand-written
   model Model/Parse.v (radix_base_half: Model/RadixOut.v).
   Vocabulary: Model/Imp.v + Model/ImpParse.v (control flow, Result, checked u8 / digit operations), Prim.v,
   Model/DigitPrims.v, Generated/DigitGen.v; called by their hand-model names (tied or modelled elsewhere): Core.from_digit,
   AddSub.U_checked_add, Bits.bit, Bits.trailing_zeros, AddSub.I_wrapping_neg, Core.is_negative, Parse.utf8_valid,
   Parse.from_be_slice, Parse.from_le_slice. *)
From Bnum Require Import Base Prim.
From Bnum.Model Require Import DigitPrims LoopPrims Core Imp ImpParse.
From Bnum.Model Require AddSub Bits Parse.
From Bnum.Generated Require Import DigitGen.

Module ParseGen.

(* src/buint/radix.rs: fn ilog2 *)
Definition ilog2 (w N : Z) (fuel : nat) (a : Z) : res (Z) :=
  t1' <- usub 31 (to_u8 (u_leading_zeros 32 a)) ;;
  Done t1'.

(* src/buint/radix.rs: fn radix_base *)
Definition radix_base (w N : Z) (fuel : nat) (radix : Z) : res (Z * Z) :=
  let power := 1 in
  let radix := (ud w radix) in
  let base := radix in
  t1' <- while_loop (R := (Z * Z)) fuel
    (fun '(base, power) => true)
    (fun '(base, power) =>
      match (dg_checked_mul w base radix) with
      | Some n => (
          let base := n in
          let power := (power + 1) in
          Done (Continue (base, power))
        )
      | None => (
          Done (Return (base, power))
        )
      end)
    (base, power) ;;
  match t1' with
  | Exited (base, power) =>
      Panicked (* unreachable: a `loop` without `break` is only left by `return` *)
  | Returned t2' => Done t2'
  end.

(* src/buint/radix.rs: fn radix_base_half *)
Definition radix_base_half (w N : Z) (fuel : nat) (radix : Z) : res (Z * Z) :=
  t1' <- udiv w 2 ;;
  t2' <- dshr w (u_max w) t1' ;;
  let HALF_BITS_MAX := t2' in
  let power := 1 in
  let radix := (ud w radix) in
  let base := radix in
  t3' <- while_loop (R := (Z * Z)) fuel
    (fun '(base, power) => true)
    (fun '(base, power) =>
      match (dg_checked_mul w base radix) with
      | Some n => (
          if (n <=? HALF_BITS_MAX) then (
            let base := n in
            let power := (power + 1) in
            Done (Continue (base, power))
          ) else (
            Done (Return (base, power))
          )
        )
      | None => (
          Done (Return (base, power))
        )
      end)
    (base, power) ;;
  match t3' with
  | Exited (base, power) =>
      Panicked (* unreachable: a `loop` without `break` is only left by `return` *)
  | Returned t4' => Done t4'
  end.

(* src/buint/radix.rs: fn byte_to_digit *)
Definition byte_to_digit (w N : Z) (fuel : nat) (FROM_STR : bool) (byte : Z) : res (Z) :=
  if FROM_STR then (
    if (andb (48 <=? byte) (byte <=? 57)) then (
      t1' <- usub byte 48 ;;
      Done t1'
    ) else (
      if (andb (97 <=? byte) (byte <=? 122)) then (
        t2' <- usub byte 97 ;;
        t3' <- badd t2' 10 ;;
        Done t3'
      ) else (
        if (andb (65 <=? byte) (byte <=? 90)) then (
          t4' <- usub byte 65 ;;
          t5' <- badd t4' 10 ;;
          Done t5'
        ) else (
            Done 255
        )
      )
    )
  ) else (
    Done byte
  ).

(* src/buint/radix.rs: fn from_buf_radix_internal *)
Definition from_buf_radix_internal (dbg : bool) (w N : Z) (fuel : nat) (FROM_STR : bool) (BE : bool) (buf : list Z) (radix : Z) (leading_sign : bool) : res ((result (list Z))) :=
  if (andb leading_sign ((Z.of_nat (length buf)) =? 1)) then (
    Done (RErr KInvalidDigit)
  ) else (
    t2' <- (if leading_sign then (t1' <- usub (Z.of_nat (length buf)) 1 ;; Done t1') else (Done (Z.of_nat (length buf)))) ;;
    let input_digits_len := t2' in
    if (orb (radix =? 2) (orb (radix =? 4) (orb (radix =? 16) (radix =? 256)))) then (
      let input_digits_len'1 := input_digits_len in
      t9' <- while_loop (R := (result (list Z))) fuel
        (fun input_digits_len'1 => (input_digits_len'1 >? 0))
        (fun input_digits_len'1 =>
          t5' <- (if BE then (t3' <- usub (Z.of_nat (length buf)) input_digits_len'1 ;; Done t3') else (t4' <- usub input_digits_len'1 1 ;; Done (t4' + (if leading_sign then 1 else 0)))) ;;
          let idx := t5' in
          t6' <- arr_get buf idx ;;
          t7' <- byte_to_digit w N fuel FROM_STR t6' ;;
          if (negb (t7' =? 0)) then (
            Done (Break input_digits_len'1)
          ) else (
            input_digits_len'1 <- usub input_digits_len'1 1 ;;
            Done (Continue input_digits_len'1)
          ))
        input_digits_len'1 ;;
      match t9' with
      | Exited input_digits_len'1 =>
          let out := (ZERO (Z.to_nat N)) in
          t11' <- ilog2 w N fuel radix ;;
          t12' <- udiv w t11' ;;
          let base_digits_per_digit := t12' in
          t13' <- udiv input_digits_len'1 base_digits_per_digit ;;
          let full_digits := t13' in
          t14' <- urem input_digits_len'1 base_digits_per_digit ;;
          let remaining_digits := t14' in
          let radix_u8 := (to_u8 radix) in
          if (orb (full_digits >? N) (andb (full_digits =? N) (negb (remaining_digits =? 0)))) then (
            t16' <- (if BE then (t15' <- usub (Z.of_nat (length buf)) input_digits_len'1 ;; Done t15') else (Done (if leading_sign then 1 else 0))) ;;
            let start := t16' in
            let i := start in
            t19' <- while_loop (R := (result (list Z))) fuel
              (fun i => (i <? ((N * base_digits_per_digit) + start)))
              (fun i =>
                t17' <- arr_get buf i ;;
                t18' <- byte_to_digit w N fuel FROM_STR t17' ;;
                if (t18' >=? radix_u8) then (
                  Done (Return (RErr KInvalidDigit))
                ) else (
                  let i := (i + 1) in
                  Done (Continue i)
                ))
              i ;;
            match t19' with
            | Exited i =>
                Done (RErr KPosOverflow)
            | Returned t20' => Done t20'
            end
          ) else (
            t21' <- ilog2 w N fuel radix ;;
            let log2r := t21' in
            let i := 0 in
            t31' <- while_loop (R := (result (list Z))) fuel
              (fun '(out, i) => (i <? full_digits))
              (fun '(out, i) =>
                let j := 0 in
                t29' <- while_loop (R := (result (list Z))) fuel
                  (fun '(out, j) => (j <? base_digits_per_digit))
                  (fun '(out, j) =>
                    t24' <- (if BE then (t22' <- usub (Z.of_nat (length buf)) 1 ;; t23' <- usub t22' ((i * base_digits_per_digit) + j) ;; Done t23') else (Done ((i * base_digits_per_digit) + j))) ;;
                    let idx := t24' in
                    t25' <- arr_get buf idx ;;
                    t26' <- byte_to_digit w N fuel FROM_STR t25' ;;
                    let d := t26' in
                    if (d >=? radix_u8) then (
                      Done (Return (RErr KInvalidDigit))
                    ) else (
                      t27' <- dshl w (ud w d) (j * log2r) ;;
                      t28' <- arr_get out i ;;
                      out <- arr_set out i (dg_or w t28' t27') ;;
                      let j := (j + 1) in
                      Done (Continue (out, j))
                    ))
                  (out, j) ;;
                match t29' with
                | Exited (out, j) =>
                    let i := (i + 1) in
                    Done (Continue (out, i))
                | Returned t30' => Done (Return t30')
                end)
              (out, i) ;;
            match t31' with
            | Exited (out, i) =>
                let j := 0 in
                t40' <- while_loop (R := (result (list Z))) fuel
                  (fun '(out, j) => (j <? remaining_digits))
                  (fun '(out, j) =>
                    t35' <- (if BE then (t33' <- usub (Z.of_nat (length buf)) 1 ;; t34' <- usub t33' ((i * base_digits_per_digit) + j) ;; Done t34') else (Done ((i * base_digits_per_digit) + j))) ;;
                    let idx := t35' in
                    t36' <- arr_get buf idx ;;
                    t37' <- byte_to_digit w N fuel FROM_STR t36' ;;
                    let d := t37' in
                    if (d >=? radix_u8) then (
                      Done (Return (RErr KInvalidDigit))
                    ) else (
                      t38' <- dshl w (ud w d) (j * log2r) ;;
                      t39' <- arr_get out i ;;
                      out <- arr_set out i (dg_or w t39' t38') ;;
                      let j := (j + 1) in
                      Done (Continue (out, j))
                    ))
                  (out, j) ;;
                match t40' with
                | Exited (out, j) =>
                    Done (ROk out)
                | Returned t41' => Done t41'
                end
            | Returned t32' => Done t32'
            end
          )
      | Returned t10' => Done t10'
      end
    ) else (
      if (radix =? 0) then (
        let out := (ZERO (Z.to_nat N)) in
        let radix_u8 := (to_u8 radix) in
        t42' <- ilog2 w N fuel radix ;;
        let log2r := t42' in
        let index := 0 in
        let shift := 0 in
        let i := (Z.of_nat (length buf)) in
        let stop_index := (if leading_sign then 1 else 0) in
        t63' <- while_loop (R := (result (list Z))) fuel
          (fun '(out, index, i, shift) => (i >? stop_index))
          (fun '(out, index, i, shift) =>
            i <- usub i 1 ;;
            t46' <- (if BE then (Done i) else (t44' <- usub (Z.of_nat (length buf)) 1 ;; t45' <- usub t44' i ;; Done t45')) ;;
            let idx := t46' in
            t47' <- arr_get buf idx ;;
            t48' <- byte_to_digit w N fuel FROM_STR t47' ;;
            let d := t48' in
            if (d >=? radix_u8) then (
              Done (Return (RErr KInvalidDigit))
            ) else (
              t49' <- dshl w (ud w d) shift ;;
              t50' <- arr_get out index ;;
              out <- arr_set out index (dg_or w t50' t49') ;;
              shift <- badd shift log2r ;;
              if (shift >=? w) then (
                shift <- usub shift w ;;
                t53' <- usub log2r shift ;;
                t54' <- dshr w (ud w d) t53' ;;
                let carry := t54' in
                let index := (index + 1) in
                if (index =? N) then (
                  if (negb (carry =? 0)) then (
                    Done (Return (RErr KPosOverflow))
                  ) else (
                    t61' <- while_loop (R := (result (list Z))) fuel
                      (fun i => (i >? stop_index))
                      (fun i =>
                        i <- usub i 1 ;;
                        t58' <- (if BE then (Done i) else (t56' <- usub (Z.of_nat (length buf)) 1 ;; t57' <- usub t56' i ;; Done t57')) ;;
                        let idx'1 := t58' in
                        t59' <- arr_get buf idx'1 ;;
                        t60' <- byte_to_digit w N fuel FROM_STR t59' ;;
                        let d'1 := t60' in
                        if (negb (d'1 =? 0)) then (
                          Done (Return (RErr KPosOverflow))
                        ) else (
                          Done (Continue i)
                        ))
                      i ;;
                    match t61' with
                    | Exited i =>
                        Done (Return (ROk out))
                    | Returned t62' => Done (Return t62')
                    end
                  )
                ) else (
                  out <- arr_set out index carry ;;
                  Done (Continue (out, index, i, shift))
                )
              ) else (
                Done (Continue (out, index, i, shift))
              )
            ))
          (out, index, i, shift) ;;
        match t63' with
        | Exited (out, index, i, shift) =>
            Done (ROk out)
        | Returned t64' => Done t64'
        end
      ) else (
          t65' <- radix_base w N fuel radix ;;
          let '(base, power) := t65' in
          t66' <- urem input_digits_len power ;;
          let r := t66' in
          let split := (if (r =? 0) then power else r) in
          let radix_u8 := (to_u8 radix) in
          let out := (ZERO (Z.to_nat N)) in
          let first := 0 in
          let i := (if leading_sign then 1 else 0) in
          t74' <- while_loop (R := (result (list Z))) fuel
            (fun '(first, i) => (i <? (if leading_sign then (split + 1) else split)))
            (fun '(first, i) =>
              t69' <- (if BE then (Done i) else (t67' <- usub (Z.of_nat (length buf)) 1 ;; t68' <- usub t67' i ;; Done t68')) ;;
              let idx := t69' in
              t70' <- arr_get buf idx ;;
              t71' <- byte_to_digit w N fuel FROM_STR t70' ;;
              let d := t71' in
              if (d >=? radix_u8) then (
                Done (Return (RErr KInvalidDigit))
              ) else (
                t72' <- dmul dbg w first (ud w radix) ;;
                first <- dadd dbg w t72' (ud w d) ;;
                let i := (i + 1) in
                Done (Continue (first, i))
              ))
            (first, i) ;;
          match t74' with
          | Exited (first, i) =>
              out <- arr_set out 0 first ;;
              let start := i in
              t95' <- while_loop (R := (result (list Z))) fuel
                (fun '(out, start) => (start <? (Z.of_nat (length buf))))
                (fun '(out, start) =>
                  let end_ := (start + power) in
                  let carry := 0 in
                  let j := 0 in
                  t77' <- while_loop (R := (result (list Z))) fuel
                    (fun '(out, carry, j) => (j <? N))
                    (fun '(out, carry, j) =>
                      t76' <- arr_get out j ;;
                      let '(low, high) := (DigitGen.carrying_mul w t76' base carry 0) in
                      let carry := high in
                      out <- arr_set out j low ;;
                      let j := (j + 1) in
                      Done (Continue (out, carry, j)))
                    (out, carry, j) ;;
                  match t77' with
                  | Exited (out, carry, j) =>
                      if (negb (carry =? 0)) then (
                        t84' <- while_loop (R := (result (list Z))) fuel
                          (fun start => (andb (start <? (Z.of_nat (length buf))) (start <? end_)))
                          (fun start =>
                            t81' <- (if BE then (Done start) else (t79' <- usub (Z.of_nat (length buf)) 1 ;; t80' <- usub t79' start ;; Done t80')) ;;
                            let idx := t81' in
                            t82' <- arr_get buf idx ;;
                            t83' <- byte_to_digit w N fuel FROM_STR t82' ;;
                            let d := t83' in
                            if (d >=? radix_u8) then (
                              Done (Return (RErr KInvalidDigit))
                            ) else (
                              let start := (start + 1) in
                              Done (Continue start)
                            ))
                          start ;;
                        match t84' with
                        | Exited start =>
                            Done (Return (RErr KPosOverflow))
                        | Returned t85' => Done (Return t85')
                        end
                      ) else (
                        let n := 0 in
                        let j := start in
                        t93' <- while_loop (R := (result (list Z))) fuel
                          (fun '(n, j) => (andb (j <? end_) (j <? (Z.of_nat (length buf)))))
                          (fun '(n, j) =>
                            t88' <- (if BE then (Done j) else (t86' <- usub (Z.of_nat (length buf)) 1 ;; t87' <- usub t86' j ;; Done t87')) ;;
                            let idx := t88' in
                            t89' <- arr_get buf idx ;;
                            t90' <- byte_to_digit w N fuel FROM_STR t89' ;;
                            let d := t90' in
                            if (d >=? radix_u8) then (
                              Done (Return (RErr KInvalidDigit))
                            ) else (
                              t91' <- dmul dbg w n (ud w radix) ;;
                              n <- dadd dbg w t91' (ud w d) ;;
                              let j := (j + 1) in
                              Done (Continue (n, j))
                            ))
                          (n, j) ;;
                        match t93' with
                        | Exited (n, j) =>
                            match (AddSub.U_checked_add w out (Core.from_digit (Z.to_nat N) n)) with
                            | Some out'1 => (
                                let out := out'1 in
                                let start := end_ in
                                Done (Continue (out, start))
                              )
                            | None => (
                                Done (Return (RErr KPosOverflow))
                              )
                            end
                        | Returned t94' => Done (Return t94')
                        end
                      )
                  | Returned t78' => Done (Return t78')
                  end)
                (out, start) ;;
              match t95' with
              | Exited (out, start) =>
                  Done (ROk out)
              | Returned t96' => Done t96'
              end
          | Returned t75' => Done t75'
          end
      )
    )
  ).

(* src/buint/radix.rs: fn from_str_radix *)
Definition from_str_radix (dbg : bool) (w N : Z) (fuel : nat) (src : list Z) (radix : Z) : res ((result (list Z))) :=
  if (andb (radix >=? 2) (radix <=? 36)) then (
    if (Z.of_nat (length src) =? 0) then (
      Done (RErr KEmpty)
    ) else (
      let buf := src in
      t1' <- arr_get buf 0 ;;
      let leading_plus := (t1' =? 43) in
      t2' <- from_buf_radix_internal dbg w N fuel true true buf radix leading_plus ;;
      Done t2'
    )
  ) else (
    Panicked (* assert_range! *)
  ).

(* src/buint/radix.rs: fn parse_bytes *)
Definition parse_bytes (dbg : bool) (w N : Z) (fuel : nat) (buf : list Z) (radix : Z) : res ((option (list Z))) :=
  match (if Parse.utf8_valid buf then Some buf else None) with
  | Some v'o => (
      let s := v'o in
      t1' <- from_str_radix dbg w N fuel s radix ;;
      Done (match t1' with ROk v' => Some v' | RErr _ => None end)
    )
  | None => (
      Done None
    )
  end.

(* src/buint/radix.rs: fn parse_str_radix *)
Definition parse_str_radix (dbg : bool) (w N : Z) (fuel : nat) (src : list Z) (radix : Z) : res (list Z) :=
  t1' <- from_str_radix dbg w N fuel src radix ;;
  match t1' with
  | ROk n => (
      Done n
    )
  | RErr e => (
      Panicked (* panic! *)
    )
  end.

(* src/buint/radix.rs: fn from_radix_be *)
Definition from_radix_be (dbg : bool) (w N : Z) (fuel : nat) (buf : list Z) (radix : Z) : res ((option (list Z))) :=
  if (andb (radix >=? 2) (radix <=? 256)) then (
    if (Z.of_nat (length buf) =? 0) then (
      Done (Some (ZERO (Z.to_nat N)))
    ) else (
      if (radix =? 256) then (
        Done (Parse.from_be_slice w (Z.to_nat N) buf)
      ) else (
        t1' <- from_buf_radix_internal dbg w N fuel false true buf radix false ;;
        Done (match t1' with ROk v' => Some v' | RErr _ => None end)
      )
    )
  ) else (
    Panicked (* assert_range! *)
  ).

(* src/buint/radix.rs: fn from_radix_le *)
Definition from_radix_le (dbg : bool) (w N : Z) (fuel : nat) (buf : list Z) (radix : Z) : res ((option (list Z))) :=
  if (andb (radix >=? 2) (radix <=? 256)) then (
    if (Z.of_nat (length buf) =? 0) then (
      Done (Some (ZERO (Z.to_nat N)))
    ) else (
      if (radix =? 256) then (
        Done (Parse.from_le_slice w (Z.to_nat N) buf)
      ) else (
        t1' <- from_buf_radix_internal dbg w N fuel false false buf radix false ;;
        Done (match t1' with ROk v' => Some v' | RErr _ => None end)
      )
    )
  ) else (
    Panicked (* assert_range! *)
  ).

(* src/buint/radix.rs: fn from_str *)
Definition from_str (dbg : bool) (w N : Z) (fuel : nat) (src : list Z) : res ((result (list Z))) :=
  t1' <- from_str_radix dbg w N fuel src 10 ;;
  Done t1'.

(* src/bint/radix.rs: fn from_str_radix *)
Definition I_from_str_radix (dbg : bool) (w N : Z) (fuel : nat) (src : list Z) (radix : Z) : res ((result (list Z))) :=
  if (andb (radix >=? 2) (radix <=? 36)) then (
    if (Z.of_nat (length src) =? 0) then (
      Done (RErr KEmpty)
    ) else (
      let negative := false in
      let leading_sign := false in
      let buf := src in
      t1' <- arr_get buf 0 ;;
      if (t1' =? 45) then (
        let negative := true in
        let leading_sign := true in
        t2' <- from_buf_radix_internal dbg w N fuel true true buf radix leading_sign ;;
        match t2' with
        | ROk uint => (
            if negative then (
              t3' <- usub (w * N) 1 ;;
              t4' <- of_outcome (Bits.bit w uint t3') ;;
              t6' <- (if t4' then (t5' <- usub (w * N) 1 ;; Done (negb ((Bits.trailing_zeros w uint) =? t5'))) else Done false) ;;
              if t6' then (
                Done (RErr KNegOverflow)
              ) else (
                Done (ROk (AddSub.I_wrapping_neg w uint))
              )
            ) else (
              let out := uint in
              if (Core.is_negative w out) then (
                Done (RErr KPosOverflow)
              ) else (
                Done (ROk out)
              )
            )
          )
        | RErr err => (
            match err with
            | KPosOverflow => (
                if negative then (
                  Done (RErr KNegOverflow)
                ) else (
                  Done (RErr err)
                )
              )
            | _ => (
                Done (RErr err)
              )
            end
          )
        end
      ) else (
        t7' <- arr_get buf 0 ;;
        if (t7' =? 43) then (
          let leading_sign := true in
          t8' <- from_buf_radix_internal dbg w N fuel true true buf radix leading_sign ;;
          match t8' with
          | ROk uint => (
              if negative then (
                t9' <- usub (w * N) 1 ;;
                t10' <- of_outcome (Bits.bit w uint t9') ;;
                t12' <- (if t10' then (t11' <- usub (w * N) 1 ;; Done (negb ((Bits.trailing_zeros w uint) =? t11'))) else Done false) ;;
                if t12' then (
                  Done (RErr KNegOverflow)
                ) else (
                  Done (ROk (AddSub.I_wrapping_neg w uint))
                )
              ) else (
                let out := uint in
                if (Core.is_negative w out) then (
                  Done (RErr KPosOverflow)
                ) else (
                  Done (ROk out)
                )
              )
            )
          | RErr err => (
              match err with
              | KPosOverflow => (
                  if negative then (
                    Done (RErr KNegOverflow)
                  ) else (
                    Done (RErr err)
                  )
                )
              | _ => (
                  Done (RErr err)
                )
              end
            )
          end
        ) else (
          t13' <- from_buf_radix_internal dbg w N fuel true true buf radix leading_sign ;;
          match t13' with
          | ROk uint => (
              if negative then (
                t14' <- usub (w * N) 1 ;;
                t15' <- of_outcome (Bits.bit w uint t14') ;;
                t17' <- (if t15' then (t16' <- usub (w * N) 1 ;; Done (negb ((Bits.trailing_zeros w uint) =? t16'))) else Done false) ;;
                if t17' then (
                  Done (RErr KNegOverflow)
                ) else (
                  Done (ROk (AddSub.I_wrapping_neg w uint))
                )
              ) else (
                let out := uint in
                if (Core.is_negative w out) then (
                  Done (RErr KPosOverflow)
                ) else (
                  Done (ROk out)
                )
              )
            )
          | RErr err => (
              match err with
              | KPosOverflow => (
                  if negative then (
                    Done (RErr KNegOverflow)
                  ) else (
                    Done (RErr err)
                  )
                )
              | _ => (
                  Done (RErr err)
                )
              end
            )
          end
        )
      )
    )
  ) else (
    Panicked (* assert_range! *)
  ).

(* src/bint/radix.rs: fn parse_bytes *)
Definition I_parse_bytes (dbg : bool) (w N : Z) (fuel : nat) (buf : list Z) (radix : Z) : res ((option (list Z))) :=
  match (if Parse.utf8_valid buf then Some buf else None) with
  | Some v'o => (
      let s := v'o in
      t1' <- I_from_str_radix dbg w N fuel s radix ;;
      Done (match t1' with ROk v' => Some v' | RErr _ => None end)
    )
  | None => (
      Done None
    )
  end.

(* src/bint/radix.rs: fn parse_str_radix *)
Definition I_parse_str_radix (dbg : bool) (w N : Z) (fuel : nat) (src : list Z) (radix : Z) : res (list Z) :=
  t1' <- I_from_str_radix dbg w N fuel src radix ;;
  match t1' with
  | ROk n => (
      Done n
    )
  | RErr e => (
      Panicked (* panic! *)
    )
  end.

(* src/bint/radix.rs: fn from_radix_be *)
Definition I_from_radix_be (dbg : bool) (w N : Z) (fuel : nat) (buf : list Z) (radix : Z) : res ((option (list Z))) :=
  t1' <- from_radix_be dbg w N fuel buf radix ;;
  match t1' with
  | Some uint => (
      Done (Some uint)
    )
  | None => (
      Done None
    )
  end.

(* src/bint/radix.rs: fn from_radix_le *)
Definition I_from_radix_le (dbg : bool) (w N : Z) (fuel : nat) (buf : list Z) (radix : Z) : res ((option (list Z))) :=
  t1' <- from_radix_le dbg w N fuel buf radix ;;
  match t1' with
  | Some uint => (
      Done (Some uint)
    )
  | None => (
      Done None
    )
  end.

(* src/bint/convert.rs: fn from_str *)
Definition I_from_str (dbg : bool) (w N : Z) (fuel : nat) (src : list Z) : res ((result (list Z))) :=
  t1' <- I_from_str_radix dbg w N fuel src 10 ;;
  Done t1'.

End ParseGen.

(* GENERATED on every run by tools/rs2v_digit.py from /repo/src/digit.rs.  Do not edit.
   Proofs/DigitTie.v proves each function equal to the hand-written model of Model/Digit.v. *)
From Bnum Require Import Base Prim.
From Bnum.Model Require Import DigitPrims.

Module DigitGen.

Definition to_double_digit (w : Z) (low : Z) (high : Z) :=
  ((dd_or w (dd_shl w (dd_of_digit high) w) (dd_of_digit low))).

Definition carrying_add (w : Z) (a : Z) (b : Z) (carry : bool) :=
  (let '(s1, o1) := (u_ovf_add w a b) in (if carry then (let '(s2, o2) := (u_ovf_add w s1 1) in (s2, (orb o1 o2))) else ((s1, o1)))).

Definition borrowing_sub (w : Z) (a : Z) (b : Z) (borrow : bool) :=
  (let '(s1, o1) := (u_ovf_sub w a b) in (if borrow then (let '(s2, o2) := (u_ovf_sub w s1 1) in (s2, (orb o1 o2))) else ((s1, o1)))).

Definition carrying_add_signed (w : Z) (a : Z) (b : Z) (carry : bool) :=
  (let '(s1, o1) := (s_ovf_add w a b) in (if carry then (let '(s2, o2) := (s_ovf_add w s1 1) in (s2, (xorb o1 o2))) else ((s1, o1)))).

Definition borrowing_sub_signed (w : Z) (a : Z) (b : Z) (borrow : bool) :=
  (let '(s1, o1) := (s_ovf_sub w a b) in (if borrow then (let '(s2, o2) := (s_ovf_sub w s1 1) in (s2, (xorb o1 o2))) else ((s1, o1)))).

Definition widening_mul (w : Z) (a : Z) (b : Z) :=
  (let prod := (dd_mul w (dd_of_digit a) (dd_of_digit b)) in ((digit_of_dd w prod), (digit_of_dd w (dd_shr w prod w)))).

Definition carrying_mul (w : Z) (a : Z) (b : Z) (carry : Z) (current : Z) :=
  (let prod := (dd_add w (dd_add w (dd_of_digit carry) (dd_of_digit current)) (dd_mul w (dd_of_digit a) (dd_of_digit b))) in ((digit_of_dd w prod), (digit_of_dd w (dd_shr w prod w)))).

Definition div_rem_wide (w : Z) (low : Z) (high : Z) (rhs : Z) :=
  (let a := (to_double_digit w low high) in ((digit_of_dd w (dd_div w a (dd_of_digit rhs))), (digit_of_dd w (dd_rem w a (dd_of_digit rhs))))).

End DigitGen.

(* GENERATED on every run by tools/rs2v_conv.py from /repo/src/{buint,bint}/{cast,convert,numtraits}.rs (the conversions between
   bnum integers and primitive integers).  Do not edit.  Proofs/ConvGenTie*.v prove each function equal to the hand-written model.
   pb / ps = BITS / signedness of the primitive type the macro is instantiated at (instantiation lists checked by the translator).
   Vocabulary: Model/Imp.v (control flow), Model/ImpConv.v (bit patterns of primitive integers), Prim.v, Model/LoopPrims.v;
   by qualified name from the hand model: Cast.p_of_bits (pattern -> value), Convert.result, Core.is_negative / bitnot, Cast.from_bits,
   Convert.from_digits, NumConv.uN_try_from_iN, and the callees tied elsewhere: Convert.U_from_uint (from_uint!), Cast.U_from_int (as_buint!). *)
From Bnum Require Import Base Prim.
From Bnum.Model Require Import DigitPrims LoopPrims Core Imp ImpConv.
From Bnum.Model Require Cast Convert NumConv.
From Bnum.Generated Require Import DigitGen.

Module ConvGen.

(* src/buint/cast.rs: macro buint_as_int!, fn cast_from *)
Definition buint_as_int (w N : Z) (fuel : nat) (pb : Z) (ps : bool) (from : list Z) : res Z :=
  let out := (p_lit pb 0) in
  let i := 0 in
  t3' <- while_loop (R := Z) fuel
    (fun '(i, out) => (andb ((ix_shl i (digit_BIT_SHIFT w)) <? pb) (i <? N)))
    (fun '(i, out) =>
      t1' <- arr_get from i ;;
      t2' <- pint_shl pb (ud pb t1') (ix_shl i (digit_BIT_SHIFT w)) ;;
      let out := (u_or out t2') in
      let i := (i + 1) in
      Done (Continue (i, out)))
    (i, out) ;;
  match t3' with
  | Exited (i, out) =>
      Done (Cast.p_of_bits pb ps out)
  | Returned t4' => Done t4'
  end.

(* src/buint/convert.rs: macro try_from_buint!, fn try_from *)
Definition try_from_buint (w N : Z) (fuel : nat) (pb : Z) (ps : bool) (u : list Z) : res (Convert.result Z) :=
  let out := (p_lit pb 0) in
  let i := 0 in
  if (w >? pb) then (
    t1' <- arr_get u i ;;
    let small := (ud pb t1') in
    let trunc := (ud w (Cast.p_of_bits pb ps small)) in
    t2' <- arr_get u i ;;
    if (negb (t2' =? trunc)) then (
      Done Convert.Err
    ) else (
      let out := small in
      let i := 1 in
      if (p_is_neg pb ps out) then (
        Done Convert.Err
      ) else (
        t4' <- while_loop (R := (Convert.result Z)) fuel
          (fun i => (i <? N))
          (fun i =>
            t3' <- arr_get u i ;;
            if (negb (t3' =? 0)) then (
              Done (Return Convert.Err)
            ) else (
              let i := (i + 1) in
              Done (Continue i)
            ))
          i ;;
        match t4' with
        | Exited i =>
            Done (Convert.Ok (Cast.p_of_bits pb ps out))
        | Returned t5' => Done t5'
        end
      )
    )
  ) else (
    t8' <- while_loop (R := (Convert.result Z)) fuel
      (fun '(i, out) => true)
      (fun '(i, out) =>
        let shift := (ix_shl i (digit_BIT_SHIFT w)) in
        if (orb (i >=? N) (shift >=? pb)) then (
          Done (Break (i, out))
        ) else (
          t6' <- arr_get u i ;;
          t7' <- pint_shl pb (ud pb t6') shift ;;
          let out := (u_or out t7') in
          let i := (i + 1) in
          Done (Continue (i, out))
        ))
      (i, out) ;;
    match t8' with
    | Exited (i, out) =>
        if (p_is_neg pb ps out) then (
          Done Convert.Err
        ) else (
          t11' <- while_loop (R := (Convert.result Z)) fuel
            (fun i => (i <? N))
            (fun i =>
              t10' <- arr_get u i ;;
              if (negb (t10' =? 0)) then (
                Done (Return Convert.Err)
              ) else (
                let i := (i + 1) in
                Done (Continue i)
              ))
            i ;;
          match t11' with
          | Exited i =>
              Done (Convert.Ok (Cast.p_of_bits pb ps out))
          | Returned t12' => Done t12'
          end
        )
    | Returned t9' => Done t9'
    end
  ).

(* src/bint/cast.rs: macro bint_as!, fn cast_from *)
Definition bint_as_int (w N : Z) (fuel : nat) (pb : Z) (ps : bool) (from : list Z) : res Z :=
  if (Core.is_negative w from) then (
    let digits := from in
    let out := (u_not pb (p_lit pb 0)) in
    let i := 0 in
    t3' <- while_loop (R := Z) fuel
      (fun '(i, out) => (andb ((ix_shl i (digit_BIT_SHIFT w)) <? pb) (i <? N)))
      (fun '(i, out) =>
        t1' <- arr_get digits i ;;
        t2' <- pint_shl pb (ud pb (u_not w t1')) (ix_shl i (digit_BIT_SHIFT w)) ;;
        let out := (u_and out (u_not pb t2')) in
        let i := (i + 1) in
        Done (Continue (i, out)))
      (i, out) ;;
    match t3' with
    | Exited (i, out) =>
        Done (Cast.p_of_bits pb ps out)
    | Returned t4' => Done t4'
    end
  ) else (
    t5' <- buint_as_int w N fuel pb ps from ;;
    Done t5'
  ).

(* src/bint/convert.rs: macro int_try_from_bint!, fn try_from *)
Definition int_try_from_bint (w N : Z) (fuel : nat) (pb : Z) (ps : bool) (int : list Z) : res (Convert.result Z) :=
  let neg := (Core.is_negative w int) in
  let '(out, padding) := (if neg then ((p_lit pb (-1)), (u_max w)) else ((p_lit pb 0), 0)) in
  let i := 0 in
  if (w >? pb) then (
    t1' <- arr_get int i ;;
    let small := (ud pb t1') in
    let trunc := (ud w (Cast.p_of_bits pb ps small)) in
    t2' <- arr_get int i ;;
    if (negb (t2' =? trunc)) then (
      Done Convert.Err
    ) else (
      let out := small in
      let i := 1 in
      t4' <- while_loop (R := (Convert.result Z)) fuel
        (fun i => (i <? N))
        (fun i =>
          t3' <- arr_get int i ;;
          if (negb (t3' =? padding)) then (
            Done (Return Convert.Err)
          ) else (
            let i := (i + 1) in
            Done (Continue i)
          ))
        i ;;
      match t4' with
      | Exited i =>
          if (xorb (p_is_neg pb ps out) neg) then (
            Done Convert.Err
          ) else (
            Done (Convert.Ok (Cast.p_of_bits pb ps out))
          )
      | Returned t5' => Done t5'
      end
    )
  ) else (
    if neg then (
      t8' <- while_loop (R := (Convert.result Z)) fuel
        (fun '(i, out) => true)
        (fun '(i, out) =>
          let shift := (ix_shl i (digit_BIT_SHIFT w)) in
          if (orb (i >=? N) (shift >=? pb)) then (
            Done (Break (i, out))
          ) else (
            t6' <- arr_get int i ;;
            t7' <- pint_shl pb (ud pb (u_not w t6')) shift ;;
            let out := (u_and out (u_not pb t7')) in
            let i := (i + 1) in
            Done (Continue (i, out))
          ))
        (i, out) ;;
      match t8' with
      | Exited (i, out) =>
          t11' <- while_loop (R := (Convert.result Z)) fuel
            (fun i => (i <? N))
            (fun i =>
              t10' <- arr_get int i ;;
              if (negb (t10' =? padding)) then (
                Done (Return Convert.Err)
              ) else (
                let i := (i + 1) in
                Done (Continue i)
              ))
            i ;;
          match t11' with
          | Exited i =>
              if (xorb (p_is_neg pb ps out) neg) then (
                Done Convert.Err
              ) else (
                Done (Convert.Ok (Cast.p_of_bits pb ps out))
              )
          | Returned t12' => Done t12'
          end
      | Returned t9' => Done t9'
      end
    ) else (
      t15' <- while_loop (R := (Convert.result Z)) fuel
        (fun '(i, out) => true)
        (fun '(i, out) =>
          let shift := (ix_shl i (digit_BIT_SHIFT w)) in
          if (orb (i >=? N) (shift >=? pb)) then (
            Done (Break (i, out))
          ) else (
            t13' <- arr_get int i ;;
            t14' <- pint_shl pb (ud pb t13') shift ;;
            let out := (u_or out t14') in
            let i := (i + 1) in
            Done (Continue (i, out))
          ))
        (i, out) ;;
      match t15' with
      | Exited (i, out) =>
          t18' <- while_loop (R := (Convert.result Z)) fuel
            (fun i => (i <? N))
            (fun i =>
              t17' <- arr_get int i ;;
              if (negb (t17' =? padding)) then (
                Done (Return Convert.Err)
              ) else (
                let i := (i + 1) in
                Done (Continue i)
              ))
            i ;;
          match t18' with
          | Exited i =>
              if (xorb (p_is_neg pb ps out) neg) then (
                Done Convert.Err
              ) else (
                Done (Convert.Ok (Cast.p_of_bits pb ps out))
              )
          | Returned t19' => Done t19'
          end
      | Returned t16' => Done t16'
      end
    )
  ).

(* src/bint/convert.rs: macro uint_try_from_bint!, fn try_from *)
Definition uint_try_from_bint (w N : Z) (fuel : nat) (pb : Z) (ps : bool) (int : list Z) : res (Convert.result Z) :=
  if (Core.is_negative w int) then (
    Done Convert.Err
  ) else (
    t1' <- try_from_buint w N fuel pb ps int ;;
    Done t1'
  ).

(* src/buint/numtraits.rs: macro to_int!, fn $name *)
Definition U_to_int (w N : Z) (fuel : nat) (pb : Z) (ps : bool) (self : list Z) : res (option Z) :=
  let out := (p_lit pb 0) in
  let i := 0 in
  if (w >? pb) then (
    t1' <- arr_get self i ;;
    let small := (ud pb t1') in
    let trunc := (ud w (Cast.p_of_bits pb ps small)) in
    t2' <- arr_get self i ;;
    if (negb (t2' =? trunc)) then (
      Done None
    ) else (
      let out := small in
      let i := 1 in
      if (p_is_neg pb ps out) then (
        Done None
      ) else (
        t4' <- while_loop (R := (option Z)) fuel
          (fun i => (i <? N))
          (fun i =>
            t3' <- arr_get self i ;;
            if (negb (t3' =? 0)) then (
              Done (Return None)
            ) else (
              let i := (i + 1) in
              Done (Continue i)
            ))
          i ;;
        match t4' with
        | Exited i =>
            Done (Some (Cast.p_of_bits pb ps out))
        | Returned t5' => Done t5'
        end
      )
    )
  ) else (
    t8' <- while_loop (R := (option Z)) fuel
      (fun '(i, out) => true)
      (fun '(i, out) =>
        let shift := (ix_shl i (digit_BIT_SHIFT w)) in
        if (orb (i >=? N) (shift >=? pb)) then (
          Done (Break (i, out))
        ) else (
          t6' <- arr_get self i ;;
          t7' <- pint_shl pb (ud pb t6') shift ;;
          let out := (u_or out t7') in
          let i := (i + 1) in
          Done (Continue (i, out))
        ))
      (i, out) ;;
    match t8' with
    | Exited (i, out) =>
        if (p_is_neg pb ps out) then (
          Done None
        ) else (
          t11' <- while_loop (R := (option Z)) fuel
            (fun i => (i <? N))
            (fun i =>
              t10' <- arr_get self i ;;
              if (negb (t10' =? 0)) then (
                Done (Return None)
              ) else (
                let i := (i + 1) in
                Done (Continue i)
              ))
            i ;;
          match t11' with
          | Exited i =>
              Done (Some (Cast.p_of_bits pb ps out))
          | Returned t12' => Done t12'
          end
        )
    | Returned t9' => Done t9'
    end
  ).

(* src/bint/numtraits.rs: macro to_int!, fn $name *)
Definition I_to_int (w N : Z) (fuel : nat) (pb : Z) (ps : bool) (self : list Z) : res (option Z) :=
  let neg := (Core.is_negative w self) in
  let '(out, padding) := (if neg then ((p_lit pb (-1)), (u_max w)) else ((p_lit pb 0), 0)) in
  let i := 0 in
  if (w >? pb) then (
    t1' <- arr_get self i ;;
    let small := (ud pb t1') in
    let trunc := (ud w (Cast.p_of_bits pb ps small)) in
    t2' <- arr_get self i ;;
    if (negb (t2' =? trunc)) then (
      Done None
    ) else (
      let out := small in
      let i := 1 in
      t4' <- while_loop (R := (option Z)) fuel
        (fun i => (i <? N))
        (fun i =>
          t3' <- arr_get self i ;;
          if (negb (t3' =? padding)) then (
            Done (Return None)
          ) else (
            let i := (i + 1) in
            Done (Continue i)
          ))
        i ;;
      match t4' with
      | Exited i =>
          if (xorb (p_is_neg pb ps out) neg) then (
            Done None
          ) else (
            Done (Some (Cast.p_of_bits pb ps out))
          )
      | Returned t5' => Done t5'
      end
    )
  ) else (
    if neg then (
      t8' <- while_loop (R := (option Z)) fuel
        (fun '(i, out) => true)
        (fun '(i, out) =>
          let shift := (ix_shl i (digit_BIT_SHIFT w)) in
          if (orb (i >=? N) (shift >=? pb)) then (
            Done (Break (i, out))
          ) else (
            t6' <- arr_get self i ;;
            t7' <- pint_shl pb (ud pb (u_not w t6')) shift ;;
            let out := (u_and out (u_not pb t7')) in
            let i := (i + 1) in
            Done (Continue (i, out))
          ))
        (i, out) ;;
      match t8' with
      | Exited (i, out) =>
          t11' <- while_loop (R := (option Z)) fuel
            (fun i => (i <? N))
            (fun i =>
              t10' <- arr_get self i ;;
              if (negb (t10' =? padding)) then (
                Done (Return None)
              ) else (
                let i := (i + 1) in
                Done (Continue i)
              ))
            i ;;
          match t11' with
          | Exited i =>
              if (xorb (p_is_neg pb ps out) neg) then (
                Done None
              ) else (
                Done (Some (Cast.p_of_bits pb ps out))
              )
          | Returned t12' => Done t12'
          end
      | Returned t9' => Done t9'
      end
    ) else (
      t15' <- while_loop (R := (option Z)) fuel
        (fun '(i, out) => true)
        (fun '(i, out) =>
          let shift := (ix_shl i (digit_BIT_SHIFT w)) in
          if (orb (i >=? N) (shift >=? pb)) then (
            Done (Break (i, out))
          ) else (
            t13' <- arr_get self i ;;
            t14' <- pint_shl pb (ud pb t13') shift ;;
            let out := (u_or out t14') in
            let i := (i + 1) in
            Done (Continue (i, out))
          ))
        (i, out) ;;
      match t15' with
      | Exited (i, out) =>
          t18' <- while_loop (R := (option Z)) fuel
            (fun i => (i <? N))
            (fun i =>
              t17' <- arr_get self i ;;
              if (negb (t17' =? padding)) then (
                Done (Return None)
              ) else (
                let i := (i + 1) in
                Done (Continue i)
              ))
            i ;;
          match t18' with
          | Exited i =>
              if (xorb (p_is_neg pb ps out) neg) then (
                Done None
              ) else (
                Done (Some (Cast.p_of_bits pb ps out))
              )
          | Returned t19' => Done t19'
          end
      | Returned t16' => Done t16'
      end
    )
  ).

(* src/bint/numtraits.rs: macro to_uint!, fn $name *)
Definition I_to_uint (w N : Z) (fuel : nat) (pb : Z) (ps : bool) (self : list Z) : res (option Z) :=
  if (Core.is_negative w self) then (
    Done None
  ) else (
    t1' <- U_to_int w N fuel pb ps self ;;
    Done t1'
  ).

(* src/bint/convert.rs: macro from_int!, fn from *)
Definition bint_from_int (w N : Z) (fuel : nat) (pb : Z) (int : Z) : res (list Z) :=
  let out := (if (int <? 0) then (Core.bitnot w (ZERO (Z.to_nat N))) else (ZERO (Z.to_nat N))) in
  let i := 0 in
  t2' <- while_loop (R := list Z) fuel
    (fun '(out, i) => ((ix_shl i (digit_BIT_SHIFT w)) <? pb))
    (fun '(out, i) =>
      t1' <- pshr pb int (ix_shl i (digit_BIT_SHIFT w)) ;;
      let d := (ud w t1') in
      out <- arr_set out i d ;;
      let i := (i + 1) in
      Done (Continue (out, i)))
    (out, i) ;;
  match t2' with
  | Exited (out, i) =>
      Done out
  | Returned t3' => Done t3'
  end.

(* src/bint/convert.rs: macro from_uint!, fn from *)
Definition bint_from_uint (dbg : bool) (w N : Z) (fuel : nat) (pb : Z) (int : Z) : res (list Z) :=
  t1' <- of_outcome (Convert.U_from_uint dbg pb w (Z.to_nat N) int) ;;
  let out := (Cast.from_bits t1') in
  Done out.

(* src/bint/cast.rs: macro as_bint!, fn cast_from *)
Definition bint_from_prim (w N : Z) (fuel : nat) (pb : Z) (from : Z) : res (list Z) :=
  t1' <- of_outcome (Cast.U_from_int pb w (Z.to_nat N) from) ;;
  Done (Cast.from_bits t1').

(* src/buint/convert.rs: macro try_from_iint!, fn try_from *)
Definition try_from_iint (dbg : bool) (w N : Z) (fuel : nat) (pb : Z) (int : Z) : res (Convert.result (list Z)) :=
  if (int <? 0) then (
    Done Convert.Err
  ) else (
    let bits := (ud pb int) in
    t1' <- of_outcome (Convert.U_from_uint dbg pb w (Z.to_nat N) bits) ;;
    Done (Convert.Ok t1')
  ).

(* src/buint/numtraits.rs: fn from_u64 *)
Definition U_from_u64 (w N : Z) (fuel : nat) (int : Z) : res (option (list Z)) :=
  let pb := 64 in
  let UINT_BITS := pb in
  let out := (ZERO (Z.to_nat N)) in
  let i := 0 in
  t2' <- while_loop (R := (option (list Z))) fuel
    (fun '(out, i) => ((ix_shl i (digit_BIT_SHIFT w)) <? UINT_BITS))
    (fun '(out, i) =>
      t1' <- pshr pb int (ix_shl i (digit_BIT_SHIFT w)) ;;
      let d := (ud w t1') in
      if (negb (d =? 0)) then (
        if (i <? N) then (
          out <- arr_set out i d ;;
          let i := (i + 1) in
          Done (Continue (out, i))
        ) else (
          Done (Return None)
        )
      ) else (
        let i := (i + 1) in
        Done (Continue (out, i))
      ))
    (out, i) ;;
  match t2' with
  | Exited (out, i) =>
      Done (Some out)
  | Returned t3' => Done t3'
  end.

(* src/buint/numtraits.rs: fn from_u128 *)
Definition U_from_u128 (w N : Z) (fuel : nat) (int : Z) : res (option (list Z)) :=
  let pb := 128 in
  let UINT_BITS := pb in
  let out := (ZERO (Z.to_nat N)) in
  let i := 0 in
  t2' <- while_loop (R := (option (list Z))) fuel
    (fun '(out, i) => ((ix_shl i (digit_BIT_SHIFT w)) <? UINT_BITS))
    (fun '(out, i) =>
      t1' <- pshr pb int (ix_shl i (digit_BIT_SHIFT w)) ;;
      let d := (ud w t1') in
      if (negb (d =? 0)) then (
        if (i <? N) then (
          out <- arr_set out i d ;;
          let i := (i + 1) in
          Done (Continue (out, i))
        ) else (
          Done (Return None)
        )
      ) else (
        let i := (i + 1) in
        Done (Continue (out, i))
      ))
    (out, i) ;;
  match t2' with
  | Exited (out, i) =>
      Done (Some out)
  | Returned t3' => Done t3'
  end.

(* src/buint/numtraits.rs: fn from_i64 *)
Definition U_from_i64 (w N : Z) (fuel : nat) (int : Z) : res (option (list Z)) :=
  let pb := 64 in
  match (NumConv.uN_try_from_iN int) with
  | Convert.Ok int'1 => (
      t1' <- U_from_u64 w N fuel int'1 ;;
      Done t1'
    )
  | _ => (
      Done None
    )
  end.

(* src/buint/numtraits.rs: fn from_i128 *)
Definition U_from_i128 (w N : Z) (fuel : nat) (n : Z) : res (option (list Z)) :=
  let pb := 128 in
  match (NumConv.uN_try_from_iN n) with
  | Convert.Ok n'1 => (
      t1' <- U_from_u128 w N fuel n'1 ;;
      Done t1'
    )
  | _ => (
      Done None
    )
  end.

(* src/bint/numtraits.rs: macro from_uint!, fn $name *)
Definition I_from_uint (w N : Z) (fuel : nat) (pb : Z) (n : Z) : res (option (list Z)) :=
  let UINT_BITS := pb in
  let out := (ZERO (Z.to_nat N)) in
  let i := 0 in
  t2' <- while_loop (R := (option (list Z))) fuel
    (fun '(out, i) => ((ix_shl i (digit_BIT_SHIFT w)) <? UINT_BITS))
    (fun '(out, i) =>
      t1' <- pshr pb n (ix_shl i (digit_BIT_SHIFT w)) ;;
      let d := (ud w t1') in
      if (negb (d =? 0)) then (
        if (i <? N) then (
          out <- arr_set out i d ;;
          let i := (i + 1) in
          Done (Continue (out, i))
        ) else (
          Done (Return None)
        )
      ) else (
        let i := (i + 1) in
        Done (Continue (out, i))
      ))
    (out, i) ;;
  match t2' with
  | Exited (out, i) =>
      if (Core.is_negative w out) then (
        Done None
      ) else (
        Done (Some out)
      )
  | Returned t3' => Done t3'
  end.

(* src/bint/numtraits.rs: macro from_int!, fn $name *)
Definition I_from_int (w N : Z) (fuel : nat) (pb : Z) (n : Z) : res (option (list Z)) :=
  let INT_BITS := pb in
  let initial_digit := (if (n <? 0) then (u_max w) else 0) in
  let out := (Cast.from_bits (Convert.from_digits (repeat initial_digit (Z.to_nat N)))) in
  let i := 0 in
  t2' <- while_loop (R := (option (list Z))) fuel
    (fun '(out, i) => ((ix_shl i (digit_BIT_SHIFT w)) <? INT_BITS))
    (fun '(out, i) =>
      t1' <- pshr pb n (ix_shl i (digit_BIT_SHIFT w)) ;;
      let d := (ud w t1') in
      if (negb (d =? initial_digit)) then (
        if (i <? N) then (
          out <- arr_set out i d ;;
          let i := (i + 1) in
          Done (Continue (out, i))
        ) else (
          Done (Return None)
        )
      ) else (
        let i := (i + 1) in
        Done (Continue (out, i))
      ))
    (out, i) ;;
  match t2' with
  | Exited (out, i) =>
      if (xorb (n <? 0) (Core.is_negative w out)) then (
        Done None
      ) else (
        Done (Some out)
      )
  | Returned t3' => Done t3'
  end.

End ConvGen.

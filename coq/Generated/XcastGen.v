(* GENERATED on every run by tools/rs2v_xcast.py from /repo/src/{buint,bint}/{cast,convert}.rs (casts and checked conversions
   BETWEEN bnum integer types, bool / char -> bnum).  Do not edit.  Proofs/XcastGenTie*.v prove each function equal to the hand model.
   w, N = digit width and size of `Self` (the target);  ow, M = digit width and size of the source ($OtherDigit / $OtherBUint<M>;
   in the BTryFrom macros: $From<$N>).  Instantiation lists (src/lib.rs, mixed_try_from!, as_bint!) are checked by the translator.
   Vocabulary: Model/Imp.v (control flow), Model/ImpXcast.v (udiv, urem), Prim.v, Model/LoopPrims.v; by qualified name from the hand
   model: Core.is_negative, Core.ONE, Cast.from_bits / to_bits, Bits.leading_zeros / leading_ones, Convert.result, and the callees
   tied elsewhere: Cast.cast_up / cast_down, Cast.U_from_int (LoopsTieC09); in the C13 functions Cast.cast, Cast.U_from_bool .. (C09). *)
From Bnum Require Import Base Prim.
From Bnum.Model Require Import DigitPrims LoopPrims Core Imp ImpXcast.
From Bnum.Model Require Bits Cast Convert.
From Bnum.Generated Require Import DigitGen.

Module XcastGen.

(* src/buint/cast.rs: macro buint_as_different_digit_bigint!, `impl<const N: usize, const M: usize> crate::cast::CastFrom<$OtherBUint<M>> for $BUint<N>`, fn cast_from *)
Definition U_castd_U (w N : Z) (fuel : nat) (ow : Z) (M : Z) (from : list Z) : res (list Z) :=
  let out := (ZERO (Z.to_nat N)) in
  if (w <? ow) then (
    t1' <- udiv ow w ;;
    let DIVIDE_COUNT := t1' in
    let stop_index := (if ((ow * M) >? (w * N)) then N else (M * DIVIDE_COUNT)) in
    let i := 0 in
    t6' <- while_loop (R := list Z) fuel
      (fun '(out, i) => (i <? stop_index))
      (fun '(out, i) =>
        t2' <- udiv i DIVIDE_COUNT ;;
        t3' <- arr_get from t2' ;;
        let wider_digit := t3' in
        t4' <- urem i DIVIDE_COUNT ;;
        let mini_shift := t4' in
        t5' <- dshr ow wider_digit (ix_shl mini_shift (digit_BIT_SHIFT w)) ;;
        let digit := (ud w t5') in
        out <- arr_set out i digit ;;
        let i := (i + 1) in
        Done (Continue (out, i)))
      (out, i) ;;
    match t6' with
    | Exited (out, i) =>
        Done out
    | Returned t7' => Done t7'
    end
  ) else (
    t8' <- udiv w ow ;;
    let DIVIDE_COUNT := t8' in
    let stop_index := (if ((ow * M) >? (w * N)) then (N * DIVIDE_COUNT) else M) in
    let current_digit := 0 in
    let i := 0 in
    t16' <- while_loop (R := list Z) fuel
      (fun '(out, current_digit, i) => (i <? stop_index))
      (fun '(out, current_digit, i) =>
        t9' <- urem i DIVIDE_COUNT ;;
        let mini_shift := t9' in
        t10' <- arr_get from i ;;
        t11' <- dshl w (ud w t10') (ix_shl mini_shift (digit_BIT_SHIFT ow)) ;;
        let current_digit := (dg_or w current_digit t11') in
        t12' <- usub DIVIDE_COUNT 1 ;;
        t14' <- (if (mini_shift =? t12') then Done true else (t13' <- usub stop_index 1 ;; Done (i =? t13'))) ;;
        if t14' then (
          t15' <- udiv i DIVIDE_COUNT ;;
          out <- arr_set out t15' current_digit ;;
          let current_digit := 0 in
          let i := (i + 1) in
          Done (Continue (out, current_digit, i))
        ) else (
          let i := (i + 1) in
          Done (Continue (out, current_digit, i))
        ))
      (out, current_digit, i) ;;
    match t16' with
    | Exited (out, current_digit, i) =>
        Done out
    | Returned t17' => Done t17'
    end
  ).

(* src/buint/cast.rs: macro buint_as_different_digit_bigint!, `impl<const N: usize, const M: usize> crate::cast::CastFrom<$OtherBUint<M>> for $BInt<N>`, fn cast_from *)
Definition I_castd_U (w N : Z) (fuel : nat) (ow : Z) (M : Z) (from : list Z) : res (list Z) :=
  t1' <- U_castd_U w N fuel ow M from ;;
  Done (Cast.from_bits t1').

(* src/bint/cast.rs: macro bint_as_different_digit_bigint!, `impl<const N: usize, const M: usize> crate::cast::CastFrom<$OtherBInt<M>> for $BUint<N>`, fn cast_from *)
Definition U_castd_I (w N : Z) (fuel : nat) (ow : Z) (M : Z) (from : list Z) : res (list Z) :=
  if (orb (negb (Core.is_negative ow from)) ((M * ow) >=? (N * w))) then (
    t1' <- U_castd_U w N fuel ow M (Cast.to_bits from) ;;
    Done t1'
  ) else (
    let out := (UMAX w (Z.to_nat N)) in
    if (w <? ow) then (
      t2' <- udiv ow w ;;
      let DIVIDE_COUNT := t2' in
      let stop_index := (if ((ow * M) >? (w * N)) then N else (M * DIVIDE_COUNT)) in
      let i := 0 in
      t7' <- while_loop (R := list Z) fuel
        (fun '(out, i) => (i <? stop_index))
        (fun '(out, i) =>
          t3' <- udiv i DIVIDE_COUNT ;;
          t4' <- arr_get from t3' ;;
          let wider_digit := t4' in
          t5' <- urem i DIVIDE_COUNT ;;
          let mini_shift := t5' in
          t6' <- dshr ow wider_digit (ix_shl mini_shift (digit_BIT_SHIFT w)) ;;
          let digit := (ud w t6') in
          out <- arr_set out i digit ;;
          let i := (i + 1) in
          Done (Continue (out, i)))
        (out, i) ;;
      match t7' with
      | Exited (out, i) =>
          Done out
      | Returned t8' => Done t8'
      end
    ) else (
      t9' <- udiv w ow ;;
      let DIVIDE_COUNT := t9' in
      let stop_index := (if ((ow * M) >? (w * N)) then (N * DIVIDE_COUNT) else M) in
      let current_digit := (u_max w) in
      let i := 0 in
      t17' <- while_loop (R := list Z) fuel
        (fun '(out, current_digit, i) => (i <? stop_index))
        (fun '(out, current_digit, i) =>
          t10' <- urem i DIVIDE_COUNT ;;
          let mini_shift := t10' in
          t11' <- arr_get from i ;;
          t12' <- dshl w (ud w (u_not ow t11')) (ix_shl mini_shift (digit_BIT_SHIFT ow)) ;;
          let current_digit := (dg_and w current_digit (u_not w t12')) in
          t13' <- usub DIVIDE_COUNT 1 ;;
          t15' <- (if (mini_shift =? t13') then Done true else (t14' <- usub stop_index 1 ;; Done (i =? t14'))) ;;
          if t15' then (
            t16' <- udiv i DIVIDE_COUNT ;;
            out <- arr_set out t16' current_digit ;;
            let current_digit := (u_max w) in
            let i := (i + 1) in
            Done (Continue (out, current_digit, i))
          ) else (
            let i := (i + 1) in
            Done (Continue (out, current_digit, i))
          ))
        (out, current_digit, i) ;;
      match t17' with
      | Exited (out, current_digit, i) =>
          Done out
      | Returned t18' => Done t18'
      end
    )
  ).

(* src/bint/cast.rs: macro bint_as_different_digit_bigint!, `impl<const N: usize, const M: usize> crate::cast::CastFrom<$OtherBInt<M>> for $BInt<N>`, fn cast_from *)
Definition I_castd_I (w N : Z) (fuel : nat) (ow : Z) (M : Z) (from : list Z) : res (list Z) :=
  t1' <- U_castd_I w N fuel ow M from ;;
  Done (Cast.from_bits t1').

(* src/buint/cast.rs: `impl<const N: usize> CastFrom<bool> for $BUint<N>`, fn cast_from *)
Definition U_from_bool (w N : Z) (fuel : nat) (from : bool) : res (list Z) :=
  if from then (
    Done (Core.ONE (Z.to_nat N))
  ) else (
    Done (ZERO (Z.to_nat N))
  ).

(* src/buint/cast.rs: `impl<const N: usize> CastFrom<char> for $BUint<N>`, fn cast_from *)
Definition U_from_char (w N : Z) (fuel : nat) (from : Z) : res (list Z) :=
  t1' <- of_outcome (Cast.U_from_int 32 w (Z.to_nat N) from) ;;
  Done t1'.

(* src/buint/cast.rs: `impl<const N: usize, const M: usize> CastFrom<$BUint<M>> for $BUint<N>`, fn cast_from *)
Definition U_cast_U (w N : Z) (fuel : nat) (M : Z) (from : list Z) : res (list Z) :=
  if (M <? N) then (
    t1' <- of_outcome (Cast.cast_up from (Z.to_nat N) 0) ;;
    Done t1'
  ) else (
    t2' <- of_outcome (Cast.cast_down from (Z.to_nat N)) ;;
    Done t2'
  ).

(* src/buint/cast.rs: `impl<const N: usize, const M: usize> CastFrom<$BInt<M>> for $BUint<N>`, fn cast_from *)
Definition U_cast_I (w N : Z) (fuel : nat) (M : Z) (from : list Z) : res (list Z) :=
  if (M <? N) then (
    let padding_digit := (if (Core.is_negative w from) then (u_max w) else 0) in
    t1' <- of_outcome (Cast.cast_up (Cast.to_bits from) (Z.to_nat N) padding_digit) ;;
    Done t1'
  ) else (
    t2' <- of_outcome (Cast.cast_down (Cast.to_bits from) (Z.to_nat N)) ;;
    Done t2'
  ).

(* src/bint/cast.rs: `impl<const N: usize, const M: usize> CastFrom<$BUint<M>> for $BInt<N>`, fn cast_from *)
Definition I_cast_U (w N : Z) (fuel : nat) (M : Z) (from : list Z) : res (list Z) :=
  t1' <- U_cast_U w N fuel M from ;;
  Done (Cast.from_bits t1').

(* src/bint/cast.rs: `impl<const N: usize, const M: usize> CastFrom<$BInt<M>> for $BInt<N>`, fn cast_from *)
Definition I_cast_I (w N : Z) (fuel : nat) (M : Z) (from : list Z) : res (list Z) :=
  t1' <- U_cast_I w N fuel M from ;;
  Done (Cast.from_bits t1').

(* src/bint/cast.rs: macro as_bint!, $ty = bool, `impl<const N: usize> CastFrom<$ty> for $BInt<N>`, fn cast_from *)
Definition I_from_bool (w N : Z) (fuel : nat) (from : bool) : res (list Z) :=
  t1' <- U_from_bool w N fuel from ;;
  Done (Cast.from_bits t1').

(* src/bint/cast.rs: macro as_bint!, $ty = char, `impl<const N: usize> CastFrom<$ty> for $BInt<N>`, fn cast_from *)
Definition I_from_char (w N : Z) (fuel : nat) (from : Z) : res (list Z) :=
  t1' <- U_from_char w N fuel from ;;
  Done (Cast.from_bits t1').

(* src/buint/convert.rs: macro uint_try_from_uint!, `impl<$(const $N: usize,)? const M: usize> $Trait<$From $(<$N>)?> for $To<M>`, fn try_from *)
(* Self = the target $To<M>: digit width w, size N here (Rust's M);  $From<$N>: digit width ow, size M here (Rust's $N) *)
Definition U_btry_from_U (dbg : bool) (w N : Z) (fuel : nat) (ow : Z) (M : Z) (from : list Z) : res (Convert.result (list Z)) :=
  t2' <- (if ((ow * M) <=? (w * N)) then Done true else (t1' <- usub (ow * M) (Bits.leading_zeros ow from) ;; Done (t1' <=? (w * N)))) ;;
  if t2' then (
    t3' <- of_outcome (Cast.cast dbg ow w (Z.to_nat N) false false from) ;;
    Done (Convert.Ok t3')
  ) else (
    Done Convert.Err
  ).

(* src/buint/convert.rs: macro uint_try_from_int!, `impl<$(const $N: usize,)? const M: usize> $Trait<$From $(<$N>)?> for $To<M>`, fn try_from *)
(* Self = the target $To<M>: digit width w, size N here (Rust's M);  $From<$N>: digit width ow, size M here (Rust's $N) *)
Definition U_btry_from_I (dbg : bool) (w N : Z) (fuel : nat) (ow : Z) (M : Z) (from : list Z) : res (Convert.result (list Z)) :=
  if (Core.is_negative ow from) then (
    Done Convert.Err
  ) else (
    t2' <- (if ((ix_saturating_sub (ow * M) 1) <=? (w * N)) then Done true else (t1' <- usub (ow * M) (Bits.leading_zeros ow from) ;; Done (t1' <=? (w * N)))) ;;
    if t2' then (
      t3' <- of_outcome (Cast.cast dbg ow w (Z.to_nat N) true false from) ;;
      Done (Convert.Ok t3')
    ) else (
      Done Convert.Err
    )
  ).

(* src/buint/convert.rs: macro int_try_from_uint!, `impl<$(const $N: usize,)? const M: usize> $Trait<$From $(<$N>)?> for $To<M>`, fn try_from *)
(* Self = the target $To<M>: digit width w, size N here (Rust's M);  $From<$N>: digit width ow, size M here (Rust's $N) *)
Definition I_btry_from_U (dbg : bool) (w N : Z) (fuel : nat) (ow : Z) (M : Z) (from : list Z) : res (Convert.result (list Z)) :=
  t1' <- usub (w * N) 1 ;;
  t4' <- (if ((ow * M) <=? t1') then Done true else (t2' <- usub (ow * M) (Bits.leading_zeros ow from) ;; t3' <- usub (w * N) 1 ;; Done (t2' <=? t3'))) ;;
  if t4' then (
    t5' <- of_outcome (Cast.cast dbg ow w (Z.to_nat N) false true from) ;;
    Done (Convert.Ok t5')
  ) else (
    Done Convert.Err
  ).

(* src/buint/convert.rs: macro int_try_from_int!, `impl<$(const $N: usize,)? const M: usize> $Trait<$From $(<$N>)?> for $To<M>`, fn try_from *)
(* Self = the target $To<M>: digit width w, size N here (Rust's M);  $From<$N>: digit width ow, size M here (Rust's $N) *)
Definition I_btry_from_I (dbg : bool) (w N : Z) (fuel : nat) (ow : Z) (M : Z) (from : list Z) : res (Convert.result (list Z)) :=
  if ((ow * M) <=? (w * N)) then (
    t1' <- of_outcome (Cast.cast dbg ow w (Z.to_nat N) true true from) ;;
    Done (Convert.Ok t1')
  ) else (
    if (Core.is_negative ow from) then (
      t2' <- usub (ow * M) (Bits.leading_ones ow from) ;;
      t3' <- usub (w * N) 1 ;;
      if (t2' <=? t3') then (
        t4' <- of_outcome (Cast.cast dbg ow w (Z.to_nat N) true true from) ;;
        Done (Convert.Ok t4')
      ) else (
        Done Convert.Err
      )
    ) else (
      t5' <- usub (ow * M) (Bits.leading_zeros ow from) ;;
      t6' <- usub (w * N) 1 ;;
      if (t5' <=? t6') then (
        t7' <- of_outcome (Cast.cast dbg ow w (Z.to_nat N) true true from) ;;
        Done (Convert.Ok t7')
      ) else (
        Done Convert.Err
      )
    )
  ).

(* src/buint/convert.rs: `impl<const N: usize> From<bool> for $BUint<N>`, fn from *)
Definition U_conv_from_bool (w N : Z) (fuel : nat) (small : bool) : res (list Z) :=
  Done (Cast.U_from_bool (Z.to_nat N) small).

(* src/buint/convert.rs: `impl<const N: usize> From<char> for $BUint<N>`, fn from *)
Definition U_conv_from_char (w N : Z) (fuel : nat) (c : Z) : res (list Z) :=
  t1' <- of_outcome (Cast.U_from_char w (Z.to_nat N) c) ;;
  Done t1'.

(* src/bint/convert.rs: `impl<const N: usize> From<bool> for $BInt<N>`, fn from *)
Definition I_conv_from_bool (w N : Z) (fuel : nat) (small : bool) : res (list Z) :=
  Done (Cast.I_from_bool (Z.to_nat N) small).

(* Trait resolution.  `<T<N> as CastFrom<S<M>>>::cast_from` for bnum types T, S: S has the digit type of T (ow = w) - the impl of
   the file's macro (instantiated by macro_impl! for every digit type) -, or another one - the instance of
   buint_ / bint_as_different_digit_bigint! (src/lib.rs lists one for every ordered pair of different digit types: checked). *)
Definition cast_UU (w N : Z) (fuel : nat) (ow M : Z) (from : list Z) : res (list Z) :=
  if ow =? w then U_cast_U w N fuel M from else U_castd_U w N fuel ow M from.

Definition cast_UI (w N : Z) (fuel : nat) (ow M : Z) (from : list Z) : res (list Z) :=
  if ow =? w then U_cast_I w N fuel M from else U_castd_I w N fuel ow M from.

Definition cast_IU (w N : Z) (fuel : nat) (ow M : Z) (from : list Z) : res (list Z) :=
  if ow =? w then I_cast_U w N fuel M from else I_castd_U w N fuel ow M from.

Definition cast_II (w N : Z) (fuel : nat) (ow M : Z) (from : list Z) : res (list Z) :=
  if ow =? w then I_cast_I w N fuel M from else I_castd_I w N fuel ow M from.

End XcastGen.

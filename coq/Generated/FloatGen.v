(* GENERATED on every run by tools/rs2v_float.py from /repo/src/cast/float/{mod,uint_from_float,float_from_uint}.rs, src/helpers.rs
   (impl_bits_for_uint!) and the float casts of src/{buint,bint}/cast.rs.  Do not edit.  Proofs/FloatGenTie*.v prove each function
   equal to the hand-written model Model/FloatCast.v.  F = the float format (FloatCast.F32 / F64: the instantiation lists of the
   macros are checked by the translator); a float is its bit pattern, a mantissa word a number below 2^(fbits F).
   Vocabulary: Model/Imp.v (res monad; usub; dshl / dshr = checked shifts, here at the width of the mantissa word), Model/ImpFloat.v
   (the two try_from conversions), Prim.v; by qualified name from the hand model: the format (FloatCast.fbits fp MAX_EXP F_INFINITY
   F_ZERO), its primitive float / word operations (f_to_bits f_from_bits f_is_nan f_is_infinite f_is_sign_negative f_neg m_bit m_add),
   and the callees tied elsewhere: Bits.bits_of / bit / trailing_zeros, Shift.U_shl / U_shr, Cast.U_from_int (as_buint!),
   Cast.U_as_int (buint_as_int!), AddSub.I_unsigned_abs / I_neg, Core.is_negative / ucmp. *)
From Bnum Require Import Base Prim.
From Bnum.Model Require Import Core Imp ImpFloat.
From Bnum.Model Require FloatCast Bits Shift Cast AddSub.

Module FloatGen.

(* src/cast/float/mod.rs: fn round_exponent_mantissa, from_normalised_signed_parts of impl_convert_float_parts_for_primitive_float!  -- SKIPPED: dead code (only the disabled `float` module uses them; checked:
   `mod float;` is not compiled and no other file names them) *)

(* src/helpers.rs: macro impl_bits_for_uint!, fn bits *)
Definition mant_bits (F : FloatCast.ffmt) (self : Z) : res Z :=
  t1' <- usub (FloatCast.fbits F) (u_leading_zeros (FloatCast.fbits F) self) ;;
  Done t1'.

(* src/helpers.rs: macro impl_bits_for_uint!, fn bit *)
Definition mant_bit (F : FloatCast.ffmt) (self : Z) (index : Z) : res bool :=
  t1' <- dshl (FloatCast.fbits F) 1 index ;;
  Done (negb ((u_and self t1') =? 0)).

(* src/cast/float/mod.rs: macro impl_convert_float_parts_for_primitive_float!, fn into_raw_parts *)
Definition into_raw_parts (F : FloatCast.ffmt) (self : Z) : res (bool * Z * Z) :=
  let sign := (FloatCast.f_is_sign_negative F self) in
  t1' <- dshr (FloatCast.fbits F) (u_max (FloatCast.fbits F)) 1 ;;
  let SIGN_MASK := t1' in
  t2' <- usub (FloatCast.fp F) 1 ;;
  t3' <- dshr (FloatCast.fbits F) (u_and (FloatCast.f_to_bits self) SIGN_MASK) t2' ;;
  let exp := t3' in
  t4' <- usub (FloatCast.fp F) 1 ;;
  t5' <- usub (FloatCast.fbits F) t4' ;;
  t6' <- dshr (FloatCast.fbits F) (u_max (FloatCast.fbits F)) t5' ;;
  let mant := (u_and (FloatCast.f_to_bits self) t6') in
  Done (sign, (ud 32 exp), mant).

(* src/cast/float/mod.rs: macro impl_convert_float_parts_for_primitive_float!, fn into_biased_parts *)
Definition into_biased_parts (F : FloatCast.ffmt) (self : Z) : res (bool * Z * Z) :=
  t1' <- into_raw_parts F self ;;
  let '(sign, exp, mant) := t1' in
  if (exp =? 0) then (
    Done (sign, 1, mant)
  ) else (
    t2' <- usub (FloatCast.fp F) 1 ;;
    t3' <- dshl (FloatCast.fbits F) 1 t2' ;;
    Done (sign, exp, (u_or mant t3'))
  ).

(* src/cast/float/mod.rs: macro impl_convert_float_parts_for_primitive_float!, fn into_signed_biased_parts *)
Definition into_signed_biased_parts (F : FloatCast.ffmt) (self : Z) : res (bool * Z * Z) :=
  t1' <- into_biased_parts F self ;;
  let '(sign, exp, mant) := t1' in
  Done (sign, (sd 32 exp), mant).

(* src/cast/float/mod.rs: macro impl_convert_float_parts_for_primitive_float!, fn into_signed_parts *)
Definition into_signed_parts (F : FloatCast.ffmt) (self : Z) : res (bool * Z * Z) :=
  t1' <- into_signed_biased_parts F self ;;
  let '(sign, exp, mant) := t1' in
  let EXP_BIAS := ((FloatCast.MAX_EXP F) - 1) in
  Done (sign, (exp - EXP_BIAS), mant).

(* src/cast/float/mod.rs: macro impl_convert_float_parts_for_primitive_float!, fn into_normalised_signed_parts *)
Definition into_normalised_signed_parts (F : FloatCast.ffmt) (self : Z) : res (bool * Z * Z) :=
  t1' <- into_signed_parts F self ;;
  let '(sign, exp, mant) := t1' in
  t2' <- usub (FloatCast.fp F) (bitlen mant) ;;
  let shift := t2' in
  if (orb (mant =? 0) (shift =? 0)) then (
    Done (sign, exp, mant)
  ) else (
    t3' <- dshr (FloatCast.fbits F) mant shift ;;
    let normalised_mant := t3' in
    let normalised_exp := (exp - (sd 32 shift)) in
    Done (sign, normalised_exp, normalised_mant)
  ).

(* src/cast/float/mod.rs: macro impl_convert_float_parts_for_primitive_float!, fn from_raw_parts *)
Definition from_raw_parts (dbg : bool) (F : FloatCast.ffmt) (sign : bool) (exponent : Z) (mantissa : Z) : res Z :=
  t6' <- (if dbg then (t1' <- usub (FloatCast.fp F) 1 ;; Done ((bitlen mantissa) <=? t1')) else Done true) ;;
  if negb t6' then Panicked else (
    t2' <- usub (FloatCast.fp F) 1 ;;
    t3' <- dshl (FloatCast.fbits F) (ud (FloatCast.fbits F) exponent) t2' ;;
    let bits := (u_or t3' mantissa) in
    if sign then (
      t4' <- usub (FloatCast.fbits F) 1 ;;
      t5' <- dshl (FloatCast.fbits F) 1 t4' ;;
      let bits := (u_or bits t5') in
      Done (FloatCast.f_from_bits bits)
    ) else (
      Done (FloatCast.f_from_bits bits)
    )
  ).

(* src/cast/float/mod.rs: macro impl_convert_float_parts_for_primitive_float!, fn from_biased_parts *)
Definition from_biased_parts (dbg : bool) (F : FloatCast.ffmt) (sign : bool) (exponent : Z) (mantissa : Z) : res Z :=
  if dbg && negb (negb (exponent =? 0)) then Panicked else (
    t1' <- usub (FloatCast.fp F) 1 ;;
    if (FloatCast.m_bit (FloatCast.fbits F) mantissa t1') then (
      t2' <- usub (FloatCast.fp F) 1 ;;
      t3' <- dshl (FloatCast.fbits F) 1 t2' ;;
      let mantissa := (u_xor mantissa t3') in
      t4' <- from_raw_parts dbg F sign exponent mantissa ;;
      Done t4'
    ) else (
      if dbg && negb (exponent =? 1) then Panicked else (
        let exponent := 0 in
        t5' <- from_raw_parts dbg F sign exponent mantissa ;;
        Done t5'
      )
    )
  ).

(* src/cast/float/mod.rs: macro impl_convert_float_parts_for_primitive_float!, fn from_signed_biased_parts *)
Definition from_signed_biased_parts (dbg : bool) (F : FloatCast.ffmt) (sign : bool) (exponent : Z) (mantissa : Z) : res Z :=
  if dbg && negb (negb (exponent <? 0)) then Panicked else (
    let exponent := (ud 32 exponent) in
    t1' <- from_biased_parts dbg F sign exponent mantissa ;;
    Done t1'
  ).

(* src/cast/float/mod.rs: macro impl_convert_float_parts_for_primitive_float!, fn from_signed_parts *)
Definition from_signed_parts (dbg : bool) (F : FloatCast.ffmt) (sign : bool) (exponent : Z) (mantissa : Z) : res Z :=
  let EXP_BIAS := ((FloatCast.MAX_EXP F) - 1) in
  let exponent := (exponent + EXP_BIAS) in
  t1' <- from_signed_biased_parts dbg F sign exponent mantissa ;;
  Done t1'.

(* src/cast/float/uint_from_float.rs: fn cast_uint_from_float *)
Definition cast_uint_from_float (dbg : bool) (F : FloatCast.ffmt) (w N : Z) (value : Z) : res (list Z) :=
  if (FloatCast.f_is_nan F value) then (
    Done (ZERO (Z.to_nat N))
  ) else (
    let is_infinite := (FloatCast.f_is_infinite F value) in
    t1' <- into_normalised_signed_parts F value ;;
    let '(sign, exp, mant) := t1' in
    if sign then (
      Done (ZERO (Z.to_nat N))
    ) else (
      if is_infinite then (
        Done (UMAX w (Z.to_nat N))
      ) else (
        if (mant =? 0) then (
          Done (ZERO (Z.to_nat N))
        ) else (
          if (exp <? (-1)) then (
            Done (ZERO (Z.to_nat N))
          ) else (
            if (exp =? (-1)) then (
              Done (ZERO (Z.to_nat N))
            ) else (
              match (exptype_try_from_sexp exp) with
              | Some exp => (
                  if (exp >=? (w * N)) then (
                    Done (UMAX w (Z.to_nat N))
                  ) else (
                    let mant_bit_width := (bitlen mant) in
                    t2' <- usub mant_bit_width 1 ;;
                    if (exp <=? t2') then (
                      t3' <- usub mant_bit_width 1 ;;
                      t4' <- usub t3' exp ;;
                      t5' <- dshr (FloatCast.fbits F) mant t4' ;;
                      t6' <- of_outcome (Cast.U_from_int (FloatCast.fbits F) w (Z.to_nat N) t5') ;;
                      Done t6'
                    ) else (
                      t7' <- of_outcome (Cast.U_from_int (FloatCast.fbits F) w (Z.to_nat N) mant) ;;
                      t8' <- usub mant_bit_width 1 ;;
                      t9' <- usub exp t8' ;;
                      t10' <- of_outcome (Shift.U_shl dbg w t7' t9') ;;
                      Done t10'
                    )
                  )
                )
              | _ => (
                  Done (UMAX w (Z.to_nat N))
                )
              end
            )
          )
        )
      )
    )
  ).

(* src/cast/float/float_from_uint.rs: fn cast_float_from_uint *)
Definition cast_float_from_uint (dbg : bool) (F : FloatCast.ffmt) (w N : Z) (value : list Z) : res Z :=
  let bit_width := (Bits.bits_of w value) in
  if (bit_width =? 0) then (
    Done FloatCast.F_ZERO
  ) else (
    t1' <- usub bit_width 1 ;;
    let exponent := t1' in
    match (sexp_try_from_exptype exponent) with
    | Some exponent => (
        if (exponent >=? (FloatCast.MAX_EXP F)) then (
          Done (FloatCast.F_INFINITY F)
        ) else (
          if (bit_width <=? (FloatCast.fp F)) then (
            t2' <- of_outcome (Cast.U_as_int dbg (FloatCast.fbits F) false w value) ;;
            t3' <- usub (FloatCast.fp F) bit_width ;;
            t4' <- dshl (FloatCast.fbits F) t2' t3' ;;
            let mantissa := t4' in
            t5' <- from_signed_parts dbg F false exponent mantissa ;;
            Done t5'
          ) else (
            t6' <- usub bit_width (FloatCast.fp F) ;;
            let shift := t6' in
            t7' <- usub shift 1 ;;
            t8' <- of_outcome (Bits.bit w value t7') ;;
            let gte_half := t8' in
            t9' <- of_outcome (Shift.U_shr dbg w value shift) ;;
            t10' <- of_outcome (Cast.U_as_int dbg (FloatCast.fbits F) false w t9') ;;
            let shifted_mantissa := t10' in
            t13' <- (if gte_half then (t12' <- (if (FloatCast.m_bit (FloatCast.fbits F) shifted_mantissa 0) then Done true else (t11' <- usub shift 1 ;; Done (negb ((Bits.trailing_zeros w value) =? t11')))) ;; Done t12') else Done false) ;;
            if t13' then (
              shifted_mantissa <- of_outcome (FloatCast.m_add dbg (FloatCast.fbits F) shifted_mantissa 1) ;;
              if (FloatCast.m_bit (FloatCast.fbits F) shifted_mantissa (FloatCast.fp F)) then (
                shifted_mantissa <- dshr (FloatCast.fbits F) shifted_mantissa 1 ;;
                let exponent := (exponent + 1) in
                let mantissa := shifted_mantissa in
                t16' <- from_signed_parts dbg F false exponent mantissa ;;
                Done t16'
              ) else (
                let mantissa := shifted_mantissa in
                t17' <- from_signed_parts dbg F false exponent mantissa ;;
                Done t17'
              )
            ) else (
              let mantissa := shifted_mantissa in
              t18' <- from_signed_parts dbg F false exponent mantissa ;;
              Done t18'
            )
          )
        )
      )
    | _ => (
        Done (FloatCast.F_INFINITY F)
      )
    end
  ).

(* src/buint/cast.rs: macro buint_as_float!(f32), fn cast_from *)
Definition U_to_f32 (dbg : bool) (w N : Z) (value : list Z) : res Z :=
  t1' <- cast_float_from_uint dbg FloatCast.F32 w N value ;;
  Done t1'.

(* src/buint/cast.rs: impl<const N: usize> CastFrom<f32> for $BUint<N>, fn cast_from *)
Definition U_from_f32 (dbg : bool) (w N : Z) (value : Z) : res (list Z) :=
  t1' <- cast_uint_from_float dbg FloatCast.F32 w N value ;;
  Done t1'.

(* src/buint/cast.rs: macro buint_as_float!(f64), fn cast_from *)
Definition U_to_f64 (dbg : bool) (w N : Z) (value : list Z) : res Z :=
  t1' <- cast_float_from_uint dbg FloatCast.F64 w N value ;;
  Done t1'.

(* src/buint/cast.rs: impl<const N: usize> CastFrom<f64> for $BUint<N>, fn cast_from *)
Definition U_from_f64 (dbg : bool) (w N : Z) (value : Z) : res (list Z) :=
  t1' <- cast_uint_from_float dbg FloatCast.F64 w N value ;;
  Done t1'.

(* src/bint/cast.rs: impl<const N: usize> CastFrom<$BInt<N>> for f32, fn cast_from *)
Definition I_to_f32 (dbg : bool) (w N : Z) (from : list Z) : res Z :=
  t1' <- U_to_f32 dbg w N (AddSub.I_unsigned_abs w from) ;;
  let f := t1' in
  if (Core.is_negative w from) then (
    Done (FloatCast.f_neg FloatCast.F32 f)
  ) else (
    Done f
  ).

(* src/bint/cast.rs: macro bint_cast_from_float!(f32), fn cast_from *)
Definition I_from_f32 (dbg : bool) (w N : Z) (from : Z) : res (list Z) :=
  if (FloatCast.f_is_sign_negative FloatCast.F32 from) then (
    t1' <- U_from_f32 dbg w N (FloatCast.f_neg FloatCast.F32 from) ;;
    let u := t1' in
    if (cmp_ge (ucmp u (Cast.to_bits (IMIN w (Z.to_nat N))))) then (
      Done (IMIN w (Z.to_nat N))
    ) else (
      t2' <- of_outcome (AddSub.I_neg dbg w (Cast.from_bits u)) ;;
      Done t2'
    )
  ) else (
    t3' <- U_from_f32 dbg w N from ;;
    let u := t3' in
    let i := (Cast.from_bits u) in
    if (Core.is_negative w i) then (
      Done (IMAX w (Z.to_nat N))
    ) else (
      Done i
    )
  ).

(* src/bint/cast.rs: impl<const N: usize> CastFrom<$BInt<N>> for f64, fn cast_from *)
Definition I_to_f64 (dbg : bool) (w N : Z) (from : list Z) : res Z :=
  t1' <- U_to_f64 dbg w N (AddSub.I_unsigned_abs w from) ;;
  let f := t1' in
  if (Core.is_negative w from) then (
    Done (FloatCast.f_neg FloatCast.F64 f)
  ) else (
    Done f
  ).

(* src/bint/cast.rs: macro bint_cast_from_float!(f64), fn cast_from *)
Definition I_from_f64 (dbg : bool) (w N : Z) (from : Z) : res (list Z) :=
  if (FloatCast.f_is_sign_negative FloatCast.F64 from) then (
    t1' <- U_from_f64 dbg w N (FloatCast.f_neg FloatCast.F64 from) ;;
    let u := t1' in
    if (cmp_ge (ucmp u (Cast.to_bits (IMIN w (Z.to_nat N))))) then (
      Done (IMIN w (Z.to_nat N))
    ) else (
      t2' <- of_outcome (AddSub.I_neg dbg w (Cast.from_bits u)) ;;
      Done t2'
    )
  ) else (
    t3' <- U_from_f64 dbg w N from ;;
    let u := t3' in
    let i := (Cast.from_bits u) in
    if (Core.is_negative w i) then (
      Done (IMAX w (Z.to_nat N))
    ) else (
      Done i
    )
  ).

End FloatGen.

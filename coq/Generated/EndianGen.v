(* GENERATED on every run by tools/rs2v_endian.py from /repo/src/buint/endian.rs and /repo/src/bint/endian.rs.  Do not edit.
   Proofs/EndianGenTie*.v prove each function equal to the hand-written model Model/Endian.v.
   Vocabulary: Model/Imp.v (control flow), Prim.v, Model/LoopPrims.v, Model/ImpEndian.v (digit::BYTES, BYTE_SHIFT);
   the primitive conversions uW::from_{be,le}_bytes / to_{be,le}_bytes are Endian.u_from_be_bytes .. (Model/Endian.v, modelled);
   `#[cfg(target_endian = ..)]` is decided for a LITTLE-endian target; swap_bytes, from_digits are called by their
   hand-model names Bits.swap_bytes, Convert.from_digits (tied in Proofs/LoopsTieC05.v, LoopsTieC06b.v).
   U_ functions: src/buint/endian.rs; I_ functions: src/bint/endian.rs (set_digit! expanded at its call sites). *)
From Bnum Require Import Base Prim.
From Bnum.Model Require Import DigitPrims LoopPrims Core Imp ImpEndian.
From Bnum.Model Require Bits Convert Endian.

Module EndianGen.

(* src/buint/endian.rs: fn from_be *)
Definition from_be (w N : Z) (fuel : nat) (x : list Z) : res (list Z) :=
  Done (Bits.swap_bytes w x).

(* src/buint/endian.rs: fn from_le *)
Definition from_le (w N : Z) (fuel : nat) (x : list Z) : res (list Z) :=
  Done x.

(* src/buint/endian.rs: fn to_be *)
Definition to_be (w N : Z) (fuel : nat) (self : list Z) : res (list Z) :=
  t1' <- from_be w N fuel self ;;
  Done t1'.

(* src/buint/endian.rs: fn to_le *)
Definition to_le (w N : Z) (fuel : nat) (self : list Z) : res (list Z) :=
  t1' <- from_le w N fuel self ;;
  Done t1'.

(* src/buint/endian.rs: fn from_be_slice *)
Definition from_be_slice (w N : Z) (fuel : nat) (slice : list Z) : res (option (list Z)) :=
  let len := (Z.of_nat (length slice)) in
  let out := (ZERO (Z.to_nat N)) in
  let i := 0 in
  let exact := (ix_shr len (digit_BYTE_SHIFT w)) in
  t7' <- while_loop (R := (option (list Z))) fuel
    (fun '(out, i) => (i <? exact))
    (fun '(out, i) =>
      let digit_bytes := (repeat 0 (Z.to_nat (digit_BYTES w))) in
      t1' <- usub len (digit_BYTES w) ;;
      let init_index := t1' in
      let j := init_index in
      t5' <- while_loop (R := (option (list Z))) fuel
        (fun '(j, digit_bytes) => (j <? (Z.of_nat (length slice))))
        (fun '(j, digit_bytes) =>
          t2' <- usub j (ix_shl i (digit_BYTE_SHIFT w)) ;;
          t3' <- arr_get slice t2' ;;
          t4' <- usub j init_index ;;
          digit_bytes <- arr_set digit_bytes t4' t3' ;;
          let j := (j + 1) in
          Done (Continue (j, digit_bytes)))
        (j, digit_bytes) ;;
      match t5' with
      | Exited (j, digit_bytes) =>
          let digit := (Endian.u_from_be_bytes digit_bytes) in
          if (i <? N) then (
            out <- arr_set out i digit ;;
            let i := (i + 1) in
            Done (Continue (out, i))
          ) else (
            if (negb (digit =? 0)) then (
              Done (Return None)
            ) else (
              let i := (i + 1) in
              Done (Continue (out, i))
            )
          )
      | Returned t6' => Done (Return t6')
      end)
    (out, i) ;;
  match t7' with
  | Exited (out, i) =>
      t9' <- usub (digit_BYTES w) 1 ;;
      let rem := (ix_and len t9') in
      if (rem =? 0) then (
        Done (Some out)
      ) else (
        let last_digit_bytes := (repeat 0 (Z.to_nat (digit_BYTES w))) in
        let j := 0 in
        t12' <- while_loop (R := (option (list Z))) fuel
          (fun '(j, last_digit_bytes) => (j <? rem))
          (fun '(j, last_digit_bytes) =>
            t10' <- arr_get slice j ;;
            t11' <- usub (digit_BYTES w) rem ;;
            last_digit_bytes <- arr_set last_digit_bytes (t11' + j) t10' ;;
            let j := (j + 1) in
            Done (Continue (j, last_digit_bytes)))
          (j, last_digit_bytes) ;;
        match t12' with
        | Exited (j, last_digit_bytes) =>
            let digit := (Endian.u_from_be_bytes last_digit_bytes) in
            if (i <? N) then (
              out <- arr_set out i digit ;;
              Done (Some out)
            ) else (
              if (negb (digit =? 0)) then (
                Done None
              ) else (
                Done (Some out)
              )
            )
        | Returned t13' => Done t13'
        end
      )
  | Returned t8' => Done t8'
  end.

(* src/buint/endian.rs: fn from_le_slice *)
Definition from_le_slice (w N : Z) (fuel : nat) (slice : list Z) : res (option (list Z)) :=
  let len := (Z.of_nat (length slice)) in
  let out := (ZERO (Z.to_nat N)) in
  let i := 0 in
  let exact := (ix_shr len (digit_BYTE_SHIFT w)) in
  t5' <- while_loop (R := (option (list Z))) fuel
    (fun '(out, i) => (i <? exact))
    (fun '(out, i) =>
      let digit_bytes := (repeat 0 (Z.to_nat (digit_BYTES w))) in
      let init_index := (ix_shl i (digit_BYTE_SHIFT w)) in
      let j := init_index in
      t3' <- while_loop (R := (option (list Z))) fuel
        (fun '(j, digit_bytes) => (j <? (init_index + (digit_BYTES w))))
        (fun '(j, digit_bytes) =>
          t1' <- arr_get slice j ;;
          t2' <- usub j init_index ;;
          digit_bytes <- arr_set digit_bytes t2' t1' ;;
          let j := (j + 1) in
          Done (Continue (j, digit_bytes)))
        (j, digit_bytes) ;;
      match t3' with
      | Exited (j, digit_bytes) =>
          let digit := (Endian.u_from_le_bytes digit_bytes) in
          if (i <? N) then (
            out <- arr_set out i digit ;;
            let i := (i + 1) in
            Done (Continue (out, i))
          ) else (
            if (negb (digit =? 0)) then (
              Done (Return None)
            ) else (
              let i := (i + 1) in
              Done (Continue (out, i))
            )
          )
      | Returned t4' => Done (Return t4')
      end)
    (out, i) ;;
  match t5' with
  | Exited (out, i) =>
      t7' <- usub (digit_BYTES w) 1 ;;
      if ((ix_and len t7') =? 0) then (
        Done (Some out)
      ) else (
        let last_digit_bytes := (repeat 0 (Z.to_nat (digit_BYTES w))) in
        let addition := (ix_shl exact (digit_BYTE_SHIFT w)) in
        let j := 0 in
        t9' <- while_loop (R := (option (list Z))) fuel
          (fun '(j, last_digit_bytes) => ((j + addition) <? len))
          (fun '(j, last_digit_bytes) =>
            t8' <- arr_get slice (j + addition) ;;
            last_digit_bytes <- arr_set last_digit_bytes j t8' ;;
            let j := (j + 1) in
            Done (Continue (j, last_digit_bytes)))
          (j, last_digit_bytes) ;;
        match t9' with
        | Exited (j, last_digit_bytes) =>
            let digit := (Endian.u_from_le_bytes last_digit_bytes) in
            if (i <? N) then (
              out <- arr_set out i digit ;;
              Done (Some out)
            ) else (
              if (negb (digit =? 0)) then (
                Done None
              ) else (
                Done (Some out)
              )
            )
        | Returned t10' => Done t10'
        end
      )
  | Returned t6' => Done t6'
  end.

(* src/buint/endian.rs: fn to_be_bytes *)
Definition to_be_bytes (w N : Z) (fuel : nat) (self : list Z) : res (list Z) :=
  let bytes := (repeat 0 (Z.to_nat (N * (digit_BYTES w)))) in
  let i := N in
  t7' <- while_loop (R := list Z) fuel
    (fun '(i, bytes) => (i >? 0))
    (fun '(i, bytes) =>
      t1' <- usub N i ;;
      t2' <- arr_get self t1' ;;
      let digit_bytes := (Endian.u_to_be_bytes (Z.to_nat (digit_BYTES w)) t2') in
      i <- usub i 1 ;;
      let j := 0 in
      t5' <- while_loop (R := list Z) fuel
        (fun '(j, bytes) => (j <? (digit_BYTES w)))
        (fun '(j, bytes) =>
          t4' <- arr_get digit_bytes j ;;
          bytes <- arr_set bytes ((ix_shl i (digit_BYTE_SHIFT w)) + j) t4' ;;
          let j := (j + 1) in
          Done (Continue (j, bytes)))
        (j, bytes) ;;
      match t5' with
      | Exited (j, bytes) =>
          Done (Continue (i, bytes))
      | Returned t6' => Done (Return t6')
      end)
    (i, bytes) ;;
  match t7' with
  | Exited (i, bytes) =>
      Done bytes
  | Returned t8' => Done t8'
  end.

(* src/buint/endian.rs: fn to_le_bytes *)
Definition to_le_bytes (w N : Z) (fuel : nat) (self : list Z) : res (list Z) :=
  let bytes := (repeat 0 (Z.to_nat (N * (digit_BYTES w)))) in
  let i := 0 in
  t5' <- while_loop (R := list Z) fuel
    (fun '(i, bytes) => (i <? N))
    (fun '(i, bytes) =>
      t1' <- arr_get self i ;;
      let digit_bytes := (Endian.u_to_le_bytes (Z.to_nat (digit_BYTES w)) t1') in
      let j := 0 in
      t3' <- while_loop (R := list Z) fuel
        (fun '(j, bytes) => (j <? (digit_BYTES w)))
        (fun '(j, bytes) =>
          t2' <- arr_get digit_bytes j ;;
          bytes <- arr_set bytes ((ix_shl i (digit_BYTE_SHIFT w)) + j) t2' ;;
          let j := (j + 1) in
          Done (Continue (j, bytes)))
        (j, bytes) ;;
      match t3' with
      | Exited (j, bytes) =>
          let i := (i + 1) in
          Done (Continue (i, bytes))
      | Returned t4' => Done (Return t4')
      end)
    (i, bytes) ;;
  match t5' with
  | Exited (i, bytes) =>
      Done bytes
  | Returned t6' => Done t6'
  end.

(* src/buint/endian.rs: fn to_ne_bytes *)
Definition to_ne_bytes (w N : Z) (fuel : nat) (self : list Z) : res (list Z) :=
  t1' <- to_le_bytes w N fuel self ;;
  Done t1'.

(* src/buint/endian.rs: fn from_be_bytes *)
Definition from_be_bytes (w N : Z) (fuel : nat) (bytes : list Z) : res (list Z) :=
  let out := (ZERO (Z.to_nat N)) in
  let i := 0 in
  t7' <- while_loop (R := list Z) fuel
    (fun '(out, i) => (i <? N))
    (fun '(out, i) =>
      let digit_bytes := (repeat 0 (Z.to_nat (digit_BYTES w))) in
      t1' <- usub (N * (digit_BYTES w)) (digit_BYTES w) ;;
      let init_index := t1' in
      let j := init_index in
      t5' <- while_loop (R := list Z) fuel
        (fun '(j, digit_bytes) => (j <? (N * (digit_BYTES w))))
        (fun '(j, digit_bytes) =>
          t2' <- usub j (ix_shl i (digit_BYTE_SHIFT w)) ;;
          t3' <- arr_get bytes t2' ;;
          t4' <- usub j init_index ;;
          digit_bytes <- arr_set digit_bytes t4' t3' ;;
          let j := (j + 1) in
          Done (Continue (j, digit_bytes)))
        (j, digit_bytes) ;;
      match t5' with
      | Exited (j, digit_bytes) =>
          out <- arr_set out i (Endian.u_from_be_bytes digit_bytes) ;;
          let i := (i + 1) in
          Done (Continue (out, i))
      | Returned t6' => Done (Return t6')
      end)
    (out, i) ;;
  match t7' with
  | Exited (out, i) =>
      Done out
  | Returned t8' => Done t8'
  end.

(* src/buint/endian.rs: fn from_le_bytes *)
Definition from_le_bytes (w N : Z) (fuel : nat) (bytes : list Z) : res (list Z) :=
  let out := (ZERO (Z.to_nat N)) in
  let i := 0 in
  t5' <- while_loop (R := list Z) fuel
    (fun '(out, i) => (i <? N))
    (fun '(out, i) =>
      let digit_bytes := (repeat 0 (Z.to_nat (digit_BYTES w))) in
      let init_index := (ix_shl i (digit_BYTE_SHIFT w)) in
      let j := init_index in
      t3' <- while_loop (R := list Z) fuel
        (fun '(j, digit_bytes) => (j <? (init_index + (digit_BYTES w))))
        (fun '(j, digit_bytes) =>
          t1' <- arr_get bytes j ;;
          t2' <- usub j init_index ;;
          digit_bytes <- arr_set digit_bytes t2' t1' ;;
          let j := (j + 1) in
          Done (Continue (j, digit_bytes)))
        (j, digit_bytes) ;;
      match t3' with
      | Exited (j, digit_bytes) =>
          out <- arr_set out i (Endian.u_from_le_bytes digit_bytes) ;;
          let i := (i + 1) in
          Done (Continue (out, i))
      | Returned t4' => Done (Return t4')
      end)
    (out, i) ;;
  match t5' with
  | Exited (out, i) =>
      Done out
  | Returned t6' => Done t6'
  end.

(* src/buint/endian.rs: fn from_ne_bytes *)
Definition from_ne_bytes (w N : Z) (fuel : nat) (bytes : list Z) : res (list Z) :=
  t1' <- from_le_bytes w N fuel bytes ;;
  Done t1'.

(* src/bint/endian.rs: fn from_be *)
Definition I_from_be (w N : Z) (fuel : nat) (x : list Z) : res (list Z) :=
  t1' <- from_be w N fuel x ;;
  Done t1'.

(* src/bint/endian.rs: fn from_le *)
Definition I_from_le (w N : Z) (fuel : nat) (x : list Z) : res (list Z) :=
  t1' <- from_le w N fuel x ;;
  Done t1'.

(* src/bint/endian.rs: fn to_be *)
Definition I_to_be (w N : Z) (fuel : nat) (self : list Z) : res (list Z) :=
  t1' <- I_from_be w N fuel self ;;
  Done t1'.

(* src/bint/endian.rs: fn to_le *)
Definition I_to_le (w N : Z) (fuel : nat) (self : list Z) : res (list Z) :=
  t1' <- I_from_le w N fuel self ;;
  Done t1'.

(* src/bint/endian.rs: fn from_be_slice *)
Definition I_from_be_slice (w N : Z) (fuel : nat) (slice : list Z) : res (option (list Z)) :=
  let len := (Z.of_nat (length slice)) in
  if (len =? 0) then (
    Done (Some (ZERO (Z.to_nat N)))
  ) else (
    t1' <- arr_get slice 0 ;;
    let is_negative := ((sd 8 t1') <? 0) in
    let sign_bits := (if is_negative then (u_max w) else 0) in
    let out_digits := (if is_negative then (repeat (u_max w) (Z.to_nat N)) else (repeat 0 (Z.to_nat N))) in
    let i := 0 in
    let exact := (ix_shr len (digit_BYTE_SHIFT w)) in
    t9' <- while_loop (R := (option (list Z))) fuel
      (fun '(out_digits, i) => (i <? exact))
      (fun '(out_digits, i) =>
        let digit_bytes := (repeat 0 (Z.to_nat (digit_BYTES w))) in
        t2' <- usub len (digit_BYTES w) ;;
        let init_index := t2' in
        let j := init_index in
        t6' <- while_loop (R := (option (list Z))) fuel
          (fun '(j, digit_bytes) => (j <? (Z.of_nat (length slice))))
          (fun '(j, digit_bytes) =>
            t3' <- usub j (ix_shl i (digit_BYTE_SHIFT w)) ;;
            t4' <- arr_get slice t3' ;;
            t5' <- usub j init_index ;;
            digit_bytes <- arr_set digit_bytes t5' t4' ;;
            let j := (j + 1) in
            Done (Continue (j, digit_bytes)))
          (j, digit_bytes) ;;
        match t6' with
        | Exited (j, digit_bytes) =>
            let digit := (Endian.u_from_be_bytes digit_bytes) in
            t8' <- usub N 1 ;;
            if (i =? t8') then (
              if (Bool.eqb ((sd w digit) <? 0) is_negative) then (
                out_digits <- arr_set out_digits i digit ;;
                let i := (i + 1) in
                Done (Continue (out_digits, i))
              ) else (
                Done (Return None)
              )
            ) else (
              if (i <? N) then (
                out_digits <- arr_set out_digits i digit ;;
                let i := (i + 1) in
                Done (Continue (out_digits, i))
              ) else (
                if (negb (digit =? sign_bits)) then (
                  Done (Return None)
                ) else (
                  let i := (i + 1) in
                  Done (Continue (out_digits, i))
                )
              )
            )
        | Returned t7' => Done (Return t7')
        end)
      (out_digits, i) ;;
    match t9' with
    | Exited (out_digits, i) =>
        t11' <- usub (digit_BYTES w) 1 ;;
        let rem := (ix_and len t11') in
        if (rem =? 0) then (
          Done (Some (Convert.from_digits out_digits))
        ) else (
          let pad_byte := (if is_negative then 255 else 0) in
          let last_digit_bytes := (repeat pad_byte (Z.to_nat (digit_BYTES w))) in
          let j := 0 in
          t14' <- while_loop (R := (option (list Z))) fuel
            (fun '(j, last_digit_bytes) => (j <? rem))
            (fun '(j, last_digit_bytes) =>
              t12' <- arr_get slice j ;;
              t13' <- usub (digit_BYTES w) rem ;;
              last_digit_bytes <- arr_set last_digit_bytes (t13' + j) t12' ;;
              let j := (j + 1) in
              Done (Continue (j, last_digit_bytes)))
            (j, last_digit_bytes) ;;
          match t14' with
          | Exited (j, last_digit_bytes) =>
              let digit := (Endian.u_from_be_bytes last_digit_bytes) in
              t16' <- usub N 1 ;;
              if (i =? t16') then (
                if (Bool.eqb ((sd w digit) <? 0) is_negative) then (
                  out_digits <- arr_set out_digits i digit ;;
                  Done (Some (Convert.from_digits out_digits))
                ) else (
                  Done None
                )
              ) else (
                if (i <? N) then (
                  out_digits <- arr_set out_digits i digit ;;
                  Done (Some (Convert.from_digits out_digits))
                ) else (
                  if (negb (digit =? sign_bits)) then (
                    Done None
                  ) else (
                    Done (Some (Convert.from_digits out_digits))
                  )
                )
              )
          | Returned t15' => Done t15'
          end
        )
    | Returned t10' => Done t10'
    end
  ).

(* src/bint/endian.rs: fn from_le_slice *)
Definition I_from_le_slice (w N : Z) (fuel : nat) (slice : list Z) : res (option (list Z)) :=
  let len := (Z.of_nat (length slice)) in
  if (len =? 0) then (
    Done (Some (ZERO (Z.to_nat N)))
  ) else (
    t1' <- usub len 1 ;;
    t2' <- arr_get slice t1' ;;
    let is_negative := ((sd 8 t2') <? 0) in
    let sign_bits := (if is_negative then (u_max w) else 0) in
    let out_digits := (repeat sign_bits (Z.to_nat N)) in
    let i := 0 in
    let exact := (ix_shr len (digit_BYTE_SHIFT w)) in
    t8' <- while_loop (R := (option (list Z))) fuel
      (fun '(out_digits, i) => (i <? exact))
      (fun '(out_digits, i) =>
        let digit_bytes := (repeat 0 (Z.to_nat (digit_BYTES w))) in
        let init_index := (ix_shl i (digit_BYTE_SHIFT w)) in
        let j := init_index in
        t5' <- while_loop (R := (option (list Z))) fuel
          (fun '(j, digit_bytes) => (j <? (init_index + (digit_BYTES w))))
          (fun '(j, digit_bytes) =>
            t3' <- arr_get slice j ;;
            t4' <- usub j init_index ;;
            digit_bytes <- arr_set digit_bytes t4' t3' ;;
            let j := (j + 1) in
            Done (Continue (j, digit_bytes)))
          (j, digit_bytes) ;;
        match t5' with
        | Exited (j, digit_bytes) =>
            let digit := (Endian.u_from_le_bytes digit_bytes) in
            t7' <- usub N 1 ;;
            if (i =? t7') then (
              if (Bool.eqb ((sd w digit) <? 0) is_negative) then (
                out_digits <- arr_set out_digits i digit ;;
                let i := (i + 1) in
                Done (Continue (out_digits, i))
              ) else (
                Done (Return None)
              )
            ) else (
              if (i <? N) then (
                out_digits <- arr_set out_digits i digit ;;
                let i := (i + 1) in
                Done (Continue (out_digits, i))
              ) else (
                if (negb (digit =? sign_bits)) then (
                  Done (Return None)
                ) else (
                  let i := (i + 1) in
                  Done (Continue (out_digits, i))
                )
              )
            )
        | Returned t6' => Done (Return t6')
        end)
      (out_digits, i) ;;
    match t8' with
    | Exited (out_digits, i) =>
        t10' <- usub (digit_BYTES w) 1 ;;
        if ((ix_and len t10') =? 0) then (
          Done (Some (Convert.from_digits out_digits))
        ) else (
          let pad_byte := (if is_negative then 255 else 0) in
          let last_digit_bytes := (repeat pad_byte (Z.to_nat (digit_BYTES w))) in
          let addition := (ix_shl exact (digit_BYTE_SHIFT w)) in
          let j := 0 in
          t12' <- while_loop (R := (option (list Z))) fuel
            (fun '(j, last_digit_bytes) => ((j + addition) <? len))
            (fun '(j, last_digit_bytes) =>
              t11' <- arr_get slice (j + addition) ;;
              last_digit_bytes <- arr_set last_digit_bytes j t11' ;;
              let j := (j + 1) in
              Done (Continue (j, last_digit_bytes)))
            (j, last_digit_bytes) ;;
          match t12' with
          | Exited (j, last_digit_bytes) =>
              let digit := (Endian.u_from_le_bytes last_digit_bytes) in
              t14' <- usub N 1 ;;
              if (i =? t14') then (
                if (Bool.eqb ((sd w digit) <? 0) is_negative) then (
                  out_digits <- arr_set out_digits i digit ;;
                  Done (Some (Convert.from_digits out_digits))
                ) else (
                  Done None
                )
              ) else (
                if (i <? N) then (
                  out_digits <- arr_set out_digits i digit ;;
                  Done (Some (Convert.from_digits out_digits))
                ) else (
                  if (negb (digit =? sign_bits)) then (
                    Done None
                  ) else (
                    Done (Some (Convert.from_digits out_digits))
                  )
                )
              )
          | Returned t13' => Done t13'
          end
        )
    | Returned t9' => Done t9'
    end
  ).

(* src/bint/endian.rs: fn to_be_bytes *)
Definition I_to_be_bytes (w N : Z) (fuel : nat) (self : list Z) : res (list Z) :=
  t1' <- to_be_bytes w N fuel self ;;
  Done t1'.

(* src/bint/endian.rs: fn to_le_bytes *)
Definition I_to_le_bytes (w N : Z) (fuel : nat) (self : list Z) : res (list Z) :=
  t1' <- to_le_bytes w N fuel self ;;
  Done t1'.

(* src/bint/endian.rs: fn to_ne_bytes *)
Definition I_to_ne_bytes (w N : Z) (fuel : nat) (self : list Z) : res (list Z) :=
  t1' <- to_ne_bytes w N fuel self ;;
  Done t1'.

(* src/bint/endian.rs: fn from_be_bytes *)
Definition I_from_be_bytes (w N : Z) (fuel : nat) (bytes : list Z) : res (list Z) :=
  t1' <- from_be_bytes w N fuel bytes ;;
  Done t1'.

(* src/bint/endian.rs: fn from_le_bytes *)
Definition I_from_le_bytes (w N : Z) (fuel : nat) (bytes : list Z) : res (list Z) :=
  t1' <- from_le_bytes w N fuel bytes ;;
  Done t1'.

(* src/bint/endian.rs: fn from_ne_bytes *)
Definition I_from_ne_bytes (w N : Z) (fuel : nat) (bytes : list Z) : res (list Z) :=
  t1' <- from_ne_bytes w N fuel bytes ;;
  Done t1'.

End EndianGen.

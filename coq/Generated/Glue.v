(* GENERATED on every run by tools/rs2v_glue.py from /repo/src (the non-loop functions of buint/ bint/ int/ :
   checked, wrapping, saturating, strict, overflowing, cmp, ops, bigint_helpers, mod, const_trait_fillers, unchecked,
   numtraits).  Do not edit.  Proofs/GlueTieC*.v prove each definition equal to the hand-written model. *)
From Bnum Require Import Base Prim.
From Bnum.Model Require Import Digit Core Shift AddSub Mul Div Bits Pow.
From Bnum.Model Require Ops Convert.

Module Glue.

(* ---- src/buint/checked.rs (macro checked) ---- *)
Definition U_checked_add (w : Z) (self : list Z) (rhs : list Z) : option (list Z) :=
  Core.tuple_to_option (AddSub.U_overflowing_add w self rhs).

Definition U_checked_add_signed (w : Z) (self : list Z) (rhs : list Z) : option (list Z) :=
  Core.tuple_to_option (AddSub.U_overflowing_add_signed w self rhs).

Definition U_checked_sub (w : Z) (self : list Z) (rhs : list Z) : option (list Z) :=
  Core.tuple_to_option (AddSub.U_overflowing_sub w self rhs).

Definition U_checked_mul (w : Z) (self : list Z) (rhs : list Z) : option (list Z) :=
  Core.tuple_to_option (Mul.U_overflowing_mul w self rhs).

Definition U_div_rem (w : Z) (self : list Z) (rhs : list Z) : outcome ((list Z * list Z)) :=
  if (Core.is_zero rhs) then Panic else (Ret (Div.U_div_rem_unchecked w self rhs)).

Definition U_checked_div (w : Z) (self : list Z) (rhs : list Z) : option (list Z) :=
  if (Core.is_zero rhs) then None else (Some (fst (Div.U_div_rem_unchecked w self rhs))).

Definition U_checked_div_euclid (w : Z) (self : list Z) (rhs : list Z) : option (list Z) :=
  Div.U_checked_div w self rhs.

Definition U_checked_rem (w : Z) (self : list Z) (rhs : list Z) : option (list Z) :=
  if (Core.is_zero rhs) then None else (Some (snd (Div.U_div_rem_unchecked w self rhs))).

Definition U_checked_rem_euclid (w : Z) (self : list Z) (rhs : list Z) : option (list Z) :=
  Div.U_checked_rem w self rhs.

Definition U_checked_neg (w : Z) (self : list Z) : option (list Z) :=
  if (Core.is_zero self) then (Some self) else None.

Definition U_checked_shl (w : Z) (self : list Z) (rhs : Z) : option (list Z) :=
  if (Z.leb (bits w (length self)) rhs) then None else (Some (Shift.shl_internal w self rhs)).

Definition U_checked_shr (w : Z) (self : list Z) (rhs : Z) : option (list Z) :=
  if (Z.leb (bits w (length self)) rhs) then None else (Some (Shift.shr_pad_internal w false self rhs)).

Definition U_checked_next_multiple_of (dbg : bool) (w : Z) (self : list Z) (rhs : list Z) : outcome (option (list Z)) :=
  match (Div.U_checked_rem w self rhs) with Some rem => (if (Core.is_zero rem) then (Ret (Some self)) else (omap (fun (r1 : list Z) => (AddSub.U_checked_add w self r1)) (AddSub.U_sub dbg w rhs rem))) | None => (Ret None) end.

Definition U_checked_ilog2 (w : Z) (self : list Z) : option (Z) :=
  if Z.ltb (Bits.bits_of w self) 1 then None else Some (Z.sub (Bits.bits_of w self) 1).

Definition U_checked_next_power_of_two (w : Z) (self : list Z) : outcome (option (list Z)) :=
  if (Bits.U_is_power_of_two self) then (Ret (Some self)) else (let bits_ := (Bits.bits_of w self) in (if (Z.eqb bits_ (bits w (length self))) then (Ret None) else (omap (fun (r1 : list Z) => (Some r1)) (Bits.power_of_two w (length self) bits_)))).

(* ---- src/buint/wrapping.rs (macro wrapping) ---- *)
Definition U_wrapping_add (w : Z) (self : list Z) (rhs : list Z) : list Z :=
  fst (AddSub.U_overflowing_add w self rhs).

Definition U_wrapping_add_signed (w : Z) (self : list Z) (rhs : list Z) : list Z :=
  fst (AddSub.U_overflowing_add_signed w self rhs).

Definition U_wrapping_sub (w : Z) (self : list Z) (rhs : list Z) : list Z :=
  fst (AddSub.U_overflowing_sub w self rhs).

Definition U_wrapping_mul (w : Z) (self : list Z) (rhs : list Z) : list Z :=
  fst (Mul.U_overflowing_mul w self rhs).

Definition U_wrapping_div (w : Z) (self : list Z) (rhs : list Z) : outcome (list Z) :=
  Core.option_expect (Div.U_checked_div w self rhs).

Definition U_wrapping_div_euclid (w : Z) (self : list Z) (rhs : list Z) : outcome (list Z) :=
  Div.U_wrapping_div w self rhs.

Definition U_wrapping_rem (w : Z) (self : list Z) (rhs : list Z) : outcome (list Z) :=
  Core.option_expect (Div.U_checked_rem w self rhs).

Definition U_wrapping_rem_euclid (w : Z) (self : list Z) (rhs : list Z) : outcome (list Z) :=
  Div.U_wrapping_rem w self rhs.

Definition U_wrapping_neg (w : Z) (self : list Z) : list Z :=
  fst (AddSub.U_overflowing_neg w self).

Definition U_wrapping_shl (w : Z) (self : list Z) (rhs : Z) : list Z :=
  fst (Shift.U_overflowing_shl w self rhs).

Definition U_wrapping_shr (w : Z) (self : list Z) (rhs : Z) : list Z :=
  fst (Shift.U_overflowing_shr w self rhs).

Definition U_wrapping_next_power_of_two (w : Z) (self : list Z) : outcome (list Z) :=
  omap (fun (r1 : option (list Z)) => (match r1 with Some int => int | None => (Core.ZERO (length self)) end)) (Bits.U_checked_next_power_of_two w self).

(* ---- src/buint/saturating.rs (macro saturating) ---- *)
Definition U_saturate_up (w : Z) (p0 : (list Z * bool)) : list Z :=
  let '(int, overflow) := p0 in if overflow then (Core.UMAX w (length int)) else int.

Definition U_saturate_down (w : Z) (p0 : (list Z * bool)) : list Z :=
  let '(int, overflow) := p0 in if overflow then (Core.ZERO (length int)) else int.

Definition U_saturating_add (w : Z) (self : list Z) (rhs : list Z) : list Z :=
  AddSub.saturate_up w (AddSub.U_overflowing_add w self rhs).

Definition U_saturating_add_signed (w : Z) (self : list Z) (rhs : list Z) : list Z :=
  if (Core.is_negative w rhs) then (AddSub.saturate_down (AddSub.U_overflowing_add_signed w self rhs)) else (AddSub.saturate_up w (AddSub.U_overflowing_add_signed w self rhs)).

Definition U_saturating_sub (w : Z) (self : list Z) (rhs : list Z) : list Z :=
  AddSub.saturate_down (AddSub.U_overflowing_sub w self rhs).

Definition U_saturating_mul (w : Z) (self : list Z) (rhs : list Z) : list Z :=
  AddSub.saturate_up w (Mul.U_overflowing_mul w self rhs).

Definition U_saturating_div (w : Z) (self : list Z) (rhs : list Z) : outcome (list Z) :=
  Div.U_div_euclid w self rhs.

Definition U_saturating_pow (w : Z) (self : list Z) (exp : Z) : list Z :=
  AddSub.saturate_up w (Pow.U_overflowing_pow w self exp).

(* ---- src/int/strict.rs (macro impls) ---- *)
Definition U_strict_add (w : Z) (self : list Z) (rhs : list Z) : outcome (list Z) :=
  Core.option_expect (AddSub.U_checked_add w self rhs).

Definition U_strict_sub (w : Z) (self : list Z) (rhs : list Z) : outcome (list Z) :=
  Core.option_expect (AddSub.U_checked_sub w self rhs).

Definition U_strict_mul (w : Z) (self : list Z) (rhs : list Z) : outcome (list Z) :=
  Core.option_expect (Mul.U_checked_mul w self rhs).

Definition U_strict_div (w : Z) (self : list Z) (rhs : list Z) : outcome (list Z) :=
  Div.U_div w self rhs.

Definition U_strict_div_euclid (w : Z) (self : list Z) (rhs : list Z) : outcome (list Z) :=
  Div.U_div_euclid w self rhs.

Definition U_strict_rem (w : Z) (self : list Z) (rhs : list Z) : outcome (list Z) :=
  Div.U_rem w self rhs.

Definition U_strict_rem_euclid (w : Z) (self : list Z) (rhs : list Z) : outcome (list Z) :=
  Div.U_rem_euclid w self rhs.

Definition U_strict_neg (w : Z) (self : list Z) : outcome (list Z) :=
  Core.option_expect (AddSub.U_checked_neg self).

Definition U_strict_shl (w : Z) (self : list Z) (rhs : Z) : outcome (list Z) :=
  Core.option_expect (Shift.U_checked_shl w self rhs).

Definition U_strict_shr (w : Z) (self : list Z) (rhs : Z) : outcome (list Z) :=
  Core.option_expect (Shift.U_checked_shr w self rhs).

Definition U_strict_pow (w : Z) (self : list Z) (exp : Z) : outcome (list Z) :=
  Core.option_expect (Pow.U_checked_pow w self exp).

Definition I_strict_add (w : Z) (self : list Z) (rhs : list Z) : outcome (list Z) :=
  Core.option_expect (AddSub.I_checked_add w self rhs).

Definition I_strict_sub (w : Z) (self : list Z) (rhs : list Z) : outcome (list Z) :=
  Core.option_expect (AddSub.I_checked_sub w self rhs).

Definition I_strict_mul (w : Z) (self : list Z) (rhs : list Z) : outcome (list Z) :=
  Core.option_expect (Mul.I_checked_mul w self rhs).

Definition I_strict_div (dbg : bool) (w : Z) (self : list Z) (rhs : list Z) : outcome (list Z) :=
  Div.I_div dbg w self rhs.

Definition I_strict_div_euclid (dbg : bool) (w : Z) (self : list Z) (rhs : list Z) : outcome (list Z) :=
  Div.I_div_euclid dbg w self rhs.

Definition I_strict_rem (dbg : bool) (w : Z) (self : list Z) (rhs : list Z) : outcome (list Z) :=
  Div.I_rem dbg w self rhs.

Definition I_strict_rem_euclid (dbg : bool) (w : Z) (self : list Z) (rhs : list Z) : outcome (list Z) :=
  Div.I_rem_euclid dbg w self rhs.

Definition I_strict_neg (w : Z) (self : list Z) : outcome (list Z) :=
  Core.option_expect (AddSub.I_checked_neg w self).

Definition I_strict_shl (w : Z) (self : list Z) (rhs : Z) : outcome (list Z) :=
  Core.option_expect (Shift.I_checked_shl w self rhs).

Definition I_strict_shr (w : Z) (self : list Z) (rhs : Z) : outcome (list Z) :=
  Core.option_expect (Shift.I_checked_shr w self rhs).

Definition I_strict_pow (w : Z) (self : list Z) (exp : Z) : outcome (list Z) :=
  Core.option_expect (Pow.I_checked_pow w self exp).

(* ---- src/buint/strict.rs (macro strict) ---- *)
Definition U_strict_add_signed (w : Z) (self : list Z) (rhs : list Z) : outcome (list Z) :=
  Core.option_expect (AddSub.U_checked_add_signed w self rhs).

(* ---- src/bint/strict.rs (macro strict) ---- *)
Definition I_strict_abs (w : Z) (self : list Z) : outcome (list Z) :=
  Core.option_expect (AddSub.I_checked_abs w self).

Definition I_strict_add_unsigned (w : Z) (self : list Z) (rhs : list Z) : outcome (list Z) :=
  Core.option_expect (AddSub.I_checked_add_unsigned w self rhs).

Definition I_strict_sub_unsigned (w : Z) (self : list Z) (rhs : list Z) : outcome (list Z) :=
  Core.option_expect (AddSub.I_checked_sub_unsigned w self rhs).

(* ---- src/int/ops.rs (macro trait_fillers) ---- *)
Definition U_add (dbg : bool) (w : Z) (self : list Z) (rhs : list Z) : outcome (list Z) :=
  if dbg then (AddSub.U_strict_add w self rhs) else (Ret (AddSub.U_wrapping_add w self rhs)).

Definition U_mul (dbg : bool) (w : Z) (self : list Z) (rhs : list Z) : outcome (list Z) :=
  if dbg then (Mul.U_strict_mul w self rhs) else (Ret (Mul.U_wrapping_mul w self rhs)).

Definition U_shl (dbg : bool) (w : Z) (self : list Z) (rhs : Z) : outcome (list Z) :=
  if dbg then (Shift.U_strict_shl w self rhs) else (Ret (Shift.U_wrapping_shl w self rhs)).

Definition U_shr (dbg : bool) (w : Z) (self : list Z) (rhs : Z) : outcome (list Z) :=
  if dbg then (Shift.U_strict_shr w self rhs) else (Ret (Shift.U_wrapping_shr w self rhs)).

Definition U_sub (dbg : bool) (w : Z) (self : list Z) (rhs : list Z) : outcome (list Z) :=
  if dbg then (AddSub.U_strict_sub w self rhs) else (Ret (AddSub.U_wrapping_sub w self rhs)).

Definition I_add (dbg : bool) (w : Z) (self : list Z) (rhs : list Z) : outcome (list Z) :=
  if dbg then (AddSub.I_strict_add w self rhs) else (Ret (AddSub.I_wrapping_add w self rhs)).

Definition I_mul (dbg : bool) (w : Z) (self : list Z) (rhs : list Z) : outcome (list Z) :=
  if dbg then (Mul.I_strict_mul w self rhs) else (Ret (Mul.I_wrapping_mul w self rhs)).

Definition I_shl (dbg : bool) (w : Z) (self : list Z) (rhs : Z) : outcome (list Z) :=
  if dbg then (Shift.I_strict_shl w self rhs) else (Ret (Shift.I_wrapping_shl w self rhs)).

Definition I_shr (dbg : bool) (w : Z) (self : list Z) (rhs : Z) : outcome (list Z) :=
  if dbg then (Shift.I_strict_shr w self rhs) else (Ret (Shift.I_wrapping_shr w self rhs)).

Definition I_sub (dbg : bool) (w : Z) (self : list Z) (rhs : list Z) : outcome (list Z) :=
  if dbg then (AddSub.I_strict_sub w self rhs) else (Ret (AddSub.I_wrapping_sub w self rhs)).

(* ---- src/int/cmp.rs (macro impls) ---- *)
Definition U_max (w : Z) (self : list Z) (other : list Z) : list Z :=
  match (Core.ucmp self other) with Lt | Eq => other | _ => self end.

Definition U_min (w : Z) (self : list Z) (other : list Z) : list Z :=
  match (Core.ucmp self other) with Lt | Eq => self | _ => other end.

Definition U_clamp (w : Z) (self : list Z) (min : list Z) (max : list Z) : outcome (list Z) :=
  if (Core.cmp_le (Core.ucmp min max)) then (Ret (match (Core.ucmp self min) with Lt => min | _ => (match (Core.ucmp self max) with Gt => max | _ => self end) end)) else Panic.

Definition U_lt (w : Z) (self : list Z) (other : list Z) : bool :=
  match (Core.ucmp self other) with Lt => true | _ => false end.

Definition U_le (w : Z) (self : list Z) (other : list Z) : bool :=
  match (Core.ucmp self other) with Lt | Eq => true | _ => false end.

Definition U_gt (w : Z) (self : list Z) (other : list Z) : bool :=
  match (Core.ucmp self other) with Gt => true | _ => false end.

Definition U_ge (w : Z) (self : list Z) (other : list Z) : bool :=
  match (Core.ucmp self other) with Gt | Eq => true | _ => false end.

Definition I_max (w : Z) (self : list Z) (other : list Z) : list Z :=
  match (Core.icmp w self other) with Lt | Eq => other | _ => self end.

Definition I_min (w : Z) (self : list Z) (other : list Z) : list Z :=
  match (Core.icmp w self other) with Lt | Eq => self | _ => other end.

Definition I_clamp (w : Z) (self : list Z) (min : list Z) (max : list Z) : outcome (list Z) :=
  if (Core.cmp_le (Core.icmp w min max)) then (Ret (match (Core.icmp w self min) with Lt => min | _ => (match (Core.icmp w self max) with Gt => max | _ => self end) end)) else Panic.

Definition I_lt (w : Z) (self : list Z) (other : list Z) : bool :=
  match (Core.icmp w self other) with Lt => true | _ => false end.

Definition I_le (w : Z) (self : list Z) (other : list Z) : bool :=
  match (Core.icmp w self other) with Lt | Eq => true | _ => false end.

Definition I_gt (w : Z) (self : list Z) (other : list Z) : bool :=
  match (Core.icmp w self other) with Gt => true | _ => false end.

Definition I_ge (w : Z) (self : list Z) (other : list Z) : bool :=
  match (Core.icmp w self other) with Gt | Eq => true | _ => false end.

(* ---- src/int/bigint_helpers.rs (macro impls) ---- *)
Definition U_carrying_add (w : Z) (self : list Z) (rhs : list Z) (carry : bool) : (list Z * bool) :=
  let '(s1, o1) := (AddSub.U_overflowing_add w self rhs) in (if carry then (let '(s2, o2) := (AddSub.U_overflowing_add w s1 (Core.ONE (length self))) in (s2, (xorb o1 o2))) else (s1, o1)).

Definition U_borrowing_sub (w : Z) (self : list Z) (rhs : list Z) (borrow : bool) : (list Z * bool) :=
  let '(s1, o1) := (AddSub.U_overflowing_sub w self rhs) in (if borrow then (let '(s2, o2) := (AddSub.U_overflowing_sub w s1 (Core.ONE (length self))) in (s2, (xorb o1 o2))) else (s1, o1)).

Definition I_carrying_add (w : Z) (self : list Z) (rhs : list Z) (carry : bool) : (list Z * bool) :=
  let '(s1, o1) := (AddSub.I_overflowing_add w self rhs) in (if carry then (let '(s2, o2) := (AddSub.I_overflowing_add w s1 (Core.ONE (length self))) in (s2, (xorb o1 o2))) else (s1, o1)).

Definition I_borrowing_sub (w : Z) (self : list Z) (rhs : list Z) (borrow : bool) : (list Z * bool) :=
  let '(s1, o1) := (AddSub.I_overflowing_sub w self rhs) in (if borrow then (let '(s2, o2) := (AddSub.I_overflowing_sub w s1 (Core.ONE (length self))) in (s2, (xorb o1 o2))) else (s1, o1)).

(* ---- src/bint/checked.rs (macro checked) ---- *)
Definition I_checked_add (w : Z) (self : list Z) (rhs : list Z) : option (list Z) :=
  Core.tuple_to_option (AddSub.I_overflowing_add w self rhs).

Definition I_checked_add_unsigned (w : Z) (self : list Z) (rhs : list Z) : option (list Z) :=
  Core.tuple_to_option (AddSub.I_overflowing_add_unsigned w self rhs).

Definition I_checked_sub (w : Z) (self : list Z) (rhs : list Z) : option (list Z) :=
  Core.tuple_to_option (AddSub.I_overflowing_sub w self rhs).

Definition I_checked_sub_unsigned (w : Z) (self : list Z) (rhs : list Z) : option (list Z) :=
  Core.tuple_to_option (AddSub.I_overflowing_sub_unsigned w self rhs).

Definition I_checked_mul (w : Z) (self : list Z) (rhs : list Z) : option (list Z) :=
  Core.tuple_to_option (Mul.I_overflowing_mul w self rhs).

Definition I_checked_div (dbg : bool) (w : Z) (self : list Z) (rhs : list Z) : outcome (option (list Z)) :=
  if (Core.is_zero rhs) then (Ret None) else (omap (fun (r1 : (list Z * bool)) => (Core.tuple_to_option r1)) (Div.I_overflowing_div dbg w self rhs)).

Definition I_checked_div_euclid (dbg : bool) (w : Z) (self : list Z) (rhs : list Z) : outcome (option (list Z)) :=
  if (Core.is_zero rhs) then (Ret None) else (omap (fun (r1 : (list Z * bool)) => (Core.tuple_to_option r1)) (Div.I_overflowing_div_euclid dbg w self rhs)).

Definition I_checked_rem (dbg : bool) (w : Z) (self : list Z) (rhs : list Z) : outcome (option (list Z)) :=
  if (Core.is_zero rhs) then (Ret None) else (omap (fun (r1 : (list Z * bool)) => (Core.tuple_to_option r1)) (Div.I_overflowing_rem dbg w self rhs)).

Definition I_checked_rem_euclid (dbg : bool) (w : Z) (self : list Z) (rhs : list Z) : outcome (option (list Z)) :=
  if (Core.is_zero rhs) then (Ret None) else (omap (fun (r1 : (list Z * bool)) => (Core.tuple_to_option r1)) (Div.I_overflowing_rem_euclid dbg w self rhs)).

Definition I_checked_neg (w : Z) (self : list Z) : option (list Z) :=
  Core.tuple_to_option (AddSub.I_overflowing_neg w self).

Definition I_checked_shl (w : Z) (self : list Z) (rhs : Z) : option (list Z) :=
  Core.tuple_to_option (Shift.I_overflowing_shl w self rhs).

Definition I_checked_shr (w : Z) (self : list Z) (rhs : Z) : option (list Z) :=
  Core.tuple_to_option (Shift.I_overflowing_shr w self rhs).

Definition I_checked_abs (w : Z) (self : list Z) : option (list Z) :=
  Core.tuple_to_option (AddSub.I_overflowing_abs w self).

Definition I_checked_pow (w : Z) (self : list Z) (pow : Z) : option (list Z) :=
  match (Pow.U_checked_pow w (AddSub.I_unsigned_abs w self) pow) with Some u => (let out := u in (let neg := (Core.is_negative w self) in (if (orb (negb neg) (Z.eqb (Z.land pow 1) 0)) then (if (Core.is_negative w out) then None else (Some out)) else (let out := (AddSub.I_wrapping_neg w out) in (if (negb (Core.is_negative w out)) then None else (Some out)))))) | None => None end.

Definition I_checked_next_multiple_of (dbg : bool) (w : Z) (self : list Z) (rhs : list Z) : outcome (option (list Z)) :=
  if (Core.is_zero rhs) then (Ret None) else (omap (fun (rem : list Z) => (if (Core.is_zero rem) then (Some self) else (if (Bool.eqb (Core.is_negative w rem) (Core.is_negative w rhs)) then (AddSub.I_checked_add w self (AddSub.I_wrapping_sub w rhs rem)) else (AddSub.I_checked_sub w self rem)))) (Div.I_wrapping_rem_euclid dbg w self rhs)).

(* ---- src/bint/wrapping.rs (macro wrapping) ---- *)
Definition I_wrapping_add (w : Z) (self : list Z) (rhs : list Z) : list Z :=
  AddSub.U_wrapping_add w self rhs.

Definition I_wrapping_add_unsigned (w : Z) (self : list Z) (rhs : list Z) : list Z :=
  fst (AddSub.I_overflowing_add_unsigned w self rhs).

Definition I_wrapping_sub (w : Z) (self : list Z) (rhs : list Z) : list Z :=
  AddSub.U_wrapping_sub w self rhs.

Definition I_wrapping_sub_unsigned (w : Z) (self : list Z) (rhs : list Z) : list Z :=
  fst (AddSub.I_overflowing_sub_unsigned w self rhs).

Definition I_wrapping_mul (w : Z) (self : list Z) (rhs : list Z) : list Z :=
  Mul.U_wrapping_mul w self rhs.

Definition I_wrapping_div (dbg : bool) (w : Z) (self : list Z) (rhs : list Z) : outcome (list Z) :=
  omap (fun (r1 : (list Z * bool)) => (fst r1)) (Div.I_overflowing_div dbg w self rhs).

Definition I_wrapping_div_euclid (dbg : bool) (w : Z) (self : list Z) (rhs : list Z) : outcome (list Z) :=
  omap (fun (r1 : (list Z * bool)) => (fst r1)) (Div.I_overflowing_div_euclid dbg w self rhs).

Definition I_wrapping_rem (dbg : bool) (w : Z) (self : list Z) (rhs : list Z) : outcome (list Z) :=
  omap (fun (r1 : (list Z * bool)) => (fst r1)) (Div.I_overflowing_rem dbg w self rhs).

Definition I_wrapping_rem_euclid (dbg : bool) (w : Z) (self : list Z) (rhs : list Z) : outcome (list Z) :=
  omap (fun (r1 : (list Z * bool)) => (fst r1)) (Div.I_overflowing_rem_euclid dbg w self rhs).

Definition I_wrapping_neg (w : Z) (self : list Z) : list Z :=
  fst (AddSub.I_overflowing_neg w self).

Definition I_wrapping_shl (w : Z) (self : list Z) (rhs : Z) : list Z :=
  fst (Shift.I_overflowing_shl w self rhs).

Definition I_wrapping_shr (w : Z) (self : list Z) (rhs : Z) : list Z :=
  fst (Shift.I_overflowing_shr w self rhs).

Definition I_wrapping_abs (w : Z) (self : list Z) : list Z :=
  fst (AddSub.I_overflowing_abs w self).

Definition I_wrapping_pow (w : Z) (self : list Z) (pow : Z) : list Z :=
  Pow.U_wrapping_pow w self pow.

(* ---- src/bint/saturating.rs (macro saturating) ---- *)
Definition I_saturating_add (w : Z) (self : list Z) (rhs : list Z) : list Z :=
  match (AddSub.I_checked_add w self rhs) with Some add => add | None => (if (Core.is_negative w self) then (Core.IMIN w (length self)) else (Core.IMAX w (length self))) end.

Definition I_saturating_add_unsigned (w : Z) (self : list Z) (rhs : list Z) : list Z :=
  match (AddSub.I_checked_add_unsigned w self rhs) with Some i => i | None => (Core.IMAX w (length self)) end.

Definition I_saturating_sub (w : Z) (self : list Z) (rhs : list Z) : list Z :=
  match (AddSub.I_checked_sub w self rhs) with Some add => add | None => (if (Core.is_negative w self) then (Core.IMIN w (length self)) else (Core.IMAX w (length self))) end.

Definition I_saturating_sub_unsigned (w : Z) (self : list Z) (rhs : list Z) : list Z :=
  match (AddSub.I_checked_sub_unsigned w self rhs) with Some i => i | None => (Core.IMIN w (length self)) end.

Definition I_saturating_mul (w : Z) (self : list Z) (rhs : list Z) : list Z :=
  match (Mul.I_checked_mul w self rhs) with Some mul => mul | None => (if (Bool.eqb (Core.is_negative w self) (Core.is_negative w rhs)) then (Core.IMAX w (length self)) else (Core.IMIN w (length self))) end.

Definition I_saturating_div (dbg : bool) (w : Z) (self : list Z) (rhs : list Z) : outcome (list Z) :=
  omap (fun '((div, overflow) : (list Z * bool)) => (if overflow then (Core.IMAX w (length self)) else div)) (Div.I_overflowing_div dbg w self rhs).

Definition I_saturating_neg (w : Z) (self : list Z) : list Z :=
  match (AddSub.I_checked_neg w self) with Some abs => abs | None => (Core.IMAX w (length self)) end.

Definition I_saturating_abs (w : Z) (self : list Z) : list Z :=
  match (AddSub.I_checked_abs w self) with Some abs => abs | None => (Core.IMAX w (length self)) end.

Definition I_saturating_pow (w : Z) (self : list Z) (exp : Z) : list Z :=
  match (Pow.I_checked_pow w self exp) with Some pow => pow | None => (if (andb (Core.is_negative w self) (negb (Z.eqb (Z.land exp 1) 0))) then (Core.IMIN w (length self)) else (Core.IMAX w (length self))) end.

(* ---- src/buint/overflowing.rs (macro overflowing) ---- *)
Definition U_overflowing_add_signed (w : Z) (self : list Z) (rhs : list Z) : (list Z * bool) :=
  let '(sum, overflow) := (AddSub.U_overflowing_add w self rhs) in (sum, (negb (Bool.eqb (Core.is_negative w rhs) overflow))).

Definition U_overflowing_mul (w : Z) (self : list Z) (rhs : list Z) : (list Z * bool) :=
  Mul.long_mul w self rhs.

Definition U_overflowing_div (w : Z) (self : list Z) (rhs : list Z) : outcome ((list Z * bool)) :=
  omap (fun (r1 : list Z) => (r1, false)) (Div.U_wrapping_div w self rhs).

Definition U_overflowing_div_euclid (w : Z) (self : list Z) (rhs : list Z) : outcome ((list Z * bool)) :=
  Div.U_overflowing_div w self rhs.

Definition U_overflowing_rem (w : Z) (self : list Z) (rhs : list Z) : outcome ((list Z * bool)) :=
  omap (fun (r1 : list Z) => (r1, false)) (Div.U_wrapping_rem w self rhs).

Definition U_overflowing_rem_euclid (w : Z) (self : list Z) (rhs : list Z) : outcome ((list Z * bool)) :=
  Div.U_overflowing_rem w self rhs.

Definition U_overflowing_neg (w : Z) (self : list Z) : (list Z * bool) :=
  let '(a, b) := (AddSub.U_overflowing_add w (Core.bitnot w self) (Core.ONE (length self))) in (a, (negb b)).

Definition U_overflowing_shl (w : Z) (self : list Z) (rhs : Z) : (list Z * bool) :=
  if (Z.leb (bits w (length self)) rhs) then ((Shift.shl_internal w self (Z.land rhs (Z.sub (bits w (length self)) 1))), true) else ((Shift.shl_internal w self rhs), false).

Definition U_overflowing_shr (w : Z) (self : list Z) (rhs : Z) : (list Z * bool) :=
  if (Z.leb (bits w (length self)) rhs) then ((Shift.shr_pad_internal w false self (Z.land rhs (Z.sub (bits w (length self)) 1))), true) else ((Shift.shr_pad_internal w false self rhs), false).

(* ---- src/bint/overflowing.rs (macro overflowing) ---- *)
Definition I_overflowing_add_unsigned (w : Z) (self : list Z) (rhs : list Z) : (list Z * bool) :=
  let rhs := rhs in (let '(sum, overflow) := (AddSub.I_overflowing_add w self rhs) in (sum, (negb (Bool.eqb (Core.is_negative w rhs) overflow)))).

Definition I_overflowing_sub_unsigned (w : Z) (self : list Z) (rhs : list Z) : (list Z * bool) :=
  let rhs := rhs in (let '(sum, overflow) := (AddSub.I_overflowing_sub w self rhs) in (sum, (negb (Bool.eqb (Core.is_negative w rhs) overflow)))).

Definition I_overflowing_mul (w : Z) (self : list Z) (rhs : list Z) : (list Z * bool) :=
  let '(uint, overflow) := (Mul.U_overflowing_mul w (AddSub.I_unsigned_abs w self) (AddSub.I_unsigned_abs w rhs)) in (let out := uint in (if (Bool.eqb (Core.is_negative w self) (Core.is_negative w rhs)) then (out, (orb overflow (Core.is_negative w out))) else (match (AddSub.I_checked_neg w out) with Some n => (n, (orb overflow (Core.is_negative w out))) | None => (out, overflow) end))).

Definition I_div_rem_unchecked (dbg : bool) (w : Z) (self : list Z) (rhs : list Z) : outcome ((list Z * list Z)) :=
  if (andb (Core.eq_digits self (Core.IMIN w (length self))) (Core.is_one rhs)) then (Ret (self, (Core.ZERO (length self)))) else (let '(div, rem) := (Div.U_div_rem_unchecked w (AddSub.I_unsigned_abs w self) (AddSub.I_unsigned_abs w rhs)) in (let '(div, rem) := (div, rem) in (match ((Core.is_negative w self), (Core.is_negative w rhs)) with (false, false) => (Ret (div, rem)) | (false, true) => (omap (fun (r1 : list Z) => (r1, rem)) (AddSub.I_neg dbg w div)) | (true, false) => (obind (AddSub.I_neg dbg w div) (fun (r2 : list Z) => (omap (fun (r3 : list Z) => (r2, r3)) (AddSub.I_neg dbg w rem)))) | (true, true) => (omap (fun (r4 : list Z) => (div, r4)) (AddSub.I_neg dbg w rem)) end))).

Definition I_overflowing_div (dbg : bool) (w : Z) (self : list Z) (rhs : list Z) : outcome ((list Z * bool)) :=
  if (Core.is_zero rhs) then Panic else (if (Core.eq_digits self (Core.IMIN w (length self))) then (if (Core.eq_digits rhs (Core.NEG_ONE w (length self))) then (Ret (self, true)) else (if (Core.is_one rhs) then (Ret (self, false)) else (omap (fun (r1 : (list Z * list Z)) => ((fst r1), false)) (Div.I_div_rem_unchecked dbg w self rhs)))) else (omap (fun (r2 : (list Z * list Z)) => ((fst r2), false)) (Div.I_div_rem_unchecked dbg w self rhs))).

Definition I_overflowing_div_euclid (dbg : bool) (w : Z) (self : list Z) (rhs : list Z) : outcome ((list Z * bool)) :=
  if (Core.is_zero rhs) then Panic else (if (Core.eq_digits self (Core.IMIN w (length self))) then (if (Core.eq_digits rhs (Core.NEG_ONE w (length self))) then (Ret (self, true)) else (if (Core.is_one rhs) then (Ret (self, false)) else (obind (Div.I_div_rem_unchecked dbg w self rhs) (fun '((div, rem) : (list Z * list Z)) => (if (Core.is_negative w self) then (let r_neg := (Core.is_negative w rhs) in (if (negb (Core.is_zero rem)) then (if r_neg then (omap (fun (r1 : list Z) => (r1, false)) (AddSub.I_add dbg w div (Core.ONE (length self)))) else (omap (fun (r2 : list Z) => (r2, false)) (AddSub.I_sub dbg w div (Core.ONE (length self))))) else (Ret (div, false)))) else (Ret (div, false))))))) else (obind (Div.I_div_rem_unchecked dbg w self rhs) (fun '((div, rem) : (list Z * list Z)) => (if (Core.is_negative w self) then (let r_neg := (Core.is_negative w rhs) in (if (negb (Core.is_zero rem)) then (if r_neg then (omap (fun (r3 : list Z) => (r3, false)) (AddSub.I_add dbg w div (Core.ONE (length self)))) else (omap (fun (r4 : list Z) => (r4, false)) (AddSub.I_sub dbg w div (Core.ONE (length self))))) else (Ret (div, false)))) else (Ret (div, false)))))).

Definition I_overflowing_rem (dbg : bool) (w : Z) (self : list Z) (rhs : list Z) : outcome ((list Z * bool)) :=
  if (Core.is_zero rhs) then Panic else (if (andb (Core.eq_digits self (Core.IMIN w (length self))) (Core.eq_digits rhs (Core.NEG_ONE w (length self)))) then (Ret ((Core.ZERO (length self)), true)) else (omap (fun (r1 : (list Z * list Z)) => ((snd r1), false)) (Div.I_div_rem_unchecked dbg w self rhs))).

Definition I_overflowing_rem_euclid (dbg : bool) (w : Z) (self : list Z) (rhs : list Z) : outcome ((list Z * bool)) :=
  if (Core.is_zero rhs) then Panic else (if (andb (Core.eq_digits self (Core.IMIN w (length self))) (Core.eq_digits rhs (Core.NEG_ONE w (length self)))) then (Ret ((Core.ZERO (length self)), true)) else (omap (fun (r1 : (list Z * list Z)) => (let rem := (snd r1) in (let rem := (if (Core.is_negative w rem) then (let rem := (if (Core.is_negative w rhs) then (let rem := (AddSub.I_wrapping_sub w rem rhs) in rem) else (let rem := (AddSub.I_wrapping_add w rem rhs) in rem)) in rem) else rem) in (rem, false)))) (Div.I_div_rem_unchecked dbg w self rhs))).

Definition I_overflowing_shl (w : Z) (self : list Z) (rhs : Z) : (list Z * bool) :=
  let '(uint, overflow) := (Shift.U_overflowing_shl w self rhs) in (uint, overflow).

Definition I_overflowing_shr (w : Z) (self : list Z) (rhs : Z) : (list Z * bool) :=
  let bits_ := self in (let '(overflow, shift) := (if (Z.leb (bits w (length self)) rhs) then (true, (Z.land rhs (Z.sub (bits w (length self)) 1))) else (false, rhs)) in (let u := (if (Core.is_negative w self) then (Shift.shr_pad_internal w true bits_ shift) else (Shift.shr_pad_internal w false bits_ shift)) in (u, overflow))).

Definition I_overflowing_abs (w : Z) (self : list Z) : (list Z * bool) :=
  if (Core.is_negative w self) then (AddSub.I_overflowing_neg w self) else (self, false).

Definition I_overflowing_pow (w : Z) (self : list Z) (pow : Z) : (list Z * bool) :=
  let '(u, overflow) := (Pow.U_overflowing_pow w (AddSub.I_unsigned_abs w self) pow) in (let out_neg := (andb (Core.is_negative w self) (Z.eqb (Z.land pow 1) 1)) in (let out := u in (let '(out, overflow) := (if out_neg then (let out := (AddSub.I_wrapping_neg w out) in (let overflow := (orb overflow (negb (Core.is_negative w out))) in (out, overflow))) else (let overflow := (orb overflow (Core.is_negative w out)) in (out, overflow))) in (out, overflow)))).

(* ---- src/buint/const_trait_fillers.rs (macro const_trait_fillers) ---- *)
Definition U_ne (w : Z) (self : list Z) (other : list Z) : bool :=
  negb (Core.eq_digits self other).

Definition U_div (w : Z) (self : list Z) (rhs : list Z) : outcome (list Z) :=
  Div.U_wrapping_div w self rhs.

Definition U_rem (w : Z) (self : list Z) (rhs : list Z) : outcome (list Z) :=
  Div.U_wrapping_rem w self rhs.

(* ---- src/bint/const_trait_fillers.rs (macro const_trait_fillers) ---- *)
Definition I_bitand (w : Z) (self : list Z) (rhs : list Z) : list Z :=
  Core.bitand self rhs.

Definition I_bitor (w : Z) (self : list Z) (rhs : list Z) : list Z :=
  Core.bitor self rhs.

Definition I_bitxor (w : Z) (self : list Z) (rhs : list Z) : list Z :=
  Core.bitxor self rhs.

Definition I_not (w : Z) (self : list Z) : list Z :=
  Core.bitnot w self.

Definition I_eq (w : Z) (self : list Z) (other : list Z) : bool :=
  Core.eq_digits self other.

Definition I_ne (w : Z) (self : list Z) (other : list Z) : bool :=
  negb (Core.eq_digits self other).

Definition I_cmp (w : Z) (self : list Z) (other : list Z) : comparison :=
  let s1 := (Core.signed_digit w self) in (let s2 := (Core.signed_digit w other) in (if (Z.eqb s1 s2) then (Core.ucmp self other) else (if (Z.ltb s2 s1) then Gt else Lt))).

Definition I_neg (dbg : bool) (w : Z) (self : list Z) : outcome (list Z) :=
  if dbg then (AddSub.I_strict_neg w self) else (Ret (AddSub.I_wrapping_neg w self)).

Definition I_div (dbg : bool) (w : Z) (self : list Z) (rhs : list Z) : outcome (list Z) :=
  if (andb (Core.eq_digits self (Core.IMIN w (length self))) (Core.eq_digits rhs (Core.NEG_ONE w (length self)))) then Panic else (if (Core.is_zero rhs) then Panic else (omap (fun (r1 : (list Z * list Z)) => (fst r1)) (Div.I_div_rem_unchecked dbg w self rhs))).

Definition I_rem (dbg : bool) (w : Z) (self : list Z) (rhs : list Z) : outcome (list Z) :=
  if (andb (Core.eq_digits self (Core.IMIN w (length self))) (Core.eq_digits rhs (Core.NEG_ONE w (length self)))) then Panic else (if (Core.is_zero rhs) then Panic else (omap (fun (r1 : (list Z * list Z)) => (snd r1)) (Div.I_div_rem_unchecked dbg w self rhs))).

(* ---- src/int/ops.rs (macro impls) ---- *)
Definition U_Add_add (dbg : bool) (w : Z) (self : list Z) (rhs : list Z) : outcome (list Z) :=
  AddSub.U_add dbg w self rhs.

Definition U_Mul_mul (dbg : bool) (w : Z) (self : list Z) (rhs : list Z) : outcome (list Z) :=
  Mul.U_mul dbg w self rhs.

Definition U_Not_ref_not (w : Z) (self : list Z) : list Z :=
  Core.bitnot w self.

Definition U_Shl_ExpType_shl (dbg : bool) (w : Z) (self : list Z) (rhs : Z) : outcome (list Z) :=
  Shift.U_shl dbg w self rhs.

Definition U_Shr_ExpType_shr (dbg : bool) (w : Z) (self : list Z) (rhs : Z) : outcome (list Z) :=
  Shift.U_shr dbg w self rhs.

Definition U_Sub_sub (dbg : bool) (w : Z) (self : list Z) (rhs : list Z) : outcome (list Z) :=
  AddSub.U_sub dbg w self rhs.

Definition I_Add_add (dbg : bool) (w : Z) (self : list Z) (rhs : list Z) : outcome (list Z) :=
  AddSub.I_add dbg w self rhs.

Definition I_Mul_mul (dbg : bool) (w : Z) (self : list Z) (rhs : list Z) : outcome (list Z) :=
  Mul.I_mul dbg w self rhs.

Definition I_Not_ref_not (w : Z) (self : list Z) : list Z :=
  Core.bitnot w self.

Definition I_Shl_ExpType_shl (dbg : bool) (w : Z) (self : list Z) (rhs : Z) : outcome (list Z) :=
  Shift.I_shl dbg w self rhs.

Definition I_Shr_ExpType_shr (dbg : bool) (w : Z) (self : list Z) (rhs : Z) : outcome (list Z) :=
  Shift.I_shr dbg w self rhs.

Definition I_Sub_sub (dbg : bool) (w : Z) (self : list Z) (rhs : list Z) : outcome (list Z) :=
  AddSub.I_sub dbg w self rhs.

(* ---- src/buint/ops.rs (macro ops) ---- *)
Definition U_BitAnd_bitand (w : Z) (self : list Z) (rhs : list Z) : list Z :=
  Core.bitand self rhs.

Definition U_BitOr_bitor (w : Z) (self : list Z) (rhs : list Z) : list Z :=
  Core.bitor self rhs.

Definition U_BitXor_bitxor (w : Z) (self : list Z) (rhs : list Z) : list Z :=
  Core.bitxor self rhs.

Definition U_Div_div (w : Z) (self : list Z) (rhs : list Z) : outcome (list Z) :=
  Div.U_div w self rhs.

Definition U_Div_digit_div (w : Z) (self : list Z) (rhs : Z) : outcome (list Z) :=
  omap (fun (r1 : (list Z * Z)) => (fst r1)) (if Z.eqb rhs 0 then Panic else Ret (Div.div_rem_digit w self rhs)).

Definition U_Not_not (w : Z) (self : list Z) : list Z :=
  Core.bitnot w self.

Definition U_Rem_rem (w : Z) (self : list Z) (rhs : list Z) : outcome (list Z) :=
  Div.U_rem w self rhs.

Definition U_Rem_digit_rem (w : Z) (self : list Z) (rhs : Z) : outcome (Z) :=
  omap (fun (r1 : (list Z * Z)) => (snd r1)) (if Z.eqb rhs 0 then Panic else Ret (Div.div_rem_digit w self rhs)).

(* ---- src/bint/ops.rs (macro ops) ---- *)
Definition I_Neg_neg (dbg : bool) (w : Z) (self : list Z) : outcome (list Z) :=
  AddSub.I_neg dbg w self.

Definition I_Neg_ref_neg (dbg : bool) (w : Z) (self : list Z) : outcome (list Z) :=
  AddSub.I_neg dbg w self.

Definition I_BitAnd_bitand (w : Z) (self : list Z) (rhs : list Z) : list Z :=
  Core.bitand self rhs.

Definition I_BitOr_bitor (w : Z) (self : list Z) (rhs : list Z) : list Z :=
  Core.bitor self rhs.

Definition I_BitXor_bitxor (w : Z) (self : list Z) (rhs : list Z) : list Z :=
  Core.bitxor self rhs.

Definition I_Div_div (dbg : bool) (w : Z) (self : list Z) (rhs : list Z) : outcome (list Z) :=
  Div.I_div dbg w self rhs.

Definition I_Not_not (w : Z) (self : list Z) : list Z :=
  Core.bitnot w self.

Definition I_Rem_rem (dbg : bool) (w : Z) (self : list Z) (rhs : list Z) : outcome (list Z) :=
  Div.I_rem dbg w self rhs.

(* ---- src/int/numtraits.rs (macro impls) ---- *)
Definition U_Bounded_min_value (w : Z) (n : nat) : list Z :=
  Core.ZERO n.

Definition U_Bounded_max_value (w : Z) (n : nat) : list Z :=
  Core.UMAX w n.

Definition U_CheckedNeg_checked_neg (w : Z) (self : list Z) : option (list Z) :=
  AddSub.U_checked_neg self.

Definition U_CheckedShl_checked_shl (w : Z) (self : list Z) (rhs : Z) : option (list Z) :=
  Shift.U_checked_shl w self rhs.

Definition U_CheckedShr_checked_shr (w : Z) (self : list Z) (rhs : Z) : option (list Z) :=
  Shift.U_checked_shr w self rhs.

Definition U_CheckedEuclid_checked_div_euclid (w : Z) (self : list Z) (rhs : list Z) : option (list Z) :=
  Div.U_checked_div_euclid w self rhs.

Definition U_CheckedEuclid_checked_rem_euclid (w : Z) (self : list Z) (rhs : list Z) : option (list Z) :=
  Div.U_checked_rem_euclid w self rhs.

Definition U_Euclid_div_euclid (w : Z) (self : list Z) (rhs : list Z) : outcome (list Z) :=
  Div.U_div_euclid w self rhs.

Definition U_Euclid_rem_euclid (w : Z) (self : list Z) (rhs : list Z) : outcome (list Z) :=
  Div.U_rem_euclid w self rhs.

Definition U_WrappingNeg_wrapping_neg (w : Z) (self : list Z) : list Z :=
  AddSub.U_wrapping_neg w self.

Definition U_WrappingShl_wrapping_shl (w : Z) (self : list Z) (rhs : Z) : list Z :=
  Shift.U_wrapping_shl w self rhs.

Definition U_WrappingShr_wrapping_shr (w : Z) (self : list Z) (rhs : Z) : list Z :=
  Shift.U_wrapping_shr w self rhs.

Definition U_Pow_pow (dbg : bool) (w : Z) (self : list Z) (exp : Z) : outcome (list Z) :=
  Pow.U_pow dbg w self exp.

Definition U_Saturating_saturating_add (w : Z) (self : list Z) (rhs : list Z) : list Z :=
  AddSub.U_saturating_add w self rhs.

Definition U_Saturating_saturating_sub (w : Z) (self : list Z) (rhs : list Z) : list Z :=
  AddSub.U_saturating_sub w self rhs.

Definition U_MulAdd_mul_add (dbg : bool) (w : Z) (self : list Z) (a : list Z) (b : list Z) : outcome (list Z) :=
  obind (Mul.U_mul dbg w self a) (fun (r1 : list Z) => (AddSub.U_add dbg w r1 b)).

Definition U_One_one (w : Z) (n : nat) : list Z :=
  Core.ONE n.

Definition U_One_is_one (w : Z) (self : list Z) : bool :=
  Core.is_one self.

Definition U_Zero_zero (w : Z) (n : nat) : list Z :=
  Core.ZERO n.

Definition U_Zero_is_zero (w : Z) (self : list Z) : bool :=
  Core.is_zero self.

Definition I_Bounded_min_value (w : Z) (n : nat) : list Z :=
  Core.IMIN w n.

Definition I_Bounded_max_value (w : Z) (n : nat) : list Z :=
  Core.IMAX w n.

Definition I_CheckedNeg_checked_neg (w : Z) (self : list Z) : option (list Z) :=
  AddSub.I_checked_neg w self.

Definition I_CheckedShl_checked_shl (w : Z) (self : list Z) (rhs : Z) : option (list Z) :=
  Shift.I_checked_shl w self rhs.

Definition I_CheckedShr_checked_shr (w : Z) (self : list Z) (rhs : Z) : option (list Z) :=
  Shift.I_checked_shr w self rhs.

Definition I_CheckedEuclid_checked_div_euclid (dbg : bool) (w : Z) (self : list Z) (rhs : list Z) : outcome (option (list Z)) :=
  Div.I_checked_div_euclid dbg w self rhs.

Definition I_CheckedEuclid_checked_rem_euclid (dbg : bool) (w : Z) (self : list Z) (rhs : list Z) : outcome (option (list Z)) :=
  Div.I_checked_rem_euclid dbg w self rhs.

Definition I_Euclid_div_euclid (dbg : bool) (w : Z) (self : list Z) (rhs : list Z) : outcome (list Z) :=
  Div.I_div_euclid dbg w self rhs.

Definition I_Euclid_rem_euclid (dbg : bool) (w : Z) (self : list Z) (rhs : list Z) : outcome (list Z) :=
  Div.I_rem_euclid dbg w self rhs.

Definition I_WrappingNeg_wrapping_neg (w : Z) (self : list Z) : list Z :=
  AddSub.I_wrapping_neg w self.

Definition I_WrappingShl_wrapping_shl (w : Z) (self : list Z) (rhs : Z) : list Z :=
  Shift.I_wrapping_shl w self rhs.

Definition I_WrappingShr_wrapping_shr (w : Z) (self : list Z) (rhs : Z) : list Z :=
  Shift.I_wrapping_shr w self rhs.

Definition I_Pow_pow (dbg : bool) (w : Z) (self : list Z) (exp : Z) : outcome (list Z) :=
  Pow.I_pow dbg w self exp.

Definition I_Saturating_saturating_add (w : Z) (self : list Z) (rhs : list Z) : list Z :=
  AddSub.I_saturating_add w self rhs.

Definition I_Saturating_saturating_sub (w : Z) (self : list Z) (rhs : list Z) : list Z :=
  AddSub.I_saturating_sub w self rhs.

Definition I_MulAdd_mul_add (dbg : bool) (w : Z) (self : list Z) (a : list Z) (b : list Z) : outcome (list Z) :=
  obind (Mul.I_mul dbg w self a) (fun (r1 : list Z) => (AddSub.I_add dbg w r1 b)).

Definition I_One_one (w : Z) (n : nat) : list Z :=
  Core.ONE n.

Definition I_One_is_one (w : Z) (self : list Z) : bool :=
  Core.is_one self.

Definition I_Zero_zero (w : Z) (n : nat) : list Z :=
  Core.ZERO n.

Definition I_Zero_is_zero (w : Z) (self : list Z) : bool :=
  Core.is_zero self.

(* ---- src/int/unchecked.rs (macro impls) ---- *)
Definition U_unchecked_add (w : Z) (self : list Z) (rhs : list Z) : option (list Z) :=
  AddSub.U_checked_add w self rhs.

Definition U_unchecked_sub (w : Z) (self : list Z) (rhs : list Z) : option (list Z) :=
  AddSub.U_checked_sub w self rhs.

Definition U_unchecked_mul (w : Z) (self : list Z) (rhs : list Z) : option (list Z) :=
  Mul.U_checked_mul w self rhs.

Definition U_unchecked_shl (w : Z) (self : list Z) (rhs : Z) : option (list Z) :=
  Shift.U_checked_shl w self rhs.

Definition U_unchecked_shr (w : Z) (self : list Z) (rhs : Z) : option (list Z) :=
  Shift.U_checked_shr w self rhs.

Definition I_unchecked_add (w : Z) (self : list Z) (rhs : list Z) : option (list Z) :=
  AddSub.I_checked_add w self rhs.

Definition I_unchecked_sub (w : Z) (self : list Z) (rhs : list Z) : option (list Z) :=
  AddSub.I_checked_sub w self rhs.

Definition I_unchecked_mul (w : Z) (self : list Z) (rhs : list Z) : option (list Z) :=
  Mul.I_checked_mul w self rhs.

Definition I_unchecked_shl (w : Z) (self : list Z) (rhs : Z) : option (list Z) :=
  Shift.I_checked_shl w self rhs.

Definition I_unchecked_shr (w : Z) (self : list Z) (rhs : Z) : option (list Z) :=
  Shift.I_checked_shr w self rhs.

(* ---- src/buint/mod.rs (macro mod_impl) ---- *)
Definition U_cast_signed (w : Z) (self : list Z) : list Z :=
  self.

Definition U_rotate_left (w : Z) (self : list Z) (n : Z) : list Z :=
  Shift.unchecked_rotate_left w self (Z.modulo n (bits w (length self))).

Definition U_rotate_right (w : Z) (self : list Z) (n : Z) : list Z :=
  let n := (Z.modulo n (bits w (length self))) in (Shift.unchecked_rotate_left w self (Z.sub (bits w (length self)) n)).

Definition U_unbounded_shl (w : Z) (self : list Z) (rhs : Z) : list Z :=
  if (Z.leb (bits w (length self)) rhs) then (Core.ZERO (length self)) else (Shift.shl_internal w self rhs).

Definition U_unbounded_shr (w : Z) (self : list Z) (rhs : Z) : list Z :=
  if (Z.leb (bits w (length self)) rhs) then (Core.ZERO (length self)) else (Shift.shr_pad_internal w false self rhs).

Definition U_pow (dbg : bool) (w : Z) (self : list Z) (exp : Z) : outcome (list Z) :=
  if dbg then (Pow.U_strict_pow w self exp) else (Ret (Pow.U_wrapping_pow w self exp)).

Definition U_div_euclid (w : Z) (self : list Z) (rhs : list Z) : outcome (list Z) :=
  Div.U_wrapping_div_euclid w self rhs.

Definition U_rem_euclid (w : Z) (self : list Z) (rhs : list Z) : outcome (list Z) :=
  Div.U_wrapping_rem_euclid w self rhs.

Definition U_next_power_of_two (dbg : bool) (w : Z) (self : list Z) : outcome (list Z) :=
  if dbg then (obind (Bits.U_checked_next_power_of_two w self) (fun (r1 : option (list Z)) => (Core.option_expect r1))) else (Bits.U_wrapping_next_power_of_two w self).

Definition U_midpoint (dbg : bool) (w : Z) (self : list Z) (rhs : list Z) : outcome (list Z) :=
  obind (Shift.U_shr dbg w (Core.bitxor self rhs) 1) (fun (r1 : list Z) => (AddSub.U_add dbg w (Core.bitand self rhs) r1)).

Definition U_ilog2 (w : Z) (self : list Z) : outcome (Z) :=
  Core.option_expect (Pow.U_checked_ilog2 w self).

Definition U_abs_diff (w : Z) (self : list Z) (other : list Z) : list Z :=
  if (Core.cmp_lt (Core.ucmp self other)) then (AddSub.U_wrapping_sub w other self) else (AddSub.U_wrapping_sub w self other).

Definition U_next_multiple_of (dbg : bool) (w : Z) (self : list Z) (rhs : list Z) : outcome (list Z) :=
  obind (Div.U_wrapping_rem w self rhs) (fun (rem : list Z) => (if (Core.is_zero rem) then (Ret self) else (obind (AddSub.U_sub dbg w rhs rem) (fun (r1 : list Z) => (AddSub.U_add dbg w self r1))))).

Definition U_div_floor (w : Z) (self : list Z) (rhs : list Z) : outcome (list Z) :=
  Div.U_wrapping_div w self rhs.

Definition U_div_ceil (dbg : bool) (w : Z) (self : list Z) (rhs : list Z) : outcome (list Z) :=
  obind (Div.U_div_rem w self rhs) (fun '((div, rem) : (list Z * list Z)) => (if (Core.is_zero rem) then (Ret div) else (AddSub.U_add dbg w div (Core.ONE (length self))))).

Definition U_unchecked_shr_internal (w : Z) (u : list Z) (rhs : Z) : list Z :=
  Shift.shr_pad_internal w false u rhs.

Definition U_bits (w : Z) (self : list Z) : Z :=
  Z.sub (bits w (length self)) (Bits.leading_zeros w self).

(* ---- src/bint/mod.rs (macro mod_impl) ---- *)
Definition I_count_ones (w : Z) (self : list Z) : Z :=
  Bits.count_ones self.

Definition I_count_zeros (w : Z) (self : list Z) : Z :=
  Bits.count_zeros w self.

Definition I_leading_zeros (w : Z) (self : list Z) : Z :=
  Bits.leading_zeros w self.

Definition I_trailing_zeros (w : Z) (self : list Z) : Z :=
  Bits.trailing_zeros w self.

Definition I_leading_ones (w : Z) (self : list Z) : Z :=
  Bits.leading_ones w self.

Definition I_trailing_ones (w : Z) (self : list Z) : Z :=
  Bits.trailing_ones w self.

Definition I_cast_unsigned (w : Z) (self : list Z) : list Z :=
  self.

Definition I_rotate_left (w : Z) (self : list Z) (n : Z) : list Z :=
  Shift.rotate_left w self n.

Definition I_rotate_right (w : Z) (self : list Z) (n : Z) : list Z :=
  Shift.rotate_right w self n.

Definition I_unbounded_shl (w : Z) (self : list Z) (rhs : Z) : list Z :=
  Shift.U_unbounded_shl w self rhs.

Definition I_unbounded_shr (w : Z) (self : list Z) (rhs : Z) : list Z :=
  if (Z.leb (bits w (length self)) rhs) then (if (Core.is_negative w self) then (Core.NEG_ONE w (length self)) else (Core.ZERO (length self))) else (let u := (if (Core.is_negative w self) then (Shift.shr_pad_internal w true self rhs) else (Shift.shr_pad_internal w false self rhs)) in u).

Definition I_swap_bytes (w : Z) (self : list Z) : list Z :=
  Bits.swap_bytes w self.

Definition I_reverse_bits (w : Z) (self : list Z) : list Z :=
  Bits.reverse_bits w self.

Definition I_unsigned_abs (w : Z) (self : list Z) : list Z :=
  if (Core.is_negative w self) then (AddSub.I_wrapping_neg w self) else self.

Definition I_pow (dbg : bool) (w : Z) (self : list Z) (exp : Z) : outcome (list Z) :=
  if dbg then (Pow.I_strict_pow w self exp) else (Ret (Pow.I_wrapping_pow w self exp)).

Definition I_div_euclid (dbg : bool) (w : Z) (self : list Z) (rhs : list Z) : outcome (list Z) :=
  if (orb (negb (Core.eq_digits self (Core.IMIN w (length self)))) (negb (Core.eq_digits rhs (Core.NEG_ONE w (length self))))) then (Div.I_wrapping_div_euclid dbg w self rhs) else Panic.

Definition I_rem_euclid (dbg : bool) (w : Z) (self : list Z) (rhs : list Z) : outcome (list Z) :=
  if (orb (negb (Core.eq_digits self (Core.IMIN w (length self)))) (negb (Core.eq_digits rhs (Core.NEG_ONE w (length self))))) then (Div.I_wrapping_rem_euclid dbg w self rhs) else Panic.

Definition I_abs (dbg : bool) (w : Z) (self : list Z) : outcome (list Z) :=
  if dbg then (AddSub.I_strict_abs w self) else (Ret (match (AddSub.I_checked_abs w self) with Some int => int | None => (Core.IMIN w (length self)) end)).

Definition I_signum (w : Z) (self : list Z) : list Z :=
  if (Core.is_negative w self) then (Core.NEG_ONE w (length self)) else (if (Core.is_zero self) then (Core.ZERO (length self)) else (Core.ONE (length self))).

Definition I_is_positive (w : Z) (self : list Z) : bool :=
  let signed_digit := (Core.signed_digit w self) in (orb (Z.ltb 0 signed_digit) (andb (Z.eqb signed_digit 0) (negb (Core.is_zero self)))).

Definition I_is_negative (w : Z) (self : list Z) : bool :=
  Z.ltb (Core.signed_digit w self) 0.

Definition I_is_power_of_two (w : Z) (self : list Z) : bool :=
  andb (negb (Core.is_negative w self)) (Bits.U_is_power_of_two self).

Definition I_midpoint (dbg : bool) (w : Z) (self : list Z) (rhs : list Z) : outcome (list Z) :=
  let x := (Core.bitxor self rhs) in (obind (Shift.I_shr dbg w x 1) (fun (r1 : list Z) => (obind (AddSub.I_add dbg w (Core.bitand self rhs) r1) (fun (t : list Z) => (if (andb (Core.is_negative w t) (Z.eqb (Z.land (hd 0 x) 1) 1)) then (AddSub.I_add dbg w t (Core.ONE (length self))) else (Ret t)))))).

Definition I_abs_diff (w : Z) (self : list Z) (other : list Z) : list Z :=
  if (Core.cmp_lt (Core.icmp w self other)) then (AddSub.I_wrapping_sub w other self) else (AddSub.I_wrapping_sub w self other).

Definition I_next_multiple_of (dbg : bool) (w : Z) (self : list Z) (rhs : list Z) : outcome (list Z) :=
  obind (Div.I_wrapping_rem_euclid dbg w self rhs) (fun (rem : list Z) => (if (Core.is_zero rem) then (Ret self) else (if (Bool.eqb (Core.is_negative w rem) (Core.is_negative w rhs)) then (obind (AddSub.I_sub dbg w rhs rem) (fun (r1 : list Z) => (AddSub.I_add dbg w self r1))) else (AddSub.I_sub dbg w self rem)))).

Definition I_div_floor (dbg : bool) (w : Z) (self : list Z) (rhs : list Z) : outcome (list Z) :=
  if (Core.is_zero rhs) then Panic else (obind (Div.I_div_rem_unchecked dbg w self rhs) (fun '((div, rem) : (list Z * list Z)) => (if (orb (Core.is_zero rem) (Bool.eqb (Core.is_negative w self) (Core.is_negative w rhs))) then (Ret div) else (AddSub.I_sub dbg w div (Core.ONE (length self)))))).

Definition I_div_ceil (dbg : bool) (w : Z) (self : list Z) (rhs : list Z) : outcome (list Z) :=
  if (Core.is_zero rhs) then Panic else (obind (Div.I_div_rem_unchecked dbg w self rhs) (fun '((div, rem) : (list Z * list Z)) => (if (orb (Core.is_zero rem) (negb (Bool.eqb (Core.is_negative w self) (Core.is_negative w rhs)))) then (Ret div) else (AddSub.I_add dbg w div (Core.ONE (length self)))))).

Definition I_bits (w : Z) (self : list Z) : Z :=
  Bits.bits_of w self.

Definition I_bit (w : Z) (self : list Z) (b : Z) : outcome (bool) :=
  Bits.bit w self b.

Definition I_is_zero (w : Z) (self : list Z) : bool :=
  Core.is_zero self.

Definition I_is_one (w : Z) (self : list Z) : bool :=
  Core.is_one self.

(* ---- src/bint/mod.rs: expansions of ilog! (defined in src/bint/mod.rs) ---- *)
Definition I_ilog2 (w : Z) (self : list Z) : outcome (Z) :=
  if (Core.is_negative w self) then Panic else (Pow.U_ilog2 w self).

(* ---- src/bint/checked.rs: expansions of checked_ilog! (defined in src/bint/checked.rs) ---- *)
Definition I_checked_ilog2 (w : Z) (self : list Z) : option (Z) :=
  if (Core.is_negative w self) then None else (Pow.U_checked_ilog2 w self).

(* ---- src/int/numtraits.rs: expansions of num_trait_impl! (defined in src/int/numtraits.rs) ---- *)
Definition U_CheckedAdd_checked_add (w : Z) (self : list Z) (rhs : list Z) : option (list Z) :=
  AddSub.U_checked_add w self rhs.

Definition I_CheckedAdd_checked_add (w : Z) (self : list Z) (rhs : list Z) : option (list Z) :=
  AddSub.I_checked_add w self rhs.

Definition U_CheckedDiv_checked_div (w : Z) (self : list Z) (rhs : list Z) : option (list Z) :=
  Div.U_checked_div w self rhs.

Definition I_CheckedDiv_checked_div (dbg : bool) (w : Z) (self : list Z) (rhs : list Z) : outcome (option (list Z)) :=
  Div.I_checked_div dbg w self rhs.

Definition U_CheckedMul_checked_mul (w : Z) (self : list Z) (rhs : list Z) : option (list Z) :=
  Mul.U_checked_mul w self rhs.

Definition I_CheckedMul_checked_mul (w : Z) (self : list Z) (rhs : list Z) : option (list Z) :=
  Mul.I_checked_mul w self rhs.

Definition U_CheckedRem_checked_rem (w : Z) (self : list Z) (rhs : list Z) : option (list Z) :=
  Div.U_checked_rem w self rhs.

Definition I_CheckedRem_checked_rem (dbg : bool) (w : Z) (self : list Z) (rhs : list Z) : outcome (option (list Z)) :=
  Div.I_checked_rem dbg w self rhs.

Definition U_CheckedSub_checked_sub (w : Z) (self : list Z) (rhs : list Z) : option (list Z) :=
  AddSub.U_checked_sub w self rhs.

Definition I_CheckedSub_checked_sub (w : Z) (self : list Z) (rhs : list Z) : option (list Z) :=
  AddSub.I_checked_sub w self rhs.

Definition U_SaturatingAdd_saturating_add (w : Z) (self : list Z) (rhs : list Z) : list Z :=
  AddSub.U_saturating_add w self rhs.

Definition I_SaturatingAdd_saturating_add (w : Z) (self : list Z) (rhs : list Z) : list Z :=
  AddSub.I_saturating_add w self rhs.

Definition U_SaturatingMul_saturating_mul (w : Z) (self : list Z) (rhs : list Z) : list Z :=
  Mul.U_saturating_mul w self rhs.

Definition I_SaturatingMul_saturating_mul (w : Z) (self : list Z) (rhs : list Z) : list Z :=
  Mul.I_saturating_mul w self rhs.

Definition U_SaturatingSub_saturating_sub (w : Z) (self : list Z) (rhs : list Z) : list Z :=
  AddSub.U_saturating_sub w self rhs.

Definition I_SaturatingSub_saturating_sub (w : Z) (self : list Z) (rhs : list Z) : list Z :=
  AddSub.I_saturating_sub w self rhs.

Definition U_WrappingAdd_wrapping_add (w : Z) (self : list Z) (rhs : list Z) : list Z :=
  AddSub.U_wrapping_add w self rhs.

Definition I_WrappingAdd_wrapping_add (w : Z) (self : list Z) (rhs : list Z) : list Z :=
  AddSub.I_wrapping_add w self rhs.

Definition U_WrappingMul_wrapping_mul (w : Z) (self : list Z) (rhs : list Z) : list Z :=
  Mul.U_wrapping_mul w self rhs.

Definition I_WrappingMul_wrapping_mul (w : Z) (self : list Z) (rhs : list Z) : list Z :=
  Mul.I_wrapping_mul w self rhs.

Definition U_WrappingSub_wrapping_sub (w : Z) (self : list Z) (rhs : list Z) : list Z :=
  AddSub.U_wrapping_sub w self rhs.

Definition I_WrappingSub_wrapping_sub (w : Z) (self : list Z) (rhs : list Z) : list Z :=
  AddSub.I_wrapping_sub w self rhs.

Definition U_OverflowingAdd_overflowing_add (w : Z) (self : list Z) (rhs : list Z) : (list Z * bool) :=
  AddSub.U_overflowing_add w self rhs.

Definition I_OverflowingAdd_overflowing_add (w : Z) (self : list Z) (rhs : list Z) : (list Z * bool) :=
  AddSub.I_overflowing_add w self rhs.

Definition U_OverflowingSub_overflowing_sub (w : Z) (self : list Z) (rhs : list Z) : (list Z * bool) :=
  AddSub.U_overflowing_sub w self rhs.

Definition I_OverflowingSub_overflowing_sub (w : Z) (self : list Z) (rhs : list Z) : (list Z * bool) :=
  AddSub.I_overflowing_sub w self rhs.

(* ---- src/int/ops.rs: expansions of shift_impl! (defined in src/int/ops.rs) ---- *)
Definition U_Shl_u8_shl (dbg : bool) (w : Z) (self : list Z) (rhs : Z) : outcome (list Z) :=
  Shift.U_shl dbg w self rhs.

Definition I_Shl_u8_shl (dbg : bool) (w : Z) (self : list Z) (rhs : Z) : outcome (list Z) :=
  Shift.I_shl dbg w self rhs.

Definition U_Shl_u16_shl (dbg : bool) (w : Z) (self : list Z) (rhs : Z) : outcome (list Z) :=
  Shift.U_shl dbg w self rhs.

Definition I_Shl_u16_shl (dbg : bool) (w : Z) (self : list Z) (rhs : Z) : outcome (list Z) :=
  Shift.I_shl dbg w self rhs.

Definition U_Shr_u8_shr (dbg : bool) (w : Z) (self : list Z) (rhs : Z) : outcome (list Z) :=
  Shift.U_shr dbg w self rhs.

Definition I_Shr_u8_shr (dbg : bool) (w : Z) (self : list Z) (rhs : Z) : outcome (list Z) :=
  Shift.I_shr dbg w self rhs.

Definition U_Shr_u16_shr (dbg : bool) (w : Z) (self : list Z) (rhs : Z) : outcome (list Z) :=
  Shift.U_shr dbg w self rhs.

Definition I_Shr_u16_shr (dbg : bool) (w : Z) (self : list Z) (rhs : Z) : outcome (list Z) :=
  Shift.I_shr dbg w self rhs.

(* ---- src/int/ops.rs: expansions of try_shift_impl! (defined in src/int/ops.rs) ---- *)
Definition U_Shl_i8_shl (dbg : bool) (w : Z) (self : list Z) (rhs : Z) : outcome (list Z) :=
  obind (if dbg then (Core.option_expect (if andb (Z.leb 0 rhs) (Z.leb rhs u32_max) then Some rhs else None)) else (Ret (Z.modulo rhs (2 ^ 32)))) (fun (rhs : Z) => (Shift.U_shl dbg w self rhs)).

Definition I_Shl_i8_shl (dbg : bool) (w : Z) (self : list Z) (rhs : Z) : outcome (list Z) :=
  obind (if dbg then (Core.option_expect (if andb (Z.leb 0 rhs) (Z.leb rhs u32_max) then Some rhs else None)) else (Ret (Z.modulo rhs (2 ^ 32)))) (fun (rhs : Z) => (Shift.I_shl dbg w self rhs)).

Definition U_Shl_i16_shl (dbg : bool) (w : Z) (self : list Z) (rhs : Z) : outcome (list Z) :=
  obind (if dbg then (Core.option_expect (if andb (Z.leb 0 rhs) (Z.leb rhs u32_max) then Some rhs else None)) else (Ret (Z.modulo rhs (2 ^ 32)))) (fun (rhs : Z) => (Shift.U_shl dbg w self rhs)).

Definition I_Shl_i16_shl (dbg : bool) (w : Z) (self : list Z) (rhs : Z) : outcome (list Z) :=
  obind (if dbg then (Core.option_expect (if andb (Z.leb 0 rhs) (Z.leb rhs u32_max) then Some rhs else None)) else (Ret (Z.modulo rhs (2 ^ 32)))) (fun (rhs : Z) => (Shift.I_shl dbg w self rhs)).

Definition U_Shl_i32_shl (dbg : bool) (w : Z) (self : list Z) (rhs : Z) : outcome (list Z) :=
  obind (if dbg then (Core.option_expect (if andb (Z.leb 0 rhs) (Z.leb rhs u32_max) then Some rhs else None)) else (Ret (Z.modulo rhs (2 ^ 32)))) (fun (rhs : Z) => (Shift.U_shl dbg w self rhs)).

Definition I_Shl_i32_shl (dbg : bool) (w : Z) (self : list Z) (rhs : Z) : outcome (list Z) :=
  obind (if dbg then (Core.option_expect (if andb (Z.leb 0 rhs) (Z.leb rhs u32_max) then Some rhs else None)) else (Ret (Z.modulo rhs (2 ^ 32)))) (fun (rhs : Z) => (Shift.I_shl dbg w self rhs)).

Definition U_Shl_isize_shl (dbg : bool) (w : Z) (self : list Z) (rhs : Z) : outcome (list Z) :=
  obind (if dbg then (Core.option_expect (if andb (Z.leb 0 rhs) (Z.leb rhs u32_max) then Some rhs else None)) else (Ret (Z.modulo rhs (2 ^ 32)))) (fun (rhs : Z) => (Shift.U_shl dbg w self rhs)).

Definition I_Shl_isize_shl (dbg : bool) (w : Z) (self : list Z) (rhs : Z) : outcome (list Z) :=
  obind (if dbg then (Core.option_expect (if andb (Z.leb 0 rhs) (Z.leb rhs u32_max) then Some rhs else None)) else (Ret (Z.modulo rhs (2 ^ 32)))) (fun (rhs : Z) => (Shift.I_shl dbg w self rhs)).

Definition U_Shl_i64_shl (dbg : bool) (w : Z) (self : list Z) (rhs : Z) : outcome (list Z) :=
  obind (if dbg then (Core.option_expect (if andb (Z.leb 0 rhs) (Z.leb rhs u32_max) then Some rhs else None)) else (Ret (Z.modulo rhs (2 ^ 32)))) (fun (rhs : Z) => (Shift.U_shl dbg w self rhs)).

Definition I_Shl_i64_shl (dbg : bool) (w : Z) (self : list Z) (rhs : Z) : outcome (list Z) :=
  obind (if dbg then (Core.option_expect (if andb (Z.leb 0 rhs) (Z.leb rhs u32_max) then Some rhs else None)) else (Ret (Z.modulo rhs (2 ^ 32)))) (fun (rhs : Z) => (Shift.I_shl dbg w self rhs)).

Definition U_Shl_i128_shl (dbg : bool) (w : Z) (self : list Z) (rhs : Z) : outcome (list Z) :=
  obind (if dbg then (Core.option_expect (if andb (Z.leb 0 rhs) (Z.leb rhs u32_max) then Some rhs else None)) else (Ret (Z.modulo rhs (2 ^ 32)))) (fun (rhs : Z) => (Shift.U_shl dbg w self rhs)).

Definition I_Shl_i128_shl (dbg : bool) (w : Z) (self : list Z) (rhs : Z) : outcome (list Z) :=
  obind (if dbg then (Core.option_expect (if andb (Z.leb 0 rhs) (Z.leb rhs u32_max) then Some rhs else None)) else (Ret (Z.modulo rhs (2 ^ 32)))) (fun (rhs : Z) => (Shift.I_shl dbg w self rhs)).

Definition U_Shl_usize_shl (dbg : bool) (w : Z) (self : list Z) (rhs : Z) : outcome (list Z) :=
  obind (if dbg then (Core.option_expect (if andb (Z.leb 0 rhs) (Z.leb rhs u32_max) then Some rhs else None)) else (Ret (Z.modulo rhs (2 ^ 32)))) (fun (rhs : Z) => (Shift.U_shl dbg w self rhs)).

Definition I_Shl_usize_shl (dbg : bool) (w : Z) (self : list Z) (rhs : Z) : outcome (list Z) :=
  obind (if dbg then (Core.option_expect (if andb (Z.leb 0 rhs) (Z.leb rhs u32_max) then Some rhs else None)) else (Ret (Z.modulo rhs (2 ^ 32)))) (fun (rhs : Z) => (Shift.I_shl dbg w self rhs)).

Definition U_Shl_u64_shl (dbg : bool) (w : Z) (self : list Z) (rhs : Z) : outcome (list Z) :=
  obind (if dbg then (Core.option_expect (if andb (Z.leb 0 rhs) (Z.leb rhs u32_max) then Some rhs else None)) else (Ret (Z.modulo rhs (2 ^ 32)))) (fun (rhs : Z) => (Shift.U_shl dbg w self rhs)).

Definition I_Shl_u64_shl (dbg : bool) (w : Z) (self : list Z) (rhs : Z) : outcome (list Z) :=
  obind (if dbg then (Core.option_expect (if andb (Z.leb 0 rhs) (Z.leb rhs u32_max) then Some rhs else None)) else (Ret (Z.modulo rhs (2 ^ 32)))) (fun (rhs : Z) => (Shift.I_shl dbg w self rhs)).

Definition U_Shl_u128_shl (dbg : bool) (w : Z) (self : list Z) (rhs : Z) : outcome (list Z) :=
  obind (if dbg then (Core.option_expect (if andb (Z.leb 0 rhs) (Z.leb rhs u32_max) then Some rhs else None)) else (Ret (Z.modulo rhs (2 ^ 32)))) (fun (rhs : Z) => (Shift.U_shl dbg w self rhs)).

Definition I_Shl_u128_shl (dbg : bool) (w : Z) (self : list Z) (rhs : Z) : outcome (list Z) :=
  obind (if dbg then (Core.option_expect (if andb (Z.leb 0 rhs) (Z.leb rhs u32_max) then Some rhs else None)) else (Ret (Z.modulo rhs (2 ^ 32)))) (fun (rhs : Z) => (Shift.I_shl dbg w self rhs)).

Definition U_Shr_i8_shr (dbg : bool) (w : Z) (self : list Z) (rhs : Z) : outcome (list Z) :=
  obind (if dbg then (Core.option_expect (if andb (Z.leb 0 rhs) (Z.leb rhs u32_max) then Some rhs else None)) else (Ret (Z.modulo rhs (2 ^ 32)))) (fun (rhs : Z) => (Shift.U_shr dbg w self rhs)).

Definition I_Shr_i8_shr (dbg : bool) (w : Z) (self : list Z) (rhs : Z) : outcome (list Z) :=
  obind (if dbg then (Core.option_expect (if andb (Z.leb 0 rhs) (Z.leb rhs u32_max) then Some rhs else None)) else (Ret (Z.modulo rhs (2 ^ 32)))) (fun (rhs : Z) => (Shift.I_shr dbg w self rhs)).

Definition U_Shr_i16_shr (dbg : bool) (w : Z) (self : list Z) (rhs : Z) : outcome (list Z) :=
  obind (if dbg then (Core.option_expect (if andb (Z.leb 0 rhs) (Z.leb rhs u32_max) then Some rhs else None)) else (Ret (Z.modulo rhs (2 ^ 32)))) (fun (rhs : Z) => (Shift.U_shr dbg w self rhs)).

Definition I_Shr_i16_shr (dbg : bool) (w : Z) (self : list Z) (rhs : Z) : outcome (list Z) :=
  obind (if dbg then (Core.option_expect (if andb (Z.leb 0 rhs) (Z.leb rhs u32_max) then Some rhs else None)) else (Ret (Z.modulo rhs (2 ^ 32)))) (fun (rhs : Z) => (Shift.I_shr dbg w self rhs)).

Definition U_Shr_i32_shr (dbg : bool) (w : Z) (self : list Z) (rhs : Z) : outcome (list Z) :=
  obind (if dbg then (Core.option_expect (if andb (Z.leb 0 rhs) (Z.leb rhs u32_max) then Some rhs else None)) else (Ret (Z.modulo rhs (2 ^ 32)))) (fun (rhs : Z) => (Shift.U_shr dbg w self rhs)).

Definition I_Shr_i32_shr (dbg : bool) (w : Z) (self : list Z) (rhs : Z) : outcome (list Z) :=
  obind (if dbg then (Core.option_expect (if andb (Z.leb 0 rhs) (Z.leb rhs u32_max) then Some rhs else None)) else (Ret (Z.modulo rhs (2 ^ 32)))) (fun (rhs : Z) => (Shift.I_shr dbg w self rhs)).

Definition U_Shr_isize_shr (dbg : bool) (w : Z) (self : list Z) (rhs : Z) : outcome (list Z) :=
  obind (if dbg then (Core.option_expect (if andb (Z.leb 0 rhs) (Z.leb rhs u32_max) then Some rhs else None)) else (Ret (Z.modulo rhs (2 ^ 32)))) (fun (rhs : Z) => (Shift.U_shr dbg w self rhs)).

Definition I_Shr_isize_shr (dbg : bool) (w : Z) (self : list Z) (rhs : Z) : outcome (list Z) :=
  obind (if dbg then (Core.option_expect (if andb (Z.leb 0 rhs) (Z.leb rhs u32_max) then Some rhs else None)) else (Ret (Z.modulo rhs (2 ^ 32)))) (fun (rhs : Z) => (Shift.I_shr dbg w self rhs)).

Definition U_Shr_i64_shr (dbg : bool) (w : Z) (self : list Z) (rhs : Z) : outcome (list Z) :=
  obind (if dbg then (Core.option_expect (if andb (Z.leb 0 rhs) (Z.leb rhs u32_max) then Some rhs else None)) else (Ret (Z.modulo rhs (2 ^ 32)))) (fun (rhs : Z) => (Shift.U_shr dbg w self rhs)).

Definition I_Shr_i64_shr (dbg : bool) (w : Z) (self : list Z) (rhs : Z) : outcome (list Z) :=
  obind (if dbg then (Core.option_expect (if andb (Z.leb 0 rhs) (Z.leb rhs u32_max) then Some rhs else None)) else (Ret (Z.modulo rhs (2 ^ 32)))) (fun (rhs : Z) => (Shift.I_shr dbg w self rhs)).

Definition U_Shr_i128_shr (dbg : bool) (w : Z) (self : list Z) (rhs : Z) : outcome (list Z) :=
  obind (if dbg then (Core.option_expect (if andb (Z.leb 0 rhs) (Z.leb rhs u32_max) then Some rhs else None)) else (Ret (Z.modulo rhs (2 ^ 32)))) (fun (rhs : Z) => (Shift.U_shr dbg w self rhs)).

Definition I_Shr_i128_shr (dbg : bool) (w : Z) (self : list Z) (rhs : Z) : outcome (list Z) :=
  obind (if dbg then (Core.option_expect (if andb (Z.leb 0 rhs) (Z.leb rhs u32_max) then Some rhs else None)) else (Ret (Z.modulo rhs (2 ^ 32)))) (fun (rhs : Z) => (Shift.I_shr dbg w self rhs)).

Definition U_Shr_usize_shr (dbg : bool) (w : Z) (self : list Z) (rhs : Z) : outcome (list Z) :=
  obind (if dbg then (Core.option_expect (if andb (Z.leb 0 rhs) (Z.leb rhs u32_max) then Some rhs else None)) else (Ret (Z.modulo rhs (2 ^ 32)))) (fun (rhs : Z) => (Shift.U_shr dbg w self rhs)).

Definition I_Shr_usize_shr (dbg : bool) (w : Z) (self : list Z) (rhs : Z) : outcome (list Z) :=
  obind (if dbg then (Core.option_expect (if andb (Z.leb 0 rhs) (Z.leb rhs u32_max) then Some rhs else None)) else (Ret (Z.modulo rhs (2 ^ 32)))) (fun (rhs : Z) => (Shift.I_shr dbg w self rhs)).

Definition U_Shr_u64_shr (dbg : bool) (w : Z) (self : list Z) (rhs : Z) : outcome (list Z) :=
  obind (if dbg then (Core.option_expect (if andb (Z.leb 0 rhs) (Z.leb rhs u32_max) then Some rhs else None)) else (Ret (Z.modulo rhs (2 ^ 32)))) (fun (rhs : Z) => (Shift.U_shr dbg w self rhs)).

Definition I_Shr_u64_shr (dbg : bool) (w : Z) (self : list Z) (rhs : Z) : outcome (list Z) :=
  obind (if dbg then (Core.option_expect (if andb (Z.leb 0 rhs) (Z.leb rhs u32_max) then Some rhs else None)) else (Ret (Z.modulo rhs (2 ^ 32)))) (fun (rhs : Z) => (Shift.I_shr dbg w self rhs)).

Definition U_Shr_u128_shr (dbg : bool) (w : Z) (self : list Z) (rhs : Z) : outcome (list Z) :=
  obind (if dbg then (Core.option_expect (if andb (Z.leb 0 rhs) (Z.leb rhs u32_max) then Some rhs else None)) else (Ret (Z.modulo rhs (2 ^ 32)))) (fun (rhs : Z) => (Shift.U_shr dbg w self rhs)).

Definition I_Shr_u128_shr (dbg : bool) (w : Z) (self : list Z) (rhs : Z) : outcome (list Z) :=
  obind (if dbg then (Core.option_expect (if andb (Z.leb 0 rhs) (Z.leb rhs u32_max) then Some rhs else None)) else (Ret (Z.modulo rhs (2 ^ 32)))) (fun (rhs : Z) => (Shift.I_shr dbg w self rhs)).

(* ---- src/int/ops.rs: the impls produced by all_shift_impls!, assign_op_impl!, shift_assign_ops!, op_ref_impl!, shift_self_impl! inside impls! ---- *)
Definition U_Shl_BUint_shl (dbg : bool) (w : Z) (self : list Z) (rhs : list Z) : outcome (list Z) :=
  obind (Convert.U_try_to_prim dbg 32 false w rhs) (fun (r1 : Convert.result (Z)) => (obind (match r1 with Convert.Ok x => Ret x | Convert.Err => Panic end) (fun (rhs : Z) => (Shift.U_shl dbg w self rhs)))).

Definition U_Shl_BUint_vr_shl (dbg : bool) (w : Z) (self : list Z) (rhs : list Z) : outcome (list Z) :=
  U_Shl_BUint_shl dbg w self rhs.

Definition U_Shl_BUint_rr_shl (dbg : bool) (w : Z) (self : list Z) (rhs : list Z) : outcome (list Z) :=
  U_Shl_BUint_shl dbg w self rhs.

Definition U_Shl_BUint_rv_shl (dbg : bool) (w : Z) (self : list Z) (rhs : list Z) : outcome (list Z) :=
  U_Shl_BUint_shl dbg w self rhs.

Definition U_ShlAssign_BUint_shl_assign (dbg : bool) (w : Z) (self : list Z) (rhs : list Z) : outcome (list Z) :=
  U_Shl_BUint_shl dbg w self rhs.

Definition U_ShlAssign_BUint_ref_shl_assign (dbg : bool) (w : Z) (self : list Z) (rhs : list Z) : outcome (list Z) :=
  U_ShlAssign_BUint_shl_assign dbg w self rhs.

Definition U_Shr_BUint_shr (dbg : bool) (w : Z) (self : list Z) (rhs : list Z) : outcome (list Z) :=
  obind (Convert.U_try_to_prim dbg 32 false w rhs) (fun (r1 : Convert.result (Z)) => (obind (match r1 with Convert.Ok x => Ret x | Convert.Err => Panic end) (fun (rhs : Z) => (Shift.U_shr dbg w self rhs)))).

Definition U_Shr_BUint_vr_shr (dbg : bool) (w : Z) (self : list Z) (rhs : list Z) : outcome (list Z) :=
  U_Shr_BUint_shr dbg w self rhs.

Definition U_Shr_BUint_rr_shr (dbg : bool) (w : Z) (self : list Z) (rhs : list Z) : outcome (list Z) :=
  U_Shr_BUint_shr dbg w self rhs.

Definition U_Shr_BUint_rv_shr (dbg : bool) (w : Z) (self : list Z) (rhs : list Z) : outcome (list Z) :=
  U_Shr_BUint_shr dbg w self rhs.

Definition U_ShrAssign_BUint_shr_assign (dbg : bool) (w : Z) (self : list Z) (rhs : list Z) : outcome (list Z) :=
  U_Shr_BUint_shr dbg w self rhs.

Definition U_ShrAssign_BUint_ref_shr_assign (dbg : bool) (w : Z) (self : list Z) (rhs : list Z) : outcome (list Z) :=
  U_ShrAssign_BUint_shr_assign dbg w self rhs.

Definition U_Shl_BInt_shl (dbg : bool) (w : Z) (self : list Z) (rhs : list Z) : outcome (list Z) :=
  obind (Convert.I_try_to_uprim dbg 32 w rhs) (fun (r1 : Convert.result (Z)) => (obind (match r1 with Convert.Ok x => Ret x | Convert.Err => Panic end) (fun (rhs : Z) => (Shift.U_shl dbg w self rhs)))).

Definition U_Shl_BInt_vr_shl (dbg : bool) (w : Z) (self : list Z) (rhs : list Z) : outcome (list Z) :=
  U_Shl_BInt_shl dbg w self rhs.

Definition U_Shl_BInt_rr_shl (dbg : bool) (w : Z) (self : list Z) (rhs : list Z) : outcome (list Z) :=
  U_Shl_BInt_shl dbg w self rhs.

Definition U_Shl_BInt_rv_shl (dbg : bool) (w : Z) (self : list Z) (rhs : list Z) : outcome (list Z) :=
  U_Shl_BInt_shl dbg w self rhs.

Definition U_ShlAssign_BInt_shl_assign (dbg : bool) (w : Z) (self : list Z) (rhs : list Z) : outcome (list Z) :=
  U_Shl_BInt_shl dbg w self rhs.

Definition U_ShlAssign_BInt_ref_shl_assign (dbg : bool) (w : Z) (self : list Z) (rhs : list Z) : outcome (list Z) :=
  U_ShlAssign_BInt_shl_assign dbg w self rhs.

Definition U_Shr_BInt_shr (dbg : bool) (w : Z) (self : list Z) (rhs : list Z) : outcome (list Z) :=
  obind (Convert.I_try_to_uprim dbg 32 w rhs) (fun (r1 : Convert.result (Z)) => (obind (match r1 with Convert.Ok x => Ret x | Convert.Err => Panic end) (fun (rhs : Z) => (Shift.U_shr dbg w self rhs)))).

Definition U_Shr_BInt_vr_shr (dbg : bool) (w : Z) (self : list Z) (rhs : list Z) : outcome (list Z) :=
  U_Shr_BInt_shr dbg w self rhs.

Definition U_Shr_BInt_rr_shr (dbg : bool) (w : Z) (self : list Z) (rhs : list Z) : outcome (list Z) :=
  U_Shr_BInt_shr dbg w self rhs.

Definition U_Shr_BInt_rv_shr (dbg : bool) (w : Z) (self : list Z) (rhs : list Z) : outcome (list Z) :=
  U_Shr_BInt_shr dbg w self rhs.

Definition U_ShrAssign_BInt_shr_assign (dbg : bool) (w : Z) (self : list Z) (rhs : list Z) : outcome (list Z) :=
  U_Shr_BInt_shr dbg w self rhs.

Definition U_ShrAssign_BInt_ref_shr_assign (dbg : bool) (w : Z) (self : list Z) (rhs : list Z) : outcome (list Z) :=
  U_ShrAssign_BInt_shr_assign dbg w self rhs.

Definition U_AddAssign_add_assign (dbg : bool) (w : Z) (self : list Z) (rhs : list Z) : outcome (list Z) :=
  U_Add_add dbg w self rhs.

Definition U_AddAssign_ref_add_assign (dbg : bool) (w : Z) (self : list Z) (rhs : list Z) : outcome (list Z) :=
  U_AddAssign_add_assign dbg w self rhs.

Definition U_Add_vr_add (dbg : bool) (w : Z) (self : list Z) (rhs : list Z) : outcome (list Z) :=
  U_Add_add dbg w self rhs.

Definition U_Add_rr_add (dbg : bool) (w : Z) (self : list Z) (rhs : list Z) : outcome (list Z) :=
  U_Add_add dbg w self rhs.

Definition U_Add_rv_add (dbg : bool) (w : Z) (self : list Z) (rhs : list Z) : outcome (list Z) :=
  U_Add_add dbg w self rhs.

Definition U_BitAndAssign_bitand_assign (w : Z) (self : list Z) (rhs : list Z) : list Z :=
  let self_new := (U_BitAnd_bitand w self rhs) in self_new.

Definition U_BitAndAssign_ref_bitand_assign (w : Z) (self : list Z) (rhs : list Z) : list Z :=
  let self_new := (U_BitAndAssign_bitand_assign w self rhs) in self_new.

Definition U_BitAnd_vr_bitand (w : Z) (self : list Z) (rhs : list Z) : list Z :=
  U_BitAnd_bitand w self rhs.

Definition U_BitAnd_rr_bitand (w : Z) (self : list Z) (rhs : list Z) : list Z :=
  U_BitAnd_bitand w self rhs.

Definition U_BitAnd_rv_bitand (w : Z) (self : list Z) (rhs : list Z) : list Z :=
  U_BitAnd_bitand w self rhs.

Definition U_BitOrAssign_bitor_assign (w : Z) (self : list Z) (rhs : list Z) : list Z :=
  let self_new := (U_BitOr_bitor w self rhs) in self_new.

Definition U_BitOrAssign_ref_bitor_assign (w : Z) (self : list Z) (rhs : list Z) : list Z :=
  let self_new := (U_BitOrAssign_bitor_assign w self rhs) in self_new.

Definition U_BitOr_vr_bitor (w : Z) (self : list Z) (rhs : list Z) : list Z :=
  U_BitOr_bitor w self rhs.

Definition U_BitOr_rr_bitor (w : Z) (self : list Z) (rhs : list Z) : list Z :=
  U_BitOr_bitor w self rhs.

Definition U_BitOr_rv_bitor (w : Z) (self : list Z) (rhs : list Z) : list Z :=
  U_BitOr_bitor w self rhs.

Definition U_BitXorAssign_bitxor_assign (w : Z) (self : list Z) (rhs : list Z) : list Z :=
  let self_new := (U_BitXor_bitxor w self rhs) in self_new.

Definition U_BitXorAssign_ref_bitxor_assign (w : Z) (self : list Z) (rhs : list Z) : list Z :=
  let self_new := (U_BitXorAssign_bitxor_assign w self rhs) in self_new.

Definition U_BitXor_vr_bitxor (w : Z) (self : list Z) (rhs : list Z) : list Z :=
  U_BitXor_bitxor w self rhs.

Definition U_BitXor_rr_bitxor (w : Z) (self : list Z) (rhs : list Z) : list Z :=
  U_BitXor_bitxor w self rhs.

Definition U_BitXor_rv_bitxor (w : Z) (self : list Z) (rhs : list Z) : list Z :=
  U_BitXor_bitxor w self rhs.

Definition U_DivAssign_div_assign (w : Z) (self : list Z) (rhs : list Z) : outcome (list Z) :=
  U_Div_div w self rhs.

Definition U_DivAssign_ref_div_assign (w : Z) (self : list Z) (rhs : list Z) : outcome (list Z) :=
  U_DivAssign_div_assign w self rhs.

Definition U_Div_vr_div (w : Z) (self : list Z) (rhs : list Z) : outcome (list Z) :=
  U_Div_div w self rhs.

Definition U_Div_rr_div (w : Z) (self : list Z) (rhs : list Z) : outcome (list Z) :=
  U_Div_div w self rhs.

Definition U_Div_rv_div (w : Z) (self : list Z) (rhs : list Z) : outcome (list Z) :=
  U_Div_div w self rhs.

Definition U_MulAssign_mul_assign (dbg : bool) (w : Z) (self : list Z) (rhs : list Z) : outcome (list Z) :=
  U_Mul_mul dbg w self rhs.

Definition U_MulAssign_ref_mul_assign (dbg : bool) (w : Z) (self : list Z) (rhs : list Z) : outcome (list Z) :=
  U_MulAssign_mul_assign dbg w self rhs.

Definition U_Mul_vr_mul (dbg : bool) (w : Z) (self : list Z) (rhs : list Z) : outcome (list Z) :=
  U_Mul_mul dbg w self rhs.

Definition U_Mul_rr_mul (dbg : bool) (w : Z) (self : list Z) (rhs : list Z) : outcome (list Z) :=
  U_Mul_mul dbg w self rhs.

Definition U_Mul_rv_mul (dbg : bool) (w : Z) (self : list Z) (rhs : list Z) : outcome (list Z) :=
  U_Mul_mul dbg w self rhs.

Definition U_RemAssign_rem_assign (w : Z) (self : list Z) (rhs : list Z) : outcome (list Z) :=
  U_Rem_rem w self rhs.

Definition U_RemAssign_ref_rem_assign (w : Z) (self : list Z) (rhs : list Z) : outcome (list Z) :=
  U_RemAssign_rem_assign w self rhs.

Definition U_Rem_vr_rem (w : Z) (self : list Z) (rhs : list Z) : outcome (list Z) :=
  U_Rem_rem w self rhs.

Definition U_Rem_rr_rem (w : Z) (self : list Z) (rhs : list Z) : outcome (list Z) :=
  U_Rem_rem w self rhs.

Definition U_Rem_rv_rem (w : Z) (self : list Z) (rhs : list Z) : outcome (list Z) :=
  U_Rem_rem w self rhs.

Definition U_ShlAssign_u8_shl_assign (dbg : bool) (w : Z) (self : list Z) (rhs : Z) : outcome (list Z) :=
  U_Shl_u8_shl dbg w self rhs.

Definition U_ShlAssign_u8_ref_shl_assign (dbg : bool) (w : Z) (self : list Z) (rhs : Z) : outcome (list Z) :=
  U_ShlAssign_u8_shl_assign dbg w self rhs.

Definition U_Shl_u8_vr_shl (dbg : bool) (w : Z) (self : list Z) (rhs : Z) : outcome (list Z) :=
  U_Shl_u8_shl dbg w self rhs.

Definition U_Shl_u8_rr_shl (dbg : bool) (w : Z) (self : list Z) (rhs : Z) : outcome (list Z) :=
  U_Shl_u8_shl dbg w self rhs.

Definition U_Shl_u8_rv_shl (dbg : bool) (w : Z) (self : list Z) (rhs : Z) : outcome (list Z) :=
  U_Shl_u8_shl dbg w self rhs.

Definition U_ShlAssign_u16_shl_assign (dbg : bool) (w : Z) (self : list Z) (rhs : Z) : outcome (list Z) :=
  U_Shl_u16_shl dbg w self rhs.

Definition U_ShlAssign_u16_ref_shl_assign (dbg : bool) (w : Z) (self : list Z) (rhs : Z) : outcome (list Z) :=
  U_ShlAssign_u16_shl_assign dbg w self rhs.

Definition U_Shl_u16_vr_shl (dbg : bool) (w : Z) (self : list Z) (rhs : Z) : outcome (list Z) :=
  U_Shl_u16_shl dbg w self rhs.

Definition U_Shl_u16_rr_shl (dbg : bool) (w : Z) (self : list Z) (rhs : Z) : outcome (list Z) :=
  U_Shl_u16_shl dbg w self rhs.

Definition U_Shl_u16_rv_shl (dbg : bool) (w : Z) (self : list Z) (rhs : Z) : outcome (list Z) :=
  U_Shl_u16_shl dbg w self rhs.

Definition U_ShlAssign_u32_shl_assign (dbg : bool) (w : Z) (self : list Z) (rhs : Z) : outcome (list Z) :=
  U_Shl_ExpType_shl dbg w self rhs.

Definition U_ShlAssign_u32_ref_shl_assign (dbg : bool) (w : Z) (self : list Z) (rhs : Z) : outcome (list Z) :=
  U_ShlAssign_u32_shl_assign dbg w self rhs.

Definition U_Shl_u32_vr_shl (dbg : bool) (w : Z) (self : list Z) (rhs : Z) : outcome (list Z) :=
  U_Shl_ExpType_shl dbg w self rhs.

Definition U_Shl_u32_rr_shl (dbg : bool) (w : Z) (self : list Z) (rhs : Z) : outcome (list Z) :=
  U_Shl_ExpType_shl dbg w self rhs.

Definition U_Shl_u32_rv_shl (dbg : bool) (w : Z) (self : list Z) (rhs : Z) : outcome (list Z) :=
  U_Shl_ExpType_shl dbg w self rhs.

Definition U_ShlAssign_u64_shl_assign (dbg : bool) (w : Z) (self : list Z) (rhs : Z) : outcome (list Z) :=
  U_Shl_u64_shl dbg w self rhs.

Definition U_ShlAssign_u64_ref_shl_assign (dbg : bool) (w : Z) (self : list Z) (rhs : Z) : outcome (list Z) :=
  U_ShlAssign_u64_shl_assign dbg w self rhs.

Definition U_Shl_u64_vr_shl (dbg : bool) (w : Z) (self : list Z) (rhs : Z) : outcome (list Z) :=
  U_Shl_u64_shl dbg w self rhs.

Definition U_Shl_u64_rr_shl (dbg : bool) (w : Z) (self : list Z) (rhs : Z) : outcome (list Z) :=
  U_Shl_u64_shl dbg w self rhs.

Definition U_Shl_u64_rv_shl (dbg : bool) (w : Z) (self : list Z) (rhs : Z) : outcome (list Z) :=
  U_Shl_u64_shl dbg w self rhs.

Definition U_ShlAssign_u128_shl_assign (dbg : bool) (w : Z) (self : list Z) (rhs : Z) : outcome (list Z) :=
  U_Shl_u128_shl dbg w self rhs.

Definition U_ShlAssign_u128_ref_shl_assign (dbg : bool) (w : Z) (self : list Z) (rhs : Z) : outcome (list Z) :=
  U_ShlAssign_u128_shl_assign dbg w self rhs.

Definition U_Shl_u128_vr_shl (dbg : bool) (w : Z) (self : list Z) (rhs : Z) : outcome (list Z) :=
  U_Shl_u128_shl dbg w self rhs.

Definition U_Shl_u128_rr_shl (dbg : bool) (w : Z) (self : list Z) (rhs : Z) : outcome (list Z) :=
  U_Shl_u128_shl dbg w self rhs.

Definition U_Shl_u128_rv_shl (dbg : bool) (w : Z) (self : list Z) (rhs : Z) : outcome (list Z) :=
  U_Shl_u128_shl dbg w self rhs.

Definition U_ShlAssign_usize_shl_assign (dbg : bool) (w : Z) (self : list Z) (rhs : Z) : outcome (list Z) :=
  U_Shl_usize_shl dbg w self rhs.

Definition U_ShlAssign_usize_ref_shl_assign (dbg : bool) (w : Z) (self : list Z) (rhs : Z) : outcome (list Z) :=
  U_ShlAssign_usize_shl_assign dbg w self rhs.

Definition U_Shl_usize_vr_shl (dbg : bool) (w : Z) (self : list Z) (rhs : Z) : outcome (list Z) :=
  U_Shl_usize_shl dbg w self rhs.

Definition U_Shl_usize_rr_shl (dbg : bool) (w : Z) (self : list Z) (rhs : Z) : outcome (list Z) :=
  U_Shl_usize_shl dbg w self rhs.

Definition U_Shl_usize_rv_shl (dbg : bool) (w : Z) (self : list Z) (rhs : Z) : outcome (list Z) :=
  U_Shl_usize_shl dbg w self rhs.

Definition U_ShlAssign_i8_shl_assign (dbg : bool) (w : Z) (self : list Z) (rhs : Z) : outcome (list Z) :=
  U_Shl_i8_shl dbg w self rhs.

Definition U_ShlAssign_i8_ref_shl_assign (dbg : bool) (w : Z) (self : list Z) (rhs : Z) : outcome (list Z) :=
  U_ShlAssign_i8_shl_assign dbg w self rhs.

Definition U_Shl_i8_vr_shl (dbg : bool) (w : Z) (self : list Z) (rhs : Z) : outcome (list Z) :=
  U_Shl_i8_shl dbg w self rhs.

Definition U_Shl_i8_rr_shl (dbg : bool) (w : Z) (self : list Z) (rhs : Z) : outcome (list Z) :=
  U_Shl_i8_shl dbg w self rhs.

Definition U_Shl_i8_rv_shl (dbg : bool) (w : Z) (self : list Z) (rhs : Z) : outcome (list Z) :=
  U_Shl_i8_shl dbg w self rhs.

Definition U_ShlAssign_i16_shl_assign (dbg : bool) (w : Z) (self : list Z) (rhs : Z) : outcome (list Z) :=
  U_Shl_i16_shl dbg w self rhs.

Definition U_ShlAssign_i16_ref_shl_assign (dbg : bool) (w : Z) (self : list Z) (rhs : Z) : outcome (list Z) :=
  U_ShlAssign_i16_shl_assign dbg w self rhs.

Definition U_Shl_i16_vr_shl (dbg : bool) (w : Z) (self : list Z) (rhs : Z) : outcome (list Z) :=
  U_Shl_i16_shl dbg w self rhs.

Definition U_Shl_i16_rr_shl (dbg : bool) (w : Z) (self : list Z) (rhs : Z) : outcome (list Z) :=
  U_Shl_i16_shl dbg w self rhs.

Definition U_Shl_i16_rv_shl (dbg : bool) (w : Z) (self : list Z) (rhs : Z) : outcome (list Z) :=
  U_Shl_i16_shl dbg w self rhs.

Definition U_ShlAssign_i32_shl_assign (dbg : bool) (w : Z) (self : list Z) (rhs : Z) : outcome (list Z) :=
  U_Shl_i32_shl dbg w self rhs.

Definition U_ShlAssign_i32_ref_shl_assign (dbg : bool) (w : Z) (self : list Z) (rhs : Z) : outcome (list Z) :=
  U_ShlAssign_i32_shl_assign dbg w self rhs.

Definition U_Shl_i32_vr_shl (dbg : bool) (w : Z) (self : list Z) (rhs : Z) : outcome (list Z) :=
  U_Shl_i32_shl dbg w self rhs.

Definition U_Shl_i32_rr_shl (dbg : bool) (w : Z) (self : list Z) (rhs : Z) : outcome (list Z) :=
  U_Shl_i32_shl dbg w self rhs.

Definition U_Shl_i32_rv_shl (dbg : bool) (w : Z) (self : list Z) (rhs : Z) : outcome (list Z) :=
  U_Shl_i32_shl dbg w self rhs.

Definition U_ShlAssign_i64_shl_assign (dbg : bool) (w : Z) (self : list Z) (rhs : Z) : outcome (list Z) :=
  U_Shl_i64_shl dbg w self rhs.

Definition U_ShlAssign_i64_ref_shl_assign (dbg : bool) (w : Z) (self : list Z) (rhs : Z) : outcome (list Z) :=
  U_ShlAssign_i64_shl_assign dbg w self rhs.

Definition U_Shl_i64_vr_shl (dbg : bool) (w : Z) (self : list Z) (rhs : Z) : outcome (list Z) :=
  U_Shl_i64_shl dbg w self rhs.

Definition U_Shl_i64_rr_shl (dbg : bool) (w : Z) (self : list Z) (rhs : Z) : outcome (list Z) :=
  U_Shl_i64_shl dbg w self rhs.

Definition U_Shl_i64_rv_shl (dbg : bool) (w : Z) (self : list Z) (rhs : Z) : outcome (list Z) :=
  U_Shl_i64_shl dbg w self rhs.

Definition U_ShlAssign_i128_shl_assign (dbg : bool) (w : Z) (self : list Z) (rhs : Z) : outcome (list Z) :=
  U_Shl_i128_shl dbg w self rhs.

Definition U_ShlAssign_i128_ref_shl_assign (dbg : bool) (w : Z) (self : list Z) (rhs : Z) : outcome (list Z) :=
  U_ShlAssign_i128_shl_assign dbg w self rhs.

Definition U_Shl_i128_vr_shl (dbg : bool) (w : Z) (self : list Z) (rhs : Z) : outcome (list Z) :=
  U_Shl_i128_shl dbg w self rhs.

Definition U_Shl_i128_rr_shl (dbg : bool) (w : Z) (self : list Z) (rhs : Z) : outcome (list Z) :=
  U_Shl_i128_shl dbg w self rhs.

Definition U_Shl_i128_rv_shl (dbg : bool) (w : Z) (self : list Z) (rhs : Z) : outcome (list Z) :=
  U_Shl_i128_shl dbg w self rhs.

Definition U_ShlAssign_isize_shl_assign (dbg : bool) (w : Z) (self : list Z) (rhs : Z) : outcome (list Z) :=
  U_Shl_isize_shl dbg w self rhs.

Definition U_ShlAssign_isize_ref_shl_assign (dbg : bool) (w : Z) (self : list Z) (rhs : Z) : outcome (list Z) :=
  U_ShlAssign_isize_shl_assign dbg w self rhs.

Definition U_Shl_isize_vr_shl (dbg : bool) (w : Z) (self : list Z) (rhs : Z) : outcome (list Z) :=
  U_Shl_isize_shl dbg w self rhs.

Definition U_Shl_isize_rr_shl (dbg : bool) (w : Z) (self : list Z) (rhs : Z) : outcome (list Z) :=
  U_Shl_isize_shl dbg w self rhs.

Definition U_Shl_isize_rv_shl (dbg : bool) (w : Z) (self : list Z) (rhs : Z) : outcome (list Z) :=
  U_Shl_isize_shl dbg w self rhs.

Definition U_ShrAssign_u8_shr_assign (dbg : bool) (w : Z) (self : list Z) (rhs : Z) : outcome (list Z) :=
  U_Shr_u8_shr dbg w self rhs.

Definition U_ShrAssign_u8_ref_shr_assign (dbg : bool) (w : Z) (self : list Z) (rhs : Z) : outcome (list Z) :=
  U_ShrAssign_u8_shr_assign dbg w self rhs.

Definition U_Shr_u8_vr_shr (dbg : bool) (w : Z) (self : list Z) (rhs : Z) : outcome (list Z) :=
  U_Shr_u8_shr dbg w self rhs.

Definition U_Shr_u8_rr_shr (dbg : bool) (w : Z) (self : list Z) (rhs : Z) : outcome (list Z) :=
  U_Shr_u8_shr dbg w self rhs.

Definition U_Shr_u8_rv_shr (dbg : bool) (w : Z) (self : list Z) (rhs : Z) : outcome (list Z) :=
  U_Shr_u8_shr dbg w self rhs.

Definition U_ShrAssign_u16_shr_assign (dbg : bool) (w : Z) (self : list Z) (rhs : Z) : outcome (list Z) :=
  U_Shr_u16_shr dbg w self rhs.

Definition U_ShrAssign_u16_ref_shr_assign (dbg : bool) (w : Z) (self : list Z) (rhs : Z) : outcome (list Z) :=
  U_ShrAssign_u16_shr_assign dbg w self rhs.

Definition U_Shr_u16_vr_shr (dbg : bool) (w : Z) (self : list Z) (rhs : Z) : outcome (list Z) :=
  U_Shr_u16_shr dbg w self rhs.

Definition U_Shr_u16_rr_shr (dbg : bool) (w : Z) (self : list Z) (rhs : Z) : outcome (list Z) :=
  U_Shr_u16_shr dbg w self rhs.

Definition U_Shr_u16_rv_shr (dbg : bool) (w : Z) (self : list Z) (rhs : Z) : outcome (list Z) :=
  U_Shr_u16_shr dbg w self rhs.

Definition U_ShrAssign_u32_shr_assign (dbg : bool) (w : Z) (self : list Z) (rhs : Z) : outcome (list Z) :=
  U_Shr_ExpType_shr dbg w self rhs.

Definition U_ShrAssign_u32_ref_shr_assign (dbg : bool) (w : Z) (self : list Z) (rhs : Z) : outcome (list Z) :=
  U_ShrAssign_u32_shr_assign dbg w self rhs.

Definition U_Shr_u32_vr_shr (dbg : bool) (w : Z) (self : list Z) (rhs : Z) : outcome (list Z) :=
  U_Shr_ExpType_shr dbg w self rhs.

Definition U_Shr_u32_rr_shr (dbg : bool) (w : Z) (self : list Z) (rhs : Z) : outcome (list Z) :=
  U_Shr_ExpType_shr dbg w self rhs.

Definition U_Shr_u32_rv_shr (dbg : bool) (w : Z) (self : list Z) (rhs : Z) : outcome (list Z) :=
  U_Shr_ExpType_shr dbg w self rhs.

Definition U_ShrAssign_u64_shr_assign (dbg : bool) (w : Z) (self : list Z) (rhs : Z) : outcome (list Z) :=
  U_Shr_u64_shr dbg w self rhs.

Definition U_ShrAssign_u64_ref_shr_assign (dbg : bool) (w : Z) (self : list Z) (rhs : Z) : outcome (list Z) :=
  U_ShrAssign_u64_shr_assign dbg w self rhs.

Definition U_Shr_u64_vr_shr (dbg : bool) (w : Z) (self : list Z) (rhs : Z) : outcome (list Z) :=
  U_Shr_u64_shr dbg w self rhs.

Definition U_Shr_u64_rr_shr (dbg : bool) (w : Z) (self : list Z) (rhs : Z) : outcome (list Z) :=
  U_Shr_u64_shr dbg w self rhs.

Definition U_Shr_u64_rv_shr (dbg : bool) (w : Z) (self : list Z) (rhs : Z) : outcome (list Z) :=
  U_Shr_u64_shr dbg w self rhs.

Definition U_ShrAssign_u128_shr_assign (dbg : bool) (w : Z) (self : list Z) (rhs : Z) : outcome (list Z) :=
  U_Shr_u128_shr dbg w self rhs.

Definition U_ShrAssign_u128_ref_shr_assign (dbg : bool) (w : Z) (self : list Z) (rhs : Z) : outcome (list Z) :=
  U_ShrAssign_u128_shr_assign dbg w self rhs.

Definition U_Shr_u128_vr_shr (dbg : bool) (w : Z) (self : list Z) (rhs : Z) : outcome (list Z) :=
  U_Shr_u128_shr dbg w self rhs.

Definition U_Shr_u128_rr_shr (dbg : bool) (w : Z) (self : list Z) (rhs : Z) : outcome (list Z) :=
  U_Shr_u128_shr dbg w self rhs.

Definition U_Shr_u128_rv_shr (dbg : bool) (w : Z) (self : list Z) (rhs : Z) : outcome (list Z) :=
  U_Shr_u128_shr dbg w self rhs.

Definition U_ShrAssign_usize_shr_assign (dbg : bool) (w : Z) (self : list Z) (rhs : Z) : outcome (list Z) :=
  U_Shr_usize_shr dbg w self rhs.

Definition U_ShrAssign_usize_ref_shr_assign (dbg : bool) (w : Z) (self : list Z) (rhs : Z) : outcome (list Z) :=
  U_ShrAssign_usize_shr_assign dbg w self rhs.

Definition U_Shr_usize_vr_shr (dbg : bool) (w : Z) (self : list Z) (rhs : Z) : outcome (list Z) :=
  U_Shr_usize_shr dbg w self rhs.

Definition U_Shr_usize_rr_shr (dbg : bool) (w : Z) (self : list Z) (rhs : Z) : outcome (list Z) :=
  U_Shr_usize_shr dbg w self rhs.

Definition U_Shr_usize_rv_shr (dbg : bool) (w : Z) (self : list Z) (rhs : Z) : outcome (list Z) :=
  U_Shr_usize_shr dbg w self rhs.

Definition U_ShrAssign_i8_shr_assign (dbg : bool) (w : Z) (self : list Z) (rhs : Z) : outcome (list Z) :=
  U_Shr_i8_shr dbg w self rhs.

Definition U_ShrAssign_i8_ref_shr_assign (dbg : bool) (w : Z) (self : list Z) (rhs : Z) : outcome (list Z) :=
  U_ShrAssign_i8_shr_assign dbg w self rhs.

Definition U_Shr_i8_vr_shr (dbg : bool) (w : Z) (self : list Z) (rhs : Z) : outcome (list Z) :=
  U_Shr_i8_shr dbg w self rhs.

Definition U_Shr_i8_rr_shr (dbg : bool) (w : Z) (self : list Z) (rhs : Z) : outcome (list Z) :=
  U_Shr_i8_shr dbg w self rhs.

Definition U_Shr_i8_rv_shr (dbg : bool) (w : Z) (self : list Z) (rhs : Z) : outcome (list Z) :=
  U_Shr_i8_shr dbg w self rhs.

Definition U_ShrAssign_i16_shr_assign (dbg : bool) (w : Z) (self : list Z) (rhs : Z) : outcome (list Z) :=
  U_Shr_i16_shr dbg w self rhs.

Definition U_ShrAssign_i16_ref_shr_assign (dbg : bool) (w : Z) (self : list Z) (rhs : Z) : outcome (list Z) :=
  U_ShrAssign_i16_shr_assign dbg w self rhs.

Definition U_Shr_i16_vr_shr (dbg : bool) (w : Z) (self : list Z) (rhs : Z) : outcome (list Z) :=
  U_Shr_i16_shr dbg w self rhs.

Definition U_Shr_i16_rr_shr (dbg : bool) (w : Z) (self : list Z) (rhs : Z) : outcome (list Z) :=
  U_Shr_i16_shr dbg w self rhs.

Definition U_Shr_i16_rv_shr (dbg : bool) (w : Z) (self : list Z) (rhs : Z) : outcome (list Z) :=
  U_Shr_i16_shr dbg w self rhs.

Definition U_ShrAssign_i32_shr_assign (dbg : bool) (w : Z) (self : list Z) (rhs : Z) : outcome (list Z) :=
  U_Shr_i32_shr dbg w self rhs.

Definition U_ShrAssign_i32_ref_shr_assign (dbg : bool) (w : Z) (self : list Z) (rhs : Z) : outcome (list Z) :=
  U_ShrAssign_i32_shr_assign dbg w self rhs.

Definition U_Shr_i32_vr_shr (dbg : bool) (w : Z) (self : list Z) (rhs : Z) : outcome (list Z) :=
  U_Shr_i32_shr dbg w self rhs.

Definition U_Shr_i32_rr_shr (dbg : bool) (w : Z) (self : list Z) (rhs : Z) : outcome (list Z) :=
  U_Shr_i32_shr dbg w self rhs.

Definition U_Shr_i32_rv_shr (dbg : bool) (w : Z) (self : list Z) (rhs : Z) : outcome (list Z) :=
  U_Shr_i32_shr dbg w self rhs.

Definition U_ShrAssign_i64_shr_assign (dbg : bool) (w : Z) (self : list Z) (rhs : Z) : outcome (list Z) :=
  U_Shr_i64_shr dbg w self rhs.

Definition U_ShrAssign_i64_ref_shr_assign (dbg : bool) (w : Z) (self : list Z) (rhs : Z) : outcome (list Z) :=
  U_ShrAssign_i64_shr_assign dbg w self rhs.

Definition U_Shr_i64_vr_shr (dbg : bool) (w : Z) (self : list Z) (rhs : Z) : outcome (list Z) :=
  U_Shr_i64_shr dbg w self rhs.

Definition U_Shr_i64_rr_shr (dbg : bool) (w : Z) (self : list Z) (rhs : Z) : outcome (list Z) :=
  U_Shr_i64_shr dbg w self rhs.

Definition U_Shr_i64_rv_shr (dbg : bool) (w : Z) (self : list Z) (rhs : Z) : outcome (list Z) :=
  U_Shr_i64_shr dbg w self rhs.

Definition U_ShrAssign_i128_shr_assign (dbg : bool) (w : Z) (self : list Z) (rhs : Z) : outcome (list Z) :=
  U_Shr_i128_shr dbg w self rhs.

Definition U_ShrAssign_i128_ref_shr_assign (dbg : bool) (w : Z) (self : list Z) (rhs : Z) : outcome (list Z) :=
  U_ShrAssign_i128_shr_assign dbg w self rhs.

Definition U_Shr_i128_vr_shr (dbg : bool) (w : Z) (self : list Z) (rhs : Z) : outcome (list Z) :=
  U_Shr_i128_shr dbg w self rhs.

Definition U_Shr_i128_rr_shr (dbg : bool) (w : Z) (self : list Z) (rhs : Z) : outcome (list Z) :=
  U_Shr_i128_shr dbg w self rhs.

Definition U_Shr_i128_rv_shr (dbg : bool) (w : Z) (self : list Z) (rhs : Z) : outcome (list Z) :=
  U_Shr_i128_shr dbg w self rhs.

Definition U_ShrAssign_isize_shr_assign (dbg : bool) (w : Z) (self : list Z) (rhs : Z) : outcome (list Z) :=
  U_Shr_isize_shr dbg w self rhs.

Definition U_ShrAssign_isize_ref_shr_assign (dbg : bool) (w : Z) (self : list Z) (rhs : Z) : outcome (list Z) :=
  U_ShrAssign_isize_shr_assign dbg w self rhs.

Definition U_Shr_isize_vr_shr (dbg : bool) (w : Z) (self : list Z) (rhs : Z) : outcome (list Z) :=
  U_Shr_isize_shr dbg w self rhs.

Definition U_Shr_isize_rr_shr (dbg : bool) (w : Z) (self : list Z) (rhs : Z) : outcome (list Z) :=
  U_Shr_isize_shr dbg w self rhs.

Definition U_Shr_isize_rv_shr (dbg : bool) (w : Z) (self : list Z) (rhs : Z) : outcome (list Z) :=
  U_Shr_isize_shr dbg w self rhs.

Definition U_SubAssign_sub_assign (dbg : bool) (w : Z) (self : list Z) (rhs : list Z) : outcome (list Z) :=
  U_Sub_sub dbg w self rhs.

Definition U_SubAssign_ref_sub_assign (dbg : bool) (w : Z) (self : list Z) (rhs : list Z) : outcome (list Z) :=
  U_SubAssign_sub_assign dbg w self rhs.

Definition U_Sub_vr_sub (dbg : bool) (w : Z) (self : list Z) (rhs : list Z) : outcome (list Z) :=
  U_Sub_sub dbg w self rhs.

Definition U_Sub_rr_sub (dbg : bool) (w : Z) (self : list Z) (rhs : list Z) : outcome (list Z) :=
  U_Sub_sub dbg w self rhs.

Definition U_Sub_rv_sub (dbg : bool) (w : Z) (self : list Z) (rhs : list Z) : outcome (list Z) :=
  U_Sub_sub dbg w self rhs.

Definition I_Shl_BUint_shl (dbg : bool) (w : Z) (self : list Z) (rhs : list Z) : outcome (list Z) :=
  obind (Convert.U_try_to_prim dbg 32 false w rhs) (fun (r1 : Convert.result (Z)) => (obind (match r1 with Convert.Ok x => Ret x | Convert.Err => Panic end) (fun (rhs : Z) => (Shift.I_shl dbg w self rhs)))).

Definition I_Shl_BUint_vr_shl (dbg : bool) (w : Z) (self : list Z) (rhs : list Z) : outcome (list Z) :=
  I_Shl_BUint_shl dbg w self rhs.

Definition I_Shl_BUint_rr_shl (dbg : bool) (w : Z) (self : list Z) (rhs : list Z) : outcome (list Z) :=
  I_Shl_BUint_shl dbg w self rhs.

Definition I_Shl_BUint_rv_shl (dbg : bool) (w : Z) (self : list Z) (rhs : list Z) : outcome (list Z) :=
  I_Shl_BUint_shl dbg w self rhs.

Definition I_ShlAssign_BUint_shl_assign (dbg : bool) (w : Z) (self : list Z) (rhs : list Z) : outcome (list Z) :=
  I_Shl_BUint_shl dbg w self rhs.

Definition I_ShlAssign_BUint_ref_shl_assign (dbg : bool) (w : Z) (self : list Z) (rhs : list Z) : outcome (list Z) :=
  I_ShlAssign_BUint_shl_assign dbg w self rhs.

Definition I_Shr_BUint_shr (dbg : bool) (w : Z) (self : list Z) (rhs : list Z) : outcome (list Z) :=
  obind (Convert.U_try_to_prim dbg 32 false w rhs) (fun (r1 : Convert.result (Z)) => (obind (match r1 with Convert.Ok x => Ret x | Convert.Err => Panic end) (fun (rhs : Z) => (Shift.I_shr dbg w self rhs)))).

Definition I_Shr_BUint_vr_shr (dbg : bool) (w : Z) (self : list Z) (rhs : list Z) : outcome (list Z) :=
  I_Shr_BUint_shr dbg w self rhs.

Definition I_Shr_BUint_rr_shr (dbg : bool) (w : Z) (self : list Z) (rhs : list Z) : outcome (list Z) :=
  I_Shr_BUint_shr dbg w self rhs.

Definition I_Shr_BUint_rv_shr (dbg : bool) (w : Z) (self : list Z) (rhs : list Z) : outcome (list Z) :=
  I_Shr_BUint_shr dbg w self rhs.

Definition I_ShrAssign_BUint_shr_assign (dbg : bool) (w : Z) (self : list Z) (rhs : list Z) : outcome (list Z) :=
  I_Shr_BUint_shr dbg w self rhs.

Definition I_ShrAssign_BUint_ref_shr_assign (dbg : bool) (w : Z) (self : list Z) (rhs : list Z) : outcome (list Z) :=
  I_ShrAssign_BUint_shr_assign dbg w self rhs.

Definition I_Shl_BInt_shl (dbg : bool) (w : Z) (self : list Z) (rhs : list Z) : outcome (list Z) :=
  obind (Convert.I_try_to_uprim dbg 32 w rhs) (fun (r1 : Convert.result (Z)) => (obind (match r1 with Convert.Ok x => Ret x | Convert.Err => Panic end) (fun (rhs : Z) => (Shift.I_shl dbg w self rhs)))).

Definition I_Shl_BInt_vr_shl (dbg : bool) (w : Z) (self : list Z) (rhs : list Z) : outcome (list Z) :=
  I_Shl_BInt_shl dbg w self rhs.

Definition I_Shl_BInt_rr_shl (dbg : bool) (w : Z) (self : list Z) (rhs : list Z) : outcome (list Z) :=
  I_Shl_BInt_shl dbg w self rhs.

Definition I_Shl_BInt_rv_shl (dbg : bool) (w : Z) (self : list Z) (rhs : list Z) : outcome (list Z) :=
  I_Shl_BInt_shl dbg w self rhs.

Definition I_ShlAssign_BInt_shl_assign (dbg : bool) (w : Z) (self : list Z) (rhs : list Z) : outcome (list Z) :=
  I_Shl_BInt_shl dbg w self rhs.

Definition I_ShlAssign_BInt_ref_shl_assign (dbg : bool) (w : Z) (self : list Z) (rhs : list Z) : outcome (list Z) :=
  I_ShlAssign_BInt_shl_assign dbg w self rhs.

Definition I_Shr_BInt_shr (dbg : bool) (w : Z) (self : list Z) (rhs : list Z) : outcome (list Z) :=
  obind (Convert.I_try_to_uprim dbg 32 w rhs) (fun (r1 : Convert.result (Z)) => (obind (match r1 with Convert.Ok x => Ret x | Convert.Err => Panic end) (fun (rhs : Z) => (Shift.I_shr dbg w self rhs)))).

Definition I_Shr_BInt_vr_shr (dbg : bool) (w : Z) (self : list Z) (rhs : list Z) : outcome (list Z) :=
  I_Shr_BInt_shr dbg w self rhs.

Definition I_Shr_BInt_rr_shr (dbg : bool) (w : Z) (self : list Z) (rhs : list Z) : outcome (list Z) :=
  I_Shr_BInt_shr dbg w self rhs.

Definition I_Shr_BInt_rv_shr (dbg : bool) (w : Z) (self : list Z) (rhs : list Z) : outcome (list Z) :=
  I_Shr_BInt_shr dbg w self rhs.

Definition I_ShrAssign_BInt_shr_assign (dbg : bool) (w : Z) (self : list Z) (rhs : list Z) : outcome (list Z) :=
  I_Shr_BInt_shr dbg w self rhs.

Definition I_ShrAssign_BInt_ref_shr_assign (dbg : bool) (w : Z) (self : list Z) (rhs : list Z) : outcome (list Z) :=
  I_ShrAssign_BInt_shr_assign dbg w self rhs.

Definition I_AddAssign_add_assign (dbg : bool) (w : Z) (self : list Z) (rhs : list Z) : outcome (list Z) :=
  I_Add_add dbg w self rhs.

Definition I_AddAssign_ref_add_assign (dbg : bool) (w : Z) (self : list Z) (rhs : list Z) : outcome (list Z) :=
  I_AddAssign_add_assign dbg w self rhs.

Definition I_Add_vr_add (dbg : bool) (w : Z) (self : list Z) (rhs : list Z) : outcome (list Z) :=
  I_Add_add dbg w self rhs.

Definition I_Add_rr_add (dbg : bool) (w : Z) (self : list Z) (rhs : list Z) : outcome (list Z) :=
  I_Add_add dbg w self rhs.

Definition I_Add_rv_add (dbg : bool) (w : Z) (self : list Z) (rhs : list Z) : outcome (list Z) :=
  I_Add_add dbg w self rhs.

Definition I_BitAndAssign_bitand_assign (w : Z) (self : list Z) (rhs : list Z) : list Z :=
  let self_new := (I_BitAnd_bitand w self rhs) in self_new.

Definition I_BitAndAssign_ref_bitand_assign (w : Z) (self : list Z) (rhs : list Z) : list Z :=
  let self_new := (I_BitAndAssign_bitand_assign w self rhs) in self_new.

Definition I_BitAnd_vr_bitand (w : Z) (self : list Z) (rhs : list Z) : list Z :=
  I_BitAnd_bitand w self rhs.

Definition I_BitAnd_rr_bitand (w : Z) (self : list Z) (rhs : list Z) : list Z :=
  I_BitAnd_bitand w self rhs.

Definition I_BitAnd_rv_bitand (w : Z) (self : list Z) (rhs : list Z) : list Z :=
  I_BitAnd_bitand w self rhs.

Definition I_BitOrAssign_bitor_assign (w : Z) (self : list Z) (rhs : list Z) : list Z :=
  let self_new := (I_BitOr_bitor w self rhs) in self_new.

Definition I_BitOrAssign_ref_bitor_assign (w : Z) (self : list Z) (rhs : list Z) : list Z :=
  let self_new := (I_BitOrAssign_bitor_assign w self rhs) in self_new.

Definition I_BitOr_vr_bitor (w : Z) (self : list Z) (rhs : list Z) : list Z :=
  I_BitOr_bitor w self rhs.

Definition I_BitOr_rr_bitor (w : Z) (self : list Z) (rhs : list Z) : list Z :=
  I_BitOr_bitor w self rhs.

Definition I_BitOr_rv_bitor (w : Z) (self : list Z) (rhs : list Z) : list Z :=
  I_BitOr_bitor w self rhs.

Definition I_BitXorAssign_bitxor_assign (w : Z) (self : list Z) (rhs : list Z) : list Z :=
  let self_new := (I_BitXor_bitxor w self rhs) in self_new.

Definition I_BitXorAssign_ref_bitxor_assign (w : Z) (self : list Z) (rhs : list Z) : list Z :=
  let self_new := (I_BitXorAssign_bitxor_assign w self rhs) in self_new.

Definition I_BitXor_vr_bitxor (w : Z) (self : list Z) (rhs : list Z) : list Z :=
  I_BitXor_bitxor w self rhs.

Definition I_BitXor_rr_bitxor (w : Z) (self : list Z) (rhs : list Z) : list Z :=
  I_BitXor_bitxor w self rhs.

Definition I_BitXor_rv_bitxor (w : Z) (self : list Z) (rhs : list Z) : list Z :=
  I_BitXor_bitxor w self rhs.

Definition I_DivAssign_div_assign (dbg : bool) (w : Z) (self : list Z) (rhs : list Z) : outcome (list Z) :=
  I_Div_div dbg w self rhs.

Definition I_DivAssign_ref_div_assign (dbg : bool) (w : Z) (self : list Z) (rhs : list Z) : outcome (list Z) :=
  I_DivAssign_div_assign dbg w self rhs.

Definition I_Div_vr_div (dbg : bool) (w : Z) (self : list Z) (rhs : list Z) : outcome (list Z) :=
  I_Div_div dbg w self rhs.

Definition I_Div_rr_div (dbg : bool) (w : Z) (self : list Z) (rhs : list Z) : outcome (list Z) :=
  I_Div_div dbg w self rhs.

Definition I_Div_rv_div (dbg : bool) (w : Z) (self : list Z) (rhs : list Z) : outcome (list Z) :=
  I_Div_div dbg w self rhs.

Definition I_MulAssign_mul_assign (dbg : bool) (w : Z) (self : list Z) (rhs : list Z) : outcome (list Z) :=
  I_Mul_mul dbg w self rhs.

Definition I_MulAssign_ref_mul_assign (dbg : bool) (w : Z) (self : list Z) (rhs : list Z) : outcome (list Z) :=
  I_MulAssign_mul_assign dbg w self rhs.

Definition I_Mul_vr_mul (dbg : bool) (w : Z) (self : list Z) (rhs : list Z) : outcome (list Z) :=
  I_Mul_mul dbg w self rhs.

Definition I_Mul_rr_mul (dbg : bool) (w : Z) (self : list Z) (rhs : list Z) : outcome (list Z) :=
  I_Mul_mul dbg w self rhs.

Definition I_Mul_rv_mul (dbg : bool) (w : Z) (self : list Z) (rhs : list Z) : outcome (list Z) :=
  I_Mul_mul dbg w self rhs.

Definition I_RemAssign_rem_assign (dbg : bool) (w : Z) (self : list Z) (rhs : list Z) : outcome (list Z) :=
  I_Rem_rem dbg w self rhs.

Definition I_RemAssign_ref_rem_assign (dbg : bool) (w : Z) (self : list Z) (rhs : list Z) : outcome (list Z) :=
  I_RemAssign_rem_assign dbg w self rhs.

Definition I_Rem_vr_rem (dbg : bool) (w : Z) (self : list Z) (rhs : list Z) : outcome (list Z) :=
  I_Rem_rem dbg w self rhs.

Definition I_Rem_rr_rem (dbg : bool) (w : Z) (self : list Z) (rhs : list Z) : outcome (list Z) :=
  I_Rem_rem dbg w self rhs.

Definition I_Rem_rv_rem (dbg : bool) (w : Z) (self : list Z) (rhs : list Z) : outcome (list Z) :=
  I_Rem_rem dbg w self rhs.

Definition I_ShlAssign_u8_shl_assign (dbg : bool) (w : Z) (self : list Z) (rhs : Z) : outcome (list Z) :=
  I_Shl_u8_shl dbg w self rhs.

Definition I_ShlAssign_u8_ref_shl_assign (dbg : bool) (w : Z) (self : list Z) (rhs : Z) : outcome (list Z) :=
  I_ShlAssign_u8_shl_assign dbg w self rhs.

Definition I_Shl_u8_vr_shl (dbg : bool) (w : Z) (self : list Z) (rhs : Z) : outcome (list Z) :=
  I_Shl_u8_shl dbg w self rhs.

Definition I_Shl_u8_rr_shl (dbg : bool) (w : Z) (self : list Z) (rhs : Z) : outcome (list Z) :=
  I_Shl_u8_shl dbg w self rhs.

Definition I_Shl_u8_rv_shl (dbg : bool) (w : Z) (self : list Z) (rhs : Z) : outcome (list Z) :=
  I_Shl_u8_shl dbg w self rhs.

Definition I_ShlAssign_u16_shl_assign (dbg : bool) (w : Z) (self : list Z) (rhs : Z) : outcome (list Z) :=
  I_Shl_u16_shl dbg w self rhs.

Definition I_ShlAssign_u16_ref_shl_assign (dbg : bool) (w : Z) (self : list Z) (rhs : Z) : outcome (list Z) :=
  I_ShlAssign_u16_shl_assign dbg w self rhs.

Definition I_Shl_u16_vr_shl (dbg : bool) (w : Z) (self : list Z) (rhs : Z) : outcome (list Z) :=
  I_Shl_u16_shl dbg w self rhs.

Definition I_Shl_u16_rr_shl (dbg : bool) (w : Z) (self : list Z) (rhs : Z) : outcome (list Z) :=
  I_Shl_u16_shl dbg w self rhs.

Definition I_Shl_u16_rv_shl (dbg : bool) (w : Z) (self : list Z) (rhs : Z) : outcome (list Z) :=
  I_Shl_u16_shl dbg w self rhs.

Definition I_ShlAssign_u32_shl_assign (dbg : bool) (w : Z) (self : list Z) (rhs : Z) : outcome (list Z) :=
  I_Shl_ExpType_shl dbg w self rhs.

Definition I_ShlAssign_u32_ref_shl_assign (dbg : bool) (w : Z) (self : list Z) (rhs : Z) : outcome (list Z) :=
  I_ShlAssign_u32_shl_assign dbg w self rhs.

Definition I_Shl_u32_vr_shl (dbg : bool) (w : Z) (self : list Z) (rhs : Z) : outcome (list Z) :=
  I_Shl_ExpType_shl dbg w self rhs.

Definition I_Shl_u32_rr_shl (dbg : bool) (w : Z) (self : list Z) (rhs : Z) : outcome (list Z) :=
  I_Shl_ExpType_shl dbg w self rhs.

Definition I_Shl_u32_rv_shl (dbg : bool) (w : Z) (self : list Z) (rhs : Z) : outcome (list Z) :=
  I_Shl_ExpType_shl dbg w self rhs.

Definition I_ShlAssign_u64_shl_assign (dbg : bool) (w : Z) (self : list Z) (rhs : Z) : outcome (list Z) :=
  I_Shl_u64_shl dbg w self rhs.

Definition I_ShlAssign_u64_ref_shl_assign (dbg : bool) (w : Z) (self : list Z) (rhs : Z) : outcome (list Z) :=
  I_ShlAssign_u64_shl_assign dbg w self rhs.

Definition I_Shl_u64_vr_shl (dbg : bool) (w : Z) (self : list Z) (rhs : Z) : outcome (list Z) :=
  I_Shl_u64_shl dbg w self rhs.

Definition I_Shl_u64_rr_shl (dbg : bool) (w : Z) (self : list Z) (rhs : Z) : outcome (list Z) :=
  I_Shl_u64_shl dbg w self rhs.

Definition I_Shl_u64_rv_shl (dbg : bool) (w : Z) (self : list Z) (rhs : Z) : outcome (list Z) :=
  I_Shl_u64_shl dbg w self rhs.

Definition I_ShlAssign_u128_shl_assign (dbg : bool) (w : Z) (self : list Z) (rhs : Z) : outcome (list Z) :=
  I_Shl_u128_shl dbg w self rhs.

Definition I_ShlAssign_u128_ref_shl_assign (dbg : bool) (w : Z) (self : list Z) (rhs : Z) : outcome (list Z) :=
  I_ShlAssign_u128_shl_assign dbg w self rhs.

Definition I_Shl_u128_vr_shl (dbg : bool) (w : Z) (self : list Z) (rhs : Z) : outcome (list Z) :=
  I_Shl_u128_shl dbg w self rhs.

Definition I_Shl_u128_rr_shl (dbg : bool) (w : Z) (self : list Z) (rhs : Z) : outcome (list Z) :=
  I_Shl_u128_shl dbg w self rhs.

Definition I_Shl_u128_rv_shl (dbg : bool) (w : Z) (self : list Z) (rhs : Z) : outcome (list Z) :=
  I_Shl_u128_shl dbg w self rhs.

Definition I_ShlAssign_usize_shl_assign (dbg : bool) (w : Z) (self : list Z) (rhs : Z) : outcome (list Z) :=
  I_Shl_usize_shl dbg w self rhs.

Definition I_ShlAssign_usize_ref_shl_assign (dbg : bool) (w : Z) (self : list Z) (rhs : Z) : outcome (list Z) :=
  I_ShlAssign_usize_shl_assign dbg w self rhs.

Definition I_Shl_usize_vr_shl (dbg : bool) (w : Z) (self : list Z) (rhs : Z) : outcome (list Z) :=
  I_Shl_usize_shl dbg w self rhs.

Definition I_Shl_usize_rr_shl (dbg : bool) (w : Z) (self : list Z) (rhs : Z) : outcome (list Z) :=
  I_Shl_usize_shl dbg w self rhs.

Definition I_Shl_usize_rv_shl (dbg : bool) (w : Z) (self : list Z) (rhs : Z) : outcome (list Z) :=
  I_Shl_usize_shl dbg w self rhs.

Definition I_ShlAssign_i8_shl_assign (dbg : bool) (w : Z) (self : list Z) (rhs : Z) : outcome (list Z) :=
  I_Shl_i8_shl dbg w self rhs.

Definition I_ShlAssign_i8_ref_shl_assign (dbg : bool) (w : Z) (self : list Z) (rhs : Z) : outcome (list Z) :=
  I_ShlAssign_i8_shl_assign dbg w self rhs.

Definition I_Shl_i8_vr_shl (dbg : bool) (w : Z) (self : list Z) (rhs : Z) : outcome (list Z) :=
  I_Shl_i8_shl dbg w self rhs.

Definition I_Shl_i8_rr_shl (dbg : bool) (w : Z) (self : list Z) (rhs : Z) : outcome (list Z) :=
  I_Shl_i8_shl dbg w self rhs.

Definition I_Shl_i8_rv_shl (dbg : bool) (w : Z) (self : list Z) (rhs : Z) : outcome (list Z) :=
  I_Shl_i8_shl dbg w self rhs.

Definition I_ShlAssign_i16_shl_assign (dbg : bool) (w : Z) (self : list Z) (rhs : Z) : outcome (list Z) :=
  I_Shl_i16_shl dbg w self rhs.

Definition I_ShlAssign_i16_ref_shl_assign (dbg : bool) (w : Z) (self : list Z) (rhs : Z) : outcome (list Z) :=
  I_ShlAssign_i16_shl_assign dbg w self rhs.

Definition I_Shl_i16_vr_shl (dbg : bool) (w : Z) (self : list Z) (rhs : Z) : outcome (list Z) :=
  I_Shl_i16_shl dbg w self rhs.

Definition I_Shl_i16_rr_shl (dbg : bool) (w : Z) (self : list Z) (rhs : Z) : outcome (list Z) :=
  I_Shl_i16_shl dbg w self rhs.

Definition I_Shl_i16_rv_shl (dbg : bool) (w : Z) (self : list Z) (rhs : Z) : outcome (list Z) :=
  I_Shl_i16_shl dbg w self rhs.

Definition I_ShlAssign_i32_shl_assign (dbg : bool) (w : Z) (self : list Z) (rhs : Z) : outcome (list Z) :=
  I_Shl_i32_shl dbg w self rhs.

Definition I_ShlAssign_i32_ref_shl_assign (dbg : bool) (w : Z) (self : list Z) (rhs : Z) : outcome (list Z) :=
  I_ShlAssign_i32_shl_assign dbg w self rhs.

Definition I_Shl_i32_vr_shl (dbg : bool) (w : Z) (self : list Z) (rhs : Z) : outcome (list Z) :=
  I_Shl_i32_shl dbg w self rhs.

Definition I_Shl_i32_rr_shl (dbg : bool) (w : Z) (self : list Z) (rhs : Z) : outcome (list Z) :=
  I_Shl_i32_shl dbg w self rhs.

Definition I_Shl_i32_rv_shl (dbg : bool) (w : Z) (self : list Z) (rhs : Z) : outcome (list Z) :=
  I_Shl_i32_shl dbg w self rhs.

Definition I_ShlAssign_i64_shl_assign (dbg : bool) (w : Z) (self : list Z) (rhs : Z) : outcome (list Z) :=
  I_Shl_i64_shl dbg w self rhs.

Definition I_ShlAssign_i64_ref_shl_assign (dbg : bool) (w : Z) (self : list Z) (rhs : Z) : outcome (list Z) :=
  I_ShlAssign_i64_shl_assign dbg w self rhs.

Definition I_Shl_i64_vr_shl (dbg : bool) (w : Z) (self : list Z) (rhs : Z) : outcome (list Z) :=
  I_Shl_i64_shl dbg w self rhs.

Definition I_Shl_i64_rr_shl (dbg : bool) (w : Z) (self : list Z) (rhs : Z) : outcome (list Z) :=
  I_Shl_i64_shl dbg w self rhs.

Definition I_Shl_i64_rv_shl (dbg : bool) (w : Z) (self : list Z) (rhs : Z) : outcome (list Z) :=
  I_Shl_i64_shl dbg w self rhs.

Definition I_ShlAssign_i128_shl_assign (dbg : bool) (w : Z) (self : list Z) (rhs : Z) : outcome (list Z) :=
  I_Shl_i128_shl dbg w self rhs.

Definition I_ShlAssign_i128_ref_shl_assign (dbg : bool) (w : Z) (self : list Z) (rhs : Z) : outcome (list Z) :=
  I_ShlAssign_i128_shl_assign dbg w self rhs.

Definition I_Shl_i128_vr_shl (dbg : bool) (w : Z) (self : list Z) (rhs : Z) : outcome (list Z) :=
  I_Shl_i128_shl dbg w self rhs.

Definition I_Shl_i128_rr_shl (dbg : bool) (w : Z) (self : list Z) (rhs : Z) : outcome (list Z) :=
  I_Shl_i128_shl dbg w self rhs.

Definition I_Shl_i128_rv_shl (dbg : bool) (w : Z) (self : list Z) (rhs : Z) : outcome (list Z) :=
  I_Shl_i128_shl dbg w self rhs.

Definition I_ShlAssign_isize_shl_assign (dbg : bool) (w : Z) (self : list Z) (rhs : Z) : outcome (list Z) :=
  I_Shl_isize_shl dbg w self rhs.

Definition I_ShlAssign_isize_ref_shl_assign (dbg : bool) (w : Z) (self : list Z) (rhs : Z) : outcome (list Z) :=
  I_ShlAssign_isize_shl_assign dbg w self rhs.

Definition I_Shl_isize_vr_shl (dbg : bool) (w : Z) (self : list Z) (rhs : Z) : outcome (list Z) :=
  I_Shl_isize_shl dbg w self rhs.

Definition I_Shl_isize_rr_shl (dbg : bool) (w : Z) (self : list Z) (rhs : Z) : outcome (list Z) :=
  I_Shl_isize_shl dbg w self rhs.

Definition I_Shl_isize_rv_shl (dbg : bool) (w : Z) (self : list Z) (rhs : Z) : outcome (list Z) :=
  I_Shl_isize_shl dbg w self rhs.

Definition I_ShrAssign_u8_shr_assign (dbg : bool) (w : Z) (self : list Z) (rhs : Z) : outcome (list Z) :=
  I_Shr_u8_shr dbg w self rhs.

Definition I_ShrAssign_u8_ref_shr_assign (dbg : bool) (w : Z) (self : list Z) (rhs : Z) : outcome (list Z) :=
  I_ShrAssign_u8_shr_assign dbg w self rhs.

Definition I_Shr_u8_vr_shr (dbg : bool) (w : Z) (self : list Z) (rhs : Z) : outcome (list Z) :=
  I_Shr_u8_shr dbg w self rhs.

Definition I_Shr_u8_rr_shr (dbg : bool) (w : Z) (self : list Z) (rhs : Z) : outcome (list Z) :=
  I_Shr_u8_shr dbg w self rhs.

Definition I_Shr_u8_rv_shr (dbg : bool) (w : Z) (self : list Z) (rhs : Z) : outcome (list Z) :=
  I_Shr_u8_shr dbg w self rhs.

Definition I_ShrAssign_u16_shr_assign (dbg : bool) (w : Z) (self : list Z) (rhs : Z) : outcome (list Z) :=
  I_Shr_u16_shr dbg w self rhs.

Definition I_ShrAssign_u16_ref_shr_assign (dbg : bool) (w : Z) (self : list Z) (rhs : Z) : outcome (list Z) :=
  I_ShrAssign_u16_shr_assign dbg w self rhs.

Definition I_Shr_u16_vr_shr (dbg : bool) (w : Z) (self : list Z) (rhs : Z) : outcome (list Z) :=
  I_Shr_u16_shr dbg w self rhs.

Definition I_Shr_u16_rr_shr (dbg : bool) (w : Z) (self : list Z) (rhs : Z) : outcome (list Z) :=
  I_Shr_u16_shr dbg w self rhs.

Definition I_Shr_u16_rv_shr (dbg : bool) (w : Z) (self : list Z) (rhs : Z) : outcome (list Z) :=
  I_Shr_u16_shr dbg w self rhs.

Definition I_ShrAssign_u32_shr_assign (dbg : bool) (w : Z) (self : list Z) (rhs : Z) : outcome (list Z) :=
  I_Shr_ExpType_shr dbg w self rhs.

Definition I_ShrAssign_u32_ref_shr_assign (dbg : bool) (w : Z) (self : list Z) (rhs : Z) : outcome (list Z) :=
  I_ShrAssign_u32_shr_assign dbg w self rhs.

Definition I_Shr_u32_vr_shr (dbg : bool) (w : Z) (self : list Z) (rhs : Z) : outcome (list Z) :=
  I_Shr_ExpType_shr dbg w self rhs.

Definition I_Shr_u32_rr_shr (dbg : bool) (w : Z) (self : list Z) (rhs : Z) : outcome (list Z) :=
  I_Shr_ExpType_shr dbg w self rhs.

Definition I_Shr_u32_rv_shr (dbg : bool) (w : Z) (self : list Z) (rhs : Z) : outcome (list Z) :=
  I_Shr_ExpType_shr dbg w self rhs.

Definition I_ShrAssign_u64_shr_assign (dbg : bool) (w : Z) (self : list Z) (rhs : Z) : outcome (list Z) :=
  I_Shr_u64_shr dbg w self rhs.

Definition I_ShrAssign_u64_ref_shr_assign (dbg : bool) (w : Z) (self : list Z) (rhs : Z) : outcome (list Z) :=
  I_ShrAssign_u64_shr_assign dbg w self rhs.

Definition I_Shr_u64_vr_shr (dbg : bool) (w : Z) (self : list Z) (rhs : Z) : outcome (list Z) :=
  I_Shr_u64_shr dbg w self rhs.

Definition I_Shr_u64_rr_shr (dbg : bool) (w : Z) (self : list Z) (rhs : Z) : outcome (list Z) :=
  I_Shr_u64_shr dbg w self rhs.

Definition I_Shr_u64_rv_shr (dbg : bool) (w : Z) (self : list Z) (rhs : Z) : outcome (list Z) :=
  I_Shr_u64_shr dbg w self rhs.

Definition I_ShrAssign_u128_shr_assign (dbg : bool) (w : Z) (self : list Z) (rhs : Z) : outcome (list Z) :=
  I_Shr_u128_shr dbg w self rhs.

Definition I_ShrAssign_u128_ref_shr_assign (dbg : bool) (w : Z) (self : list Z) (rhs : Z) : outcome (list Z) :=
  I_ShrAssign_u128_shr_assign dbg w self rhs.

Definition I_Shr_u128_vr_shr (dbg : bool) (w : Z) (self : list Z) (rhs : Z) : outcome (list Z) :=
  I_Shr_u128_shr dbg w self rhs.

Definition I_Shr_u128_rr_shr (dbg : bool) (w : Z) (self : list Z) (rhs : Z) : outcome (list Z) :=
  I_Shr_u128_shr dbg w self rhs.

Definition I_Shr_u128_rv_shr (dbg : bool) (w : Z) (self : list Z) (rhs : Z) : outcome (list Z) :=
  I_Shr_u128_shr dbg w self rhs.

Definition I_ShrAssign_usize_shr_assign (dbg : bool) (w : Z) (self : list Z) (rhs : Z) : outcome (list Z) :=
  I_Shr_usize_shr dbg w self rhs.

Definition I_ShrAssign_usize_ref_shr_assign (dbg : bool) (w : Z) (self : list Z) (rhs : Z) : outcome (list Z) :=
  I_ShrAssign_usize_shr_assign dbg w self rhs.

Definition I_Shr_usize_vr_shr (dbg : bool) (w : Z) (self : list Z) (rhs : Z) : outcome (list Z) :=
  I_Shr_usize_shr dbg w self rhs.

Definition I_Shr_usize_rr_shr (dbg : bool) (w : Z) (self : list Z) (rhs : Z) : outcome (list Z) :=
  I_Shr_usize_shr dbg w self rhs.

Definition I_Shr_usize_rv_shr (dbg : bool) (w : Z) (self : list Z) (rhs : Z) : outcome (list Z) :=
  I_Shr_usize_shr dbg w self rhs.

Definition I_ShrAssign_i8_shr_assign (dbg : bool) (w : Z) (self : list Z) (rhs : Z) : outcome (list Z) :=
  I_Shr_i8_shr dbg w self rhs.

Definition I_ShrAssign_i8_ref_shr_assign (dbg : bool) (w : Z) (self : list Z) (rhs : Z) : outcome (list Z) :=
  I_ShrAssign_i8_shr_assign dbg w self rhs.

Definition I_Shr_i8_vr_shr (dbg : bool) (w : Z) (self : list Z) (rhs : Z) : outcome (list Z) :=
  I_Shr_i8_shr dbg w self rhs.

Definition I_Shr_i8_rr_shr (dbg : bool) (w : Z) (self : list Z) (rhs : Z) : outcome (list Z) :=
  I_Shr_i8_shr dbg w self rhs.

Definition I_Shr_i8_rv_shr (dbg : bool) (w : Z) (self : list Z) (rhs : Z) : outcome (list Z) :=
  I_Shr_i8_shr dbg w self rhs.

Definition I_ShrAssign_i16_shr_assign (dbg : bool) (w : Z) (self : list Z) (rhs : Z) : outcome (list Z) :=
  I_Shr_i16_shr dbg w self rhs.

Definition I_ShrAssign_i16_ref_shr_assign (dbg : bool) (w : Z) (self : list Z) (rhs : Z) : outcome (list Z) :=
  I_ShrAssign_i16_shr_assign dbg w self rhs.

Definition I_Shr_i16_vr_shr (dbg : bool) (w : Z) (self : list Z) (rhs : Z) : outcome (list Z) :=
  I_Shr_i16_shr dbg w self rhs.

Definition I_Shr_i16_rr_shr (dbg : bool) (w : Z) (self : list Z) (rhs : Z) : outcome (list Z) :=
  I_Shr_i16_shr dbg w self rhs.

Definition I_Shr_i16_rv_shr (dbg : bool) (w : Z) (self : list Z) (rhs : Z) : outcome (list Z) :=
  I_Shr_i16_shr dbg w self rhs.

Definition I_ShrAssign_i32_shr_assign (dbg : bool) (w : Z) (self : list Z) (rhs : Z) : outcome (list Z) :=
  I_Shr_i32_shr dbg w self rhs.

Definition I_ShrAssign_i32_ref_shr_assign (dbg : bool) (w : Z) (self : list Z) (rhs : Z) : outcome (list Z) :=
  I_ShrAssign_i32_shr_assign dbg w self rhs.

Definition I_Shr_i32_vr_shr (dbg : bool) (w : Z) (self : list Z) (rhs : Z) : outcome (list Z) :=
  I_Shr_i32_shr dbg w self rhs.

Definition I_Shr_i32_rr_shr (dbg : bool) (w : Z) (self : list Z) (rhs : Z) : outcome (list Z) :=
  I_Shr_i32_shr dbg w self rhs.

Definition I_Shr_i32_rv_shr (dbg : bool) (w : Z) (self : list Z) (rhs : Z) : outcome (list Z) :=
  I_Shr_i32_shr dbg w self rhs.

Definition I_ShrAssign_i64_shr_assign (dbg : bool) (w : Z) (self : list Z) (rhs : Z) : outcome (list Z) :=
  I_Shr_i64_shr dbg w self rhs.

Definition I_ShrAssign_i64_ref_shr_assign (dbg : bool) (w : Z) (self : list Z) (rhs : Z) : outcome (list Z) :=
  I_ShrAssign_i64_shr_assign dbg w self rhs.

Definition I_Shr_i64_vr_shr (dbg : bool) (w : Z) (self : list Z) (rhs : Z) : outcome (list Z) :=
  I_Shr_i64_shr dbg w self rhs.

Definition I_Shr_i64_rr_shr (dbg : bool) (w : Z) (self : list Z) (rhs : Z) : outcome (list Z) :=
  I_Shr_i64_shr dbg w self rhs.

Definition I_Shr_i64_rv_shr (dbg : bool) (w : Z) (self : list Z) (rhs : Z) : outcome (list Z) :=
  I_Shr_i64_shr dbg w self rhs.

Definition I_ShrAssign_i128_shr_assign (dbg : bool) (w : Z) (self : list Z) (rhs : Z) : outcome (list Z) :=
  I_Shr_i128_shr dbg w self rhs.

Definition I_ShrAssign_i128_ref_shr_assign (dbg : bool) (w : Z) (self : list Z) (rhs : Z) : outcome (list Z) :=
  I_ShrAssign_i128_shr_assign dbg w self rhs.

Definition I_Shr_i128_vr_shr (dbg : bool) (w : Z) (self : list Z) (rhs : Z) : outcome (list Z) :=
  I_Shr_i128_shr dbg w self rhs.

Definition I_Shr_i128_rr_shr (dbg : bool) (w : Z) (self : list Z) (rhs : Z) : outcome (list Z) :=
  I_Shr_i128_shr dbg w self rhs.

Definition I_Shr_i128_rv_shr (dbg : bool) (w : Z) (self : list Z) (rhs : Z) : outcome (list Z) :=
  I_Shr_i128_shr dbg w self rhs.

Definition I_ShrAssign_isize_shr_assign (dbg : bool) (w : Z) (self : list Z) (rhs : Z) : outcome (list Z) :=
  I_Shr_isize_shr dbg w self rhs.

Definition I_ShrAssign_isize_ref_shr_assign (dbg : bool) (w : Z) (self : list Z) (rhs : Z) : outcome (list Z) :=
  I_ShrAssign_isize_shr_assign dbg w self rhs.

Definition I_Shr_isize_vr_shr (dbg : bool) (w : Z) (self : list Z) (rhs : Z) : outcome (list Z) :=
  I_Shr_isize_shr dbg w self rhs.

Definition I_Shr_isize_rr_shr (dbg : bool) (w : Z) (self : list Z) (rhs : Z) : outcome (list Z) :=
  I_Shr_isize_shr dbg w self rhs.

Definition I_Shr_isize_rv_shr (dbg : bool) (w : Z) (self : list Z) (rhs : Z) : outcome (list Z) :=
  I_Shr_isize_shr dbg w self rhs.

Definition I_SubAssign_sub_assign (dbg : bool) (w : Z) (self : list Z) (rhs : list Z) : outcome (list Z) :=
  I_Sub_sub dbg w self rhs.

Definition I_SubAssign_ref_sub_assign (dbg : bool) (w : Z) (self : list Z) (rhs : list Z) : outcome (list Z) :=
  I_SubAssign_sub_assign dbg w self rhs.

Definition I_Sub_vr_sub (dbg : bool) (w : Z) (self : list Z) (rhs : list Z) : outcome (list Z) :=
  I_Sub_sub dbg w self rhs.

Definition I_Sub_rr_sub (dbg : bool) (w : Z) (self : list Z) (rhs : list Z) : outcome (list Z) :=
  I_Sub_sub dbg w self rhs.

Definition I_Sub_rv_sub (dbg : bool) (w : Z) (self : list Z) (rhs : list Z) : outcome (list Z) :=
  I_Sub_sub dbg w self rhs.

(* ---- src/buint/mod.rs (macro mod_impl), second pass ---- *)
Definition U_Default_default (w : Z) (n : nat) : list Z :=
  Core.ZERO n.

Definition U_Product_product (dbg : bool) (w : Z) (n : nat) (iter : list (list Z)) : outcome (list Z) :=
  Ops.fold_out (fun a b => (U_Mul_mul dbg w a b)) iter (Core.ONE n).

Definition U_Product_ref_product (dbg : bool) (w : Z) (n : nat) (iter : list (list Z)) : outcome (list Z) :=
  Ops.fold_out (fun a b => (U_Mul_vr_mul dbg w a b)) iter (Core.ONE n).

Definition U_Sum_sum (dbg : bool) (w : Z) (n : nat) (iter : list (list Z)) : outcome (list Z) :=
  Ops.fold_out (fun a b => (U_Add_add dbg w a b)) iter (Core.ZERO n).

Definition U_Sum_ref_sum (dbg : bool) (w : Z) (n : nat) (iter : list (list Z)) : outcome (list Z) :=
  Ops.fold_out (fun a b => (U_Add_vr_add dbg w a b)) iter (Core.ZERO n).

(* ---- src/bint/mod.rs (macro mod_impl), second pass ---- *)
Definition I_Default_default (w : Z) (n : nat) : list Z :=
  Core.ZERO n.

Definition I_Product_product (dbg : bool) (w : Z) (n : nat) (iter : list (list Z)) : outcome (list Z) :=
  Ops.fold_out (fun a b => (I_Mul_mul dbg w a b)) iter (Core.ONE n).

Definition I_Product_ref_product (dbg : bool) (w : Z) (n : nat) (iter : list (list Z)) : outcome (list Z) :=
  Ops.fold_out (fun a b => (I_Mul_vr_mul dbg w a b)) iter (Core.ONE n).

Definition I_Sum_sum (dbg : bool) (w : Z) (n : nat) (iter : list (list Z)) : outcome (list Z) :=
  Ops.fold_out (fun a b => (I_Add_add dbg w a b)) iter (Core.ZERO n).

Definition I_Sum_ref_sum (dbg : bool) (w : Z) (n : nat) (iter : list (list Z)) : outcome (list Z) :=
  Ops.fold_out (fun a b => (I_Add_vr_add dbg w a b)) iter (Core.ZERO n).

End Glue.

(* GENERATED on every run by tools/rs2v_nt.py from /repo/src/buint/numtraits.rs and /repo/src/bint/numtraits.rs (impl Integer,
   the PrimInt shifts, fixpoint, impl Roots, impl Signed).  Do not edit.  Proofs/NtGenTie*.v prove the functions equal to the
   hand-written model Model/NumTraits.v.  Vocabulary: Model/Imp.v (control flow; a closure / `F: Fn(Self) -> Self` parameter is
   a Gallina function into `res`), `udiv` of Model/ImpParse.v, Prim.v.  Called by their hand-model names (tied elsewhere, see
   tools/NT_TRANSLATOR.md): the inherent methods and operators of $BUint / $BInt (Core, Shift, AddSub, Mul, Div, Bits, Pow, Ops),
   NumTraits.U_to_u128, NumTraits.U_from_u32 / U_from_u128; MODELLED BY ITS SPECIFICATION: num-integer's Roots for u128
   (NumTraits.zroot). *)
From Bnum Require Import Base Prim.
From Bnum.Model Require Import DigitPrims LoopPrims Core Imp ImpParse.
From Bnum.Model Require AddSub Bits Div Mul Pow Shift Ops NumTraits.

Module NtGen.

(* src/buint/numtraits.rs: impl Integer for $BUint<N>: fn div_floor *)
Definition U_div_floor (w N : Z) (fuel : nat) (self : list Z) (other : list Z) : res (list Z) :=
  t1' <- of_outcome (Div.U_div w self other) ;;
  Done t1'.

(* src/buint/numtraits.rs: impl Integer for $BUint<N>: fn mod_floor *)
Definition U_mod_floor (w N : Z) (fuel : nat) (self : list Z) (other : list Z) : res (list Z) :=
  t1' <- of_outcome (Div.U_rem w self other) ;;
  Done t1'.

(* src/buint/numtraits.rs: impl Integer for $BUint<N>: fn gcd *)
Definition U_gcd (dbg : bool) (w N : Z) (fuel : nat) (self : list Z) (other : list Z) : res (list Z) :=
  let '(a, b) := (self, other) in
  if (Core.is_zero a) then (
    Done b
  ) else (
    if (Core.is_zero b) then (
      Done a
    ) else (
      let a_tz := (Bits.trailing_zeros w a) in
      let b_tz := (Bits.trailing_zeros w b) in
      let a := (Shift.shr_pad_internal w false a a_tz) in
      let b := (Shift.shr_pad_internal w false b b_tz) in
      let '(a_tz, b_tz) := (if (b_tz >? a_tz) then (let '(a_tz, b_tz) := (b_tz, a_tz) in (a_tz, b_tz)) else ((a_tz, b_tz))) in
      t2' <- while_loop (R := list Z) fuel
        (fun '(a, b) => true)
        (fun '(a, b) =>
          let '(a, b) := (if (cmp_lt (ucmp a b)) then (let '(a, b) := (b, a) in (a, b)) else ((a, b))) in
          a <- of_outcome (AddSub.U_sub dbg w a b) ;;
          if (Core.is_zero a) then (
            Done (Return (Shift.shl_internal w b b_tz))
          ) else (
            let a := (Shift.shr_pad_internal w false a (Bits.trailing_zeros w a)) in
            Done (Continue (a, b))
          ))
        (a, b) ;;
      match t2' with
      | Exited (a, b) =>
          Panicked (* unreachable: a `loop` without `break` is only left by `return` *)
      | Returned t3' => Done t3'
      end
    )
  ).

(* src/buint/numtraits.rs: impl Integer for $BUint<N>: fn lcm *)
Definition U_lcm (dbg : bool) (w N : Z) (fuel : nat) (self : list Z) (other : list Z) : res (list Z) :=
  if (orb (Core.is_zero self) (Core.is_zero other)) then (
    Done (ZERO (Z.to_nat N))
  ) else (
    t1' <- U_gcd dbg w N fuel self other ;;
    t2' <- U_div_floor w N fuel self t1' ;;
    t3' <- of_outcome (Mul.U_mul dbg w t2' other) ;;
    Done t3'
  ).

(* src/buint/numtraits.rs: impl Integer for $BUint<N>: fn is_multiple_of *)
Definition U_is_multiple_of (w N : Z) (fuel : nat) (self : list Z) (other : list Z) : res bool :=
  t1' <- U_mod_floor w N fuel self other ;;
  Done (Core.is_zero t1').

(* src/buint/numtraits.rs: impl Integer for $BUint<N>: fn divides *)
Definition U_divides (w N : Z) (fuel : nat) (self : list Z) (other : list Z) : res bool :=
  t1' <- U_is_multiple_of w N fuel self other ;;
  Done t1'.

(* src/buint/numtraits.rs: impl Integer for $BUint<N>: fn is_even *)
Definition U_is_even (w N : Z) (fuel : nat) (self : list Z) : res bool :=
  t1' <- arr_get self 0 ;;
  Done ((dg_and w t1' 1) =? 0).

(* src/buint/numtraits.rs: impl Integer for $BUint<N>: fn is_odd *)
Definition U_is_odd (w N : Z) (fuel : nat) (self : list Z) : res bool :=
  t1' <- arr_get self 0 ;;
  Done ((dg_and w t1' 1) =? 1).

(* src/buint/numtraits.rs: impl Integer for $BUint<N>: fn div_rem *)
Definition U_div_rem (w N : Z) (fuel : nat) (self : list Z) (rhs : list Z) : res (list Z * list Z) :=
  t1' <- of_outcome (Div.U_div_rem w self rhs) ;;
  Done t1'.

(* src/buint/numtraits.rs: impl PrimInt for $BUint<N>: fn signed_shl *)
Definition U_signed_shl (dbg : bool) (w N : Z) (fuel : nat) (self : list Z) (n : Z) : res (list Z) :=
  t1' <- of_outcome (Ops.U_Shl_prim dbg w Ops.AU32 self n) ;;
  Done t1'.

(* src/buint/numtraits.rs: impl PrimInt for $BUint<N>: fn signed_shr *)
Definition U_signed_shr (dbg : bool) (w N : Z) (fuel : nat) (self : list Z) (n : Z) : res (list Z) :=
  t1' <- of_outcome (Ops.I_Shr_prim dbg w Ops.AU32 self n) ;;
  Done t1'.

(* src/buint/numtraits.rs: impl PrimInt for $BUint<N>: fn unsigned_shl *)
Definition U_unsigned_shl (dbg : bool) (w N : Z) (fuel : nat) (self : list Z) (n : Z) : res (list Z) :=
  t1' <- of_outcome (Ops.U_Shl_prim dbg w Ops.AU32 self n) ;;
  Done t1'.

(* src/buint/numtraits.rs: impl PrimInt for $BUint<N>: fn unsigned_shr *)
Definition U_unsigned_shr (dbg : bool) (w N : Z) (fuel : nat) (self : list Z) (n : Z) : res (list Z) :=
  t1' <- of_outcome (Ops.U_Shr_prim dbg w Ops.AU32 self n) ;;
  Done t1'.

(* src/buint/numtraits.rs: inherent fn fixpoint *)
Definition fixpoint (w N : Z) (fuel : nat) (self : list Z) (max_bits : Z) (f : (list Z -> res (list Z))) : res (list Z) :=
  t1' <- f self ;;
  let xn := t1' in
  t5' <- while_loop (R := list Z) fuel
    (fun '(self, xn) => (cmp_lt (ucmp self xn)))
    (fun '(self, xn) =>
      self <- (if ((Bits.bits_of w xn) >? max_bits) then (t2' <- of_outcome (Bits.power_of_two w (Z.to_nat N) max_bits) ;; Done t2') else (Done xn)) ;;
      xn <- f self ;;
      Done (Continue (self, xn)))
    (self, xn) ;;
  match t5' with
  | Exited (self, xn) =>
      t8' <- while_loop (R := list Z) fuel
        (fun '(self, xn) => (cmp_gt (ucmp self xn)))
        (fun '(self, xn) =>
          let self := xn in
          xn <- f self ;;
          Done (Continue (self, xn)))
        (self, xn) ;;
      match t8' with
      | Exited (self, xn) =>
          Done self
      | Returned t9' => Done t9'
      end
  | Returned t6' => Done t6'
  end.

(* src/buint/numtraits.rs: impl Roots for $BUint<N>: fn sqrt *)
Definition U_sqrt (dbg : bool) (w N : Z) (fuel : nat) (self : list Z) : res (list Z) :=
  if (N =? 0) then (
    Done self
  ) else (
    if ((Z.of_nat (Div.last_digit_index self)) =? 0) then (
      t1' <- arr_get self 0 ;;
      let d := t1' in
      if (orb (d =? 0) (d =? 1)) then (
        Done self
      ) else (
        t2' <- of_outcome (NumTraits.U_to_u128 w self) ;;
        match t2' with
        | Some n => (
            t3' <- of_outcome (NumTraits.U_from_u128 w (Z.to_nat N) (NumTraits.zroot 2 n)) ;;
            Done t3'
          )
        | None => (
            let bits := (Bits.bits_of w self) in
            t4' <- udiv bits 2 ;;
            let max_bits := (t4' + 1) in
            t5' <- of_outcome (Bits.power_of_two w (Z.to_nat N) max_bits) ;;
            let guess := t5' in
            t9' <- fixpoint w N fuel guess max_bits (fun s =>
                  t6' <- of_outcome (Div.U_div w self s) ;;
                  let q := t6' in
                  t7' <- of_outcome (AddSub.U_add dbg w s q) ;;
                  let t := t7' in
                  t8' <- of_outcome (Ops.U_Shr_prim dbg w Ops.AI32 t 1) ;;
                  Done t8') ;;
            Done t9'
          )
        end
      )
    ) else (
      t10' <- of_outcome (NumTraits.U_to_u128 w self) ;;
      match t10' with
      | Some n => (
          t11' <- of_outcome (NumTraits.U_from_u128 w (Z.to_nat N) (NumTraits.zroot 2 n)) ;;
          Done t11'
        )
      | None => (
          let bits := (Bits.bits_of w self) in
          t12' <- udiv bits 2 ;;
          let max_bits := (t12' + 1) in
          t13' <- of_outcome (Bits.power_of_two w (Z.to_nat N) max_bits) ;;
          let guess := t13' in
          t17' <- fixpoint w N fuel guess max_bits (fun s =>
                t14' <- of_outcome (Div.U_div w self s) ;;
                let q := t14' in
                t15' <- of_outcome (AddSub.U_add dbg w s q) ;;
                let t := t15' in
                t16' <- of_outcome (Ops.U_Shr_prim dbg w Ops.AI32 t 1) ;;
                Done t16') ;;
          Done t17'
        )
      end
    )
  ).

(* src/buint/numtraits.rs: impl Roots for $BUint<N>: fn cbrt *)
Definition U_cbrt (dbg : bool) (w N : Z) (fuel : nat) (self : list Z) : res (list Z) :=
  if (N =? 0) then (
    Done self
  ) else (
    if ((Z.of_nat (Div.last_digit_index self)) =? 0) then (
      t1' <- arr_get self 0 ;;
      let d := t1' in
      if (orb (d =? 0) (d =? 1)) then (
        Done self
      ) else (
        t2' <- of_outcome (NumTraits.U_to_u128 w self) ;;
        match t2' with
        | Some n => (
            t3' <- of_outcome (NumTraits.U_from_u128 w (Z.to_nat N) (NumTraits.zroot 3 n)) ;;
            Done t3'
          )
        | None => (
            let bits := (Bits.bits_of w self) in
            t4' <- udiv bits 3 ;;
            let max_bits := (t4' + 1) in
            t5' <- of_outcome (Bits.power_of_two w (Z.to_nat N) max_bits) ;;
            let guess := t5' in
            t10' <- fixpoint w N fuel guess max_bits (fun s =>
                  t6' <- of_outcome (Mul.U_mul dbg w s s) ;;
                  t7' <- of_outcome (Div.U_div w self t6') ;;
                  let q := t7' in
                  t8' <- of_outcome (Ops.U_Shl_prim dbg w Ops.AI32 s 1) ;;
                  t9' <- of_outcome (AddSub.U_add dbg w t8' q) ;;
                  let t := t9' in
                  Done (fst (Div.div_rem_digit w t 3))) ;;
            Done t10'
          )
        end
      )
    ) else (
      t11' <- of_outcome (NumTraits.U_to_u128 w self) ;;
      match t11' with
      | Some n => (
          t12' <- of_outcome (NumTraits.U_from_u128 w (Z.to_nat N) (NumTraits.zroot 3 n)) ;;
          Done t12'
        )
      | None => (
          let bits := (Bits.bits_of w self) in
          t13' <- udiv bits 3 ;;
          let max_bits := (t13' + 1) in
          t14' <- of_outcome (Bits.power_of_two w (Z.to_nat N) max_bits) ;;
          let guess := t14' in
          t19' <- fixpoint w N fuel guess max_bits (fun s =>
                t15' <- of_outcome (Mul.U_mul dbg w s s) ;;
                t16' <- of_outcome (Div.U_div w self t15') ;;
                let q := t16' in
                t17' <- of_outcome (Ops.U_Shl_prim dbg w Ops.AI32 s 1) ;;
                t18' <- of_outcome (AddSub.U_add dbg w t17' q) ;;
                let t := t18' in
                Done (fst (Div.div_rem_digit w t 3))) ;;
          Done t19'
        )
      end
    )
  ).

(* src/buint/numtraits.rs: impl Roots for $BUint<N>: fn nth_root *)
Definition U_nth_root (dbg : bool) (w N : Z) (fuel : nat) (self : list Z) (n : Z) : res (list Z) :=
  if (n =? 0) then (
    Panicked (* panic! *)
  ) else (
    if (n =? 1) then (
      Done self
    ) else (
      if (n =? 2) then (
        t1' <- U_sqrt dbg w N fuel self ;;
        Done t1'
      ) else (
        if (n =? 3) then (
          t2' <- U_cbrt dbg w N fuel self ;;
          Done t2'
        ) else (
            if (N =? 0) then (
              Done self
            ) else (
              if ((Z.of_nat (Div.last_digit_index self)) =? 0) then (
                t3' <- arr_get self 0 ;;
                let d := t3' in
                if (orb (d =? 0) (d =? 1)) then (
                  Done self
                ) else (
                  t4' <- of_outcome (NumTraits.U_to_u128 w self) ;;
                  match t4' with
                  | Some x => (
                      t5' <- of_outcome (NumTraits.U_from_u128 w (Z.to_nat N) (NumTraits.zroot n x)) ;;
                      Done t5'
                    )
                  | None => (
                      let bits := (Bits.bits_of w self) in
                      let n'1 := n in
                      if (bits <=? n'1) then (
                        Done (Core.ONE (Z.to_nat N))
                      ) else (
                        t6' <- udiv bits n'1 ;;
                        let max_bits := (t6' + 1) in
                        t7' <- of_outcome (Bits.power_of_two w (Z.to_nat N) max_bits) ;;
                        let guess := t7' in
                        t8' <- usub n'1 1 ;;
                        let n_minus_1 := t8' in
                        t18' <- fixpoint w N fuel guess max_bits (fun s =>
                              match (Pow.U_checked_pow w s n_minus_1) with
                              | Some p => (
                                  t9' <- of_outcome (Div.U_div w self p) ;;
                                  let q := t9' in
                                  t10' <- of_outcome (NumTraits.U_from_u32 w (Z.to_nat N) n_minus_1) ;;
                                  let mul := t10' in
                                  t11' <- of_outcome (Mul.U_mul dbg w s mul) ;;
                                  t12' <- of_outcome (AddSub.U_add dbg w t11' q) ;;
                                  let t := t12' in
                                  t13' <- of_outcome (NumTraits.U_from_u32 w (Z.to_nat N) n'1) ;;
                                  Done (fst (Div.U_div_rem_unchecked w t t13'))
                                )
                              | None => (
                                  let q := (ZERO (Z.to_nat N)) in
                                  t14' <- of_outcome (NumTraits.U_from_u32 w (Z.to_nat N) n_minus_1) ;;
                                  let mul := t14' in
                                  t15' <- of_outcome (Mul.U_mul dbg w s mul) ;;
                                  t16' <- of_outcome (AddSub.U_add dbg w t15' q) ;;
                                  let t := t16' in
                                  t17' <- of_outcome (NumTraits.U_from_u32 w (Z.to_nat N) n'1) ;;
                                  Done (fst (Div.U_div_rem_unchecked w t t17'))
                                )
                              end) ;;
                        Done t18'
                      )
                    )
                  end
                )
              ) else (
                t19' <- of_outcome (NumTraits.U_to_u128 w self) ;;
                match t19' with
                | Some x => (
                    t20' <- of_outcome (NumTraits.U_from_u128 w (Z.to_nat N) (NumTraits.zroot n x)) ;;
                    Done t20'
                  )
                | None => (
                    let bits := (Bits.bits_of w self) in
                    let n'1 := n in
                    if (bits <=? n'1) then (
                      Done (Core.ONE (Z.to_nat N))
                    ) else (
                      t21' <- udiv bits n'1 ;;
                      let max_bits := (t21' + 1) in
                      t22' <- of_outcome (Bits.power_of_two w (Z.to_nat N) max_bits) ;;
                      let guess := t22' in
                      t23' <- usub n'1 1 ;;
                      let n_minus_1 := t23' in
                      t33' <- fixpoint w N fuel guess max_bits (fun s =>
                            match (Pow.U_checked_pow w s n_minus_1) with
                            | Some p => (
                                t24' <- of_outcome (Div.U_div w self p) ;;
                                let q := t24' in
                                t25' <- of_outcome (NumTraits.U_from_u32 w (Z.to_nat N) n_minus_1) ;;
                                let mul := t25' in
                                t26' <- of_outcome (Mul.U_mul dbg w s mul) ;;
                                t27' <- of_outcome (AddSub.U_add dbg w t26' q) ;;
                                let t := t27' in
                                t28' <- of_outcome (NumTraits.U_from_u32 w (Z.to_nat N) n'1) ;;
                                Done (fst (Div.U_div_rem_unchecked w t t28'))
                              )
                            | None => (
                                let q := (ZERO (Z.to_nat N)) in
                                t29' <- of_outcome (NumTraits.U_from_u32 w (Z.to_nat N) n_minus_1) ;;
                                let mul := t29' in
                                t30' <- of_outcome (Mul.U_mul dbg w s mul) ;;
                                t31' <- of_outcome (AddSub.U_add dbg w t30' q) ;;
                                let t := t31' in
                                t32' <- of_outcome (NumTraits.U_from_u32 w (Z.to_nat N) n'1) ;;
                                Done (fst (Div.U_div_rem_unchecked w t t32'))
                              )
                            end) ;;
                      Done t33'
                    )
                  )
                end
              )
            )
        )
      )
    )
  ).

(* src/bint/numtraits.rs: impl Signed for $BInt<N>: fn abs *)
Definition I_abs (dbg : bool) (w N : Z) (fuel : nat) (self : list Z) : res (list Z) :=
  t1' <- of_outcome (AddSub.I_abs dbg w self) ;;
  Done t1'.

(* src/bint/numtraits.rs: impl Signed for $BInt<N>: fn abs_sub *)
Definition I_abs_sub (dbg : bool) (w N : Z) (fuel : nat) (self : list Z) (other : list Z) : res (list Z) :=
  if (cmp_le (icmp w self other)) then (
    Done (ZERO (Z.to_nat N))
  ) else (
    t1' <- of_outcome (AddSub.I_sub dbg w self other) ;;
    Done t1'
  ).

(* src/bint/numtraits.rs: impl Signed for $BInt<N>: fn signum *)
Definition I_signum (w N : Z) (fuel : nat) (self : list Z) : res (list Z) :=
  Done (Bits.signum w self).

(* src/bint/numtraits.rs: impl Signed for $BInt<N>: fn is_positive *)
Definition I_is_positive (w N : Z) (fuel : nat) (self : list Z) : res bool :=
  Done (Core.is_positive w self).

(* src/bint/numtraits.rs: impl Signed for $BInt<N>: fn is_negative *)
Definition I_is_negative (w N : Z) (fuel : nat) (self : list Z) : res bool :=
  Done ((Core.signed_digit w self) <? 0).

(* src/bint/numtraits.rs: impl Integer for $BInt<N>: fn div_floor *)
Definition I_div_floor (dbg : bool) (w N : Z) (fuel : nat) (self : list Z) (other : list Z) : res (list Z) :=
  t1' <- of_outcome (Div.I_div dbg w self other) ;;
  t2' <- of_outcome (Div.I_rem dbg w self other) ;;
  let '(d, r) := (t1', t2') in
  t4' <- (if (Core.is_positive w r) then (t3' <- I_is_negative w N fuel other ;; Done t3') else Done false) ;;
  t7' <- (if t4' then Done true else (t6' <- (if (Core.is_negative w r) then (t5' <- I_is_positive w N fuel other ;; Done t5') else Done false) ;; Done t6')) ;;
  if t7' then (
    t8' <- of_outcome (AddSub.I_sub dbg w d (Core.ONE (Z.to_nat N))) ;;
    Done t8'
  ) else (
    Done d
  ).

(* src/bint/numtraits.rs: impl Integer for $BInt<N>: fn mod_floor *)
Definition I_mod_floor (dbg : bool) (w N : Z) (fuel : nat) (self : list Z) (other : list Z) : res (list Z) :=
  t1' <- of_outcome (Div.I_rem dbg w self other) ;;
  let r := t1' in
  t3' <- (if (Core.is_positive w r) then (t2' <- I_is_negative w N fuel other ;; Done t2') else Done false) ;;
  t6' <- (if t3' then Done true else (t5' <- (if (Core.is_negative w r) then (t4' <- I_is_positive w N fuel other ;; Done t4') else Done false) ;; Done t5')) ;;
  if t6' then (
    t7' <- of_outcome (AddSub.I_add dbg w r other) ;;
    Done t7'
  ) else (
    Done r
  ).

(* src/bint/numtraits.rs: impl Integer for $BInt<N>: fn gcd *)
Definition I_gcd (dbg : bool) (w N : Z) (fuel : nat) (self : list Z) (other : list Z) : res (list Z) :=
  t1' <- U_gcd dbg w N fuel (AddSub.I_unsigned_abs w self) (AddSub.I_unsigned_abs w other) ;;
  let gcd := t1' in
  let out := gcd in
  t2' <- of_outcome (AddSub.I_abs dbg w out) ;;
  Done t2'.

(* src/bint/numtraits.rs: impl Integer for $BInt<N>: fn lcm *)
Definition I_lcm (dbg : bool) (w N : Z) (fuel : nat) (self : list Z) (other : list Z) : res (list Z) :=
  if (orb (Core.is_zero self) (Core.is_zero other)) then (
    Done (ZERO (Z.to_nat N))
  ) else (
    t1' <- I_gcd dbg w N fuel self other ;;
    t2' <- I_div_floor dbg w N fuel self t1' ;;
    t3' <- of_outcome (Mul.I_mul dbg w t2' other) ;;
    t4' <- of_outcome (AddSub.I_abs dbg w t3') ;;
    Done t4'
  ).

(* src/bint/numtraits.rs: impl Integer for $BInt<N>: fn is_multiple_of *)
Definition I_is_multiple_of (dbg : bool) (w N : Z) (fuel : nat) (self : list Z) (other : list Z) : res bool :=
  t1' <- I_mod_floor dbg w N fuel self other ;;
  Done (Core.is_zero t1').

(* src/bint/numtraits.rs: impl Integer for $BInt<N>: fn divides *)
Definition I_divides (dbg : bool) (w N : Z) (fuel : nat) (self : list Z) (other : list Z) : res bool :=
  t1' <- I_is_multiple_of dbg w N fuel self other ;;
  Done t1'.

(* src/bint/numtraits.rs: impl Integer for $BInt<N>: fn is_even *)
Definition I_is_even (w N : Z) (fuel : nat) (self : list Z) : res bool :=
  t1' <- U_is_even w N fuel self ;;
  Done t1'.

(* src/bint/numtraits.rs: impl Integer for $BInt<N>: fn is_odd *)
Definition I_is_odd (w N : Z) (fuel : nat) (self : list Z) : res bool :=
  t1' <- U_is_odd w N fuel self ;;
  Done t1'.

(* src/bint/numtraits.rs: impl Integer for $BInt<N>: fn div_rem *)
Definition I_div_rem (dbg : bool) (w N : Z) (fuel : nat) (self : list Z) (other : list Z) : res (list Z * list Z) :=
  t1' <- of_outcome (Div.I_div dbg w self other) ;;
  t2' <- of_outcome (Div.I_rem dbg w self other) ;;
  Done (t1', t2').

(* src/bint/numtraits.rs: impl PrimInt for $BInt<N>: fn signed_shl *)
Definition I_signed_shl (dbg : bool) (w N : Z) (fuel : nat) (self : list Z) (n : Z) : res (list Z) :=
  t1' <- of_outcome (Ops.I_Shl_prim dbg w Ops.AU32 self n) ;;
  Done t1'.

(* src/bint/numtraits.rs: impl PrimInt for $BInt<N>: fn signed_shr *)
Definition I_signed_shr (dbg : bool) (w N : Z) (fuel : nat) (self : list Z) (n : Z) : res (list Z) :=
  t1' <- of_outcome (Ops.I_Shr_prim dbg w Ops.AU32 self n) ;;
  Done t1'.

(* src/bint/numtraits.rs: impl PrimInt for $BInt<N>: fn unsigned_shl *)
Definition I_unsigned_shl (dbg : bool) (w N : Z) (fuel : nat) (self : list Z) (n : Z) : res (list Z) :=
  t1' <- of_outcome (Ops.I_Shl_prim dbg w Ops.AU32 self n) ;;
  Done t1'.

(* src/bint/numtraits.rs: impl PrimInt for $BInt<N>: fn unsigned_shr *)
Definition I_unsigned_shr (dbg : bool) (w N : Z) (fuel : nat) (self : list Z) (n : Z) : res (list Z) :=
  t1' <- of_outcome (Ops.U_Shr_prim dbg w Ops.AU32 self n) ;;
  Done t1'.

(* src/bint/numtraits.rs: impl Roots for $BInt<N>: fn sqrt *)
Definition I_sqrt (dbg : bool) (w N : Z) (fuel : nat) (self : list Z) : res (list Z) :=
  t1' <- I_is_negative w N fuel self ;;
  if t1' then (
    Panicked (* panic! *)
  ) else (
    t2' <- U_sqrt dbg w N fuel self ;;
    Done t2'
  ).

(* src/bint/numtraits.rs: impl Roots for $BInt<N>: fn cbrt *)
Definition I_cbrt (dbg : bool) (w N : Z) (fuel : nat) (self : list Z) : res (list Z) :=
  t1' <- I_is_negative w N fuel self ;;
  if t1' then (
    t2' <- U_cbrt dbg w N fuel (AddSub.I_unsigned_abs w self) ;;
    let out := t2' in
    t3' <- of_outcome (AddSub.I_neg dbg w out) ;;
    Done t3'
  ) else (
    t4' <- U_cbrt dbg w N fuel self ;;
    Done t4'
  ).

(* src/bint/numtraits.rs: impl Roots for $BInt<N>: fn nth_root *)
Definition I_nth_root (dbg : bool) (w N : Z) (fuel : nat) (self : list Z) (n : Z) : res (list Z) :=
  t1' <- I_is_negative w N fuel self ;;
  if t1' then (
    if (n =? 0) then (
      Panicked (* panic! *)
    ) else (
      if (n =? 1) then (
        Done self
      ) else (
        if (Z.even n) then (
          Panicked (* panic! *)
        ) else (
          t2' <- U_nth_root dbg w N fuel (AddSub.I_unsigned_abs w self) n ;;
          let out := t2' in
          Done (AddSub.I_wrapping_neg w out)
        )
      )
    )
  ) else (
    t3' <- U_nth_root dbg w N fuel self n ;;
    Done t3'
  ).

End NtGen.

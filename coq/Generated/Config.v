(* GENERATED on every run by tools/rs2v_config.py from /repo (src/lib.rs, src/digit.rs, src/types.rs,
   src/buint/consts.rs, src/bint/consts.rs).  Do not edit. *)
From Coq Require Import ZArith List String.
Import ListNotations.
Open Scope Z_scope.
Open Scope string_scope.

(* (unsigned type, signed type, digit bits) of main_impl! *)
Definition instantiations : list (string * string * Z) := [("BUint", "BInt", 64); ("BUintD32", "BIntD32", 32); ("BUintD16", "BIntD16", 16); ("BUintD8", "BIntD8", 8)].
(* digit_module!(digit, signed digit, double digit) as bit widths *)
Definition digit_modules : list (Z * Z * Z) := [(8, 8, 16); (16, 16, 32); (32, 32, 64); (64, 64, 128)].
(* cross-digit cast instantiations: (kind, source unsigned type, source digit bits, target digit bits) *)
Definition cross_casts : list (string * string * Z * Z) := [("buint", "BUint", 64, 32); ("buint", "BUint", 64, 16); ("buint", "BUint", 64, 8); ("buint", "BUintD32", 32, 64); ("buint", "BUintD32", 32, 16); ("buint", "BUintD32", 32, 8); ("buint", "BUintD16", 16, 64); ("buint", "BUintD16", 16, 32); ("buint", "BUintD16", 16, 8); ("buint", "BUintD8", 8, 64); ("buint", "BUintD8", 8, 32); ("buint", "BUintD8", 8, 16); ("bint", "BUint", 64, 32); ("bint", "BUint", 64, 16); ("bint", "BUint", 64, 8); ("bint", "BUintD32", 32, 64); ("bint", "BUintD32", 32, 16); ("bint", "BUintD32", 32, 8); ("bint", "BUintD16", 16, 64); ("bint", "BUintD16", 16, 32); ("bint", "BUintD16", 16, 8); ("bint", "BUintD8", 8, 64); ("bint", "BUintD8", 8, 32); ("bint", "BUintD8", 8, 16)].
(* alias table: (advertised bits, unsigned alias, signed alias); the digit count is bits / alias_divisor *)
Definition alias_divisor_u : Z := 64.
Definition alias_divisor_i : Z := 64.
Definition aliases : list (Z * string * string) := [(128, "U128", "I128"); (256, "U256", "I256"); (512, "U512", "I512"); (1024, "U1024", "I1024"); (2048, "U2048", "I2048"); (4096, "U4096", "I4096"); (8192, "U8192", "I8192")].
(* pos_const! / neg_const! tables: constant name -> literal *)
Definition u_pos_consts : list (string * Z) := [("ONE", 1); ("TWO", 2); ("THREE", 3); ("FOUR", 4); ("FIVE", 5); ("SIX", 6); ("SEVEN", 7); ("EIGHT", 8); ("NINE", 9); ("TEN", 10)].
Definition i_pos_consts : list (string * Z) := [("TWO", 2); ("THREE", 3); ("FOUR", 4); ("FIVE", 5); ("SIX", 6); ("SEVEN", 7); ("EIGHT", 8); ("NINE", 9); ("TEN", 10)].
Definition i_neg_consts : list (string * Z) := [("NEG_ONE", 1); ("NEG_TWO", 2); ("NEG_THREE", 3); ("NEG_FOUR", 4); ("NEG_FIVE", 5); ("NEG_SIX", 6); ("NEG_SEVEN", 7); ("NEG_EIGHT", 8); ("NEG_NINE", 9); ("NEG_TEN", 10)].
(* the defining expressions of the constants have the shape the model (Model/Consts.v) transcribes *)
Definition const_shapes : list (string * bool) := [("u_pos_const_is_from_digit", true); ("u_min_all_digit_min", true); ("u_max_all_digit_max", true); ("u_bits_is_digit_bits_times_n", true); ("u_bytes_is_bits_div_8", true); ("u_zero_is_min", true); ("i_pos_const_is_u_const", true); ("i_neg_const_is_max_minus", true); ("i_min_top_bit", true); ("i_max_top_shr1", true); ("i_bits_is_u_bits", true); ("i_bytes_is_u_bytes", true); ("i_zero_is_u_zero", true); ("i_one_is_u_one", true)].

(* GENERATED on every run by tools/rs2v_fmt.py from /repo/src/buint/fmt.rs and /repo/src/bint/fmt.rs (the formatting traits; the
   file-local macros fmt_method! / exp_fmt! / fmt_trait! are expanded at their invocations).  Do not edit.
   Every function returns the triple (is_nonnegative, prefix, body) that the impl hands to std's Formatter::pad_integral.
   Proofs/FmtGenTie.v proves the functions equal to the hand-written model Model/Fmt.v.
   Vocabulary: Model/Imp.v + Model/ImpPrint.v (for loops) + Model/ImpFmt.v (of_oo, str_eqb, str_slice, str_slice_from); std's
   primitive numerals / trim_end_matches / to_string by their Model/Fmt.v names (fmt_prim, fmt_prim_pad, fmt_usize,
   trim_end_matches, to_string; `pad` = std's pad_integral, a parameter); called by their hand-model names (tied elsewhere):
   RadixOut.U_to_str_radix, Core.is_negative, AddSub.I_unsigned_abs. *)
From Bnum Require Import Base Prim.
From Bnum.Model Require Import DigitPrims LoopPrims Core Imp ImpParse ImpDiv ImpPrint ImpFmt.
From Bnum.Model Require AddSub RadixOut Fmt.

Module FmtGen.

(* src/buint/fmt.rs: impl<const N: usize> Binary for $BUint<N>, fn fmt *)
Definition U_fmt_Binary (w N : Z) (fuel : nat) (self : list Z) : res (bool * list Z * list Z) :=
  let format_string := [] in
  t1' <- for_each (R := (bool * list Z * list Z)) (rev self)
    (fun digit format_string =>
      if (Z.of_nat (length format_string) =? 0) then (
        if (negb (digit =? 0)) then (
          let format_string := (format_string ++ Fmt.fmt_prim 2 false digit) in
          Done (Continue format_string)
        ) else (
          Done (Continue format_string)
        )
      ) else (
        let format_string := (format_string ++ Fmt.fmt_prim_pad 2 false w digit) in
        Done (Continue format_string)
      ))
    format_string ;;
  match t1' with
  | Exited format_string =>
      Done (true, [48; 98], (if (Z.of_nat (length format_string) =? 0) then [48] else format_string))
  | Returned t2' => Done t2'
  end.

(* src/buint/fmt.rs: impl<const N: usize> LowerHex for $BUint<N>, fn fmt *)
Definition U_fmt_LowerHex (w N : Z) (fuel : nat) (self : list Z) : res (bool * list Z * list Z) :=
  let format_string := [] in
  t1' <- for_each (R := (bool * list Z * list Z)) (rev self)
    (fun digit format_string =>
      if (Z.of_nat (length format_string) =? 0) then (
        if (negb (digit =? 0)) then (
          let format_string := (format_string ++ Fmt.fmt_prim 16 false digit) in
          Done (Continue format_string)
        ) else (
          Done (Continue format_string)
        )
      ) else (
        let format_string := (format_string ++ Fmt.fmt_prim_pad 16 false (w / 4) digit) in
        Done (Continue format_string)
      ))
    format_string ;;
  match t1' with
  | Exited format_string =>
      Done (true, [48; 120], (if (Z.of_nat (length format_string) =? 0) then [48] else format_string))
  | Returned t2' => Done t2'
  end.

(* src/buint/fmt.rs: impl<const N: usize> UpperHex for $BUint<N>, fn fmt *)
Definition U_fmt_UpperHex (w N : Z) (fuel : nat) (self : list Z) : res (bool * list Z * list Z) :=
  let format_string := [] in
  t1' <- for_each (R := (bool * list Z * list Z)) (rev self)
    (fun digit format_string =>
      if (Z.of_nat (length format_string) =? 0) then (
        if (negb (digit =? 0)) then (
          let format_string := (format_string ++ Fmt.fmt_prim 16 true digit) in
          Done (Continue format_string)
        ) else (
          Done (Continue format_string)
        )
      ) else (
        let format_string := (format_string ++ Fmt.fmt_prim_pad 16 true (w / 4) digit) in
        Done (Continue format_string)
      ))
    format_string ;;
  match t1' with
  | Exited format_string =>
      Done (true, [48; 120], (if (Z.of_nat (length format_string) =? 0) then [48] else format_string))
  | Returned t2' => Done t2'
  end.

(* src/buint/fmt.rs: impl<const N: usize> Octal for $BUint<N>, fn fmt *)
Definition U_fmt_Octal (w N : Z) (fuel : nat) (self : list Z) : res (bool * list Z * list Z) :=
  t1' <- of_oo (RadixOut.U_to_str_radix w self 8) ;;
  let string := t1' in
  Done (true, [48; 111], string).

(* src/buint/fmt.rs: impl<const N: usize> Display for $BUint<N>, fn fmt *)
Definition U_fmt_Display (w N : Z) (fuel : nat) (self : list Z) : res (bool * list Z * list Z) :=
  t1' <- of_oo (RadixOut.U_to_str_radix w self 10) ;;
  Done (true, [], t1').

(* src/buint/fmt.rs: impl<const N: usize> Debug for $BUint<N>, fn fmt *)
Definition U_fmt_Debug (w N : Z) (fuel : nat) (self : list Z) : res (bool * list Z * list Z) :=
  t1' <- U_fmt_Display w N fuel self ;;
  Done t1'.

(* src/buint/fmt.rs: impl<const N: usize> LowerExp for $BUint<N>, fn fmt *)
Definition U_fmt_LowerExp (w N : Z) (fuel : nat) (self : list Z) : res (bool * list Z * list Z) :=
  t1' <- of_oo (RadixOut.U_to_str_radix w self 10) ;;
  let decimal_str := t1' in
  if (str_eqb decimal_str [48]) then (
    let buf := ([48] ++ [101] ++ [48]) in
    Done (true, [], buf)
  ) else (
    t2' <- usub (Z.of_nat (length decimal_str)) 1 ;;
    let exp := t2' in
    let decimal_str'1 := (Fmt.trim_end_matches 48 decimal_str) in
    if ((Z.of_nat (length decimal_str'1)) =? 1) then (
      t3' <- str_slice decimal_str'1 0 1 ;;
      let buf := (t3' ++ [101] ++ Fmt.fmt_usize exp) in
      Done (true, [], buf)
    ) else (
      t4' <- str_slice decimal_str'1 0 1 ;;
      t5' <- str_slice_from decimal_str'1 1 ;;
      let buf := (t4' ++ [46] ++ t5' ++ [101] ++ Fmt.fmt_usize exp) in
      Done (true, [], buf)
    )
  ).

(* src/buint/fmt.rs: impl<const N: usize> UpperExp for $BUint<N>, fn fmt *)
Definition U_fmt_UpperExp (w N : Z) (fuel : nat) (self : list Z) : res (bool * list Z * list Z) :=
  t1' <- of_oo (RadixOut.U_to_str_radix w self 10) ;;
  let decimal_str := t1' in
  if (str_eqb decimal_str [48]) then (
    let buf := ([48] ++ [69] ++ [48]) in
    Done (true, [], buf)
  ) else (
    t2' <- usub (Z.of_nat (length decimal_str)) 1 ;;
    let exp := t2' in
    let decimal_str'1 := (Fmt.trim_end_matches 48 decimal_str) in
    if ((Z.of_nat (length decimal_str'1)) =? 1) then (
      t3' <- str_slice decimal_str'1 0 1 ;;
      let buf := (t3' ++ [69] ++ Fmt.fmt_usize exp) in
      Done (true, [], buf)
    ) else (
      t4' <- str_slice decimal_str'1 0 1 ;;
      t5' <- str_slice_from decimal_str'1 1 ;;
      let buf := (t4' ++ [46] ++ t5' ++ [69] ++ Fmt.fmt_usize exp) in
      Done (true, [], buf)
    )
  ).

(* src/bint/fmt.rs: impl<const N: usize> Binary for $BInt<N>, fn fmt *)
Definition I_fmt_Binary (w N : Z) (fuel : nat) (self : list Z) : res (bool * list Z * list Z) :=
  t1' <- U_fmt_Binary w N fuel self ;;
  Done t1'.

(* src/bint/fmt.rs: impl<const N: usize> LowerHex for $BInt<N>, fn fmt *)
Definition I_fmt_LowerHex (w N : Z) (fuel : nat) (self : list Z) : res (bool * list Z * list Z) :=
  t1' <- U_fmt_LowerHex w N fuel self ;;
  Done t1'.

(* src/bint/fmt.rs: impl<const N: usize> UpperHex for $BInt<N>, fn fmt *)
Definition I_fmt_UpperHex (w N : Z) (fuel : nat) (self : list Z) : res (bool * list Z * list Z) :=
  t1' <- U_fmt_UpperHex w N fuel self ;;
  Done t1'.

(* src/bint/fmt.rs: impl<const N: usize> Octal for $BInt<N>, fn fmt *)
Definition I_fmt_Octal (w N : Z) (fuel : nat) (self : list Z) : res (bool * list Z * list Z) :=
  t1' <- U_fmt_Octal w N fuel self ;;
  Done t1'.

(* src/bint/fmt.rs: impl<const N: usize> Display for $BInt<N>, fn fmt *)
Definition I_fmt_Display (w N : Z) (fuel : nat) (pad : Fmt.padder) (self : list Z) : res (bool * list Z * list Z) :=
  t1' <- U_fmt_Display w N fuel (AddSub.I_unsigned_abs w self) ;;
  Done ((negb (Core.is_negative w self)), [], (Fmt.to_string pad t1')).

(* src/bint/fmt.rs: impl<const N: usize> Debug for $BInt<N>, fn fmt *)
Definition I_fmt_Debug (w N : Z) (fuel : nat) (pad : Fmt.padder) (self : list Z) : res (bool * list Z * list Z) :=
  t1' <- I_fmt_Display w N fuel pad self ;;
  Done t1'.

(* src/bint/fmt.rs: impl<const N: usize> LowerExp for $BInt<N>, fn fmt *)
Definition I_fmt_LowerExp (w N : Z) (fuel : nat) (pad : Fmt.padder) (self : list Z) : res (bool * list Z * list Z) :=
  let uint := (AddSub.I_unsigned_abs w self) in
  t1' <- U_fmt_LowerExp w N fuel uint ;;
  Done ((negb (Core.is_negative w self)), [], (Fmt.to_string pad t1')).

(* src/bint/fmt.rs: impl<const N: usize> UpperExp for $BInt<N>, fn fmt *)
Definition I_fmt_UpperExp (w N : Z) (fuel : nat) (pad : Fmt.padder) (self : list Z) : res (bool * list Z * list Z) :=
  let uint := (AddSub.I_unsigned_abs w self) in
  t1' <- U_fmt_UpperExp w N fuel uint ;;
  Done ((negb (Core.is_negative w self)), [], (Fmt.to_string pad t1')).

End FmtGen.

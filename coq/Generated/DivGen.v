(* GENERATED on every run by tools/rs2v_div.py from /repo/src/buint/div.rs (fn basecase_div_rem, Knuth's Algorithm D).
   Do not edit.  Proofs/DivGenTie.v proves basecase_div_rem equal to the hand-written model Model/Div.v: basecase_div_rem.
   Vocabulary: Model/Imp.v + Model/ImpDiv.v (control flow, checked operations), Prim.v, Model/DigitPrims.v,
   Generated/DigitGen.v; called by their hand-model names (tied elsewhere): Div.last_digit_index, Shift.shl_internal,
   Shift.U_wrapping_shr. *)
From Bnum Require Import Base Prim.
From Bnum.Model Require Import DigitPrims LoopPrims Core Imp ImpDiv.
From Bnum.Model Require Shift Div.
From Bnum.Generated Require Import DigitGen.

Module DivGen.

(* struct Remainder<const M: usize> { first: Digit, rest: arr }  is the Gallina tuple (Z * list Z) *)
(* struct Mul<const M: usize> { last: Digit, rest: arr }  is the Gallina tuple (Z * list Z) *)

(* src/buint/div.rs: impl Remainder: fn digit   (nested in fn basecase_div_rem) *)
Definition Remainder_digit (w M : Z) (fuel : nat) (self : (Z * list Z)) (index : Z) : res (Z) :=
  if (index =? 0) then (
    Done (fst self)
  ) else (
    t1' <- usub index 1 ;;
    t2' <- arr_get (snd self) t1' ;;
    Done t2'
  ).

(* src/buint/div.rs: impl Remainder: fn shr   (nested in fn basecase_div_rem) *)
Definition Remainder_shr (w M : Z) (fuel : nat) (self : (Z * list Z)) (shift : Z) : res (list Z) :=
  let out := (ZERO (Z.to_nat M)) in
  let i := 0 in
  t3' <- while_loop (R := list Z) fuel
    (fun '(out, i) => (i <? M))
    (fun '(out, i) =>
      t1' <- Remainder_digit w M fuel self i ;;
      t2' <- dshr w t1' shift ;;
      out <- arr_set out i t2' ;;
      let i := (i + 1) in
      Done (Continue (out, i)))
    (out, i) ;;
  match t3' with
  | Exited (out, i) =>
      if (shift >? 0) then (
        let i := 0 in
        t9' <- while_loop (R := list Z) fuel
          (fun '(out, i) => (i <? M))
          (fun '(out, i) =>
            t5' <- arr_get (snd self) i ;;
            t6' <- usub w shift ;;
            t7' <- dshl w t5' t6' ;;
            t8' <- arr_get out i ;;
            out <- arr_set out i (dg_or w t8' t7') ;;
            let i := (i + 1) in
            Done (Continue (out, i)))
          (out, i) ;;
        match t9' with
        | Exited (out, i) =>
            Done out
        | Returned t10' => Done t10'
        end
      ) else (
        Done out
      )
  | Returned t4' => Done t4'
  end.

(* src/buint/div.rs: impl Remainder: fn new   (nested in fn basecase_div_rem) *)
Definition Remainder_new (w M : Z) (fuel : nat) (uint : list Z) (shift : Z) : res ((Z * list Z)) :=
  t1' <- arr_get uint 0 ;;
  t2' <- dshl w t1' shift ;;
  let first := t2' in
  t3' <- usub w shift ;;
  let rest := (Shift.U_wrapping_shr w uint t3') in
  Done (first, rest).

(* src/buint/div.rs: impl Mul: fn digit   (nested in fn basecase_div_rem) *)
Definition Mul_digit (w M : Z) (fuel : nat) (self : (Z * list Z)) (index : Z) : res (Z) :=
  if (index =? M) then (
    Done (fst self)
  ) else (
    t1' <- arr_get (snd self) index ;;
    Done t1'
  ).

(* src/buint/div.rs: impl Remainder: fn sub   (nested in fn basecase_div_rem) *)
Definition Remainder_sub (w M : Z) (fuel : nat) (self : (Z * list Z)) (rhs : (Z * list Z)) (start : Z) (range : Z) : res (((Z * list Z) * bool)) :=
  let borrow := false in
  let i := 0 in
  t5' <- while_loop (R := ((Z * list Z) * bool)) fuel
    (fun '(borrow, i, self) => (i <=? range))
    (fun '(borrow, i, self) =>
      t1' <- Remainder_digit w M fuel self (i + start) ;;
      t2' <- Mul_digit w M fuel rhs i ;;
      let '(sub, overflow) := (DigitGen.borrowing_sub w t1' t2' borrow) in
      if (andb (start =? 0) (i =? 0)) then (
        let self := (sub, (snd self)) in
        let borrow := overflow in
        let i := (i + 1) in
        Done (Continue (borrow, i, self))
      ) else (
        t3' <- usub (i + start) 1 ;;
        t4' <- arr_set (snd self) t3' sub ;;
        let self := ((fst self), t4') in
        let borrow := overflow in
        let i := (i + 1) in
        Done (Continue (borrow, i, self))
      ))
    (borrow, i, self) ;;
  match t5' with
  | Exited (borrow, i, self) =>
      Done (self, borrow)
  | Returned t6' => Done t6'
  end.

(* src/buint/div.rs: impl Remainder: fn add   (nested in fn basecase_div_rem) *)
Definition Remainder_add (w M : Z) (fuel : nat) (self : (Z * list Z)) (rhs : list Z) (start : Z) (range : Z) : res ((Z * list Z)) :=
  let carry := false in
  let i := 0 in
  t5' <- while_loop (R := (Z * list Z)) fuel
    (fun '(carry, i, self) => (i <? range))
    (fun '(carry, i, self) =>
      t1' <- Remainder_digit w M fuel self (i + start) ;;
      t2' <- arr_get rhs i ;;
      let '(sum, overflow) := (DigitGen.carrying_add w t1' t2' carry) in
      if (andb (start =? 0) (i =? 0)) then (
        let self := (sum, (snd self)) in
        let carry := overflow in
        let i := (i + 1) in
        Done (Continue (carry, i, self))
      ) else (
        t3' <- usub (i + start) 1 ;;
        t4' <- arr_set (snd self) t3' sum ;;
        let self := ((fst self), t4') in
        let carry := overflow in
        let i := (i + 1) in
        Done (Continue (carry, i, self))
      ))
    (carry, i, self) ;;
  match t5' with
  | Exited (carry, i, self) =>
      if carry then (
        if (andb (start =? 0) (range =? 0)) then (
          let self := ((dg_add w (fst self) 1), (snd self)) in
          Done self
        ) else (
          t7' <- usub (range + start) 1 ;;
          t8' <- arr_get (snd self) t7' ;;
          t9' <- usub (range + start) 1 ;;
          t10' <- arr_set (snd self) t9' (dg_add w t8' 1) ;;
          let self := ((fst self), t10') in
          Done self
        )
      ) else (
        Done self
      )
  | Returned t6' => Done t6'
  end.

(* src/buint/div.rs: impl Mul: fn new   (nested in fn basecase_div_rem) *)
Definition Mul_new (w M : Z) (fuel : nat) (uint : list Z) (rhs : Z) : res ((Z * list Z)) :=
  let rest := (repeat 0 (Z.to_nat M)) in
  let carry := 0 in
  let i := 0 in
  t2' <- while_loop (R := (Z * list Z)) fuel
    (fun '(carry, i, rest) => (i <? M))
    (fun '(carry, i, rest) =>
      t1' <- arr_get uint i ;;
      let '(prod, c) := (DigitGen.carrying_mul w t1' rhs carry 0) in
      let carry := c in
      rest <- arr_set rest i prod ;;
      let i := (i + 1) in
      Done (Continue (carry, i, rest)))
    (carry, i, rest) ;;
  match t2' with
  | Exited (carry, i, rest) =>
      Done (carry, rest)
  | Returned t3' => Done t3'
  end.

(* src/buint/div.rs: fn tuple_gt   (nested in fn basecase_div_rem) *)
Definition tuple_gt (w N : Z) (fuel : nat) (a : (Z * Z)) (b : (Z * Z)) : res (bool) :=
  Done (orb ((snd a) >? (snd b)) (andb ((snd a) =? (snd b)) ((fst a) >? (fst b)))).

(* src/buint/div.rs: fn basecase_div_rem *)
Definition basecase_div_rem (w N : Z) (fuel : nat) (self : list Z) (v : list Z) (n : Z) : res ((list Z * list Z)) :=
  let q := (ZERO (Z.to_nat N)) in
  t1' <- usub ((Z.of_nat (Div.last_digit_index self)) + 1) n ;;
  let m := t1' in
  t2' <- usub n 1 ;;
  t3' <- arr_get v t2' ;;
  let shift := (u_leading_zeros w t3') in
  let v := (Shift.shl_internal w v shift) in
  t4' <- usub n 1 ;;
  t5' <- arr_get v t4' ;;
  let v_n_m1 := t5' in
  t6' <- usub n 2 ;;
  t7' <- arr_get v t6' ;;
  let v_n_m2 := t7' in
  t8' <- Remainder_new w N fuel self shift ;;
  let u := t8' in
  let j := (m + 1) in
  t26' <- while_loop (R := (list Z * list Z)) fuel
    (fun '(q, j, u) => (j >? 0))
    (fun '(q, j, u) =>
      j <- usub j 1 ;;
      t10' <- Remainder_digit w N fuel u (j + n) ;;
      let u_jn := t10' in
      t21' <- (if (u_jn <? v_n_m1) then (
        t11' <- usub (j + n) 1 ;;
        t12' <- Remainder_digit w N fuel u t11' ;;
        let '(q_hat, r_hat) := (DigitGen.div_rem_wide w t12' u_jn v_n_m1) in
        t13' <- usub (j + n) 2 ;;
        t14' <- Remainder_digit w N fuel u t13' ;;
        t15' <- tuple_gt w N fuel (DigitGen.widening_mul w q_hat v_n_m2) (t14', r_hat) ;;
        if t15' then (
          q_hat <- dsub q_hat 1 ;;
          match dg_checked_add w r_hat v_n_m1 with
          | Some r_hat'1 =>
            t17' <- usub (j + n) 2 ;;
            t18' <- Remainder_digit w N fuel u t17' ;;
            t19' <- tuple_gt w N fuel (DigitGen.widening_mul w q_hat v_n_m2) (t18', r_hat'1) ;;
            if t19' then (
              q_hat <- dsub q_hat 1 ;;
              Done q_hat
            ) else (
              Done q_hat
            )
          | None =>
            Done q_hat
          end
        ) else (
          Done q_hat
        )
      ) else (
        Done (u_max w)
      )) ;;
      let q_hat := t21' in
      t22' <- Mul_new w N fuel v q_hat ;;
      t23' <- Remainder_sub w N fuel u t22' j n ;;
      let '(u_new, overflow) := t23' in
      let u := u_new in
      if overflow then (
        q_hat <- dsub q_hat 1 ;;
        u <- Remainder_add w N fuel u v j n ;;
        q <- arr_set q j q_hat ;;
        Done (Continue (q, j, u))
      ) else (
        q <- arr_set q j q_hat ;;
        Done (Continue (q, j, u))
      ))
    (q, j, u) ;;
  match t26' with
  | Exited (q, j, u) =>
      t28' <- Remainder_shr w N fuel u shift ;;
      Done (q, t28')
  | Returned t27' => Done t27'
  end.

End DivGen.

(* GENERATED on every run by tools/rs2v_rand.py from /repo/src/random.rs (cargo feature `rand`).  Do not edit.
   Proofs/RandGenTie*.v prove each function equal to the hand-written model Model/Random.v.
   U_ functions: the expansion uniform_int_impl!($BUint<N>, $BUint<N>); I_ functions: uniform_int_impl!($BInt<N>, $BUint<N>, to_bits, from_bits).
   The RNG is the byte stream of the hand model (Random.stream), threaded: a function with `rng: &mut R` takes it last and returns
   `drawn T = option (T * stream)` in the res monad (Model/ImpRand.v: draw / draw_in_loop, of_rres, rng_fill_digits).
   Vocabulary: Model/Imp.v (control flow), Model/ImpRand.v; by hand-model name (tied to their own source elsewhere):
   Random.U_standard / I_standard (= rng.gen(), tied below), Random.U_add_digit (Add<$Digit>), Random.mkUniform / u_low / u_range / u_z,
   AddSub.U_sub / I_sub / U_wrapping_add / .., Div.U_rem, Shift.U_shl, Bits.leading_zeros / bits_of, Mul.U_widening_mul, Core.is_zero / ucmp /
   icmp / ONE / ZERO / UMAX, Cast.to_bits / from_bits, Convert.from_digits. *)
From Bnum Require Import Base Prim.
From Bnum.Model Require Import DigitPrims LoopPrims Core Imp ImpRand.
From Bnum.Model Require AddSub Mul Div Bits Shift Cast Convert Endian Random.
From Bnum.Generated Require Import DigitGen.

Module RandGen.

(* src/buint/bigint_helpers.rs: fn widening_mul *)
Definition widening_mul (w N : Z) (fuel : nat) (self : list Z) (rhs : list Z) : res (list Z * list Z) :=
  let low := (ZERO (Z.to_nat N)) in
  let high := (ZERO (Z.to_nat N)) in
  let carry := 0 in (* declared without initialiser *)
  let i := 0 in
  t13' <- while_loop (R := (list Z * list Z)) fuel
    (fun '(low, high, carry, i) => (i <? N))
    (fun '(low, high, carry, i) =>
      let carry := 0 in
      let j := 0 in
      t5' <- while_loop (R := (list Z * list Z)) fuel
        (fun '(low, carry, j) => true)
        (fun '(low, carry, j) =>
          t1' <- usub N i ;;
          if (j <? t1') then (
            let index := (i + j) in
            t2' <- arr_get low index ;;
            let d := t2' in
            t3' <- arr_get self i ;;
            t4' <- arr_get rhs j ;;
            let '(new_digit, new_carry) := (DigitGen.carrying_mul w t3' t4' carry d) in
            let carry := new_carry in
            low <- arr_set low index new_digit ;;
            let j := (j + 1) in
            Done (Continue (low, carry, j))
          ) else (
            Done (Break (low, carry, j))
          ))
        (low, carry, j) ;;
      match t5' with
      | Exited (low, carry, j) =>
          t11' <- while_loop (R := (list Z * list Z)) fuel
            (fun '(high, carry, j) => (j <? N))
            (fun '(high, carry, j) =>
              t7' <- usub (i + j) N ;;
              let index := t7' in
              t8' <- arr_get high index ;;
              let d := t8' in
              t9' <- arr_get self i ;;
              t10' <- arr_get rhs j ;;
              let '(new_digit, new_carry) := (DigitGen.carrying_mul w t9' t10' carry d) in
              let carry := new_carry in
              high <- arr_set high index new_digit ;;
              let j := (j + 1) in
              Done (Continue (high, carry, j)))
            (high, carry, j) ;;
          match t11' with
          | Exited (high, carry, j) =>
              high <- arr_set high i carry ;;
              let i := (i + 1) in
              Done (Continue (low, high, carry, i))
          | Returned t12' => Done (Return t12')
          end
      | Returned t6' => Done (Return t6')
      end)
    (low, high, carry, i) ;;
  match t13' with
  | Exited (low, high, carry, i) =>
      Done (low, high)
  | Returned t14' => Done t14'
  end.

(* src/random.rs: macro random!, impl Distribution<$BUint<N>> for Standard, fn sample *)
Definition U_standard (w N : Z) (fuel : nat) (rng : Random.stream) : res (drawn (list Z)) :=
  let digits := (repeat 0 (Z.to_nat N)) in
  draw digits rng <- rng_fill_digits w digits rng ;;
  Done (Some ((Convert.from_digits digits), rng)).

(* src/random.rs: macro random!, impl Distribution<$BInt<N>> for Standard, fn sample *)
Definition I_standard (w N : Z) (fuel : nat) (rng : Random.stream) : res (drawn (list Z)) :=
  draw t1' rng <- of_rres (Random.U_standard w (Z.to_nat N) rng) ;;
  Done (Some ((Cast.from_bits t1'), rng)).

(* src/random.rs: uniform_int_impl!($BUint<N>, $BUint<N>), fn new_inclusive *)
Definition U_uniform_new_inclusive (dbg : bool) (w N : Z) (fuel : nat) (low_b : list Z) (high_b : list Z) : res Random.uniform :=
  let low := low_b in
  let high := high_b in
  if (cmp_le (ucmp low high)) then (
    let range := (AddSub.U_wrapping_add w (AddSub.U_wrapping_sub w high low) (ONE (Z.to_nat N))) in
    t4' <- (if (negb (is_zero range)) then (t1' <- of_outcome (AddSub.U_sub dbg w (UMAX w (Z.to_nat N)) range) ;; t2' <- of_outcome (Random.U_add_digit w t1' 1) ;; t3' <- of_outcome (Div.U_rem w t2' range) ;; Done t3') else (Done (ZERO (Z.to_nat N)))) ;;
    let ints_to_reject := t4' in
    Done (Random.mkUniform low range ints_to_reject)
  ) else (
    Panicked (* assert! *)
  ).

(* src/random.rs: uniform_int_impl!($BUint<N>, $BUint<N>), fn new *)
Definition U_uniform_new (dbg : bool) (w N : Z) (fuel : nat) (low_b : list Z) (high_b : list Z) : res Random.uniform :=
  let low := low_b in
  let high := high_b in
  if (cmp_lt (ucmp low high)) then (
    t1' <- of_outcome (AddSub.U_sub dbg w high (ONE (Z.to_nat N))) ;;
    t2' <- U_uniform_new_inclusive dbg w N fuel low t1' ;;
    Done t2'
  ) else (
    Panicked (* assert! *)
  ).

(* src/random.rs: uniform_int_impl!($BUint<N>, $BUint<N>), fn sample *)
Definition U_uniform_sample (dbg : bool) (w N : Z) (fuel : nat) (self : Random.uniform) (rng : Random.stream) : res (drawn (list Z)) :=
  let range := (Random.u_range self) in
  if (negb (is_zero range)) then (
    t1' <- of_outcome (AddSub.U_sub dbg w (UMAX w (Z.to_nat N)) (Random.u_z self)) ;;
    let zone := t1' in
    t3' <- while_loop (R := (drawn (list Z))) fuel
      (fun rng => true)
      (fun rng =>
        draw_in_loop t2' rng <- of_rres (Random.U_standard w (Z.to_nat N) rng) ;;
        let v := t2' in
        let '(lo, hi) := (Mul.U_widening_mul w v range) in
        if (cmp_le (ucmp lo zone)) then (
          Done (Return (Some ((AddSub.U_wrapping_add w (Random.u_low self) hi), rng)))
        ) else (
          Done (Continue rng)
        ))
      rng ;;
    match t3' with
    | Exited rng =>
        Panicked (* unreachable: a `loop` without `break` is only left by `return` *)
    | Returned t4' => Done t4'
    end
  ) else (
    draw t5' rng <- of_rres (Random.U_standard w (Z.to_nat N) rng) ;;
    Done (Some (t5', rng))
  ).

(* src/random.rs: uniform_int_impl!($BUint<N>, $BUint<N>), fn sample_single_inclusive *)
Definition U_sample_single_inclusive (dbg : bool) (w N : Z) (fuel : nat) (low_b : list Z) (high_b : list Z) (rng : Random.stream) : res (drawn (list Z)) :=
  let low := low_b in
  let high := high_b in
  if (cmp_le (ucmp low high)) then (
    let range := (AddSub.U_wrapping_add w (AddSub.U_wrapping_sub w high low) (ONE (Z.to_nat N))) in
    if (is_zero range) then (
      draw t1' rng <- of_rres (Random.U_standard w (Z.to_nat N) rng) ;;
      Done (Some (t1', rng))
    ) else (
      t7' <- (if ((Bits.bits_of w (UMAX w (Z.to_nat N))) <=? 16) then (t2' <- of_outcome (AddSub.U_sub dbg w (UMAX w (Z.to_nat N)) range) ;; t3' <- of_outcome (Random.U_add_digit w t2' 1) ;; t4' <- of_outcome (Div.U_rem w t3' range) ;; let ints_to_reject := t4' in t5' <- of_outcome (AddSub.U_sub dbg w (UMAX w (Z.to_nat N)) ints_to_reject) ;; Done t5') else (t6' <- of_outcome (Shift.U_shl dbg w range (Bits.leading_zeros w range)) ;; Done (AddSub.U_wrapping_sub w t6' (ONE (Z.to_nat N))))) ;;
      let zone := t7' in
      t9' <- while_loop (R := (drawn (list Z))) fuel
        (fun rng => true)
        (fun rng =>
          draw_in_loop t8' rng <- of_rres (Random.U_standard w (Z.to_nat N) rng) ;;
          let v := t8' in
          let '(lo, hi) := (Mul.U_widening_mul w v range) in
          if (cmp_le (ucmp lo zone)) then (
            Done (Return (Some ((AddSub.U_wrapping_add w low hi), rng)))
          ) else (
            Done (Continue rng)
          ))
        rng ;;
      match t9' with
      | Exited rng =>
          Panicked (* unreachable: a `loop` without `break` is only left by `return` *)
      | Returned t10' => Done t10'
      end
    )
  ) else (
    Panicked (* assert! *)
  ).

(* src/random.rs: uniform_int_impl!($BUint<N>, $BUint<N>), fn sample_single *)
Definition U_sample_single (dbg : bool) (w N : Z) (fuel : nat) (low_b : list Z) (high_b : list Z) (rng : Random.stream) : res (drawn (list Z)) :=
  let low := low_b in
  let high := high_b in
  if (cmp_lt (ucmp low high)) then (
    t1' <- of_outcome (AddSub.U_sub dbg w high (ONE (Z.to_nat N))) ;;
    draw t2' rng <- U_sample_single_inclusive dbg w N fuel low t1' rng ;;
    Done (Some (t2', rng))
  ) else (
    Panicked (* assert! *)
  ).

(* src/random.rs: uniform_int_impl!($BInt<N>, $BUint<N>, to_bits, from_bits), fn new_inclusive *)
Definition I_uniform_new_inclusive (dbg : bool) (w N : Z) (fuel : nat) (low_b : list Z) (high_b : list Z) : res Random.uniform :=
  let low := low_b in
  let high := high_b in
  if (cmp_le (icmp w low high)) then (
    let range := (Cast.to_bits (AddSub.I_wrapping_add w (AddSub.I_wrapping_sub w high low) (Cast.from_bits (ONE (Z.to_nat N))))) in
    t4' <- (if (negb (is_zero range)) then (t1' <- of_outcome (AddSub.U_sub dbg w (UMAX w (Z.to_nat N)) range) ;; t2' <- of_outcome (Random.U_add_digit w t1' 1) ;; t3' <- of_outcome (Div.U_rem w t2' range) ;; Done t3') else (Done (ZERO (Z.to_nat N)))) ;;
    let ints_to_reject := t4' in
    Done (Random.mkUniform low (Cast.from_bits range) (Cast.from_bits ints_to_reject))
  ) else (
    Panicked (* assert! *)
  ).

(* src/random.rs: uniform_int_impl!($BInt<N>, $BUint<N>, to_bits, from_bits), fn new *)
Definition I_uniform_new (dbg : bool) (w N : Z) (fuel : nat) (low_b : list Z) (high_b : list Z) : res Random.uniform :=
  let low := low_b in
  let high := high_b in
  if (cmp_lt (icmp w low high)) then (
    t1' <- of_outcome (AddSub.I_sub dbg w high (Cast.from_bits (ONE (Z.to_nat N)))) ;;
    t2' <- I_uniform_new_inclusive dbg w N fuel low t1' ;;
    Done t2'
  ) else (
    Panicked (* assert! *)
  ).

(* src/random.rs: uniform_int_impl!($BInt<N>, $BUint<N>, to_bits, from_bits), fn sample *)
Definition I_uniform_sample (dbg : bool) (w N : Z) (fuel : nat) (self : Random.uniform) (rng : Random.stream) : res (drawn (list Z)) :=
  let range := (Cast.to_bits (Random.u_range self)) in
  if (negb (is_zero range)) then (
    t1' <- of_outcome (AddSub.U_sub dbg w (UMAX w (Z.to_nat N)) (Cast.to_bits (Random.u_z self))) ;;
    let zone := t1' in
    t3' <- while_loop (R := (drawn (list Z))) fuel
      (fun rng => true)
      (fun rng =>
        draw_in_loop t2' rng <- of_rres (Random.U_standard w (Z.to_nat N) rng) ;;
        let v := t2' in
        let '(lo, hi) := (Mul.U_widening_mul w v range) in
        if (cmp_le (ucmp lo zone)) then (
          Done (Return (Some ((AddSub.I_wrapping_add w (Random.u_low self) (Cast.from_bits hi)), rng)))
        ) else (
          Done (Continue rng)
        ))
      rng ;;
    match t3' with
    | Exited rng =>
        Panicked (* unreachable: a `loop` without `break` is only left by `return` *)
    | Returned t4' => Done t4'
    end
  ) else (
    draw t5' rng <- of_rres (Random.I_standard w (Z.to_nat N) rng) ;;
    Done (Some (t5', rng))
  ).

(* src/random.rs: uniform_int_impl!($BInt<N>, $BUint<N>, to_bits, from_bits), fn sample_single_inclusive *)
Definition I_sample_single_inclusive (dbg : bool) (w N : Z) (fuel : nat) (low_b : list Z) (high_b : list Z) (rng : Random.stream) : res (drawn (list Z)) :=
  let low := low_b in
  let high := high_b in
  if (cmp_le (icmp w low high)) then (
    let range := (Cast.to_bits (AddSub.I_wrapping_add w (AddSub.I_wrapping_sub w high low) (Cast.from_bits (ONE (Z.to_nat N))))) in
    if (is_zero range) then (
      draw t1' rng <- of_rres (Random.I_standard w (Z.to_nat N) rng) ;;
      Done (Some (t1', rng))
    ) else (
      t7' <- (if ((Bits.bits_of w (UMAX w (Z.to_nat N))) <=? 16) then (t2' <- of_outcome (AddSub.U_sub dbg w (UMAX w (Z.to_nat N)) range) ;; t3' <- of_outcome (Random.U_add_digit w t2' 1) ;; t4' <- of_outcome (Div.U_rem w t3' range) ;; let ints_to_reject := t4' in t5' <- of_outcome (AddSub.U_sub dbg w (UMAX w (Z.to_nat N)) ints_to_reject) ;; Done t5') else (t6' <- of_outcome (Shift.U_shl dbg w range (Bits.leading_zeros w range)) ;; Done (AddSub.U_wrapping_sub w t6' (ONE (Z.to_nat N))))) ;;
      let zone := t7' in
      t9' <- while_loop (R := (drawn (list Z))) fuel
        (fun rng => true)
        (fun rng =>
          draw_in_loop t8' rng <- of_rres (Random.U_standard w (Z.to_nat N) rng) ;;
          let v := t8' in
          let '(lo, hi) := (Mul.U_widening_mul w v range) in
          if (cmp_le (ucmp lo zone)) then (
            Done (Return (Some ((AddSub.I_wrapping_add w low (Cast.from_bits hi)), rng)))
          ) else (
            Done (Continue rng)
          ))
        rng ;;
      match t9' with
      | Exited rng =>
          Panicked (* unreachable: a `loop` without `break` is only left by `return` *)
      | Returned t10' => Done t10'
      end
    )
  ) else (
    Panicked (* assert! *)
  ).

(* src/random.rs: uniform_int_impl!($BInt<N>, $BUint<N>, to_bits, from_bits), fn sample_single *)
Definition I_sample_single (dbg : bool) (w N : Z) (fuel : nat) (low_b : list Z) (high_b : list Z) (rng : Random.stream) : res (drawn (list Z)) :=
  let low := low_b in
  let high := high_b in
  if (cmp_lt (icmp w low high)) then (
    t1' <- of_outcome (AddSub.I_sub dbg w high (Cast.from_bits (ONE (Z.to_nat N)))) ;;
    draw t2' rng <- I_sample_single_inclusive dbg w N fuel low t1' rng ;;
    Done (Some (t2', rng))
  ) else (
    Panicked (* assert! *)
  ).

(* src/random.rs: fill_impl!($BUint<N>), fn try_fill *)
Definition U_try_fill (w N : Z) (fuel : nat) (self : list (list Z)) (rng : Random.stream) : res (drawn (list (list Z))) :=
  if ((Z.of_nat (length self)) >? 0) then (
    draw self rng <- rng_fill_raw w N self ((Z.of_nat (length self)) * (size_of_bnum w N)) rng ;;
    let self := (map Endian.U_to_le self) in
    Done (Some (self, rng))
  ) else (
    Done (Some (self, rng))
  ).

(* src/random.rs: fill_impl!($BInt<N>), fn try_fill *)
Definition I_try_fill (w N : Z) (fuel : nat) (self : list (list Z)) (rng : Random.stream) : res (drawn (list (list Z))) :=
  if ((Z.of_nat (length self)) >? 0) then (
    draw self rng <- rng_fill_raw w N self ((Z.of_nat (length self)) * (size_of_bnum w N)) rng ;;
    let self := (map Endian.I_to_le self) in
    Done (Some (self, rng))
  ) else (
    Done (Some (self, rng))
  ).

(* src/random.rs: fn try_fill_slice at T = $BUint<N> (text pattern-checked: `&mut [T]` re-read as `&mut Slice<T>`, then Fill::try_fill) *)
Definition U_try_fill_slice (w N : Z) (fuel : nat) (slice : list (list Z)) (rng : Random.stream) : res (drawn (list (list Z))) :=
  draw slice rng <- U_try_fill w N fuel slice rng ;;
  Done (Some (slice, rng)).

(* src/random.rs: fn try_fill_slice at T = $BInt<N> (text pattern-checked: `&mut [T]` re-read as `&mut Slice<T>`, then Fill::try_fill) *)
Definition I_try_fill_slice (w N : Z) (fuel : nat) (slice : list (list Z)) (rng : Random.stream) : res (drawn (list (list Z))) :=
  draw slice rng <- I_try_fill w N fuel slice rng ;;
  Done (Some (slice, rng)).

End RandGen.

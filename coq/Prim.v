(* Prim.v — Rust's primitive machine-integer operations, MODELLED (not verified).
   A w-bit unsigned word is a Z in [0, 2^w); a w-bit signed word is a Z in
   [-2^(w-1), 2^(w-1)).  Each definition is one line and is exercised against
   the real primitive by the correspondence harness. *)
From Bnum Require Import Base.

(* `x as iW` / `x as uW` between same-width words *)
Definition sd (w d : Z) : Z := to_signed (B w) d.
Definition ud (w s : Z) : Z := s mod B w.

(* uW::overflowing_add / overflowing_sub *)
Definition u_ovf_add (w a b : Z) : Z * bool := ((a + b) mod B w, B w <=? a + b).
Definition u_ovf_sub (w a b : Z) : Z * bool := ((a - b) mod B w, a <? b).
(* iW::overflowing_add / overflowing_sub *)
Definition s_ovf_add (w a b : Z) : Z * bool := (wrapS (B w) (a + b), negb (inS (B w) (a + b))).
Definition s_ovf_sub (w a b : Z) : Z * bool := (wrapS (B w) (a - b), negb (inS (B w) (a - b))).

(* !x, &, |, ^ on uW *)
Definition u_not (w d : Z) : Z := B w - 1 - d.
Definition u_and (a b : Z) : Z := Z.land a b.
Definition u_or (a b : Z) : Z := Z.lor a b.
Definition u_xor (a b : Z) : Z := Z.lxor a b.

(* x << s and x >> s on uW for 0 <= s < w (Rust panics/UB otherwise; callers guarantee it) *)
Definition u_shl (w x s : Z) : Z := (x * 2 ^ s) mod B w.
Definition u_shr (x s : Z) : Z := x / 2 ^ s.

(* uW::MAX *)
Definition u_max (w : Z) : Z := B w - 1.

(* counting primitives on uW *)
Definition bitlen (x : Z) : Z := if x =? 0 then 0 else Z.log2 x + 1.
Definition u_leading_zeros (w x : Z) : Z := w - bitlen x.
Fixpoint tz_pos (p : positive) : Z :=
  match p with xO q => 1 + tz_pos q | _ => 0 end.
Definition u_trailing_zeros (w x : Z) : Z :=
  match x with Zpos p => tz_pos p | _ => w end.
Fixpoint popcount_pos (p : positive) : Z :=
  match p with xH => 1 | xO q => popcount_pos q | xI q => 1 + popcount_pos q end.
Definition u_count_ones (x : Z) : Z :=
  match x with Zpos p => popcount_pos p | _ => 0 end.
Definition u_leading_ones (w x : Z) : Z := u_leading_zeros w (u_not w x).
Definition u_trailing_ones (w x : Z) : Z := u_trailing_zeros w (u_not w x).

(* bit i of x *)
Definition u_bit (x i : Z) : bool := Z.testbit x i.

(* reverse the low `k` bits of x (k as nat): reverse_bits on a k-bit word *)
Fixpoint rev_bits (k : nat) (x : Z) : Z :=
  match k with
  | O => 0
  | S k' => (x mod 2) * 2 ^ Z.of_nat k' + rev_bits k' (x / 2)
  end.
(* swap_bytes on a word of `k` bytes *)
Fixpoint rev_bytes (k : nat) (x : Z) : Z :=
  match k with
  | O => 0
  | S k' => (x mod 256) * 256 ^ Z.of_nat k' + rev_bytes k' (x / 256)
  end.
Definition u_reverse_bits (w x : Z) : Z := rev_bits (Z.to_nat w) x.
Definition u_swap_bytes (w x : Z) : Z := rev_bytes (Z.to_nat (w / 8)) x.

(* a Rust `u32`/`usize` quantity: the models compute in Z; this is the range *)
Definition u32_max : Z := 2 ^ 32 - 1.

(* Model/Div.v — src/buint/checked.rs (div_rem_digit, div_rem_unchecked, div_rem, the checked forms),
   src/buint/div.rs (Knuth D: basecase_div_rem with its Remainder / Mul helpers),
   signed wrappers of src/bint/overflowing.rs, src/bint/checked.rs, src/bint/wrapping.rs,
   div / rem / *_euclid / div_floor / div_ceil / next_multiple_of of both mod.rs files. *)
From Bnum Require Import Base Prim.
From Bnum.Model Require Import Digit Core Shift AddSub Mul.

Definition nth_d (i : nat) (l : list Z) : Z := nth i l 0.
Definition upd (i : nat) (v : Z) (l : list Z) : list Z := set_nth i (fun _ => v) l.

(* div_rem_digit: from the top digit down; `rds` is the digit list reversed *)
Fixpoint div_rem_digit_loop (w : Z) (rds : list Z) (rhs rem : Z) : list Z * Z :=
  match rds with
  | [] => ([], rem)
  | d :: r =>
      let '(q, r1) := div_rem_wide w d rem rhs in
      let '(qs, rf) := div_rem_digit_loop w r rhs r1 in (q :: qs, rf)
  end.
Definition div_rem_digit (w : Z) (ds : list Z) (rhs : Z) : list Z * Z :=
  let '(qs, r) := div_rem_digit_loop w (rev ds) rhs 0 in (rev qs, r).

Fixpoint last_digit_index_from (i : nat) (ds : list Z) (index : nat) : nat :=
  match ds with
  | [] => index
  | d :: r => last_digit_index_from (S i) r (if d =? 0 then index else i)
  end.
Definition last_digit_index (ds : list Z) : nat :=
  match ds with [] => O | _ :: r => last_digit_index_from 1 r 0 end.

(* Mul::new(v, q): M+1 digits, the last one the final carry *)
Fixpoint mul_digit_loop (w : Z) (v : list Z) (q carry : Z) : list Z :=
  match v with
  | [] => [carry]
  | d :: r => let '(p, c) := carrying_mul w d q carry 0 in p :: mul_digit_loop w r q c
  end.
Definition Mul_new (w : Z) (v : list Z) (q : Z) : list Z := mul_digit_loop w v q 0.
(* Mul::digit(index): index = M -> last, else rest[index]; as a list it is just nth *)

(* Remainder::new(uint, shift): N+1 digits first :: rest *)
Definition Remainder_new (w : Z) (ds : list Z) (shift : Z) : list Z :=
  u_shl w (hd 0 ds) shift :: U_wrapping_shr w ds (w - shift).

(* Remainder::sub(rhs : Mul, start, range): digits start..=start+range *)
Definition Remainder_sub (w : Z) (u mul : list Z) (start range : nat) : list Z * bool :=
  let pre := firstn start u in
  let win := firstn (S range) (skipn start u) in
  let post := skipn (start + S range) u in
  let '(win', borrow) := sub_loop w win (firstn (S range) mul) false in
  (pre ++ win' ++ post, borrow).

(* Remainder::add(rhs : BUint, start, range): digits start..start+range, then the carry into
   digit start+range with wrapping_add *)
Definition Remainder_add (w : Z) (u v : list Z) (start range : nat) : list Z :=
  let pre := firstn start u in
  let win := firstn range (skipn start u) in
  let post := skipn (start + range) u in
  let '(win', carry) := add_loop w win (firstn range v) false in
  let u' := pre ++ win' ++ post in
  if carry then set_nth (start + range) (fun d => (d + 1) mod B w) u' else u'.

(* Remainder::shr(shift): the low N digits of U >> shift *)
Fixpoint Remainder_shr_loop (w shift : Z) (u : list Z) : list Z :=
  match u with
  | d :: ((d' :: _) as r) =>
      (if 0 <? shift then u_or (u_shr d shift) (u_shl w d' (w - shift)) else u_shr d shift)
      :: Remainder_shr_loop w shift r
  | _ => []
  end.
Definition Remainder_shr (w : Z) (u : list Z) (shift : Z) : list Z := Remainder_shr_loop w shift u.

Definition tuple_gt (a b : Z * Z) : bool :=
  (snd b <? snd a) || ((snd a =? snd b) && (fst b <? fst a)).

Definition knuth_qhat (w : Z) (u : list Z) (j n : nat) (v_n_m1 v_n_m2 : Z) : Z :=
  let u_jn := nth_d (j + n) u in
  if u_jn <? v_n_m1 then
    let '(q_hat, r_hat) := div_rem_wide w (nth_d (j + n - 1) u) u_jn v_n_m1 in
    let u2 := nth_d (j + n - 2) u in
    if tuple_gt (widening_mul w q_hat v_n_m2) (u2, r_hat) then
      let q_hat := q_hat - 1 in
      (* r_hat.checked_add(v_n_m1) *)
      if r_hat + v_n_m1 <? B w then
        if tuple_gt (widening_mul w q_hat v_n_m2) (u2, r_hat + v_n_m1) then q_hat - 1 else q_hat
      else q_hat
    else q_hat
  else u_max w.

Fixpoint knuth_loop (w : Z) (cnt : nat) (n : nat) (v : list Z) (v_n_m1 v_n_m2 : Z)
         (u q : list Z) : list Z * list Z :=
  match cnt with
  | O => (q, u)
  | S j =>
      let q_hat := knuth_qhat w u j n v_n_m1 v_n_m2 in
      let '(u1, overflow) := Remainder_sub w u (Mul_new w v q_hat) j n in
      let '(q_hat', u2) := if overflow then (q_hat - 1, Remainder_add w u1 v j n) else (q_hat, u1) in
      knuth_loop w j n v v_n_m1 v_n_m2 u2 (upd j q_hat' q)
  end.

Definition basecase_div_rem (w : Z) (a v : list Z) (n : nat) : list Z * list Z :=
  let N := length a in
  let m := (last_digit_index a + 1 - n)%nat in
  let shift := u_leading_zeros w (nth_d (n - 1) v) in
  let v := shl_internal w v shift in
  let v_n_m1 := nth_d (n - 1) v in
  let v_n_m2 := nth_d (n - 2) v in
  let u := Remainder_new w a shift in
  let '(q, u') := knuth_loop w (m + 1) n v v_n_m1 v_n_m2 u (ZERO N) in
  (q, Remainder_shr w u' shift).

Definition U_div_rem_unchecked (w : Z) (a b : list Z) : list Z * list Z :=
  let N := length a in
  if is_zero a then (ZERO N, ZERO N)
  else match ucmp a b with
       | Lt => (ZERO N, a)
       | Eq => (ONE N, ZERO N)
       | Gt =>
           let ldi := last_digit_index b in
           if Nat.eqb ldi 0 then
             let '(d, r) := div_rem_digit w a (hd 0 b) in (d, from_digit N r)
           else basecase_div_rem w a b (ldi + 1)
       end.

Definition U_div_rem (w : Z) (a b : list Z) : outcome (list Z * list Z) :=
  if is_zero b then Panic else Ret (U_div_rem_unchecked w a b).
Definition U_checked_div w a b := if is_zero b then None else Some (fst (U_div_rem_unchecked w a b)).
Definition U_checked_rem w a b := if is_zero b then None else Some (snd (U_div_rem_unchecked w a b)).
Definition U_checked_div_euclid := U_checked_div.
Definition U_checked_rem_euclid := U_checked_rem.
Definition U_wrapping_div w a b := option_expect (U_checked_div w a b).
Definition U_wrapping_rem w a b := option_expect (U_checked_rem w a b).
Definition U_wrapping_div_euclid := U_wrapping_div.
Definition U_wrapping_rem_euclid := U_wrapping_rem.
Definition U_overflowing_div w a b := omap (fun q => (q, false)) (U_wrapping_div w a b).
Definition U_overflowing_rem w a b := omap (fun q => (q, false)) (U_wrapping_rem w a b).
Definition U_overflowing_div_euclid := U_overflowing_div.
Definition U_overflowing_rem_euclid := U_overflowing_rem.
Definition U_div := U_wrapping_div.
Definition U_rem := U_wrapping_rem.
Definition U_div_euclid := U_wrapping_div_euclid.
Definition U_rem_euclid := U_wrapping_rem_euclid.
Definition U_saturating_div := U_div_euclid.
Definition U_strict_div := U_div.
Definition U_strict_rem := U_rem.
Definition U_div_floor := U_wrapping_div.
Definition U_div_ceil (dbg : bool) (w : Z) (a b : list Z) : outcome (list Z) :=
  obind (U_div_rem w a b) (fun '(d, r) => if is_zero r then Ret d else U_add dbg w d (ONE (length a))).
Definition U_next_multiple_of (dbg : bool) (w : Z) (a b : list Z) : outcome (list Z) :=
  obind (U_wrapping_rem w a b) (fun rem =>
    if is_zero rem then Ret a else obind (U_sub dbg w b rem) (fun d => U_add dbg w a d)).
(* rhs.sub(rem) is evaluated with the inherent (debug: strict) sub even in the checked form *)
Definition U_checked_next_multiple_of (dbg : bool) (w : Z) (a b : list Z) : outcome (option (list Z)) :=
  match U_checked_rem w a b with
  | Some rem => if is_zero rem then Ret (Some a)
                else omap (fun d => U_checked_add w a d) (U_sub dbg w b rem)
  | None => Ret None
  end.

(* ---- signed ---- *)
(* the four sign cases negate with the inherent neg (debug: strict) *)
Definition I_div_rem_unchecked (dbg : bool) (w : Z) (a b : list Z) : outcome (list Z * list Z) :=
  let N := length a in
  if eq_digits a (IMIN w N) && is_one b then Ret (a, ZERO N)
  else
    let '(d, r) := U_div_rem_unchecked w (I_unsigned_abs w a) (I_unsigned_abs w b) in
    match is_negative w a, is_negative w b with
    | false, false => Ret (d, r)
    | false, true => omap (fun d' => (d', r)) (I_neg dbg w d)
    | true, false => obind (I_neg dbg w d) (fun d' => omap (fun r' => (d', r')) (I_neg dbg w r))
    | true, true => omap (fun r' => (d, r')) (I_neg dbg w r)
    end.

Definition I_overflowing_div (dbg : bool) (w : Z) (a b : list Z) : outcome (list Z * bool) :=
  let N := length a in
  if is_zero b then Panic
  else if eq_digits a (IMIN w N) && eq_digits b (NEG_ONE w N) then Ret (a, true)
  else if eq_digits a (IMIN w N) && is_one b then Ret (a, false)
  else omap (fun p => (fst p, false)) (I_div_rem_unchecked dbg w a b).

Definition I_overflowing_div_euclid (dbg : bool) (w : Z) (a b : list Z) : outcome (list Z * bool) :=
  let N := length a in
  if is_zero b then Panic
  else if eq_digits a (IMIN w N) && eq_digits b (NEG_ONE w N) then Ret (a, true)
  else if eq_digits a (IMIN w N) && is_one b then Ret (a, false)
  else obind (I_div_rem_unchecked dbg w a b) (fun '(d, r) =>
    if is_negative w a && negb (is_zero r) then
      if is_negative w b then omap (fun x => (x, false)) (I_add dbg w d (ONE N))
      else omap (fun x => (x, false)) (I_sub dbg w d (ONE N))
    else Ret (d, false)).

Definition I_overflowing_rem (dbg : bool) (w : Z) (a b : list Z) : outcome (list Z * bool) :=
  let N := length a in
  if is_zero b then Panic
  else if eq_digits a (IMIN w N) && eq_digits b (NEG_ONE w N) then Ret (ZERO N, true)
  else omap (fun p => (snd p, false)) (I_div_rem_unchecked dbg w a b).

Definition I_overflowing_rem_euclid (dbg : bool) (w : Z) (a b : list Z) : outcome (list Z * bool) :=
  let N := length a in
  if is_zero b then Panic
  else if eq_digits a (IMIN w N) && eq_digits b (NEG_ONE w N) then Ret (ZERO N, true)
  else omap (fun p =>
         let rem := snd p in
         if is_negative w rem then
           (if is_negative w b then I_wrapping_sub w rem b else I_wrapping_add w rem b, false)
         else (rem, false)) (I_div_rem_unchecked dbg w a b).

Definition ocheck {A} (zero_rhs : bool) (o : outcome (A * bool)) : outcome (option A) :=
  if zero_rhs then Ret None else omap tuple_to_option o.
Definition I_checked_div dbg w a b := ocheck (is_zero b) (I_overflowing_div dbg w a b).
Definition I_checked_div_euclid dbg w a b := ocheck (is_zero b) (I_overflowing_div_euclid dbg w a b).
Definition I_checked_rem dbg w a b := ocheck (is_zero b) (I_overflowing_rem dbg w a b).
Definition I_checked_rem_euclid dbg w a b := ocheck (is_zero b) (I_overflowing_rem_euclid dbg w a b).
Definition I_wrapping_div dbg w a b := omap fst (I_overflowing_div dbg w a b).
Definition I_wrapping_div_euclid dbg w a b := omap fst (I_overflowing_div_euclid dbg w a b).
Definition I_wrapping_rem dbg w a b := omap fst (I_overflowing_rem dbg w a b).
Definition I_wrapping_rem_euclid dbg w a b := omap fst (I_overflowing_rem_euclid dbg w a b).
Definition I_saturating_div dbg w a b :=
  omap (fun p : list Z * bool => if snd p then IMAX w (length a) else fst p) (I_overflowing_div dbg w a b).

(* inherent div / rem: MIN / -1 panics in both build modes, then zero divisor panics *)
Definition I_div (dbg : bool) (w : Z) (a b : list Z) : outcome (list Z) :=
  let N := length a in
  if eq_digits a (IMIN w N) && eq_digits b (NEG_ONE w N) then Panic
  else if is_zero b then Panic else omap fst (I_div_rem_unchecked dbg w a b).
Definition I_rem (dbg : bool) (w : Z) (a b : list Z) : outcome (list Z) :=
  let N := length a in
  if eq_digits a (IMIN w N) && eq_digits b (NEG_ONE w N) then Panic
  else if is_zero b then Panic else omap snd (I_div_rem_unchecked dbg w a b).
Definition I_strict_div := I_div.
Definition I_strict_rem := I_rem.
Definition I_div_euclid (dbg : bool) (w : Z) (a b : list Z) : outcome (list Z) :=
  let N := length a in
  if eq_digits a (IMIN w N) && eq_digits b (NEG_ONE w N) then Panic
  else I_wrapping_div_euclid dbg w a b.
Definition I_rem_euclid (dbg : bool) (w : Z) (a b : list Z) : outcome (list Z) :=
  let N := length a in
  if eq_digits a (IMIN w N) && eq_digits b (NEG_ONE w N) then Panic
  else I_wrapping_rem_euclid dbg w a b.

Definition I_div_floor (dbg : bool) (w : Z) (a b : list Z) : outcome (list Z) :=
  if is_zero b then Panic
  else obind (I_div_rem_unchecked dbg w a b) (fun '(d, r) =>
    if is_zero r || Bool.eqb (is_negative w a) (is_negative w b) then Ret d
    else I_sub dbg w d (ONE (length a))).
Definition I_div_ceil (dbg : bool) (w : Z) (a b : list Z) : outcome (list Z) :=
  if is_zero b then Panic
  else obind (I_div_rem_unchecked dbg w a b) (fun '(d, r) =>
    if is_zero r || negb (Bool.eqb (is_negative w a) (is_negative w b)) then Ret d
    else I_add dbg w d (ONE (length a))).

Definition I_next_multiple_of (dbg : bool) (w : Z) (a b : list Z) : outcome (list Z) :=
  obind (I_wrapping_rem_euclid dbg w a b) (fun rem =>
    if is_zero rem then Ret a
    else if Bool.eqb (is_negative w rem) (is_negative w b)
         then obind (I_sub dbg w b rem) (fun d => I_add dbg w a d)
         else I_sub dbg w a rem).
Definition I_checked_next_multiple_of (dbg : bool) (w : Z) (a b : list Z) : outcome (option (list Z)) :=
  if is_zero b then Ret None
  else obind (I_wrapping_rem_euclid dbg w a b) (fun rem =>
    if is_zero rem then Ret (Some a)
    else if Bool.eqb (is_negative w rem) (is_negative w b)
         then Ret (I_checked_add w a (I_wrapping_sub w b rem))
         else Ret (I_checked_sub w a rem)).

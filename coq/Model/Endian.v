(* Model/Endian.v — src/buint/endian.rs and src/bint/endian.rs, function by function:
   from_be / from_le / to_be / to_le, from_be_slice / from_le_slice (BUint and BInt, including
   the set_digit! macro of bint/endian.rs) and the nightly-only to_{be,le,ne}_bytes /
   from_{be,le,ne}_bytes.

   A byte slice / byte array is a `list Z` with every element in [0,256).
   The digit width w is a multiple of 8; a digit has `dbytes w = w/8` bytes (digit::BYTES).

   Target endianness: the code selects `x.swap_bytes()` or `x` under cfg(target_endian).
   The harness and the pinned command run on x86-64, a LITTLE-endian target, so the model
   transcribes the cfg(not(target_endian = "big")) / cfg(target_endian = "little") branches
   (trusted-base item: "64-bit little-endian target").

   `len >> BYTE_SHIFT` and `len & (BYTES - 1)` are written `len / dbytes` and `len mod dbytes`
   (their meaning for Rust's BYTES = 1,2,4,8 = 2^BYTE_SHIFT); the theorems hold for every
   multiple of 8.  No proofs here. *)
From Bnum Require Import Base Prim.
From Bnum.Model Require Import Core Shift Bits.

(* ---------- primitive uW <-> [u8; BYTES] conversions (Prim.v style: modelled, trusted) ---------- *)

(* uW::from_le_bytes: first byte least significant *)
Fixpoint u_from_le_bytes (bs : list Z) : Z :=
  match bs with
  | [] => 0
  | b :: r => b + 256 * u_from_le_bytes r
  end.
(* uW::from_be_bytes: first byte most significant (Horner) *)
Definition u_from_be_bytes (bs : list Z) : Z := fold_left (fun acc b => acc * 256 + b) bs 0.
(* uW::to_le_bytes / to_be_bytes on a word of k bytes *)
Fixpoint u_to_le_bytes (k : nat) (x : Z) : list Z :=
  match k with
  | O => []
  | S k' => x mod 256 :: u_to_le_bytes k' (x / 256)
  end.
Definition u_to_be_bytes (k : nat) (x : Z) : list Z := rev (u_to_le_bytes k x).
(* (b as i8).is_negative() on a byte *)
Definition byte_is_negative (b : Z) : bool := sd 8 b <? 0.

Definition byte_okb (b : Z) : bool := (0 <=? b) && (b <? 256).
Definition bytes_okb (bs : list Z) : bool := forallb byte_okb bs.

(* digit::BYTES *)
Definition dbytes (w : Z) : nat := Z.to_nat (w / 8).

(* slice[start .. start + count] (the inner `while j < ...` byte-copy loops) *)
Definition sub_bytes (bs : list Z) (start count : nat) : list Z := firstn count (skipn start bs).

(* ---------- to_be / from_be / to_le / from_le (little-endian target) ---------- *)

Definition U_from_be (w : Z) (x : list Z) : list Z := swap_bytes w x.
Definition U_from_le (x : list Z) : list Z := x.
Definition U_to_be (w : Z) (x : list Z) : list Z := U_from_be w x.
Definition U_to_le (x : list Z) : list Z := U_from_le x.
(* BInt: Self::from_bits(BUint::from_be(x.bits)) *)
Definition I_from_be (w : Z) (x : list Z) : list Z := U_from_be w x.
Definition I_from_le (x : list Z) : list Z := U_from_le x.
Definition I_to_be (w : Z) (x : list Z) : list Z := I_from_be w x.
Definition I_to_le (x : list Z) : list Z := I_from_le x.

(* ---------- from_be_slice / from_le_slice ---------- *)

(* `while i < exact { let digit = <digit i of the slice>; <store or check>; i += 1; }`
   — the same loop skeleton in all four functions; `count` = iterations left = exact - i.
   `None` is the early `return None`. *)
Fixpoint slice_loop (setd : nat -> Z -> list Z -> option (list Z)) (digit_at : nat -> Z)
         (count i : nat) (out : list Z) : option (list Z) :=
  match count with
  | O => Some out
  | S c =>
      match setd i (digit_at i) out with
      | None => None
      | Some out' => slice_loop setd digit_at c (S i) out'
      end
  end.

(* BUint:  if i < N { out.digits[i] = digit; } else if digit != 0 { return None; }; *)
Definition U_set_digit (n : nat) (i : nat) (digit : Z) (out : list Z) : option (list Z) :=
  if (i <? n)%nat then Some (set_nth i (fun _ => digit) out)
  else if negb (digit =? 0) then None
  else Some out.

(* BInt: macro set_digit! *)
Definition I_set_digit (w : Z) (n : nat) (is_negative : bool) (sign_bits : Z)
           (i : nat) (digit : Z) (out : list Z) : option (list Z) :=
  if (i =? n - 1)%nat then
    if Bool.eqb (sd w digit <? 0) is_negative then Some (set_nth i (fun _ => digit) out)
    else None
  else if (i <? n)%nat then Some (set_nth i (fun _ => digit) out)
  else if negb (digit =? sign_bits) then None
  else Some out.

Definition U_from_be_slice (w : Z) (n : nat) (slice : list Z) : option (list Z) :=
  let db := dbytes w in
  let len := length slice in
  let exact := (len / db)%nat in
  (* digit i = from_be_bytes(slice[len - BYTES - i*BYTES ..][..BYTES]) *)
  match slice_loop (U_set_digit n)
          (fun i => u_from_be_bytes (sub_bytes slice (len - db - i * db) db)) exact 0%nat (ZERO n) with
  | None => None
  | Some out =>
      let rem := (len mod db)%nat in
      if (rem =? 0)%nat then Some out
      else
        (* last_digit_bytes[BYTES - rem + j] = slice[j], j < rem; the rest stays 0 *)
        let last_digit_bytes := repeat 0 (db - rem) ++ firstn rem slice in
        U_set_digit n exact (u_from_be_bytes last_digit_bytes) out
  end.

Definition U_from_le_slice (w : Z) (n : nat) (slice : list Z) : option (list Z) :=
  let db := dbytes w in
  let len := length slice in
  let exact := (len / db)%nat in
  (* digit i = from_le_bytes(slice[i*BYTES ..][..BYTES]) *)
  match slice_loop (U_set_digit n)
          (fun i => u_from_le_bytes (sub_bytes slice (i * db) db)) exact 0%nat (ZERO n) with
  | None => None
  | Some out =>
      if (len mod db =? 0)%nat then Some out
      else
        (* last_digit_bytes[j] = slice[j + addition] while j + addition < len; the rest stays 0 *)
        let addition := (exact * db)%nat in
        let last_digit_bytes := skipn addition slice ++ repeat 0 (db - (len - addition)) in
        U_set_digit n exact (u_from_le_bytes last_digit_bytes) out
  end.

Definition I_from_be_slice (w : Z) (n : nat) (slice : list Z) : option (list Z) :=
  let db := dbytes w in
  let len := length slice in
  if (len =? 0)%nat then Some (ZERO n)
  else
    let is_negative := byte_is_negative (nth 0 slice 0) in
    let sign_bits := if is_negative then u_max w else 0 in
    let out_digits := if is_negative then repeat (u_max w) n else repeat 0 n in
    let exact := (len / db)%nat in
    match slice_loop (I_set_digit w n is_negative sign_bits)
            (fun i => u_from_be_bytes (sub_bytes slice (len - db - i * db) db)) exact 0%nat out_digits with
    | None => None
    | Some out =>
        let rem := (len mod db)%nat in
        if (rem =? 0)%nat then Some out
        else
          let pad_byte := if is_negative then 255 else 0 in
          let last_digit_bytes := repeat pad_byte (db - rem) ++ firstn rem slice in
          I_set_digit w n is_negative sign_bits exact (u_from_be_bytes last_digit_bytes) out
    end.

Definition I_from_le_slice (w : Z) (n : nat) (slice : list Z) : option (list Z) :=
  let db := dbytes w in
  let len := length slice in
  if (len =? 0)%nat then Some (ZERO n)
  else
    let is_negative := byte_is_negative (nth (len - 1) slice 0) in
    let sign_bits := if is_negative then u_max w else 0 in
    let out_digits := repeat sign_bits n in
    let exact := (len / db)%nat in
    match slice_loop (I_set_digit w n is_negative sign_bits)
            (fun i => u_from_le_bytes (sub_bytes slice (i * db) db)) exact 0%nat out_digits with
    | None => None
    | Some out =>
        if (len mod db =? 0)%nat then Some out
        else
          let pad_byte := if is_negative then 255 else 0 in
          let addition := (exact * db)%nat in
          let last_digit_bytes := skipn addition slice ++ repeat pad_byte (db - (len - addition)) in
          I_set_digit w n is_negative sign_bits exact (u_from_le_bytes last_digit_bytes) out
    end.

(* ---------- nightly: to_{be,le,ne}_bytes / from_{be,le,ne}_bytes ---------- *)

(* `while i < N`: chunk i of the output = digits[i].to_le_bytes() *)
Definition U_to_le_bytes (w : Z) (x : list Z) : list Z :=
  flat_map (u_to_le_bytes (dbytes w)) x.
(* `i = N; while i > 0`: digits[N - i].to_be_bytes() goes to chunk i - 1, i.e. digit k is
   written in front of the chunks of all digits below it *)
Definition U_to_be_bytes (w : Z) (x : list Z) : list Z :=
  fold_left (fun acc d => u_to_be_bytes (dbytes w) d ++ acc) x [].
Definition U_to_ne_bytes (w : Z) (x : list Z) : list Z := U_to_le_bytes w x.

(* out.digits[i] = from_be_bytes(bytes[N*BYTES - BYTES - i*BYTES ..][..BYTES]) *)
Definition U_from_be_bytes (w : Z) (n : nat) (bytes : list Z) : list Z :=
  let db := dbytes w in
  map (fun i => u_from_be_bytes (sub_bytes bytes (n * db - db - i * db) db)) (seq 0 n).
(* out.digits[i] = from_le_bytes(bytes[i*BYTES ..][..BYTES]) *)
Definition U_from_le_bytes (w : Z) (n : nat) (bytes : list Z) : list Z :=
  let db := dbytes w in
  map (fun i => u_from_le_bytes (sub_bytes bytes (i * db) db)) (seq 0 n).
Definition U_from_ne_bytes (w : Z) (n : nat) (bytes : list Z) : list Z := U_from_le_bytes w n bytes.

(* BInt: forwarders through .bits / from_bits *)
Definition I_to_be_bytes := U_to_be_bytes.
Definition I_to_le_bytes := U_to_le_bytes.
Definition I_to_ne_bytes := U_to_ne_bytes.
Definition I_from_be_bytes := U_from_be_bytes.
Definition I_from_le_bytes := U_from_le_bytes.
Definition I_from_ne_bytes := U_from_ne_bytes.

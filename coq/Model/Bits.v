(* Model/Bits.v — bit counts and bit manipulation of src/buint/mod.rs (count_ones ... bits,
   bit, set_bit, power_of_two, is_power_of_two, swap_bytes, reverse_bits),
   checked/wrapping next_power_of_two (src/buint/checked.rs, wrapping.rs), the BInt
   forwarders of src/bint/mod.rs, and min/max/clamp/signum of src/int/cmp.rs. *)
From Bnum Require Import Base Prim.
From Bnum.Model Require Import Core Shift.

Fixpoint count_ones (ds : list Z) : Z :=
  match ds with [] => 0 | d :: r => u_count_ones d + count_ones r end.
Fixpoint count_zeros (w : Z) (ds : list Z) : Z :=
  match ds with [] => 0 | d :: r => (w - u_count_ones d) + count_zeros w r end.

(* loops that scan from the top digit take the reversed list *)
Fixpoint leading_zeros_rev (w : Z) (rds : list Z) : Z :=
  match rds with
  | [] => 0
  | d :: r => if d =? 0 then u_leading_zeros w d + leading_zeros_rev w r else u_leading_zeros w d
  end.
Definition leading_zeros (w : Z) (ds : list Z) : Z := leading_zeros_rev w (rev ds).
Fixpoint trailing_zeros (w : Z) (ds : list Z) : Z :=
  match ds with
  | [] => 0
  | d :: r => if d =? 0 then u_trailing_zeros w d + trailing_zeros w r else u_trailing_zeros w d
  end.
Fixpoint leading_ones_rev (w : Z) (rds : list Z) : Z :=
  match rds with
  | [] => 0
  | d :: r => if d =? u_max w then u_leading_ones w d + leading_ones_rev w r else u_leading_ones w d
  end.
Definition leading_ones (w : Z) (ds : list Z) : Z := leading_ones_rev w (rev ds).
Fixpoint trailing_ones (w : Z) (ds : list Z) : Z :=
  match ds with
  | [] => 0
  | d :: r => if d =? u_max w then u_trailing_ones w d + trailing_ones w r else u_trailing_ones w d
  end.

Definition bits_of (w : Z) (ds : list Z) : Z := bits w (length ds) - leading_zeros w ds.

(* indexing past the array panics *)
Definition bit (w : Z) (ds : list Z) (index : Z) : outcome bool :=
  let i := Z.to_nat (index / w) in
  if (i <? length ds)%nat then Ret (negb (u_and (nth i ds 0) (u_shl w 1 (index mod w)) =? 0)) else Panic.
Definition set_bit (w : Z) (ds : list Z) (index : Z) (value : bool) : outcome (list Z) :=
  let i := Z.to_nat (index / w) in
  let shift := index mod w in
  if (i <? length ds)%nat then
    Ret (set_nth i (fun d => u_or (u_and d (u_not w (u_shl w 1 shift))) (u_shl w (if value then 1 else 0) shift)) ds)
  else Panic.
Definition power_of_two (w : Z) (n : nat) (power : Z) : outcome (list Z) :=
  let i := Z.to_nat (power / w) in
  if (i <? n)%nat then Ret (set_nth i (fun _ => u_shl w 1 (power mod w)) (ZERO n)) else Panic.

(* early exit once more than one bit has been seen *)
Fixpoint is_power_of_two_loop (ds : list Z) (ones : Z) : bool :=
  match ds with
  | [] => ones =? 1
  | d :: r => let ones' := ones + u_count_ones d in if 1 <? ones' then false else is_power_of_two_loop r ones'
  end.
Definition U_is_power_of_two (ds : list Z) : bool := is_power_of_two_loop ds 0.
Definition I_is_power_of_two (w : Z) (ds : list Z) : bool := negb (is_negative w ds) && U_is_power_of_two ds.

Definition U_checked_next_power_of_two (w : Z) (ds : list Z) : outcome (option (list Z)) :=
  if U_is_power_of_two ds then Ret (Some ds)
  else let b := bits_of w ds in
       if b =? bits w (length ds) then Ret None
       else omap Some (power_of_two w (length ds) b).
Definition U_wrapping_next_power_of_two (w : Z) (ds : list Z) : outcome (list Z) :=
  omap (fun o => match o with Some r => r | None => ZERO (length ds) end) (U_checked_next_power_of_two w ds).
Definition U_next_power_of_two (dbg : bool) (w : Z) (ds : list Z) : outcome (list Z) :=
  if dbg then obind (U_checked_next_power_of_two w ds) option_expect
  else U_wrapping_next_power_of_two w ds.

Definition swap_bytes (w : Z) (ds : list Z) : list Z := map (u_swap_bytes w) (rev ds).
Definition reverse_bits (w : Z) (ds : list Z) : list Z := map (u_reverse_bits w) (rev ds).

(* src/int/cmp.rs over a comparison function *)
Definition cmp_max (c : comparison) (a b : list Z) : list Z := match c with Gt => a | _ => b end.
Definition cmp_min (c : comparison) (a b : list Z) : list Z := match c with Gt => b | _ => a end.
Definition clamp (cmp : list Z -> list Z -> comparison) (a lo hi : list Z) : outcome (list Z) :=
  if cmp_le (cmp lo hi) then
    Ret (match cmp a lo with Lt => lo | _ => match cmp a hi with Gt => hi | _ => a end end)
  else Panic.

Definition signum (w : Z) (ds : list Z) : list Z :=
  if is_negative w ds then NEG_ONE w (length ds) else if is_zero ds then ZERO (length ds) else ONE (length ds).

(* Model/DigitPrims.v — vocabulary of the code GENERATED from src/digit.rs (Generated/DigitGen.v):
   Rust's DoubleDigit (2w-bit) and Digit (w-bit) arithmetic, MODELLED (not verified) like Prim.v.
   DoubleDigit operations wrap at 2^(2w) here; Proofs/DigitTie.v shows that on digit arguments no
   wrap occurs (so the debug-build overflow checks of the real code never fire either). *)
From Bnum Require Import Base Prim.

Definition DB (w : Z) : Z := 2 ^ (2 * w).
Definition dd_of_digit (x : Z) : Z := x.                  (* x as DoubleDigit *)
Definition digit_of_dd (w x : Z) : Z := x mod B w.        (* x as Digit *)
Definition dd_add (w x y : Z) : Z := (x + y) mod DB w.
Definition dd_sub (w x y : Z) : Z := (x - y) mod DB w.
Definition dd_mul (w x y : Z) : Z := (x * y) mod DB w.
Definition dd_shl (w x s : Z) : Z := (x * 2 ^ s) mod DB w.
Definition dd_shr (w x s : Z) : Z := x / 2 ^ s.
Definition dd_or (w x y : Z) : Z := Z.lor x y.
Definition dd_and (w x y : Z) : Z := Z.land x y.
Definition dd_xor (w x y : Z) : Z := Z.lxor x y.
Definition dd_div (w x y : Z) : Z := x / y.
Definition dd_rem (w x y : Z) : Z := x mod y.
Definition dg_add (w x y : Z) : Z := (x + y) mod B w.
Definition dg_sub (w x y : Z) : Z := (x - y) mod B w.
Definition dg_mul (w x y : Z) : Z := (x * y) mod B w.
Definition dg_shl (w x s : Z) : Z := (x * 2 ^ s) mod B w.
Definition dg_shr (w x s : Z) : Z := x / 2 ^ s.
Definition dg_or (w x y : Z) : Z := Z.lor x y.
Definition dg_and (w x y : Z) : Z := Z.land x y.
Definition dg_xor (w x y : Z) : Z := Z.lxor x y.
Definition dg_div (w x y : Z) : Z := x / y.
Definition dg_rem (w x y : Z) : Z := x mod y.

(* Model/Parse.v — parsing: src/buint/radix.rs (radix_base, parse_bytes, from_radix_be/le,
   byte_to_digit, from_str_radix, parse_str_radix, from_buf_radix_internal), src/bint/radix.rs
   (the same entry points with sign handling), the FromStr impls of src/buint/convert.rs and
   src/bint/convert.rs, src/int/radix.rs (assert_range!), src/errors/parseint.rs (error kinds).

   Strings, byte buffers and radix-digit slices are `list Z` of bytes (0..255), indexed from 0
   exactly as the Rust slices are; every `buf[idx]` is `rd buf idx`, which panics outside
   [0, len) (a `usize` underflow in an index expression panics in debug builds and wraps to an
   out-of-range index — hence also panics — in release builds, so a negative Z index = Panic is
   faithful in both modes).  `usize`/`u32` quantities are plain Z.

   NOT modelled: the `0 =>` match arm of from_buf_radix_internal (the disabled 8|32|64|128
   bit-packing branch): `radix` is asserted >= 2 by every caller, so the arm is dead code.
   The `256` alternative of the `2 | 4 | 16 | 256` arm is kept as coded although both callers that
   allow radix 256 (from_radix_be/le) dispatch it to from_be_slice/from_le_slice first.

   Error kinds (core::num::IntErrorKind) are small integers agreed with the harness. *)
From Bnum Require Import Base Prim.
From Bnum.Model Require Import Digit Core Shift AddSub Bits.

Definition Empty : Z := 0.
Definition InvalidDigit : Z := 1.
Definition PosOverflow : Z := 2.
Definition NegOverflow : Z := 3.

(* result of a parsing computation: Ok / Err(kind) / Rust panic / model out of fuel
   (PFuel stands for a loop of the source that does not terminate; the theorems exclude it) *)
Inductive pout (A : Type) : Type :=
| POk (a : A)
| PErr (k : Z)
| PPanic
| PFuel.
Arguments POk {A} a.
Arguments PErr {A} k.
Arguments PPanic {A}.
Arguments PFuel {A}.

Definition pbind {A C} (x : pout A) (f : A -> pout C) : pout C :=
  match x with POk a => f a | PErr k => PErr k | PPanic => PPanic | PFuel => PFuel end.
Definition of_outcome {A} (o : outcome A) : pout A :=
  match o with Ret a => POk a | Panic => PPanic end.

(* buf[idx] *)
Definition blen (buf : list Z) : Z := Z.of_nat (length buf).
Definition rd (buf : list Z) (idx : Z) : pout Z :=
  if (0 <=? idx) && (idx <? blen buf) then POk (nth (Z.to_nat idx) buf 0) else PPanic.

(* `a * b`, `a + b` on the digit type uW: overflow panics when overflow checks are on
   (debug build), wraps otherwise *)
Definition d_mul (dbg : bool) (w a b : Z) : pout Z :=
  if a * b <? B w then POk (a * b) else if dbg then PPanic else POk ((a * b) mod B w).
Definition d_add (dbg : bool) (w a b : Z) : pout Z :=
  if a + b <? B w then POk (a + b) else if dbg then PPanic else POk ((a + b) mod B w).
(* uW::checked_mul *)
Definition d_checked_mul (w a b : Z) : option Z := if a * b <? B w then Some (a * b) else None.

(* ---- byte_to_digit::<FROM_STR> ---- *)
Definition byte_to_digit (from_str : bool) (byte : Z) : Z :=
  if from_str then
    if (48 <=? byte) && (byte <=? 57) then byte - 48
    else if (97 <=? byte) && (byte <=? 122) then byte - 97 + 10
    else if (65 <=? byte) && (byte <=? 90) then byte - 65 + 10
    else 255
  else byte.

(* ---- radix_base: largest power of the radix that fits in a digit, and its exponent.
   `loop { match base.checked_mul(radix) {..} }`: each successful step at least doubles `base`
   when radix >= 2, so w+1 steps suffice; for radix (as a digit) 0 or 1 the Rust loop does not
   terminate and the model runs out of fuel. *)
Fixpoint radix_base_loop (fuel : nat) (w radix base power : Z) : option (Z * Z) :=
  match fuel with
  | O => None
  | S f =>
      match d_checked_mul w base radix with
      | Some n => radix_base_loop f w radix n (power + 1)
      | None => Some (base, power)
      end
  end.
Definition radix_base (w radix : Z) : option (Z * Z) :=
  let r := radix mod B w in            (* radix as $Digit *)
  radix_base_loop (S (Z.to_nat w)) w r r 1.

(* ---- the loops of from_buf_radix_internal ---- *)

(* `while input_digits_len > 0 { if byte_to_digit(buf[idx]) != 0 { break } input_digits_len -= 1 }`
   returns the final input_digits_len *)
Fixpoint strip_zeros (fs be sign : bool) (buf : list Z) (idl : nat) : pout Z :=
  match idl with
  | O => POk 0
  | S k =>
      let l := Z.of_nat (S k) in
      let idx := if be then blen buf - l else l - 1 + (if sign then 1 else 0) in
      pbind (rd buf idx) (fun b =>
        if byte_to_digit fs b =? 0 then strip_zeros fs be sign buf k else POk l)
  end.

(* index of the i-th position counted from the most significant end / as written *)
Definition msd_idx (be : bool) (buf : list Z) (i : Z) : Z := if be then i else blen buf - 1 - i.

(* `while i < bound { if byte_to_digit(buf[idxf i]) >= radix_u8 { return InvalidDigit } i += 1 }`,
   `count` = bound - i iterations *)
Fixpoint check_digits (fs : bool) (idxf : Z -> Z) (radix_u8 : Z) (buf : list Z) (i : Z) (count : nat)
  : pout unit :=
  match count with
  | O => POk tt
  | S c =>
      pbind (rd buf (idxf i)) (fun b =>
        if radix_u8 <=? byte_to_digit fs b then PErr InvalidDigit
        else check_digits fs idxf radix_u8 buf (i + 1) c)
  end.

(* inner loop of the power-of-two branch: `out.digits[i] |= (d as Digit) << (j * log2r)` for
   `count` values of j starting at `j`; k0 = i * base_digits_per_digit *)
Fixpoint pack_digit (fs be : bool) (w radix_u8 log2r : Z) (buf : list Z) (k0 j : Z) (count : nat) (acc : Z)
  : pout Z :=
  match count with
  | O => POk acc
  | S c =>
      let idx := if be then blen buf - 1 - (k0 + j) else k0 + j in
      pbind (rd buf idx) (fun b =>
        let d := byte_to_digit fs b in
        if radix_u8 <=? d then PErr InvalidDigit
        else pack_digit fs be w radix_u8 log2r buf k0 (j + 1) c (u_or acc (u_shl w d (j * log2r))))
  end.

(* `while i < full_digits { ...inner loop...; i += 1 }` : the digits written, in order *)
Fixpoint pack_full (fs be : bool) (w radix_u8 log2r bdpd : Z) (buf : list Z) (i : Z) (count : nat)
  : pout (list Z) :=
  match count with
  | O => POk []
  | S c =>
      pbind (pack_digit fs be w radix_u8 log2r buf (i * bdpd) 0 (Z.to_nat bdpd) 0) (fun d =>
      pbind (pack_full fs be w radix_u8 log2r bdpd buf (i + 1) c) (fun r => POk (d :: r)))
  end.

(* `acc = acc * (radix as Digit) + d as Digit` over `count` positions from the most significant
   end starting at position i (the `first` and `n` loops of the general branch) *)
Fixpoint acc_digits (fs be dbg : bool) (w radix radix_u8 : Z) (buf : list Z) (i : Z) (count : nat) (acc : Z)
  : pout Z :=
  match count with
  | O => POk acc
  | S c =>
      pbind (rd buf (msd_idx be buf i)) (fun b =>
        let d := byte_to_digit fs b in
        if radix_u8 <=? d then PErr InvalidDigit
        else pbind (d_mul dbg w acc (radix mod B w)) (fun m =>
             pbind (d_add dbg w m d) (fun a =>
             acc_digits fs be dbg w radix radix_u8 buf (i + 1) c a)))
  end.

(* `while j < N { (low, high) = carrying_mul(out.digits[j], base, carry, 0); ... }` *)
Fixpoint mul_small (w : Z) (ds : list Z) (base carry : Z) : list Z * Z :=
  match ds with
  | [] => ([], carry)
  | d :: r =>
      let '(low, high) := carrying_mul w d base carry 0 in
      let '(r', c) := mul_small w r base high in (low :: r', c)
  end.

(* `while start < buf.len() { ... start = end }` ; fuel = buf.len() (start grows by power >= 1) *)
Fixpoint chunk_loop (fuel : nat) (fs be dbg : bool) (w : Z) (n : nat) (radix radix_u8 base power : Z)
  (buf out : list Z) (start : Z) : pout (list Z) :=
  if start <? blen buf then
    match fuel with
    | O => PFuel
    | S f =>
        let end_ := start + power in
        let '(out1, carry) := mul_small w out base 0 in
        if negb (carry =? 0) then
          (* while start < buf.len() && start < end : validate, then PosOverflow *)
          pbind (check_digits fs (msd_idx be buf) radix_u8 buf start
                   (Z.to_nat (Z.min (blen buf) end_ - start))) (fun _ => PErr PosOverflow)
        else
          pbind (acc_digits fs be dbg w radix radix_u8 buf start
                   (Z.to_nat (Z.min end_ (blen buf) - start)) 0) (fun nn =>
            match U_checked_add w out1 (from_digit n nn) with
            | Some out2 => chunk_loop f fs be dbg w n radix radix_u8 base power buf out2 end_
            | None => PErr PosOverflow
            end)
    end
  else POk out.

Definition from_buf_radix_internal (fs be dbg : bool) (w : Z) (n : nat) (buf : list Z) (radix : Z)
  (leading_sign : bool) : pout (list Z) :=
  let len := blen buf in
  if leading_sign && (len =? 1) then PErr InvalidDigit else
  let input_digits_len := if leading_sign then len - 1 else len in
  if (radix =? 2) || (radix =? 4) || (radix =? 16) || (radix =? 256) then
    pbind (strip_zeros fs be leading_sign buf (Z.to_nat input_digits_len)) (fun idl =>
    let log2r := Z.log2 radix in                        (* ilog2(radix) *)
    let bdpd := w / log2r in                            (* base_digits_per_digit *)
    let full_digits := idl / bdpd in
    let remaining_digits := idl mod bdpd in
    let radix_u8 := radix mod 256 in
    let N := Z.of_nat n in
    if (N <? full_digits) || ((full_digits =? N) && negb (remaining_digits =? 0)) then
      let start := if be then len - idl else if leading_sign then 1 else 0 in
      pbind (check_digits fs (fun i => i) radix_u8 buf start (Z.to_nat (N * bdpd + start - start)))
        (fun _ => PErr PosOverflow)
    else
      pbind (pack_full fs be w radix_u8 log2r bdpd buf 0 (Z.to_nat full_digits)) (fun ds =>
      pbind (pack_digit fs be w radix_u8 log2r buf (full_digits * bdpd) 0 (Z.to_nat remaining_digits) 0)
        (fun last =>
          (* out.digits[full_digits] is only written when remaining_digits > 0 *)
          let written := if remaining_digits =? 0 then ds else ds ++ [last] in
          if (n <? length written)%nat then PPanic
          else POk (written ++ ZERO (n - length written)))))
  else
    match radix_base w radix with
    | None => PFuel
    | Some (base, power) =>
        let r := input_digits_len mod power in
        let split := if r =? 0 then power else r in
        let radix_u8 := radix mod 256 in
        let i0 := if leading_sign then 1 else 0 in
        pbind (acc_digits fs be dbg w radix radix_u8 buf i0 (Z.to_nat split) 0) (fun first =>
          match n with
          | O => PPanic                                  (* out.digits[0] = first *)
          | S k =>
              chunk_loop (length buf) fs be dbg w n radix radix_u8 base power buf
                (first :: repeat 0 k) (i0 + split)
          end)
    end.

(* assert_range!(radix, max) *)
Definition radix_in_range (radix max : Z) : bool := (2 <=? radix) && (radix <=? max).

(* ---- BUint ---- *)
Definition U_from_str_radix (dbg : bool) (w : Z) (n : nat) (src : list Z) (radix : Z) : pout (list Z) :=
  if radix_in_range radix 36 then
    match src with
    | [] => PErr Empty
    | b0 :: _ => from_buf_radix_internal true true dbg w n src radix (b0 =? 43)
    end
  else PPanic.

(* Result::ok *)
Definition pok {A} (x : pout A) : pout (option A) :=
  match x with POk a => POk (Some a) | PErr _ => POk None | PPanic => PPanic | PFuel => PFuel end.

(* core::str::from_utf8(buf).is_ok() — MODELLED (trusted, exercised by the harness): the
   well-formed byte sequences of the Unicode standard, table 3-7 *)
Definition cont (b : Z) : bool := (128 <=? b) && (b <=? 191).
Definition inr (lo hi b : Z) : bool := (lo <=? b) && (b <=? hi).
Fixpoint utf8_valid_fuel (fuel : nat) (bs : list Z) : bool :=
  match fuel with
  | O => match bs with [] => true | _ => false end
  | S f =>
      match bs with
      | [] => true
      | b0 :: r0 =>
          if inr 0 127 b0 then utf8_valid_fuel f r0
          else if inr 194 223 b0 then
            match r0 with b1 :: r1 => cont b1 && utf8_valid_fuel f r1 | _ => false end
          else if inr 224 239 b0 then
            match r0 with
            | b1 :: b2 :: r2 =>
                (if b0 =? 224 then inr 160 191 b1 else if b0 =? 237 then inr 128 159 b1 else cont b1)
                && cont b2 && utf8_valid_fuel f r2
            | _ => false
            end
          else if inr 240 244 b0 then
            match r0 with
            | b1 :: b2 :: b3 :: r3 =>
                (if b0 =? 240 then inr 144 191 b1 else if b0 =? 244 then inr 128 143 b1 else cont b1)
                && cont b2 && cont b3 && utf8_valid_fuel f r3
            | _ => false
            end
          else false
      end
  end.
Definition utf8_valid (bs : list Z) : bool := utf8_valid_fuel (length bs) bs.

(* parse_bytes: from_utf8 first (no radix assertion on that path), then from_str_radix(..).ok() *)
Definition U_parse_bytes (dbg : bool) (w : Z) (n : nat) (buf : list Z) (radix : Z) : pout (option (list Z)) :=
  if utf8_valid buf then pok (U_from_str_radix dbg w n buf radix) else POk None.

Definition U_parse_str_radix (dbg : bool) (w : Z) (n : nat) (src : list Z) (radix : Z) : pout (list Z) :=
  match U_from_str_radix dbg w n src radix with
  | PErr _ => PPanic
  | x => x
  end.

Definition U_from_str (dbg : bool) (w : Z) (n : nat) (src : list Z) : pout (list Z) :=
  U_from_str_radix dbg w n src 10.

(* minimal local model of BUint::from_le_slice / from_be_slice (src/buint/endian.rs; the faithful
   model belongs to property C15): bytes are grouped w/8 at a time from the least significant
   end into digits; digits beyond the N-th must be zero. *)
Fixpoint slice_digits (fuel : nat) (k : nat) (bs : list Z) : list Z :=
  match fuel with
  | O => []
  | S f => match bs with [] => [] | _ => uval 8 (firstn k bs) :: slice_digits f k (skipn k bs) end
  end.
Definition from_le_slice (w : Z) (n : nat) (bs : list Z) : option (list Z) :=
  let ds := slice_digits (length bs) (Z.to_nat (w / 8)) bs in
  if is_zero (skipn n ds) then Some (firstn n (ds ++ ZERO n)) else None.
Definition from_be_slice (w : Z) (n : nat) (bs : list Z) : option (list Z) := from_le_slice w n (rev bs).

Definition U_from_radix_be (dbg : bool) (w : Z) (n : nat) (buf : list Z) (radix : Z) : pout (option (list Z)) :=
  if radix_in_range radix 256 then
    match buf with
    | [] => POk (Some (ZERO n))
    | _ => if radix =? 256 then POk (from_be_slice w n buf)
           else pok (from_buf_radix_internal false true dbg w n buf radix false)
    end
  else PPanic.
Definition U_from_radix_le (dbg : bool) (w : Z) (n : nat) (buf : list Z) (radix : Z) : pout (option (list Z)) :=
  if radix_in_range radix 256 then
    match buf with
    | [] => POk (Some (ZERO n))
    | _ => if radix =? 256 then POk (from_le_slice w n buf)
           else pok (from_buf_radix_internal false false dbg w n buf radix false)
    end
  else PPanic.

(* ---- BInt ---- *)
Definition I_from_str_radix (dbg : bool) (w : Z) (n : nat) (src : list Z) (radix : Z) : pout (list Z) :=
  if radix_in_range radix 36 then
    match src with
    | [] => PErr Empty
    | b0 :: _ =>
        let negative := b0 =? 45 in
        let leading_sign := negative || (b0 =? 43) in
        match from_buf_radix_internal true true dbg w n src radix leading_sign with
        | POk uint =>
            if negative then
              pbind (of_outcome (bit w uint (bits w n - 1))) (fun top =>
                if top && negb (trailing_zeros w uint =? bits w n - 1) then PErr NegOverflow
                else POk (I_wrapping_neg w uint))
            else if is_negative w uint then PErr PosOverflow else POk uint
        | PErr k => if (k =? PosOverflow) && negative then PErr NegOverflow else PErr k
        | PPanic => PPanic
        | PFuel => PFuel
        end
    end
  else PPanic.

Definition I_parse_bytes (dbg : bool) (w : Z) (n : nat) (buf : list Z) (radix : Z) : pout (option (list Z)) :=
  if utf8_valid buf then pok (I_from_str_radix dbg w n buf radix) else POk None.
Definition I_parse_str_radix (dbg : bool) (w : Z) (n : nat) (src : list Z) (radix : Z) : pout (list Z) :=
  match I_from_str_radix dbg w n src radix with
  | PErr _ => PPanic
  | x => x
  end.
Definition I_from_str (dbg : bool) (w : Z) (n : nat) (src : list Z) : pout (list Z) :=
  I_from_str_radix dbg w n src 10.
(* from_bits is the identity on the digit array *)
Definition I_from_radix_be := U_from_radix_be.
Definition I_from_radix_le := U_from_radix_le.

(* Model/RadixOut.v — radix output: src/buint/radix.rs (ilog2, radix_base_half, to_str_radix,
   to_radix_be, to_radix_le, to_bitwise_digits_le, to_inexact_bitwise_digits_le, to_radix_digits_le),
   src/bint/radix.rs (to_str_radix, to_radix_be, to_radix_le), src/int/radix.rs (assert_range!).

   Digit sequences (Vec<u8>) and strings (String, as its bytes) are `list Z`.
   `out.push(x)` sequences are modelled by the list of pushed values in push order.
   `Vec::with_capacity(div_ceil(self.bits(), bits))` only reserves memory (no observable effect) and is
   not transcribed.  Loops of the form `while r != 0` / `while copy.last_digit_index() > 0` take nat
   fuel; running out of fuel is `None` (the theorems show it never happens).
   Result type of the entry points: option (out of fuel) of outcome (panic) of the byte list. *)
From Bnum Require Import Base Prim.
From Bnum.Model Require Import Digit Core Shift AddSub Mul Div Bits.

(* `x as u8` *)
Definition as_u8 (x : Z) : Z := x mod 256.

(* const fn ilog2(a: u32) -> u8 { 31 - a.leading_zeros() as u8 } *)
Definition ilog2_u32 (a : Z) : Z := 31 - u_leading_zeros 32 a.
(* u32::is_power_of_two *)
Definition u32_is_power_of_two (a : Z) : bool := u_count_ones a =? 1.

(* assert_range!(radix, max) *)
Definition radix_in_range (radix max : Z) : bool := (2 <=? radix) && (radix <=? max).

(* radix_base_half: HALF_BITS_MAX = Digit::MAX >> (Digit::BITS / 2);
   loop { match base.checked_mul(radix) { Some(n) if n <= HALF_BITS_MAX => {base = n; power += 1}, _ => return (base, power) } }
   `radix` here is already `radix as $Digit`.  power is a loop count, kept as nat. *)
Definition half_bits_max (w : Z) : Z := u_shr (u_max w) (w / 2).
Fixpoint radix_base_half_loop (fuel : nat) (w radix base : Z) (power : nat) : option (Z * nat) :=
  match fuel with
  | O => None
  | S f =>
      let n := base * radix in
      if (n <? B w) && (n <=? half_bits_max w) then radix_base_half_loop f w radix n (S power)
      else Some (base, power)
  end.
Definition radix_base_half (w radix : Z) : option (Z * nat) :=
  let radix := radix mod B w in
  radix_base_half_loop (Z.to_nat w) w radix radix 1.

(* ---- to_bitwise_digits_le ---- *)

(* for _ in 0..digits_per_big_digit { out.push((d & mask) as u8); d >>= bits; } *)
Fixpoint bitwise_chunk (cnt : nat) (bits mask d : Z) : list Z :=
  match cnt with
  | O => []
  | S c => as_u8 (u_and d mask) :: bitwise_chunk c bits mask (u_shr d bits)
  end.
(* while r != 0 { out.push((r & mask) as u8); r >>= bits; } *)
Fixpoint bitwise_top (fuel : nat) (bits mask r : Z) : option (list Z) :=
  match fuel with
  | O => if r =? 0 then Some [] else None
  | S f =>
      if r =? 0 then Some []
      else option_map (cons (as_u8 (u_and r mask))) (bitwise_top f bits mask (u_shr r bits))
  end.
(* mask = (1 << bits) - 1 on $Digit: bits < w on every path that reaches it (w >= 8, bits <= 8, and
   w = bits = 8 is the byte-copy path) *)
Definition bit_mask (w bits : Z) : Z := u_shl w 1 bits - 1.
Definition to_bitwise_digits_le (w : Z) (ds : list Z) (bits : Z) : option (list Z) :=
  let ldi := last_digit_index ds in
  let mask := bit_mask w bits in
  let digits_per_big_digit := Z.to_nat (w / bits) in
  let r := nth ldi ds 0 in
  let low := flat_map (bitwise_chunk digits_per_big_digit bits mask) (firstn ldi ds) in
  option_map (app low) (bitwise_top (Z.to_nat w) bits mask r).

(* ---- to_inexact_bitwise_digits_le ---- *)

(* while rbits >= bits { out.push((r & mask) as u8); r >>= bits;
                         if rbits > BITS { r = c >> (BITS - (rbits - bits)); }  rbits -= bits; }
   returns (pushed digits, r, rbits) *)
Fixpoint inexact_inner (fuel : nat) (w bits mask c r rbits : Z) : option (list Z * Z * Z) :=
  match fuel with
  | O => None
  | S f =>
      if bits <=? rbits then
        let d := as_u8 (u_and r mask) in
        let r1 := u_shr r bits in
        let r2 := if w <? rbits then u_shr c (w - (rbits - bits)) else r1 in
        match inexact_inner f w bits mask c r2 (rbits - bits) with
        | Some (out, r', rbits') => Some (d :: out, r', rbits')
        | None => None
        end
      else Some ([], r, rbits)
  end.
(* for c in self.digits { r |= c << rbits; rbits += BITS; <inner while> } *)
Fixpoint inexact_outer (w bits mask : Z) (ds : list Z) (r rbits : Z) : option (list Z * Z * Z) :=
  match ds with
  | [] => Some ([], r, rbits)
  | c :: rest =>
      let r0 := u_or r (u_shl w c rbits) in
      let rbits0 := rbits + w in
      match inexact_inner (Z.to_nat (2 * w)) w bits mask c r0 rbits0 with
      | Some (o1, r1, rb1) =>
          match inexact_outer w bits mask rest r1 rb1 with
          | Some (o2, r2, rb2) => Some (o1 ++ o2, r2, rb2)
          | None => None
          end
      | None => None
      end
  end.
(* while let Some(&0) = out.last() { out.pop(); } — on the reversed list *)
Fixpoint drop_leading_zeros (l : list Z) : list Z :=
  match l with
  | d :: r => if d =? 0 then drop_leading_zeros r else l
  | [] => []
  end.
Definition trim_trailing_zeros (l : list Z) : list Z := rev (drop_leading_zeros (rev l)).
Definition to_inexact_bitwise_digits_le (w : Z) (ds : list Z) (bits : Z) : option (list Z) :=
  let mask := bit_mask w bits in
  match inexact_outer w bits mask ds 0 0 with
  | Some (out, r, rbits) =>
      let out := if rbits =? 0 then out else out ++ [as_u8 r] in
      Some (trim_trailing_zeros out)
  | None => None
  end.

(* ---- to_radix_digits_le ---- *)

(* for _ in 0..power { out.push((r % radix) as u8); r /= radix; } *)
Fixpoint radix_chunk (cnt : nat) (radix r : Z) : list Z :=
  match cnt with
  | O => []
  | S c => as_u8 (r mod radix) :: radix_chunk c radix (r / radix)
  end.
(* while r != 0 { out.push((r % radix) as u8); r /= radix; } *)
Fixpoint radix_top (fuel : nat) (radix r : Z) : option (list Z) :=
  match fuel with
  | O => if r =? 0 then Some [] else None
  | S f =>
      if r =? 0 then Some []
      else option_map (cons (as_u8 (r mod radix))) (radix_top f radix (r / radix))
  end.
(* while copy.last_digit_index() > 0 { let (q, r) = copy.div_rem_digit(base); <chunk>; copy = q; }
   let r = copy.digits[0]; <top> *)
Fixpoint radix_digits_loop (fuel : nat) (w base : Z) (power : nat) (radix : Z) (copy : list Z) : option (list Z) :=
  match fuel with
  | O => None
  | S f =>
      if (0 <? last_digit_index copy)%nat then
        let '(q, r) := div_rem_digit w copy base in
        option_map (app (radix_chunk power radix r)) (radix_digits_loop f w base power radix q)
      else radix_top (Z.to_nat w) radix (hd 0 copy)
  end.
Definition to_radix_digits_le (w : Z) (ds : list Z) (radix : Z) : option (list Z) :=
  match radix_base_half w radix with
  | Some (base, power) =>
      let radix := radix mod B w in     (* radix as $Digit *)
      radix_digits_loop (S (Z.to_nat (bits w (length ds)))) w base power radix ds
  | None => None
  end.

(* ---- public entry points, BUint ---- *)

Definition U_to_radix_le (w : Z) (a : list Z) (radix : Z) : option (outcome (list Z)) :=
  if negb (radix_in_range radix 256) then Some Panic
  else if is_zero a then Some (Ret [0])
  else if u32_is_power_of_two radix then
    if (w =? 8) && (radix =? 256) then
      Some (Ret (map as_u8 (firstn (S (last_digit_index a)) a)))
    else
      let bits := ilog2_u32 radix in
      if w mod bits =? 0 then option_map Ret (to_bitwise_digits_le w a bits)
      else option_map Ret (to_inexact_bitwise_digits_le w a bits)
  else if radix =? 10 then option_map Ret (to_radix_digits_le w a 10)
  else option_map Ret (to_radix_digits_le w a radix).

Definition oomap {A C} (f : A -> C) (x : option (outcome A)) : option (outcome C) := option_map (omap f) x.

Definition U_to_radix_be (w : Z) (a : list Z) (radix : Z) : option (outcome (list Z)) :=
  oomap (@rev Z) (U_to_radix_le w a radix).

(* if *byte < 10 { *byte += b'0' } else { *byte += b'a' - 10 } *)
Definition ascii_lower (b : Z) : Z := if b <? 10 then b + 48 else b + 87.

Definition U_to_str_radix (w : Z) (a : list Z) (radix : Z) : option (outcome (list Z)) :=
  if negb (radix_in_range radix 36) then Some Panic
  else oomap (map ascii_lower) (U_to_radix_be w a radix).

(* ---- BInt ---- *)

(* if self.is_negative() { format!("-{}", self.unsigned_abs().to_str_radix(radix)) } else { self.bits.to_str_radix(radix) } *)
Definition I_to_str_radix (w : Z) (a : list Z) (radix : Z) : option (outcome (list Z)) :=
  if is_negative w a then oomap (cons 45) (U_to_str_radix w (I_unsigned_abs w a) radix)
  else U_to_str_radix w a radix.
Definition I_to_radix_be := U_to_radix_be.
Definition I_to_radix_le := U_to_radix_le.

(* Model/Consts.v — the associated constants of src/buint/consts.rs and src/bint/consts.rs and the
   alias table of src/types.rs, transcribed from their defining expressions (whose textual shape
   is re-checked on every run by tools/rs2v_config.py -> Generated/Config.v `const_shapes`).
   MIN / MAX / ZERO / ONE / IMIN / IMAX themselves live in Model/Core.v. *)
From Bnum Require Import Base Prim.
From Bnum.Model Require Import Core.
From Bnum.Generated Require Import Config.
From Coq Require Import String.

(* pos_const!: Self::from_digit($num) *)
Definition U_pos_const (n : nat) (num : Z) : list Z := from_digit n num.
(* neg_const!: let mut u = BUint::MAX; u.digits[0] -= ($num - 1); from_bits(u) *)
Definition I_neg_const (w : Z) (n : nat) (num : Z) : list Z :=
  match UMAX w n with [] => [] | d :: r => (d - (num - 1)) :: r end.
Definition U_MIN (n : nat) : list Z := repeat 0 n.
Definition BITS (w : Z) (n : nat) : Z := w * Z.of_nat n.
Definition BYTES (w : Z) (n : nat) : Z := BITS w n / 8.

Fixpoint assoc (t : list (string * Z)) (k : string) : option Z :=
  match t with [] => None | (k', v) :: r => if String.eqb k' k then Some v else assoc r k end.

(* constant lookup through the tables regenerated from the source *)
Definition U_named_const (n : nat) (name : string) : option (list Z) :=
  if String.eqb name "ZERO" then Some (ZERO n)
  else if String.eqb name "MIN" then Some (U_MIN n)
  else match assoc u_pos_consts name with Some num => Some (U_pos_const n num) | None => None end.
Definition I_named_const (w : Z) (n : nat) (name : string) : option (list Z) :=
  if String.eqb name "ZERO" then Some (ZERO n)
  else if String.eqb name "ONE" then Some (ONE n)
  else match assoc i_pos_consts name with
       | Some num => Some (U_pos_const n num)
       | None => match assoc i_neg_consts name with
                 | Some num => Some (I_neg_const w n num)
                 | None => None
                 end
       end.

(* the digit count of an alias: bits / 64 *)
Definition alias_digits (bits : Z) : Z := bits / alias_divisor_u.
Definition alias_bits (bits : Z) : option (Z * Z) :=
  if existsb (fun a => Z.eqb (fst (fst a)) bits) aliases
  then Some (BITS 64 (Z.to_nat (bits / alias_divisor_u)), BITS 64 (Z.to_nat (bits / alias_divisor_i)))
  else None.
Definition v_alias_bits (bits : Z) : val :=
  match alias_bits bits with Some (x, y) => VSome (VPair (VZ x) (VZ y)) | None => VNone end.

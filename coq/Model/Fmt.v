(* Model/Fmt.v — the formatting traits of BUint / BInt: src/buint/fmt.rs (fmt_method! for Binary /
   LowerHex / UpperHex, Display, Debug, Octal, exp_fmt! for LowerExp / UpperExp), src/bint/fmt.rs
   (fmt_trait! delegation to the bits, Display / Debug / LowerExp / UpperExp through unsigned_abs).

   Strings are `list Z` of bytes (everything printed here is ASCII).

   Every impl ends in `f.pad_integral(is_nonnegative, prefix, &body)`.  `Formatter::pad_integral` is std's
   code, not bnum's: the model of a trait impl is the triple `(is_nonnegative, prefix, body)` that bnum
   hands to it (type `fmt_args`), with how bnum builds `body` transcribed.  Where bnum itself needs a
   formatter (BInt's `format!("{}", self.unsigned_abs())`, `format!("{:e}", uint)`: a fresh Formatter with
   no flags), std's function is an explicit argument `pad : padder`.

   TRUSTED BASE (std, modelled, not verified — validated against the real formatter on every run of
   ./check C12, both directly on wide values and by the bnum-vs-primitive comparison ops):
     * `pad_integral_ref`: a transcription of core::fmt::Formatter::pad_integral and ::padding
       (sign '+', '#' alternate prefix, '0' sign-aware zero padding, width / fill / alignment with
       Right as the default alignment of numbers);
     * `fmt_prim` / `fmt_prim_pad` / `fmt_usize`: what `format!("{:x}", d)`, `format!("{:01$x}", d, pad)`
       (`{:b}`, `{:X}` alike) and `format!("{}", exp)` print for a primitive unsigned integer: its
       canonical numeral in radix 16 / 2 / 10, zero-padded on the left to `pad` characters. *)
From Bnum Require Import Base Prim.
From Bnum.Model Require Import Digit Core Shift AddSub Mul Div Bits RadixOut.

(* ================= std: flags, pad_integral (modelled, trusted) ================= *)

(* the part of core::fmt::FormattingOptions that `{:[[fill]align][+][#][0][width]}` can set.
   ff_align: 0 = none given (Alignment unknown), 1 = '<' Left, 2 = '^' Center, 3 = '>' Right.
   ff_width: None = no width given (newer std stores this as width 0: same behaviour). *)
Record fmt_flags : Type := mk_flags {
  ff_fill : Z; ff_align : Z; ff_plus : bool; ff_alt : bool; ff_zero : bool; ff_width : option Z }.

(* `Formatter::new` / the formatter behind `format!("{}", x)`: fill ' ', nothing else *)
Definition no_flags : fmt_flags := mk_flags 32 0 false false false None.

(* what a trait impl hands to pad_integral: (is_nonnegative, prefix, body) *)
Definition fmt_args : Type := (bool * list Z * list Z)%type.
(* std's pad_integral, seen as a function from the flags and the three arguments to the text written *)
Definition padder : Type := fmt_flags -> bool -> list Z -> list Z -> list Z.

Definition fill_n (c k : Z) : list Z := repeat c (Z.to_nat k).
Definition len (s : list Z) : Z := Z.of_nat (length s).

(* Formatter::padding(padding, default = Right): (pre, post) fill counts
     Left => (0, padding), Right => (padding, 0), Center => (padding / 2, padding - padding / 2) *)
Definition padding_split (align padding : Z) : Z * Z :=
  if align =? 1 then (0, padding)
  else if align =? 2 then (padding / 2, padding - padding / 2)
  else (padding, 0).                       (* Right, and the default for numbers *)

(* core::fmt::Formatter::pad_integral:
     let mut width = buf.len();
     sign: '-' if !is_nonnegative, else '+' if sign_plus(); width += 1 for a sign
     prefix only if alternate(); width += prefix.chars().count()
     match self.width { None => sign prefix buf,
                        Some(min) if width >= min => sign prefix buf,
                        Some(min) if sign_aware_zero_pad() => sign prefix <min - width zeros> buf
                                                              (fill := '0', align := Right for this call),
                        Some(min) => pre-padding sign prefix buf post-padding } *)
Definition pad_integral_ref : padder := fun fl nonneg prefix buf =>
  let sign := if negb nonneg then [45] else if ff_plus fl then [43] else [] in
  let pre := if ff_alt fl then prefix else [] in
  let width := len buf + len sign + len pre in
  let plain := sign ++ pre ++ buf in
  match ff_width fl with
  | None => plain
  | Some min =>
      if min <=? width then plain
      else if ff_zero fl then sign ++ pre ++ fill_n 48 (min - width) ++ buf
      else let '(l, r) := padding_split (ff_align fl) (min - width) in
           fill_n (ff_fill fl) l ++ plain ++ fill_n (ff_fill fl) r
  end.

(* `format!("{..}", x)` / `x.to_string()`: run the impl with a flagless formatter, collect the text *)
Definition to_string (pad : padder) (t : fmt_args) : list Z :=
  let '(nonneg, prefix, body) := t in pad no_flags nonneg prefix body.
(* the text written for a given flag set *)
Definition render (pad : padder) (fl : fmt_flags) (t : fmt_args) : list Z :=
  let '(nonneg, prefix, body) := t in pad fl nonneg prefix body.

(* ================= std: primitive unsigned integers in radix 2 / 10 / 16 (modelled, trusted) ================= *)

(* digits of x, least significant first, nothing for 0 *)
Fixpoint numeral_le_fuel (fuel : nat) (r x : Z) : list Z :=
  match fuel with
  | O => []
  | S f => if x =? 0 then [] else x mod r :: numeral_le_fuel f r (x / r)
  end.
(* the numeral of x in radix r >= 2, least significant digit first; [0] for zero *)
Definition prim_numeral_le (r x : Z) : list Z :=
  match numeral_le_fuel (S (Z.to_nat (Z.log2 x))) r x with
  | [] => [0]
  | l => l
  end.
(* b'A' - 10 = 55 *)
Definition ascii_upper (b : Z) : Z := if b <? 10 then b + 48 else b + 55.
Definition digit_char (upper : bool) (b : Z) : Z := if upper then ascii_upper b else ascii_lower b.

(* format!("{:x}", d)  (r = 16, upper = false), "{:X}" (16, true), "{:b}" (2, _) *)
Definition fmt_prim (r : Z) (upper : bool) (d : Z) : list Z :=
  map (digit_char upper) (rev (prim_numeral_le r d)).
(* format!("{:01$x}", d, pad): flag '0', width = pad, no '#' *)
Definition fmt_prim_pad (r : Z) (upper : bool) (pad d : Z) : list Z :=
  let s := fmt_prim r upper d in fill_n 48 (pad - len s) ++ s.
(* format!("{}", exp) for exp : usize *)
Definition fmt_usize (k : Z) : list Z := fmt_prim 10 false k.

(* ================= src/buint/fmt.rs ================= *)

Definition is_nil {A} (l : list A) : bool := match l with [] => true | _ => false end.

(* fmt_method!:  for digit in self.digits.iter().rev() {
                     if format_string.is_empty() { if digit != &0 { write!(format_string, $format, digit)?; } }
                     else { write!(format_string, $format_pad, digit, $pad)?; } }
   `ds` is the digit list most significant first. *)
Fixpoint fmt_method_loop (r : Z) (upper : bool) (pad : Z) (ds : list Z) (format_string : list Z) : list Z :=
  match ds with
  | [] => format_string
  | digit :: rest =>
      let fs :=
        if is_nil format_string then
          (if digit =? 0 then format_string else format_string ++ fmt_prim r upper digit)
        else format_string ++ fmt_prim_pad r upper pad digit in
      fmt_method_loop r upper pad rest fs
  end.
(* f.pad_integral(true, $prefix, if format_string.is_empty() { "0" } else { &format_string }) *)
Definition fmt_method (r : Z) (upper : bool) (pad : Z) (prefix : list Z) (a : list Z) : fmt_args :=
  let format_string := fmt_method_loop r upper pad (rev a) [] in
  (true, prefix, if is_nil format_string then [48] else format_string).

(* digit::$Digit::HEX_PADDING = BITS as usize / 4  (src/digit.rs) *)
Definition hex_padding (w : Z) : Z := w / 4.

Definition str_0b : list Z := [48; 98].
Definition str_0o : list Z := [48; 111].
Definition str_0x : list Z := [48; 120].

(* all results: option (out of fuel inside to_str_radix) of outcome (panic) of the pad_integral arguments *)
Definition fmt_result : Type := option (outcome fmt_args).

(* fmt_method!("{:b}", "{:01$b}", digit::$Digit::BITS as usize, "0b") *)
Definition U_fmt_Binary (w : Z) (a : list Z) : fmt_result :=
  Some (Ret (fmt_method 2 false w str_0b a)).
(* fmt_method!("{:x}", "{:01$x}", digit::$Digit::HEX_PADDING, "0x") *)
Definition U_fmt_LowerHex (w : Z) (a : list Z) : fmt_result :=
  Some (Ret (fmt_method 16 false (hex_padding w) str_0x a)).
(* fmt_method!("{:X}", "{:01$X}", digit::$Digit::HEX_PADDING, "0x") *)
Definition U_fmt_UpperHex (w : Z) (a : list Z) : fmt_result :=
  Some (Ret (fmt_method 16 true (hex_padding w) str_0x a)).
(* f.pad_integral(true, "", &self.to_str_radix(10)) *)
Definition U_fmt_Display (w : Z) (a : list Z) : fmt_result :=
  oomap (fun s => (true, [], s)) (U_to_str_radix w a 10).
(* Display::fmt(&self, f) *)
Definition U_fmt_Debug (w : Z) (a : list Z) : fmt_result := U_fmt_Display w a.
(* let string = self.to_str_radix(8); f.pad_integral(true, "0o", &string) *)
Definition U_fmt_Octal (w : Z) (a : list Z) : fmt_result :=
  oomap (fun s => (true, str_0o, s)) (U_to_str_radix w a 8).

(* str::trim_end_matches(c) *)
Fixpoint drop_while_eq (c : Z) (l : list Z) : list Z :=
  match l with
  | x :: r => if x =? c then drop_while_eq c r else l
  | [] => []
  end.
Definition trim_end_matches (c : Z) (l : list Z) : list Z := rev (drop_while_eq c (rev l)).

(* exp_fmt!($e), the construction of `buf` from `decimal_str`:
     if decimal_str == "0" { format!("{}{}0", 0, $e) }
     else { let exp = decimal_str.len() - 1;
            let decimal_str = decimal_str.trim_end_matches('0');
            if decimal_str.len() == 1 { format!("{}{}{}", &decimal_str[0..1], $e, exp) }
            else { format!("{}.{}{}{}", &decimal_str[0..1], &decimal_str[1..], $e, exp) } }
   An empty decimal_str (never produced by to_str_radix) panics in both build modes: `len() - 1`
   overflows under debug assertions; without them it wraps and `&decimal_str[0..1]` of the (still
   empty) trimmed string panics.  The same slice panics when everything was trimmed away. *)
Definition exp_buf (e : Z) (decimal_str : list Z) : outcome (list Z) :=
  if list_Z_eqb decimal_str [48] then Ret ([48] ++ [e] ++ [48])
  else if is_nil decimal_str then Panic
  else
    let exp := len decimal_str - 1 in
    let t := trim_end_matches 48 decimal_str in
    if (length t =? 1)%nat then Ret (firstn 1 t ++ [e] ++ fmt_usize exp)
    else if is_nil t then Panic
    else Ret (firstn 1 t ++ [46] ++ skipn 1 t ++ [e] ++ fmt_usize exp).

(* let decimal_str = self.to_str_radix(10); let buf = ...; f.pad_integral(true, "", &buf) *)
Definition exp_fmt (e : Z) (w : Z) (a : list Z) : fmt_result :=
  match U_to_str_radix w a 10 with
  | Some (Ret decimal_str) => Some (omap (fun buf => (true, [], buf)) (exp_buf e decimal_str))
  | Some Panic => Some Panic
  | None => None
  end.
Definition U_fmt_LowerExp (w : Z) (a : list Z) : fmt_result := exp_fmt 101 w a.   (* "e" *)
Definition U_fmt_UpperExp (w : Z) (a : list Z) : fmt_result := exp_fmt 69 w a.    (* "E" *)

(* ================= src/bint/fmt.rs ================= *)

(* fmt_trait!: $trait::fmt(&self.bits, f) *)
Definition I_fmt_Binary := U_fmt_Binary.
Definition I_fmt_LowerHex := U_fmt_LowerHex.
Definition I_fmt_UpperHex := U_fmt_UpperHex.
Definition I_fmt_Octal := U_fmt_Octal.

(* f.pad_integral(!self.is_negative(), "", &format!("{}", self.unsigned_abs())) *)
Definition I_fmt_Display (pad : padder) (w : Z) (a : list Z) : fmt_result :=
  oomap (fun t => (negb (is_negative w a), [], to_string pad t)) (U_fmt_Display w (I_unsigned_abs w a)).
Definition I_fmt_Debug (pad : padder) (w : Z) (a : list Z) : fmt_result := I_fmt_Display pad w a.
(* let uint = self.unsigned_abs(); f.pad_integral(!self.is_negative(), "", &format!("{:e}", uint)) *)
Definition I_fmt_LowerExp (pad : padder) (w : Z) (a : list Z) : fmt_result :=
  let uint := I_unsigned_abs w a in
  oomap (fun t => (negb (is_negative w a), [], to_string pad t)) (U_fmt_LowerExp w uint).
Definition I_fmt_UpperExp (pad : padder) (w : Z) (a : list Z) : fmt_result :=
  let uint := I_unsigned_abs w a in
  oomap (fun t => (negb (is_negative w a), [], to_string pad t)) (U_fmt_UpperExp w uint).

(* ================= dispatch on the trait (the correspondence protocol's trait code) ================= *)
(* 0 Display  1 Debug  2 Binary  3 Octal  4 LowerHex  5 UpperHex  6 LowerExp  7 UpperExp *)
Definition U_fmt (tr : Z) (w : Z) (a : list Z) : fmt_result :=
  if tr =? 0 then U_fmt_Display w a else if tr =? 1 then U_fmt_Debug w a
  else if tr =? 2 then U_fmt_Binary w a else if tr =? 3 then U_fmt_Octal w a
  else if tr =? 4 then U_fmt_LowerHex w a else if tr =? 5 then U_fmt_UpperHex w a
  else if tr =? 6 then U_fmt_LowerExp w a else U_fmt_UpperExp w a.
Definition I_fmt (pad : padder) (tr : Z) (w : Z) (a : list Z) : fmt_result :=
  if tr =? 0 then I_fmt_Display pad w a else if tr =? 1 then I_fmt_Debug pad w a
  else if tr =? 2 then I_fmt_Binary w a else if tr =? 3 then I_fmt_Octal w a
  else if tr =? 4 then I_fmt_LowerHex w a else if tr =? 5 then I_fmt_UpperHex w a
  else if tr =? 6 then I_fmt_LowerExp pad w a else I_fmt_UpperExp pad w a.

(* format!("{:<flags>}", x): the whole output string *)
Definition U_format (pad : padder) (fl : fmt_flags) (tr w : Z) (a : list Z) : option (outcome (list Z)) :=
  oomap (render pad fl) (U_fmt tr w a).
Definition I_format (pad : padder) (fl : fmt_flags) (tr w : Z) (a : list Z) : option (outcome (list Z)) :=
  oomap (render pad fl) (I_fmt pad tr w a).

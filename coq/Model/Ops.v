(* Model/Ops.v — the std::ops trait layer: src/int/ops.rs (op_ref_impl, assign_op_impl,
   shift_impl, try_shift_impl, shift_self_impl, impls!), src/buint/ops.rs (Add/Div/Rem<Digit>),
   src/bint/ops.rs, Sum / Product / Default (src/buint/mod.rs, src/bint/mod.rs).
   Reference forms dereference and call the by-value impl; `a op= b` stores `a op b`:
   in the model these are the same function, so only one definition per operator exists here
   (the correspondence check calls every generated impl separately). *)
From Bnum Require Import Base Prim.
From Bnum.Model Require Import Digit Core Shift AddSub Mul Div Bits Pow.

(* the twelve primitive shift-amount types *)
Inductive amt_ty := AU8 | AU16 | AU32 | AU64 | AU128 | AUsize | AI8 | AI16 | AI32 | AI64 | AI128 | AIsize.

Definition amt_code (c : Z) : option amt_ty :=
  match c with
  | 0 => Some AU8 | 1 => Some AU16 | 2 => Some AU32 | 3 => Some AU64 | 4 => Some AU128 | 5 => Some AUsize
  | 6 => Some AI8 | 7 => Some AI16 | 8 => Some AI32 | 9 => Some AI64 | 10 => Some AI128 | 11 => Some AIsize
  | _ => None
  end.

(* conversion of the amount to ExpType = u32:
   u8, u16: `rhs as u32` (shift_impl); u32: direct;
   all others (try_shift_impl): debug builds `u32::try_from(rhs)` + expect, release builds `rhs as u32` *)
Definition amt_to_exptype (dbg : bool) (ty : amt_ty) (v : Z) : outcome Z :=
  match ty with
  | AU8 | AU16 | AU32 => Ret v
  | _ => if dbg then (if (0 <=? v) && (v <=? u32_max) then Ret v else Panic)
         else Ret (v mod 2 ^ 32)
  end.

Definition U_Shl_prim (dbg : bool) (w : Z) (ty : amt_ty) (a : list Z) (v : Z) : outcome (list Z) :=
  obind (amt_to_exptype dbg ty v) (fun r => U_shl dbg w a r).
Definition U_Shr_prim (dbg : bool) (w : Z) (ty : amt_ty) (a : list Z) (v : Z) : outcome (list Z) :=
  obind (amt_to_exptype dbg ty v) (fun r => U_shr dbg w a r).
Definition I_Shl_prim (dbg : bool) (w : Z) (ty : amt_ty) (a : list Z) (v : Z) : outcome (list Z) :=
  obind (amt_to_exptype dbg ty v) (fun r => I_shl dbg w a r).
Definition I_Shr_prim (dbg : bool) (w : Z) (ty : amt_ty) (a : list Z) (v : Z) : outcome (list Z) :=
  obind (amt_to_exptype dbg ty v) (fun r => I_shr dbg w a r).

(* bnum-typed amounts (shift_self_impl): `u32::try_from(rhs)` + expect in BOTH build modes.
   The TryFrom<bnum> for u32 conversion is modelled here by its value-level contract
   (Ok exactly when the denoted value fits u32) — that contract is property C13's theorem.
   Proofs/GlueTieC17.v DERIVES it: the code regenerated from shift_self_impl! calls the C13 model of that conversion
   (Convert.U_try_to_prim / I_try_to_uprim at 32 bits) and is proved equal to Shl_bnum / Shr_bnum below. *)
Definition bnum_amt (signed : bool) (w : Z) (amt : list Z) : outcome Z :=
  let v := if signed then sval w amt else uval w amt in
  if (0 <=? v) && (v <=? u32_max) then Ret v else Panic.
Definition Shl_bnum (dbg : bool) (w : Z) (self_signed amt_signed : bool) (a amt : list Z) : outcome (list Z) :=
  obind (bnum_amt amt_signed w amt) (fun r => if self_signed then I_shl dbg w a r else U_shl dbg w a r).
Definition Shr_bnum (dbg : bool) (w : Z) (self_signed amt_signed : bool) (a amt : list Z) : outcome (list Z) :=
  obind (bnum_amt amt_signed w amt) (fun r => if self_signed then I_shr dbg w a r else U_shr dbg w a r).

(* Add<Digit> for BUint: carry loop with early exit; wraps silently *)
Fixpoint add_digit_carry (w : Z) (ds : list Z) (carry : bool) : list Z :=
  match ds with
  | [] => []
  | d :: r => if carry then let '(s, c) := u_ovf_add w d 1 in s :: add_digit_carry w r c else ds
  end.
Definition U_Add_digit (w : Z) (a : list Z) (d : Z) : list Z :=
  match a with
  | [] => []
  | x :: r => let '(s, c) := carrying_add w x d false in s :: add_digit_carry w r c
  end.
(* Div<Digit> / Rem<Digit>: div_rem_digit; a zero digit divides by zero in div_rem_wide -> panic
   (debug_assert!(high < rhs) in debug builds, the primitive division in release builds) *)
Definition U_Div_digit (w : Z) (a : list Z) (d : Z) : outcome (list Z) :=
  if d =? 0 then Panic else Ret (fst (div_rem_digit w a d)).
Definition U_Rem_digit (w : Z) (a : list Z) (d : Z) : outcome Z :=
  if d =? 0 then Panic else Ret (snd (div_rem_digit w a d)).

(* Sum / Product: iter.fold(ZERO, |a, b| a + b), iter.fold(ONE, |a, b| a * b) *)
Fixpoint fold_out (f : list Z -> list Z -> outcome (list Z)) (xs : list (list Z)) (acc : list Z) : outcome (list Z) :=
  match xs with
  | [] => Ret acc
  | x :: r => obind (f acc x) (fun acc' => fold_out f r acc')
  end.
Definition U_Sum (dbg : bool) (w : Z) (n : nat) (xs : list (list Z)) := fold_out (U_add dbg w) xs (ZERO n).
Definition U_Product (dbg : bool) (w : Z) (n : nat) (xs : list (list Z)) := fold_out (U_mul dbg w) xs (ONE n).
Definition I_Sum (dbg : bool) (w : Z) (n : nat) (xs : list (list Z)) := fold_out (I_add dbg w) xs (ZERO n).
Definition I_Product (dbg : bool) (w : Z) (n : nat) (xs : list (list Z)) := fold_out (I_mul dbg w) xs (ONE n).
Definition Default (n : nat) : list Z := ZERO n.

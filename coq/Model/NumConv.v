(* Model/NumConv.v — the num_traits conversion traits (feature `numtraits`), function by function:
     src/buint/numtraits.rs   to_int! (ToPrimitive::to_{u,i}{8..128,size} for BUint), u32_bits, u64_bits,
                              from_float! (from_f32 / from_f64), FromPrimitive::{from_u64, from_i64, from_u128,
                              from_i128} for BUint, ToPrimitive::{to_f32, to_f64}
     src/bint/numtraits.rs    from_int!, from_uint!, from_float! (FromPrimitive for BInt, all 14 methods),
                              to_uint!, to_int! (ToPrimitive for BInt), to_f32, to_f64
     src/int/numtraits.rs     impl_as_primitive_big_num_for_primitive!, as_bigint_impl!, AsPrimitive<BUint<M>|BInt<M>>,
                              NumCast
     src/buint/cast.rs        decode_float! (decode_f32, decode_f64)
     num-traits 0.2.19 src/cast.rs   the DEFAULT methods of FromPrimitive that BUint does not override
                              (from_u8/u16/u32/usize -> from_u64, from_i8/i16/i32/isize -> from_i64): modelled by
                              their documented routing (trusted; exercised by the harness through the trait).

   Everything the Rust code calls that already has a model is CALLED, never modelled again:
     Self::cast_from(mant)            -> Cast.U_from_int            (as_buint!)
     `<< exp` with exp : i16          -> Ops.U_Shl_prim .. AI16     (try_shift_impl!) -> Shift.U_shl
     `-i`                             -> AddSub.I_neg
     `i == Self::MIN`                 -> Core.eq_digits             is_negative -> Core.is_negative
     self.as_() to f32 / f64          -> FloatCast.U_to_float / I_to_float
     AsPrimitive::as_                 -> Cast.to_prim / from_prim / cast, FloatCast.*_to_float / *_from_float
   and the loop pieces of the textually identical macros of src/{buint,bint}/convert.rs (try_from_buint!,
   int_try_from_bint!) are shared with Model/Convert.v (`loop_i`, `try_brk`, `try_or_body`, `try_and_body`, `pad_loop`).

   Conventions: those of Model/Cast.v and Model/Convert.v —
   * (w, n) is the bnum configuration; a primitive integer type is (pb, ps) = (BITS, signed?); usize / isize are
     64 bit (the harness target).  A float is its bit pattern (Model/FloatCast.v), F = F32 | F64.
   * a primitive VALUE that is only tested and shifted right (`int`, `n` of the from_* macros) is the mathematical
     integer, `>>` is floor division, `as $Digit` is reduction mod 2^w; a primitive ACCUMULATOR built with
     `|`, `&`, `!`, `<<` (`out` of the to_* macros) is its pb-bit two's complement PATTERN.
   * `i << BIT_SHIFT` is `i * w`; array indexing is checked (`rd`, `wr`), shift amounts are checked (`shr_chk`,
     `shl_chk`), ExpType (= u32) additions are checked (`exp_add`); the theorems show none of them can fire.
   * `Option<T>` results are `outcome (option T)`: Ret (Some x) | Ret None | Panic. *)
From Bnum Require Import Base Prim.
From Bnum.Model Require Import Core Shift AddSub Bits Cast Convert FloatCast Ops.

(* ---------- the twelve primitive integer types ---------- *)

Inductive pty := PU8 | PU16 | PU32 | PU64 | PU128 | PUsize | PI8 | PI16 | PI32 | PI64 | PI128 | PIsize.

Definition pty_bits (t : pty) : Z :=
  match t with
  | PU8 | PI8 => 8 | PU16 | PI16 => 16 | PU32 | PI32 => 32
  | PU64 | PI64 | PUsize | PIsize => 64 | PU128 | PI128 => 128
  end.
Definition pty_signed (t : pty) : bool :=
  match t with PI8 | PI16 | PI32 | PI64 | PI128 | PIsize => true | _ => false end.

(* ---------- control / primitive helpers ---------- *)

(* while cond(i) { <body: either updates the state or executes `return None`>; i += 1 }
   Ret (Some s): the loop fell through with state s; Ret None: the body returned None from the function.
   fuel = the static bound of the loop condition, so running out of fuel coincides with the condition being false. *)
Fixpoint while_ret {St : Type} (fuel : nat) (cond : nat -> bool) (body : nat -> St -> outcome (option St))
         (i : nat) (s : St) : outcome (option St) :=
  match fuel with
  | O => Ret (Some s)
  | S f =>
      if cond i then
        obind (body i s) (fun r =>
        match r with
        | Some s' => while_ret f cond body (S i) s'
        | None => Ret None
        end)
      else Ret (Some s)
  end.

(* a + b on ExpType *)
Definition exp_add (dbg : bool) (a b : Z) : outcome Z :=
  if a + b <? 2 ^ 32 then Ret (a + b) else if dbg then Panic else Ret ((a + b) mod 2 ^ 32).
(* uN::checked_shr(rhs) *)
Definition p_checked_shr (pb x s : Z) : option Z := if s <? pb then Some (u_shr x s) else None.
(* Option::unwrap_or *)
Definition unwrap_or {A} (o : option A) (d : A) : A := match o with Some a => a | None => d end.
(* Option::and_then, `?` *)
Definition and_then {A C} (o : option A) (f : A -> outcome (option C)) : outcome (option C) :=
  match o with Some a => f a | None => Ret None end.
Definition obind_opt {A C} (x : outcome (option A)) (f : A -> outcome (option C)) : outcome (option C) :=
  obind x (fun o => and_then o f).
(* uN::try_from(iN): Ok exactly for non-negative values *)
Definition uN_try_from_iN (int : Z) : result Z := if int <? 0 then Err else Ok int.
(* num-traits ToPrimitive for PRIMITIVES, the two instances the FromPrimitive defaults use on a 64-bit target:
   usize::to_u64 and isize::to_i64 (size_of equal: always Some(self as _)) *)
Definition usize_to_u64 (v : Z) : option Z := Some v.
Definition isize_to_i64 (v : Z) : option Z := Some v.

(* float primitives on the bit pattern, beyond those of Model/FloatCast.v (MODELLED, trusted) *)
Definition f_is_finite (F : ffmt) (x : Z) : bool := f_abs_bits F x <? F_INFINITY F.
Definition f_eq_zero (F : ffmt) (x : Z) : bool := f_abs_bits F x =? 0.         (* f == 0.0: true for +0.0 and -0.0 *)

(* ---------- primitive integer -> bnum (FromPrimitive) ---------- *)

(* the loop of buint from_u64 / from_u128, bint from_uint! and bint from_int! (the same text; `fill` is 0 in the
   first three and `initial_digit` in from_int!):
     while i << BIT_SHIFT < INT_BITS {
         let d = (n >> (i << BIT_SHIFT)) as Digit;
         if d != fill { if i < N { out.digits[i] = d; } else { return None; } }
         i += 1;
     } *)
Definition from_body (dbg : bool) (pb w : Z) (n : nat) (int fill : Z) (i : nat) (out : list Z)
  : outcome (option (list Z)) :=
  obind (shr_chk dbg pb int (Z.of_nat i * w)) (fun t =>
  let d := ud w t in
  if negb (d =? fill) then
    if (i <? n)%nat then omap Some (wr out i d) else Ret None
  else Ret (Some out)).

Definition from_loop (dbg : bool) (pb w : Z) (n : nat) (int fill : Z) (out0 : list Z) : outcome (option (list Z)) :=
  while_ret (Z.to_nat pb) (fun i => Z.of_nat i * w <? pb) (from_body dbg pb w n int fill) 0%nat out0.

(* FromPrimitive::from_u64 / from_u128 for BUint (pb = 64 / 128):  out = ZERO; loop; Some(out) *)
Definition U_from_uN (dbg : bool) (pb w : Z) (n : nat) (int : Z) : outcome (option (list Z)) :=
  from_loop dbg pb w n int 0 (ZERO n).

(* FromPrimitive::from_i64 / from_i128 for BUint:  match uN::try_from(int) { Ok(int) => Self::from_uN(int), _ => None } *)
Definition U_from_iN (dbg : bool) (pb w : Z) (n : nat) (int : Z) : outcome (option (list Z)) :=
  match uN_try_from_iN int with
  | Ok int' => U_from_uN dbg pb w n int'
  | Err => Ret None
  end.

(* bint from_uint!:  out = Self::ZERO; loop; if Signed::is_negative(&out) { None } else { Some(out) } *)
Definition I_from_uN (dbg : bool) (pb w : Z) (n : nat) (int : Z) : outcome (option (list Z)) :=
  obind_opt (from_loop dbg pb w n int 0 (from_bits (ZERO n))) (fun out =>
  Ret (if is_negative w out then None else Some out)).

(* bint from_int!:  initial_digit = if n.is_negative() { Digit::MAX } else { Digit::MIN };
                    out = from_bits(from_digits([initial_digit; N])); loop;
                    if n.is_negative() != out.is_negative() { return None } Some(out) *)
Definition I_from_iN (dbg : bool) (pb w : Z) (n : nat) (int : Z) : outcome (option (list Z)) :=
  let initial_digit := if int <? 0 then u_max w else 0 in
  obind_opt (from_loop dbg pb w n int initial_digit (from_bits (from_digits (repeat initial_digit n)))) (fun out =>
  Ret (if negb (Bool.eqb (int <? 0) (is_negative w out)) then None else Some out)).

(* which method `<BUint<N> as FromPrimitive>::from_<t>` executes: bnum overrides from_u64, from_i64, from_u128,
   from_i128; the others are the num-traits defaults
     from_u8/u16/u32(n) = from_u64(From::from(n))        from_usize(n) = n.to_u64().and_then(from_u64)
     from_i8/i16/i32(n) = from_i64(From::from(n))        from_isize(n) = n.to_i64().and_then(from_i64) *)
Definition U_FromPrimitive (dbg : bool) (w : Z) (n : nat) (t : pty) (v : Z) : outcome (option (list Z)) :=
  match t with
  | PU64 | PU8 | PU16 | PU32 => U_from_uN dbg 64 w n v
  | PUsize => and_then (usize_to_u64 v) (U_from_uN dbg 64 w n)
  | PU128 => U_from_uN dbg 128 w n v
  | PI64 | PI8 | PI16 | PI32 => U_from_iN dbg 64 w n v
  | PIsize => and_then (isize_to_i64 v) (U_from_iN dbg 64 w n)
  | PI128 => U_from_iN dbg 128 w n v
  end.

(* `<BInt<N> as FromPrimitive>::from_<t>`: all twelve are overridden, each at its own width *)
Definition I_FromPrimitive (dbg : bool) (w : Z) (n : nat) (t : pty) (v : Z) : outcome (option (list Z)) :=
  if pty_signed t then I_from_iN dbg (pty_bits t) w n v else I_from_uN dbg (pty_bits t) w n v.

Definition FromPrimitive_int (dbg : bool) (w : Z) (n : nat) (dst_signed : bool) (t : pty) (v : Z)
  : outcome (option (list Z)) :=
  if dst_signed then I_FromPrimitive dbg w n t v else U_FromPrimitive dbg w n t v.

(* ---------- float -> bnum (FromPrimitive::from_f32 / from_f64) ---------- *)

(* decode_float!:  MANT_MASK = uN::MAX >> (BITS - (MANTISSA_DIGITS - 1)); EXP_MASK = uN::MAX >> 1; BIAS = MAX_EXP - 1;
                   exp = ((bits & EXP_MASK) >> (MANTISSA_DIGITS - 1)) as i16;  mant = bits & MANT_MASK;
                   if exp != 0 { mant |= 1 << (MANTISSA_DIGITS - 1) }   (mant, exp - (BIAS + MANTISSA_DIGITS as i16 - 1))
   the i16 arithmetic cannot overflow for f32 / f64 (exp field < 2^11, BIAS + MANTISSA_DIGITS - 1 <= 1075). *)
Definition decode_float (F : ffmt) (f : Z) : Z * Z :=
  let mb := fbits F in
  let MANT_MASK := u_shr (u_max mb) (mb - (fp F - 1)) in
  let EXP_MASK := u_shr (u_max mb) 1 in
  let BIAS := MAX_EXP F - 1 in
  let bits := f_to_bits f in
  let exp := u_shr (u_and bits EXP_MASK) (fp F - 1) in
  let mant := u_and bits MANT_MASK in
  let mant := if negb (exp =? 0) then u_or mant (u_shl mb 1 (fp F - 1)) else mant in
  (mant, exp - (BIAS + fp F - 1)).

(* u32_bits / u64_bits:  BITS - u.leading_zeros() *)
Definition uN_bits (pb u : Z) : Z := pb - u_leading_zeros pb u.

(* buint from_float!:
     if !f.is_finite() { return None }  if f == 0.0 { return Some(ZERO) }  if f.is_sign_negative() { return None }
     let (mut mant, exp) = decode(f);
     if exp.is_negative() { mant = mant.checked_shr((-exp) as ExpType).unwrap_or(0);
                            if bits(mant) > Self::BITS { return None }  Some(Self::cast_from(mant)) }
     else { if bits(mant) + exp as ExpType > Self::BITS { return None }  Some(Self::cast_from(mant) << exp) } *)
Definition U_from_fN (dbg : bool) (F : ffmt) (w : Z) (n : nat) (f : Z) : outcome (option (list Z)) :=
  let mb := fbits F in
  if negb (f_is_finite F f) then Ret None
  else if f_eq_zero F f then Ret (Some (ZERO n))
  else if f_is_sign_negative F f then Ret None
  else
    let '(mant, exp) := decode_float F f in
    if exp <? 0 then
      let mant := unwrap_or (p_checked_shr mb mant (ud 32 (- exp))) 0 in
      if bits w n <? uN_bits mb mant then Ret None
      else omap Some (U_from_int mb w n mant)
    else
      obind (exp_add dbg (uN_bits mb mant) (ud 32 exp)) (fun total =>
      if bits w n <? total then Ret None
      else obind (U_from_int mb w n mant) (fun c => omap Some (U_Shl_prim dbg w AI16 c exp))).

(* bint from_float!:
     if f.is_sign_negative() { let i = from_bits(BUint::from_fN(-f)?);
                               if i == MIN { Some(MIN) } else if i.is_negative() { None } else { Some(-i) } }
     else { let i = from_bits(BUint::from_fN(f)?); if i.is_negative() { None } else { Some(i) } } *)
Definition I_from_fN (dbg : bool) (F : ffmt) (w : Z) (n : nat) (f : Z) : outcome (option (list Z)) :=
  if f_is_sign_negative F f then
    obind_opt (U_from_fN dbg F w n (f_neg F f)) (fun u =>
    let i := from_bits u in
    if eq_digits i (IMIN w n) then Ret (Some (IMIN w n))
    else if is_negative w i then Ret None
    else omap Some (I_neg dbg w i))
  else
    obind_opt (U_from_fN dbg F w n f) (fun u =>
    let i := from_bits u in
    if is_negative w i then Ret None else Ret (Some i)).

Definition FromPrimitive_float (dbg : bool) (F : ffmt) (w : Z) (n : nat) (dst_signed : bool) (f : Z)
  : outcome (option (list Z)) :=
  if dst_signed then I_from_fN dbg F w n f else U_from_fN dbg F w n f.

(* ---------- bnum -> primitive integer (ToPrimitive) ---------- *)

(* buint to_int!, after `out` and `i` are set (the text of try_from_buint! with None for Err):
     if out < 0 { return None }  while i < N { if self.digits[i] != 0 { return None } i += 1 }  Some(out) *)
Definition U_to_tail (pb : Z) (ps : bool) (ds : list Z) (out : Z) (i : nat) : outcome (option Z) :=
  if ps && (sd pb out <? 0) then Ret None
  else obind (pad_loop (length ds) ds 0 i) (fun fell_through =>
       Ret (if fell_through then Some (p_of_bits pb ps out) else None)).

(* buint to_int!:  ToPrimitive::to_<int> for BUint, $int any of the 12 primitive integers *)
Definition U_to_int (dbg : bool) (pb : Z) (ps : bool) (w : Z) (ds : list Z) : outcome (option Z) :=
  let n := length ds in
  if pb <? w then                                        (* $Digit::BITS > <$int>::BITS *)
    obind (rd ds 0) (fun d0 =>
    let small := ud pb d0 in                             (* self.digits[i] as $int   (pattern) *)
    let trunc := ud w (p_of_bits pb ps small) in         (* small as $Digit *)
    if negb (d0 =? trunc) then Ret None
    else U_to_tail pb ps ds small 1%nat)
  else
    obind (loop_i n (try_brk pb w n) (try_or_body dbg pb w ds) 0%nat 0) (fun st =>
    U_to_tail pb ps ds (fst st) (snd st)).

(* bint to_uint!:  if self.is_negative() { None } else { self.bits.to_<uint>() } *)
Definition I_to_uint (dbg : bool) (pb : Z) (w : Z) (ds : list Z) : outcome (option Z) :=
  if is_negative w ds then Ret None else U_to_int dbg pb false w (to_bits ds).

(* bint to_int!, after `out` and `i` are set (the text of int_try_from_bint!):
     while i < N { if self.bits.digits[i] != padding { return None } i += 1 }
     if out.is_negative() != neg { return None }  Some(out) *)
Definition I_to_tail (pb : Z) (ds : list Z) (neg : bool) (padding : Z) (out : Z) (i : nat) : outcome (option Z) :=
  obind (pad_loop (length ds) ds padding i) (fun fell_through =>
  if negb fell_through then Ret None
  else if negb (Bool.eqb (sd pb out <? 0) neg) then Ret None
  else Ret (Some (p_of_bits pb true out))).

Definition I_to_int (dbg : bool) (pb : Z) (w : Z) (ds : list Z) : outcome (option Z) :=
  let n := length ds in
  let neg := is_negative w ds in
  let out0 := if neg then u_not pb 0 else 0 in           (* -1 / 0 *)
  let padding := if neg then u_max w else 0 in           (* $Digit::MAX / $Digit::MIN *)
  if pb <? w then
    obind (rd ds 0) (fun d0 =>
    let small := ud pb d0 in
    let trunc := ud w (p_of_bits pb true small) in
    if negb (d0 =? trunc) then Ret None
    else I_to_tail pb ds neg padding small 1%nat)
  else if neg then
    obind (loop_i n (try_brk pb w n) (try_and_body dbg pb w ds) 0%nat out0) (fun st =>
    I_to_tail pb ds neg padding (fst st) (snd st))
  else
    obind (loop_i n (try_brk pb w n) (try_or_body dbg pb w ds) 0%nat out0) (fun st =>
    I_to_tail pb ds neg padding (fst st) (snd st)).

(* which method `ToPrimitive::to_<t>` executes (all twelve are overridden for BUint and for BInt) *)
Definition ToPrimitive_int (dbg : bool) (w : Z) (src_signed : bool) (t : pty) (ds : list Z) : outcome (option Z) :=
  let pb := pty_bits t in
  if src_signed then (if pty_signed t then I_to_int dbg pb w ds else I_to_uint dbg pb w ds)
  else U_to_int dbg pb (pty_signed t) w ds.

(* ToPrimitive::to_f32 / to_f64:  Some(self.as_())  — the C14 cast *)
Definition ToPrimitive_float (dbg : bool) (F : ffmt) (w : Z) (src_signed : bool) (ds : list Z) : outcome (option Z) :=
  omap Some (if src_signed then I_to_float dbg F w ds else U_to_float dbg F w ds).

(* ---------- AsPrimitive ---------- *)

(* impl_as_primitive_big_num_for_primitive!:  AsPrimitive<$ty> for $Int<N>:  <$ty>::cast_from(self) *)
Definition AsPrimitive_to_int (dbg : bool) (w : Z) (src_signed : bool) (t : pty) (ds : list Z) : outcome Z :=
  to_prim dbg (pty_bits t) (pty_signed t) w src_signed ds.
Definition AsPrimitive_to_float (dbg : bool) (F : ffmt) (w : Z) (src_signed : bool) (ds : list Z) : outcome Z :=
  if src_signed then I_to_float dbg F w ds else U_to_float dbg F w ds.
(* as_bigint_impl!:  AsPrimitive<$Big<N>> for $ty:  $Big::cast_from(self), $ty a primitive integer, char, bool, f32, f64 *)
Definition AsPrimitive_from_int (w : Z) (n : nat) (dst_signed : bool) (t : pty) (v : Z) : outcome (list Z) :=
  from_prim (pty_bits t) w n dst_signed v.
Definition AsPrimitive_from_char (w : Z) (n : nat) (dst_signed : bool) (c : Z) : outcome (list Z) :=
  if dst_signed then I_from_char w n c else U_from_char w n c.
Definition AsPrimitive_from_bool (n : nat) (dst_signed : bool) (b : bool) : list Z :=
  if dst_signed then I_from_bool n b else U_from_bool n b.
Definition AsPrimitive_from_float (dbg : bool) (F : ffmt) (w : Z) (n : nat) (dst_signed : bool) (f : Z)
  : outcome (list Z) :=
  if dst_signed then I_from_float dbg F w n f else U_from_float dbg F w n f.
(* AsPrimitive<$BUint<M>> / AsPrimitive<$BInt<M>> for $Int<N> (same digit type):  $B::<M>::cast_from(self) *)
Definition AsPrimitive_bnum (dbg : bool) (w : Z) (n' : nat) (src_signed dst_signed : bool) (ds : list Z)
  : outcome (list Z) :=
  cast dbg w w n' src_signed dst_signed ds.

(* ---------- NumCast ---------- *)

(* num_traits::NumCast::from:  panic!("... `num_traits::NumCast` trait is not supported for ...") — unconditionally.
   (Not part of the property's claim; modelled because it is the code of the anchored lines.) *)
Definition NumCast_from {A} (_ : A) : outcome (option (list Z)) := Panic.

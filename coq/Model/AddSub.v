(* Model/AddSub.v — add / sub / neg / abs families:
   src/buint/overflowing.rs, src/bint/overflowing.rs, src/int/bigint_helpers.rs,
   checked / wrapping / saturating / strict projections, abs_diff, unsigned_abs,
   midpoint, and the inherent add/sub/neg/abs that switch on debug assertions. *)
From Bnum Require Import Base Prim.
From Bnum.Model Require Import Digit Core Shift.

(* ---- unsigned ---- *)

Fixpoint add_loop (w : Z) (a b : list Z) (carry : bool) : list Z * bool :=
  match a, b with
  | x :: a', y :: b' =>
      let '(s, c) := carrying_add w x y carry in
      let '(r, cf) := add_loop w a' b' c in (s :: r, cf)
  | _, _ => ([], carry)
  end.

Fixpoint sub_loop (w : Z) (a b : list Z) (borrow : bool) : list Z * bool :=
  match a, b with
  | x :: a', y :: b' =>
      let '(s, c) := borrowing_sub w x y borrow in
      let '(r, cf) := sub_loop w a' b' c in (s :: r, cf)
  | _, _ => ([], borrow)
  end.

Definition U_overflowing_add (w : Z) (a b : list Z) := add_loop w a b false.
Definition U_overflowing_sub (w : Z) (a b : list Z) := sub_loop w a b false.

Definition U_overflowing_add_signed (w : Z) (a b : list Z) : list Z * bool :=
  let '(sum, overflow) := U_overflowing_add w a b in
  (sum, negb (Bool.eqb (is_negative w b) overflow)).

Definition U_overflowing_neg (w : Z) (a : list Z) : list Z * bool :=
  let '(r, c) := U_overflowing_add w (bitnot w a) (ONE (length a)) in (r, negb c).

Definition U_checked_add w a b := tuple_to_option (U_overflowing_add w a b).
Definition U_checked_sub w a b := tuple_to_option (U_overflowing_sub w a b).
Definition U_checked_add_signed w a b := tuple_to_option (U_overflowing_add_signed w a b).
Definition U_checked_neg (a : list Z) : option (list Z) := if is_zero a then Some a else None.
Definition U_wrapping_add w a b := fst (U_overflowing_add w a b).
Definition U_wrapping_sub w a b := fst (U_overflowing_sub w a b).
Definition U_wrapping_add_signed w a b := fst (U_overflowing_add_signed w a b).
Definition U_wrapping_neg w a := fst (U_overflowing_neg w a).

Definition saturate_up (w : Z) (p : list Z * bool) : list Z :=
  if snd p then UMAX w (length (fst p)) else fst p.
Definition saturate_down (p : list Z * bool) : list Z :=
  if snd p then ZERO (length (fst p)) else fst p.
Definition U_saturating_add w a b := saturate_up w (U_overflowing_add w a b).
Definition U_saturating_sub w a b := saturate_down (U_overflowing_sub w a b).
Definition U_saturating_add_signed w a b :=
  if is_negative w b then saturate_down (U_overflowing_add_signed w a b)
  else saturate_up w (U_overflowing_add_signed w a b).

Definition U_strict_add w a b := option_expect (U_checked_add w a b).
Definition U_strict_sub w a b := option_expect (U_checked_sub w a b).
Definition U_strict_neg (a : list Z) := option_expect (U_checked_neg a).

Definition U_add (dbg : bool) w a b : outcome (list Z) :=
  if dbg then U_strict_add w a b else Ret (U_wrapping_add w a b).
Definition U_sub (dbg : bool) w a b : outcome (list Z) :=
  if dbg then U_strict_sub w a b else Ret (U_wrapping_sub w a b).

Definition U_carrying_add (w : Z) (a b : list Z) (carry : bool) : list Z * bool :=
  let '(s1, o1) := U_overflowing_add w a b in
  if carry then let '(s2, o2) := U_overflowing_add w s1 (ONE (length a)) in (s2, xorb o1 o2)
  else (s1, o1).
Definition U_borrowing_sub (w : Z) (a b : list Z) (borrow : bool) : list Z * bool :=
  let '(s1, o1) := U_overflowing_sub w a b in
  if borrow then let '(s2, o2) := U_overflowing_sub w s1 (ONE (length a)) in (s2, xorb o1 o2)
  else (s1, o1).

Definition U_abs_diff (w : Z) (a b : list Z) : list Z :=
  if cmp_lt (ucmp a b) then U_wrapping_sub w b a else U_wrapping_sub w a b.

(* self.bitand(rhs).add(self.bitxor(rhs).shr(1)) — add and shr are the inherent
   (debug: strict) forms, so the model can in principle panic; the theorem says it never does *)
Definition U_midpoint (dbg : bool) (w : Z) (a b : list Z) : outcome (list Z) :=
  obind (U_shr dbg w (bitxor a b) 1) (fun h => U_add dbg w (bitand a b) h).

(* ---- signed ---- *)

Fixpoint iadd_loop (w : Z) (a b : list Z) (carry : bool) : list Z * bool :=
  match a, b with
  | [x], [y] =>
      let '(s, o) := carrying_add_signed w (sd w x) (sd w y) carry in ([ud w s], o)
  | x :: a', y :: b' =>
      let '(s, c) := carrying_add w x y carry in
      let '(r, o) := iadd_loop w a' b' c in (s :: r, o)
  | _, _ => ([], carry)
  end.

Fixpoint isub_loop (w : Z) (a b : list Z) (borrow : bool) : list Z * bool :=
  match a, b with
  | [x], [y] =>
      let '(s, o) := borrowing_sub_signed w (sd w x) (sd w y) borrow in ([ud w s], o)
  | x :: a', y :: b' =>
      let '(s, c) := borrowing_sub w x y borrow in
      let '(r, o) := isub_loop w a' b' c in (s :: r, o)
  | _, _ => ([], borrow)
  end.

Definition I_overflowing_add (w : Z) (a b : list Z) := iadd_loop w a b false.
Definition I_overflowing_sub (w : Z) (a b : list Z) := isub_loop w a b false.

Definition I_overflowing_add_unsigned (w : Z) (a b : list Z) : list Z * bool :=
  let '(sum, overflow) := I_overflowing_add w a b in
  (sum, negb (Bool.eqb (is_negative w b) overflow)).
Definition I_overflowing_sub_unsigned (w : Z) (a b : list Z) : list Z * bool :=
  let '(sum, overflow) := I_overflowing_sub w a b in
  (sum, negb (Bool.eqb (is_negative w b) overflow)).

(* complement-and-increment with the early exit *)
Fixpoint ineg_loop (w : Z) (ds : list Z) : list Z * bool :=
  match ds with
  | [] => ([], false)
  | [d] => let '(s, o) := s_ovf_add w (sd w (u_not w d)) 1 in ([ud w s], o)
  | d :: r =>
      let '(s, o) := u_ovf_add w (u_not w d) 1 in
      if o then let '(r', f) := ineg_loop w r in (s :: r', f)
      else (s :: bitnot w r, false)
  end.
Definition I_overflowing_neg (w : Z) (a : list Z) := ineg_loop w a.
Definition I_overflowing_abs (w : Z) (a : list Z) : list Z * bool :=
  if is_negative w a then I_overflowing_neg w a else (a, false).

Definition I_checked_add w a b := tuple_to_option (I_overflowing_add w a b).
Definition I_checked_sub w a b := tuple_to_option (I_overflowing_sub w a b).
Definition I_checked_add_unsigned w a b := tuple_to_option (I_overflowing_add_unsigned w a b).
Definition I_checked_sub_unsigned w a b := tuple_to_option (I_overflowing_sub_unsigned w a b).
Definition I_checked_neg w a := tuple_to_option (I_overflowing_neg w a).
Definition I_checked_abs w a := tuple_to_option (I_overflowing_abs w a).
(* BInt::wrapping_add/sub go through the unsigned loops on the bit pattern *)
Definition I_wrapping_add w a b := U_wrapping_add w a b.
Definition I_wrapping_sub w a b := U_wrapping_sub w a b.
Definition I_wrapping_add_unsigned w a b := fst (I_overflowing_add_unsigned w a b).
Definition I_wrapping_sub_unsigned w a b := fst (I_overflowing_sub_unsigned w a b).
Definition I_wrapping_neg w a := fst (I_overflowing_neg w a).
Definition I_wrapping_abs w a := fst (I_overflowing_abs w a).

Definition sat_by_sign (w : Z) (a : list Z) : list Z :=
  if is_negative w a then IMIN w (length a) else IMAX w (length a).
Definition I_saturating_add w a b :=
  match I_checked_add w a b with Some r => r | None => sat_by_sign w a end.
Definition I_saturating_sub w a b :=
  match I_checked_sub w a b with Some r => r | None => sat_by_sign w a end.
Definition I_saturating_add_unsigned w a b :=
  match I_checked_add_unsigned w a b with Some r => r | None => IMAX w (length a) end.
Definition I_saturating_sub_unsigned w a b :=
  match I_checked_sub_unsigned w a b with Some r => r | None => IMIN w (length a) end.
Definition I_saturating_neg w a :=
  match I_checked_neg w a with Some r => r | None => IMAX w (length a) end.
Definition I_saturating_abs w a :=
  match I_checked_abs w a with Some r => r | None => IMAX w (length a) end.

Definition I_strict_add w a b := option_expect (I_checked_add w a b).
Definition I_strict_sub w a b := option_expect (I_checked_sub w a b).
Definition I_strict_neg w a := option_expect (I_checked_neg w a).
Definition I_strict_abs w a := option_expect (I_checked_abs w a).

Definition I_add (dbg : bool) w a b : outcome (list Z) :=
  if dbg then I_strict_add w a b else Ret (I_wrapping_add w a b).
Definition I_sub (dbg : bool) w a b : outcome (list Z) :=
  if dbg then I_strict_sub w a b else Ret (I_wrapping_sub w a b).
Definition I_neg (dbg : bool) w a : outcome (list Z) :=
  if dbg then I_strict_neg w a else Ret (I_wrapping_neg w a).
Definition I_abs (dbg : bool) w a : outcome (list Z) :=
  if dbg then I_strict_abs w a
  else Ret (match I_checked_abs w a with Some r => r | None => IMIN w (length a) end).

Definition I_carrying_add (w : Z) (a b : list Z) (carry : bool) : list Z * bool :=
  let '(s1, o1) := I_overflowing_add w a b in
  if carry then let '(s2, o2) := I_overflowing_add w s1 (ONE (length a)) in (s2, xorb o1 o2)
  else (s1, o1).
Definition I_borrowing_sub (w : Z) (a b : list Z) (borrow : bool) : list Z * bool :=
  let '(s1, o1) := I_overflowing_sub w a b in
  if borrow then let '(s2, o2) := I_overflowing_sub w s1 (ONE (length a)) in (s2, xorb o1 o2)
  else (s1, o1).

Definition I_unsigned_abs (w : Z) (a : list Z) : list Z :=
  if is_negative w a then I_wrapping_neg w a else a.
Definition I_abs_diff (w : Z) (a b : list Z) : list Z :=
  if cmp_lt (icmp w a b) then I_wrapping_sub w b a else I_wrapping_sub w a b.

Definition I_midpoint (dbg : bool) (w : Z) (a b : list Z) : outcome (list Z) :=
  let x := bitxor a b in
  obind (I_shr dbg w x 1) (fun h =>
  obind (I_add dbg w (bitand a b) h) (fun t =>
  if is_negative w t && (Z.land (hd 0 x) 1 =? 1)
  then I_add dbg w t (ONE (length a)) else Ret t)).

(* Model/Mul.v — src/buint/mul.rs (long_mul), src/buint/bigint_helpers.rs
   (widening_mul, carrying_mul), signed overflowing_mul of src/bint/overflowing.rs
   and the checked / wrapping / saturating / strict / inherent projections. *)
From Bnum Require Import Base Prim.
From Bnum.Model Require Import Digit Core Shift AddSub.

(* one row of long_mul: digit ai of self against all of rhs, accumulating into the part of
   `out` from index i upwards; returns (new suffix, carry after the last in-range column,
   overflow seen at an out-of-range column).  The `break` stops the row. *)
Fixpoint mul_row (w ai : Z) (b suffix : list Z) (carry : Z) : list Z * Z * bool :=
  match b, suffix with
  | bj :: b', o :: s' =>
      let '(p, c) := carrying_mul w ai bj carry o in
      let '(r, cf, ov) := mul_row w ai b' s' c in (p :: r, cf, ov)
  | bj :: b', [] =>
      if negb (ai =? 0) && negb (bj =? 0) then ([], carry, true) else mul_row w ai b' [] carry
  | [], _ => (suffix, carry, false)
  end.

Fixpoint long_mul_loop (w : Z) (a b suffix : list Z) (ovf : bool) : list Z * bool :=
  match a with
  | [] => ([], ovf)
  | ai :: a' =>
      let '(s', carry, ov1) := mul_row w ai b suffix 0 in
      let ovf' := ovf || ov1 || negb (carry =? 0) in
      match s' with
      | [] => ([], ovf')
      | d :: rest => let '(r, o) := long_mul_loop w a' b rest ovf' in (d :: r, o)
      end
  end.

Definition long_mul (w : Z) (a b : list Z) : list Z * bool :=
  long_mul_loop w a b (ZERO (length a)) false.

Definition U_overflowing_mul := long_mul.
Definition U_checked_mul w a b := tuple_to_option (U_overflowing_mul w a b).
Definition U_wrapping_mul w a b := fst (U_overflowing_mul w a b).
Definition U_saturating_mul w a b := saturate_up w (U_overflowing_mul w a b).
Definition U_strict_mul w a b := option_expect (U_checked_mul w a b).
Definition U_mul (dbg : bool) w a b : outcome (list Z) :=
  if dbg then U_strict_mul w a b else Ret (U_wrapping_mul w a b).

(* widening_mul: low and high are modelled as one 2N-digit accumulator *)
Fixpoint wide_row (w ai : Z) (b suffix : list Z) (carry : Z) : list Z :=
  match b, suffix with
  | bj :: b', o :: s' =>
      let '(p, c) := carrying_mul w ai bj carry o in p :: wide_row w ai b' s' c
  | [], _ :: s' => carry :: s'
  | _, _ => suffix
  end.

Fixpoint wide_loop (w : Z) (a b suffix : list Z) : list Z :=
  match a with
  | [] => suffix
  | ai :: a' =>
      match wide_row w ai b suffix 0 with
      | [] => []
      | d :: rest => d :: wide_loop w a' b rest
      end
  end.

Definition U_widening_mul (w : Z) (a b : list Z) : list Z * list Z :=
  let n := length a in
  let r := wide_loop w a b (ZERO (n + n)) in (firstn n r, skipn n r).

Definition U_carrying_mul (w : Z) (a b c : list Z) : list Z * list Z :=
  let '(low, high) := U_widening_mul w a b in
  let '(low', overflow) := U_overflowing_add w low c in
  if overflow then (low', U_wrapping_add w high (ONE (length a))) else (low', high).

(* ---- signed ---- *)
Definition I_overflowing_mul (w : Z) (a b : list Z) : list Z * bool :=
  let '(out, overflow) := U_overflowing_mul w (I_unsigned_abs w a) (I_unsigned_abs w b) in
  if Bool.eqb (is_negative w a) (is_negative w b) then (out, overflow || is_negative w out)
  else match I_checked_neg w out with
       | Some m => (m, overflow || is_negative w out)
       | None => (out, overflow)
       end.
Definition I_checked_mul w a b := tuple_to_option (I_overflowing_mul w a b).
Definition I_wrapping_mul w a b := U_wrapping_mul w a b.
Definition I_saturating_mul w a b :=
  match I_checked_mul w a b with
  | Some r => r
  | None => if Bool.eqb (is_negative w a) (is_negative w b) then IMAX w (length a) else IMIN w (length a)
  end.
Definition I_strict_mul w a b := option_expect (I_checked_mul w a b).
Definition I_mul (dbg : bool) w a b : outcome (list Z) :=
  if dbg then I_strict_mul w a b else Ret (I_wrapping_mul w a b).

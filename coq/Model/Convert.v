(* Model/Convert.v — checked / infallible conversions (`TryFrom`, `From`, `BTryFrom`), function by function:
     src/buint/convert.rs  from_uint!  (From<uN> for BUint), try_from_iint! (TryFrom<iN> for BUint),
                           try_from_buint! (TryFrom<BUint> for every primitive integer),
                           uint_try_from_uint! / uint_try_from_int! / int_try_from_uint! / int_try_from_int!
                           (BTryFrom between any two bnum integers), From<bool>, From<char>,
                           From<[Digit; N]> for BUint, From<BUint> for [Digit; N]
     src/bint/convert.rs   from_int! (From<iN> for BInt), from_uint! (From<uN> for BInt), From<bool>,
                           int_try_from_bint! (TryFrom<BInt> for iN), uint_try_from_bint! (TryFrom<BInt> for uN)
     src/buint/mod.rs      digits, from_digits  (from_digit is Core.from_digit)
     src/lib.rs            trait BTryFrom (no code)     src/errors/tryfrom.rs  TryFromIntError(())

   Conventions (those of Model/Cast.v, whose `cast`, `rd`, `wr`, `shl_chk`, `shr_chk`, `while_`, `p_of_bits`,
   `U_from_bool`, `U_from_char` are REUSED here — every `Self::cast_from(..)` in the Rust code is a call of the
   Cast.v model, never a second model):
   * (w, n) source configuration, (w', n') target; a primitive integer type is (pb, ps) = (BITS, signed?).
   * `Result<T, TryFromIntError>` is `result T` (the error carries no data).
   * a primitive ACCUMULATOR built with `|`, `&`, `!`, `<<` (`out` of try_from_buint! / int_try_from_bint!) is its
     pb-bit two's-complement PATTERN in [0, 2^pb); `out < 0` / `out.is_negative()` read the pattern's sign bit
     (`sd pb out <? 0`), `Ok(out)` reads it as a value (`p_of_bits`).  A primitive VALUE that is only tested and
     shifted right (`int` of from_uint! / from_int!) is the mathematical integer, `>>` is floor division
     (arithmetic shift for iN, logical for uN) and `as $Digit` is reduction mod 2^w (truncation, or zero / sign
     extension when the digit is wider).
   * `i << BIT_SHIFT` is `i * w` (identical for the instantiated digit widths).
   * ExpType (= u32) subtractions are checked (`exp_sub`: Panic with overflow checks, wrap without); the theorems
     show they cannot fire.  Array indexing is checked (`rd`, `wr`).
   * N = 0 (`BInt<0>::is_negative` indexes digits[N - 1]; `Self::BITS - 1`) is outside every theorem (0 < n). *)
From Bnum Require Import Base Prim.
From Bnum.Model Require Import Core Bits Cast.

Inductive result (A : Type) : Type :=
| Ok (a : A)
| Err.                       (* Err(TryFromIntError(())) *)
Arguments Ok {A} a.
Arguments Err {A}.

(* ---------- control / primitive helpers ---------- *)

(* a - b on ExpType *)
Definition exp_sub (dbg : bool) (a b : Z) : outcome Z :=
  if b <=? a then Ret (a - b) else if dbg then Panic else Ret ((a - b) mod 2 ^ 32).
(* a.saturating_sub(b) *)
Definition exp_saturating_sub (a b : Z) : Z := Z.max 0 (a - b).
(* a || b, b evaluated only when a is false *)
Definition or_else (a : bool) (b : outcome bool) : outcome bool := if a then Ret true else b.

(* loop { if brk(i) { break; } s = body(i, s); i += 1; }      `i` stays live after the loop.
   fuel = the static bound of the break condition (`i >= N`). *)
Fixpoint loop_i {St : Type} (fuel : nat) (brk : nat -> bool) (body : nat -> St -> outcome St)
         (i : nat) (s : St) : outcome (St * nat) :=
  match fuel with
  | O => Ret (s, i)
  | S f => if brk i then Ret (s, i) else obind (body i s) (fun s' => loop_i f brk body (S i) s')
  end.

(* while i < N { if digits[i] != padding { return Err(..); } i += 1; }      true = the loop fell through *)
Fixpoint pad_loop (fuel : nat) (ds : list Z) (padding : Z) (i : nat) : outcome bool :=
  match fuel with
  | O => Ret true
  | S f =>
      if (i <? length ds)%nat then
        obind (rd ds i) (fun d => if negb (d =? padding) then Ret false else pad_loop f ds padding (S i))
      else Ret true
  end.

(* the break test of both assembling loops:  i >= N || shift >= <$int>::BITS as usize   (shift = i << BIT_SHIFT) *)
Definition try_brk (pb w : Z) (n : nat) (i : nat) : bool := (n <=? i)%nat || (pb <=? Z.of_nat i * w).

(* out |= u.digits[i] as $int << shift *)
Definition try_or_body (dbg : bool) (pb w : Z) (ds : list Z) (i : nat) (out : Z) : outcome Z :=
  obind (rd ds i) (fun d =>
  obind (shl_chk dbg pb (ud pb d) (Z.of_nat i * w)) (fun t =>
  Ret (u_or out t))).
(* out &= !((!int.bits.digits[i]) as $int << shift) *)
Definition try_and_body (dbg : bool) (pb w : Z) (ds : list Z) (i : nat) (out : Z) : outcome Z :=
  obind (rd ds i) (fun d =>
  obind (shl_chk dbg pb (ud pb (u_not w d)) (Z.of_nat i * w)) (fun t =>
  Ret (u_and out (u_not pb t)))).

(* ---------- bnum -> primitive integer (TryFrom) ---------- *)

(* try_from_buint!, after `out` and `i` are set:
     if out < 0 { return Err }          (never true for an unsigned $int: #[allow(unused_comparisons)])
     while i < N { if u.digits[i] != 0 { return Err } i += 1 }
     Ok(out) *)
Definition U_try_tail (pb : Z) (ps : bool) (ds : list Z) (out : Z) (i : nat) : outcome (result Z) :=
  if ps && (sd pb out <? 0) then Ret Err
  else obind (pad_loop (length ds) ds 0 i) (fun fell_through =>
       Ret (if fell_through then Ok (p_of_bits pb ps out) else Err)).

(* try_from_buint!: TryFrom<BUint<N>> for $int, $int any of the 12 primitive integers *)
Definition U_try_to_prim (dbg : bool) (pb : Z) (ps : bool) (w : Z) (ds : list Z) : outcome (result Z) :=
  let n := length ds in
  if pb <? w then                                        (* $Digit::BITS > <$int>::BITS *)
    obind (rd ds 0) (fun d0 =>
    let small := ud pb d0 in                             (* u.digits[i] as $int   (pattern) *)
    let trunc := ud w (p_of_bits pb ps small) in         (* small as $Digit       (sign-extends when $int is signed) *)
    if negb (d0 =? trunc) then Ret Err
    else U_try_tail pb ps ds small 1%nat)
  else
    obind (loop_i n (try_brk pb w n) (try_or_body dbg pb w ds) 0%nat 0) (fun st =>
    U_try_tail pb ps ds (fst st) (snd st)).

(* int_try_from_bint!, after `out` and `i` are set:
     while i < N { if int.bits.digits[i] != padding { return Err } i += 1 }
     if out.is_negative() != neg { return Err }
     Ok(out) *)
Definition I_try_tail (pb : Z) (ds : list Z) (neg : bool) (padding : Z) (out : Z) (i : nat) : outcome (result Z) :=
  obind (pad_loop (length ds) ds padding i) (fun fell_through =>
  if negb fell_through then Ret Err
  else if negb (Bool.eqb (sd pb out <? 0) neg) then Ret Err
  else Ret (Ok (p_of_bits pb true out))).

(* int_try_from_bint!: TryFrom<BInt<N>> for iN *)
Definition I_try_to_iprim (dbg : bool) (pb : Z) (w : Z) (ds : list Z) : outcome (result Z) :=
  let n := length ds in
  let neg := is_negative w ds in
  let out0 := if neg then u_not pb 0 else 0 in           (* -1 / 0 *)
  let padding := if neg then u_max w else 0 in           (* $Digit::MAX / $Digit::MIN *)
  if pb <? w then
    obind (rd ds 0) (fun d0 =>
    let small := ud pb d0 in
    let trunc := ud w (p_of_bits pb true small) in
    if negb (d0 =? trunc) then Ret Err
    else I_try_tail pb ds neg padding small 1%nat)
  else if neg then
    obind (loop_i n (try_brk pb w n) (try_and_body dbg pb w ds) 0%nat out0) (fun st =>
    I_try_tail pb ds neg padding (fst st) (snd st))
  else
    obind (loop_i n (try_brk pb w n) (try_or_body dbg pb w ds) 0%nat out0) (fun st =>
    I_try_tail pb ds neg padding (fst st) (snd st)).

(* uint_try_from_bint!: TryFrom<BInt<N>> for uN:  if int.is_negative() { Err } else { <$uint>::try_from(int.bits) } *)
Definition I_try_to_uprim (dbg : bool) (pb : Z) (w : Z) (ds : list Z) : outcome (result Z) :=
  if is_negative w ds then Ret Err else U_try_to_prim dbg pb false w (to_bits ds).

(* which impl `<prim as TryFrom<bnum>>::try_from` selects *)
Definition try_to_prim (dbg : bool) (pb : Z) (ps : bool) (w : Z) (src_signed : bool) (ds : list Z)
  : outcome (result Z) :=
  if src_signed then (if ps then I_try_to_iprim dbg pb w ds else I_try_to_uprim dbg pb w ds)
  else U_try_to_prim dbg pb ps w ds.

(* ---------- primitive integer, bool, char -> bnum (From / TryFrom) ---------- *)

(* buint from_uint!:  out = ZERO; while i << BIT_SHIFT < UINT_BITS { d = (int >> (i << BIT_SHIFT)) as Digit;
                                                                  if d != 0 { out.digits[i] = d } i += 1 }
   fuel: the loop runs while i * w < pb, hence (1 <= w) fewer than pb times *)
Definition U_from_uint (dbg : bool) (pb w : Z) (n : nat) (int : Z) : outcome (list Z) :=
  while_ (Z.to_nat pb) (fun i _ => Z.of_nat i * w <? pb)
    (fun i out =>
       obind (shr_chk dbg pb int (Z.of_nat i * w)) (fun t =>
       let d := ud w t in
       if negb (d =? 0) then wr out i d else Ret out))
    0%nat (ZERO n).

(* try_from_iint!:  if int.is_negative() { return Err }  let bits = int as $uint;  Ok(Self::from(bits)) *)
Definition U_try_from_iint (dbg : bool) (pb w : Z) (n : nat) (int : Z) : outcome (result (list Z)) :=
  if int <? 0 then Ret Err
  else let bits := ud pb int in omap Ok (U_from_uint dbg pb w n bits).

(* bint from_int!:  out = if int.is_negative() { !ZERO } else { ZERO };
                    while i << BIT_SHIFT < $int::BITS { out.bits.digits[i] = (int >> (i << BIT_SHIFT)) as Digit; i += 1 } *)
Definition I_from_iint (dbg : bool) (pb w : Z) (n : nat) (int : Z) : outcome (list Z) :=
  let out := if int <? 0 then bitnot w (ZERO n) else ZERO n in
  while_ (Z.to_nat pb) (fun i _ => Z.of_nat i * w <? pb)
    (fun i out =>
       obind (shr_chk dbg pb int (Z.of_nat i * w)) (fun t =>
       wr out i (ud w t)))
    0%nat out.

(* bint from_uint!:  Self::from_bits($BUint::from(int)) *)
Definition I_from_uint (dbg : bool) (pb w : Z) (n : nat) (int : Z) : outcome (list Z) :=
  omap from_bits (U_from_uint dbg pb w n int).

(* the conversion the standard traits offer for (primitive type, target signedness):
   From<uN> for BUint, TryFrom<iN> for BUint, From<uN> for BInt, From<iN> for BInt *)
Definition conv_from_prim (dbg : bool) (pb : Z) (ps : bool) (w : Z) (n : nat) (dst_signed : bool) (v : Z)
  : outcome (result (list Z)) :=
  match ps, dst_signed with
  | false, false => omap Ok (U_from_uint dbg pb w n v)
  | true, false => U_try_from_iint dbg pb w n v
  | false, true => omap Ok (I_from_uint dbg pb w n v)
  | true, true => omap Ok (I_from_iint dbg pb w n v)
  end.

(* From<bool> for BUint / BInt, From<char> for BUint:  Self::cast_from(..)  — the Cast.v models *)
Definition U_conv_from_bool (n : nat) (b : bool) : list Z := U_from_bool n b.
Definition I_conv_from_bool (n : nat) (b : bool) : list Z := I_from_bool n b.
Definition U_conv_from_char (w : Z) (n : nat) (c : Z) : outcome (list Z) := U_from_char w n c.

(* ---------- bnum -> bnum (BTryFrom); `fb` = $From::BITS, `sb` = Self::BITS ---------- *)

Definition ok_cast (dbg : bool) (w w' : Z) (n' : nat) (ss dsg : bool) (src : list Z) : outcome (result (list Z)) :=
  omap Ok (cast dbg w w' n' ss dsg src).                    (* Ok(Self::cast_from(from)) *)

(* uint_try_from_uint!:  if From::BITS <= Self::BITS || From::BITS - from.leading_zeros() <= Self::BITS *)
Definition U_btry_from_U (dbg : bool) (w : Z) (src : list Z) (w' : Z) (n' : nat) : outcome (result (list Z)) :=
  let fb := bits w (length src) in
  let sb := bits w' n' in
  obind (or_else (fb <=? sb) (omap (fun sig => sig <=? sb) (exp_sub dbg fb (leading_zeros w src)))) (fun c =>
  if c then ok_cast dbg w w' n' false false src else Ret Err).

(* uint_try_from_int!:  if from.is_negative() { Err } else if From::BITS.saturating_sub(1) <= Self::BITS
                                                             || From::BITS - from.leading_zeros() <= Self::BITS *)
Definition U_btry_from_I (dbg : bool) (w : Z) (src : list Z) (w' : Z) (n' : nat) : outcome (result (list Z)) :=
  let fb := bits w (length src) in
  let sb := bits w' n' in
  if is_negative w src then Ret Err
  else
    obind (or_else (exp_saturating_sub fb 1 <=? sb)
                   (omap (fun sig => sig <=? sb) (exp_sub dbg fb (leading_zeros w src)))) (fun c =>
    if c then ok_cast dbg w w' n' true false src else Ret Err).

(* int_try_from_uint!:  if From::BITS <= Self::BITS - 1 || From::BITS - from.leading_zeros() <= Self::BITS - 1
   (`Self::BITS - 1` is the same expression twice: evaluated once here) *)
Definition I_btry_from_U (dbg : bool) (w : Z) (src : list Z) (w' : Z) (n' : nat) : outcome (result (list Z)) :=
  let fb := bits w (length src) in
  let sb := bits w' n' in
  obind (exp_sub dbg sb 1) (fun sb1 =>
  obind (or_else (fb <=? sb1) (omap (fun sig => sig <=? sb1) (exp_sub dbg fb (leading_zeros w src)))) (fun c =>
  if c then ok_cast dbg w w' n' false true src else Ret Err)).

(* int_try_from_int!:  if From::BITS <= Self::BITS { return Ok(cast) }
                       if from.is_negative() { From::BITS - from.leading_ones() <= Self::BITS - 1 }
                       else                  { From::BITS - from.leading_zeros() <= Self::BITS - 1 } *)
Definition I_btry_from_I (dbg : bool) (w : Z) (src : list Z) (w' : Z) (n' : nat) : outcome (result (list Z)) :=
  let fb := bits w (length src) in
  let sb := bits w' n' in
  if fb <=? sb then ok_cast dbg w w' n' true true src
  else
    let lead := if is_negative w src then leading_ones w src else leading_zeros w src in
    obind (exp_sub dbg fb lead) (fun sig =>
    obind (exp_sub dbg sb 1) (fun sb1 =>
    if sig <=? sb1 then ok_cast dbg w w' n' true true src else Ret Err)).

(* which impl `<Target as BTryFrom<Source>>::try_from` selects (mixed_try_from!) *)
Definition btry_from (dbg : bool) (w : Z) (w' : Z) (n' : nat) (src_signed dst_signed : bool) (src : list Z)
  : outcome (result (list Z)) :=
  match src_signed, dst_signed with
  | false, false => U_btry_from_U dbg w src w' n'
  | true, false => U_btry_from_I dbg w src w' n'
  | false, true => I_btry_from_U dbg w src w' n'
  | true, true => I_btry_from_I dbg w src w' n'
  end.

(* ---------- digit array accessors ---------- *)

Definition from_digits (digits : list Z) : list Z := digits.      (* BUint::from_digits: Self { digits } *)
Definition digits (ds : list Z) : list Z := ds.                   (* BUint::digits: &self.digits *)
Definition from_array (arr : list Z) : list Z := from_digits arr. (* From<[Digit; N]> for BUint *)
Definition into_array (ds : list Z) : list Z := ds.               (* From<BUint<N>> for [Digit; N]: uint.digits *)
(* BUint::from_digit is Core.from_digit (out = ZERO; out.digits[0] = digit) *)

(* Model/Shift.v — src/buint/mod.rs unchecked_shl_internal,
   unchecked_shr_pad_internal, rotate_digits_left, unchecked_rotate_left,
   rotate_left/right, unbounded shifts; overflowing/checked/wrapping shifts of
   src/buint/overflowing.rs, src/bint/overflowing.rs, src/*/checked.rs.
   `rhs >> BIT_SHIFT` and `rhs & BITS_MINUS_1` (digit level) are written
   rhs / w and rhs mod w: identical for the instantiated w = 8,16,32,64. *)
From Bnum Require Import Base Prim.
From Bnum.Model Require Import Core.

(* inner loop of shl / rotate: threads the carry upwards *)
Fixpoint shl_bits (w bs : Z) (ds : list Z) (carry : Z) : list Z :=
  match ds with
  | [] => []
  | d :: r => u_or (u_shl w d bs) carry :: shl_bits w bs r (u_shr d (w - bs))
  end.
Fixpoint shl_bits_carry (w bs : Z) (ds : list Z) (carry : Z) : Z :=
  match ds with
  | [] => carry
  | d :: r => shl_bits_carry w bs r (u_shr d (w - bs))
  end.

Definition shl_internal (w : Z) (ds : list Z) (rhs : Z) : list Z :=
  let n := length ds in
  let digit_shift := Z.to_nat (rhs / w) in
  let bit_shift := rhs mod w in
  let src := firstn (n - digit_shift) ds in
  firstn n (repeat 0 digit_shift ++
            (if bit_shift =? 0 then src else shl_bits w bit_shift src 0)).

(* inner loop of shr: runs from the top digit downwards; `rds` is the source
   window reversed (most significant first); result is most significant first *)
Fixpoint shr_bits (w bs : Z) (rds : list Z) (carry : Z) : list Z :=
  match rds with
  | [] => []
  | d :: r => u_or (u_shr d bs) carry :: shr_bits w bs r (u_shl w d (w - bs))
  end.

Definition set_nth (i : nat) (f : Z -> Z) (ds : list Z) : list Z :=
  firstn i ds ++ match skipn i ds with [] => [] | d :: r => f d :: r end.

Definition shr_pad_internal (w : Z) (neg : bool) (ds : list Z) (rhs : Z) : list Z :=
  let n := length ds in
  let digit_shift := Z.to_nat (rhs / w) in
  let bit_shift := rhs mod w in
  let num_copies := (n - digit_shift)%nat in
  let pad := if neg then u_max w else 0 in
  let src := skipn digit_shift ds in
  if bit_shift =? 0 then firstn n (src ++ repeat pad digit_shift)
  else
    let low := rev (shr_bits w bit_shift (rev src) 0) in
    let low' := if neg then set_nth (num_copies - 1) (fun d => u_or d (u_shl w (u_max w) (w - bit_shift))) low
                else low in
    firstn n (low' ++ repeat pad digit_shift).

Definition rotate_digits_left (ds : list Z) (k : nat) : list Z :=
  let n := length ds in
  skipn (n - k) ds ++ firstn (n - k) ds.

Definition unchecked_rotate_left (w : Z) (ds : list Z) (rhs : Z) : list Z :=
  let digit_shift := Z.to_nat (rhs / w) in
  let bit_shift := rhs mod w in
  let out := rotate_digits_left ds digit_shift in
  if bit_shift =? 0 then out
  else
    let r := shl_bits w bit_shift out 0 in
    let c := shl_bits_carry w bit_shift out 0 in
    match r with [] => [] | d :: t => u_or d c :: t end.

(* the amount reduction as coded: n & (BITS - 1), a bitwise and on u32 *)
Definition mask_amount (w : Z) (n : nat) (rhs : Z) : Z := Z.land rhs (bits w n - 1).

(* rotate_left / rotate_right as in the repaired source: amount mod BITS *)
Definition rotate_left (w : Z) (ds : list Z) (k : Z) : list Z :=
  unchecked_rotate_left w ds (k mod bits w (length ds)).
Definition rotate_right (w : Z) (ds : list Z) (k : Z) : list Z :=
  let nb := bits w (length ds) in
  unchecked_rotate_left w ds (nb - k mod nb).
(* the pinned (pre-fix) source: amount & (BITS - 1) *)
Definition rotate_left_prefix (w : Z) (ds : list Z) (k : Z) : list Z :=
  unchecked_rotate_left w ds (mask_amount w (length ds) k).
Definition rotate_right_prefix (w : Z) (ds : list Z) (k : Z) : list Z :=
  unchecked_rotate_left w ds (bits w (length ds) - mask_amount w (length ds) k).

Definition U_overflowing_shl (w : Z) (ds : list Z) (rhs : Z) : list Z * bool :=
  if bits w (length ds) <=? rhs then (shl_internal w ds (mask_amount w (length ds) rhs), true)
  else (shl_internal w ds rhs, false).
Definition U_overflowing_shr (w : Z) (ds : list Z) (rhs : Z) : list Z * bool :=
  if bits w (length ds) <=? rhs then (shr_pad_internal w false ds (mask_amount w (length ds) rhs), true)
  else (shr_pad_internal w false ds rhs, false).
Definition U_checked_shl (w : Z) (ds : list Z) (rhs : Z) : option (list Z) :=
  if bits w (length ds) <=? rhs then None else Some (shl_internal w ds rhs).
Definition U_checked_shr (w : Z) (ds : list Z) (rhs : Z) : option (list Z) :=
  if bits w (length ds) <=? rhs then None else Some (shr_pad_internal w false ds rhs).
Definition U_wrapping_shl w ds rhs := fst (U_overflowing_shl w ds rhs).
Definition U_wrapping_shr w ds rhs := fst (U_overflowing_shr w ds rhs).
Definition U_unbounded_shl (w : Z) (ds : list Z) (rhs : Z) : list Z :=
  if bits w (length ds) <=? rhs then ZERO (length ds) else shl_internal w ds rhs.
Definition U_unbounded_shr (w : Z) (ds : list Z) (rhs : Z) : list Z :=
  if bits w (length ds) <=? rhs then ZERO (length ds) else shr_pad_internal w false ds rhs.

Definition I_overflowing_shl := U_overflowing_shl.
Definition I_overflowing_shr (w : Z) (ds : list Z) (rhs : Z) : list Z * bool :=
  let '(overflow, shift) :=
    if bits w (length ds) <=? rhs then (true, mask_amount w (length ds) rhs) else (false, rhs) in
  (shr_pad_internal w (is_negative w ds) ds shift, overflow).
Definition I_checked_shl w ds rhs := tuple_to_option (I_overflowing_shl w ds rhs).
Definition I_checked_shr w ds rhs := tuple_to_option (I_overflowing_shr w ds rhs).
Definition I_wrapping_shl w ds rhs := fst (I_overflowing_shl w ds rhs).
Definition I_wrapping_shr w ds rhs := fst (I_overflowing_shr w ds rhs).

Definition I_unbounded_shl := U_unbounded_shl.
Definition I_unbounded_shr (w : Z) (ds : list Z) (rhs : Z) : list Z :=
  if bits w (length ds) <=? rhs then
    (if is_negative w ds then NEG_ONE w (length ds) else ZERO (length ds))
  else shr_pad_internal w (is_negative w ds) ds rhs.

(* inherent const fn shl / shr (src/int/ops.rs trait_fillers): strict in builds
   with debug assertions, wrapping otherwise *)
Definition U_strict_shl w ds rhs := option_expect (U_checked_shl w ds rhs).
Definition U_strict_shr w ds rhs := option_expect (U_checked_shr w ds rhs).
Definition I_strict_shl w ds rhs := option_expect (I_checked_shl w ds rhs).
Definition I_strict_shr w ds rhs := option_expect (I_checked_shr w ds rhs).
Definition U_shl (dbg : bool) w ds rhs : outcome (list Z) :=
  if dbg then U_strict_shl w ds rhs else Ret (U_wrapping_shl w ds rhs).
Definition U_shr (dbg : bool) w ds rhs : outcome (list Z) :=
  if dbg then U_strict_shr w ds rhs else Ret (U_wrapping_shr w ds rhs).
Definition I_shl (dbg : bool) w ds rhs : outcome (list Z) :=
  if dbg then I_strict_shl w ds rhs else Ret (I_wrapping_shl w ds rhs).
Definition I_shr (dbg : bool) w ds rhs : outcome (list Z) :=
  if dbg then I_strict_shr w ds rhs else Ret (I_wrapping_shr w ds rhs).

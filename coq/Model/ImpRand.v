(* Model/ImpRand.v — the vocabulary that the code generated from src/random.rs (tools/rs2v_rand.py ->
   Generated/RandGen.v) needs on top of Model/Imp.v.  Trusted, hand-written, definitions only.

   THE RNG.  Exactly as in the hand model (Model/Random.v): a Rust function with a parameter `rng: &mut R`
   takes the generator's future output `rng : Random.stream` (the byte script, consumed left to right) and
   returns the unconsumed remainder together with its value.  In the `res` monad of Imp.v that is
       res (drawn A)   with   drawn A = option (A * stream)
     Done (Some (a, rest))   returned a; `rest` is what the generator has left
     Done None               the scripted generator was asked for more bytes than it holds (Random.ROutOfStream)
     Panicked                a Rust panic (assert!, strict arithmetic)              (Random.RPanic)
     NoFuel                  the rejection loop was cut off by the explicit budget  (Random.ROutOfFuel)
   `of_rres` is this reading of the hand model's result type, constructor by constructor. *)
From Bnum Require Import Base Prim.
From Bnum.Model Require Import Imp Random.

Definition drawn (A : Type) : Type := option (A * stream).

(* a call of a stream-consuming function of the hand model (`rng.gen()` = Random.U_standard / I_standard) *)
Definition of_rres {A : Type} (r : rres A) : res (drawn A) :=
  match r with
  | RVal a rest => Done (Some (a, rest))
  | RPanic => Panicked
  | ROutOfStream => Done None
  | ROutOfFuel => NoFuel
  end.

(* `let x = <call that uses rng>; k`: the call's value and the remaining stream go on to k; a generator that
   ran dry ends the enclosing function at once (in Rust: `Rng::fill` panics "Rng::fill failed" / `?` returns
   the error), with the distinguished result None *)
Definition rbind {A C : Type} (x : res (drawn A)) (k : A -> stream -> res (drawn C)) : res (drawn C) :=
  match x with
  | Done (Some (a, s)) => k a s
  | Done None => Done None
  | Panicked => Panicked
  | NoFuel => NoFuel
  end.

(* the same inside a loop body: ending the function is `Return None` *)
Definition rbind_loop {A St C : Type} (x : res (drawn A)) (k : A -> stream -> res (flow St (drawn C)))
  : res (flow St (drawn C)) :=
  match x with
  | Done (Some (a, s)) => k a s
  | Done None => Done (Return None)
  | Panicked => Panicked
  | NoFuel => NoFuel
  end.

Notation "'draw' x s <- e ;; k" := (rbind e (fun x s => k))
  (at level 61, x name, s name, e at next level, right associativity).
Notation "'draw_in_loop' x s <- e ;; k" := (rbind_loop e (fun x s => k))
  (at level 61, x name, s name, e at next level, right associativity).

(* rand 0.8 `Rng::fill(&mut [Digit; N])` (= <[Digit] as Fill>::try_fill(..).unwrap_or_else(panic)): ONE
   `try_fill_bytes` request for the byte view of `dest` (dest.len() * size_of::<Digit>() bytes), then `to_le` on
   every element (identity on the little-endian target): every digit of `dest` is overwritten by the
   little-endian decoding of its bytes.  Same reading as Random.U_standard (Random.try_fill_bytes,
   Random.digits_of_bytes); a script that is too short is None. *)
Definition rng_fill_digits (w : Z) (dest : list Z) (rng : stream) : res (drawn (list Z)) :=
  match try_fill_bytes (BYTES w (length dest)) rng with
  | None => Done None
  | Some (bs, rest) => Done (Some (digits_of_bytes w (length dest) bs, rest))
  end.

(* ---- Fill for Slice<$BUint<N>> / Slice<$BInt<N>> ---- *)

(* core::mem::size_of::<$BUint<N>>() = size_of::<$BInt<N>>(): N digits of w/8 bytes, no padding (Random.BYTES) *)
Definition size_of_bnum (w N : Z) : Z := Z.of_nat (BYTES w (Z.to_nat N)).

(* `rng.try_fill_bytes(unsafe { from_raw_parts_mut(slice.as_mut_ptr() as *mut u8, k) })?` where slice : [$BUint<N>] (or [$BInt<N>]):
   the first k bytes of the slice's memory - element after element, digit after digit, every digit in the byte order of the
   (little-endian) target - are overwritten by the generator's next k bytes, in ONE request.  MODELLED ONLY for k = the size of
   the whole slice (then element j is the little-endian reading of bytes [j * size, (j+1) * size): Random.digits_of_bytes, as in
   Random.try_fill_slice); any other k is outside the model: `Panicked`, and the tie theorem shows that it does not occur.
   A generator that runs dry makes `?` return the error: None. *)
Definition rng_fill_raw (w N : Z) (slice : list (list Z)) (k : Z) (rng : stream) : res (drawn (list (list Z))) :=
  let sz := BYTES w (Z.to_nat N) in
  if k =? Z.of_nat (length slice * sz) then
    match try_fill_bytes (length slice * sz) rng with
    | None => Done None
    | Some (bs, rest) => Done (Some (map (digits_of_bytes w (Z.to_nat N)) (chunks sz (length slice) bs), rest))
    end
  else Panicked.

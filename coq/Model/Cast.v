(* Model/Cast.v — integer casts (`As` / `CastFrom`), function by function:
     src/buint/cast.rs   buint_as_int!, as_buint!, cast_up, cast_down, CastFrom<bool|char|BUint<M>|BInt<M>> for BUint<N>,
                         buint_as_different_digit_bigint!
     src/bint/cast.rs    bint_as!, as_bint!, CastFrom<BUint<M>|BInt<M>> for BInt<N>, bint_as_different_digit_bigint!
     src/buint/mod.rs    cast_signed        src/bint/mod.rs  cast_unsigned, to_bits, from_bits
   Float casts are property C14, not here.

   Conventions specific to this file
   * `w`, `n`  : digit width / digit count of the SOURCE bnum type, `w'`, `n'` of the TARGET.
   * a primitive integer type is (pb, ps) = (BITS, signed?).  A primitive VALUE that the code only
     tests / shifts arithmetically (`as_buint!`: `from < 0`, `from != 0`, `from as Digit`,
     `from.wrapping_shr`) is the mathematical integer.  A primitive ACCUMULATOR built with `|`, `&`,
     `!`, `<<` (`buint_as_int!`, `bint_as!`) is carried as its pb-bit two's-complement PATTERN in
     [0, 2^pb): these four operators act on the pattern identically for iN and uN; the pattern is
     read back as a signed / unsigned value once, at the end (`p_of_bits`).
   * `i << BIT_SHIFT` (BIT_SHIFT = log2 of the digit width) is written `i * w`: identical for the
     instantiated digit widths 8, 16, 32, 64 (same convention as Model/Shift.v).
   * array indexing is checked (`rd`, `wr` : Panic when out of bounds) and so are shift amounts
     (`shl_chk`, `shr_chk` : in a build with overflow checks a shift by >= BITS panics, otherwise the
     amount is masked); the theorems show none of them can fire.
   * `while` loops are `while_` with fuel = the static bound appearing in the loop condition
     (`i < N`, `i < stop_index`), so running out of fuel coincides with the condition being false. *)
From Bnum Require Import Base Prim.
From Bnum.Model Require Import Core.

(* ---------- Rust primitives used by the cast code (modelled, exercised by the harness) ---------- *)

(* ds[i] *)
Definition rd (ds : list Z) (i : nat) : outcome Z :=
  match nth_error ds i with Some d => Ret d | None => Panic end.
(* ds[i] = d *)
Definition wr (ds : list Z) (i : nat) (d : Z) : outcome (list Z) :=
  if (i <? length ds)%nat then Ret (firstn i ds ++ d :: skipn (S i) ds) else Panic.

(* a - b on usize, reached only with b <= a (Panic = overflow check; unreachable, see cast_up) *)
Definition usize_sub (a b : nat) : outcome nat :=
  if (b <=? a)%nat then Ret (a - b)%nat else Panic.

(* x << s, x >> s on a `bits`-bit unsigned word / pattern *)
Definition shl_chk (dbg : bool) (bits x s : Z) : outcome Z :=
  if s <? bits then Ret (u_shl bits x s)
  else if dbg then Panic else Ret (u_shl bits x (s mod bits)).
Definition shr_chk (dbg : bool) (bits x s : Z) : outcome Z :=
  if s <? bits then Ret (u_shr x s)
  else if dbg then Panic else Ret (u_shr x (s mod bits)).

(* iN/uN::wrapping_shr(rhs) = self >> (rhs & (BITS-1)), arithmetic for iN: floor division on the value *)
Definition p_wrapping_shr (pb x s : Z) : Z := x / 2 ^ (s mod pb).

(* the pb-bit pattern read as a value of the primitive type (pb, ps) *)
Definition p_of_bits (pb : Z) (ps : bool) (x : Z) : Z := if ps then sd pb x else x.

(* while cond(i, s) { s = body(i, s)?; i += 1 } *)
Fixpoint while_ {St : Type} (fuel : nat) (cond : nat -> St -> bool) (body : nat -> St -> outcome St)
         (i : nat) (s : St) : outcome St :=
  match fuel with
  | O => Ret s
  | S f => if cond i s then obind (body i s) (fun s' => while_ f cond body (S i) s') else Ret s
  end.

(* ---------- reinterpretations ---------- *)

Definition from_bits (ds : list Z) : list Z := ds.       (* BInt::from_bits: Self { bits } *)
Definition to_bits (ds : list Z) : list Z := ds.         (* BInt::to_bits: self.bits *)
Definition cast_signed (ds : list Z) : list Z := from_bits ds.     (* BUint::cast_signed *)
Definition cast_unsigned (ds : list Z) : list Z := to_bits ds.     (* BInt::cast_unsigned *)

(* ---------- bnum -> primitive integer ---------- *)

(* buint_as_int!: while i << BIT_SHIFT < $int::BITS && i < N { out |= digits[i] as $int << (i << BIT_SHIFT) } *)
Definition as_int_cond (pb w : Z) (n : nat) (i : nat) (_ : Z) : bool :=
  (Z.of_nat i * w <? pb) && (i <? n)%nat.

Definition U_as_int_bits (dbg : bool) (pb w : Z) (ds : list Z) : outcome Z :=
  let n := length ds in
  while_ n (as_int_cond pb w n)
    (fun i out =>
       obind (rd ds i) (fun d =>
       obind (shl_chk dbg pb (ud pb d) (Z.of_nat i * w)) (fun t =>
       Ret (u_or out t))))
    0%nat 0.

Definition U_as_int (dbg : bool) (pb : Z) (ps : bool) (w : Z) (ds : list Z) : outcome Z :=
  omap (p_of_bits pb ps) (U_as_int_bits dbg pb w ds).

(* bint_as!: negative source: out = !0; out &= !((!digits[i]) as $int << (i << BIT_SHIFT)) *)
Definition I_as_int_bits (dbg : bool) (pb w : Z) (ds : list Z) : outcome Z :=
  let n := length ds in
  if is_negative w ds then
    while_ n (as_int_cond pb w n)
      (fun i out =>
         obind (rd ds i) (fun d =>
         obind (shl_chk dbg pb (ud pb (u_not w d)) (Z.of_nat i * w)) (fun t =>
         Ret (u_and out (u_not pb t)))))
      0%nat (u_not pb 0)
  else U_as_int_bits dbg pb w (to_bits ds).

Definition I_as_int (dbg : bool) (pb : Z) (ps : bool) (w : Z) (ds : list Z) : outcome Z :=
  omap (p_of_bits pb ps) (I_as_int_bits dbg pb w ds).

(* ---------- primitive integer, bool, char -> bnum ---------- *)

(* as_buint!:  out = if from < 0 { MAX } else { MIN };
               while from != 0 && i < N { out.digits[i] = from as Digit & Digit::MAX;
                                          from = if $ty::BITS <= Digit::BITS { 0 } else { from.wrapping_shr(Digit::BITS) } } *)
Definition as_buint_body (pb w : Z) (i : nat) (st : list Z * Z) : outcome (list Z * Z) :=
  let '(out, from) := st in
  let masked := u_and (ud w from) (u_max w) in
  obind (wr out i masked) (fun out' =>
  Ret (out', if pb <=? w then 0 else p_wrapping_shr pb from w)).

Definition U_from_int (pb w : Z) (n : nat) (from : Z) : outcome (list Z) :=
  let out := if from <? 0 then UMAX w n else ZERO n in
  omap fst (while_ n (fun i st => negb (snd st =? 0) && (i <? n)%nat) (as_buint_body pb w) 0%nat (out, from)).

(* as_bint!: Self::from_bits(BUint::cast_from(from)), also for bool and char *)
Definition I_from_int (pb w : Z) (n : nat) (from : Z) : outcome (list Z) :=
  omap from_bits (U_from_int pb w n from).

Definition U_from_bool (n : nat) (b : bool) : list Z := if b then ONE n else ZERO n.
Definition I_from_bool (n : nat) (b : bool) : list Z := from_bits (U_from_bool n b).
(* `from as u32` on a char is its code point *)
Definition U_from_char (w : Z) (n : nat) (c : Z) : outcome (list Z) := U_from_int 32 w n c.
Definition I_from_char (w : Z) (n : nat) (c : Z) : outcome (list Z) := omap from_bits (U_from_char w n c).

(* ---------- bnum -> bnum, same digit type ---------- *)

(* BUint<N>::cast_up::<M>(self, digit): digits = [digit; M]; i = M - N;
   while i < M { index = i - (M - N); digits[index] = self.digits[index]; i += 1 } *)
Definition cast_up (src : list Z) (m : nat) (digit : Z) : outcome (list Z) :=
  let n := length src in
  obind (usize_sub m n) (fun off =>
  while_ m (fun i _ => (i <? m)%nat)
    (fun i digits =>
       obind (usize_sub i off) (fun index =>
       obind (rd src index) (fun d =>
       wr digits index d)))
    off (repeat digit m)).

(* cast_down::<M>: out = ZERO; while i < M { out.digits[i] = self.digits[i] } *)
Definition cast_down (src : list Z) (m : nat) : outcome (list Z) :=
  while_ m (fun i _ => (i <? m)%nat)
    (fun i out => obind (rd src i) (fun d => wr out i d))
    0%nat (ZERO m).

(* CastFrom<BUint<M>> for BUint<N> *)
Definition U_cast_U (src : list Z) (n' : nat) : outcome (list Z) :=
  if (length src <? n')%nat then cast_up src n' 0 else cast_down src n'.
(* CastFrom<BInt<M>> for BUint<N> *)
Definition U_cast_I (w : Z) (src : list Z) (n' : nat) : outcome (list Z) :=
  if (length src <? n')%nat then
    let padding_digit := if is_negative w src then u_max w else 0 in
    cast_up (to_bits src) n' padding_digit
  else cast_down (to_bits src) n'.
(* CastFrom<BUint<M>> / CastFrom<BInt<M>> for BInt<N> *)
Definition I_cast_U (src : list Z) (n' : nat) : outcome (list Z) := omap from_bits (U_cast_U src n').
Definition I_cast_I (w : Z) (src : list Z) (n' : nat) : outcome (list Z) := omap from_bits (U_cast_I w src n').

(* ---------- bnum -> bnum, different digit types ---------- *)

(* the branch `$Digit::BITS < $OtherDigit::BITS` (target digits narrower): split each source digit.
   DIVIDE_COUNT = OtherDigit::BITS / Digit::BITS = w / w' *)
Definition split_stop (w : Z) (n : nat) (w' : Z) (n' : nat) (dc : nat) : nat :=
  if bits w' n' <? bits w n then n' else (n * dc)%nat.

Definition split_body (dbg : bool) (w w' : Z) (dc : nat) (src : list Z) (i : nat) (out : list Z)
  : outcome (list Z) :=
  obind (rd src (i / dc)) (fun wider_digit =>
  let mini_shift := (i mod dc)%nat in
  obind (shr_chk dbg w wider_digit (Z.of_nat mini_shift * w')) (fun t =>
  wr out i (ud w' t))).

Definition split_loop (dbg : bool) (w : Z) (src : list Z) (w' : Z) (n' : nat) (out0 : list Z)
  : outcome (list Z) :=
  let dc := Z.to_nat (w / w') in
  let stop_index := split_stop w (length src) w' n' dc in
  while_ stop_index (fun i _ => (i <? stop_index)%nat) (split_body dbg w w' dc src) 0%nat out0.

(* the else branch (target digits wider): pack DIVIDE_COUNT = w' / w source digits into one.
   `comb cur d mini_shift` is the accumulation statement, `init` the reset value of current_digit. *)
Definition pack_stop (w : Z) (n : nat) (w' : Z) (n' : nat) (dc : nat) : nat :=
  if bits w' n' <? bits w n then (n' * dc)%nat else n.

Definition pack_body (dc stop_index : nat) (src : list Z) (init : Z) (comb : Z -> Z -> nat -> outcome Z)
           (i : nat) (st : list Z * Z) : outcome (list Z * Z) :=
  let '(out, current_digit) := st in
  let mini_shift := (i mod dc)%nat in
  obind (rd src i) (fun d =>
  obind (comb current_digit d mini_shift) (fun cur =>
  if (mini_shift =? dc - 1)%nat || (i =? stop_index - 1)%nat then
    obind (wr out (i / dc) cur) (fun out' => Ret (out', init))
  else Ret (out, cur))).

Definition pack_loop (w : Z) (src : list Z) (w' : Z) (n' : nat) (out0 : list Z) (init : Z)
           (comb : Z -> Z -> nat -> outcome Z) : outcome (list Z) :=
  let dc := Z.to_nat (w' / w) in
  let stop_index := pack_stop w (length src) w' n' dc in
  omap fst (while_ stop_index (fun i _ => (i <? stop_index)%nat)
                   (pack_body dc stop_index src init comb) 0%nat (out0, init)).

(* current_digit |= (from.digits[i] as Digit) << (mini_shift << OtherDigit::BIT_SHIFT) *)
Definition pack_or (dbg : bool) (w w' : Z) (cur d : Z) (mini_shift : nat) : outcome Z :=
  obind (shl_chk dbg w' (ud w' d) (Z.of_nat mini_shift * w)) (fun t => Ret (u_or cur t)).
(* current_digit &= !((!from.bits.digits[i] as Digit) << (mini_shift << OtherDigit::BIT_SHIFT)) *)
Definition pack_and (dbg : bool) (w w' : Z) (cur d : Z) (mini_shift : nat) : outcome Z :=
  obind (shl_chk dbg w' (ud w' (u_not w d)) (Z.of_nat mini_shift * w)) (fun t => Ret (u_and cur (u_not w' t))).

(* buint_as_different_digit_bigint!: CastFrom<OtherBUint<M>> for BUint<N> *)
Definition U_castd_U (dbg : bool) (w : Z) (src : list Z) (w' : Z) (n' : nat) : outcome (list Z) :=
  let out := ZERO n' in
  if w' <? w then split_loop dbg w src w' n' out
  else pack_loop w src w' n' out 0 (pack_or dbg w w').

(* bint_as_different_digit_bigint!: CastFrom<OtherBInt<M>> for BUint<N> *)
Definition U_castd_I (dbg : bool) (w : Z) (src : list Z) (w' : Z) (n' : nat) : outcome (list Z) :=
  if negb (is_negative w src) || (bits w' n' <=? bits w (length src)) then
    U_castd_U dbg w (to_bits src) w' n'
  else
    let out := UMAX w' n' in
    if w' <? w then split_loop dbg w src w' n' out
    else pack_loop w src w' n' out (u_max w') (pack_and dbg w w').

Definition I_castd_U (dbg : bool) (w : Z) (src : list Z) (w' : Z) (n' : nat) : outcome (list Z) :=
  omap from_bits (U_castd_U dbg w src w' n').
Definition I_castd_I (dbg : bool) (w : Z) (src : list Z) (w' : Z) (n' : nat) : outcome (list Z) :=
  omap from_bits (U_castd_I dbg w src w' n').

(* ---------- trait resolution: which impl `As::as_::<Target>` / `Target::cast_from` selects ---------- *)

(* same digit type (w = w'): src/buint/cast.rs:180-207, src/bint/cast.rs:97-109;
   different digit types: the impls instantiated in src/lib.rs:93-101 *)
Definition cast (dbg : bool) (w : Z) (w' : Z) (n' : nat) (src_signed dst_signed : bool) (src : list Z)
  : outcome (list Z) :=
  if w =? w' then
    match src_signed, dst_signed with
    | false, false => U_cast_U src n'
    | true, false => U_cast_I w src n'
    | false, true => I_cast_U src n'
    | true, true => I_cast_I w src n'
    end
  else
    match src_signed, dst_signed with
    | false, false => U_castd_U dbg w src w' n'
    | true, false => U_castd_I dbg w src w' n'
    | false, true => I_castd_U dbg w src w' n'
    | true, true => I_castd_I dbg w src w' n'
    end.

Definition to_prim (dbg : bool) (pb : Z) (ps : bool) (w : Z) (src_signed : bool) (src : list Z) : outcome Z :=
  if src_signed then I_as_int dbg pb ps w src else U_as_int dbg pb ps w src.

Definition from_prim (pb : Z) (w : Z) (n : nat) (dst_signed : bool) (v : Z) : outcome (list Z) :=
  if dst_signed then I_from_int pb w n v else U_from_int pb w n v.

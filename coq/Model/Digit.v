(* Model/Digit.v — src/digit.rs, function by function. *)
From Bnum Require Import Base Prim.

Definition to_double_digit (w low high : Z) : Z := Z.lor (high * B w) low.

Definition carrying_add (w a b : Z) (carry : bool) : Z * bool :=
  let '(s1, o1) := u_ovf_add w a b in
  if carry then let '(s2, o2) := u_ovf_add w s1 1 in (s2, o1 || o2) else (s1, o1).

Definition borrowing_sub (w a b : Z) (borrow : bool) : Z * bool :=
  let '(s1, o1) := u_ovf_sub w a b in
  if borrow then let '(s2, o2) := u_ovf_sub w s1 1 in (s2, o1 || o2) else (s1, o1).

(* arguments and result are signed words *)
Definition carrying_add_signed (w a b : Z) (carry : bool) : Z * bool :=
  let '(s1, o1) := s_ovf_add w a b in
  if carry then let '(s2, o2) := s_ovf_add w s1 1 in (s2, xorb o1 o2) else (s1, o1).

Definition borrowing_sub_signed (w a b : Z) (borrow : bool) : Z * bool :=
  let '(s1, o1) := s_ovf_sub w a b in
  if borrow then let '(s2, o2) := s_ovf_sub w s1 1 in (s2, xorb o1 o2) else (s1, o1).

Definition widening_mul (w a b : Z) : Z * Z :=
  let prod := a * b in (prod mod B w, prod / B w).

Definition carrying_mul (w a b carry current : Z) : Z * Z :=
  let prod := carry + current + a * b in (prod mod B w, (prod / B w) mod B w).

(* caller guarantees high < rhs (debug_assert in the source) *)
Definition div_rem_wide (w low high rhs : Z) : Z * Z :=
  let a := to_double_digit w low high in ((a / rhs) mod B w, (a mod rhs) mod B w).

(* Model/NumTraits.v — the num_traits / num_integer implementations (feature `numtraits`):
   src/buint/numtraits.rs  (Integer, PrimInt shifts, check_zero_or_one!, fixpoint, Roots, to_u128 of ToPrimitive),
   src/bint/numtraits.rs   (Integer, PrimInt shifts, Roots, Signed),
   src/int/numtraits.rs    (the forwarding impls: Bounded, Checked*, Saturating*, Wrapping*, Overflowing*,
                            Euclid, CheckedEuclid, Pow, Saturating, MulAdd, One, Zero, prim_int_methods!),
   src/buint/convert.rs    (From<u32> / From<u128>, used by the root closures).
   Names: TU_x models `<BUint<N> as Trait>::x`, TI_x models `<BInt<N> as Trait>::x`.  Everything the traits
   forward to is the existing inherent model (Core, Shift, AddSub, Mul, Div, Bits, Pow).
   No proofs here. *)
From Bnum Require Import Base Prim.
From Bnum.Model Require Import Digit Core Shift AddSub Mul Div Bits Pow.

(* ---------- results of code with a `loop`/`while` whose bound is proved separately ----------
   None = the model ran out of fuel (excluded by the theorems), Some Panic = the Rust code panics. *)
Definition fo (A : Type) : Type := option (outcome A).
Definition fret {A} (a : A) : fo A := Some (Ret a).
Definition flift {A} (o : outcome A) : fo A := Some o.
Definition fbind {A C} (x : fo A) (f : A -> fo C) : fo C :=
  match x with
  | None => None
  | Some Panic => Some Panic
  | Some (Ret a) => f a
  end.

(* `while cond { body }` as an iteration that stops by itself: `step s` is either the next state
   (inl) or the value the loop ends with (inr).  `run_pow2 step d s` performs at most 2^d steps,
   exactly the steps the Rust loop performs, and returns inl when the budget is exhausted. *)
Fixpoint run_pow2 {S R : Type} (step : S -> S + R) (d : nat) (s : S) : S + R :=
  match d with
  | O => step s
  | Datatypes.S d' =>
      match run_pow2 step d' s with
      | inl s' => run_pow2 step d' s'
      | inr r => inr r
      end
  end.

(* ---------- conversions used by the root code ---------- *)

(* to_int! { to_u128 -> u128 } (ToPrimitive for BUint).  `$Digit::BITS > 128` is a compile-time
   constant (false for u8..u64); both arms are transcribed.  `i << BIT_SHIFT` is written i * w;
   `x as u128 << shift` drops bits above 128. *)
Fixpoint to_uint_loop (w ubits : Z) (ds : list Z) (i : Z) (out : Z) : Z * list Z :=
  match ds with
  | [] => (out, [])
  | d :: r =>
      if ubits <=? i * w then (out, ds)
      else to_uint_loop w ubits r (i + 1) (Z.lor out ((d * 2 ^ (i * w)) mod 2 ^ ubits))
  end.
Definition U_to_u128 (w : Z) (ds : list Z) : outcome (option Z) :=
  if 128 <? w then
    match ds with
    | [] => Panic                         (* self.digits[0] with N = 0 *)
    | d :: r =>
        let small := d mod 2 ^ 128 in
        if negb (d =? small) then Ret None
        else Ret (if is_zero r then Some small else None)
    end
  else
    let '(out, rest) := to_uint_loop w 128 ds 0 0 in
    Ret (if is_zero rest then Some out else None).

(* from_uint!: From<u32>, From<u128> for BUint<N>: `out.digits[i] = d` is only executed for d != 0
   and indexes past the array panic *)
Fixpoint from_uint_loop (w : Z) (cnt n : nat) (v : Z) : outcome (list Z) :=
  match cnt with
  | O => Ret (ZERO n)
  | Datatypes.S c =>
      let d := v mod B w in
      match n with
      | O => if d =? 0 then from_uint_loop w c O (v / B w) else Panic
      | Datatypes.S n' => omap (cons d) (from_uint_loop w c n' (v / B w))
      end
  end.
(* iterations: all i with i * w < ubits *)
Definition U_from_uint (w : Z) (n : nat) (ubits v : Z) : outcome (list Z) :=
  from_uint_loop w (Z.to_nat ((ubits + w - 1) / w)) n v.
Definition U_from_u32 w n v := U_from_uint w n 32 v.
Definition U_from_u128 w n v := U_from_uint w n 128 v.

(* ---------- num-integer's Roots for the primitive u128, MODELLED BY ITS SPECIFICATION ----------
   (trusted: `u128::sqrt/cbrt/nth_root` of num-integer return the floor of the real root; the
   harness exercises exactly these calls).  zroot k v = floor (v^(1/k)) by bisection;
   Proofs/NumTraits.v proves zroot_spec : zroot k v ^ k <= v < (zroot k v + 1) ^ k. *)
Fixpoint root_bisect (fuel : nat) (k lo hi v : Z) : Z :=
  match fuel with
  | O => lo
  | Datatypes.S f =>
      if hi - lo <=? 1 then lo
      else let mid := (lo + hi) / 2 in
           if mid ^ k <=? v then root_bisect f k mid hi v else root_bisect f k lo mid v
  end.
Definition zroot (k v : Z) : Z :=
  if v <=? 0 then 0
  else if Z.log2 v <? k then 1
  else let e := Z.log2 v / k + 1 in root_bisect (Z.to_nat (e + 1)) k 1 (2 ^ e) v.

(* ================= Integer for BUint ================= *)

(* `*self / *other`, `*self % *other`: the Div / Rem operators are the inherent div / rem *)
Definition TU_div_floor (w : Z) (a b : list Z) : outcome (list Z) := U_div w a b.
Definition TU_mod_floor (w : Z) (a b : list Z) : outcome (list Z) := U_rem w a b.

(* the `loop` of gcd: a and b odd on entry; every iteration removes at least one bit of a * b *)
Fixpoint gcd_loop (fuel : nat) (dbg : bool) (w : Z) (a b : list Z) (b_tz : Z) : fo (list Z) :=
  match fuel with
  | O => None
  | Datatypes.S f =>
      let '(a, b) := if cmp_lt (ucmp a b) then (b, a) else (a, b) in
      match U_sub dbg w a b with                       (* a -= b *)
      | Panic => Some Panic
      | Ret a1 =>
          if is_zero a1 then fret (shl_internal w b b_tz)
          else gcd_loop f dbg w (shr_pad_internal w false a1 (trailing_zeros w a1)) b b_tz
      end
  end.
Definition gcd_fuel (w : Z) (n : nat) : nat := Z.to_nat (2 * bits w n + 2).

Definition TU_gcd (dbg : bool) (w : Z) (a b : list Z) : fo (list Z) :=
  if is_zero a then fret b
  else if is_zero b then fret a
  else
    let a_tz := trailing_zeros w a in
    let b_tz := trailing_zeros w b in
    let a1 := shr_pad_internal w false a a_tz in
    let b1 := shr_pad_internal w false b b_tz in
    let '(a_tz, b_tz) := if a_tz <? b_tz then (b_tz, a_tz) else (a_tz, b_tz) in
    gcd_loop (gcd_fuel w (length a)) dbg w a1 b1 b_tz.

(* self.div_floor(&self.gcd(other)) * *other : div_floor resolves to the trait method *)
Definition TU_lcm (dbg : bool) (w : Z) (a b : list Z) : fo (list Z) :=
  if is_zero a || is_zero b then fret (ZERO (length a))
  else fbind (TU_gcd dbg w a b) (fun g =>
       flift (obind (TU_div_floor w a g) (fun q => U_mul dbg w q b))).

Definition TU_is_multiple_of (w : Z) (a b : list Z) : outcome bool :=
  omap is_zero (TU_mod_floor w a b).
Definition TU_divides := TU_is_multiple_of.
Definition TU_is_even (a : list Z) : bool := u_and (hd 0 a) 1 =? 0.
Definition TU_is_odd (a : list Z) : bool := u_and (hd 0 a) 1 =? 1.
Definition TU_div_rem (w : Z) (a b : list Z) : outcome (list Z * list Z) := U_div_rem w a b.

(* ================= PrimInt shifts ================= *)
Definition TU_signed_shl (dbg : bool) w a z := U_shl dbg w a z.
Definition TU_signed_shr (dbg : bool) w a z := I_shr dbg w a z.      (* (BInt::from_bits(self) >> n).to_bits() *)
Definition TU_unsigned_shl (dbg : bool) w a z := U_shl dbg w a z.
Definition TU_unsigned_shr (dbg : bool) w a z := U_shr dbg w a z.
Definition TI_signed_shl (dbg : bool) w a z := I_shl dbg w a z.
Definition TI_signed_shr (dbg : bool) w a z := I_shr dbg w a z.
Definition TI_unsigned_shl (dbg : bool) w a z := I_shl dbg w a z.
Definition TI_unsigned_shr (dbg : bool) w a z := U_shr dbg w a z.    (* Self::from_bits(self.to_bits() >> n) *)

(* ================= Roots for BUint ================= *)

(* check_zero_or_one!: true = `return *self` *)
Definition check_zero_or_one (a : list Z) : bool :=
  match a with
  | [] => true
  | d :: _ => if Nat.eqb (last_digit_index a) 0 then (d =? 0) || (d =? 1) else false
  end.

(* fixpoint(self, max_bits, f): the two while loops.  State of both loops: (self, xn). *)
Definition fixpoint_up_step (w : Z) (n : nat) (max_bits : Z) (f : list Z -> outcome (list Z))
           (st : list Z * list Z) : (list Z * list Z) + outcome (list Z * list Z) :=
  let '(x, xn) := st in
  if cmp_lt (ucmp x xn) then
    match (if max_bits <? bits_of w xn then power_of_two w n max_bits else Ret xn) with
    | Panic => inr Panic
    | Ret x' => match f x' with Panic => inr Panic | Ret xn' => inl (x', xn') end
    end
  else inr (Ret (x, xn)).
Definition fixpoint_down_step (f : list Z -> outcome (list Z))
           (st : list Z * list Z) : (list Z * list Z) + outcome (list Z) :=
  let '(x, xn) := st in
  if cmp_gt (ucmp x xn) then
    match f xn with Panic => inr Panic | Ret xn' => inl (xn, xn') end
  else inr (Ret x).

Definition fixpoint (depth : nat) (w : Z) (x : list Z) (max_bits : Z)
           (f : list Z -> outcome (list Z)) : fo (list Z) :=
  match f x with
  | Panic => Some Panic
  | Ret xn =>
      match run_pow2 (fixpoint_up_step w (length x) max_bits f) depth (x, xn) with
      | inl _ => None
      | inr Panic => Some Panic
      | inr (Ret st) =>
          match run_pow2 (fixpoint_down_step f) depth st with
          | inl _ => None
          | inr r => Some r
          end
      end
  end.
(* enough for 2^(BITS+1) iterations of each loop *)
Definition fixpoint_depth (w : Z) (n : nat) : nat := Z.to_nat (bits w n + 1).

(* the Newton closures *)
Definition sqrt_step (dbg : bool) (w : Z) (a s : list Z) : outcome (list Z) :=
  obind (U_div w a s) (fun q =>
  obind (U_add dbg w s q) (fun t =>
  U_shr dbg w t 1)).
Definition cbrt_step (dbg : bool) (w : Z) (a s : list Z) : outcome (list Z) :=
  obind (U_mul dbg w s s) (fun ss =>
  obind (U_div w a ss) (fun q =>
  obind (U_shl dbg w s 1) (fun s2 =>
  obind (U_add dbg w s2 q) (fun t =>
  Ret (fst (div_rem_digit w t 3)))))).
Definition nth_root_step (dbg : bool) (w : Z) (k : Z) (a s : list Z) : outcome (list Z) :=
  let n := length a in
  obind (match U_checked_pow w s (k - 1) with
         | Some p => U_div w a p
         | None => Ret (ZERO n)
         end) (fun q =>
  obind (U_from_u32 w n (k - 1)) (fun mul =>
  obind (U_mul dbg w s mul) (fun sm =>
  obind (U_add dbg w sm q) (fun t =>
  obind (U_from_u32 w n k) (fun kk =>
  Ret (fst (U_div_rem_unchecked w t kk))))))).

(* common tail: bits / k + 1, power_of_two, fixpoint *)
Definition root_newton (w : Z) (a : list Z) (k : Z) (f : list Z -> outcome (list Z)) : fo (list Z) :=
  let n := length a in
  let max_bits := bits_of w a / k + 1 in
  match power_of_two w n max_bits with
  | Panic => Some Panic
  | Ret guess => fixpoint (fixpoint_depth w n) w guess max_bits f
  end.

(* `if let Some(n) = self.to_u128() { return n.sqrt().into() }`: the primitive's root is zroot *)
Definition root_shortcut (w : Z) (a : list Z) (k : Z) (slow : fo (list Z)) : fo (list Z) :=
  match U_to_u128 w a with
  | Panic => Some Panic
  | Ret (Some v) => flift (U_from_u128 w (length a) (zroot k v))
  | Ret None => slow
  end.

Definition TU_sqrt (dbg : bool) (w : Z) (a : list Z) : fo (list Z) :=
  if check_zero_or_one a then fret a
  else root_shortcut w a 2 (root_newton w a 2 (sqrt_step dbg w a)).
Definition TU_cbrt (dbg : bool) (w : Z) (a : list Z) : fo (list Z) :=
  if check_zero_or_one a then fret a
  else root_shortcut w a 3 (root_newton w a 3 (cbrt_step dbg w a)).
Definition TU_nth_root (dbg : bool) (w : Z) (a : list Z) (k : Z) : fo (list Z) :=
  if k =? 0 then Some Panic
  else if k =? 1 then fret a
  else if k =? 2 then TU_sqrt dbg w a
  else if k =? 3 then TU_cbrt dbg w a
  else
    if check_zero_or_one a then fret a
    else root_shortcut w a k
           (if bits_of w a <=? k then fret (ONE (length a))
            else root_newton w a k (nth_root_step dbg w k a)).

(* ================= Integer / Roots / Signed for BInt ================= *)

Definition sign_mismatch (w : Z) (r b : list Z) : bool :=
  (is_positive w r && is_negative w b) || (is_negative w r && is_positive w b).

Definition TI_div_floor (dbg : bool) (w : Z) (a b : list Z) : outcome (list Z) :=
  obind (I_div dbg w a b) (fun d =>
  obind (I_rem dbg w a b) (fun r =>
  if sign_mismatch w r b then I_sub dbg w d (ONE (length a)) else Ret d)).
Definition TI_mod_floor (dbg : bool) (w : Z) (a b : list Z) : outcome (list Z) :=
  obind (I_rem dbg w a b) (fun r =>
  if sign_mismatch w r b then I_add dbg w r b else Ret r).

Definition TI_gcd (dbg : bool) (w : Z) (a b : list Z) : fo (list Z) :=
  fbind (TU_gcd dbg w (I_unsigned_abs w a) (I_unsigned_abs w b)) (fun g => flift (I_abs dbg w g)).

Definition TI_lcm (dbg : bool) (w : Z) (a b : list Z) : fo (list Z) :=
  if is_zero a || is_zero b then fret (ZERO (length a))
  else fbind (TI_gcd dbg w a b) (fun g =>
       flift (obind (TI_div_floor dbg w a g) (fun q =>
              obind (I_mul dbg w q b) (fun p => I_abs dbg w p)))).

Definition TI_is_multiple_of (dbg : bool) (w : Z) (a b : list Z) : outcome bool :=
  omap is_zero (TI_mod_floor dbg w a b).
Definition TI_divides := TI_is_multiple_of.
Definition TI_is_even (a : list Z) : bool := TU_is_even a.
Definition TI_is_odd (a : list Z) : bool := TU_is_odd a.
Definition TI_div_rem (dbg : bool) (w : Z) (a b : list Z) : outcome (list Z * list Z) :=
  obind (I_div dbg w a b) (fun d => omap (fun r => (d, r)) (I_rem dbg w a b)).

Definition TI_sqrt (dbg : bool) (w : Z) (a : list Z) : fo (list Z) :=
  if is_negative w a then Some Panic else TU_sqrt dbg w a.
Definition TI_cbrt (dbg : bool) (w : Z) (a : list Z) : fo (list Z) :=
  if is_negative w a then fbind (TU_cbrt dbg w (I_unsigned_abs w a)) (fun out => flift (I_neg dbg w out))
  else TU_cbrt dbg w a.
Definition TI_nth_root (dbg : bool) (w : Z) (a : list Z) (k : Z) : fo (list Z) :=
  if is_negative w a then
    if k =? 0 then Some Panic
    else if k =? 1 then fret a
    else if Z.even k then Some Panic
    else fbind (TU_nth_root dbg w (I_unsigned_abs w a) k) (fun out => fret (I_wrapping_neg w out))
  else TU_nth_root dbg w a k.

(* Signed *)
Definition TI_abs (dbg : bool) w a := I_abs dbg w a.
Definition TI_abs_sub (dbg : bool) (w : Z) (a b : list Z) : outcome (list Z) :=
  if cmp_le (icmp w a b) then Ret (ZERO (length a)) else I_sub dbg w a b.
Definition TI_signum w a := signum w a.
Definition TI_is_positive w a := is_positive w a.
Definition TI_is_negative w a := is_negative w a.

(* ================= forwarding impls (src/int/numtraits.rs) ================= *)
(* Bounded, Zero, One *)
Definition TU_min_value (n : nat) := ZERO n.
Definition TU_max_value (w : Z) (n : nat) := UMAX w n.
Definition TI_min_value (w : Z) (n : nat) := IMIN w n.
Definition TI_max_value (w : Z) (n : nat) := IMAX w n.
Definition T_zero (n : nat) := ZERO n.
Definition T_one (n : nat) := ONE n.
Definition T_is_zero := is_zero.
Definition T_is_one := is_one.

(* num_trait_impl!: Checked*, Saturating*, Wrapping*, Overflowing* *)
Definition TU_checked_add := U_checked_add.
Definition TU_checked_sub := U_checked_sub.
Definition TU_checked_mul := U_checked_mul.
Definition TU_checked_div := U_checked_div.
Definition TU_checked_rem := U_checked_rem.
Definition TU_checked_neg := U_checked_neg.
Definition TU_checked_shl := U_checked_shl.
Definition TU_checked_shr := U_checked_shr.
Definition TU_saturating_add := U_saturating_add.
Definition TU_saturating_sub := U_saturating_sub.
Definition TU_saturating_mul := U_saturating_mul.
Definition TU_wrapping_add := U_wrapping_add.
Definition TU_wrapping_sub := U_wrapping_sub.
Definition TU_wrapping_mul := U_wrapping_mul.
Definition TU_wrapping_neg := U_wrapping_neg.
Definition TU_wrapping_shl := U_wrapping_shl.
Definition TU_wrapping_shr := U_wrapping_shr.
Definition TU_overflowing_add := U_overflowing_add.
Definition TU_overflowing_sub := U_overflowing_sub.
Definition TU_div_euclid := U_div_euclid.
Definition TU_rem_euclid := U_rem_euclid.
Definition TU_checked_div_euclid := U_checked_div_euclid.
Definition TU_checked_rem_euclid := U_checked_rem_euclid.
Definition TU_pow := U_pow.
Definition TU_mul_add (dbg : bool) (w : Z) (a b c : list Z) : outcome (list Z) :=
  obind (U_mul dbg w a b) (fun p => U_add dbg w p c).

Definition TI_checked_add := I_checked_add.
Definition TI_checked_sub := I_checked_sub.
Definition TI_checked_mul := I_checked_mul.
Definition TI_checked_div := I_checked_div.
Definition TI_checked_rem := I_checked_rem.
Definition TI_checked_neg := I_checked_neg.
Definition TI_checked_shl := I_checked_shl.
Definition TI_checked_shr := I_checked_shr.
Definition TI_saturating_add := I_saturating_add.
Definition TI_saturating_sub := I_saturating_sub.
Definition TI_saturating_mul := I_saturating_mul.
Definition TI_wrapping_add := I_wrapping_add.
Definition TI_wrapping_sub := I_wrapping_sub.
Definition TI_wrapping_mul := I_wrapping_mul.
Definition TI_wrapping_neg := I_wrapping_neg.
Definition TI_wrapping_shl := I_wrapping_shl.
Definition TI_wrapping_shr := I_wrapping_shr.
Definition TI_overflowing_add := I_overflowing_add.
Definition TI_overflowing_sub := I_overflowing_sub.
Definition TI_div_euclid := I_div_euclid.
Definition TI_rem_euclid := I_rem_euclid.
Definition TI_checked_div_euclid := I_checked_div_euclid.
Definition TI_checked_rem_euclid := I_checked_rem_euclid.
Definition TI_pow := I_pow.
Definition TI_mul_add (dbg : bool) (w : Z) (a b c : list Z) : outcome (list Z) :=
  obind (I_mul dbg w a b) (fun p => I_add dbg w p c).

(* prim_int_methods!: each is `Self::name(args)` *)
Definition T_count_ones := count_ones.
Definition T_count_zeros := count_zeros.
Definition T_leading_zeros := leading_zeros.
Definition T_trailing_zeros := trailing_zeros.
Definition T_leading_ones := leading_ones.
Definition T_trailing_ones := trailing_ones.
Definition T_rotate_left := rotate_left.
Definition T_rotate_right := rotate_right.
Definition T_swap_bytes := swap_bytes.
Definition T_reverse_bits := reverse_bits.
(* little-endian target: from_be / to_be = swap_bytes, from_le / to_le = identity *)
Definition T_from_be := swap_bytes.
Definition T_to_be := swap_bytes.
Definition T_from_le (w : Z) (a : list Z) := a.
Definition T_to_le (w : Z) (a : list Z) := a.

(* Model/FloatCast.v — casts between bnum integers and f32 / f64:
   src/cast/float/mod.rs        ConvertFloatParts (into_raw/biased/signed_biased/signed/normalised_signed
                                _parts, from_raw/biased/signed_biased/signed_parts), FloatCastHelper consts
   src/cast/float/float_from_uint.rs   cast_float_from_uint
   src/cast/float/uint_from_float.rs   cast_uint_from_float (as it is NOW: exp == -1 truncates to zero)
   src/buint/cast.rs            buint_as_int (CastFrom<BUint> for u32/u64), as_buint (CastFrom<u32/u64> for
                                BUint), CastFrom<BUint> for f32/f64, CastFrom<f32/f64> for BUint
   src/bint/cast.rs             CastFrom<BInt> for f32/f64, bint_cast_from_float
   A float is its bit pattern: a Z in [0, 2^fbits).  No real numbers.  The mantissa type (u32 for f32,
   u64 for f64) has the same width as the float; its operations are the Prim.v word operations at
   width `fbits F`.  `i << BIT_SHIFT` (digit level) is written i * w as in Model/Shift.v. *)
From Bnum Require Import Base Prim.
From Bnum.Model Require Import Digit Core Shift AddSub Bits.

(* ---------- float formats ---------- *)

Record ffmt : Type := { fbits : Z; fp : Z }.      (* BITS, MANTISSA_DIGITS *)
Definition F32 : ffmt := {| fbits := 32; fp := 24 |}.
Definition F64 : ffmt := {| fbits := 64; fp := 53 |}.

Definition ebits (F : ffmt) : Z := fbits F - fp F.             (* EXPONENT_BITS *)
Definition MAX_EXP (F : ffmt) : Z := 2 ^ (ebits F - 1).        (* f32: 128, f64: 1024 *)
Definition EXP_BIAS (F : ffmt) : Z := MAX_EXP F - 1.

(* ---------- primitive float operations on the bit pattern (MODELLED, trusted like Prim.v) ---------- *)

Definition f_to_bits (x : Z) : Z := x.
Definition f_from_bits (x : Z) : Z := x.
Definition F_INFINITY (F : ffmt) : Z := 2 ^ (fbits F - 1) - 2 ^ (fp F - 1).
Definition F_ZERO : Z := 0.
Definition f_abs_bits (F : ffmt) (x : Z) : Z := x mod 2 ^ (fbits F - 1).
Definition f_is_sign_negative (F : ffmt) (x : Z) : bool := Z.testbit x (fbits F - 1).
Definition f_is_nan (F : ffmt) (x : Z) : bool := F_INFINITY F <? f_abs_bits F x.
Definition f_is_infinite (F : ffmt) (x : Z) : bool := f_abs_bits F x =? F_INFINITY F.
Definition f_neg (F : ffmt) (x : Z) : Z := Z.lxor x (2 ^ (fbits F - 1)).

(* ---------- primitive mantissa-word operations not in Prim.v ---------- *)

(* helpers::Bits for u32/u64:  self & (1 << index) != 0 *)
Definition m_bit (mb x i : Z) : bool := negb (u_and x (u_shl mb 1 i) =? 0).
(* `a + b` on uW: overflow-checked in builds with debug assertions *)
Definition m_add (dbg : bool) (mb a b : Z) : outcome Z :=
  if dbg && (B mb <=? a + b) then Panic else Ret ((a + b) mod B mb).
Definition i32_max : Z := 2 ^ 31 - 1.

(* ---------- ConvertFloatParts ---------- *)

Definition into_raw_parts (F : ffmt) (x : Z) : bool * Z * Z :=
  let mb := fbits F in
  let sign := f_is_sign_negative F x in
  let sign_mask := u_shr (u_max mb) 1 in
  let exp := u_shr (u_and (f_to_bits x) sign_mask) (fp F - 1) in
  let mant := u_and (f_to_bits x) (u_shr (u_max mb) (mb - (fp F - 1))) in
  (sign, exp, mant).

Definition into_biased_parts (F : ffmt) (x : Z) : bool * Z * Z :=
  let '(sign, exp, mant) := into_raw_parts F x in
  if exp =? 0 then (sign, 1, mant)
  else (sign, exp, u_or mant (u_shl (fbits F) 1 (fp F - 1))).

Definition into_signed_biased_parts (F : ffmt) (x : Z) : bool * Z * Z :=
  let '(sign, exp, mant) := into_biased_parts F x in (sign, exp, mant).

Definition into_signed_parts (F : ffmt) (x : Z) : bool * Z * Z :=
  let '(sign, exp, mant) := into_signed_biased_parts F x in (sign, exp - EXP_BIAS F, mant).

(* note: the source shifts the mantissa RIGHT by `shift` here; transcribed as written *)
Definition into_normalised_signed_parts (F : ffmt) (x : Z) : bool * Z * Z :=
  let '(sign, exp, mant) := into_signed_parts F x in
  let shift := fp F - bitlen mant in
  if (mant =? 0) || (shift =? 0) then (sign, exp, mant)
  else (sign, exp - shift, u_shr mant shift).

Definition from_raw_parts (dbg : bool) (F : ffmt) (sign : bool) (exponent mantissa : Z) : outcome Z :=
  let mb := fbits F in
  if dbg && negb (bitlen mantissa <=? fp F - 1) then Panic
  else
    let bits := u_or (u_shl mb exponent (fp F - 1)) mantissa in
    Ret (f_from_bits (if sign then u_or bits (u_shl mb 1 (mb - 1)) else bits)).

Definition from_biased_parts (dbg : bool) (F : ffmt) (sign : bool) (exponent mantissa : Z) : outcome Z :=
  if dbg && (exponent =? 0) then Panic
  else if m_bit (fbits F) mantissa (fp F - 1)
  then from_raw_parts dbg F sign exponent (u_xor mantissa (u_shl (fbits F) 1 (fp F - 1)))
  else if dbg && negb (exponent =? 1) then Panic
  else from_raw_parts dbg F sign 0 mantissa.

Definition from_signed_biased_parts (dbg : bool) (F : ffmt) (sign : bool) (exponent mantissa : Z) : outcome Z :=
  if dbg && (exponent <? 0) then Panic
  else from_biased_parts dbg F sign (ud 32 exponent) mantissa.

Definition from_signed_parts (dbg : bool) (F : ffmt) (sign : bool) (exponent mantissa : Z) : outcome Z :=
  from_signed_biased_parts dbg F sign (exponent + EXP_BIAS F) mantissa.

(* ---------- integer <-> mantissa-word casts (src/buint/cast.rs) ---------- *)

(* buint_as_int!: CastFrom<BUint<N>> for u32 / u64 (mb = width of the target) *)
Fixpoint buint_as_int_loop (mb w : Z) (ds : list Z) (i out : Z) : Z :=
  match ds with
  | [] => out
  | d :: r => if i * w <? mb
              then buint_as_int_loop mb w r (i + 1) (u_or out (u_shl mb (d mod B mb) (i * w)))
              else out
  end.
Definition buint_as_int (mb w : Z) (ds : list Z) : Z := buint_as_int_loop mb w ds 0 0.

(* as_buint!: CastFrom<u32 / u64> for BUint<N> (tb = width of the source, unsigned so out starts at MIN) *)
Fixpoint as_buint_loop (tb w : Z) (n : nat) (from : Z) : list Z :=
  match n with
  | O => []
  | S k => if from =? 0 then repeat 0 n
           else (from mod B w) :: as_buint_loop tb w k (if tb <=? w then 0 else u_shr from w)
  end.
Definition as_buint (tb w : Z) (n : nat) (from : Z) : list Z := as_buint_loop tb w n from.

(* ---------- cast_float_from_uint ---------- *)

Definition cast_float_from_uint (dbg : bool) (F : ffmt) (w : Z) (value : list Z) : outcome Z :=
  let mb := fbits F in
  let p := fp F in
  let bit_width := bits_of w value in
  if bit_width =? 0 then Ret F_ZERO
  else
    let exponent := bit_width - 1 in
    if i32_max <? exponent then Ret (F_INFINITY F)          (* SignedExp::try_from fails *)
    else if MAX_EXP F <=? exponent then Ret (F_INFINITY F)
    else if bit_width <=? p then
      let mantissa := u_shl mb (buint_as_int mb w value) (p - bit_width) in
      from_signed_parts dbg F false exponent mantissa
    else
      let shift := bit_width - p in
      obind (bit w value (shift - 1)) (fun gte_half =>
      obind (U_shr dbg w value shift) (fun shifted =>
      let shifted_mantissa := buint_as_int mb w shifted in
      if gte_half && (m_bit mb shifted_mantissa 0 || negb (trailing_zeros w value =? shift - 1)) then
        obind (m_add dbg mb shifted_mantissa 1) (fun sm =>
        if m_bit mb sm p then from_signed_parts dbg F false (exponent + 1) (u_shr sm 1)
        else from_signed_parts dbg F false exponent sm)
      else from_signed_parts dbg F false exponent shifted_mantissa)).

(* ---------- cast_uint_from_float ---------- *)

Definition cast_uint_from_float (dbg : bool) (F : ffmt) (w : Z) (n : nat) (value : Z) : outcome (list Z) :=
  if f_is_nan F value then Ret (ZERO n)
  else
    let is_infinite := f_is_infinite F value in
    let '(sign, exp, mant) := into_normalised_signed_parts F value in
    if sign then Ret (ZERO n)                       (* U::MIN *)
    else if is_infinite then Ret (UMAX w n)
    else if mant =? 0 then Ret (ZERO n)
    else if exp <? -1 then Ret (ZERO n)
    else if exp =? -1 then Ret (ZERO n)
    else if exp <? 0 then Ret (UMAX w n)            (* ExpType::try_from fails; unreachable *)
    else if bits w n <=? exp then Ret (UMAX w n)
    else
      let mant_bit_width := bitlen mant in
      if exp <=? mant_bit_width - 1
      then Ret (as_buint (fbits F) w n (u_shr mant (mant_bit_width - 1 - exp)))
      else U_shl dbg w (as_buint (fbits F) w n mant) (exp - (mant_bit_width - 1)).

(* the same function BEFORE commit ed48fe2 (pinned tree): for exp == -1 it returned ONE unless the mantissa is a
   power of two.  Kept only for the refutation theorem float_to_int_refuted; not in the operation table. *)
Definition cast_uint_from_float_prefix (dbg : bool) (F : ffmt) (w : Z) (n : nat) (value : Z) : outcome (list Z) :=
  if f_is_nan F value then Ret (ZERO n)
  else
    let is_infinite := f_is_infinite F value in
    let '(sign, exp, mant) := into_normalised_signed_parts F value in
    if sign then Ret (ZERO n)
    else if is_infinite then Ret (UMAX w n)
    else if mant =? 0 then Ret (ZERO n)
    else if exp <? -1 then Ret (ZERO n)
    else if exp =? -1 then (if u_count_ones mant =? 1 then Ret (ZERO n) else Ret (ONE n))
    else if exp <? 0 then Ret (UMAX w n)
    else if bits w n <=? exp then Ret (UMAX w n)
    else
      let mant_bit_width := bitlen mant in
      if exp <=? mant_bit_width - 1
      then Ret (as_buint (fbits F) w n (u_shr mant (mant_bit_width - 1 - exp)))
      else U_shl dbg w (as_buint (fbits F) w n mant) (exp - (mant_bit_width - 1)).

(* ---------- the CastFrom impls ---------- *)

Definition U_to_float (dbg : bool) (F : ffmt) (w : Z) (a : list Z) : outcome Z :=
  cast_float_from_uint dbg F w a.

Definition U_from_float (dbg : bool) (F : ffmt) (w : Z) (n : nat) (x : Z) : outcome (list Z) :=
  cast_uint_from_float dbg F w n x.

Definition I_to_float (dbg : bool) (F : ffmt) (w : Z) (a : list Z) : outcome Z :=
  obind (U_to_float dbg F w (I_unsigned_abs w a)) (fun f =>
  if is_negative w a then Ret (f_neg F f) else Ret f).

(* bint_cast_from_float! *)
Definition I_from_float (dbg : bool) (F : ffmt) (w : Z) (n : nat) (from : Z) : outcome (list Z) :=
  if f_is_sign_negative F from then
    obind (U_from_float dbg F w n (f_neg F from)) (fun u =>
    if cmp_ge (ucmp u (IMIN w n)) then Ret (IMIN w n) else I_neg dbg w u)
  else
    obind (U_from_float dbg F w n from) (fun u =>
    if is_negative w u then Ret (IMAX w n) else Ret u).

(* Model/LoopPrims.v — primitive vocabulary of the code GENERATED from the loop functions
   (Generated/Loops.v, tools/rs2v_loops.py) that Prim.v / DigitPrims.v do not already have.
   One line each, MODELLED (not verified), like Prim.v. *)
From Bnum Require Import Base Prim.

(* digit.rs: `pub const BIT_SHIFT: ExpType = BITS.trailing_zeros() as ExpType;`  (BITS is a u32) *)
Definition digit_BIT_SHIFT (w : Z) : Z := u_trailing_zeros 32 w.
(* digit.rs: `pub const BITS_MINUS_1: ExpType = BITS - 1;` *)
Definition digit_BITS_MINUS_1 (w : Z) : Z := w - 1.
(* `x >> s` and `x & y` on u32 / usize (s below the width of the type: callers guarantee it) *)
Definition ix_shr (x s : Z) : Z := Z.shiftr x s.
Definition ix_and (x y : Z) : Z := Z.land x y.
(* usize::saturating_sub *)
Definition ix_saturating_sub (a b : Z) : Z := if a <? b then 0 else a - b.
(* Digit::count_zeros *)
Definition u_count_zeros (w x : Z) : Z := w - u_count_ones x.
(* u32::checked_sub *)
Definition ix_checked_sub (a b : Z) : option Z := if a <? b then None else Some (a - b).
(* `i << s` on usize in index arithmetic (`i << BIT_SHIFT`): like `+`, never assumed to overflow *)
Definition ix_shl (x s : Z) : Z := Z.shiftl x s.
(* iN/uN::wrapping_shr(s) on the VALUE of a pb-bit primitive integer: self >> (s & (BITS - 1)), arithmetic for iN = floor division *)
Definition p_wrapping_shr (pb x s : Z) : Z := x / 2 ^ (s mod pb).

(* Model/Pow.v — overflowing / checked / wrapping / saturating / strict pow
   (src/buint/overflowing.rs, checked.rs, wrapping.rs, saturating.rs and the bint twins),
   integer logarithms (src/buint/checked.rs iilog, checked_ilog*, src/buint/mod.rs ilog*,
   src/bint/checked.rs, src/bint/mod.rs). *)
From Bnum Require Import Base Prim.
From Bnum.Model Require Import Digit Core Shift AddSub Mul Div Bits.

(* `while pow > 1 { if pow & 1 == 1 {..}; self = self*self; pow >>= 1 }` is recursion on the
   binary representation of the exponent (a positive) *)
Fixpoint ovf_pow_loop (w : Z) (p : positive) (base y : list Z) (ovf : bool) : list Z * bool :=
  match p with
  | xH => let '(prod, o) := U_overflowing_mul w base y in (prod, o || ovf)
  | xO p' =>
      let '(b2, o) := U_overflowing_mul w base base in ovf_pow_loop w p' b2 y (ovf || o)
  | xI p' =>
      let '(y', o1) := U_overflowing_mul w y base in
      let '(b2, o2) := U_overflowing_mul w base base in ovf_pow_loop w p' b2 y' ((ovf || o1) || o2)
  end.
Definition U_overflowing_pow (w : Z) (a : list Z) (e : Z) : list Z * bool :=
  match e with
  | Zpos p => ovf_pow_loop w p a (ONE (length a)) false
  | _ => (ONE (length a), false)
  end.

Fixpoint checked_pow_loop (w : Z) (p : positive) (base y : list Z) : option (list Z) :=
  match p with
  | xH => U_checked_mul w base y
  | xO p' =>
      match U_checked_mul w base base with Some b2 => checked_pow_loop w p' b2 y | None => None end
  | xI p' =>
      match U_checked_mul w base y with
      | Some y' => match U_checked_mul w base base with Some b2 => checked_pow_loop w p' b2 y' | None => None end
      | None => None
      end
  end.
Definition U_checked_pow (w : Z) (a : list Z) (e : Z) : option (list Z) :=
  match e with
  | Zpos p => checked_pow_loop w p a (ONE (length a))
  | _ => Some (ONE (length a))
  end.

Fixpoint wrapping_pow_loop (w : Z) (p : positive) (base y : list Z) : list Z :=
  match p with
  | xH => U_wrapping_mul w base y
  | xO p' => wrapping_pow_loop w p' (U_wrapping_mul w base base) y
  | xI p' => let y' := U_wrapping_mul w base y in wrapping_pow_loop w p' (U_wrapping_mul w base base) y'
  end.
Definition U_wrapping_pow (w : Z) (a : list Z) (e : Z) : list Z :=
  match e with
  | Zpos p => wrapping_pow_loop w p a (ONE (length a))
  | _ => ONE (length a)
  end.
Definition U_saturating_pow w a e := saturate_up w (U_overflowing_pow w a e).
Definition U_strict_pow w a e := option_expect (U_checked_pow w a e).
Definition U_pow (dbg : bool) w a e : outcome (list Z) :=
  if dbg then U_strict_pow w a e else Ret (U_wrapping_pow w a e).

Definition I_overflowing_pow (w : Z) (a : list Z) (e : Z) : list Z * bool :=
  let '(u, overflow) := U_overflowing_pow w (I_unsigned_abs w a) e in
  let out_neg := is_negative w a && Z.odd e in
  if out_neg then
    let out := I_wrapping_neg w u in (out, overflow || negb (is_negative w out))
  else (u, overflow || is_negative w u).
Definition I_checked_pow (w : Z) (a : list Z) (e : Z) : option (list Z) :=
  match U_checked_pow w (I_unsigned_abs w a) e with
  | Some u =>
      if negb (is_negative w a) || Z.even e then (if is_negative w u then None else Some u)
      else let out := I_wrapping_neg w u in if negb (is_negative w out) then None else Some out
  | None => None
  end.
Definition I_wrapping_pow := U_wrapping_pow.
Definition I_saturating_pow (w : Z) (a : list Z) (e : Z) : list Z :=
  match I_checked_pow w a e with
  | Some r => r
  | None => if is_negative w a && Z.odd e then IMIN w (length a) else IMAX w (length a)
  end.
Definition I_strict_pow w a e := option_expect (I_checked_pow w a e).
Definition I_pow (dbg : bool) w a e : outcome (list Z) :=
  if dbg then I_strict_pow w a e else Ret (I_wrapping_pow w a e).

(* ---- integer logarithms ---- *)
Definition U_checked_ilog2 (w : Z) (a : list Z) : option Z :=
  let b := bits_of w a in if b <? 1 then None else Some (b - 1).

(* iilog(m, b, k): recursion depth is at most log2(BITS)+1; explicit fuel, None = out of fuel.
   b.mul(b) and q.div(b) are the inherent forms (mul is strict in debug builds). *)
Fixpoint iilog (fuel : nat) (dbg : bool) (w : Z) (m : Z) (b k : list Z) : option (outcome (Z * list Z)) :=
  match fuel with
  | O => None
  | S f =>
      if cmp_gt (ucmp b k) then Some (Ret (m, k))
      else
        match U_mul dbg w b b with
        | Panic => Some Panic
        | Ret bb =>
            match iilog f dbg w ((m * 2) mod 2 ^ 32) bb (fst (U_div_rem_unchecked w k b)) with
            | None => None
            | Some Panic => Some Panic
            | Some (Ret (new, q)) =>
                if cmp_gt (ucmp b q) then Some (Ret (new, q))
                else match U_div w q b with
                     | Panic => Some Panic
                     | Ret qb => Some (Ret (new + m, qb))
                     end
            end
        end
  end.

Definition ilog_fuel (w : Z) (n : nat) : nat := S (Z.to_nat (Z.log2 (bits w n)) + 2).

Definition TEN (n : nat) : list Z := from_digit n 10.
Definition TWO (n : nat) : list Z := from_digit n 2.

(* result: None = out of fuel (excluded by the theorems); Some (Ret o) = the Option returned *)
Definition U_checked_ilog10 (dbg : bool) (w : Z) (a : list Z) : option (outcome (option Z)) :=
  let n := length a in
  if is_zero a then Some (Ret None)
  else if cmp_gt (ucmp (TEN n) a) then Some (Ret (Some 0))
  else match iilog (ilog_fuel w n) dbg w 1 (TEN n) (fst (div_rem_digit w a 10)) with
       | None => None
       | Some Panic => Some Panic
       | Some (Ret (r, _)) => Some (Ret (Some r))
       end.

Definition U_checked_ilog (dbg : bool) (w : Z) (a base : list Z) : option (outcome (option Z)) :=
  let n := length a in
  match ucmp base (TWO n) with
  | Lt => Some (Ret None)
  | Eq => Some (Ret (U_checked_ilog2 w a))
  | Gt =>
      if is_zero a then Some (Ret None)
      else if cmp_gt (ucmp base a) then Some (Ret (Some 0))
      else match U_div w a base with
           | Panic => Some Panic
           | Ret q => match iilog (ilog_fuel w n) dbg w 1 base q with
                      | None => None
                      | Some Panic => Some Panic
                      | Some (Ret (r, _)) => Some (Ret (Some r))
                      end
           end
  end.

Definition expect_log (o : option (outcome (option Z))) : option (outcome Z) :=
  match o with
  | None => None
  | Some Panic => Some Panic
  | Some (Ret None) => Some Panic
  | Some (Ret (Some r)) => Some (Ret r)
  end.
Definition U_ilog2 (w : Z) (a : list Z) : outcome Z := option_expect (U_checked_ilog2 w a).
Definition U_ilog10 dbg w a := expect_log (U_checked_ilog10 dbg w a).
Definition U_ilog dbg w a base := expect_log (U_checked_ilog dbg w a base).

Definition I_checked_ilog2 (w : Z) (a : list Z) : option Z :=
  if is_negative w a then None else U_checked_ilog2 w a.
Definition I_checked_ilog10 dbg (w : Z) (a : list Z) : option (outcome (option Z)) :=
  if is_negative w a then Some (Ret None) else U_checked_ilog10 dbg w a.
Definition I_checked_ilog dbg (w : Z) (a base : list Z) : option (outcome (option Z)) :=
  if is_negative w base || is_negative w a then Some (Ret None) else U_checked_ilog dbg w a base.
(* bint ilog!: base <= 1 panics first, then negative self panics, then the unsigned ilog *)
Definition I_ilog2 (w : Z) (a : list Z) : outcome Z :=
  if is_negative w a then Panic else U_ilog2 w a.
Definition I_ilog10 dbg (w : Z) (a : list Z) : option (outcome Z) :=
  if is_negative w a then Some Panic else U_ilog10 dbg w a.
Definition I_ilog dbg (w : Z) (a base : list Z) : option (outcome Z) :=
  if cmp_le (icmp w base (ONE (length a))) then Some Panic
  else if is_negative w a then Some Panic else U_ilog dbg w a base.

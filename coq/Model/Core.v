(* Model/Core.v — constants, predicates, comparison and digit-wise logic of
   BUint / BInt (src/buint/mod.rs, src/buint/const_trait_fillers.rs,
   src/bint/const_trait_fillers.rs, src/bint/mod.rs, src/buint/consts.rs). *)
From Bnum Require Import Base Prim.

Definition ZERO (n : nat) : list Z := repeat 0 n.
Definition from_digit (n : nat) (d : Z) : list Z :=
  match n with O => [] | S k => d :: repeat 0 k end.
Definition ONE (n : nat) : list Z := from_digit n 1.
Definition UMAX (w : Z) (n : nat) : list Z := repeat (u_max w) n.
(* BInt::MIN = 1 << (BITS-1), BInt::MAX = !MIN *)
Definition IMIN (w : Z) (n : nat) : list Z :=
  match n with O => [] | S k => repeat 0 k ++ [B w / 2] end.
Definition IMAX (w : Z) (n : nat) : list Z :=
  match n with O => [] | S k => repeat (u_max w) k ++ [B w / 2 - 1] end.
Definition NEG_ONE (w : Z) (n : nat) : list Z := UMAX w n.

Fixpoint is_zero (ds : list Z) : bool :=
  match ds with [] => true | d :: r => if d =? 0 then is_zero r else false end.

Definition is_one (ds : list Z) : bool :=
  match ds with [] => false | d :: r => if d =? 1 then is_zero r else false end.

Fixpoint eq_digits (a b : list Z) : bool :=
  match a, b with
  | x :: a', y :: b' => if x =? y then eq_digits a' b' else false
  | _, _ => true
  end.

(* BUint::cmp scans from the most significant digit: on the little-endian list
   that is "the higher digits decide, else this one". *)
Fixpoint ucmp (a b : list Z) : comparison :=
  match a, b with
  | x :: a', y :: b' =>
      match ucmp a' b' with
      | Eq => if y <? x then Gt else if x <? y then Lt else Eq
      | c => c
      end
  | _, _ => Eq
  end.

Definition top_digit (ds : list Z) : Z := last ds 0.
Definition signed_digit (w : Z) (ds : list Z) : Z := sd w (top_digit ds).
Definition is_negative (w : Z) (ds : list Z) : bool := signed_digit w ds <? 0.
Definition is_positive (w : Z) (ds : list Z) : bool :=
  let s := signed_digit w ds in (0 <? s) || ((s =? 0) && negb (is_zero ds)).

Definition icmp (w : Z) (a b : list Z) : comparison :=
  let s1 := signed_digit w a in
  let s2 := signed_digit w b in
  if s1 =? s2 then ucmp a b else if s2 <? s1 then Gt else Lt.

Definition cmp_lt (c : comparison) : bool := match c with Lt => true | _ => false end.
Definition cmp_le (c : comparison) : bool := match c with Gt => false | _ => true end.
Definition cmp_gt (c : comparison) : bool := match c with Gt => true | _ => false end.
Definition cmp_ge (c : comparison) : bool := match c with Lt => false | _ => true end.

Fixpoint map2 (f : Z -> Z -> Z) (a b : list Z) : list Z :=
  match a, b with
  | x :: a', y :: b' => f x y :: map2 f a' b'
  | _, _ => []
  end.

Definition bitand (a b : list Z) : list Z := map2 u_and a b.
Definition bitor (a b : list Z) : list Z := map2 u_or a b.
Definition bitxor (a b : list Z) : list Z := map2 u_xor a b.
Definition bitnot (w : Z) (a : list Z) : list Z := map (u_not w) a.

Definition tuple_to_option {A} (p : A * bool) : option A :=
  if snd p then None else Some (fst p).
Definition option_expect {A} (o : option A) : outcome A :=
  match o with Some a => Ret a | None => Panic end.

(* Model/Random.v — src/random.rs (feature `rand`, rand 0.8): Distribution<BUint/BInt> for Standard,
   Fill for Slice<BUint/BInt> / try_fill_slice, UniformInt::{new, new_inclusive, sample, sample_single,
   sample_single_inclusive}, and the two rand entry points that reach them (Rng::gen_range over
   Range / RangeInclusive).  Also `impl Add<Digit> for BUint` of src/buint/ops.rs (the `+ 1` in
   `MAX - range + 1`), which has no model elsewhere.

   THE RNG IS AN ORACLE: every function takes the RNG's future output as an explicit argument
   `s : list Z` — the byte stream the generator will hand out, consumed left to right — and returns the
   unconsumed remainder with its value.  The only way bnum talks to the generator is
   `RngCore::try_fill_bytes(dest)`:
     Standard:  rng.fill(&mut [Digit; N]) -> <[Digit] as Fill>::try_fill -> ONE request of
                N * size_of::<Digit>() bytes, then `to_le` on every digit (rand 0.8.8 src/rng.rs impl_fill!;
                for u8 digits the request is the digit array itself);
     Fill:      ONE request of len * size_of::<BUint<N>>() bytes, then `to_le` on every element.
   so one request = `try_fill_bytes k s` below.  A stream that is too short for a request is the
   distinguished outcome `ROutOfStream` (the scripted RngCore of the harness reports `Err:3f`).
   The target is little endian (trusted base): `to_le` is the identity and a digit is the little-endian
   decoding of its size_of::<Digit>() = w/8 bytes. *)
From Bnum Require Import Base Prim.
From Bnum.Model Require Import Digit Core Shift AddSub Mul Div Bits.

(* ---------- the oracle ---------- *)

Definition stream := list Z.

Inductive rres (A : Type) : Type :=
| RVal (a : A) (rest : stream)      (* returned `a`; `rest` = what the generator has left *)
| RPanic                            (* a Rust panic (assert!, strict arithmetic) *)
| ROutOfStream                      (* the generator was asked for more bytes than the script holds *)
| ROutOfFuel.                       (* model artefact: rejection loop cut off (excluded by the fuel lemma) *)
Arguments RVal {A} a rest.
Arguments RPanic {A}.
Arguments ROutOfStream {A}.
Arguments ROutOfFuel {A}.

(* RngCore::try_fill_bytes(dest) with dest.len() = k *)
Definition try_fill_bytes (k : nat) (s : stream) : option (list Z * stream) :=
  if (length s <? k)%nat then None else Some (firstn k s, skipn k s).

(* the raw byte view of an array of `cnt` items of `sz` bytes each *)
Fixpoint chunks (sz cnt : nat) (bs : list Z) : list (list Z) :=
  match cnt with
  | O => []
  | S c => firstn sz bs :: chunks sz c (skipn sz bs)
  end.

(* a primitive digit read from its bytes in memory, then `to_le` (identity): little-endian decoding *)
Definition digit_of_le_bytes (bs : list Z) : Z := uval 8 bs.

Definition digit_bytes (w : Z) : nat := Z.to_nat (w / 8).             (* size_of::<Digit>() *)
Definition BYTES (w : Z) (n : nat) : nat := (n * digit_bytes w)%nat.  (* size_of::<BUint<N>>() *)

(* [Digit; N] seen through its byte view *)
Definition digits_of_bytes (w : Z) (n : nat) (bs : list Z) : list Z :=
  map digit_of_le_bytes (chunks (digit_bytes w) n bs).

(* ---------- Standard ---------- *)

(* impl Distribution<BUint<N>> for Standard: let mut digits = [0; N]; rng.fill(&mut digits); from_digits(digits)
   (Rng::fill panics "Rng::fill failed" when try_fill_bytes errs: the stream is exhausted) *)
Definition U_standard (w : Z) (n : nat) (s : stream) : rres (list Z) :=
  match try_fill_bytes (BYTES w n) s with
  | None => ROutOfStream
  | Some (bs, rest) => RVal (digits_of_bytes w n bs) rest
  end.
(* impl Distribution<BInt<N>> for Standard: BInt::from_bits(rng.gen()) *)
Definition I_standard (w : Z) (n : nat) (s : stream) : rres (list Z) := U_standard w n s.

(* ---------- Fill for Slice<T> / try_fill_slice ---------- *)

(* if len > 0 { rng.try_fill_bytes(<len * size_of::<T>() bytes>)?; for x in .. { *x = x.to_le() } } Ok(()) *)
Definition try_fill_slice (w : Z) (n : nat) (len : nat) (s : stream) : rres (list (list Z)) :=
  if (0 <? len)%nat then
    match try_fill_bytes (len * BYTES w n) s with
    | None => ROutOfStream
    | Some (bs, rest) => RVal (map (digits_of_bytes w n) (chunks (BYTES w n) len bs)) rest
    end
  else RVal [] s.
Definition U_try_fill_slice := try_fill_slice.
Definition I_try_fill_slice := try_fill_slice.

(* ---------- impl Add<Digit> for BUint (src/buint/ops.rs) ---------- *)

(* while i < N && carry { digits[i].overflowing_add(1) } *)
Fixpoint add_digit_carry (w : Z) (ds : list Z) (carry : bool) : list Z :=
  match ds with
  | [] => []
  | d :: r => if carry then let '(s, c) := u_ovf_add w d 1 in s :: add_digit_carry w r c else ds
  end.
(* digits[0] does not exist for N = 0: index panic *)
Definition U_add_digit (w : Z) (a : list Z) (rhs : Z) : outcome (list Z) :=
  match a with
  | [] => Panic
  | d :: r => let '(s, c) := carrying_add w d rhs false in Ret (s :: add_digit_carry w r c)
  end.

(* ---------- UniformInt ---------- *)

(* The macro uniform_int_impl!($ty, $u_large $(, to_bits, from_bits)?) is instantiated twice; `sg` says
   whether $ty is the signed type.  to_bits / from_bits do not change the digit array, so the two
   instances differ only in the comparisons and in the `-` of `high - ONE`. *)
Definition ty_lt (sg : bool) (w : Z) (a b : list Z) : bool :=
  cmp_lt (if sg then icmp w a b else ucmp a b).
Definition ty_le (sg : bool) (w : Z) (a b : list Z) : bool :=
  cmp_le (if sg then icmp w a b else ucmp a b).
Definition ty_sub (sg dbg : bool) (w : Z) (a b : list Z) : outcome (list Z) :=
  if sg then I_sub dbg w a b else U_sub dbg w a b.
Definition ty_wrapping_sub (sg : bool) (w : Z) (a b : list Z) : list Z :=
  if sg then I_wrapping_sub w a b else U_wrapping_sub w a b.
Definition ty_wrapping_add (sg : bool) (w : Z) (a b : list Z) : list Z :=
  if sg then I_wrapping_add w a b else U_wrapping_add w a b.
Definition ty_standard (sg : bool) (w : Z) (n : nat) (s : stream) : rres (list Z) :=
  if sg then I_standard w n s else U_standard w n s.

Record uniform : Type := mkUniform { u_low : list Z; u_range : list Z; u_z : list Z }.

(* high.wrapping_sub(low).wrapping_add(ONE) [.to_bits()] *)
Definition range_of (sg : bool) (w : Z) (low high : list Z) : list Z :=
  ty_wrapping_add sg w (ty_wrapping_sub sg w high low) (ONE (length low)).

(* (MAX - range + 1) % range     — Sub (strict in debug builds), Add<Digit>, Rem (panics on zero) *)
Definition ints_to_reject (dbg : bool) (w : Z) (range : list Z) : outcome (list Z) :=
  obind (U_sub dbg w (UMAX w (length range)) range) (fun t =>
  obind (U_add_digit w t 1) (fun t1 => U_rem w t1 range)).

Definition uniform_new_inclusive (sg dbg : bool) (w : Z) (low high : list Z) : outcome uniform :=
  if negb (ty_le sg w low high) then Panic
  else
    let range := range_of sg w low high in
    obind (if negb (is_zero range) then ints_to_reject dbg w range else Ret (ZERO (length low)))
          (fun z => Ret (mkUniform low range z)).

Definition uniform_new (sg dbg : bool) (w : Z) (low high : list Z) : outcome uniform :=
  if negb (ty_lt sg w low high) then Panic
  else obind (ty_sub sg dbg w high (ONE (length low))) (fun h1 => uniform_new_inclusive sg dbg w low h1).

(* loop { let v: $u_large = rng.gen(); let (lo, hi) = v.widening_mul(range);
          if lo <= zone { return low.wrapping_add(from_bits(hi)) } } *)
Fixpoint sample_loop (fuel : nat) (sg : bool) (w : Z) (low range zone : list Z) (s : stream)
  : rres (list Z) :=
  match fuel with
  | O => ROutOfFuel
  | S f =>
      match U_standard w (length low) s with
      | RVal v rest =>
          let '(lo, hi) := U_widening_mul w v range in
          if cmp_le (ucmp lo zone) then RVal (ty_wrapping_add sg w low hi) rest
          else sample_loop f sg w low range zone rest
      | RPanic => RPanic
      | ROutOfStream => ROutOfStream
      | ROutOfFuel => ROutOfFuel
      end
  end.

Definition uniform_sample (fuel : nat) (sg dbg : bool) (w : Z) (u : uniform) (s : stream) : rres (list Z) :=
  let range := u_range u in
  if negb (is_zero range) then
    match U_sub dbg w (UMAX w (length range)) (u_z u) with
    | Panic => RPanic
    | Ret zone => sample_loop fuel sg w (u_low u) range zone s
    end
  else ty_standard sg w (length (u_low u)) s.

(* let zone = if MAX.bits() <= 16 { MAX - (MAX - range + 1) % range }
              else { (range << range.leading_zeros()).wrapping_sub(ONE) } *)
Definition single_zone (dbg : bool) (w : Z) (range : list Z) : outcome (list Z) :=
  let n := length range in
  if bits_of w (UMAX w n) <=? 16 then
    obind (ints_to_reject dbg w range) (fun r => U_sub dbg w (UMAX w n) r)
  else
    obind (U_shl dbg w range (leading_zeros w range)) (fun t => Ret (U_wrapping_sub w t (ONE n))).

Definition sample_single_inclusive (fuel : nat) (sg dbg : bool) (w : Z) (low high : list Z) (s : stream)
  : rres (list Z) :=
  if negb (ty_le sg w low high) then RPanic
  else
    let range := range_of sg w low high in
    if is_zero range then ty_standard sg w (length low) s
    else
      match single_zone dbg w range with
      | Panic => RPanic
      | Ret zone => sample_loop fuel sg w low range zone s
      end.

Definition sample_single (fuel : nat) (sg dbg : bool) (w : Z) (low high : list Z) (s : stream)
  : rres (list Z) :=
  if negb (ty_lt sg w low high) then RPanic
  else
    match ty_sub sg dbg w high (ONE (length low)) with
    | Panic => RPanic
    | Ret h1 => sample_single_inclusive fuel sg dbg w low h1 s
    end.

(* rand 0.8 Rng::gen_range(range): assert!(!range.is_empty()); range.sample_single(rng)
   Range<T>::is_empty = !(start < end) ; RangeInclusive<T>::is_empty = !(start <= end) *)
Definition gen_range (fuel : nat) (sg dbg : bool) (w : Z) (low high : list Z) (s : stream) : rres (list Z) :=
  if negb (ty_lt sg w low high) then RPanic else sample_single fuel sg dbg w low high s.
Definition gen_range_inclusive (fuel : nat) (sg dbg : bool) (w : Z) (low high : list Z) (s : stream)
  : rres (list Z) :=
  if negb (ty_le sg w low high) then RPanic else sample_single_inclusive fuel sg dbg w low high s.

(* Uniform::new(low, high).sample(rng) and Uniform::new_inclusive(low, high).sample(rng) *)
Definition uniform_new_sample (fuel : nat) (sg dbg : bool) (w : Z) (low high : list Z) (s : stream)
  : rres (list Z) :=
  match uniform_new sg dbg w low high with
  | Panic => RPanic
  | Ret u => uniform_sample fuel sg dbg w u s
  end.
Definition uniform_new_inclusive_sample (fuel : nat) (sg dbg : bool) (w : Z) (low high : list Z) (s : stream)
  : rres (list Z) :=
  match uniform_new_inclusive sg dbg w low high with
  | Panic => RPanic
  | Ret u => uniform_sample fuel sg dbg w u s
  end.

(* every loop iteration consumes BYTES > 0 bytes of a finite script: this much fuel is never used up *)
Definition fuel_for (s : stream) : nat := S (length s).

(* named instances *)
Definition U_uniform_new := uniform_new false.
Definition I_uniform_new := uniform_new true.
Definition U_uniform_new_inclusive := uniform_new_inclusive false.
Definition I_uniform_new_inclusive := uniform_new_inclusive true.
Definition U_sample_single fuel := sample_single fuel false.
Definition I_sample_single fuel := sample_single fuel true.
Definition U_sample_single_inclusive fuel := sample_single_inclusive fuel false.
Definition I_sample_single_inclusive fuel := sample_single_inclusive fuel true.

(* Base.v — representation shared by every model: little-endian digit lists,
   their unsigned / two's-complement denotation, the value language spoken by
   the correspondence harness, and the arithmetic lemmas every proof uses. *)
From Coq Require Export ZArith List Lia Bool.
Export ListNotations.
Open Scope Z_scope.

Global Arguments Z.mul : simpl never.
Global Arguments Z.add : simpl never.
Global Arguments Z.sub : simpl never.
Global Arguments Z.pow : simpl never.
Global Arguments Z.div : simpl never.
Global Arguments Z.modulo : simpl never.
Global Arguments Z.of_nat : simpl never.
Global Arguments Z.ltb : simpl never.
Global Arguments Z.leb : simpl never.
Global Arguments Z.eqb : simpl never.

(* ---------- denotation ---------- *)

Definition B (w : Z) : Z := 2 ^ w.

Fixpoint uval (w : Z) (ds : list Z) : Z :=
  match ds with
  | [] => 0
  | d :: r => d + B w * uval w r
  end.

Definition digit_ok (w d : Z) : Prop := 0 <= d < B w.

Definition wf (w : Z) (n : nat) (ds : list Z) : Prop :=
  length ds = n /\ Forall (digit_ok w) ds.

(* 2^BITS for a type with n digits of w bits *)
Definition Mod (w : Z) (n : nat) : Z := 2 ^ (w * Z.of_nat n).

Definition bits (w : Z) (n : nat) : Z := w * Z.of_nat n.

(* two's complement reading of an unsigned value below M *)
Definition to_signed (M v : Z) : Z := if v <? M / 2 then v else v - M.

Definition sval (w : Z) (ds : list Z) : Z :=
  to_signed (Mod w (length ds)) (uval w ds).

Definition wrapU (M x : Z) : Z := x mod M.
Definition inU (M x : Z) : bool := (0 <=? x) && (x <? M).
Definition wrapS (M x : Z) : Z := (x + M / 2) mod M - M / 2.
Definition inS (M x : Z) : bool := (- (M / 2) <=? x) && (x <? M / 2).

(* executable well-formedness, used by the runner to reject malformed cases *)
Definition digit_okb (w d : Z) : bool := (0 <=? d) && (d <? B w).
Definition wfb (w : Z) (n : nat) (ds : list Z) : bool :=
  Nat.eqb (length ds) n && forallb (digit_okb w) ds.

(* digits of a non-negative value, little endian, n of them *)
Fixpoint digits_of (w : Z) (n : nat) (v : Z) : list Z :=
  match n with
  | O => []
  | S k => v mod B w :: digits_of w k (v / B w)
  end.

(* ---------- outcome of a Rust computation that may panic ---------- *)

Inductive outcome (A : Type) : Type :=
| Ret (a : A)
| Panic.
Arguments Ret {A} a.
Arguments Panic {A}.

Definition obind {A C} (x : outcome A) (f : A -> outcome C) : outcome C :=
  match x with Ret a => f a | Panic => Panic end.
Definition omap {A C} (f : A -> C) (x : outcome A) : outcome C :=
  match x with Ret a => Ret (f a) | Panic => Panic end.

(* ---------- the value language of the correspondence check ---------- *)

Inductive val : Type :=
| VZ (z : Z)
| VL (l : list Z)
| VB (b : bool)
| VNone
| VSome (v : val)
| VPair (a b : val)
| VPanic
| VErr (k : Z)
| VUnit
| VBad.            (* unknown operation / ill-typed arguments: never produced by the code *)

Fixpoint list_Z_eqb (a b : list Z) : bool :=
  match a, b with
  | [], [] => true
  | x :: a', y :: b' => (x =? y) && list_Z_eqb a' b'
  | _, _ => false
  end.

Fixpoint val_eqb (a b : val) : bool :=
  match a, b with
  | VZ x, VZ y => x =? y
  | VL x, VL y => list_Z_eqb x y
  | VB x, VB y => Bool.eqb x y
  | VNone, VNone => true
  | VSome x, VSome y => val_eqb x y
  | VPair x1 x2, VPair y1 y2 => val_eqb x1 y1 && val_eqb x2 y2
  | VPanic, VPanic => true
  | VErr x, VErr y => x =? y
  | VUnit, VUnit => true
  | VBad, VBad => true
  | _, _ => false
  end.

Definition vopt {A} (f : A -> val) (o : option A) : val :=
  match o with Some a => VSome (f a) | None => VNone end.
Definition vout {A} (f : A -> val) (o : outcome A) : val :=
  match o with Ret a => f a | Panic => VPanic end.
Definition vpairLB (p : list Z * bool) : val := VPair (VL (fst p)) (VB (snd p)).
Definition vpairLL (p : list Z * list Z) : val := VPair (VL (fst p)) (VL (snd p)).

(* ---------- basic facts ---------- *)

Lemma B_pos w : 0 <= w -> 0 < B w.
Proof. intros; unfold B; apply Z.pow_pos_nonneg; lia. Qed.

Lemma B_ge_2 w : 0 < w -> 2 <= B w.
Proof.
  intros; unfold B. replace 2 with (2 ^ 1) at 1 by reflexivity.
  apply Z.pow_le_mono_r; lia.
Qed.

Lemma Mod_pos w n : 0 <= w -> 0 < Mod w n.
Proof. intros; unfold Mod; apply Z.pow_pos_nonneg; lia. Qed.

Lemma Mod_0 w : Mod w 0 = 1.
Proof. unfold Mod. rewrite Z.mul_0_r. reflexivity. Qed.

Lemma Mod_S w n : 0 <= w -> Mod w (S n) = B w * Mod w n.
Proof.
  intros; unfold Mod, B. rewrite <- Z.pow_add_r by lia. f_equal; lia.
Qed.

Lemma Mod_even w n : 0 < w -> (0 < n)%nat -> Mod w n = 2 * (Mod w n / 2).
Proof.
  intros Hw Hn. unfold Mod.
  assert (0 < w * Z.of_nat n) by (apply Z.mul_pos_pos; lia).
  replace (w * Z.of_nat n) with (1 + (w * Z.of_nat n - 1)) by lia.
  rewrite Z.pow_add_r by lia. change (2 ^ 1) with 2.
  rewrite (Z.mul_comm 2), Z.div_mul by lia. lia.
Qed.

Lemma wf_nil w : wf w 0 [].
Proof. split; [reflexivity | constructor]. Qed.

Lemma wf_cons w n d r : wf w (S n) (d :: r) <-> digit_ok w d /\ wf w n r.
Proof.
  unfold wf; split.
  - intros [Hl Hf]. inversion Hf as [|x l Hx Hr]; subst. simpl in Hl.
    split; [exact Hx|]. split; [lia | exact Hr].
  - intros [Hd [Hl Hf]]. split; [simpl; lia | constructor; auto].
Qed.

Lemma wf_length w n ds : wf w n ds -> length ds = n.
Proof. intros [H _]; exact H. Qed.

Lemma wf_inv_S w n ds : wf w (S n) ds -> exists d r, ds = d :: r /\ digit_ok w d /\ wf w n r.
Proof.
  intros H. destruct ds as [|d r]; [destruct H as [H _]; discriminate|].
  exists d, r. split; [reflexivity|]. apply wf_cons; exact H.
Qed.

Lemma wf_inv_0 w ds : wf w 0 ds -> ds = [].
Proof. intros [H _]. destruct ds; [reflexivity | discriminate]. Qed.

Lemma uval_bounds w n ds : 0 <= w -> wf w n ds -> 0 <= uval w ds < Mod w n.
Proof.
  intros Hw. revert ds. induction n as [|n IH]; intros ds H.
  - apply wf_inv_0 in H; subst. rewrite Mod_0. simpl. lia.
  - destruct (wf_inv_S _ _ _ H) as (d & r & -> & Hd & Hr).
    specialize (IH r Hr). rewrite Mod_S by lia. cbn [uval].
    unfold digit_ok in Hd. pose proof (B_pos w Hw). nia.
Qed.

Lemma uval_app w a b : 0 <= w ->
  uval w (a ++ b) = uval w a + Mod w (length a) * uval w b.
Proof.
  intros Hw. induction a as [|x a IH]; cbn [uval app length].
  - rewrite Mod_0. lia.
  - rewrite IH. replace (Mod w (S (length a))) with (B w * Mod w (length a)) by (symmetry; apply Mod_S; lia). ring.
Qed.

Lemma wf_app w n m a b : wf w n a -> wf w m b -> wf w (n + m) (a ++ b).
Proof.
  intros [Ha Fa] [Hb Fb]. split.
  - rewrite app_length; lia.
  - apply Forall_app; split; assumption.
Qed.

Lemma wfb_wf w n ds : wfb w n ds = true <-> wf w n ds.
Proof.
  unfold wfb, wf. rewrite andb_true_iff, Nat.eqb_eq, forallb_forall, Forall_forall.
  unfold digit_okb, digit_ok. split; intros [H1 H2]; split; auto; intros x Hx; specialize (H2 x Hx).
  - apply andb_true_iff in H2. lia.
  - apply andb_true_iff. lia.
Qed.

(* injectivity of the denotation on well-formed lists: equal values <-> identical arrays *)
Lemma uval_inj w n a b : 0 <= w -> wf w n a -> wf w n b -> uval w a = uval w b -> a = b.
Proof.
  intros Hw. revert a b. induction n as [|n IH]; intros a b Ha Hb He.
  - apply wf_inv_0 in Ha, Hb; subst; reflexivity.
  - destruct (wf_inv_S _ _ _ Ha) as (x & a' & -> & Hx & Ha').
    destruct (wf_inv_S _ _ _ Hb) as (y & b' & -> & Hy & Hb').
    cbn [uval] in He. unfold digit_ok in *. pose proof (B_pos w Hw).
    assert (Hk : uval w a' = uval w b').
    { set (k := uval w a' - uval w b'). assert (x - y + B w * k = 0) by (unfold k; lia).
      assert (k = 0) by nia. unfold k in *; lia. }
    assert (x = y) by (rewrite Hk in He; lia).
    subst y. f_equal. apply IH; auto.
Qed.

Lemma digits_of_wf w n v : 0 < w -> wf w n (digits_of w n v).
Proof.
  intros Hw. revert v. induction n as [|n IH]; intros v; cbn [digits_of].
  - apply wf_nil.
  - apply wf_cons. split; [|apply IH]. unfold digit_ok. apply Z.mod_pos_bound. apply B_pos; lia.
Qed.

Lemma digits_of_uval w n v : 0 < w -> uval w (digits_of w n v) = v mod Mod w n.
Proof.
  intros Hw. revert v. induction n as [|n IH]; intros v; cbn [digits_of uval].
  - rewrite Mod_0, Z.mod_1_r. reflexivity.
  - rewrite IH, Mod_S by lia. pose proof (B_pos w ltac:(lia)). pose proof (Mod_pos w n ltac:(lia)).
    rewrite Z.rem_mul_r by lia. lia.
Qed.

(* ---------- signed reading ---------- *)

Lemma to_signed_range M v : 0 < M -> M = 2 * (M / 2) -> 0 <= v < M -> - (M / 2) <= to_signed M v < M / 2.
Proof. intros; unfold to_signed; destruct (Z.ltb_spec v (M / 2)); lia. Qed.

Lemma to_signed_mod M v : 0 < M -> to_signed M v mod M = v mod M.
Proof.
  intros; unfold to_signed; destruct (v <? M / 2); [reflexivity|].
  replace (v - M) with (v + (-1) * M) by lia. apply Z_mod_plus_full.
Qed.

Lemma wrapS_range M x : 0 < M -> M = 2 * (M / 2) -> - (M / 2) <= wrapS M x < M / 2.
Proof. intros; unfold wrapS. pose proof (Z.mod_pos_bound (x + M / 2) M ltac:(lia)). lia. Qed.

Lemma wrapS_mod M x : 0 < M -> wrapS M x mod M = x mod M.
Proof.
  intros; unfold wrapS. rewrite Zminus_mod, Z.mod_mod by lia. rewrite <- Zminus_mod. f_equal; lia.
Qed.

Lemma wrapS_id M x : 0 < M -> M = 2 * (M / 2) -> - (M / 2) <= x < M / 2 -> wrapS M x = x.
Proof. intros; unfold wrapS. rewrite Z.mod_small by lia. lia. Qed.

(* a signed value is determined by its residue *)
Lemma signed_unique M x y : 0 < M -> M = 2 * (M / 2) ->
  - (M / 2) <= x < M / 2 -> - (M / 2) <= y < M / 2 -> x mod M = y mod M -> x = y.
Proof.
  intros HM He Hx Hy Hxy.
  assert (((x - y) mod M) = 0) by (rewrite Zminus_mod, Hxy, Z.sub_diag; apply Z.mod_0_l; lia).
  apply Z.mod_divide in H; [|lia]. destruct H as [k Hk].
  set (h := M / 2) in *. assert (k = 0) by nia. subst k. lia.
Qed.

Lemma to_signed_wrapS M v : 0 < M -> M = 2 * (M / 2) -> 0 <= v < M -> to_signed M v = wrapS M v.
Proof.
  intros. apply signed_unique with M; auto.
  - apply to_signed_range; auto.
  - apply wrapS_range; auto.
  - rewrite to_signed_mod, wrapS_mod by lia. reflexivity.
Qed.

Lemma to_signed_of_mod M x : 0 < M -> M = 2 * (M / 2) -> to_signed M (x mod M) = wrapS M x.
Proof.
  intros. rewrite to_signed_wrapS by (auto; apply Z.mod_pos_bound; lia).
  apply signed_unique with M; auto using wrapS_range.
  rewrite !wrapS_mod, Z.mod_mod by lia. reflexivity.
Qed.

Lemma inS_true M x : inS M x = true <-> - (M / 2) <= x < M / 2.
Proof. unfold inS. rewrite andb_true_iff, Z.leb_le, Z.ltb_lt. tauto. Qed.

Lemma inU_true M x : inU M x = true <-> 0 <= x < M.
Proof. unfold inU. rewrite andb_true_iff, Z.leb_le, Z.ltb_lt. tauto. Qed.

Lemma sval_range w n ds : 0 < w -> (0 < n)%nat -> wf w n ds ->
  - (Mod w n / 2) <= sval w ds < Mod w n / 2.
Proof.
  intros Hw Hn H. unfold sval. rewrite (wf_length _ _ _ H).
  apply to_signed_range; [apply Mod_pos; lia | apply Mod_even; auto | apply uval_bounds; auto; lia].
Qed.

Lemma sval_mod w n ds : 0 < w -> wf w n ds -> sval w ds mod Mod w n = uval w ds mod Mod w n.
Proof.
  intros Hw H. unfold sval. rewrite (wf_length _ _ _ H). apply to_signed_mod. apply Mod_pos; lia.
Qed.

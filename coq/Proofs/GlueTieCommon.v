(* Proofs/GlueTieCommon.v — tactics shared by the per-property glue tie files (see Proofs/GlueTie.v). *)
From Bnum Require Import Base Prim.
From Bnum.Model Require Import Digit Core Shift AddSub Mul Div Bits Pow.
From Bnum.Generated Require Import Glue.

Ltac glue_head t := lazymatch t with ?f _ => glue_head f | _ => t end.
(* destruct the innermost stuck scrutinee (a `match` / `if` / `let '(_, _)` on something that is not itself a match) *)
Ltac glue_cases :=
  repeat match goal with
         | |- context [match ?x with _ => _ end] =>
             lazymatch x with
             | context [match _ with _ => _ end] => fail
             | _ => destruct x; cbv beta iota zeta delta [fst snd negb andb orb xorb Bool.eqb]
             end
         end.
Ltac glue_tac :=
  intros;
  first [ reflexivity
        | lazymatch goal with
          | |- ?l = ?r => let hl := glue_head l in let hr := glue_head r in try unfold hl; try unfold hr
          end;
          unfold omap, obind, ocheck, tuple_to_option, option_expect, saturate_up, saturate_down, sat_by_sign,
                 cmp_max, cmp_min, clamp, cmp_lt, cmp_le, cmp_gt, cmp_ge, mask_amount;
          cbv beta iota zeta delta [fst snd negb andb orb xorb Bool.eqb]; glue_cases; reflexivity ].

(* `exp & 1 != 0` (bint saturating_pow) is the model's Z.odd *)
Lemma land1_odd e : negb (Z.land e 1 =? 0) = Z.odd e.
Proof.
  destruct e as [|p|p]; try reflexivity; destruct p as [q|q|]; try reflexivity; destruct q; reflexivity.
Qed.


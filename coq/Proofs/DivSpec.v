(* Proofs/DivSpec.v — the specification of unsigned div_rem_unchecked as a Prop, so that the
   signed wrappers (Proofs/DivSigned.v) can be developed against it independently of the Knuth D
   proof (Proofs/Div.v), which establishes it for every w > 0. *)
From Bnum Require Import Base Prim.
From Bnum.Model Require Import Digit Core Shift AddSub Mul Div.

Definition U_div_rem_spec (w : Z) : Prop :=
  forall n a b, wf w n a -> wf w n b -> uval w b <> 0 ->
    wf w n (fst (U_div_rem_unchecked w a b)) /\
    wf w n (snd (U_div_rem_unchecked w a b)) /\
    uval w a = uval w (fst (U_div_rem_unchecked w a b)) * uval w b
               + uval w (snd (U_div_rem_unchecked w a b)) /\
    0 <= uval w (snd (U_div_rem_unchecked w a b)) < uval w b.

(* quotient and remainder are then the Z ones *)
Lemma U_div_rem_spec_div w : 0 <= w -> U_div_rem_spec w ->
  forall n a b, wf w n a -> wf w n b -> uval w b <> 0 ->
    uval w (fst (U_div_rem_unchecked w a b)) = uval w a / uval w b /\
    uval w (snd (U_div_rem_unchecked w a b)) = uval w a mod uval w b.
Proof.
  intros Hw HS n a b Ha Hb Hnz.
  destruct (HS n a b Ha Hb Hnz) as (Hq & Hr & Hv & Hlt).
  set (q := uval w (fst (U_div_rem_unchecked w a b))) in *.
  set (r := uval w (snd (U_div_rem_unchecked w a b))) in *.
  assert (uval w a = uval w b * q + r) by lia.
  split.
  - apply (Z.div_unique_pos _ _ q r); auto.
  - apply (Z.mod_unique_pos _ _ q r); auto.
Qed.

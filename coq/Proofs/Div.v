(* Proofs/Div.v — Knuth D loop invariant, basecase_div_rem, and the dispatch U_div_rem_unchecked. *)
From Bnum Require Import Base Prim.
From Bnum.Model Require Import Digit Core Shift AddSub Mul Div.
From Bnum.Proofs Require Import DivAux DivValue DivDigit DivKnuth DivSpec.

(* ---------- last_digit_index ---------- *)

Definition allz (l : list Z) : Prop := Forall (fun x => x = 0) l.

Lemma allz_repeat l : allz l -> l = repeat 0 (length l).
Proof.
  induction 1 as [|x l Hx _ IH]; cbn [length repeat]; [reflexivity|]. subst. f_equal. exact IH.
Qed.

Lemma ldi_from_spec : forall ds i idx,
  (allz ds /\ last_digit_index_from i ds idx = idx) \/
  (exists k, last_digit_index_from i ds idx = (i + k)%nat /\ (k < length ds)%nat /\
             nth k ds 0 <> 0 /\ allz (skipn (S k) ds)).
Proof.
  induction ds as [|d r IH]; intros i idx; cbn [last_digit_index_from].
  - left. split; [constructor | reflexivity].
  - destruct (IH (S i) (if d =? 0 then idx else i)) as [[Hz E] | (k & E & Hk & Hnz & Hz)].
    + destruct (Z.eqb_spec d 0) as [->|Hd].
      * left. split; [constructor; auto | exact E].
      * right. exists 0%nat. rewrite E. cbn [length nth skipn]. repeat split; auto; lia.
    + right. exists (S k). rewrite E. cbn [length nth skipn]. repeat split; auto; lia.
Qed.

(* shape of a list around its last nonzero digit *)
Lemma ldi_shape w N ds : 0 <= w -> wf w N ds ->
  (last_digit_index ds = 0%nat /\ uval w ds = hd 0 ds /\ uval w ds < B w) \/
  (exists lo top, ds = lo ++ top :: repeat 0 (N - S (last_digit_index ds)) /\
                  length lo = last_digit_index ds /\ top <> 0 /\ (0 < last_digit_index ds < N)%nat).
Proof.
  intros Hw Hwf. destruct ds as [|d0 r].
  - left. cbn. pose proof (B_pos w Hw). repeat split; auto; lia.
  - destruct Hwf as [Hl Hf]. cbn [length] in Hl. unfold last_digit_index.
    destruct (ldi_from_spec r 1 0) as [[Hz E] | (k & E & Hk & Hnz & Hz)].
    + left. rewrite E. cbn [hd uval]. rewrite (allz_repeat r Hz), uval_repeat0.
      inversion Hf as [|? ? Hd _]; subst. unfold digit_ok in Hd. repeat split; lia.
    + right. rewrite E. exists (d0 :: firstn k r), (nth k r 0).
      split; [|split; [|split]].
      * cbn [app]. f_equal. rewrite (nth_firstn_skipn r k 0 Hk) at 1. do 2 f_equal.
        rewrite (allz_repeat _ Hz). f_equal. rewrite skipn_length. lia.
      * cbn [length]. rewrite firstn_length. lia.
      * exact Hnz.
      * lia.
Qed.

Lemma ldi_bounds w N ds : 0 <= w -> wf w N ds ->
  uval w ds < Mod w (S (last_digit_index ds)) /\
  ((last_digit_index ds < N)%nat \/ N = 0%nat) /\
  (last_digit_index ds = 0%nat \/ Mod w (last_digit_index ds) <= uval w ds).
Proof.
  intros Hw Hwf. pose proof (B_pos w Hw) as HB.
  destruct (ldi_shape w N ds Hw Hwf) as [(E & Hv & Hlt) | (lo & top & Eds & Hlo & Hnz & Hk)].
  - rewrite E. rewrite Mod_1 by auto. split; [lia|]. split; [|left; reflexivity].
    destruct N; [right; reflexivity | left; lia].
  - set (k := last_digit_index ds) in *.
    destruct Hwf as [Hl Hf]. rewrite Eds in Hf. apply Forall_app in Hf. destruct Hf as [Hflo Hf2].
    inversion Hf2 as [|? ? Htop _]; subst. unfold digit_ok in Htop.
    pose proof (uval_bounds w _ lo Hw (wf_of_Forall _ _ Hflo)) as Hb. rewrite Hlo in Hb.
    assert (Ev : uval w ds = uval w lo + Mod w k * top).
    { rewrite Eds, uval_app by auto. cbn [uval]. rewrite uval_repeat0, Hlo. lia. }
    rewrite Mod_S by auto. split; [nia|]. split; [left; lia | right; nia].
Qed.

(* ---------- the normalised divisor ---------- *)

Lemma bitlen_bounds w x : 0 < x < B w ->
  1 <= bitlen x <= w /\ 2 ^ (bitlen x - 1) <= x < 2 ^ (bitlen x).
Proof.
  intros Hx. unfold bitlen. destruct (Z.eqb_spec x 0); [lia|].
  pose proof (Z.log2_spec x ltac:(lia)) as Hs. pose proof (Z.log2_nonneg x).
  assert (Z.log2 x < w) by (apply Z.log2_lt_pow2; [lia | apply Hx]).
  replace (Z.log2 x + 1 - 1) with (Z.log2 x) by lia.
  replace (Z.succ (Z.log2 x)) with (Z.log2 x + 1) in Hs by lia. lia.
Qed.

Lemma split_last2 {A} (l : list A) k : length l = (k + 2)%nat ->
  exists lo a b, l = lo ++ [a; b] /\ length lo = k.
Proof.
  intros H. exists (firstn k l).
  pose proof (firstn_skipn k l) as E.
  assert (Hs : length (skipn k l) = 2%nat) by (rewrite skipn_length; lia).
  destruct (skipn k l) as [|a [|b [|? ?]]]; cbn in Hs; try lia.
  exists a, b. split; [auto | rewrite firstn_length; lia].
Qed.

(* b = blo ++ btop :: 0..0 with btop <> 0 at index n-1 >= 1: the shifted divisor *)
Lemma normalise_ok w N n b blo btop : 0 < w -> (2 <= n <= N)%nat ->
  wf w N b -> b = blo ++ btop :: repeat 0 (N - n) -> length blo = (n - 1)%nat -> btop <> 0 ->
  let s := u_leading_zeros w btop in
  let v := shl_internal w b s in
  0 <= s < w /\ wf w N v /\ uval w v = uval w b * 2 ^ s /\
  Mod w (n - 1) * 2 ^ (w - 1) <= uval w v /\
  exists vlo v2 v1, v = vlo ++ [v2; v1] ++ repeat 0 (N - n) /\ length vlo = (n - 2)%nat /\
    nth_d (n - 1) v = v1 /\ nth_d (n - 2) v = v2 /\ B w <= 2 * v1.
Proof.
  intros Hw0 Hn Hwf Eb Hlblo Hnz s v. assert (Hw : 0 <= w) by lia. pose proof (B_pos w Hw) as HB.
  pose proof Hwf as [Hl Hf]. rewrite Eb in Hf. apply Forall_app in Hf. destruct Hf as [Hfblo Hf2].
  inversion Hf2 as [|? ? Htop _]; subst x l. unfold digit_ok in Htop.
  destruct (bitlen_bounds w btop ltac:(lia)) as [HL HLb].
  assert (Hs : 0 <= s < w) by (unfold s, u_leading_zeros; lia).
  assert (HsL : s = w - bitlen btop) by reflexivity.
  pose proof (pow2_pos s ltac:(lia)) as Hps.
  pose proof (uval_bounds w _ blo Hw (wf_of_Forall _ _ Hfblo)) as Hblo. rewrite Hlblo in Hblo.
  assert (Ev : uval w b = uval w blo + Mod w (n - 1) * btop).
  { rewrite Eb, uval_app by auto. cbn [uval]. rewrite uval_repeat0, Hlblo. lia. }
  assert (HBL : B w = 2 ^ (bitlen btop) * 2 ^ s).
  { unfold B. rewrite <- Z.pow_add_r by lia. f_equal. lia. }
  assert (HBL' : 2 ^ (w - 1) = 2 ^ (bitlen btop - 1) * 2 ^ s).
  { rewrite <- Z.pow_add_r by lia. f_equal. lia. }
  pose proof (Mod_pos w (n - 1) Hw) as HMn1.
  assert (HMn : Mod w n = B w * Mod w (n - 1)).
  { replace n with (S (n - 1)) at 1 by lia. apply Mod_S; auto. }
  assert (Hup : uval w b * 2 ^ s < Mod w n).
  { rewrite HMn, HBL.
    assert (uval w b < Mod w (n - 1) * 2 ^ bitlen btop) by nia. nia. }
  assert (Hlow : Mod w (n - 1) * 2 ^ (w - 1) <= uval w b * 2 ^ s).
  { rewrite HBL'. assert (Mod w (n - 1) * 2 ^ (bitlen btop - 1) <= uval w b) by nia. nia. }
  pose proof (Mod_le w n N Hw ltac:(lia)) as HMle.
  destruct (shl_internal_small w N b s Hw0 Hwf Hs ltac:(lia)) as [Hvwf Hvval]. fold v in Hvwf, Hvval.
  split; [exact Hs|]. split; [exact Hvwf|]. split; [exact Hvval|]. split; [lia|].
  (* shape of v *)
  destruct (uval_firstn_small w N n v Hw Hvwf ltac:(lia) ltac:(lia)) as [Hfv Hsk].
  pose proof (wf_skipn w N n v Hvwf) as Hskwf.
  pose proof (uval_zero_all w _ _ Hw Hskwf Hsk) as Ez.
  pose proof (wf_firstn w N n v Hvwf ltac:(lia)) as [Hlf Hff].
  destruct (split_last2 (firstn n v) (n - 2) ltac:(lia)) as (vlo & v2 & v1 & Efv & Hlvlo).
  assert (Ev' : v = vlo ++ [v2; v1] ++ repeat 0 (N - n)).
  { rewrite <- (firstn_skipn n v) at 1. rewrite Efv, Ez, <- app_assoc. reflexivity. }
  exists vlo, v2, v1. split; [exact Ev'|]. split; [exact Hlvlo|].
  split; [|split].
  - rewrite Ev'. replace (vlo ++ [v2; v1] ++ repeat 0 (N - n)) with ((vlo ++ [v2]) ++ v1 :: repeat 0 (N - n))
      by (rewrite <- app_assoc; reflexivity).
    apply nth_d_app. rewrite app_length. cbn [length]. lia.
  - rewrite Ev'. cbn [app]. apply nth_d_app. lia.
  - rewrite Efv in Hff. apply Forall_app in Hff. destruct Hff as [Hfvlo Hf3].
    inversion Hf3 as [|? ? Hv2 Hf4]; subst. inversion Hf4 as [|? ? Hv1 _]; subst.
    unfold digit_ok in Hv2, Hv1.
    pose proof (uval_bounds w _ vlo Hw (wf_of_Forall _ _ Hfvlo)) as Hvlo. rewrite Hlvlo in Hvlo.
    assert (Evv : uval w v = uval w vlo + Mod w (n - 2) * (v2 + B w * v1)).
    { rewrite Ev', uval_top2 by auto. rewrite Hlvlo. reflexivity. }
    assert (HMn1' : Mod w (n - 1) = B w * Mod w (n - 2)).
    { replace (n - 1)%nat with (S (n - 2)) by lia. apply Mod_S; auto. }
    pose proof (Mod_pos w (n - 2) Hw).
    pose proof (B_half w Hw0) as Hhalf.
    assert (Hlt1 : uval w v < Mod w (n - 1) * (v1 + 1)).
    { rewrite Evv, HMn1'.
      assert (Mod w (n - 2) * v2 <= Mod w (n - 2) * (B w - 1)) by (apply Z.mul_le_mono_nonneg_l; lia).
      lia. }
    assert (Hlt2 : Mod w (n - 1) * 2 ^ (w - 1) < Mod w (n - 1) * (v1 + 1)) by lia.
    apply mul_lt_cancel in Hlt2; lia.
Qed.

(* ---------- the j loop ---------- *)

Lemma divisor_facts w N n v vlo v2 v1 : 0 <= w -> (n = length vlo + 2)%nat -> (n <= N)%nat ->
  v = vlo ++ [v2; v1] ++ repeat 0 (N - n) -> wf w N v -> B w <= 2 * v1 ->
  0 < uval w v < Mod w n.
Proof.
  intros Hw Hn HnN Hv [Hlv Hfv] Hnorm. pose proof (B_pos w Hw) as HB.
  rewrite Hv in Hfv. apply Forall_app in Hfv. destruct Hfv as [Hfvlo H2].
  inversion H2 as [|? ? Hv2 H4]; subst x l. inversion H4 as [|? ? Hv1 _]; subst x l.
  unfold digit_ok in Hv2, Hv1.
  pose proof (uval_bounds w _ vlo Hw (wf_of_Forall _ _ Hfvlo)) as Hvlo.
  assert (HV : uval w v = uval w vlo + Mod w (length vlo) * (v2 + B w * v1)) by (rewrite Hv; apply uval_top2; auto).
  assert (HModn : Mod w n = Mod w (length vlo) * (B w * B w)).
  { rewrite Hn. rewrite Mod_add, !Mod_S, Mod_0 by auto. lia. }
  pose proof (Mod_pos w (length vlo) Hw) as HS.
  rewrite HV, HModn.
  assert (H1 : v2 + B w * v1 <= B w * B w - 1) by nia.
  assert (H3 : Mod w (length vlo) * (v2 + B w * v1) <= Mod w (length vlo) * (B w * B w - 1))
    by (apply Z.mul_le_mono_nonneg_l; lia).
  assert (H5 : 0 < v2 + B w * v1) by nia.
  assert (H6 : 0 < Mod w (length vlo) * (v2 + B w * v1)) by (apply Z.mul_pos_pos; lia).
  lia.
Qed.

Lemma upd_zero_prefix j qd qhi : upd j qd (repeat 0 (S j) ++ qhi) = repeat 0 j ++ qd :: qhi.
Proof.
  unfold upd. cbn [repeat]. rewrite repeat_cons, <- app_assoc. cbn [app].
  apply set_nth_app. rewrite repeat_length. reflexivity.
Qed.

Lemma knuth_loop_ok w N n v vlo v2 v1 :
  0 < w -> (n = length vlo + 2)%nat -> (n <= N)%nat ->
  v = vlo ++ [v2; v1] ++ repeat 0 (N - n) -> wf w N v -> B w <= 2 * v1 ->
  forall cnt u qhi q' u', (cnt + n <= S N)%nat -> wf w (S N) u -> wf w (N - cnt) qhi ->
  uval w u < uval w v * Mod w cnt ->
  knuth_loop w cnt n v v1 v2 u (repeat 0 cnt ++ qhi) = (q', u') ->
  wf w N q' /\ wf w (S N) u' /\
  uval w q' * uval w v + uval w u' = Mod w cnt * uval w qhi * uval w v + uval w u /\
  uval w u' < uval w v.
Proof.
  intros Hw0 Hn HnN Hv Hwfv Hnorm. assert (Hw : 0 <= w) by lia. pose proof (B_pos w Hw) as HB.
  destruct (divisor_facts w N n v vlo v2 v1 Hw Hn HnN Hv Hwfv Hnorm) as [HVpos HVn].
  set (V := uval w v) in *.
  induction cnt as [|j IH]; intros u qhi q' u' Hcnt Hu Hqhi Hlt E.
  - cbn [knuth_loop repeat app] in E. inversion E; subst; clear E.
    replace (N - 0)%nat with N in Hqhi by lia. rewrite Mod_0 in *.
    split; [auto|]. split; [auto|]. split; lia.
  - cbn [knuth_loop] in E. cbv zeta in E.
    pose proof Hu as [Hlu Hfu].
    remember (firstn j u) as pre eqn:Epre.
    remember (firstn (S n) (skipn j u)) as win eqn:Ewin.
    remember (skipn (S n) (skipn j u)) as post eqn:Epost.
    assert (Eu : u = pre ++ win ++ post).
    { subst pre win post. rewrite firstn_skipn, firstn_skipn. reflexivity. }
    assert (Hlpre : length pre = j) by (subst pre; rewrite firstn_length; lia).
    assert (Hlwin : length win = S n) by (subst win; rewrite firstn_length, skipn_length; lia).
    assert (Hlpost : length post = (S N - j - S n)%nat) by (subst post; rewrite !skipn_length; lia).
    assert (Hfpre : Forall (digit_ok w) pre) by (subst pre; apply Forall_firstn; auto).
    assert (Hfwin : Forall (digit_ok w) win) by (subst win; apply Forall_firstn, Forall_skipn; auto).
    assert (Hfpost : Forall (digit_ok w) post) by (subst post; apply Forall_skipn, Forall_skipn; auto).
    clear Epre Ewin Epost. subst u.
    pose proof (uval_bounds w _ pre Hw (wf_of_Forall _ _ Hfpre)) as Hbpre. rewrite Hlpre in Hbpre.
    pose proof (uval_bounds w _ win Hw (wf_of_Forall _ _ Hfwin)) as Hbwin.
    pose proof (uval_bounds w _ post Hw (wf_of_Forall _ _ Hfpost)) as Hbpost.
    assert (Euv : uval w (pre ++ win ++ post)
                  = uval w pre + Mod w j * (uval w win + Mod w (S n) * uval w post)).
    { rewrite !uval_app by auto. rewrite Hlpre, Hlwin. reflexivity. }
    pose proof (Mod_pos w j Hw) as HMj.
    assert (HMSj : Mod w (S j) = B w * Mod w j) by (apply Mod_S; auto).
    assert (HMSn : Mod w (S n) = B w * Mod w n) by (apply Mod_S; auto).
    assert (HX : uval w win + Mod w (S n) * uval w post < V * B w).
    { apply (mul_lt_cancel (Mod w j)); [lia|]. rewrite Euv, HMSj in Hlt. lia. }
    assert (HVB : V * B w < Mod w (S n)) by (rewrite HMSn; nia).
    assert (Hpost0 : uval w post = 0) by nia.
    rewrite Hpost0 in *.
    match type of E with context [Remainder_sub ?a ?b ?c ?d ?e] =>
      destruct (Remainder_sub a b c d e) as [u1 ov] eqn:Esub end.
    destruct (knuth_step w N n j v vlo v2 v1 pre win post Hw0 Hn HnN Hv Hwfv Hnorm
                (eq_sym Hlpre) (conj Hlwin Hfwin) ltac:(fold V; lia) u1 ov Esub)
      as (win' & qd & Eif & Hwin' & Hqd & Hval & Hlt').
    rewrite Eif in E. rewrite upd_zero_prefix in E.
    fold V in Hval, Hlt'.
    pose proof (uval_bounds w _ win' Hw Hwin') as Hbwin'.
    destruct Hwin' as [Hlwin' Hfwin'].
    assert (Euv' : uval w (pre ++ win' ++ post) = uval w pre + Mod w j * uval w win').
    { rewrite !uval_app by auto. rewrite Hlpre, Hlwin', Hpost0. lia. }
    apply (IH _ (qd :: qhi)) in E.
    + destruct E as (Hq' & Hu' & Heq & Hlt''). split; [auto|]. split; [auto|]. split; [|auto].
      rewrite Heq, Euv', Euv, Hval, HMSj. cbn [uval]. ring.
    + lia.
    + split; [rewrite !app_length; lia|]. apply Forall_app; split; [auto|]. apply Forall_app; split; auto.
    + replace (N - j)%nat with (S (N - S j)) by lia. apply wf_cons. split; [exact Hqd | exact Hqhi].
    + rewrite Euv'. nia.
Qed.

(* ---------- basecase_div_rem ---------- *)

Lemma basecase_div_rem_ok w N a b blo btop n :
  0 < w -> (2 <= n <= N)%nat -> wf w N a -> wf w N b ->
  b = blo ++ btop :: repeat 0 (N - n) -> length blo = (n - 1)%nat -> btop <> 0 ->
  (n - 1 <= last_digit_index a)%nat ->
  wf w N (fst (basecase_div_rem w a b n)) /\ wf w N (snd (basecase_div_rem w a b n)) /\
  uval w a = uval w (fst (basecase_div_rem w a b n)) * uval w b + uval w (snd (basecase_div_rem w a b n)) /\
  0 <= uval w (snd (basecase_div_rem w a b n)) < uval w b.
Proof.
  intros Hw0 Hn Ha Hb Eb Hlblo Hnz Hldi. assert (Hw : 0 <= w) by lia. pose proof (B_pos w Hw) as HB.
  unfold basecase_div_rem.
  assert (Etop : nth_d (n - 1) b = btop) by (rewrite Eb; apply nth_d_app; lia).
  rewrite Etop. rewrite (wf_length _ _ _ Ha).
  destruct (normalise_ok w N n b blo btop Hw0 Hn Hb Eb Hlblo Hnz)
    as (Hs & Hvwf & Hvval & Hvlow & vlo & v2 & v1 & Ev & Hlvlo & Env1 & Env2 & Hnorm).
  set (s := u_leading_zeros w btop) in *. set (v := shl_internal w b s) in *.
  rewrite Env1, Env2.
  destruct (divisor_facts w N n v vlo v2 v1 Hw ltac:(lia) ltac:(lia) Ev Hvwf Hnorm) as [HVpos HVn].
  destruct (Remainder_new_spec w N a s Hw0 ltac:(lia) Ha Hs) as [Hu0wf Hu0val].
  destruct (ldi_bounds w N a Hw Ha) as (HAlt & HkN & _).
  set (k := last_digit_index a) in *.
  set (m := (k + 1 - n)%nat).
  assert (Ezero : ZERO N = repeat 0 (m + 1) ++ repeat 0 (N - (m + 1))).
  { unfold ZERO. rewrite <- repeat_app. f_equal. lia. }
  rewrite Ezero.
  pose proof (pow2_pos s ltac:(lia)) as Hps.
  assert (Hinit : uval w (Remainder_new w a s) < uval w v * Mod w (m + 1)).
  { rewrite Hu0val.
    assert (HMM : Mod w (n - 1) * Mod w (m + 1) = Mod w (S k)).
    { rewrite <- Mod_add by auto. f_equal. lia. }
    assert (Hpw : 2 ^ s <= 2 ^ (w - 1)) by (apply Z.pow_le_mono_r; lia).
    pose proof (Mod_pos w (m + 1) Hw). pose proof (Mod_pos w (S k) Hw).
    pose proof (uval_bounds w N a Hw Ha).
    assert (G1 : uval w a * 2 ^ s < Mod w (S k) * 2 ^ s) by nia.
    assert (G2 : Mod w (S k) * 2 ^ s <= Mod w (S k) * 2 ^ (w - 1)) by (apply Z.mul_le_mono_nonneg_l; lia).
    assert (G3 : Mod w (n - 1) * 2 ^ (w - 1) * Mod w (m + 1) <= uval w v * Mod w (m + 1))
      by (apply Z.mul_le_mono_nonneg_r; lia).
    rewrite <- HMM in G2. lia. }
  destruct (knuth_loop w (m + 1) n v v1 v2 (Remainder_new w a s)
              (repeat 0 (m + 1) ++ repeat 0 (N - (m + 1)))) as [q u'] eqn:E.
  apply (knuth_loop_ok w N n v vlo v2 v1 Hw0 ltac:(lia) ltac:(lia) Ev Hvwf Hnorm) in E;
    [| lia | exact Hu0wf | apply wf_repeat, digit_ok_0; auto | exact Hinit].
  destruct E as (Hq & Hu' & Heq & Hlt).
  rewrite uval_repeat0, Hu0val, Hvval in Heq. cbn [fst snd].
  pose proof (uval_bounds w _ u' Hw Hu') as Hbu'.
  pose proof (Mod_le w n N Hw ltac:(lia)) as HMle.
  destruct (Remainder_shr_spec w N u' s (uval w a - uval w q * uval w b) Hw0 Hs Hu') as [Hrwf Hrval];
    [lia | lia |].
  split; [exact Hq|]. split; [exact Hrwf|]. rewrite Hrval. split; [lia|].
  rewrite Hvval in Hlt. nia.
Qed.

(* ---------- the dispatch ---------- *)

Theorem U_div_rem_unchecked_ok w : 0 < w -> U_div_rem_spec w.
Proof.
  intros Hw0 n a b Ha Hb Hnz. assert (Hw : 0 <= w) by lia. pose proof (B_pos w Hw) as HB.
  pose proof (uval_bounds w n a Hw Ha) as HA. pose proof (uval_bounds w n b Hw Hb) as HBv.
  assert (Hn : (0 < n)%nat).
  { destruct n; [|lia]. apply wf_inv_0 in Hb. subst b. cbn in Hnz. lia. }
  unfold U_div_rem_unchecked. rewrite (wf_length _ _ _ Ha).
  rewrite (is_zero_spec w n a Hw Ha).
  destruct (Z.eqb_spec (uval w a) 0) as [HA0|HA0].
  - cbn [fst snd]. rewrite uval_ZERO. split; [apply wf_ZERO; auto|]. split; [apply wf_ZERO; auto|]. lia.
  - rewrite (ucmp_spec w n a b Hw Ha Hb).
    destruct (Z.compare_spec (uval w a) (uval w b)) as [Heq|Hlt|Hgt]; cbn [fst snd].
    + rewrite uval_ZERO, uval_ONE by auto.
      split; [apply wf_ONE; auto|]. split; [apply wf_ZERO; auto|]. lia.
    + rewrite uval_ZERO. split; [apply wf_ZERO; auto|]. split; [auto|]. lia.
    + destruct (ldi_shape w n b Hw Hb) as [(E & Hv & Hlt) | (blo & btop & Eb & Hlblo & Hbnz & Hk)].
      * rewrite E. cbn [Nat.eqb].
        destruct (div_rem_digit_ok w n a (hd 0 b) Hw0 Ha ltac:(lia)) as (Hq & Hval & Hr).
        destruct (div_rem_digit w a (hd 0 b)) as [d r]. cbn [fst snd] in *.
        rewrite uval_from_digit by auto.
        split; [auto|]. split; [apply wf_from_digit; [auto | unfold digit_ok; lia]|]. lia.
      * set (k := last_digit_index b) in *.
        destruct (Nat.eqb_spec k 0) as [Hk0|Hk0]; [lia|].
        apply (basecase_div_rem_ok w n a b blo btop (k + 1) Hw0); auto; try lia.
        { rewrite Eb. do 3 f_equal. lia. }
        destruct (ldi_bounds w n a Hw Ha) as (HAlt & _ & _).
        destruct (ldi_bounds w n b Hw Hb) as (_ & _ & [Hb0|Hble]); [fold k in Hb0; lia|]. fold k in Hble.
        destruct (Nat.le_gt_cases (k + 1 - 1) (last_digit_index a)) as [Hle|Hgt']; [exact Hle|].
        exfalso. pose proof (Mod_le w (S (last_digit_index a)) k Hw ltac:(lia)). lia.
Qed.

(* the same statement unfolded, for direct use *)
Corollary U_div_rem_unchecked_ok' w n a b : 0 < w -> wf w n a -> wf w n b -> uval w b <> 0 ->
  wf w n (fst (U_div_rem_unchecked w a b)) /\
  wf w n (snd (U_div_rem_unchecked w a b)) /\
  uval w a = uval w (fst (U_div_rem_unchecked w a b)) * uval w b + uval w (snd (U_div_rem_unchecked w a b)) /\
  0 <= uval w (snd (U_div_rem_unchecked w a b)) < uval w b.
Proof. intros Hw. apply (U_div_rem_unchecked_ok w Hw). Qed.

From Bnum Require Import Base Prim.

(* Proofs/LoopsTieC06.v — digit-wise logic, comparison, bit counting: src/buint/const_trait_fillers.rs, src/buint/mod.rs.
   Part of the tie between the loop functions GENERATED from /repo/src/buint/*.rs on every run
   (Generated/Loops.v, by tools/rs2v_loops.py) and the hand-written model: for every digit width, every
   digit count and all well-formed operands, with fuel >= N the generated function neither panics nor
   runs out of fuel and returns exactly what the model function returns. *)
From Bnum Require Import Base Prim.
From Bnum.Model Require Import DigitPrims LoopPrims Digit Core Shift AddSub Mul Bits Imp.
From Bnum.Generated Require Import DigitGen Loops.
From Bnum.Proofs Require Import DigitTie ImpLemmas.

(* ================= (b) src/buint/const_trait_fillers.rs ================= *)

Lemma scan2_map2 (h : Z -> Z -> Z) a b :
  fst (scan2 (fun x y (_ : unit) => (h x y, tt)) a b tt) = map2 h a b.
Proof.
  revert b. induction a as [|x a IH]; intros b; [reflexivity|].
  destruct b as [|y b]; [reflexivity|]. cbn [scan2 map2 fst snd]. rewrite IH. reflexivity.
Qed.

Lemma loops_bitand w n a b : 0 < w -> wf w n a -> wf w n b ->
  forall fuel, (n <= fuel)%nat -> Loops.bitand w (Z.of_nat n) fuel a b = Done (bitand a b).
Proof.
  intros Hw [Ha _] [Hb _] fuel Hf. subst n. unfold Loops.bitand. rewrite Nat2Z.id.
  rewrite (loop_map2_all_c u_and a b); try first [assumption | apply repeat_length | reflexivity | (intros; zbool_lia)].
  - cbn [bind]. rewrite scan2_map2. reflexivity.
  - intros out j Hj Hl. body_red. rewrite !arr_get_nat by lia. cbn [bind].
    rewrite arr_set_nat by lia. reflexivity.
Qed.

Lemma loops_bitor w n a b : 0 < w -> wf w n a -> wf w n b ->
  forall fuel, (n <= fuel)%nat -> Loops.bitor w (Z.of_nat n) fuel a b = Done (bitor a b).
Proof.
  intros Hw [Ha _] [Hb _] fuel Hf. subst n. unfold Loops.bitor. rewrite Nat2Z.id.
  rewrite (loop_map2_all_c u_or a b); try first [assumption | apply repeat_length | reflexivity | (intros; zbool_lia)].
  - cbn [bind]. rewrite scan2_map2. reflexivity.
  - intros out j Hj Hl. body_red. rewrite !arr_get_nat by lia. cbn [bind].
    rewrite arr_set_nat by lia. reflexivity.
Qed.

Lemma loops_bitxor w n a b : 0 < w -> wf w n a -> wf w n b ->
  forall fuel, (n <= fuel)%nat -> Loops.bitxor w (Z.of_nat n) fuel a b = Done (bitxor a b).
Proof.
  intros Hw [Ha _] [Hb _] fuel Hf. subst n. unfold Loops.bitxor. rewrite Nat2Z.id.
  rewrite (loop_map2_all_c u_xor a b); try first [assumption | apply repeat_length | reflexivity | (intros; zbool_lia)].
  - cbn [bind]. rewrite scan2_map2. reflexivity.
  - intros out j Hj Hl. body_red. rewrite !arr_get_nat by lia. cbn [bind].
    rewrite arr_set_nat by lia. reflexivity.
Qed.

Lemma loops_not w n a : 0 < w -> wf w n a ->
  forall fuel, (n <= fuel)%nat -> Loops.not_ w (Z.of_nat n) fuel a = Done (bitnot w a).
Proof.
  intros Hw [Ha _] fuel Hf. subst n. unfold Loops.not_. rewrite Nat2Z.id.
  rewrite (loop_map1_all_c (u_not w) a); try first [assumption | apply repeat_length | reflexivity | (intros; zbool_lia)].
  intros out j Hj Hl. body_red. rewrite !arr_get_nat by lia. cbn [bind].
  rewrite arr_set_nat by lia. reflexivity.
Qed.

Lemma loops_eq w n a b : 0 < w -> wf w n a -> wf w n b ->
  forall fuel, (n <= fuel)%nat -> Loops.eq_ w (Z.of_nat n) fuel a b = Done (eq_digits a b).
Proof.
  intros Hw [Ha _] [Hb _] fuel Hf. unfold Loops.eq_.
  apply while_count_bind with (n := n) (k := 0%nat)
    (Inv := fun k i => i = Z.of_nat k /\ (k <= n)%nat /\ eq_digits a b = eq_digits (skipn k a) (skipn k b)).
  - intros k i (-> & Hk & Heq) Hc. cond_true_in Hc. split; [exact Hc|].
    rewrite !arr_get_nat by lia. cbn [bind].
    rewrite Heq. rewrite (skipn_nth_cons a k) by lia. rewrite (skipn_nth_cons b k) by lia. cbn [eq_digits].
    rewrite ?(Z.eqb_sym (nth k b 0) (nth k a 0)). destruct (nth k a 0 =? nth k b 0); cbn [negb].
    + split; [lia|]. split; [lia | reflexivity].
    + reflexivity.
  - intros k i (-> & Hk & Heq) Hc. cond_false_in Hc.
    rewrite Heq. rewrite (skipn_all2 a) by lia. reflexivity.
  - split; [reflexivity|]. split; [lia | reflexivity].
  - lia.
Qed.

Lemma ucmp_snoc la lb x y : length la = length lb ->
  ucmp (la ++ [x]) (lb ++ [y]) = if y <? x then Gt else if x <? y then Lt else ucmp la lb.
Proof.
  revert lb. induction la as [|p la IH]; intros lb Hl; destruct lb as [|q lb]; try discriminate.
  - cbn [app ucmp]. destruct (y <? x); [reflexivity|]. destruct (x <? y); reflexivity.
  - cbn [app ucmp]. rewrite IH by (cbn [length] in Hl; lia).
    destruct (y <? x); [reflexivity|]. destruct (x <? y); reflexivity.
Qed.

Lemma loops_cmp w n a b : 0 < w -> wf w n a -> wf w n b ->
  forall fuel, (n <= fuel)%nat -> Loops.cmp w (Z.of_nat n) fuel a b = Done (ucmp a b).
Proof.
  intros Hw [Ha _] [Hb _] fuel Hf. unfold Loops.cmp.
  apply while_count_bind with (n := n) (k := 0%nat)
    (Inv := fun k i => i = Z.of_nat (n - k) /\ (k <= n)%nat /\
                       ucmp a b = ucmp (firstn (n - k) a) (firstn (n - k) b)).
  - intros k i (-> & Hk & Heq) Hc. pos_cond_in Hc. apply Nat.ltb_lt in Hc. split; [lia|].
    change 1 with (Z.of_nat 1). rewrite usub_nat by lia. cbn [bind].
    rewrite !arr_get_nat by lia. cbn [bind].
    assert (E : forall l : list Z, (n - k - 1 < length l)%nat ->
                firstn (n - k) l = firstn (n - k - 1) l ++ [nth (n - k - 1) l 0]).
    { intros l Hl. replace (n - k)%nat with (S (n - k - 1)) at 1 by lia. apply firstn_S_snoc. exact Hl. }
    rewrite Heq. rewrite (E a) by lia. rewrite (E b) by lia.
    rewrite ucmp_snoc by (rewrite !firstn_length; lia).
    rewrite ?Z.gtb_ltb.
    destruct (nth (n - k - 1) b 0 <? nth (n - k - 1) a 0); [reflexivity|].
    destruct (nth (n - k - 1) a 0 <? nth (n - k - 1) b 0); [reflexivity|].
    split; [f_equal; lia|]. split; [lia|]. replace (n - S k)%nat with (n - k - 1)%nat by lia. reflexivity.
  - intros k i (-> & Hk & Heq) Hc. pos_cond_in Hc. apply Nat.ltb_ge in Hc.
    rewrite Heq. replace (n - k)%nat with 0%nat by lia. reflexivity.
  - split; [f_equal; lia|]. split; [lia|]. rewrite Nat.sub_0_r. rewrite !firstn_all2 by lia. reflexivity.
  - lia.
Qed.

(* ================= (d) src/buint/mod.rs: counting loops ================= *)

Lemma count_ones_sum l : count_ones l = sum_stop u_count_ones (fun _ => false) l.
Proof. induction l as [|d r IH]; cbn [count_ones sum_stop]; [reflexivity | rewrite IH; reflexivity]. Qed.
Lemma count_zeros_sum w l : count_zeros w l = sum_stop (u_count_zeros w) (fun _ => false) l.
Proof. induction l as [|d r IH]; cbn [count_zeros sum_stop]; [reflexivity | rewrite IH; reflexivity]. Qed.
Lemma trailing_zeros_sum w l : trailing_zeros w l = sum_stop (u_trailing_zeros w) (fun d => negb (d =? 0)) l.
Proof.
  induction l as [|d r IH]; cbn [trailing_zeros sum_stop]; [reflexivity|].
  rewrite IH. destruct (d =? 0); reflexivity.
Qed.
Lemma leading_zeros_rev_sum w l : leading_zeros_rev w l = sum_stop (u_leading_zeros w) (fun d => negb (d =? 0)) l.
Proof.
  induction l as [|d r IH]; cbn [leading_zeros_rev sum_stop]; [reflexivity|].
  rewrite IH. destruct (d =? 0); reflexivity.
Qed.
Lemma trailing_ones_sum w l : trailing_ones w l = sum_stop (u_trailing_ones w) (fun d => negb (d =? u_max w)) l.
Proof.
  induction l as [|d r IH]; cbn [trailing_ones sum_stop]; [reflexivity|].
  rewrite IH. destruct (d =? u_max w); reflexivity.
Qed.
Lemma leading_ones_rev_sum w l : leading_ones_rev w l = sum_stop (u_leading_ones w) (fun d => negb (d =? u_max w)) l.
Proof.
  induction l as [|d r IH]; cbn [leading_ones_rev sum_stop]; [reflexivity|].
  rewrite IH. destruct (d =? u_max w); reflexivity.
Qed.

(* upward counting loop, state (acc, i) *)
Ltac count_up h stop a :=
  apply (loop_fold_stop_bind (fun acc j => (acc, Z.of_nat j)) (fun acc j => (acc, Z.of_nat j))
           (fun d acc => acc + h d) stop a) with (v := fun acc => acc);
  [ reflexivity | lia
  | intros acc j Hj; zbool_lia
  | intros acc; zbool_lia
  | intros acc j Hj; body_red; rewrite arr_get_nat by lia; cbn [bind]; rewrite Nat2Z.inj_succ; reflexivity
  | intros; reflexivity | intros; reflexivity ].

(* downward counting loop `i = N; while i > 0 { i -= 1; .. }`, state (acc, i) *)
Ltac count_down h stop a n :=
  apply (loop_fold_stop_bind (fun acc j => (acc, Z.of_nat (n - j))) (fun acc j => (acc, Z.of_nat (n - S j)))
           (fun d acc => acc + h d) stop (rev a)) with (v := fun acc => acc);
  [ rewrite Nat.sub_0_r; reflexivity | rewrite rev_length; lia
  | intros acc j Hj; rewrite rev_length in Hj; zbool_lia
  | intros acc; rewrite rev_length; zbool_lia
  | intros acc j Hj; rewrite rev_length in Hj; body_red;
    change 1 with (Z.of_nat 1); rewrite usub_nat by lia; cbn [bind];
    replace (n - j - 1)%nat with (n - S j)%nat by lia;
    rewrite arr_get_nat by lia; cbn [bind];
    rewrite rev_nth by lia; replace (length a - S j)%nat with (n - S j)%nat by lia; reflexivity
  | intros; reflexivity | intros; reflexivity ].

Lemma loops_count_ones w n a : 0 < w -> wf w n a ->
  forall fuel, (n <= fuel)%nat -> Loops.count_ones w (Z.of_nat n) fuel a = Done (count_ones a).
Proof.
  intros Hw [Ha _] fuel Hf. unfold Loops.count_ones.
  rewrite count_ones_sum, <- (Z.add_0_l (sum_stop _ _ a)), <- fold_stop_sum.
  count_up u_count_ones (fun _ : Z => false) a.
Qed.

Lemma loops_count_zeros w n a : 0 < w -> wf w n a ->
  forall fuel, (n <= fuel)%nat -> Loops.count_zeros w (Z.of_nat n) fuel a = Done (count_zeros w a).
Proof.
  intros Hw [Ha _] fuel Hf. unfold Loops.count_zeros.
  rewrite count_zeros_sum, <- (Z.add_0_l (sum_stop _ _ a)), <- fold_stop_sum.
  count_up (u_count_zeros w) (fun _ : Z => false) a.
Qed.

Lemma loops_trailing_zeros w n a : 0 < w -> wf w n a ->
  forall fuel, (n <= fuel)%nat -> Loops.trailing_zeros w (Z.of_nat n) fuel a = Done (trailing_zeros w a).
Proof.
  intros Hw [Ha _] fuel Hf. unfold Loops.trailing_zeros.
  rewrite trailing_zeros_sum, <- (Z.add_0_l (sum_stop _ _ a)), <- fold_stop_sum.
  count_up (u_trailing_zeros w) (fun d => negb (d =? 0)) a.
Qed.

Lemma loops_trailing_ones w n a : 0 < w -> wf w n a ->
  forall fuel, (n <= fuel)%nat -> Loops.trailing_ones w (Z.of_nat n) fuel a = Done (trailing_ones w a).
Proof.
  intros Hw [Ha _] fuel Hf. unfold Loops.trailing_ones.
  rewrite trailing_ones_sum, <- (Z.add_0_l (sum_stop _ _ a)), <- fold_stop_sum.
  count_up (u_trailing_ones w) (fun d => negb (d =? u_max w)) a.
Qed.

Lemma loops_leading_zeros w n a : 0 < w -> wf w n a ->
  forall fuel, (n <= fuel)%nat -> Loops.leading_zeros w (Z.of_nat n) fuel a = Done (leading_zeros w a).
Proof.
  intros Hw [Ha _] fuel Hf. unfold Loops.leading_zeros, leading_zeros.
  rewrite leading_zeros_rev_sum, <- (Z.add_0_l (sum_stop _ _ (rev a))), <- fold_stop_sum.
  count_down (u_leading_zeros w) (fun d => negb (d =? 0)) a n.
Qed.

Lemma loops_leading_ones w n a : 0 < w -> wf w n a ->
  forall fuel, (n <= fuel)%nat -> Loops.leading_ones w (Z.of_nat n) fuel a = Done (leading_ones w a).
Proof.
  intros Hw [Ha _] fuel Hf. unfold Loops.leading_ones, leading_ones.
  rewrite leading_ones_rev_sum, <- (Z.add_0_l (sum_stop _ _ (rev a))), <- fold_stop_sum.
  count_down (u_leading_ones w) (fun d => negb (d =? u_max w)) a n.
Qed.

Lemma loops_is_power_of_two w n a : 0 < w -> wf w n a ->
  forall fuel, (n <= fuel)%nat -> Loops.is_power_of_two w (Z.of_nat n) fuel a = Done (U_is_power_of_two a).
Proof.
  intros Hw [Ha _] fuel Hf. unfold Loops.is_power_of_two.
  apply while_count_bind with (n := n) (k := 0%nat)
    (Inv := fun k '(ones, i) => i = Z.of_nat k /\ (k <= n)%nat /\
                                U_is_power_of_two a = is_power_of_two_loop (skipn k a) ones).
  - intros k [ones i] (-> & Hk & Heq) Hc. cond_true_in Hc. split; [exact Hc|].
    rewrite arr_get_nat by lia. cbn [bind].
    rewrite Heq. rewrite (skipn_nth_cons a k) by lia. cbn [is_power_of_two_loop].
    rewrite ?Z.gtb_ltb. destruct (1 <? ones + u_count_ones (nth k a 0)); [reflexivity|].
    split; [lia|]. split; [lia | reflexivity].
  - intros k [ones i] (-> & Hk & Heq) Hc. cond_false_in Hc.
    rewrite Heq. rewrite (skipn_all2 a) by lia. reflexivity.
  - split; [reflexivity|]. split; [lia | reflexivity].
  - lia.
Qed.

Lemma loops_is_zero w n a : 0 < w -> wf w n a ->
  forall fuel, (n <= fuel)%nat -> Loops.is_zero w (Z.of_nat n) fuel a = Done (is_zero a).
Proof.
  intros Hw [Ha _] fuel Hf. unfold Loops.is_zero.
  apply while_count_bind with (n := n) (k := 0%nat)
    (Inv := fun k i => i = Z.of_nat k /\ (k <= n)%nat /\ is_zero a = is_zero (skipn k a)).
  - intros k i (-> & Hk & Heq) Hc. cond_true_in Hc. split; [exact Hc|].
    rewrite arr_get_nat by lia. cbn [bind].
    rewrite Heq. rewrite (skipn_nth_cons a k) by lia. cbn [is_zero].
    destruct (nth k a 0 =? 0); cbn [negb]; [|reflexivity].
    split; [lia|]. split; [lia | reflexivity].
  - intros k i (-> & Hk & Heq) Hc. cond_false_in Hc.
    rewrite Heq. rewrite (skipn_all2 a) by lia. reflexivity.
  - split; [reflexivity|]. split; [lia | reflexivity].
  - lia.
Qed.

Lemma loops_is_one w n a : 0 < w -> wf w n a ->
  forall fuel, (n <= fuel)%nat -> Loops.is_one w (Z.of_nat n) fuel a = Done (is_one a).
Proof.
  intros Hw [Ha _] fuel Hf. unfold Loops.is_one.
  destruct a as [|d r].
  { cbn [length] in Ha. subst n. reflexivity. }
  cbn [length] in Ha. destruct (Z.eqb_spec (Z.of_nat n) 0) as [E|_]; [lia|].
  change 0 with (Z.of_nat 0) at 1. rewrite arr_get_nat by (cbn [length]; lia). cbn [bind nth is_one].
  destruct (d =? 1); cbn [negb]; [|reflexivity].
  apply while_count_bind with (n := n) (k := 1%nat)
    (Inv := fun k i => i = Z.of_nat k /\ (1 <= k <= n)%nat /\ is_zero r = is_zero (skipn k (d :: r))).
  - intros k i (-> & Hk & Heq) Hc. cond_true_in Hc. split; [exact Hc|].
    rewrite arr_get_nat by (cbn [length]; lia). cbn [bind].
    rewrite Heq. rewrite (skipn_nth_cons (d :: r) k) by (cbn [length]; lia). cbn [is_zero].
    destruct (nth k (d :: r) 0 =? 0); cbn [negb]; [|reflexivity].
    split; [lia|]. split; [lia | reflexivity].
  - intros k i (-> & Hk & Heq) Hc. cond_false_in Hc.
    rewrite Heq. rewrite (skipn_all2 (d :: r)) by (cbn [length]; lia). reflexivity.
  - split; [reflexivity|]. split; [lia | reflexivity].
  - lia.
Qed.

(* ---- all obligations of the group in one statement ---- *)
Theorem loops_C06_match_model w : 0 < w ->
  (forall n a b fuel, wf w n a -> wf w n b -> (n <= fuel)%nat ->
     Loops.bitand w (Z.of_nat n) fuel a b = Done (bitand a b)) /\
  (forall n a b fuel, wf w n a -> wf w n b -> (n <= fuel)%nat ->
     Loops.bitor w (Z.of_nat n) fuel a b = Done (bitor a b)) /\
  (forall n a b fuel, wf w n a -> wf w n b -> (n <= fuel)%nat ->
     Loops.bitxor w (Z.of_nat n) fuel a b = Done (bitxor a b)) /\
  (forall n a fuel, wf w n a -> (n <= fuel)%nat ->
     Loops.not_ w (Z.of_nat n) fuel a = Done (bitnot w a)) /\
  (forall n a b fuel, wf w n a -> wf w n b -> (n <= fuel)%nat ->
     Loops.eq_ w (Z.of_nat n) fuel a b = Done (eq_digits a b)) /\
  (forall n a b fuel, wf w n a -> wf w n b -> (n <= fuel)%nat ->
     Loops.cmp w (Z.of_nat n) fuel a b = Done (ucmp a b)) /\
  (forall n a fuel, wf w n a -> (n <= fuel)%nat ->
     Loops.count_ones w (Z.of_nat n) fuel a = Done (count_ones a)) /\
  (forall n a fuel, wf w n a -> (n <= fuel)%nat ->
     Loops.count_zeros w (Z.of_nat n) fuel a = Done (count_zeros w a)) /\
  (forall n a fuel, wf w n a -> (n <= fuel)%nat ->
     Loops.leading_zeros w (Z.of_nat n) fuel a = Done (leading_zeros w a)) /\
  (forall n a fuel, wf w n a -> (n <= fuel)%nat ->
     Loops.trailing_zeros w (Z.of_nat n) fuel a = Done (trailing_zeros w a)) /\
  (forall n a fuel, wf w n a -> (n <= fuel)%nat ->
     Loops.leading_ones w (Z.of_nat n) fuel a = Done (leading_ones w a)) /\
  (forall n a fuel, wf w n a -> (n <= fuel)%nat ->
     Loops.trailing_ones w (Z.of_nat n) fuel a = Done (trailing_ones w a)) /\
  (forall n a fuel, wf w n a -> (n <= fuel)%nat ->
     Loops.is_power_of_two w (Z.of_nat n) fuel a = Done (U_is_power_of_two a)) /\
  (forall n a fuel, wf w n a -> (n <= fuel)%nat ->
     Loops.is_zero w (Z.of_nat n) fuel a = Done (is_zero a)) /\
  (forall n a fuel, wf w n a -> (n <= fuel)%nat ->
     Loops.is_one w (Z.of_nat n) fuel a = Done (is_one a)).
Proof.
  intros Hw. repeat split; intros.
  - apply loops_bitand; assumption.
  - apply loops_bitor; assumption.
  - apply loops_bitxor; assumption.
  - apply loops_not; assumption.
  - apply loops_eq; assumption.
  - apply loops_cmp; assumption.
  - apply loops_count_ones; assumption.
  - apply loops_count_zeros; assumption.
  - apply loops_leading_zeros; assumption.
  - apply loops_trailing_zeros; assumption.
  - apply loops_leading_ones; assumption.
  - apply loops_trailing_ones; assumption.
  - apply loops_is_power_of_two; assumption.
  - apply loops_is_zero; assumption.
  - apply loops_is_one; assumption.
Qed.

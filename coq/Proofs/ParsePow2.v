(* Proofs/ParsePow2.v — the power-of-two branch (radix 2, 4, 16) of from_buf_radix_internal,
   at the level of the list D of input bytes (most significant first, sign removed). *)
From Bnum Require Import Base Prim.
From Bnum.Model Require Import Digit Core Shift AddSub Bits Parse.
From Bnum.Proofs Require Import ParseSpec ParseLoops ParseArith.

Lemma forallb_rev {A} (f : A -> bool) l : forallb f (rev l) = forallb f l.
Proof.
  induction l as [|x l IH]; [reflexivity|]. cbn [rev forallb]. rewrite forallb_app, IH. cbn [forallb].
  rewrite andb_true_r. apply andb_comm.
Qed.

Lemma forallb_firstn_true {A} (f : A -> bool) k l : forallb f l = true -> forallb f (firstn k l) = true.
Proof. rewrite (forallb_firstn_skipn f k l). intros H. apply andb_true_iff in H. tauto. Qed.
Lemma forallb_skipn_true {A} (f : A -> bool) k l : forallb f l = true -> forallb f (skipn k l) = true.
Proof. rewrite (forallb_firstn_skipn f k l). intros H. apply andb_true_iff in H. tauto. Qed.

Lemma Forall_rev' {A} (P : A -> Prop) l : Forall P l -> Forall P (rev l).
Proof. intros H. apply Forall_forall. intros x Hx. rewrite Forall_forall in H. apply H, in_rev. exact Hx. Qed.

Lemma valid_digits fs r v : Forall (fun b => 0 <= dig fs b) v -> forallb (okd fs r) v = true ->
  Forall (fun d => 0 <= d < r) (map (dig fs) v).
Proof.
  intros Hv Hok. apply Forall_forall. intros d Hd. apply in_map_iff in Hd. destruct Hd as (b & <- & Hb).
  rewrite Forall_forall in Hv. rewrite forallb_forall in Hok.
  specialize (Hv b Hb). specialize (Hok b Hb). unfold okd in Hok. apply Z.ltb_lt in Hok. lia.
Qed.

(* the zero digits stripped from the front are valid digits and do not change the value *)
Lemma strip_split fs r D : 0 < r ->
  exists z, D = z ++ strip_list fs D /\ Forall (fun b => dig fs b = 0) z /\
            forallb (okd fs r) D = forallb (okd fs r) (strip_list fs D) /\
            horner r (map (dig fs) D) = horner r (map (dig fs) (strip_list fs D)).
Proof.
  intros Hr. destruct (strip_list_suffix fs D) as (z & Hz & Hf). exists z. split; [exact Hz|]. split; [exact Hf|].
  split.
  - rewrite Hz at 1. rewrite forallb_app.
    replace (forallb (okd fs r) z) with true; [reflexivity|]. symmetry. apply forallb_forall. intros b Hb.
    rewrite Forall_forall in Hf. unfold okd. rewrite (Hf b Hb). apply Z.ltb_lt. lia.
  - rewrite Hz at 1. rewrite map_app. apply horner_zeros. apply Forall_forall. intros d Hd.
    apply in_map_iff in Hd. destruct Hd as (b & <- & Hb). rewrite Forall_forall in Hf. auto.
Qed.


(* arithmetic setting of the branch: radix = 2^lg, lg | w *)
Lemma pow2_setting w lg radix : 0 < lg -> radix = 2 ^ lg -> 0 < w -> w mod lg = 0 ->
  Z.log2 radix = lg /\ 0 < w / lg /\ w = lg * (w / lg) /\ 2 <= radix.
Proof.
  intros Hlg Hr Hw Hd. split; [subst radix; apply Z.log2_pow2; lia|].
  assert (E : w = lg * (w / lg)) by (apply Z_div_exact_full_2; lia).
  split; [|split; [exact E|]].
  - assert (0 <= w / lg) by (apply Z.div_pos; lia). nia.
  - subst radix. replace 2 with (2 ^ 1) at 1 by reflexivity. apply Z.pow_le_mono_r; lia.
Qed.

Lemma Mod_as_radix_pow w lg (n : nat) bdpd : 0 < lg -> 0 <= bdpd -> w = lg * bdpd ->
  Mod w n = (2 ^ lg) ^ (Z.of_nat n * bdpd).
Proof.
  intros Hlg Hb Hw. unfold Mod. rewrite <- Z.pow_mul_r by nia. f_equal. subst w. ring.
Qed.

Lemma pow2_list_valid fs be w n radix lg D :
  0 < lg -> radix = 2 ^ lg -> radix < 256 -> 0 < w -> w mod lg = 0 ->
  Forall (fun b => 0 <= dig fs b) D -> forallb (okd fs radix) D = true ->
  pow2_list fs be w n radix D =
    let v := horner radix (map (dig fs) D) in
    if v <? Mod w n then POk (digits_of w n v) else PErr PosOverflow.
Proof.
  intros Hlg Hr Hsm Hw Hdiv HD Hok.
  destruct (pow2_setting w lg radix Hlg Hr Hw Hdiv) as (Hlog & Hbd & Hwe & Hr2).
  destruct (strip_split fs radix D ltac:(lia)) as (z & Hz & Hzf & Hokz & Hval).
  cbv zeta. rewrite Hval. unfold pow2_list.
  set (D' := strip_list fs D) in *.
  assert (HD' : Forall (fun b => 0 <= dig fs b) D').
  { rewrite Hz in HD. apply Forall_app in HD. tauto. }
  assert (Hok' : forallb (okd fs radix) D' = true) by (rewrite <- Hokz; exact Hok).
  pose proof (valid_digits fs radix D' HD' Hok') as Hvd.
  rewrite Hlog. set (bdpd := w / lg) in *.
  rewrite (Z.mod_small radix 256) by lia.
  set (idl := Z.of_nat (length D')).
  assert (Hidl : 0 <= idl) by (unfold idl; lia).
  destruct (div_mod_bounds idl bdpd Hidl Hbd) as (Hdm & Hrem & Hfull).
  set (full := idl / bdpd) in *. set (rem := idl mod bdpd) in *.
  set (V := horner radix (map (dig fs) D')).
  pose proof (Mod_as_radix_pow w lg n bdpd Hlg ltac:(lia) Hwe) as HM. rewrite <- Hr in HM.
  pose proof (horner_bounds radix _ ltac:(lia) Hvd) as HVb. fold V in HVb. rewrite map_length in HVb. fold idl in HVb.
  destruct ((Z.of_nat n <? full) || ((full =? Z.of_nat n) && negb (rem =? 0))) eqn:Hov.
  - (* more significant digits than the type holds *)
    assert (Hwin : Z.of_nat n * bdpd < idl).
    { apply orb_true_iff in Hov. destruct Hov as [Hov|Hov].
      - apply Z.ltb_lt in Hov. nia.
      - apply andb_true_iff in Hov. destruct Hov as [H1 H2]. apply Z.eqb_eq in H1.
        apply negb_true_iff, Z.eqb_neq in H2. nia. }
    assert (HVM : Mod w n <= V).
    { pose proof (strip_list_head fs D) as Hh. fold D' in Hh.
      destruct D' as [|x t] eqn:ED'; [unfold idl in Hwin; cbn [length] in Hwin; nia|].
      cbn [map] in Hvd. inversion Hvd as [|d ds Hd Ht]; subst d ds.
      unfold V. cbn [map].
      pose proof (horner_lead radix (dig fs x) (map (dig fs) t) ltac:(lia) ltac:(lia) Ht) as Hl.
      rewrite map_length in Hl. rewrite HM.
      apply Z.le_trans with (radix ^ Z.of_nat (length t)); [|exact Hl].
      apply Z.pow_le_mono_r; [lia|]. unfold idl in Hwin. cbn [length] in Hwin. lia. }
    destruct (Z.ltb_spec V (Mod w n)); [lia|].
    unfold check_list.
    rewrite forallb_firstn_true; [reflexivity|]. destruct be; [exact Hok' | rewrite forallb_rev; exact Hok'].
  - (* the digits fit *)
    assert (Hfit : full <= Z.of_nat n /\ (full = Z.of_nat n -> rem = 0)).
    { apply orb_false_iff in Hov. destruct Hov as [H1 H2]. apply Z.ltb_ge in H1. split; [exact H1|].
      intros E. apply andb_false_iff in H2. destruct H2 as [H2|H2].
      - apply Z.eqb_neq in H2. lia.
      - apply negb_false_iff, Z.eqb_eq in H2. exact H2. }
    destruct Hfit as [Hf1 Hf2].
    assert (HVM : V < Mod w n).
    { rewrite HM. apply Z.lt_le_trans with (radix ^ idl); [lia|]. apply Z.pow_le_mono_r; [lia|]. nia. }
    destruct (Z.ltb_spec V (Mod w n)); [|lia].
    set (bd := Z.to_nat bdpd). set (fl := Z.to_nat (full * bdpd)).
    assert (Hokr : forallb (okd fs radix) (rev D') = true) by (rewrite forallb_rev; exact Hok').
    assert (HDr : Forall (fun b => 0 <= dig fs b) (rev D')) by (apply Forall_rev'; exact HD').
    set (v1 := firstn fl (rev D')). set (v2 := skipn fl (rev D')).
    assert (Hl1 : length v1 = (Z.to_nat full * bd)%nat).
    { unfold v1. rewrite firstn_length, rev_length. unfold fl, bd, idl in *. nia. }
    assert (Hl2 : Z.of_nat (length v2) = rem).
    { unfold v2. rewrite skipn_length, rev_length. unfold fl, idl in *. nia. }
    pose proof (pack_full_list_spec fs w lg bd Hlg ltac:(unfold bd; lia) (Z.to_nat full) v1 Hl1
                  (Forall_firstn _ _ _ HDr)) as Hpf.
    rewrite <- Hr in Hpf.
    assert (Hok1r : forallb (okd fs radix) v1 = true) by (apply forallb_firstn_true; exact Hokr).
    rewrite Hok1r in Hpf.
    destruct Hpf as (ds & Eds & Hwds & Huds). rewrite Eds. cbn [pbind].
    pose proof (pack_list_spec fs w lg v2 Hlg (Forall_skipn _ _ _ HDr) 0 0 ltac:(lia)) as Hpl.
    rewrite <- Hr in Hpl.
    assert (Hok2r : forallb (okd fs radix) v2 = true) by (apply forallb_skipn_true; exact Hokr).
    rewrite Hok2r in Hpl.
    rewrite Hpl; [|nia | rewrite Z.mul_0_l, Z.pow_0_r; lia]. cbn [pbind]. clear Hpl.
    set (last := 0 + 2 ^ (0 * lg) * uval lg (map (dig fs) v2)).
    assert (Hlast : last = uval lg (map (dig fs) v2)).
    { unfold last. rewrite Z.mul_0_l, Z.pow_0_r. lia. }
    assert (Hok2 : forallb (okd fs (2 ^ lg)) v2 = true) by (rewrite <- Hr; apply forallb_skipn_true; exact Hokr).
    pose proof (okd_digits_wf fs lg v2 Hlg (Forall_skipn _ _ _ HDr) Hok2) as Hw2.
    pose proof (uval_bounds lg _ _ ltac:(lia) Hw2) as Hb2. rewrite <- Hlast in Hb2.
    (* value written *)
    set (written := if rem =? 0 then ds else ds ++ [last]).
    assert (Hwr : exists k, (k <= n)%nat /\ wf w k written /\ uval w written = uval w ds + Mod w (Z.to_nat full) * last).
    { unfold written. destruct (Z.eqb_spec rem 0) as [E0|E0].
      - exists (Z.to_nat full). split; [lia|]. split; [exact Hwds|].
        assert (length v2 = 0%nat) by lia. destruct v2; [|discriminate].
        rewrite Hlast. cbn [map uval]. lia.
      - exists (Z.to_nat full + 1)%nat. split; [lia|]. split.
        + apply wf_app; [exact Hwds|]. apply wf_cons. split; [|apply wf_nil].
          unfold digit_ok, B. split; [lia|]. apply Z.lt_le_trans with (Mod lg (length v2)); [lia|].
          unfold Mod. apply Z.pow_le_mono_r; [lia|]. nia.
        + rewrite uval_app by lia. rewrite (wf_length _ _ _ Hwds). cbn [uval]. lia. }
    destruct Hwr as (k & Hk & Hwk & Huk).
    rewrite (wf_length _ _ _ Hwk).
    destruct (Nat.ltb_spec n k); [lia|].
    f_equal. symmetry. apply digits_of_unique; [lia| |].
    + replace n with (k + (n - k))%nat at 1 by lia. apply wf_app; [exact Hwk|]. apply wf_repeat0. lia.
    + rewrite uval_app by lia. unfold ZERO. rewrite uval_repeat0, Huk, Huds, Hlast.
      assert (HMf : Mod w (Z.to_nat full) = Mod lg (length (map (dig fs) v1))).
      { unfold Mod. f_equal. rewrite map_length, Hl1. unfold bd. nia. }
      rewrite HMf, Z.mul_0_r, Z.add_0_r, <- uval_app, <- map_app by lia.
      unfold v1, v2. rewrite firstn_skipn, map_rev, uval_rev_horner by lia.
      rewrite <- Hr. reflexivity.
Qed.

Lemma pow2_list_invalid fs be w n radix lg D :
  0 < lg -> radix = 2 ^ lg -> radix < 256 -> 0 < w -> w mod lg = 0 ->
  Forall (fun b => 0 <= dig fs b) D -> forallb (okd fs radix) D = false ->
  exists k, pow2_list fs be w n radix D = PErr k /\ (k = InvalidDigit \/ k = PosOverflow) /\
            (radix ^ Z.of_nat (length D) <= Mod w n -> k = InvalidDigit).
Proof.
  intros Hlg Hr Hsm Hw Hdiv HD Hok.
  destruct (pow2_setting w lg radix Hlg Hr Hw Hdiv) as (Hlog & Hbd & Hwe & Hr2).
  destruct (strip_split fs radix D ltac:(lia)) as (z & Hz & Hzf & Hokz & Hval).
  unfold pow2_list.
  set (D' := strip_list fs D) in *.
  assert (HD' : Forall (fun b => 0 <= dig fs b) D').
  { rewrite Hz in HD. apply Forall_app in HD. tauto. }
  assert (Hok' : forallb (okd fs radix) D' = false) by (rewrite <- Hokz; exact Hok).
  rewrite Hlog. set (bdpd := w / lg) in *.
  rewrite (Z.mod_small radix 256) by lia.
  set (idl := Z.of_nat (length D')).
  assert (Hidl : 0 <= idl) by (unfold idl; lia).
  assert (HidlD : idl <= Z.of_nat (length D)).
  { unfold idl. assert (length D = (length z + length D')%nat) by (rewrite Hz at 1; apply app_length). lia. }
  destruct (div_mod_bounds idl bdpd Hidl Hbd) as (Hdm & Hrem & Hfull).
  set (full := idl / bdpd) in *. set (rem := idl mod bdpd) in *.
  pose proof (Mod_as_radix_pow w lg n bdpd Hlg ltac:(lia) Hwe) as HM. rewrite <- Hr in HM.
  destruct ((Z.of_nat n <? full) || ((full =? Z.of_nat n) && negb (rem =? 0))) eqn:Hov.
  - assert (Hwin : Z.of_nat n * bdpd < idl).
    { apply orb_true_iff in Hov. destruct Hov as [Hov|Hov].
      - apply Z.ltb_lt in Hov. nia.
      - apply andb_true_iff in Hov. destruct Hov as [H1 H2]. apply Z.eqb_eq in H1.
        apply negb_true_iff, Z.eqb_neq in H2. nia. }
    assert (Hno : ~ radix ^ Z.of_nat (length D) <= Mod w n).
    { rewrite HM. intros Hle. apply (Z.pow_le_mono_r_iff radix) in Hle; nia. }
    unfold check_list.
    destruct (forallb (okd fs radix) (firstn (Z.to_nat (Z.of_nat n * bdpd)) (if be then D' else rev D'))); cbn [pbind].
    + exists PosOverflow. split; [reflexivity|]. split; [right; reflexivity | intros; contradiction].
    + exists InvalidDigit. split; [reflexivity|]. split; [left; reflexivity | reflexivity].
  - exists InvalidDigit. split; [|split; [left; reflexivity | reflexivity]].
    assert (Hfit : full <= Z.of_nat n /\ (full = Z.of_nat n -> rem = 0)).
    { apply orb_false_iff in Hov. destruct Hov as [H1 H2]. apply Z.ltb_ge in H1. split; [exact H1|].
      intros E. apply andb_false_iff in H2. destruct H2 as [H2|H2].
      - apply Z.eqb_neq in H2. lia.
      - apply negb_false_iff, Z.eqb_eq in H2. exact H2. }
    destruct Hfit as [Hf1 Hf2].
    set (bd := Z.to_nat bdpd). set (fl := Z.to_nat (full * bdpd)).
    assert (Hokr : forallb (okd fs radix) (rev D') = false) by (rewrite forallb_rev; exact Hok').
    assert (HDr : Forall (fun b => 0 <= dig fs b) (rev D')) by (apply Forall_rev'; exact HD').
    set (v1 := firstn fl (rev D')). set (v2 := skipn fl (rev D')).
    assert (Hl1 : length v1 = (Z.to_nat full * bd)%nat).
    { unfold v1. rewrite firstn_length, rev_length. unfold fl, bd, idl in *. nia. }
    assert (Hl2 : Z.of_nat (length v2) = rem).
    { unfold v2. rewrite skipn_length, rev_length. unfold fl, idl in *. nia. }
    rewrite (forallb_firstn_skipn _ fl) in Hokr. fold v1 v2 in Hokr.
    pose proof (pack_full_list_spec fs w lg bd Hlg ltac:(unfold bd; lia) (Z.to_nat full) v1 Hl1
                  (Forall_firstn _ _ _ HDr)) as Hpf.
    rewrite <- Hr in Hpf.
    destruct (forallb (okd fs radix) v1) eqn:E1.
    + destruct Hpf as (ds & Eds & _). rewrite Eds. cbn [pbind].
      cbn [andb] in Hokr.
      pose proof (pack_list_spec fs w lg v2 Hlg (Forall_skipn _ _ _ HDr) 0 0 ltac:(lia)) as Hpl.
      rewrite <- Hr in Hpl. rewrite Hokr in Hpl.
      rewrite Hpl; [reflexivity | nia | rewrite Z.mul_0_l, Z.pow_0_r; lia].
    + rewrite Hpf. reflexivity.
Qed.

(* Proofs/AddSub.v — C01: add / sub / neg / abs families are exact modulo 2^BITS
   in every overflow mode.  Main theorems about Model/AddSub.v. *)
From Bnum Require Import Base Prim.
From Bnum.Model Require Import Digit Core Shift AddSub.
From Bnum.Proofs Require Export AddSubLemmas Bitwise.

(* ================= 1. unsigned overflowing add / sub ================= *)

Theorem U_overflowing_add_ok w n a b : 0 < w -> wf w n a -> wf w n b ->
  let '(r, f) := U_overflowing_add w a b in
  wf w n r /\ uval w r = (uval w a + uval w b) mod Mod w n /\
  f = (Mod w n <=? uval w a + uval w b).
Proof.
  intros Hw Ha Hb. pose proof (add_loop_mod w n a b false ltac:(lia) Ha Hb) as H.
  unfold U_overflowing_add. destruct (add_loop w a b false) as [r f].
  cbn [b2z] in H. rewrite Z.add_0_r in H. exact H.
Qed.

Theorem U_overflowing_sub_ok w n a b : 0 < w -> wf w n a -> wf w n b ->
  let '(r, f) := U_overflowing_sub w a b in
  wf w n r /\ uval w r = (uval w a - uval w b) mod Mod w n /\
  f = (uval w a <? uval w b).
Proof.
  intros Hw Ha Hb. pose proof (sub_loop_mod w n a b false ltac:(lia) Ha Hb) as H.
  unfold U_overflowing_sub. destruct (sub_loop w a b false) as [r f].
  cbn [b2z] in H. rewrite Z.sub_0_r in H. destruct H as (Hr & Hv & Hf).
  split; [exact Hr|]. split; [exact Hv|]. rewrite Hf.
  destruct (Z.ltb_spec (uval w a - uval w b) 0), (Z.ltb_spec (uval w a) (uval w b)); try reflexivity; lia.
Qed.

(* ================= 2. add_signed, neg (unsigned) ================= *)

Theorem U_overflowing_add_signed_ok w n a b : 0 < w -> (0 < n)%nat -> wf w n a -> wf w n b ->
  let '(r, f) := U_overflowing_add_signed w a b in
  wf w n r /\ uval w r = (uval w a + sval w b) mod Mod w n /\
  f = negb (inU (Mod w n) (uval w a + sval w b)).
Proof.
  intros Hw Hn Ha Hb. destruct n as [|k]; [lia|].
  pose proof (U_overflowing_add_ok w _ a b Hw Ha Hb) as H.
  unfold U_overflowing_add_signed. destruct (U_overflowing_add w a b) as [r f].
  destruct H as (Hr & Hv & Hf). split; [exact Hr|].
  rewrite (is_negative_uval w k b Hw Hb). rewrite (sval_as_uval w _ b Hb).
  pose proof (uval_bounds w _ _ ltac:(lia) Ha). pose proof (uval_bounds w _ _ ltac:(lia) Hb).
  pose proof (Mod_even' w k Hw). set (M := Mod w (S k)) in *.
  unfold inU. subst f.
  destruct (Z.leb_spec (M / 2) (uval w b)); cbn [b2z].
  - split.
    + rewrite Hv. replace (uval w a + (uval w b - M * 1)) with (uval w a + uval w b + (-1) * M) by ring.
      rewrite Z_mod_plus_full. reflexivity.
    + split_ifs.
  - rewrite Z.mul_0_r, Z.sub_0_r. split; [exact Hv|]. split_ifs.
Qed.

Theorem U_overflowing_neg_ok w n a : 0 < w -> (0 < n)%nat -> wf w n a ->
  let '(r, f) := U_overflowing_neg w a in
  wf w n r /\ uval w r = (- uval w a) mod Mod w n /\
  f = negb (uval w a =? 0).
Proof.
  intros Hw Hn Ha. destruct n as [|k]; [lia|].
  unfold U_overflowing_neg. rewrite (wf_length _ _ _ Ha).
  pose proof (U_overflowing_add_ok w _ (bitnot w a) (ONE (S k)) Hw
                (bitnot_wf w _ a ltac:(lia) Ha) (ONE_wf w _ Hw)) as H.
  destruct (U_overflowing_add w (bitnot w a) (ONE (S k))) as [r c].
  destruct H as (Hr & Hv & Hf). split; [exact Hr|].
  rewrite (bitnot_uval w (S k)) in Hv, Hf by (assumption || lia). rewrite ONE_uval in Hv, Hf.
  pose proof (uval_bounds w _ _ ltac:(lia) Ha). set (M := Mod w (S k)) in *.
  split.
  - rewrite Hv. replace (M - 1 - uval w a + 1) with (- uval w a + 1 * M) by ring.
    apply Z_mod_plus_full.
  - subst c. destruct (Z.eqb_spec (uval w a) 0); split_ifs.
Qed.

(* ================= 3. carrying_add / borrowing_sub (unsigned) ================= *)

Theorem U_carrying_add_ok w n a b c : 0 < w -> (0 < n)%nat -> wf w n a -> wf w n b ->
  let '(r, f) := U_carrying_add w a b c in
  wf w n r /\ uval w r = (uval w a + uval w b + b2z c) mod Mod w n /\
  f = (Mod w n <=? uval w a + uval w b + b2z c).
Proof.
  intros Hw Hn Ha Hb. destruct n as [|k]; [lia|].
  pose proof (U_overflowing_add_ok w _ a b Hw Ha Hb) as H1.
  unfold U_carrying_add. rewrite (wf_length _ _ _ Ha).
  destruct (U_overflowing_add w a b) as [s1 o1]. destruct H1 as (Hr1 & Hv1 & Hf1).
  destruct c; cbn [b2z].
  - pose proof (U_overflowing_add_ok w _ s1 (ONE (S k)) Hw Hr1 (ONE_wf w _ Hw)) as H2.
    destruct (U_overflowing_add w s1 (ONE (S k))) as [s2 o2]. destruct H2 as (Hr2 & Hv2 & Hf2).
    split; [exact Hr2|]. rewrite ONE_uval in Hv2, Hf2.
    pose proof (uval_bounds w _ _ ltac:(lia) Ha). pose proof (uval_bounds w _ _ ltac:(lia) Hb).
    pose proof (Mod_pos w (S k) ltac:(lia)). set (M := Mod w (S k)) in *.
    rewrite Hv2, Hf2, Hf1, Hv1.
    destruct (Z.leb_spec M (uval w a + uval w b)).
    + rewrite (mod_up M (uval w a + uval w b)) by lia.
      rewrite (mod_up M (uval w a + uval w b + 1)) by lia.
      split; [rewrite Z.mod_small by lia; ring | split_ifs].
    + rewrite (Z.mod_small (uval w a + uval w b)) by lia. split; [reflexivity | split_ifs].
  - rewrite Z.add_0_r. auto.
Qed.

Theorem U_borrowing_sub_ok w n a b c : 0 < w -> (0 < n)%nat -> wf w n a -> wf w n b ->
  let '(r, f) := U_borrowing_sub w a b c in
  wf w n r /\ uval w r = (uval w a - uval w b - b2z c) mod Mod w n /\
  f = (uval w a <? uval w b + b2z c).
Proof.
  intros Hw Hn Ha Hb. destruct n as [|k]; [lia|].
  pose proof (U_overflowing_sub_ok w _ a b Hw Ha Hb) as H1.
  unfold U_borrowing_sub. rewrite (wf_length _ _ _ Ha).
  destruct (U_overflowing_sub w a b) as [s1 o1]. destruct H1 as (Hr1 & Hv1 & Hf1).
  destruct c; cbn [b2z].
  - pose proof (U_overflowing_sub_ok w _ s1 (ONE (S k)) Hw Hr1 (ONE_wf w _ Hw)) as H2.
    destruct (U_overflowing_sub w s1 (ONE (S k))) as [s2 o2]. destruct H2 as (Hr2 & Hv2 & Hf2).
    split; [exact Hr2|]. rewrite ONE_uval in Hv2, Hf2.
    pose proof (uval_bounds w _ _ ltac:(lia) Ha). pose proof (uval_bounds w _ _ ltac:(lia) Hb).
    pose proof (Mod_pos w (S k) ltac:(lia)). set (M := Mod w (S k)) in *.
    rewrite Hv2, Hf2, Hf1, Hv1.
    destruct (Z.ltb_spec (uval w a) (uval w b)).
    + rewrite (mod_down M (uval w a - uval w b)) by lia.
      rewrite (mod_down M (uval w a - uval w b - 1)) by lia.
      split; [rewrite Z.mod_small by lia; ring | split_ifs].
    + rewrite (Z.mod_small (uval w a - uval w b)) by lia. split; [reflexivity | split_ifs].
  - rewrite Z.sub_0_r, Z.add_0_r. auto.
Qed.

(* ================= 4. signed overflowing family ================= *)

Theorem I_overflowing_add_ok w n a b : 0 < w -> (0 < n)%nat -> wf w n a -> wf w n b ->
  let '(r, f) := I_overflowing_add w a b in
  wf w n r /\ sval w r = wrapS (Mod w n) (sval w a + sval w b) /\
  f = negb (inS (Mod w n) (sval w a + sval w b)).
Proof.
  intros Hw Hn Ha Hb. destruct n as [|k]; [lia|].
  pose proof (iadd_loop_spec w Hw k a b false Ha Hb) as H.
  unfold I_overflowing_add. destruct (iadd_loop w a b false) as [r f].
  cbn [b2z] in H. rewrite Z.add_0_r in H. exact H.
Qed.

Theorem I_overflowing_sub_ok w n a b : 0 < w -> (0 < n)%nat -> wf w n a -> wf w n b ->
  let '(r, f) := I_overflowing_sub w a b in
  wf w n r /\ sval w r = wrapS (Mod w n) (sval w a - sval w b) /\
  f = negb (inS (Mod w n) (sval w a - sval w b)).
Proof.
  intros Hw Hn Ha Hb. destruct n as [|k]; [lia|].
  pose proof (isub_loop_spec w Hw k a b false Ha Hb) as H.
  unfold I_overflowing_sub. destruct (isub_loop w a b false) as [r f].
  cbn [b2z] in H. rewrite Z.sub_0_r in H. exact H.
Qed.

Theorem I_overflowing_neg_ok w n a : 0 < w -> (0 < n)%nat -> wf w n a ->
  let '(r, f) := I_overflowing_neg w a in
  wf w n r /\ sval w r = wrapS (Mod w n) (- sval w a) /\
  f = negb (inS (Mod w n) (- sval w a)).
Proof.
  intros Hw Hn Ha. destruct n as [|k]; [lia|].
  exact (ineg_loop_spec w Hw k a Ha).
Qed.

Theorem I_overflowing_abs_ok w n a : 0 < w -> (0 < n)%nat -> wf w n a ->
  let '(r, f) := I_overflowing_abs w a in
  wf w n r /\ sval w r = wrapS (Mod w n) (Z.abs (sval w a)) /\
  f = negb (inS (Mod w n) (Z.abs (sval w a))).
Proof.
  intros Hw Hn Ha. destruct n as [|k]; [lia|].
  unfold I_overflowing_abs. rewrite (is_negative_spec w k a Hw Ha).
  destruct (Z.ltb_spec (sval w a) 0).
  - rewrite Z.abs_neq by lia. exact (ineg_loop_spec w Hw k a Ha).
  - rewrite Z.abs_eq by lia.
    pose proof (sval_range w (S k) a Hw ltac:(lia) Ha). pose proof (Mod_even' w k Hw).
    split; [exact Ha|]. split.
    + symmetry. apply wrapS_id; [apply Mod_pos; lia | assumption | assumption].
    + symmetry. apply negb_inS_false; assumption.
Qed.

Theorem I_overflowing_add_unsigned_ok w n a b : 0 < w -> (0 < n)%nat -> wf w n a -> wf w n b ->
  let '(r, f) := I_overflowing_add_unsigned w a b in
  wf w n r /\ sval w r = wrapS (Mod w n) (sval w a + uval w b) /\
  f = negb (inS (Mod w n) (sval w a + uval w b)).
Proof.
  intros Hw Hn Ha Hb.
  pose proof (I_overflowing_add_ok w n a b Hw Hn Ha Hb) as H.
  destruct n as [|k]; [lia|].
  unfold I_overflowing_add_unsigned. destruct (I_overflowing_add w a b) as [r f].
  destruct H as (Hr & Hv & Hf). split; [exact Hr|].
  rewrite (is_negative_uval w k b Hw Hb). rewrite (sval_as_uval w _ b Hb) in Hv, Hf.
  pose proof (sval_range w (S k) a Hw ltac:(lia) Ha). pose proof (uval_bounds w _ _ ltac:(lia) Hb).
  pose proof (Mod_even' w k Hw). pose proof (Mod_pos w (S k) ltac:(lia)). set (M := Mod w (S k)) in *.
  destruct (Z.leb_spec (M / 2) (uval w b)); cbn [b2z] in *.
  - split.
    + rewrite Hv. replace (sval w a + (uval w b - M * 1)) with (sval w a + uval w b + (-1) * M) by ring.
      apply wrapS_shift. lia.
    + subst f. unfold inS. split_ifs.
  - rewrite Z.mul_0_r, Z.sub_0_r in Hv, Hf. split; [exact Hv|]. subst f. destruct (inS M _); reflexivity.
Qed.

Theorem I_overflowing_sub_unsigned_ok w n a b : 0 < w -> (0 < n)%nat -> wf w n a -> wf w n b ->
  let '(r, f) := I_overflowing_sub_unsigned w a b in
  wf w n r /\ sval w r = wrapS (Mod w n) (sval w a - uval w b) /\
  f = negb (inS (Mod w n) (sval w a - uval w b)).
Proof.
  intros Hw Hn Ha Hb.
  pose proof (I_overflowing_sub_ok w n a b Hw Hn Ha Hb) as H.
  destruct n as [|k]; [lia|].
  unfold I_overflowing_sub_unsigned. destruct (I_overflowing_sub w a b) as [r f].
  destruct H as (Hr & Hv & Hf). split; [exact Hr|].
  rewrite (is_negative_uval w k b Hw Hb). rewrite (sval_as_uval w _ b Hb) in Hv, Hf.
  pose proof (sval_range w (S k) a Hw ltac:(lia) Ha). pose proof (uval_bounds w _ _ ltac:(lia) Hb).
  pose proof (Mod_even' w k Hw). pose proof (Mod_pos w (S k) ltac:(lia)). set (M := Mod w (S k)) in *.
  destruct (Z.leb_spec (M / 2) (uval w b)); cbn [b2z] in *.
  - split.
    + rewrite Hv. replace (sval w a - (uval w b - M * 1)) with (sval w a - uval w b + 1 * M) by ring.
      apply wrapS_shift. lia.
    + subst f. unfold inS. split_ifs.
  - rewrite Z.mul_0_r, Z.sub_0_r in Hv, Hf. split; [exact Hv|]. subst f. destruct (inS M _); reflexivity.
Qed.

Theorem I_carrying_add_ok w n a b c : 0 < w -> 1 < bits w n -> wf w n a -> wf w n b ->
  let '(r, f) := I_carrying_add w a b c in
  wf w n r /\ sval w r = wrapS (Mod w n) (sval w a + sval w b + b2z c) /\
  f = negb (inS (Mod w n) (sval w a + sval w b + b2z c)).
Proof.
  intros Hw Hbits Ha Hb.
  destruct n as [|k]; [unfold bits in Hbits; lia|].
  pose proof (I_overflowing_add_ok w (S k) a b Hw ltac:(lia) Ha Hb) as H1.
  unfold I_carrying_add. rewrite (wf_length _ _ _ Ha).
  destruct (I_overflowing_add w a b) as [s1 o1]. destruct H1 as (Hr1 & Hv1 & Hf1).
  pose proof (Mod_even' w k Hw). pose proof (Mod_pos w (S k) ltac:(lia)).
  pose proof (signed_step_add (Mod w (S k)) (sval w a) (sval w b) c ltac:(lia) ltac:(assumption)
                (sval_range w (S k) a Hw ltac:(lia) Ha) (sval_range w (S k) b Hw ltac:(lia) Hb)) as E.
  destruct c.
  - pose proof (I_overflowing_add_ok w (S k) s1 (ONE (S k)) Hw ltac:(lia) Hr1 (ONE_wf w _ Hw)) as H2.
    destruct (I_overflowing_add w s1 (ONE (S k))) as [s2 o2]. destruct H2 as (Hr2 & Hv2 & Hf2).
    rewrite (ONE_sval w k Hw Hbits) in Hv2, Hf2. rewrite Hv1 in Hv2, Hf2.
    injection E as E1 E2.
    split; [exact Hr2|]. split; [rewrite Hv2; exact E1 | rewrite Hf1, Hf2; exact E2].
  - injection E as E1 E2.
    split; [exact Hr1|]. split; [rewrite Hv1; exact E1 | rewrite Hf1; exact E2].
Qed.

Theorem I_borrowing_sub_ok w n a b c : 0 < w -> 1 < bits w n -> wf w n a -> wf w n b ->
  let '(r, f) := I_borrowing_sub w a b c in
  wf w n r /\ sval w r = wrapS (Mod w n) (sval w a - sval w b - b2z c) /\
  f = negb (inS (Mod w n) (sval w a - sval w b - b2z c)).
Proof.
  intros Hw Hbits Ha Hb.
  destruct n as [|k]; [unfold bits in Hbits; lia|].
  pose proof (I_overflowing_sub_ok w (S k) a b Hw ltac:(lia) Ha Hb) as H1.
  unfold I_borrowing_sub. rewrite (wf_length _ _ _ Ha).
  destruct (I_overflowing_sub w a b) as [s1 o1]. destruct H1 as (Hr1 & Hv1 & Hf1).
  pose proof (Mod_even' w k Hw). pose proof (Mod_pos w (S k) ltac:(lia)).
  pose proof (signed_step_sub (Mod w (S k)) (sval w a) (sval w b) c ltac:(lia) ltac:(assumption)
                (sval_range w (S k) a Hw ltac:(lia) Ha) (sval_range w (S k) b Hw ltac:(lia) Hb)) as E.
  destruct c.
  - pose proof (I_overflowing_sub_ok w (S k) s1 (ONE (S k)) Hw ltac:(lia) Hr1 (ONE_wf w _ Hw)) as H2.
    destruct (I_overflowing_sub w s1 (ONE (S k))) as [s2 o2]. destruct H2 as (Hr2 & Hv2 & Hf2).
    rewrite (ONE_sval w k Hw Hbits) in Hv2, Hf2. rewrite Hv1 in Hv2, Hf2.
    injection E as E1 E2.
    split; [exact Hr2|]. split; [rewrite Hv2; exact E1 | rewrite Hf1, Hf2; exact E2].
  - injection E as E1 E2.
    split; [exact Hr1|]. split; [rewrite Hv1; exact E1 | rewrite Hf1; exact E2].
Qed.

(* ================= 5. projections ================= *)

Lemma uval_of_sval w n r : 0 < w -> wf w n r -> uval w r = sval w r mod Mod w n.
Proof.
  intros Hw Hr. rewrite (sval_mod w n r Hw Hr). symmetry. apply Z.mod_small.
  apply uval_bounds; [lia | exact Hr].
Qed.

Lemma sval_inj w n a b : 0 < w -> wf w n a -> wf w n b -> sval w a = sval w b -> a = b.
Proof.
  intros Hw Ha Hb E. apply (uval_inj w n); [lia | assumption | assumption |].
  rewrite (uval_of_sval w n a), (uval_of_sval w n b) by assumption. rewrite E. reflexivity.
Qed.

Lemma add_mod_signed w n a b : 0 < w -> wf w n a -> wf w n b ->
  (sval w a + sval w b) mod Mod w n = (uval w a + uval w b) mod Mod w n.
Proof.
  intros Hw Ha Hb. pose proof (Mod_pos w n ltac:(lia)).
  rewrite Z.add_mod, (sval_mod w n a), (sval_mod w n b), <- Z.add_mod by (assumption || lia). reflexivity.
Qed.

Lemma sub_mod_signed w n a b : 0 < w -> wf w n a -> wf w n b ->
  (sval w a - sval w b) mod Mod w n = (uval w a - uval w b) mod Mod w n.
Proof.
  intros Hw Ha Hb. pose proof (Mod_pos w n ltac:(lia)).
  rewrite Zminus_mod, (sval_mod w n a), (sval_mod w n b), <- Zminus_mod by (assumption || lia). reflexivity.
Qed.

(* BInt::wrapping_add / wrapping_sub run the unsigned loop: same digits as the signed loop *)
Theorem I_wrapping_add_eq w n a b : 0 < w -> (0 < n)%nat -> wf w n a -> wf w n b ->
  I_wrapping_add w a b = fst (I_overflowing_add w a b).
Proof.
  intros Hw Hn Ha Hb.
  pose proof (I_overflowing_add_ok w n a b Hw Hn Ha Hb) as HI.
  pose proof (U_overflowing_add_ok w n a b Hw Ha Hb) as HU.
  unfold I_wrapping_add, U_wrapping_add.
  destruct (I_overflowing_add w a b) as [ri fi]. destruct (U_overflowing_add w a b) as [ru fu].
  cbn [fst]. destruct HI as (Hri & Hvi & _). destruct HU as (Hru & Hvu & _).
  apply (uval_inj w n); [lia | assumption | assumption |].
  rewrite Hvu, (uval_of_sval w n ri Hw Hri), Hvi.
  rewrite wrapS_mod by (apply Mod_pos; lia). symmetry. apply add_mod_signed; assumption.
Qed.

Theorem I_wrapping_sub_eq w n a b : 0 < w -> (0 < n)%nat -> wf w n a -> wf w n b ->
  I_wrapping_sub w a b = fst (I_overflowing_sub w a b).
Proof.
  intros Hw Hn Ha Hb.
  pose proof (I_overflowing_sub_ok w n a b Hw Hn Ha Hb) as HI.
  pose proof (U_overflowing_sub_ok w n a b Hw Ha Hb) as HU.
  unfold I_wrapping_sub, U_wrapping_sub.
  destruct (I_overflowing_sub w a b) as [ri fi]. destruct (U_overflowing_sub w a b) as [ru fu].
  cbn [fst]. destruct HI as (Hri & Hvi & _). destruct HU as (Hru & Hvu & _).
  apply (uval_inj w n); [lia | assumption | assumption |].
  rewrite Hvu, (uval_of_sval w n ri Hw Hri), Hvi.
  rewrite wrapS_mod by (apply Mod_pos; lia). symmetry. apply sub_mod_signed; assumption.
Qed.

Theorem U_add_projections w a b dbg :
  let '(r, f) := U_overflowing_add w a b in
  U_checked_add w a b = (if f then None else Some r) /\
  U_wrapping_add w a b = r /\
  U_strict_add w a b = (if f then Panic else Ret r) /\
  U_add dbg w a b = (if f then (if dbg then Panic else Ret r) else Ret r).
Proof.
  unfold U_add, U_strict_add, U_checked_add, U_wrapping_add, tuple_to_option, option_expect.
  destruct (U_overflowing_add w a b) as [r f]. cbn [fst snd].
  destruct f, dbg; repeat split; reflexivity.
Qed.

Theorem U_sub_projections w a b dbg :
  let '(r, f) := U_overflowing_sub w a b in
  U_checked_sub w a b = (if f then None else Some r) /\
  U_wrapping_sub w a b = r /\
  U_strict_sub w a b = (if f then Panic else Ret r) /\
  U_sub dbg w a b = (if f then (if dbg then Panic else Ret r) else Ret r).
Proof.
  unfold U_sub, U_strict_sub, U_checked_sub, U_wrapping_sub, tuple_to_option, option_expect.
  destruct (U_overflowing_sub w a b) as [r f]. cbn [fst snd].
  destruct f, dbg; repeat split; reflexivity.
Qed.

Theorem U_add_signed_projections w a b :
  let '(r, f) := U_overflowing_add_signed w a b in
  U_checked_add_signed w a b = (if f then None else Some r) /\
  U_wrapping_add_signed w a b = r.
Proof.
  unfold U_checked_add_signed, U_wrapping_add_signed, tuple_to_option.
  destruct (U_overflowing_add_signed w a b) as [r f]. cbn [fst snd]. split; reflexivity.
Qed.

(* checked_neg is coded as `if self.is_zero() { Some(self) } else { None }` *)
Theorem U_checked_neg_zero w n a : 0 < w -> wf w n a ->
  U_checked_neg a = (if uval w a =? 0 then Some a else None).
Proof.
  intros Hw Ha. unfold U_checked_neg. rewrite (is_zero_spec w ltac:(lia) n a Ha). reflexivity.
Qed.

Theorem U_neg_projections w n a : 0 < w -> (0 < n)%nat -> wf w n a ->
  let '(r, f) := U_overflowing_neg w a in
  U_checked_neg a = (if f then None else Some r) /\
  U_wrapping_neg w a = r /\
  U_strict_neg a = (if f then Panic else Ret r).
Proof.
  intros Hw Hn Ha. pose proof (U_overflowing_neg_ok w n a Hw Hn Ha) as H.
  unfold U_strict_neg, U_wrapping_neg. rewrite (U_checked_neg_zero w n a Hw Ha).
  destruct (U_overflowing_neg w a) as [r f]. cbn [fst]. destruct H as (Hr & Hv & Hf).
  subst f. destruct (Z.eqb_spec (uval w a) 0) as [E|NE]; cbn [negb option_expect].
  - assert (r = a).
    { apply (uval_inj w n); [lia | assumption | assumption |].
      rewrite Hv, E. apply Z.mod_0_l. pose proof (Mod_pos w n); lia. }
    subst r. repeat split; reflexivity.
  - repeat split; reflexivity.
Qed.

Theorem I_add_projections w n a b dbg : 0 < w -> (0 < n)%nat -> wf w n a -> wf w n b ->
  let '(r, f) := I_overflowing_add w a b in
  I_checked_add w a b = (if f then None else Some r) /\
  I_wrapping_add w a b = r /\
  I_strict_add w a b = (if f then Panic else Ret r) /\
  I_add dbg w a b = (if f then (if dbg then Panic else Ret r) else Ret r).
Proof.
  intros Hw Hn Ha Hb. pose proof (I_wrapping_add_eq w n a b Hw Hn Ha Hb) as E.
  unfold I_add, I_strict_add, I_checked_add, tuple_to_option, option_expect. rewrite E.
  destruct (I_overflowing_add w a b) as [r f]. cbn [fst snd].
  destruct f, dbg; repeat split; reflexivity.
Qed.

Theorem I_sub_projections w n a b dbg : 0 < w -> (0 < n)%nat -> wf w n a -> wf w n b ->
  let '(r, f) := I_overflowing_sub w a b in
  I_checked_sub w a b = (if f then None else Some r) /\
  I_wrapping_sub w a b = r /\
  I_strict_sub w a b = (if f then Panic else Ret r) /\
  I_sub dbg w a b = (if f then (if dbg then Panic else Ret r) else Ret r).
Proof.
  intros Hw Hn Ha Hb. pose proof (I_wrapping_sub_eq w n a b Hw Hn Ha Hb) as E.
  unfold I_sub, I_strict_sub, I_checked_sub, tuple_to_option, option_expect. rewrite E.
  destruct (I_overflowing_sub w a b) as [r f]. cbn [fst snd].
  destruct f, dbg; repeat split; reflexivity.
Qed.

Theorem I_neg_projections w a dbg :
  let '(r, f) := I_overflowing_neg w a in
  I_checked_neg w a = (if f then None else Some r) /\
  I_wrapping_neg w a = r /\
  I_strict_neg w a = (if f then Panic else Ret r) /\
  I_neg dbg w a = (if f then (if dbg then Panic else Ret r) else Ret r).
Proof.
  unfold I_neg, I_strict_neg, I_checked_neg, I_wrapping_neg, tuple_to_option, option_expect.
  destruct (I_overflowing_neg w a) as [r f]. cbn [fst snd].
  destruct f, dbg; repeat split; reflexivity.
Qed.

Lemma wrapS_half M : 0 < M -> M = 2 * (M / 2) -> wrapS M (M / 2) = - (M / 2).
Proof.
  intros HM He. replace (M / 2) with (- (M / 2) + 1 * M) at 1 by lia.
  rewrite wrapS_shift by lia. apply wrapS_id; lia.
Qed.

(* in release builds `abs` returns MIN for MIN: that IS the wrapped value *)
Theorem I_abs_projections w n a dbg : 0 < w -> (0 < n)%nat -> wf w n a ->
  let '(r, f) := I_overflowing_abs w a in
  I_checked_abs w a = (if f then None else Some r) /\
  I_wrapping_abs w a = r /\
  I_strict_abs w a = (if f then Panic else Ret r) /\
  I_abs dbg w a = (if f then (if dbg then Panic else Ret r) else Ret r).
Proof.
  intros Hw Hn Ha. pose proof (I_overflowing_abs_ok w n a Hw Hn Ha) as H.
  unfold I_abs, I_strict_abs, I_checked_abs, I_wrapping_abs, tuple_to_option, option_expect.
  destruct (I_overflowing_abs w a) as [r f]. cbn [fst snd]. destruct H as (Hr & Hv & Hf).
  destruct f.
  - assert (E : IMIN w (length a) = r).
    { destruct n as [|k]; [lia|]. rewrite (wf_length _ _ _ Ha).
      apply (sval_inj w (S k)); [assumption | apply IMIN_wf; assumption | assumption |].
      rewrite IMIN_sval by assumption. rewrite Hv.
      pose proof (sval_range w (S k) a Hw ltac:(lia) Ha) as HR.
      pose proof (Mod_even' w k Hw) as HE. pose proof (Mod_pos w (S k) ltac:(lia)) as HM.
      symmetry in Hf. apply negb_true_iff, inS_false in Hf.
      assert (Z.abs (sval w a) = Mod w (S k) / 2) as -> by lia.
      symmetry. apply wrapS_half; assumption. }
    rewrite E. destruct dbg; repeat split; reflexivity.
  - destruct dbg; repeat split; reflexivity.
Qed.

Theorem I_add_unsigned_projections w a b :
  let '(r, f) := I_overflowing_add_unsigned w a b in
  I_checked_add_unsigned w a b = (if f then None else Some r) /\
  I_wrapping_add_unsigned w a b = r.
Proof.
  unfold I_checked_add_unsigned, I_wrapping_add_unsigned, tuple_to_option.
  destruct (I_overflowing_add_unsigned w a b) as [r f]. cbn [fst snd]. split; reflexivity.
Qed.

Theorem I_sub_unsigned_projections w a b :
  let '(r, f) := I_overflowing_sub_unsigned w a b in
  I_checked_sub_unsigned w a b = (if f then None else Some r) /\
  I_wrapping_sub_unsigned w a b = r.
Proof.
  unfold I_checked_sub_unsigned, I_wrapping_sub_unsigned, tuple_to_option.
  destruct (I_overflowing_sub_unsigned w a b) as [r f]. cbn [fst snd]. split; reflexivity.
Qed.

(* ================= 6. saturating ================= *)

Lemma flag_false_exact M X : 0 < M -> M = 2 * (M / 2) -> false = negb (inS M X) ->
  - (M / 2) <= X < M / 2 /\ wrapS M X = X.
Proof.
  intros HM He Hf. symmetry in Hf. apply negb_false_iff, inS_true in Hf.
  split; [exact Hf | apply wrapS_id; assumption].
Qed.

Lemma flag_true_out M X : true = negb (inS M X) -> X < - (M / 2) \/ M / 2 <= X.
Proof. intros Hf. symmetry in Hf. apply negb_true_iff, inS_false in Hf. exact Hf. Qed.

Theorem U_saturating_add_ok w n a b : 0 < w -> wf w n a -> wf w n b ->
  wf w n (U_saturating_add w a b) /\
  uval w (U_saturating_add w a b) = Z.min (Mod w n - 1) (uval w a + uval w b).
Proof.
  intros Hw Ha Hb. pose proof (U_overflowing_add_ok w n a b Hw Ha Hb) as H.
  unfold U_saturating_add, saturate_up. destruct (U_overflowing_add w a b) as [r f].
  cbn [fst snd]. destruct H as (Hr & Hv & Hf).
  pose proof (uval_bounds w _ _ ltac:(lia) Ha). pose proof (uval_bounds w _ _ ltac:(lia) Hb).
  destruct f.
  - rewrite (wf_length _ _ _ Hr). split; [apply UMAX_wf; lia|]. rewrite UMAX_uval by lia.
    symmetry in Hf. apply Z.leb_le in Hf. lia.
  - split; [exact Hr|]. symmetry in Hf. apply Z.leb_gt in Hf. rewrite Hv, Z.mod_small by lia. lia.
Qed.

Theorem U_saturating_sub_ok w n a b : 0 < w -> wf w n a -> wf w n b ->
  wf w n (U_saturating_sub w a b) /\
  uval w (U_saturating_sub w a b) = Z.max 0 (uval w a - uval w b).
Proof.
  intros Hw Ha Hb. pose proof (U_overflowing_sub_ok w n a b Hw Ha Hb) as H.
  unfold U_saturating_sub, saturate_down. destruct (U_overflowing_sub w a b) as [r f].
  cbn [fst snd]. destruct H as (Hr & Hv & Hf).
  pose proof (uval_bounds w _ _ ltac:(lia) Ha). pose proof (uval_bounds w _ _ ltac:(lia) Hb).
  destruct f.
  - rewrite (wf_length _ _ _ Hr). split; [apply ZERO_wf; lia|]. rewrite ZERO_uval.
    symmetry in Hf. apply Z.ltb_lt in Hf. lia.
  - split; [exact Hr|]. symmetry in Hf. apply Z.ltb_ge in Hf. rewrite Hv, Z.mod_small by lia. lia.
Qed.

Theorem U_saturating_add_signed_ok w n a b : 0 < w -> (0 < n)%nat -> wf w n a -> wf w n b ->
  wf w n (U_saturating_add_signed w a b) /\
  uval w (U_saturating_add_signed w a b) = Z.max 0 (Z.min (Mod w n - 1) (uval w a + sval w b)).
Proof.
  intros Hw Hn Ha Hb. pose proof (U_overflowing_add_signed_ok w n a b Hw Hn Ha Hb) as H.
  destruct n as [|k]; [lia|].
  unfold U_saturating_add_signed, saturate_up, saturate_down.
  rewrite (is_negative_spec w k b Hw Hb).
  destruct (U_overflowing_add_signed w a b) as [r f].
  cbn [fst snd]. destruct H as (Hr & Hv & Hf).
  pose proof (uval_bounds w _ _ ltac:(lia) Ha). pose proof (sval_range w (S k) b Hw ltac:(lia) Hb).
  pose proof (Mod_even' w k Hw). set (M := Mod w (S k)) in *.
  assert (HX : f = false -> 0 <= uval w a + sval w b < M).
  { intros ->. symmetry in Hf. apply negb_false_iff, inU_true in Hf. exact Hf. }
  assert (HY : f = true -> uval w a + sval w b < 0 \/ M <= uval w a + sval w b).
  { intros ->. symmetry in Hf. apply negb_true_iff in Hf. unfold inU in Hf.
    apply andb_false_iff in Hf. rewrite Z.leb_gt, Z.ltb_ge in Hf. exact Hf. }
  destruct (Z.ltb_spec (sval w b) 0); destruct f.
  - rewrite (wf_length _ _ _ Hr). split; [apply ZERO_wf; lia|]. rewrite ZERO_uval.
    specialize (HY eq_refl). lia.
  - split; [exact Hr|]. specialize (HX eq_refl). rewrite Hv, Z.mod_small by lia. lia.
  - rewrite (wf_length _ _ _ Hr). split; [apply UMAX_wf; lia|]. rewrite UMAX_uval by lia.
    specialize (HY eq_refl). fold M. lia.
  - split; [exact Hr|]. specialize (HX eq_refl). rewrite Hv, Z.mod_small by lia. lia.
Qed.

Theorem I_saturating_add_ok w n a b : 0 < w -> (0 < n)%nat -> wf w n a -> wf w n b ->
  wf w n (I_saturating_add w a b) /\
  sval w (I_saturating_add w a b) = Z.max (- (Mod w n / 2)) (Z.min (Mod w n / 2 - 1) (sval w a + sval w b)).
Proof.
  intros Hw Hn Ha Hb. pose proof (I_overflowing_add_ok w n a b Hw Hn Ha Hb) as H.
  destruct n as [|k]; [lia|].
  unfold I_saturating_add, I_checked_add, tuple_to_option, sat_by_sign.
  destruct (I_overflowing_add w a b) as [r f]. cbn [fst snd]. destruct H as (Hr & Hv & Hf).
  pose proof (sval_range w (S k) a Hw ltac:(lia) Ha). pose proof (sval_range w (S k) b Hw ltac:(lia) Hb).
  pose proof (Mod_even' w k Hw) as HE. pose proof (Mod_pos w (S k) ltac:(lia)) as HM.
  destruct f.
  - apply flag_true_out in Hf. rewrite (is_negative_spec w k a Hw Ha), (wf_length _ _ _ Ha).
    destruct (Z.ltb_spec (sval w a) 0).
    + split; [apply IMIN_wf; auto|]. rewrite IMIN_sval by auto. lia.
    + split; [apply IMAX_wf; auto|]. rewrite IMAX_sval by auto. lia.
  - apply flag_false_exact in Hf; try assumption. destruct Hf as [Hin Hw'].
    split; [exact Hr|]. rewrite Hv, Hw'. lia.
Qed.

Theorem I_saturating_sub_ok w n a b : 0 < w -> (0 < n)%nat -> wf w n a -> wf w n b ->
  wf w n (I_saturating_sub w a b) /\
  sval w (I_saturating_sub w a b) = Z.max (- (Mod w n / 2)) (Z.min (Mod w n / 2 - 1) (sval w a - sval w b)).
Proof.
  intros Hw Hn Ha Hb. pose proof (I_overflowing_sub_ok w n a b Hw Hn Ha Hb) as H.
  destruct n as [|k]; [lia|].
  unfold I_saturating_sub, I_checked_sub, tuple_to_option, sat_by_sign.
  destruct (I_overflowing_sub w a b) as [r f]. cbn [fst snd]. destruct H as (Hr & Hv & Hf).
  pose proof (sval_range w (S k) a Hw ltac:(lia) Ha). pose proof (sval_range w (S k) b Hw ltac:(lia) Hb).
  pose proof (Mod_even' w k Hw) as HE. pose proof (Mod_pos w (S k) ltac:(lia)) as HM.
  destruct f.
  - apply flag_true_out in Hf. rewrite (is_negative_spec w k a Hw Ha), (wf_length _ _ _ Ha).
    destruct (Z.ltb_spec (sval w a) 0).
    + split; [apply IMIN_wf; auto|]. rewrite IMIN_sval by auto. lia.
    + split; [apply IMAX_wf; auto|]. rewrite IMAX_sval by auto. lia.
  - apply flag_false_exact in Hf; try assumption. destruct Hf as [Hin Hw'].
    split; [exact Hr|]. rewrite Hv, Hw'. lia.
Qed.

Theorem I_saturating_add_unsigned_ok w n a b : 0 < w -> (0 < n)%nat -> wf w n a -> wf w n b ->
  wf w n (I_saturating_add_unsigned w a b) /\
  sval w (I_saturating_add_unsigned w a b) = Z.max (- (Mod w n / 2)) (Z.min (Mod w n / 2 - 1) (sval w a + uval w b)).
Proof.
  intros Hw Hn Ha Hb. pose proof (I_overflowing_add_unsigned_ok w n a b Hw Hn Ha Hb) as H.
  destruct n as [|k]; [lia|].
  unfold I_saturating_add_unsigned, I_checked_add_unsigned, tuple_to_option.
  destruct (I_overflowing_add_unsigned w a b) as [r f]. cbn [fst snd]. destruct H as (Hr & Hv & Hf).
  pose proof (sval_range w (S k) a Hw ltac:(lia) Ha). pose proof (uval_bounds w _ _ ltac:(lia) Hb).
  pose proof (Mod_even' w k Hw) as HE. pose proof (Mod_pos w (S k) ltac:(lia)) as HM.
  destruct f.
  - apply flag_true_out in Hf. rewrite (wf_length _ _ _ Ha).
    split; [apply IMAX_wf; auto|]. rewrite IMAX_sval by auto. lia.
  - apply flag_false_exact in Hf; try assumption. destruct Hf as [Hin Hw'].
    split; [exact Hr|]. rewrite Hv, Hw'. lia.
Qed.

Theorem I_saturating_sub_unsigned_ok w n a b : 0 < w -> (0 < n)%nat -> wf w n a -> wf w n b ->
  wf w n (I_saturating_sub_unsigned w a b) /\
  sval w (I_saturating_sub_unsigned w a b) = Z.max (- (Mod w n / 2)) (Z.min (Mod w n / 2 - 1) (sval w a - uval w b)).
Proof.
  intros Hw Hn Ha Hb. pose proof (I_overflowing_sub_unsigned_ok w n a b Hw Hn Ha Hb) as H.
  destruct n as [|k]; [lia|].
  unfold I_saturating_sub_unsigned, I_checked_sub_unsigned, tuple_to_option.
  destruct (I_overflowing_sub_unsigned w a b) as [r f]. cbn [fst snd]. destruct H as (Hr & Hv & Hf).
  pose proof (sval_range w (S k) a Hw ltac:(lia) Ha). pose proof (uval_bounds w _ _ ltac:(lia) Hb).
  pose proof (Mod_even' w k Hw) as HE. pose proof (Mod_pos w (S k) ltac:(lia)) as HM.
  destruct f.
  - apply flag_true_out in Hf. rewrite (wf_length _ _ _ Ha).
    split; [apply IMIN_wf; auto|]. rewrite IMIN_sval by auto. lia.
  - apply flag_false_exact in Hf; try assumption. destruct Hf as [Hin Hw'].
    split; [exact Hr|]. rewrite Hv, Hw'. lia.
Qed.

Theorem I_saturating_neg_ok w n a : 0 < w -> (0 < n)%nat -> wf w n a ->
  wf w n (I_saturating_neg w a) /\
  sval w (I_saturating_neg w a) = Z.max (- (Mod w n / 2)) (Z.min (Mod w n / 2 - 1) (- sval w a)).
Proof.
  intros Hw Hn Ha. pose proof (I_overflowing_neg_ok w n a Hw Hn Ha) as H.
  destruct n as [|k]; [lia|].
  unfold I_saturating_neg, I_checked_neg, tuple_to_option.
  destruct (I_overflowing_neg w a) as [r f]. cbn [fst snd]. destruct H as (Hr & Hv & Hf).
  pose proof (sval_range w (S k) a Hw ltac:(lia) Ha).
  pose proof (Mod_even' w k Hw) as HE. pose proof (Mod_pos w (S k) ltac:(lia)) as HM.
  destruct f.
  - apply flag_true_out in Hf. rewrite (wf_length _ _ _ Ha).
    split; [apply IMAX_wf; auto|]. rewrite IMAX_sval by auto. lia.
  - apply flag_false_exact in Hf; try assumption. destruct Hf as [Hin Hw'].
    split; [exact Hr|]. rewrite Hv, Hw'. lia.
Qed.

Theorem I_saturating_abs_ok w n a : 0 < w -> (0 < n)%nat -> wf w n a ->
  wf w n (I_saturating_abs w a) /\
  sval w (I_saturating_abs w a) = Z.max (- (Mod w n / 2)) (Z.min (Mod w n / 2 - 1) (Z.abs (sval w a))).
Proof.
  intros Hw Hn Ha. pose proof (I_overflowing_abs_ok w n a Hw Hn Ha) as H.
  destruct n as [|k]; [lia|].
  unfold I_saturating_abs, I_checked_abs, tuple_to_option.
  destruct (I_overflowing_abs w a) as [r f]. cbn [fst snd]. destruct H as (Hr & Hv & Hf).
  pose proof (sval_range w (S k) a Hw ltac:(lia) Ha).
  pose proof (Mod_even' w k Hw) as HE. pose proof (Mod_pos w (S k) ltac:(lia)) as HM.
  destruct f.
  - apply flag_true_out in Hf. rewrite (wf_length _ _ _ Ha).
    split; [apply IMAX_wf; auto|]. rewrite IMAX_sval by auto. lia.
  - apply flag_false_exact in Hf; try assumption. destruct Hf as [Hin Hw'].
    split; [exact Hr|]. rewrite Hv, Hw'. lia.
Qed.

(* ================= 7. abs_diff, unsigned_abs ================= *)

Theorem U_abs_diff_ok w n a b : 0 < w -> wf w n a -> wf w n b ->
  wf w n (U_abs_diff w a b) /\ uval w (U_abs_diff w a b) = Z.abs (uval w a - uval w b).
Proof.
  intros Hw Ha Hb. unfold U_abs_diff, U_wrapping_sub.
  rewrite (ucmp_spec w ltac:(lia) n a b Ha Hb).
  pose proof (uval_bounds w _ _ ltac:(lia) Ha). pose proof (uval_bounds w _ _ ltac:(lia) Hb).
  pose proof (U_overflowing_sub_ok w n a b Hw Ha Hb) as H1.
  pose proof (U_overflowing_sub_ok w n b a Hw Hb Ha) as H2.
  destruct (U_overflowing_sub w a b) as [r1 f1]. destruct (U_overflowing_sub w b a) as [r2 f2].
  destruct H1 as (Hr1 & Hv1 & _). destruct H2 as (Hr2 & Hv2 & _). cbn [fst].
  destruct (Z.compare_spec (uval w a) (uval w b)); cbn [cmp_lt].
  - split; [exact Hr1|]. rewrite Hv1, Z.mod_small by lia. lia.
  - split; [exact Hr2|]. rewrite Hv2, Z.mod_small by lia. lia.
  - split; [exact Hr1|]. rewrite Hv1, Z.mod_small by lia. lia.
Qed.

Theorem I_abs_diff_ok w n a b : 0 < w -> (0 < n)%nat -> wf w n a -> wf w n b ->
  wf w n (I_abs_diff w a b) /\ uval w (I_abs_diff w a b) = Z.abs (sval w a - sval w b).
Proof.
  intros Hw Hn Ha Hb. destruct n as [|k]; [lia|].
  unfold I_abs_diff, I_wrapping_sub, U_wrapping_sub.
  rewrite (icmp_spec w k a b Hw Ha Hb).
  pose proof (sval_range w (S k) a Hw ltac:(lia) Ha). pose proof (sval_range w (S k) b Hw ltac:(lia) Hb).
  pose proof (Mod_even' w k Hw) as HE.
  pose proof (U_overflowing_sub_ok w _ a b Hw Ha Hb) as H1.
  pose proof (U_overflowing_sub_ok w _ b a Hw Hb Ha) as H2.
  destruct (U_overflowing_sub w a b) as [r1 f1]. destruct (U_overflowing_sub w b a) as [r2 f2].
  destruct H1 as (Hr1 & Hv1 & _). destruct H2 as (Hr2 & Hv2 & _). cbn [fst].
  rewrite <- (sub_mod_signed w (S k) a b) in Hv1 by assumption.
  rewrite <- (sub_mod_signed w (S k) b a) in Hv2 by assumption.
  destruct (Z.compare_spec (sval w a) (sval w b)); cbn [cmp_lt].
  - split; [exact Hr1|]. rewrite Hv1, Z.mod_small by lia. lia.
  - split; [exact Hr2|]. rewrite Hv2, Z.mod_small by lia. lia.
  - split; [exact Hr1|]. rewrite Hv1, Z.mod_small by lia. lia.
Qed.

Theorem I_unsigned_abs_ok w n a : 0 < w -> (0 < n)%nat -> wf w n a ->
  wf w n (I_unsigned_abs w a) /\ uval w (I_unsigned_abs w a) = Z.abs (sval w a).
Proof.
  intros Hw Hn Ha. destruct n as [|k]; [lia|].
  unfold I_unsigned_abs, I_wrapping_neg, I_overflowing_neg.
  rewrite (is_negative_spec w k a Hw Ha).
  pose proof (sval_range w (S k) a Hw ltac:(lia) Ha).
  pose proof (Mod_even' w k Hw) as HE. pose proof (Mod_pos w (S k) ltac:(lia)) as HM.
  destruct (Z.ltb_spec (sval w a) 0).
  - pose proof (ineg_loop_spec w Hw k a Ha) as H1. destruct (ineg_loop w a) as [r f].
    destruct H1 as (Hr & Hv & _). cbn [fst]. split; [exact Hr|].
    rewrite (uval_of_sval w (S k) r Hw Hr), Hv, wrapS_mod, Z.mod_small by lia. lia.
  - split; [exact Ha|].
    pose proof (sval_as_uval w (S k) a Ha) as E. pose proof (uval_bounds w _ _ ltac:(lia) Ha).
    destruct (Z.leb_spec (Mod w (S k) / 2) (uval w a)); cbn [b2z] in E; lia.
Qed.

(* ================= 8. midpoint ================= *)

Lemma U_shr_1 dbg w x : 1 < bits w (length x) ->
  U_shr dbg w x 1 = Ret (shr_pad_internal w false x 1).
Proof.
  intros H. unfold U_shr, U_strict_shr, U_checked_shr, U_wrapping_shr, U_overflowing_shr, option_expect.
  destruct (Z.leb_spec (bits w (length x)) 1); [lia|]. destruct dbg; reflexivity.
Qed.

Lemma I_shr_1 dbg w x : 1 < bits w (length x) ->
  I_shr dbg w x 1 = Ret (shr_pad_internal w (is_negative w x) x 1).
Proof.
  intros H. unfold I_shr, I_strict_shr, I_checked_shr, I_wrapping_shr, I_overflowing_shr,
    tuple_to_option, option_expect.
  destruct (Z.leb_spec (bits w (length x)) 1); [lia|]. destruct dbg; reflexivity.
Qed.

Lemma bits_gt_1 w n : 2 <= w -> (0 < n)%nat -> 1 < bits w n.
Proof. intros. unfold bits. nia. Qed.

Lemma half_sum L X : (2 * L + X) / 2 = L + X / 2.
Proof. rewrite Z.add_comm, (Z.mul_comm 2 L), Z.div_add by lia. ring. Qed.

Theorem U_midpoint_ok dbg w n a b : 2 <= w -> (0 < n)%nat -> wf w n a -> wf w n b ->
  exists r, U_midpoint dbg w a b = Ret r /\ wf w n r /\ uval w r = (uval w a + uval w b) / 2.
Proof.
  intros Hw Hn Ha Hb. unfold U_midpoint.
  pose proof (bitxor_wf w n a b ltac:(lia) Ha Hb) as Hx.
  pose proof (bitand_wf w n a b ltac:(lia) Ha Hb) as Hl.
  rewrite U_shr_1 by (rewrite (wf_length _ _ _ Hx); apply bits_gt_1; assumption).
  cbn [obind].
  destruct (shr1_false w n (bitxor a b) Hw Hx) as [Hh Hhv].
  set (h := shr_pad_internal w false (bitxor a b) 1) in *.
  pose proof (U_add_projections w (bitand a b) h dbg) as HP.
  pose proof (U_overflowing_add_ok w n (bitand a b) h ltac:(lia) Hl Hh) as HO.
  destruct (U_overflowing_add w (bitand a b) h) as [r f].
  destruct HP as (_ & _ & _ & HP). destruct HO as (Hr & Hv & Hf).
  rewrite Hhv, (uval_bitand w n), (uval_bitxor w n) in Hv, Hf by (assumption || lia).
  pose proof (add_land_lxor (uval w a) (uval w b)) as E.
  pose proof (uval_bounds w _ _ ltac:(lia) Ha). pose proof (uval_bounds w _ _ ltac:(lia) Hb).
  rewrite E, half_sum.
  set (L := Z.land (uval w a) (uval w b)) in *. set (X := Z.lxor (uval w a) (uval w b)) in *.
  pose proof (uval_bounds w _ _ ltac:(lia) Hl) as BL. rewrite (uval_bitand w n) in BL by (assumption || lia). fold L in BL.
  pose proof (uval_bounds w _ _ ltac:(lia) Hx) as BX. rewrite (uval_bitxor w n) in BX by (assumption || lia). fold X in BX.
  assert (0 <= L + X / 2 < Mod w n).
  { rewrite <- half_sum. split; [apply Z.div_pos; lia | apply Z.div_lt_upper_bound; lia]. }
  assert (Ef : f = false) by (rewrite Hf; apply Z.leb_gt; lia). clear Hf. subst f.
  exists r. split; [exact HP|]. split; [exact Hr|]. rewrite Hv. apply Z.mod_small. assumption.
Qed.

Lemma Mod_pow w n : Mod w n = 2 ^ (bits w n).
Proof. reflexivity. Qed.

Lemma Mod_half_pow w k : 0 < w -> Mod w (S k) / 2 = 2 ^ (bits w (S k) - 1).
Proof.
  intros Hw. rewrite Mod_pow. rewrite (pow2_half (bits w (S k))) by (unfold bits; nia).
  rewrite Z.mul_comm. apply Z.div_mul. lia.
Qed.

Lemma sval_testbit w k a : 0 < w -> wf w (S k) a ->
  sval w a = uval w a - Mod w (S k) * b2z (Z.testbit (uval w a) (bits w (S k) - 1)).
Proof.
  intros Hw Ha. rewrite (sval_as_uval w (S k) a Ha). rewrite Mod_half_pow by assumption.
  rewrite testbit_top; [reflexivity | unfold bits; nia |].
  rewrite <- Mod_pow. apply uval_bounds; [lia | assumption].
Qed.

Lemma sval_land_lxor w k a b : 0 < w -> wf w (S k) a -> wf w (S k) b ->
  sval w a + sval w b = 2 * sval w (bitand a b) + sval w (bitxor a b).
Proof.
  intros Hw Ha Hb.
  pose proof (bitxor_wf w _ a b ltac:(lia) Ha Hb) as Hx.
  pose proof (bitand_wf w _ a b ltac:(lia) Ha Hb) as Hl.
  rewrite (sval_testbit w k a Hw Ha), (sval_testbit w k b Hw Hb), (sval_testbit w k _ Hw Hl), (sval_testbit w k _ Hw Hx).
  rewrite (uval_bitand w (S k)), (uval_bitxor w (S k)) by (assumption || lia).
  rewrite Z.land_spec, Z.lxor_spec.
  pose proof (add_land_lxor (uval w a) (uval w b)).
  destruct (Z.testbit (uval w a) _), (Z.testbit (uval w b) _); cbn [b2z andb xorb]; lia.
Qed.

Lemma shr1_signed w k x : 2 <= w -> wf w (S k) x ->
  wf w (S k) (shr_pad_internal w (is_negative w x) x 1) /\
  sval w (shr_pad_internal w (is_negative w x) x 1) = sval w x / 2.
Proof.
  intros Hw Hx. rewrite (is_negative_uval w k x ltac:(lia) Hx).
  pose proof (uval_bounds w _ _ ltac:(lia) Hx) as BX.
  pose proof (Mod_even' w k ltac:(lia)) as HE.
  rewrite (sval_as_uval w (S k) x Hx).
  destruct (Z.leb_spec (Mod w (S k) / 2) (uval w x)); cbn [b2z].
  - destruct (shr1_true w (S k) x Hw ltac:(lia) Hx) as [Hh Hv]. split; [exact Hh|].
    rewrite (sval_of_uval_big w (S k) _ Hh) by (rewrite Hv; assert (0 <= uval w x / 2) by (apply Z.div_pos; lia); lia).
    rewrite Hv. set (h := Mod w (S k) / 2) in *.
    replace (uval w x - Mod w (S k) * 1) with (uval w x + (- h) * 2) by lia.
    rewrite Z.div_add by lia. lia.
  - destruct (shr1_false w (S k) x Hw Hx) as [Hh Hv]. split; [exact Hh|].
    rewrite Z.mul_0_r, Z.sub_0_r.
    assert (uval w x / 2 < Mod w (S k) / 2) by (apply Z.div_lt_upper_bound; lia).
    rewrite (sval_of_uval_small w (S k) _ Hh) by (rewrite Hv; assumption). exact Hv.
Qed.

Lemma quot2_floor S : Z.quot S 2 = if (S / 2 <? 0) && Z.odd S then S / 2 + 1 else S / 2.
Proof.
  rewrite Zodd_mod.
  destruct (Z.ltb_spec (S / 2) 0); destruct (Zeq_bool (S mod 2) 1) eqn:E; cbn [andb];
    [apply Zeq_bool_eq in E | apply Zeq_bool_neq in E | |];
    Z.to_euclidean_division_equations; lia.
Qed.

Theorem I_midpoint_ok dbg w n a b : 2 <= w -> (0 < n)%nat -> wf w n a -> wf w n b ->
  exists r, I_midpoint dbg w a b = Ret r /\ wf w n r /\ sval w r = Z.quot (sval w a + sval w b) 2.
Proof.
  intros Hw Hn Ha Hb. destruct n as [|k]; [lia|]. unfold I_midpoint.
  assert (Hw' : 0 < w) by lia.
  pose proof (bitxor_wf w _ a b ltac:(lia) Ha Hb) as Hx.
  pose proof (bitand_wf w _ a b ltac:(lia) Ha Hb) as Hl.
  pose proof (bits_gt_1 w (S k) Hw ltac:(lia)) as Hbits.
  rewrite I_shr_1 by (rewrite (wf_length _ _ _ Hx); assumption).
  cbn [obind].
  destruct (shr1_signed w k (bitxor a b) Hw Hx) as [Hh Hhv].
  set (h := shr_pad_internal w (is_negative w (bitxor a b)) (bitxor a b) 1) in *.
  pose proof (sval_land_lxor w k a b Hw' Ha Hb) as E.
  pose proof (sval_range w (S k) a Hw' ltac:(lia) Ha) as RA.
  pose proof (sval_range w (S k) b Hw' ltac:(lia) Hb) as RB.
  pose proof (Mod_even' w k Hw') as HE. pose proof (Mod_pos w (S k) ltac:(lia)) as HM.
  set (M := Mod w (S k)) in *. set (Sm := sval w a + sval w b) in *.
  assert (HT : - (M / 2) <= Sm / 2 < M / 2).
  { split; [apply Z.div_le_lower_bound; lia | apply Z.div_lt_upper_bound; lia]. }
  (* first add: never overflows *)
  pose proof (I_add_projections w (S k) (bitand a b) h dbg Hw' ltac:(lia) Hl Hh) as HP.
  pose proof (I_overflowing_add_ok w (S k) (bitand a b) h Hw' ltac:(lia) Hl Hh) as HO.
  destruct (I_overflowing_add w (bitand a b) h) as [t f].
  destruct HP as (_ & _ & _ & HP). destruct HO as (Ht & Hv & Hf).
  fold M in Hv, Hf. rewrite Hhv, <- half_sum, <- E in Hv, Hf.
  rewrite (negb_inS_false M (Sm / 2) HE HT) in Hf. subst f.
  rewrite wrapS_id in Hv by assumption.
  rewrite HP. cbn [obind].
  (* the rounding fix-up *)
  rewrite (is_negative_spec w k t Hw' Ht), Hv.
  rewrite (hd_odd w (S k) _ Hw' Hx).
  assert (HO : Z.odd (uval w (bitxor a b)) = Z.odd Sm).
  { rewrite E.
    rewrite (sval_as_uval w (S k) _ Hx). fold M.
    set (c := b2z (M / 2 <=? uval w (bitxor a b))).
    replace (2 * sval w (bitand a b) + (uval w (bitxor a b) - M * c))
      with (uval w (bitxor a b) + 2 * (sval w (bitand a b) - (M / 2) * c)) by lia.
    rewrite Z.odd_add_mul_2. reflexivity. }
  rewrite HO, (wf_length _ _ _ Ha). rewrite quot2_floor.
  destruct ((Sm / 2 <? 0) && Z.odd Sm) eqn:C.
  - apply andb_true_iff in C. destruct C as [C1 C2]. apply Z.ltb_lt in C1.
    pose proof (I_add_projections w (S k) t (ONE (S k)) dbg Hw' ltac:(lia) Ht (ONE_wf w _ Hw')) as HP2.
    pose proof (I_overflowing_add_ok w (S k) t (ONE (S k)) Hw' ltac:(lia) Ht (ONE_wf w _ Hw')) as HO2.
    destruct (I_overflowing_add w t (ONE (S k))) as [t2 f2].
    destruct HP2 as (_ & _ & _ & HP2). destruct HO2 as (Ht2 & Hv2 & Hf2).
    fold M in Hv2, Hf2. rewrite (ONE_sval w k Hw' Hbits), Hv in Hv2, Hf2.
    rewrite (negb_inS_false M (Sm / 2 + 1) HE ltac:(lia)) in Hf2. subst f2.
    rewrite wrapS_id in Hv2 by lia.
    exists t2. split; [exact HP2|]. split; assumption.
  - exists t. split; [reflexivity|]. split; assumption.
Qed.

From Bnum Require Import Base Prim.
From Bnum.Model Require Import Digit Core Shift AddSub.
From Bnum.Proofs Require Import AddSubLemmas Bitwise.

(* Proofs/Consts.v — facts about the constants and the tables regenerated from the source. *)
From Bnum Require Import Base Prim.
From Bnum.Model Require Import Core Consts.
From Bnum.Generated Require Import Config.
From Bnum.Proofs Require Import AddSubLemmas.
From Coq Require Import String DecimalString.
Import ListNotations.

(* what each constant's NAME advertises *)
Definition advertised : list (string * Z) :=
  [("ZERO", 0); ("ONE", 1); ("TWO", 2); ("THREE", 3); ("FOUR", 4); ("FIVE", 5); ("SIX", 6); ("SEVEN", 7);
   ("EIGHT", 8); ("NINE", 9); ("TEN", 10); ("NEG_ONE", -1); ("NEG_TWO", -2); ("NEG_THREE", -3); ("NEG_FOUR", -4);
   ("NEG_FIVE", -5); ("NEG_SIX", -6); ("NEG_SEVEN", -7); ("NEG_EIGHT", -8); ("NEG_NINE", -9); ("NEG_TEN", -10)]%string.

Definition names (t : list (string * Z)) : list string := map fst t.
Definition string_list_eqb (a b : list string) : bool :=
  Nat.eqb (List.length a) (List.length b) && forallb (fun p => String.eqb (fst p) (snd p)) (combine a b).

(* finite-table facts: decided by computation over the tables regenerated from the source *)
Definition tables_ok : bool :=
  forallb (fun e => match assoc advertised (fst e) with Some v => Z.eqb v (snd e) | None => false end) u_pos_consts
  && forallb (fun e => match assoc advertised (fst e) with Some v => Z.eqb v (snd e) | None => false end) i_pos_consts
  && forallb (fun e => match assoc advertised (fst e) with Some v => Z.eqb v (- snd e) | None => false end) i_neg_consts
  && string_list_eqb (names u_pos_consts) ["ONE"; "TWO"; "THREE"; "FOUR"; "FIVE"; "SIX"; "SEVEN"; "EIGHT"; "NINE"; "TEN"]%string
  && string_list_eqb (names i_pos_consts) ["TWO"; "THREE"; "FOUR"; "FIVE"; "SIX"; "SEVEN"; "EIGHT"; "NINE"; "TEN"]%string
  && string_list_eqb (names i_neg_consts) ["NEG_ONE"; "NEG_TWO"; "NEG_THREE"; "NEG_FOUR"; "NEG_FIVE"; "NEG_SIX"; "NEG_SEVEN";
                                            "NEG_EIGHT"; "NEG_NINE"; "NEG_TEN"]%string
  && forallb snd const_shapes.

Lemma tables_ok_true : tables_ok = true.
Proof. vm_compute. reflexivity. Qed.

Definition decimal (z : Z) : string := NilZero.string_of_uint (N.to_uint (Z.to_N z)).

(* every alias names exactly its width: U<bits> / I<bits> with bits = 64 * (bits / 64) *)
Definition aliases_ok : bool :=
  forallb (fun a => let '(bits, u, i) := a in
             String.eqb u ("U" ++ decimal bits) && String.eqb i ("I" ++ decimal bits)
             && Z.eqb (64 * (bits / alias_divisor_u)) bits && Z.eqb (64 * (bits / alias_divisor_i)) bits && Z.ltb 0 bits) aliases
  && string_list_eqb (map (fun a => snd (fst a)) aliases) ["U128"; "U256"; "U512"; "U1024"; "U2048"; "U4096"; "U8192"]%string
  && string_list_eqb (map snd aliases) ["I128"; "I256"; "I512"; "I1024"; "I2048"; "I4096"; "I8192"]%string.

Lemma aliases_ok_true : aliases_ok = true.
Proof. vm_compute. reflexivity. Qed.

Lemma alias_bits_ok bits u i : In (bits, u, i) aliases -> alias_bits bits = Some (bits, bits).
Proof.
  intros Hin. pose proof aliases_ok_true as H. unfold aliases_ok in H.
  apply andb_prop in H. destruct H as [H _]. apply andb_prop in H. destruct H as [H _].
  rewrite forallb_forall in H. specialize (H _ Hin). cbn beta iota in H.
  repeat (apply andb_prop in H; destruct H as [H ?]).
  unfold alias_bits.
  assert (He : existsb (fun a => Z.eqb (fst (fst a)) bits) aliases = true).
  { apply existsb_exists. exists (bits, u, i). split; [exact Hin | cbn; apply Z.eqb_refl]. }
  rewrite He. unfold BITS.
  apply Z.eqb_eq in H1, H2. apply Z.ltb_lt in H0.
  assert (0 <= bits / alias_divisor_u) by lia. assert (0 <= bits / alias_divisor_i) by lia.
  rewrite !Z2Nat.id by assumption. rewrite H1, H2. reflexivity.
Qed.

(* the four instantiations use the digit widths 8, 16, 32, 64, each with a digit module whose signed
   digit has the same width and whose double digit is twice as wide *)
Definition instantiations_ok : bool :=
  forallb (fun e => let d := snd e in
             existsb (fun m => let '(a, b, c) := m in Z.eqb a d && Z.eqb b d && Z.eqb c (2 * d)) digit_modules
             && (Z.eqb d 8 || Z.eqb d 16 || Z.eqb d 32 || Z.eqb d 64)) instantiations
  && Nat.eqb (List.length instantiations) 4
  && forallb (fun d => existsb (fun e => Z.eqb (snd e) d) instantiations) [8; 16; 32; 64].
Lemma instantiations_ok_true : instantiations_ok = true.
Proof. vm_compute. reflexivity. Qed.

(* ---- value facts, for every digit width and digit count ---- *)

Lemma from_digit_wf w n d : 0 < w -> 0 <= d < B w -> wf w n (from_digit n d).
Proof.
  intros Hw Hd. destruct n as [|k]; [apply wf_nil|]. cbn [from_digit]. apply wf_cons. split; [exact Hd|].
  apply ZERO_wf. lia.
Qed.

Lemma from_digit_uval w k d : uval w (from_digit (S k) d) = d.
Proof. cbn [from_digit uval]. change (repeat 0 k) with (ZERO k). rewrite ZERO_uval. lia. Qed.

Lemma U_pos_const_ok w k num : 0 < w -> 0 <= num < B w ->
  wf w (S k) (U_pos_const (S k) num) /\ uval w (U_pos_const (S k) num) = num.
Proof. intros Hw Hn. split; [apply from_digit_wf; assumption | apply from_digit_uval]. Qed.

Lemma I_neg_const_ok w k num : 0 < w -> 1 <= num <= B w / 2 ->
  wf w (S k) (I_neg_const w (S k) num) /\ sval w (I_neg_const w (S k) num) = - num.
Proof.
  intros Hw Hn.
  assert (HB : 2 <= B w) by (apply B_ge_2; exact Hw).
  assert (Hh : 2 * (B w / 2) <= B w) by (apply Z.mul_div_le; lia).
  unfold I_neg_const. cbn [UMAX repeat].
  assert (Hwf : wf w (S k) ((u_max w - (num - 1)) :: repeat (u_max w) k)).
  { apply wf_cons. split; [unfold digit_ok, u_max; lia|]. apply (UMAX_wf w k). lia. }
  split; [exact Hwf|].
  assert (Hu : uval w ((u_max w - (num - 1)) :: repeat (u_max w) k) = Mod w (S k) - num).
  { cbn [uval]. change (repeat (u_max w) k) with (UMAX w k). rewrite UMAX_uval by lia.
    rewrite Mod_S by lia. unfold u_max. ring. }
  unfold sval. rewrite (wf_length _ _ _ Hwf), Hu.
  pose proof (Mod_even w (S k) Hw ltac:(lia)) as He.
  assert (B w <= Mod w (S k)).
  { rewrite Mod_S by lia. pose proof (Mod_pos w k ltac:(lia)). nia. }
  assert (Mod w (S k) / 2 >= B w / 2).
  { apply Z.le_ge. apply Z.div_le_mono; lia. }
  unfold to_signed. destruct (Z.ltb_spec (Mod w (S k) - num) (Mod w (S k) / 2)); lia.
Qed.

Lemma BYTES_ok w n : BYTES w n = BITS w n / 8.
Proof. reflexivity. Qed.
Lemma BITS_ok w n : BITS w n = Z.of_nat n * w.
Proof. unfold BITS. ring. Qed.

(* Proofs/NtGenTieDeps.v — the three functions that Generated/NtGen.v calls through the LOCAL models of Model/NumTraits.v
   (`self.to_u128()`, `u32 -> Self` and `u128 -> Self` by `.into()`) are tied to the source elsewhere against OTHER hand models:
   `to_int!` in Proofs/ConvGenTieC19.v against Model/NumConv.v U_to_int, `from_uint!` in Proofs/LoopsTieC13.v against
   Model/Convert.v U_from_uint.  Here: the local models agree with those, for well-formed operands of every digit width whose
   relation to 128 is one of Rust's (wider than 128 bits, or dividing 128), and - for `into` - whenever the value fits the
   type (the conversions then do not panic; an index panic of `from_uint!` for a value that does not fit is modelled on both
   sides, but their agreement there is not proved here: both are exercised by the differential checks of C18 / C13). *)
From Bnum Require Import Base Prim.
From Bnum.Model Require Import Digit Core NumTraits.
From Bnum.Model Require Convert NumConv.
From Bnum.Proofs Require Import CastLemmas Convert NumConv NumTraits.

Lemma nt_to_u128_models_agree dbg w n a :
  0 < w -> (0 < n)%nat -> wf w n a -> 128 < w \/ (w | 128) ->
  NumTraits.U_to_u128 w a = NumConv.U_to_int dbg 128 false w a.
Proof.
  intros Hw Hn Ha Hdiv.
  assert (Hok : u128_width_ok w).
  { destruct Hdiv as [H|[q Hq]]; [left; exact H|right]. rewrite Hq. apply Z.mod_mul. lia. }
  rewrite (U_to_u128_spec w n a Hw Hok Hn Ha).
  pose proof (ToPrimitive_int_ok dbg w n false NumConv.PU128 a Hw Hn Hdiv Ha) as H.
  unfold NumConv.ToPrimitive_int in H. cbn [NumConv.pty_bits NumConv.pty_signed] in H. rewrite H.
  unfold prim_inb, source_value.
  pose proof (uval_bounds w n a ltac:(lia) Ha) as Hb.
  destruct (Z.leb_spec 0 (uval w a)); [reflexivity|lia].
Qed.

Lemma nt_from_uint_models_agree dbg pb w n v :
  0 < w -> 0 < pb -> 0 <= v < 2 ^ pb -> v < Mod w n ->
  NumTraits.U_from_uint w n pb v = Convert.U_from_uint dbg pb w n v.
Proof.
  intros Hw Hpb Hv Hfit.
  destruct (U_from_uint_spec w n pb v Hw Hpb Hv Hfit) as (r & Er & Wr & Vr).
  rewrite Er, (U_from_uint_ok dbg pb w n v Hw Hpb Hv Hfit). f_equal.
  apply (uval_inj w n); [lia|exact Wr|apply digits_of_wf; exact Hw|].
  rewrite Vr, digits_of_uval by exact Hw. symmetry. apply Z.mod_small. lia.
Qed.

Theorem nt_local_models_agree :
  (forall dbg w n a, 0 < w -> (0 < n)%nat -> wf w n a -> 128 < w \/ (w | 128) ->
     NumTraits.U_to_u128 w a = NumConv.U_to_int dbg 128 false w a) /\
  (forall dbg w n v, 0 < w -> 0 <= v < 2 ^ 32 -> v < Mod w n ->
     NumTraits.U_from_u32 w n v = Convert.U_from_uint dbg 32 w n v) /\
  (forall dbg w n v, 0 < w -> 0 <= v < 2 ^ 128 -> v < Mod w n ->
     NumTraits.U_from_u128 w n v = Convert.U_from_uint dbg 128 w n v).
Proof.
  split; [exact nt_to_u128_models_agree|]. split.
  - intros. apply nt_from_uint_models_agree; [assumption|lia|assumption|assumption].
  - intros. apply nt_from_uint_models_agree; [assumption|lia|assumption|assumption].
Qed.
